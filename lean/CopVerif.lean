import CopVerif.Base.Num
import CopVerif.Model.BivBase
import CopVerif.Gen.Bivariate
