import CopVerif.Driver.Estimators
/-! Driver main for property C04 (estimators): `lake env lean --run Main/Estimators.lean`. -/
def main : IO Unit := CopVerif.IO.serve fun ws =>
  match ws with
  | "est" :: rest => CopVerif.Driver.estimators rest
  | _ => "bad-op"
