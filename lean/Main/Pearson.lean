import CopVerif.Driver.Pearson
/-! Driver main for the Gaussian-copula correlation model (C02): `lake env lean --run Main/Pearson.lean`. -/
def main : IO Unit := CopVerif.IO.serve fun ws =>
  match ws with
  | "gc" :: rest => CopVerif.Driver.pearsonCmd rest
  | _ => "bad-op"
