import CopVerif.Driver.SelectCopula
/-! Driver main for C11: `lake env lean --run Main/SelectCopula.lean`. -/
def main : IO Unit := CopVerif.IO.serve fun ws =>
  match ws with
  | "selcop" :: rest => CopVerif.Driver.selcop rest
  | _ => "bad-op"
