import CopVerif.Driver.Vine
/-! Driver main for the vine structure model: `lake env lean --run Main/Vine.lean`. -/
def main : IO Unit := CopVerif.IO.serve fun ws =>
  match ws with
  | "vine" :: rest => CopVerif.Driver.Vine.vine rest
  | _ => "bad-op"
