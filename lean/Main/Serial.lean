import CopVerif.Driver.Serial
/-! Driver main for property C14: `lake env lean --run Main/Serial.lean`. -/
def main : IO Unit := CopVerif.IO.serve fun ws =>
  match ws with
  | "serial" :: rest => CopVerif.Driver.serial rest
  | _ => "bad-op"
