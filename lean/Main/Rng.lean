import CopVerif.Driver.Rng
/-! Driver main for the RNG-protocol model (C15): `lake env lean --run Main/Rng.lean`. -/
def main : IO Unit := CopVerif.IO.serve fun ws =>
  match ws with
  | "rng" :: rest => CopVerif.Driver.rng rest
  | _ => "bad-op"
