import CopVerif.Driver.GaussSample
/-! Driver main for the Gaussian-copula sampler model: `lake env lean --run Main/GaussSample.lean`. -/
def main : IO Unit := CopVerif.IO.serve fun ws =>
  match ws with
  | "gs" :: rest => CopVerif.Driver.gaussSample rest
  | _ => "bad-op"
