import CopVerif.Driver.GaussTransform
/-! Driver main for the Gaussian-copula transform model (C13): `lake env lean --run Main/GaussTransform.lean`. -/
def main : IO Unit := CopVerif.IO.serve fun ws =>
  match ws with
  | "gt" :: rest => CopVerif.Driver.GaussTransform.gaussTransform rest
  | _ => "bad-op"
