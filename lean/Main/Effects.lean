import CopVerif.Driver.Effects
/-! Driver main for C20 (write-effect checker + plot model): `lake env lean --run Main/Effects.lean`.
    The generated module is decoded once, here. -/
def main : IO Unit := do
  let m := CopVerif.Gen.Effects.module?
  CopVerif.IO.serve fun ws =>
    match ws with
    | "effects" :: rest =>
      match m with
      | some m => CopVerif.Driver.effects m rest
      | none => "bad-module"
    | "plot" :: rest => CopVerif.Driver.plot rest
    | _ => "bad-op"
