import CopVerif.Driver.Effects
/-! Driver main for C20 (write-effect checker + plot model): `lake env lean --run Main/Effects.lean`. -/
def main : IO Unit := CopVerif.IO.serve fun ws =>
  match ws with
  | "effects" :: rest => CopVerif.Driver.effects rest
  | "plot" :: rest => CopVerif.Driver.plot rest
  | _ => "bad-op"
