import CopVerif.Driver.VineFlow
/-! Driver main for the vine data-flow model (C17): `lake env lean --run Main/VineFlow.lean`. -/
def main : IO Unit := CopVerif.IO.serve fun ws =>
  match ws with
  | "flow" :: rest => CopVerif.Driver.VineFlow.flow rest
  | _ => "bad-op"
