import CopVerif.Driver.Biv
/-! Driver main for the bivariate families: `lake env lean --run Main/Biv.lean`. -/
def main : IO Unit := CopVerif.IO.serve fun ws =>
  match ws with
  | "biv" :: rest => CopVerif.Driver.biv rest
  | _ => "bad-op"
