import CopVerif.Driver.Lifecycle
/-! Driver main for the life-cycle model (C19): `lake env lean --run Main/Lifecycle.lean`. -/
def main : IO Unit := CopVerif.IO.serve fun ws =>
  match ws with
  | "life" :: rest => CopVerif.Driver.lifecycle rest
  | _ => "bad-op"
