import CopVerif.Driver.Select
/-! Driver main for property C05: `lake env lean --run Main/Select.lean`. -/
def main : IO Unit := CopVerif.IO.serve fun ws =>
  match ws with
  | "select" :: rest => CopVerif.Driver.select rest
  | _ => "bad-op"
