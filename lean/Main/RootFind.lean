import CopVerif.Driver.RootFind
/-! Driver main for the root finders: `lake env lean --run Main/RootFind.lean`. -/
def main : IO Unit := CopVerif.IO.serve fun ws =>
  match ws with
  | "rootfind" :: rest => CopVerif.Driver.rootfind rest
  | _ => "bad-op"
