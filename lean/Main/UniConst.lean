import CopVerif.Driver.UniConst
/-! Driver main for the univariate models (C03): `lake env lean --run Main/UniConst.lean`. -/
def main : IO Unit := CopVerif.IO.serve fun ws =>
  match ws with
  | "uc" :: rest => CopVerif.Driver.uniconst rest
  | _ => "bad-op"
