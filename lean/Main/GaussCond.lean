import CopVerif.Driver.GaussCond
/-! Driver main for the C12 conditional-sampling model: `lake env lean --run Main/GaussCond.lean`. -/
def main : IO Unit := CopVerif.IO.serve fun ws =>
  match ws with
  | "cond" :: rest => CopVerif.Driver.gaussCond rest
  | _ => "bad-op"
