import CopVerif.Base.FloatIO
import CopVerif.Driver.Biv
/-! Line-protocol driver: one request per line on stdin, one reply per line on stdout.
    Run with `lake env lean --run Driver.lean`.  Floats are 16-hex-digit bit patterns. -/
open CopVerif CopVerif.IO

def dispatch (ws : List String) : String :=
  match ws with
  | "biv" :: rest => Driver.biv rest
  | "ping" :: _ => "pong"
  | _ => "bad-op"

partial def loop (h : IO.FS.Stream) (out : IO.FS.Stream) : IO Unit := do
  let line ← h.getLine
  if line.isEmpty then return ()
  let ws := (line.trimAscii.toString.splitOn " ").filter (· ≠ "")
  out.putStrLn (dispatch ws)
  out.flush
  loop h out

def main : IO Unit := do loop (← IO.getStdin) (← IO.getStdout)
