import CopVerif.Lemmas.VineDirect
/-!
  `RegularTree`: Prim's loop in the first tree and the constrained loop in the k-th tree, for
  every accepted sequence of choices.
-/
set_option linter.unusedSimpArgs false
set_option linter.unusedSectionVars false
set_option linter.unusedVariables false
namespace CopVerif.Model.Vine

theorem mem_candsFirst {n : Nat} {vis : List Nat} {x k : Nat} :
    (x, k) ∈ candsFirst n vis ↔ x ∈ vis ∧ k < n ∧ k ∉ vis ∧ k ≠ x := by
  simp only [candsFirst, List.mem_flatMap, List.mem_filterMap, List.mem_range]
  constructor
  · rintro ⟨x', hx', k', hk', h⟩
    split_ifs at h with hc
    · simp only [Option.some.injEq, Prod.mk.injEq] at h
      obtain ⟨rfl, rfl⟩ := h
      simp only [Bool.and_eq_true, Bool.not_eq_true', bne_iff_ne, ne_eq] at hc
      exact ⟨hx', hk', by simpa using hc.1, hc.2⟩
  · rintro ⟨hx, hk, hkv, hne⟩
    refine ⟨x, hx, k, hk, ?_⟩
    have : (!vis.contains k && k != x) = true := by simp [hkv, hne]
    rw [if_pos this]

theorem mem_candsKth {level n : Nat} {prev : Tree} {vis : List Nat} {x k : Nat} :
    (x, k) ∈ candsKth level n prev vis ↔ x ∈ vis ∧ k < n ∧ k ∉ vis ∧ k ≠ x ∧
      checkConstraint level (prev.getD x default) (prev.getD k default) = true := by
  simp only [candsKth, List.mem_flatMap, List.mem_filterMap, List.mem_range]
  constructor
  · rintro ⟨x', hx', k', hk', h⟩
    split_ifs at h with hc
    · simp only [Option.some.injEq, Prod.mk.injEq] at h
      obtain ⟨rfl, rfl⟩ := h
      simp only [Bool.and_eq_true, Bool.not_eq_true', bne_iff_ne, ne_eq] at hc
      exact ⟨hx', hk', by simpa using hc.1.1, hc.1.2, hc.2⟩
  · rintro ⟨hx, hk, hkv, hne, hcc⟩
    refine ⟨x, hx, k, hk, ?_⟩
    have : (!vis.contains k && k != x &&
        checkConstraint level (prev.getD x default) (prev.getD k default)) = true := by
      simp only [Bool.and_eq_true, Bool.not_eq_true', bne_iff_ne, ne_eq]
      exact ⟨⟨by simpa using hkv, hne⟩, hcc⟩
    rw [if_pos this]

theorem checkConstraint_iff {level : Nat} {e f : Edge} :
    checkConstraint level e f = true ↔ (norm (e.vars ++ f.vars)).length = level + 1 := by
  have : norm ([e.L, e.R, f.L, f.R] ++ e.D ++ f.D) = norm (e.vars ++ f.vars) := by
    apply sorted_ext (sorted_norm _) (sorted_norm _)
    intro a
    simp only [mem_norm, List.mem_append, List.mem_cons, Edge.mem_vars, List.mem_nil_iff,
      or_false]
    tauto
  unfold checkConstraint
  rw [this, beq_iff_eq]

/-- `|A ∪ B| + |A ∩ B| = |A| + |B|` for duplicate-free lists. -/
theorem length_union_add_inter {A B : List Nat} (hA : A.Nodup) (hB : B.Nodup) :
    (norm (A ++ B)).length + (inter A B).length = A.length + B.length := by
  classical
  have h1 : (norm (A ++ B)).length = (A.toFinset ∪ B.toFinset).card := by
    rw [← List.toFinset_card_of_nodup (nodup_of_sorted (sorted_norm _))]
    congr 1; ext a; simp [mem_norm]
  have h2 : (inter A B).length = (A.toFinset ∩ B.toFinset).card := by
    unfold inter
    rw [← List.toFinset_card_of_nodup (hA.filter _)]
    congr 1; ext a; simp
  rw [h1, h2, Finset.card_union_add_card_inter, List.toFinset_card_of_nodup hA,
    List.toFinset_card_of_nodup hB]

/-- `Grows` depends on the visited list only through its members. -/
theorem Grows.congr {n : Nat} {vis : List Nat} {pairs : List (Nat × Nat)} (h : Grows n vis pairs) :
    ∀ {vis' : List Nat}, (∀ x, x ∈ vis ↔ x ∈ vis') → Grows n vis' pairs := by
  induction h with
  | nil vis => intro vis' _; exact .nil _
  | fwd ha hb hn _ ih =>
    intro vis' hv
    exact .fwd ((hv _).mp ha) (fun h => hb ((hv _).mpr h)) hn
      (ih (by intro x; simp only [List.mem_cons, hv x]))
  | bwd hb ha hn _ ih =>
    intro vis' hv
    exact .bwd ((hv _).mp hb) (fun h => ha ((hv _).mpr h)) hn
      (ih (by intro x; simp only [List.mem_cons, hv x]))

namespace LevelInv
variable {k : Nat} {pp : Option Tree} {prev : Tree}

/-- **`_check_constraint` ⇔ proximity** on the edges of a regular-vine tree (level `k`, checked
    by the tree of `self.level = k + 2`). -/
theorem checkConstraint_iff_share (h : LevelInv k pp prev) {i j : Nat} (hi : i < prev.length)
    (hj : j < prev.length) (hij : i ≠ j) :
    checkConstraint (k + 2) (prev.getD i default) (prev.getD j default) = true ↔
      ShareNode pp.isNone (prev.getD i default) (prev.getD j default) := by
  rw [checkConstraint_iff]
  constructor
  · intro hU; exact h.share_of_union_card hi hj hij hU
  · intro hs
    obtain ⟨l, r, _, _, _, hc⟩ := h.identify_of_share hi hj hij hs
    have := length_union_add_inter (nodup_of_sorted (prev.getD i default).sorted_vars)
      (nodup_of_sorted (prev.getD j default).sorted_vars)
    rw [hc, h.card _ (getD_mem hi), h.card _ (getD_mem hj)] at this
    omega

/-- children of two different node-sharing edges exist: `get_child_edge` does not raise. -/
theorem childEdge_total (h : LevelInv k pp prev) {i j : Nat} (hi : i < prev.length)
    (hj : j < prev.length) (hij : i ≠ j)
    (hs : ShareNode pp.isNone (prev.getD i default) (prev.getD j default)) :
    ∃ e, childEdge prev i j = .ok e := by
  have hgi : getE prev i = .ok (prev.getD i default) := by
    unfold getE
    rw [List.getElem?_eq_getElem hi, getD_eq_getElem' _ hi]
  have hgj : getE prev j = .ok (prev.getD j default) := by
    unfold getE
    rw [List.getElem?_eq_getElem hj, getD_eq_getElem' _ hj]
  unfold childEdge
  simp only [hgi, hgj, bind, Except.bind]
  by_cases hk : keyLt (prev.getD j default) (prev.getD i default) = true
  · obtain ⟨l, r, hid, _⟩ := h.identify_of_share hj hi hij.symm hs.symm
    simp only [sortPair, hk, ite_true, hid]
    exact ⟨_, rfl⟩
  · have hk' : keyLt (prev.getD j default) (prev.getD i default) = false := by simpa using hk
    obtain ⟨l, r, hid, _⟩ := h.identify_of_share hi hj hij hs
    simp only [sortPair, hk', Bool.false_eq_true, ite_false, hid]
    exact ⟨_, rfl⟩

end LevelInv

section
variable {α : Type} [LT α] [DecidableLT α] [Neg α] [NumFns α]

/-! ### first tree -/

/-- the choices follow Prim's rule: each chosen pair joins the visited set to a new variable and
    no pair across the current cut has a strictly smaller key `-|tau|` (**greedy cut**). -/
def PrimTrace (n : Nat) (tau : Mat α) : List Nat → List (Nat × Nat) → Prop
  | _, [] => True
  | vis, q :: qs => q ∈ candsFirst n vis ∧
      (∀ c ∈ candsFirst n vis, ¬ primKey tau c < primKey tau q) ∧ PrimTrace n tau (vis ++ [q.2]) qs

theorem stepMinOk_iff {tau : Mat α} {cands : List (Nat × Nat)} {q : Nat × Nat} :
    stepMinOk tau cands q = true ↔ ∀ c ∈ cands, ¬ primKey tau c < primKey tau q := by
  simp [stepMinOk]

theorem primFirstGo_spec {n : Nat} {tau : Mat α} : ∀ {choices : List (Nat × Nat)} {vis : List Nat}
    {t : Tree} {ts : List α}, primFirstGo n tau vis choices = .ok (t, ts) →
    (∀ v ∈ vis, v < n) →
    t = choices.map (fun q => mkSorted q.1 q.2) ∧ t.length + vis.length = n ∧
      PrimTrace n tau vis choices ∧ (∀ e ∈ t, FirstEdgeSpec n e) ∧
      Grows n vis (t.map (Edge.ends true))
  | [], vis, t, ts, h, hv => by
    simp only [primFirstGo] at h
    split_ifs at h with hl
    simp only [Except.ok.injEq, Prod.mk.injEq] at h
    obtain ⟨rfl, _⟩ := h
    exact ⟨rfl, by simpa using hl, trivial, by simp, .nil _⟩
  | q :: qs, vis, t, ts, h, hv => by
    simp only [primFirstGo] at h
    split_ifs at h with h1 h2 h3
    rw [bind_eq_ok] at h
    obtain ⟨⟨es, ts'⟩, hrec, h⟩ := h
    simp only [pure, Except.pure, Except.ok.injEq, Prod.mk.injEq] at h
    obtain ⟨rfl, _⟩ := h
    simp only [Bool.not_eq_true', Bool.not_eq_false] at h3
    simp only [primStepOk, Bool.and_eq_true, List.contains_iff_mem] at h3
    obtain ⟨hmem, hmin⟩ := h3
    obtain ⟨x, kk⟩ := q
    have hc := mem_candsFirst.mp hmem
    have hv' : ∀ v ∈ vis ++ [kk], v < n := by
      intro v hv'
      rcases List.mem_append.mp hv' with h | h
      · exact hv v h
      · simp at h; subst h; exact hc.2.1
    obtain ⟨r1, r2, r3, r4, r5⟩ := primFirstGo_spec hrec hv'
    refine ⟨by simp [r1], by simp at r2 ⊢; omega, ⟨hmem, stepMinOk_iff.mp hmin, r3⟩, ?_, ?_⟩
    · intro e he
      rcases List.mem_cons.mp he with rfl | he
      · exact firstEdgeSpec_mkSorted (hv x hc.1) hc.2.1 (Ne.symm hc.2.2.2)
      · exact r4 e he
    · have hg : Grows n (kk :: vis) (es.map (Edge.ends true)) :=
        r5.congr (by intro y; simp [or_comm])
      simp only [List.map_cons]
      rcases ends_mkSorted x kk with h | h <;> rw [h]
      · exact .fwd hc.1 hc.2.2.1 hc.2.1 hg
      · exact .bwd hc.1 hc.2.2.1 hc.2.1 hg

/-- **First tree of a regular vine**: every accepted run of Prim's loop yields a spanning tree on
    the `n` variables, each step choosing a pair of maximal `|tau|` across the current cut. -/
theorem primFirst_spec {n : Nat} {tau : Mat α} {choices : List (Nat × Nat)} {t : Tree}
    {ts : List α} (hn : 1 ≤ n) (h : primFirst n tau choices = .ok (t, ts)) :
    t.length + 1 = n ∧ (∀ e ∈ t, FirstEdgeSpec n e) ∧ SpanningTree n (t.map (Edge.ends true)) ∧
      PrimTrace n tau [0] choices := by
  obtain ⟨_, r2, r3, r4, r5⟩ := primFirstGo_spec h (by simp; omega)
  simp only [List.length_singleton] at r2
  exact ⟨r2, r4, ⟨by simpa using r2, 0, by omega, r5⟩, r3⟩

/-! ### k-th tree -/

/-- the analogue of `PrimTrace` for the constrained loop of the k-th tree. -/
def KthTrace (level n : Nat) (prev : Tree) (tau : Mat α) : List Nat → List (Nat × Nat) → Prop
  | _, [] => True
  | vis, q :: qs => q ∈ candsKth level n prev vis ∧
      (∀ c ∈ candsKth level n prev vis, ¬ primKey tau c < primKey tau q) ∧
      KthTrace level n prev tau (vis ++ [q.2]) qs

theorem primKthGo_spec {k n : Nat} {pp : Option Tree} {prev : Tree} {tau : Mat α}
    (hinv : LevelInv k pp prev) (hlen : prev.length = n) :
    ∀ {choices : List (Nat × Nat)} {vis : List Nat} {t : Tree} {ts : List α},
    primKthGo (k + 2) n prev tau vis choices = .ok (t, ts) → (∀ v ∈ vis, v < n) →
    t.length + vis.length = n ∧ KthTrace (k + 2) n prev tau vis choices ∧
      (∀ e ∈ t, ChildOK pp.isNone prev e) ∧ Grows n vis (t.map (Edge.ends false))
  | [], vis, t, ts, h, hv => by
    simp only [primKthGo] at h
    split_ifs at h with hl
    simp only [Except.ok.injEq, Prod.mk.injEq] at h
    obtain ⟨rfl, _⟩ := h
    exact ⟨by simpa using hl, trivial, by simp, .nil _⟩
  | q :: qs, vis, t, ts, h, hv => by
    simp only [primKthGo] at h
    split_ifs at h with h1 h2 h3
    rw [bind_eq_ok] at h
    obtain ⟨e, hce, h⟩ := h
    rw [bind_eq_ok] at h
    obtain ⟨⟨es, ts'⟩, hrec, h⟩ := h
    simp only [pure, Except.pure, Except.ok.injEq, Prod.mk.injEq] at h
    obtain ⟨rfl, _⟩ := h
    simp only [Bool.not_eq_true', Bool.not_eq_false] at h3
    simp only [primStepKthOk, Bool.and_eq_true, List.contains_iff_mem] at h3
    obtain ⟨hmem, hmin⟩ := h3
    obtain ⟨x, kk⟩ := q
    have hc := mem_candsKth.mp hmem
    have hxl : x < prev.length := by rw [hlen]; exact hv x hc.1
    have hkl : kk < prev.length := by rw [hlen]; exact hc.2.1
    have hv' : ∀ v ∈ vis ++ [kk], v < n := by
      intro v hv'
      rcases List.mem_append.mp hv' with h | h
      · exact hv v h
      · simp at h; subst h; exact hc.2.1
    obtain ⟨r2, r3, r4, r5⟩ := primKthGo_spec hinv hlen hrec hv'
    have hshare := (hinv.checkConstraint_iff_share hxl hkl (Ne.symm hc.2.2.2.1)).mp hc.2.2.2.2
    obtain ⟨_, _, a, b, hab, _, hpar, hid⟩ := childEdge_ok hce
    refine ⟨by simp at r2 ⊢; omega, ⟨hmem, stepMinOk_iff.mp hmin, r3⟩, ?_, ?_⟩
    · intro e' he'
      rcases List.mem_cons.mp he' with rfl | he'
      · rcases hab with ⟨rfl, rfl⟩ | ⟨rfl, rfl⟩
        · exact ⟨_, _, hxl, hkl, Ne.symm hc.2.2.2.1, hpar, hshare, hid⟩
        · exact ⟨_, _, hkl, hxl, hc.2.2.2.1, hpar, hshare.symm, hid⟩
      · exact r4 e' he'
    · have hg : Grows n (kk :: vis) (es.map (Edge.ends false)) :=
        r5.congr (by intro y; simp [or_comm])
      simp only [List.map_cons]
      have hends : e.ends false = (a, b) := by simp [Edge.ends, hpar]
      rw [hends]
      rcases hab with ⟨rfl, rfl⟩ | ⟨rfl, rfl⟩
      · exact .fwd hc.1 hc.2.2.1 hc.2.1 hg
      · exact .bwd hc.1 hc.2.2.1 hc.2.1 hg

/-- **k-th tree of a regular vine** over a regular-vine tree `prev`: every accepted run yields a
    spanning tree on the edges of `prev` whose edges join two node-sharing edges (proximity, from
    `_check_constraint`), each step choosing a maximal `|tau|` among the admissible pairs. -/
theorem primKth_spec {k n : Nat} {pp : Option Tree} {prev : Tree} {tau : Mat α}
    {choices : List (Nat × Nat)} {t : Tree} {ts : List α} (hn : 1 ≤ n)
    (hinv : LevelInv k pp prev) (hlen : prev.length = n)
    (h : primKth (k + 2) n prev tau choices = .ok (t, ts)) :
    t.length + 1 = n ∧ (∀ e ∈ t, ChildOK pp.isNone prev e) ∧
      SpanningTree n (t.map (Edge.ends false)) ∧ KthTrace (k + 2) n prev tau [0] choices := by
  obtain ⟨r2, r3, r4, r5⟩ := primKthGo_spec hinv hlen h (by simp; omega)
  simp only [List.length_singleton] at r2
  exact ⟨r2, r4, ⟨by simpa using r2, 0, by omega, r5⟩, r3⟩

/-! ### termination of the k-th loop -/

/-- while some node is unvisited the admissible set `adj_set` is not empty: the least unvisited
    edge of `prev` shares a node with an earlier — hence visited — edge, because `prev` grows from
    a root. -/
theorem cands_nonempty {k n : Nat} {pp : Option Tree} {prev : Tree} (hinv : LevelInv k pp prev)
    (hlen : prev.length = n) {vis : List Nat} (h0 : 0 ∈ vis) (hnd : vis.Nodup)
    (hv : ∀ v ∈ vis, v < n) (hl : vis.length ≠ n) :
    (candsKth (k + 2) n prev vis).isEmpty = false := by
  classical
  have hex : ∃ j, j < n ∧ j ∉ vis := by
    by_contra hcon
    simp only [not_exists, not_and, not_not] at hcon
    have hsub : List.range n ⊆ vis := fun j hj => hcon j (List.mem_range.mp hj)
    have h1 := (List.subperm_of_subset List.nodup_range hsub).length_le
    have h2 := (List.subperm_of_subset hnd
      (fun v hv' => List.mem_range.mpr (hv v hv'))).length_le
    simp at h1 h2; omega
  let j := Nat.find hex
  have hj : j < n ∧ j ∉ vis := Nat.find_spec hex
  have hmin : ∀ i, i < j → i ∈ vis := by
    intro i hi
    by_contra hni
    exact Nat.find_min hex hi ⟨by omega, hni⟩
  have hj0 : 0 < j := Nat.pos_of_ne_zero (fun h => hj.2 (h ▸ h0))
  obtain ⟨_, root, hroot, hg⟩ := hinv.span
  have hjl : j < (prev.map (Edge.ends pp.isNone)).length := by simp; omega
  obtain ⟨i, hi, hsh⟩ := hg.shares_earlier j hjl hj0
  have hil : i < prev.length := by omega
  have hjl' : j < prev.length := by omega
  simp only [List.getElem_map] at hsh
  have hshare : ShareNode pp.isNone (prev.getD i default) (prev.getD j default) := by
    rw [getD_eq_getElem' _ hil, getD_eq_getElem' _ hjl']
    rcases hsh with h | h | h | h
    · exact ⟨_, Or.inl rfl, Or.inl h⟩
    · exact ⟨_, Or.inl rfl, Or.inr h⟩
    · exact ⟨_, Or.inr rfl, Or.inl h⟩
    · exact ⟨_, Or.inr rfl, Or.inr h⟩
  have hcc := (hinv.checkConstraint_iff_share hil hjl' (by omega)).mpr hshare
  have hmem : (i, j) ∈ candsKth (k + 2) n prev vis :=
    mem_candsKth.mpr ⟨hmin i hi, hj.1, hj.2, by omega, hcc⟩
  cases hc : candsKth (k + 2) n prev vis with
  | nil => rw [hc] at hmem; simp at hmem
  | cons a l => rfl

/-- **`regular_kth_terminates`**: over a regular-vine tree, the constrained loop never reaches the
    `adj_set == ∅` branch (which would not terminate) and `get_child_edge` never raises: the only
    way the model does not return a tree is that the supplied choice sequence is not one the code
    could have made. -/
theorem primKthGo_no_failure {k n : Nat} {pp : Option Tree} {prev : Tree} {tau : Mat α}
    (hinv : LevelInv k pp prev) (hlen : prev.length = n) :
    ∀ (choices : List (Nat × Nat)) (vis : List Nat), 0 ∈ vis → vis.Nodup → (∀ v ∈ vis, v < n) →
    ∀ e, primKthGo (k + 2) n prev tau vis choices = .error e → ∃ w, e = .rejected w
  | [], vis, h0, hnd, hv, e, h => by
    simp only [primKthGo] at h
    split_ifs at h with h1 h2
    · have := cands_nonempty hinv hlen h0 hnd hv (by simpa using h1)
      rw [this] at h2; exact absurd h2 (by simp)
    · simp only [Except.error.injEq] at h; exact ⟨_, h.symm⟩
  | q :: qs, vis, h0, hnd, hv, e, h => by
    simp only [primKthGo] at h
    split_ifs at h with h1 h2 h3
    · simp only [Except.error.injEq] at h; exact ⟨_, h.symm⟩
    · have := cands_nonempty hinv hlen h0 hnd hv (by simpa using h1)
      rw [this] at h2; exact absurd h2 (by simp)
    · simp only [Except.error.injEq] at h; exact ⟨_, h.symm⟩
    · simp only [Bool.not_eq_true', Bool.not_eq_false] at h3
      simp only [primStepKthOk, Bool.and_eq_true, List.contains_iff_mem] at h3
      obtain ⟨x, kk⟩ := q
      have hc := mem_candsKth.mp h3.1
      have hxl : x < prev.length := by rw [hlen]; exact hv x hc.1
      have hkl : kk < prev.length := by rw [hlen]; exact hc.2.1
      have hshare := (hinv.checkConstraint_iff_share hxl hkl (Ne.symm hc.2.2.2.1)).mp hc.2.2.2.2
      obtain ⟨ce, hce⟩ := hinv.childEdge_total hxl hkl (Ne.symm hc.2.2.2.1) hshare
      simp only [hce, bind, Except.bind] at h
      cases hrec : primKthGo (k + 2) n prev tau (vis ++ [kk]) qs with
      | ok r => simp [hrec, pure, Except.pure] at h
      | error e' =>
        simp only [hrec, Except.error.injEq] at h
        subst h
        exact primKthGo_no_failure hinv hlen qs (vis ++ [kk]) (by simp [h0])
          (List.nodup_append.mpr ⟨hnd, by simp, by
            intro a ha b hb; simp at hb; subst hb; rintro rfl; exact hc.2.2.1 ha⟩)
          (by
            intro v hv'
            rcases List.mem_append.mp hv' with h | h
            · exact hv v h
            · simp at h; subst h; exact hc.2.1) e' hrec

end
end CopVerif.Model.Vine
