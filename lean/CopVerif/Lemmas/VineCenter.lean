import CopVerif.Lemmas.VineStep
/-!
  `CenterTree`: every accepted sort order yields a star around node 0 that is a spanning tree, and
  the k-th tree joins edge 0 of the previous tree with every other edge.
-/
set_option linter.unusedSimpArgs false
set_option linter.unusedSectionVars false
set_option linter.unusedVariables false
namespace CopVerif.Model.Vine

section
variable {α : Type} [LT α] [DecidableLT α] [Neg α] [NumFns α]

/-- the sort key of node 0 (the NaN-ed diagonal cell, mapped to `-10`) is strictly below every
    other key of column 0.  Holds for every Kendall matrix: the other keys are `|tau| ≥ 0`, or `-10`
    only for a NaN tau. -/
def ColOK (n : Nat) (tau : Mat α) : Prop :=
  ∀ j, 0 < j → j < n → (m10 : α) < sortKey false (tau.get j 0)

theorem keyAt_colKeys (tau : Mat α) (n j : Nat) (hj : j < n) :
    keyAt (colKeys tau 0 n) j = sortKey (j == 0) (tau.get j 0) := by
  unfold keyAt colKeys
  rw [getD_eq_getElem' _ (by simpa using hj)]
  simp

theorem keyAt_colKeys_zero (tau : Mat α) (n : Nat) (hn : 0 < n) :
    keyAt (colKeys tau 0 n) 0 = (m10 : α) := by
  rw [keyAt_colKeys tau n 0 hn]; simp [sortKey]

structure OrderFacts (n : Nat) (keys : List α) (picks : List Nat) : Prop where
  len : picks.length + 1 = n
  lt : ∀ p ∈ picks, p < n
  nodup : picks.Nodup
  rest : ∀ i, i < n → i ∉ picks → ∀ p ∈ picks, ¬ keyAt keys p < keyAt keys i

theorem orderOk_facts {n : Nat} {keys : List α} {picks : List Nat}
    (h : orderOk n keys picks = true) : OrderFacts n keys picks := by
  simp only [orderOk, Bool.and_eq_true, beq_iff_eq, List.all_eq_true, decide_eq_true_eq,
    Bool.or_eq_true, List.contains_iff_mem, Bool.not_eq_true', decide_eq_false_iff_not,
    List.mem_range] at h
  obtain ⟨⟨⟨⟨h1, h2⟩, h3⟩, _⟩, h5⟩ := h
  refine ⟨h1, h2, nodupB_iff.mp h3, fun i hi hni p hp => ?_⟩
  rcases h5 i hi with h | h
  · exact absurd (by simpa using h) hni
  · exact h p hp

/-- a duplicate-free list of `n - 1` numbers `< n` misses some number `< n`. -/
theorem exists_unpicked {n : Nat} {picks : List Nat} (hl : picks.length + 1 = n)
    (hnd : picks.Nodup) : ∃ j, j < n ∧ j ∉ picks := by
  by_contra hcon
  simp only [not_exists, not_and, not_not] at hcon
  have hsub : List.range n ⊆ picks := fun j hj => hcon j (List.mem_range.mp hj)
  have := (List.subperm_of_subset List.nodup_range hsub).length_le
  simp at this; omega

/-- the anchor (node 0) is never among the picked nodes. -/
theorem zero_not_picked {n : Nat} {tau : Mat α} {picks : List Nat} (hn : 0 < n)
    (hcol : ColOK n tau) (h : OrderFacts n (colKeys tau 0 n) picks) : 0 ∉ picks := by
  intro h0
  obtain ⟨j, hj, hjn⟩ := exists_unpicked h.len h.nodup
  have hj0 : 0 < j := by
    rcases Nat.eq_zero_or_pos j with rfl | h'
    · exact absurd h0 hjn
    · exact h'
  have := h.rest j hj hjn 0 h0
  rw [keyAt_colKeys_zero tau n hn, keyAt_colKeys tau n j hj] at this
  have hb : (j == 0) = false := by simp; omega
  rw [hb] at this
  exact this (hcol j hj0 hj)

end


/-! ### `Forall₂` helpers -/

theorem forall₂_imp_mem {β γ : Type} {R S : β → γ → Prop} : ∀ {l : List β} {r : List γ},
    List.Forall₂ R l r → (∀ a b, a ∈ l → b ∈ r → R a b → S a b) → List.Forall₂ S l r
  | _, _, .nil, _ => .nil
  | _, _, .cons h hs, himp =>
    .cons (himp _ _ (List.mem_cons_self ..) (List.mem_cons_self ..) h)
      (forall₂_imp_mem hs fun a b ha hb => himp a b (List.mem_cons_of_mem _ ha)
        (List.mem_cons_of_mem _ hb))

theorem forall₂_exists_left {β γ : Type} {R : β → γ → Prop} : ∀ {l : List β} {r : List γ},
    List.Forall₂ R l r → ∀ b ∈ r, ∃ a ∈ l, R a b
  | _, _, .nil, b, hb => by simp at hb
  | _, _, .cons h hs, b, hb => by
    rcases List.mem_cons.mp hb with rfl | hb
    · exact ⟨_, List.mem_cons_self .., h⟩
    · obtain ⟨a, ha, hr⟩ := forall₂_exists_left hs b hb
      exact ⟨a, List.mem_cons_of_mem _ ha, hr⟩

/-! ### stars grow -/

theorem grows_star {n : Nat} : ∀ {picks : List Nat} {vis : List Nat}, 0 ∈ vis →
    (∀ p ∈ picks, p ∉ vis ∧ p < n) → picks.Nodup → Grows n vis (picks.map fun p => (0, p))
  | [], vis, _, _, _ => .nil vis
  | p :: ps, vis, h0, hp, hnd => by
    have hnd' := List.nodup_cons.mp hnd
    refine .fwd h0 (hp p (List.mem_cons_self ..)).1 (hp p (List.mem_cons_self ..)).2
      (grows_star (List.mem_cons_of_mem _ h0) ?_ hnd'.2)
    intro q hq
    refine ⟨?_, (hp q (List.mem_cons_of_mem _ hq)).2⟩
    intro hmem
    rcases List.mem_cons.mp hmem with rfl | hmem
    · exact hnd'.1 hq
    · exact (hp q (List.mem_cons_of_mem _ hq)).1 hmem

/-- the same for edge lists whose `r`-th edge has the ends `{0, r}` in either order. -/
theorem grows_star' {n : Nat} : ∀ {picks : List Nat} {pairs : List (Nat × Nat)} {vis : List Nat},
    List.Forall₂ (fun r p => p = (0, r) ∨ p = (r, 0)) picks pairs → 0 ∈ vis →
    (∀ p ∈ picks, p ∉ vis ∧ p < n) → picks.Nodup → Grows n vis pairs
  | [], _, vis, .nil, _, _, _ => .nil vis
  | p :: ps, _, vis, .cons hq hrest, h0, hp, hnd => by
    have hnd' := List.nodup_cons.mp hnd
    have hrec : Grows n (p :: vis) _ := grows_star' hrest (List.mem_cons_of_mem _ h0) (by
      intro q hq'
      refine ⟨?_, (hp q (List.mem_cons_of_mem _ hq')).2⟩
      intro hmem
      rcases List.mem_cons.mp hmem with rfl | hmem
      · exact hnd'.1 hq'
      · exact (hp q (List.mem_cons_of_mem _ hq')).1 hmem) hnd'.2
    rcases hq with rfl | rfl
    · exact .fwd h0 (hp p (List.mem_cons_self ..)).1 (hp p (List.mem_cons_self ..)).2 hrec
    · exact .bwd h0 (hp p (List.mem_cons_self ..)).1 (hp p (List.mem_cons_self ..)).2 hrec

section
variable {α : Type} [LT α] [DecidableLT α] [Neg α] [NumFns α]

/-- **First tree of a center vine**: for every accepted order, the edges are `(0, ind)`, a star
    around variable 0 that is a spanning tree on the `n` variables. -/
theorem centerFirst_spec {n : Nat} {tau : Mat α} {picks : List Nat} {t : Tree} {ts : List α}
    (hn : 2 ≤ n) (hcol : ColOK n tau) (h : centerFirst n tau picks = .ok (t, ts)) :
    t = starFirst picks ∧ t.length + 1 = n ∧ (∀ e ∈ t, FirstEdgeSpec n e) ∧
      SpanningTree n (t.map (Edge.ends true)) ∧ (∀ e ∈ t, e.L = 0) ∧
      OrderFacts n (colKeys tau 0 n) picks := by
  unfold centerFirst at h
  split at h
  · rename_i hok
    simp only [Except.ok.injEq, Prod.mk.injEq] at h
    obtain ⟨rfl, _⟩ := h
    have hf := orderOk_facts hok
    have h0 := zero_not_picked (by omega) hcol hf
    have hpairs : (starFirst picks).map (Edge.ends true) = picks.map fun p => (0, p) := by
      simp [starFirst, Edge.ends, mkEdge, List.map_map, Function.comp_def]
    refine ⟨rfl, by simp [starFirst, hf.len], ?_, ⟨by simp [starFirst, hf.len], 0, by omega, ?_⟩,
      ?_, hf⟩
    · intro e he
      simp only [starFirst, List.mem_map] at he
      obtain ⟨ind, hind, rfl⟩ := he
      refine ⟨rfl, rfl, ?_, hf.lt ind hind⟩
      simp only [mkEdge]
      rcases Nat.eq_zero_or_pos ind with rfl | hpos
      · exact absurd hind h0
      · exact hpos
    · rw [hpairs]
      apply grows_star (by simp) _ hf.nodup
      intro p hp
      refine ⟨?_, hf.lt p hp⟩
      simp only [List.mem_singleton]
      rintro rfl; exact h0 hp
    · intro e he
      simp only [starFirst, List.mem_map] at he
      obtain ⟨ind, _, rfl⟩ := he
      rfl
  · simp at h

/-- **k-th tree of a center vine** over a tree `prev` all of whose edges share a node: every edge
    is the child of edge 0 and another edge of `prev`; the new tree is a star around node 0. -/
theorem centerKth_spec {n k : Nat} {pp : Option Tree} {prev : Tree} {tau : Mat α}
    {picks : List Nat} {t : Tree} {ts : List α}
    (hn : 2 ≤ n) (hlen : prev.length = n) (hinv : LevelInv k pp prev)
    (hstar : IsStar (prev.map (Edge.ends pp.isNone)))
    (hcol : ColOK n tau) (h : centerKth n prev tau picks = .ok (t, ts)) :
    t.length + 1 = n ∧ (∀ e ∈ t, ChildOK pp.isNone prev e) ∧
      SpanningTree n (t.map (Edge.ends false)) ∧
      (∀ e ∈ t, (e.ends false).1 = 0 ∨ (e.ends false).2 = 0) ∧
      OrderFacts n (colKeys tau 0 n) picks := by
  unfold centerKth at h
  split at h
  · rename_i hok
    rw [bind_eq_ok] at h
    obtain ⟨t', ht', h⟩ := h
    simp only [pure, Except.pure, Except.ok.injEq, Prod.mk.injEq] at h
    obtain ⟨rfl, _⟩ := h
    have hf := orderOk_facts hok
    have h0 := zero_not_picked (by omega) hcol hf
    have hall := mapM_ok ht'
    have hl : t'.length = picks.length := hall.length_eq.symm
    obtain ⟨c, hc⟩ := hstar
    have hedge : List.Forall₂ (fun r e => ChildOK pp.isNone prev e ∧
        (e.ends false = (0, r) ∨ e.ends false = (r, 0))) picks t' := by
      refine forall₂_imp_mem hall ?_
      intro r e hr _ hce
      obtain ⟨h0l, hrl, a, b, hab, _, hpar, hid⟩ := childEdge_ok hce
      have hr0 : (0 : Nat) ≠ r := by rintro rfl; exact h0 hr
      have hsh : ∀ i, i < prev.length → IsEnd pp.isNone (prev.getD i default) c := by
        intro i hi
        exact (hc _ (ends_mem_map hi)).imp Eq.symm Eq.symm
      refine ⟨⟨a, b, ?_, ?_, ?_, hpar, ⟨c, hsh a ?_, hsh b ?_⟩, hid⟩, ?_⟩
      · rcases hab with ⟨rfl, rfl⟩ | ⟨rfl, rfl⟩ <;> assumption
      · rcases hab with ⟨rfl, rfl⟩ | ⟨rfl, rfl⟩ <;> assumption
      · rcases hab with ⟨rfl, rfl⟩ | ⟨rfl, rfl⟩
        · exact hr0
        · exact hr0.symm
      · rcases hab with ⟨rfl, rfl⟩ | ⟨rfl, rfl⟩ <;> assumption
      · rcases hab with ⟨rfl, rfl⟩ | ⟨rfl, rfl⟩ <;> assumption
      · rcases hab with ⟨rfl, rfl⟩ | ⟨rfl, rfl⟩
        · left; simp [Edge.ends, hpar]
        · right; simp [Edge.ends, hpar]
    refine ⟨by rw [hl]; exact hf.len, ?_, ⟨by simp [hl, hf.len], 0, by omega, ?_⟩, ?_, hf⟩
    · intro e he
      obtain ⟨r, _, hS⟩ := forall₂_exists_left hedge e he
      exact hS.1
    · apply grows_star' (picks := picks) _ (by simp) _ hf.nodup
      · rw [List.forall₂_map_right_iff]
        exact hedge.imp fun _ _ h => h.2
      · intro p hp
        refine ⟨?_, hf.lt p hp⟩
        simp only [List.mem_singleton]
        rintro rfl; exact h0 hp
    · intro e he
      obtain ⟨r, _, hS⟩ := forall₂_exists_left hedge e he
      rcases hS.2 with h | h <;> simp [h]
  · simp at h

end
end CopVerif.Model.Vine
