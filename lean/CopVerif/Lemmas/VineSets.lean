import Mathlib.Data.List.Sort
import Mathlib.Data.Finset.Card
import CopVerif.Model.Vine
/-!
  Facts about the list representation of Python sets used by `Model/Vine.lean`
  (`insertS`, `norm`, `inter`, `sdiff`, `symDiff`) and the specification of
  `Edge._identify_eds_ing` (`identify`).
-/
set_option linter.unusedSimpArgs false
namespace CopVerif.Model.Vine

abbrev SortedS (l : List Nat) : Prop := l.Pairwise (· < ·)

theorem mem_insertS {a x : Nat} {l : List Nat} : x ∈ insertS a l ↔ x = a ∨ x ∈ l := by
  induction l with
  | nil => simp [insertS]
  | cons b bs ih =>
    simp only [insertS]
    split_ifs with h1 h2
    · simp
    · subst h2; simp
    · simp [ih]; tauto

theorem sorted_insertS {a : Nat} {l : List Nat} (h : SortedS l) : SortedS (insertS a l) := by
  induction l with
  | nil => simp [insertS, SortedS]
  | cons b bs ih =>
    simp only [insertS]
    have hb := List.pairwise_cons.mp h
    split_ifs with h1 h2
    · refine List.pairwise_cons.mpr ⟨?_, h⟩
      intro y hy
      rcases List.mem_cons.mp hy with rfl | hy
      · exact h1
      · exact lt_trans h1 (hb.1 y hy)
    · exact h
    · refine List.pairwise_cons.mpr ⟨?_, ih hb.2⟩
      intro y hy
      rcases mem_insertS.mp hy with rfl | hy
      · omega
      · exact hb.1 y hy

theorem mem_norm {x : Nat} {l : List Nat} : x ∈ norm l ↔ x ∈ l := by
  induction l with
  | nil => simp [norm]
  | cons a l ih =>
    have : norm (a :: l) = insertS a (norm l) := rfl
    rw [this, mem_insertS, ih]; simp

theorem sorted_norm (l : List Nat) : SortedS (norm l) := by
  induction l with
  | nil => simp [norm, SortedS]
  | cons a l ih => exact sorted_insertS ih

theorem nodup_of_sorted {l : List Nat} (h : SortedS l) : l.Nodup :=
  h.imp (fun hab => Nat.ne_of_lt hab)

/-- two strictly increasing lists with the same members are equal. -/
theorem sorted_ext {l₁ l₂ : List Nat} (h₁ : SortedS l₁) (h₂ : SortedS l₂)
    (h : ∀ a, a ∈ l₁ ↔ a ∈ l₂) : l₁ = l₂ :=
  List.Pairwise.eq_of_mem_iff h₁ h₂ h

theorem norm_eq_self {l : List Nat} (h : SortedS l) : norm l = l :=
  sorted_ext (sorted_norm l) h (fun _ => mem_norm)

theorem mem_inter {x : Nat} {A B : List Nat} : x ∈ inter A B ↔ x ∈ A ∧ x ∈ B := by
  simp [inter]

theorem mem_sdiff {x : Nat} {A B : List Nat} : x ∈ sdiff A B ↔ x ∈ A ∧ x ∉ B := by
  simp [sdiff]

theorem mem_symDiff {x : Nat} {A B : List Nat} :
    x ∈ symDiff A B ↔ (x ∈ A ∧ x ∉ B) ∨ (x ∈ B ∧ x ∉ A) := by
  simp [symDiff, mem_norm, mem_sdiff]

theorem sorted_inter {A : List Nat} (B : List Nat) (h : SortedS A) : SortedS (inter A B) :=
  List.Pairwise.filter _ h

theorem sorted_symDiff (A B : List Nat) : SortedS (symDiff A B) := sorted_norm _

theorem Edge.sorted_vars (e : Edge) : SortedS e.vars := sorted_norm _

theorem Edge.mem_vars {e : Edge} {x : Nat} : x ∈ e.vars ↔ x = e.L ∨ x = e.R ∨ x ∈ e.D := by
  simp [Edge.vars, mem_norm]

theorem nodupB_iff {l : List Nat} : nodupB l = true ↔ l.Nodup := by
  induction l with
  | nil => simp [nodupB]
  | cons a l ih => simp [nodupB, ih]

/-- a sorted two-element list is determined by its members. -/
theorem sorted_pair_of_mem {l : List Nat} {x y : Nat} (hl : SortedS l) (hxy : x < y)
    (h : ∀ a, a ∈ l ↔ a = x ∨ a = y) : l = [x, y] :=
  sorted_ext hl (by simp [SortedS, hxy]) (by simpa using h)

/-- **Specification of `_identify_eds_ing`, shape form.**  If the variable sets of the two edges
    are `C ∪ {x}` and `C ∪ {y}` with `x ≠ y` outside `C`, the call succeeds, the conditioned pair
    is `{x, y}` in increasing order and the conditioning set is exactly `C`. -/
theorem identify_of_shape {p q : Edge} {C : List Nat} {x y : Nat} (hxy : x ≠ y)
    (hxC : x ∉ C) (hyC : y ∉ C)
    (hp : ∀ a, a ∈ p.vars ↔ a = x ∨ a ∈ C) (hq : ∀ a, a ∈ q.vars ↔ a = y ∨ a ∈ C) :
    identify p q = .ok (min x y, max x y, inter p.vars q.vars) ∧
      (∀ a, a ∈ inter p.vars q.vars ↔ a ∈ C) := by
  have hsd : symDiff p.vars q.vars = [min x y, max x y] := by
    have hlt : min x y < max x y := by
      rcases Nat.lt_or_gt_of_ne hxy with h | h
      · simp [Nat.min_def, Nat.max_def, h.le, h]
      · have : ¬ x ≤ y := by omega
        simp [Nat.min_def, Nat.max_def, this, h]
    apply sorted_pair_of_mem (sorted_symDiff _ _) hlt
    intro a
    rw [mem_symDiff, hp, hq]
    have hm : a = min x y ∨ a = max x y ↔ a = x ∨ a = y := by
      rcases Nat.le_total x y with h | h
      · simp [Nat.min_def, Nat.max_def, h]
      · rcases Nat.eq_or_lt_of_le h with h' | h'
        · exact absurd h'.symm hxy
        · have : ¬ x ≤ y := by omega
          simp [Nat.min_def, Nat.max_def, this]; tauto
    rw [hm]
    constructor
    · rintro (⟨h1, h2⟩ | ⟨h1, h2⟩)
      · rcases h1 with rfl | h1
        · exact Or.inl rfl
        · exact absurd (Or.inr h1) h2
      · rcases h1 with rfl | h1
        · exact Or.inr rfl
        · exact absurd (Or.inr h1) h2
    · rintro (rfl | rfl)
      · left; refine ⟨Or.inl rfl, ?_⟩
        rintro (h | h)
        · exact hxy h
        · exact hxC h
      · right; refine ⟨Or.inl rfl, ?_⟩
        rintro (h | h)
        · exact hxy h.symm
        · exact hyC h
  refine ⟨?_, ?_⟩
  · simp [identify, hsd]
  · intro a
    rw [mem_inter, hp, hq]
    constructor
    · rintro ⟨h1 | h1, h2 | h2⟩
      · exact absurd (h1.symm.trans h2) hxy
      · exact h2
      · exact h1
      · exact h1
    · intro h; exact ⟨Or.inr h, Or.inr h⟩

/-- converse: a successful `identify` returns the symmetric difference as an increasing pair and
    the intersection. -/
theorem identify_ok {p q : Edge} {l r : Nat} {D : List Nat} (h : identify p q = .ok (l, r, D)) :
    symDiff p.vars q.vars = [l, r] ∧ l < r ∧ D = inter p.vars q.vars := by
  unfold identify at h
  split at h
  · rename_i l' r' heq
    simp only [Except.ok.injEq, Prod.mk.injEq] at h
    obtain ⟨rfl, rfl, rfl⟩ := h
    refine ⟨heq, ?_, rfl⟩
    have := sorted_symDiff p.vars q.vars
    rw [heq] at this
    simpa [SortedS] using this
  · simp at h


/-- a duplicate-free list one longer than a duplicate-free sublist (as a set) is that set plus
    one new element. -/
theorem exists_extra {A C : List Nat} {m : Nat} (hA : A.Nodup) (hC : C.Nodup)
    (hAl : A.length = m + 1) (hCl : C.length = m) (hCA : C ⊆ A) :
    ∃ x, x ∉ C ∧ ∀ a, a ∈ A ↔ a = x ∨ a ∈ C := by
  classical
  have hsub : C.toFinset ⊆ A.toFinset := by
    intro a ha; simp only [List.mem_toFinset] at ha ⊢; exact hCA ha
  have hcard : (A.toFinset \ C.toFinset).card = 1 := by
    rw [Finset.card_sdiff_of_subset hsub, List.toFinset_card_of_nodup hA,
      List.toFinset_card_of_nodup hC, hAl, hCl]; omega
  obtain ⟨x, hx⟩ := Finset.card_eq_one.mp hcard
  have hxm : x ∈ A.toFinset \ C.toFinset := by rw [hx]; simp
  simp only [Finset.mem_sdiff, List.mem_toFinset] at hxm
  refine ⟨x, hxm.2, fun a => ⟨fun ha => ?_, ?_⟩⟩
  · by_cases haC : a ∈ C
    · exact Or.inr haC
    · left
      have : a ∈ A.toFinset \ C.toFinset := by simp [ha, haC]
      rw [hx] at this; simpa using this
  · rintro (rfl | h)
    · exact hxm.1
    · exact hCA h

/-- **Specification of `_identify_eds_ing`, cardinality form** (`identify_spec`).  Two edges of
    the same tree with `m + 1` variables each, different variable sets, both containing the `m`
    variables `C` of a shared node: the call succeeds, `|A △ B| = 2` (returned in increasing
    order), the conditioning set is `A ∩ B = C` and has `m` elements. -/
theorem identify_spec_sets {p q : Edge} {C : List Nat} {m : Nat}
    (hp : p.vars.length = m + 1) (hq : q.vars.length = m + 1) (hC : C.Nodup)
    (hCl : C.length = m) (hCp : C ⊆ p.vars) (hCq : C ⊆ q.vars) (hne : p.vars ≠ q.vars) :
    ∃ l r, identify p q = .ok (l, r, inter p.vars q.vars) ∧ l < r ∧
      symDiff p.vars q.vars = [l, r] ∧
      (inter p.vars q.vars).length = m ∧ ∀ a, a ∈ inter p.vars q.vars ↔ a ∈ C := by
  obtain ⟨x, hxC, hx⟩ := exists_extra (nodup_of_sorted p.sorted_vars) hC hp hCl hCp
  obtain ⟨y, hyC, hy⟩ := exists_extra (nodup_of_sorted q.sorted_vars) hC hq hCl hCq
  have hxy : x ≠ y := by
    rintro rfl
    exact hne (sorted_ext p.sorted_vars q.sorted_vars (fun a => by rw [hx, hy]))
  obtain ⟨hid, hmem⟩ := identify_of_shape hxy hxC hyC hx hy
  have hlt : min x y < max x y := by
    rcases Nat.lt_or_gt_of_ne hxy with h | h <;> simp [Nat.min_def, Nat.max_def] <;> split_ifs <;> omega
  refine ⟨min x y, max x y, hid, hlt, (identify_ok hid).1, ?_, hmem⟩
  have hperm : (inter p.vars q.vars).Perm C :=
    (List.perm_ext_iff_of_nodup (nodup_of_sorted (sorted_inter _ p.sorted_vars)) hC).mpr hmem
  rw [hperm.length_eq, hCl]

end CopVerif.Model.Vine
