import CopVerif.Model.Select
import Mathlib.Order.BoundedOrder.Basic
import Mathlib.Order.Defs.LinearOrder
import Mathlib.Order.Basic
/-!
# Helper lemmas for property C05 (marginal model choice)

Loop invariants of `Model.selectLoop` over a Mathlib linear order with top and bottom, and the
tree-recursion = table-filter lemma for `_select_candidates`.  Property theorems are in
`CopVerif/Props/C05.lean`.
-/
namespace CopVerif.Select
open CopVerif.Model

/-- the order dictionary of a linear order with top and bottom (what `floatOrd` is for binary64). -/
def linOrd (ρ : Type) [LinearOrder ρ] [BoundedOrder ρ] : KSOrd ρ where
  lt a b := decide (a < b)
  le a b := decide (a ≤ b)
  posInf := ⊤
  negInf := ⊥

variable {ρ : Type}

@[simp] theorem test_nan_left (o : KSOrd ρ) (c : Cmp) (y : KS ρ) : c.test o .nan y = false := by
  cases c <;> rfl

@[simp] theorem test_nan_right (o : KSOrd ρ) (c : Cmp) (x : KS ρ) : c.test o x .nan = false := by
  cases c <;> cases x <;> rfl

theorem loop_none (o : KSOrd ρ) (c : Cmp) (rest : List (Option (KS ρ))) (k : Nat) (bk : KS ρ) (bm : Option Nat) :
    selectLoop o c (none :: rest) k bk bm = selectLoop o c rest (k + 1) bk bm := rfl

theorem loop_some (o : KSOrd ρ) (c : Cmp) (x : KS ρ) (rest : List (Option (KS ρ))) (k : Nat) (bk : KS ρ)
    (bm : Option Nat) :
    selectLoop o c (some x :: rest) k bk bm =
      if c.test o x bk then selectLoop o c rest (k + 1) x (some k) else selectLoop o c rest (k + 1) bk bm := rfl

/-- a candidate that raised or whose statistic is NaN never changes the state (any comparison). -/
theorem loop_unfittable (o : KSOrd ρ) (c : Cmp) :
    ∀ (l : List (Option (KS ρ))) (k : Nat) (bk : KS ρ) (bm : Option Nat),
      (∀ e ∈ l, e = none ∨ e = some .nan) → selectLoop o c l k bk bm = (bk, bm) := by
  intro l
  induction l with
  | nil => intro k bk bm _; rfl
  | cons e rest ih =>
    intro k bk bm h
    have hrest := ih (k + 1) bk bm (fun e he => h e (List.mem_cons_of_mem _ he))
    rcases h e (List.mem_cons_self ..) with rfl | rfl
    · rw [loop_none]; exact hrest
    · rw [loop_some]; simpa using hrest

variable [LinearOrder ρ] [BoundedOrder ρ]

@[simp] theorem test_lt (x y : ρ) : Cmp.test (linOrd ρ) .lt (.val x) (.val y) = decide (x < y) := rfl
@[simp] theorem test_le (x y : ρ) : Cmp.test (linOrd ρ) .le (.val x) (.val y) = decide (x ≤ y) := rfl
@[simp] theorem test_gt (x y : ρ) : Cmp.test (linOrd ρ) .gt (.val x) (.val y) = decide (y < x) := rfl
@[simp] theorem test_ge (x y : ρ) : Cmp.test (linOrd ρ) .ge (.val x) (.val y) = decide (y ≤ x) := rfl

/-- Invariant of the loop for a *descending* comparison (`<` or `<=`): the final `best_ks` is a
    lower bound of the start value and of every number seen, and either nothing changed or
    `best_model` is the index of a candidate whose statistic is the final `best_ks`. -/
theorem loop_inv (c : Cmp) (hc : c = .lt ∨ c = .le) :
    ∀ (l : List (Option (KS ρ))) (k : Nat) (b : ρ) (bm : Option Nat),
      ∃ b' bm', selectLoop (linOrd ρ) c l k (.val b) bm = (.val b', bm') ∧ b' ≤ b ∧
        (∀ y, some (KS.val y) ∈ l → b' ≤ y) ∧
        ((b' = b ∧ bm' = bm) ∨ ∃ j, bm' = some (k + j) ∧ l[j]? = some (some (.val b'))) := by
  intro l
  induction l with
  | nil => intro k b bm; exact ⟨b, bm, rfl, le_rfl, by simp, Or.inl ⟨rfl, rfl⟩⟩
  | cons e rest ih =>
    intro k b bm
    -- the two ways the tail is entered
    have keep : ∀ (hy : ∀ y, e = some (KS.val y) → b ≤ y),
        selectLoop (linOrd ρ) c (e :: rest) k (.val b) bm = selectLoop (linOrd ρ) c rest (k + 1) (.val b) bm →
        ∃ b' bm', selectLoop (linOrd ρ) c (e :: rest) k (.val b) bm = (.val b', bm') ∧ b' ≤ b ∧
          (∀ y, some (KS.val y) ∈ e :: rest → b' ≤ y) ∧
          ((b' = b ∧ bm' = bm) ∨ ∃ j, bm' = some (k + j) ∧ (e :: rest)[j]? = some (some (.val b'))) := by
      intro hy heq
      obtain ⟨b', bm', h, hle, hall, hd⟩ := ih (k + 1) b bm
      refine ⟨b', bm', heq.trans h, hle, ?_, ?_⟩
      · intro y hmem
        rcases List.mem_cons.mp hmem with h0 | h0
        · exact le_trans hle (hy y h0.symm)
        · exact hall y h0
      · rcases hd with hd | ⟨j, hj, hget⟩
        · exact Or.inl hd
        · exact Or.inr ⟨j + 1, by rw [hj]; congr 1; omega, by simpa using hget⟩
    cases e with
    | none => exact keep (by intro y h; cases h) (loop_none _ _ _ _ _ _)
    | some x =>
      cases x with
      | nan => exact keep (by intro y h; cases h) (by rw [loop_some]; simp)
      | val y =>
        by_cases ht : c.test (linOrd ρ) (.val y) (.val b) = true
        · have hyb : y ≤ b := by
            rcases hc with rfl | rfl
            · exact le_of_lt (by simpa using ht)
            · simpa using ht
          obtain ⟨b', bm', h, hle, hall, hd⟩ := ih (k + 1) y (some k)
          refine ⟨b', bm', by rw [loop_some, if_pos ht]; exact h, le_trans hle hyb, ?_, ?_⟩
          · intro z hmem
            rcases List.mem_cons.mp hmem with h0 | h0
            · cases h0; exact hle
            · exact hall z h0
          · rcases hd with ⟨hb, hm⟩ | ⟨j, hj, hget⟩
            · exact Or.inr ⟨0, by simpa using hm, by simp [hb]⟩
            · exact Or.inr ⟨j + 1, by rw [hj]; congr 1; omega, by simpa using hget⟩
        · have hby : b ≤ y := by
            rcases hc with rfl | rfl
            · exact not_lt.mp (by simpa using ht)
            · exact le_of_lt (not_le.mp (by simpa using ht))
          refine keep (by intro z h; cases h; exact hby) (by rw [loop_some, if_neg ht])

/-- Invariant of the loop for strict `<`: either nothing beat the start value, or `best_model` is
    the **first** index attaining the final (strictly smaller) `best_ks`. -/
theorem loop_inv_lt :
    ∀ (l : List (Option (KS ρ))) (k : Nat) (b : ρ) (bm : Option Nat),
      (selectLoop (linOrd ρ) .lt l k (.val b) bm = (.val b, bm) ∧ ∀ y, some (KS.val y) ∈ l → b ≤ y) ∨
      ∃ b' j, selectLoop (linOrd ρ) .lt l k (.val b) bm = (.val b', some (k + j)) ∧ b' < b ∧
        l[j]? = some (some (.val b')) ∧ ∀ j', j' < j → ∀ y, l[j']? = some (some (.val y)) → b' < y := by
  intro l
  induction l with
  | nil => intro k b bm; exact Or.inl ⟨rfl, by simp⟩
  | cons e rest ih =>
    intro k b bm
    have keep : (∀ y, e = some (KS.val y) → b ≤ y) →
        selectLoop (linOrd ρ) .lt (e :: rest) k (.val b) bm = selectLoop (linOrd ρ) .lt rest (k + 1) (.val b) bm →
        (selectLoop (linOrd ρ) .lt (e :: rest) k (.val b) bm = (.val b, bm) ∧
            ∀ y, some (KS.val y) ∈ e :: rest → b ≤ y) ∨
        ∃ b' j, selectLoop (linOrd ρ) .lt (e :: rest) k (.val b) bm = (.val b', some (k + j)) ∧ b' < b ∧
          (e :: rest)[j]? = some (some (.val b')) ∧
          ∀ j', j' < j → ∀ y, (e :: rest)[j']? = some (some (.val y)) → b' < y := by
      intro hy heq
      rcases ih (k + 1) b bm with ⟨h, hall⟩ | ⟨b', j, h, hlt, hget, hfirst⟩
      · refine Or.inl ⟨heq.trans h, ?_⟩
        intro y hmem
        rcases List.mem_cons.mp hmem with h0 | h0
        · exact hy y h0.symm
        · exact hall y h0
      · refine Or.inr ⟨b', j + 1, ?_, hlt, by simpa using hget, ?_⟩
        · rw [heq, h]; congr 2; omega
        · intro j' hj' y hy'
          cases j' with
          | zero =>
            have : e = some (KS.val y) := by simpa using hy'
            exact lt_of_lt_of_le hlt (hy y this)
          | succ j'' => exact hfirst j'' (by omega) y (by simpa using hy')
    cases e with
    | none => exact keep (by intro y h; cases h) (loop_none _ _ _ _ _ _)
    | some x =>
      cases x with
      | nan => exact keep (by intro y h; cases h) (by rw [loop_some]; simp)
      | val y =>
        by_cases hyb : y < b
        · have heq : selectLoop (linOrd ρ) .lt (some (.val y) :: rest) k (.val b) bm
              = selectLoop (linOrd ρ) .lt rest (k + 1) (.val y) (some k) := by
            rw [loop_some]; simp [hyb]
          rcases ih (k + 1) y (some k) with ⟨h, hall⟩ | ⟨b', j, h, hlt, hget, hfirst⟩
          · exact Or.inr ⟨y, 0, by rw [heq, h]; rfl, hyb, by simp, by intro j' hj'; omega⟩
          · refine Or.inr ⟨b', j + 1, ?_, lt_trans hlt hyb, by simpa using hget, ?_⟩
            · rw [heq, h]; congr 2; omega
            · intro j' hj' z hz
              cases j' with
              | zero =>
                have : y = z := by simpa using hz
                exact this ▸ hlt
              | succ j'' => exact hfirst j'' (by omega) z (by simpa using hz)
        · exact keep (by intro z h; cases h; exact not_lt.mp hyb) (by rw [loop_some]; simp [hyb])

/-! ## Specification of `selectWith` for `<` / `<=` started at `+inf` -/

theorem selectWith_some (c : Cmp) (hc : c = .lt ∨ c = .le) (ks : List (Option (KS ρ))) (i : Nat)
    (h : selectWith (linOrd ρ) c .posInf ks = some i) :
    ∃ x, ks[i]? = some (some (.val x)) ∧ ∀ (j : Nat) (y : ρ), ks[j]? = some (some (KS.val y)) → x ≤ y := by
  obtain ⟨b', bm', hl, _, hall, hd⟩ := loop_inv c hc ks 0 (⊤ : ρ) none
  have hr : selectWith (linOrd ρ) c .posInf ks = bm' := by
    show (selectLoop (linOrd ρ) c ks 0 (.val ⊤) none).2 = bm'
    rw [hl]
  rw [hr] at h
  rcases hd with ⟨_, hm⟩ | ⟨j, hj, hget⟩
  · rw [hm] at h; cases h
  · have hij : i = j := by
      rw [hj] at h; injection h with h; omega
    subst hij
    exact ⟨b', hget, fun j y hy => hall y (List.mem_of_getElem? hy)⟩

theorem selectWith_of_finite (c : Cmp) (hc : c = .lt ∨ c = .le) (ks : List (Option (KS ρ)))
    (h : ∃ (j : Nat) (y : ρ), ks[j]? = some (some (KS.val y)) ∧ y < (⊤ : ρ)) :
    ∃ i x, selectWith (linOrd ρ) c .posInf ks = some i ∧ ks[i]? = some (some (.val x)) ∧ x < (⊤ : ρ) := by
  obtain ⟨j0, y, hy, hytop⟩ := h
  obtain ⟨b', bm', hl, _, hall, hd⟩ := loop_inv c hc ks 0 (⊤ : ρ) none
  have hr : selectWith (linOrd ρ) c .posInf ks = bm' := by
    show (selectLoop (linOrd ρ) c ks 0 (.val ⊤) none).2 = bm'
    rw [hl]
  have hb : b' < ⊤ := lt_of_le_of_lt (hall y (List.mem_of_getElem? hy)) hytop
  rcases hd with ⟨hbt, _⟩ | ⟨j, hj, hget⟩
  · exact absurd hbt (ne_of_lt hb)
  · exact ⟨j, b', by rw [hr, hj]; congr 1; omega, hget, hb⟩

omit [LinearOrder ρ] [BoundedOrder ρ] in
theorem selectWith_none_of_unfittable (o : KSOrd ρ) (c : Cmp) (init : Init) (ks : List (Option (KS ρ)))
    (h : ∀ e ∈ ks, e = none ∨ e = some .nan) : selectWith o c init ks = none := by
  unfold selectWith
  rw [loop_unfittable o c ks 0 _ none h]

theorem isMinimiser_iff (ks : List (Option (KS ρ))) (i : Nat) :
    isMinimiser (linOrd ρ) ks i = true ↔
      ∃ x, ks[i]? = some (some (.val x)) ∧ ∀ (j : Nat) (y : ρ), ks[j]? = some (some (KS.val y)) → x ≤ y := by
  unfold isMinimiser
  rcases hki : ks[i]? with _ | _ | _ | x
  · simp
  · simp
  · simp
  · simp only [List.all_eq_true, Option.some.injEq, KS.val.injEq, exists_eq_left']
    constructor
    · intro h j y hy
      have := h _ (List.mem_of_getElem? hy)
      simpa using this
    · intro h e he
      rcases e with _ | _ | y
      · rfl
      · simp
      · obtain ⟨j, hj⟩ := List.mem_iff_getElem?.mp he
        simpa using h j y hj

theorem accepts_selectWith (c : Cmp) (hc : c = .lt ∨ c = .le) (ks : List (Option (KS ρ))) :
    accepts (linOrd ρ) ks (selectWith (linOrd ρ) c .posInf ks) = true := by
  rcases hr : selectWith (linOrd ρ) c .posInf ks with _ | i
  · show noneAcceptable (linOrd ρ) ks = true
    unfold noneAcceptable
    rw [List.all_eq_true]
    intro e he
    rcases e with _ | _ | y
    · rfl
    · simp
    · by_contra hcon
      have hcon' : Cmp.test (linOrd ρ) .lt (.val y) (.val (⊤ : ρ)) = true := by
        have : (linOrd ρ).posInf = (⊤ : ρ) := rfl
        rw [← this]; simpa using hcon
      have hy : y < (⊤ : ρ) := by simpa using hcon'
      obtain ⟨j, hj⟩ := List.mem_iff_getElem?.mp he
      obtain ⟨i, x, hi, _⟩ := selectWith_of_finite c hc ks ⟨j, y, hj, hy⟩
      rw [hr] at hi; cases hi
  · exact (isMinimiser_iff ks i).mpr (selectWith_some c hc ks i hr)

/-- strict `<`: the selected index is the first one attaining the minimum. -/
theorem selectUnivariate_first (ks : List (Option (KS ρ))) (i : Nat)
    (h : selectUnivariate (linOrd ρ) ks = some i) :
    ∃ x, ks[i]? = some (some (.val x)) ∧ x < (⊤ : ρ) ∧
      (∀ (j : Nat) (y : ρ), ks[j]? = some (some (KS.val y)) → x ≤ y) ∧
      ∀ j : Nat, j < i → ∀ y : ρ, ks[j]? = some (some (KS.val y)) → x < y := by
  obtain ⟨x, hx, hmin⟩ := selectWith_some .lt (Or.inl rfl) ks i h
  have hsel : selectUnivariate (linOrd ρ) ks = (selectLoop (linOrd ρ) .lt ks 0 (.val ⊤) none).2 := rfl
  rcases loop_inv_lt ks 0 (⊤ : ρ) none with ⟨hl, _⟩ | ⟨b', j, hl, hlt, hget, hfirst⟩
  · rw [hsel, hl] at h; cases h
  · rw [hsel, hl] at h
    have hij : i = j := by injection h with h; omega
    subst hij
    have hxb : x = b' := by rw [hx] at hget; simpa using hget
    subst hxb
    exact ⟨x, hx, hlt, hmin, hfirst⟩

/-! ## `_select_candidates`: recursion over `__subclasses__()` = filter of the traversal -/

mutual
theorem tree_filter (p : Option ParametricType) (b : Option BoundedType) :
    ∀ t : ClassTree, selectCandidatesTree p b t = (traverse t).filter (passes p b)
  | .node _ subs => by
    rw [selectCandidatesTree, traverse]; exact subs_filter p b subs
theorem subs_filter (p : Option ParametricType) (b : Option BoundedType) :
    ∀ ts : List ClassTree, selectCandidatesSubs p b ts = (traverseSubs ts).filter (passes p b)
  | [] => by simp [selectCandidatesSubs, traverseSubs]
  | t :: ts => by
    rw [selectCandidatesSubs, traverseSubs, tree_filter p b t, subs_filter p b ts]
    simp only [List.filter_append]
    congr 2
    by_cases h : passes p b t.row = true <;> simp [List.filter, h]
end

/-- `passes` in words. -/
theorem passes_iff (p : Option ParametricType) (b : Option BoundedType) (r : ClassRow) :
    passes p b r = true ↔
      r.isABC = false ∧ (∀ p', p = some p' → r.parametric = p') ∧ (∀ b', b = some b' → r.bounded = b') := by
  unfold passes
  cases hA : r.isABC <;> cases p <;> cases b <;> simp [bne_iff_ne]

end CopVerif.Select
