import CopVerif.Model.GaussSample
/-!
  Structural lemmas about `Model/GaussSample.lean` (property C01): the `output` dict of `sample` is the
  `zip columns univariates` list mapped cell by cell (for distinct labels), the frame of draws looked up
  by label gives the array column at the label's position, `_fit_columns` keeps the table's labels in
  order and marks exactly the constant columns.  Core Lean only.
-/
namespace CopVerif.Model.GaussSample
open CopVerif

/-! ### `_fit_columns` -/

section Fit
variable {L α : Type} [BEq α]

theorem fitColumnsFrom_fst (j : Nat) (X : List (L × List α)) :
    (fitColumnsFrom j X).1 = X.map Prod.fst := by
  induction X generalizing j with
  | nil => rfl
  | cons p rest ih => obtain ⟨name, col⟩ := p; simp [fitColumnsFrom, ih]

theorem fitColumnsFrom_snd_length (j : Nat) (X : List (L × List α)) :
    (fitColumnsFrom j X).2.length = X.length := by
  induction X generalizing j with
  | nil => rfl
  | cons p rest ih => obtain ⟨name, col⟩ := p; simp [fitColumnsFrom, ih]

theorem fitColumns_columns (X : List (L × List α)) : (fitColumns X).columns = X.map Prod.fst :=
  fitColumnsFrom_fst 0 X

theorem fitColumns_lengths (X : List (L × List α)) :
    (fitColumns X).columns.length = (fitColumns X).univariates.length := by
  show (fitColumnsFrom 0 X).1.length = (fitColumnsFrom 0 X).2.length
  rw [fitColumnsFrom_fst, fitColumnsFrom_snd_length, List.length_map]

/-- position `k` of the fitted state holds the label of table column `k` and `fitColumn (j+k)` of its data. -/
theorem fitColumnsFrom_getElem? (j : Nat) (X : List (L × List α)) (k : Nat) (name : L) (col : List α)
    (h : X[k]? = some (name, col)) :
    (fitColumnsFrom j X).1[k]? = some name ∧ (fitColumnsFrom j X).2[k]? = some (fitColumn (j + k) col) := by
  induction X generalizing j k with
  | nil => simp at h
  | cons p rest ih =>
    obtain ⟨name', col'⟩ := p
    cases k with
    | zero =>
      simp only [List.getElem?_cons_zero, Option.some.injEq, Prod.mk.injEq] at h
      obtain ⟨rfl, rfl⟩ := h
      simp [fitColumnsFrom]
    | succ k =>
      simp only [List.getElem?_cons_succ] at h
      have := ih (j + 1) k h
      simp only [fitColumnsFrom, List.getElem?_cons_succ]
      rw [show j + (k + 1) = j + 1 + k by omega]
      exact this

theorem constantValue_of_forall_eq [LawfulBEq α] {col : List α} {c : α} (hne : col ≠ [])
    (hc : ∀ x ∈ col, x = c) : constantValue col = some c := by
  cases col with
  | nil => exact absurd rfl hne
  | cons x xs =>
    have hx : x = c := hc x (List.mem_cons_self)
    subst hx
    have : xs.all (· == x) = true := by
      rw [List.all_eq_true]
      intro y hy
      have := hc y (List.mem_cons_of_mem _ hy)
      simp [this]
    simp [constantValue, this]

theorem fitColumn_const [LawfulBEq α] (j : Nat) {col : List α} {c : α} (hne : col ≠ [])
    (hc : ∀ x ∈ col, x = c) : fitColumn j col = .const c := by
  simp [fitColumn, constantValue_of_forall_eq hne hc]

end Fit

/-! ### the `output` dict -/

section Dict
variable {L V : Type} [BEq L] [LawfulBEq L]

theorem dictSet_of_not_mem (d : List (L × V)) (k : L) (v : V) (h : k ∉ d.map Prod.fst) :
    dictSet d k v = d ++ [(k, v)] := by
  induction d with
  | nil => rfl
  | cons p rest ih =>
    obtain ⟨k', v'⟩ := p
    simp only [List.map_cons, List.mem_cons, not_or] at h
    have hne : (k' == k) = false := by
      rw [beq_eq_false_iff_ne]; exact fun e => h.1 e.symm
    simp [dictSet, hne, ih h.2]

omit [LawfulBEq L] in
theorem mem_dictSet {d : List (L × V)} {k : L} {v : V} {p : L × V} (h : p ∈ dictSet d k v) :
    p ∈ d ∨ p.2 = v := by
  induction d with
  | nil => simp [dictSet] at h; right; rw [h]
  | cons q rest ih =>
    obtain ⟨k', v'⟩ := q
    simp only [dictSet] at h
    split at h
    · rcases List.mem_cons.1 h with h | h
      · right; rw [h]
      · left; exact List.mem_cons_of_mem _ h
    · rcases List.mem_cons.1 h with h | h
      · left; rw [h]; exact List.mem_cons_self
      · rcases ih h with h | h
        · left; exact List.mem_cons_of_mem _ h
        · right; exact h

omit [LawfulBEq L] in
/-- a property of every inserted value holds of every value of the final dict. -/
theorem foldl_dictSet_forall {U : Type} (f : L × U → V) (P : V → Prop) (ps : List (L × U))
    (acc : List (L × V)) (hacc : ∀ q ∈ acc, P q.2) (hf : ∀ p ∈ ps, P (f p)) :
    ∀ q ∈ ps.foldl (fun out p => dictSet out p.1 (f p)) acc, P q.2 := by
  induction ps generalizing acc with
  | nil => simpa using hacc
  | cons p rest ih =>
    simp only [List.foldl_cons]
    apply ih
    · intro q hq
      rcases mem_dictSet hq with h | h
      · exact hacc q h
      · rw [h]; exact hf p List.mem_cons_self
    · intro q hq; exact hf q (List.mem_cons_of_mem _ hq)

/-- for distinct keys the dict is the list of `(key, value)` in iteration order. -/
theorem foldl_dictSet_nodup {U : Type} (f : L × U → V) (ps : List (L × U)) (acc : List (L × V))
    (hnd : (ps.map Prod.fst).Nodup) (hdisj : ∀ p ∈ ps, p.1 ∉ acc.map Prod.fst) :
    ps.foldl (fun out p => dictSet out p.1 (f p)) acc = acc ++ ps.map (fun p => (p.1, f p)) := by
  induction ps generalizing acc with
  | nil => simp
  | cons p rest ih =>
    simp only [List.map_cons, List.nodup_cons] at hnd
    simp only [List.foldl_cons]
    rw [dictSet_of_not_mem acc p.1 (f p) (hdisj p List.mem_cons_self)]
    rw [ih _ hnd.2]
    · simp
    · intro q hq
      simp only [List.map_append, List.map_cons, List.map_nil, List.mem_append, List.mem_singleton, not_or]
      refine ⟨hdisj q (List.mem_cons_of_mem _ hq), ?_⟩
      intro e
      exact hnd.1 (e ▸ List.mem_map_of_mem hq)

end Dict

/-! ### the frame of draws -/

section Frame
variable {L β : Type} [BEq L] [LawfulBEq L]

theorem length_colOf {d k : Nat} (rows : List (List β)) (hrows : ∀ r ∈ rows, r.length = d) (hk : k < d) :
    (colOf k rows).length = rows.length := by
  induction rows with
  | nil => rfl
  | cons r rest ih =>
    have hr : k < r.length := by rw [hrows r List.mem_cons_self]; exact hk
    have ih' := ih (fun r' h => hrows r' (List.mem_cons_of_mem _ h))
    simp only [colOf] at ih' ⊢
    rw [List.filterMap_cons, List.getElem?_eq_getElem hr]
    simp [ih']

/-- `samples[name]` is the array column at the FIRST position carrying that label. -/
theorem lookup_frameFrom_mem (k0 : Nat) (cols : List L) (rows : List (List β)) (name : L)
    (h : name ∈ cols) :
    ∃ i, cols[i]? = some name ∧ (frameFrom k0 cols rows).lookup name = some (colOf (k0 + i) rows) := by
  induction cols generalizing k0 with
  | nil => simp at h
  | cons c rest ih =>
    by_cases hc : name = c
    · subst hc
      exact ⟨0, by simp, by simp [frameFrom]⟩
    · have hmem : name ∈ rest := by
        rcases List.mem_cons.1 h with h | h
        · exact absurd h hc
        · exact h
      obtain ⟨i, hi, hl⟩ := ih (k0 + 1) hmem
      refine ⟨i + 1, by simpa using hi, ?_⟩
      have hne : (name == c) = false := by rw [beq_eq_false_iff_ne]; exact hc
      simp only [frameFrom, List.lookup, hne]
      rw [hl, show k0 + 1 + i = k0 + (i + 1) by omega]

/-- with distinct labels, `samples[columns[k]]` is array column `k`. -/
theorem getCol_frame_nodup (cols : List L) (rows : List (List β)) (hnd : cols.Nodup) (k : Nat) (name : L)
    (hk : cols[k]? = some name) : getCol (frame cols rows) name = colOf k rows := by
  have hmem : name ∈ cols := List.mem_of_getElem? hk
  obtain ⟨i, hi, hl⟩ := lookup_frameFrom_mem 0 cols rows name hmem
  have hik : i = k := by
    have hi' : i < cols.length := by
      rcases List.getElem?_eq_some_iff.1 hi with ⟨h, _⟩; exact h
    exact (List.getElem?_inj hi' hnd).1 (hi.trans hk.symm)
  subst hik
  simp [getCol, frame, hl]

end Frame

/-! ### `sample` -/

section Sample
variable {L β : Type} [BEq L] [LawfulBEq L]

/-- for distinct labels the result is `zip columns univariates` mapped cell by cell, in that order. -/
theorem sampleWith_eq_map (E : Ext β) (m : Fitted L β) (draws : List (List β))
    (hnd : m.columns.Nodup) (hlen : m.columns.length = m.univariates.length) :
    sampleWith E m draws
      = (m.columns.zip m.univariates).map fun p => (p.1, outCol E (frame m.columns draws) p) := by
  have hfst : (m.columns.zip m.univariates).map Prod.fst = m.columns :=
    List.map_fst_zip (Nat.le_of_eq hlen)
  have := foldl_dictSet_nodup (fun p => outCol E (frame m.columns draws) p)
    (m.columns.zip m.univariates) [] (by rw [hfst]; exact hnd) (by simp)
  simpa [sampleWith] using this

/-- cell formula: for distinct labels, output column `k` carries label `columns[k]` and is
    `map (univariates[k].ppf ∘ Φ)` of ARRAY column `k` of the draws. -/
theorem sample_getElem? (E : Ext β) (m : Fitted L β) (n : Nat)
    (hnd : m.columns.Nodup) (hlen : m.columns.length = m.univariates.length)
    (k : Nat) (name : L) (uni : Uni β) (hc : m.columns[k]? = some name) (hu : m.univariates[k]? = some uni) :
    (sample E m n)[k]? = some (name, (colOf k (E.mvn m.columns.length n)).map
      fun z => uni.ppf E.ppf (E.phi z)) := by
  unfold sample
  rw [sampleWith_eq_map E m _ hnd hlen, List.getElem?_map]
  have hz : (m.columns.zip m.univariates)[k]? = some (name, uni) := by
    rw [List.getElem?_zip_eq_some]; exact ⟨hc, hu⟩
  rw [hz]
  simp [outCol, getCol_frame_nodup _ _ hnd k name hc]

/-- every column of the result has as many cells as numpy returned rows (no `Nodup` needed). -/
theorem sampleWith_col_length (E : Ext β) (m : Fitted L β) (draws : List (List β))
    (hrows : ∀ r ∈ draws, r.length = m.columns.length) :
    ∀ c ∈ sampleWith E m draws, c.2.length = draws.length := by
  unfold sampleWith
  apply foldl_dictSet_forall (fun p => outCol E (frame m.columns draws) p) (fun v => v.length = draws.length)
  · intro q hq; simp at hq
  · intro p hp
    have hmem : p.1 ∈ m.columns := (List.of_mem_zip (a := p.1) (b := p.2) hp).1
    obtain ⟨i, hi, hl⟩ := lookup_frameFrom_mem 0 m.columns draws p.1 hmem
    have hi' : i < m.columns.length := by
      rcases List.getElem?_eq_some_iff.1 hi with ⟨h, _⟩; exact h
    simp only [outCol, getCol, frame, hl, Option.getD_some, List.length_map, Nat.zero_add]
    exact length_colOf draws hrows hi'

end Sample

end CopVerif.Model.GaussSample
