import CopVerif.Lemmas.VineSets
/-!
  The C16 structural predicate in `Prop` form (`IsRegularVine`, `IsStar`, `IsPath`) and the
  soundness of the decidable checkers of `Model/Vine.lean` with respect to it.
-/
set_option linter.unusedSimpArgs false
namespace CopVerif.Model.Vine

/-! ## spanning trees by growth order -/

/-- `Grows n vis pairs`: taken in order, every edge of `pairs` joins a node already in `vis`
    (extended by the nodes added so far) to a NEW node `< n`. -/
inductive Grows (n : Nat) : List Nat → List (Nat × Nat) → Prop
  | nil (vis : List Nat) : Grows n vis []
  | fwd {vis : List Nat} {a b : Nat} {rest : List (Nat × Nat)} :
      a ∈ vis → b ∉ vis → b < n → Grows n (b :: vis) rest → Grows n vis ((a, b) :: rest)
  | bwd {vis : List Nat} {a b : Nat} {rest : List (Nat × Nat)} :
      b ∈ vis → a ∉ vis → a < n → Grows n (a :: vis) rest → Grows n vis ((a, b) :: rest)

/-- `pairs` is (the edge list of) a spanning tree on the nodes `0 … n-1`: it has `n - 1` edges and,
    in its order, grows from a root — so it is connected and, having `n - 1` edges, acyclic. -/
def SpanningTree (n : Nat) (pairs : List (Nat × Nat)) : Prop :=
  pairs.length + 1 = n ∧ ∃ root, root < n ∧ Grows n [root] pairs

theorem grows_of_growsFrom {n : Nat} : ∀ {pairs : List (Nat × Nat)} {vis : List Nat},
    growsFrom n vis pairs = true → Grows n vis pairs
  | [], vis, _ => .nil vis
  | (a, b) :: rest, vis, h => by
    simp only [growsFrom, Bool.or_eq_true, Bool.and_eq_true, List.contains_iff_mem,
      Bool.not_eq_true', decide_eq_true_eq] at h
    rcases h with ⟨⟨⟨ha, hb⟩, hn⟩, hr⟩ | ⟨⟨⟨hb, ha⟩, hn⟩, hr⟩
    · exact .fwd ha (by simpa using hb) hn (grows_of_growsFrom hr)
    · exact .bwd hb (by simpa using ha) hn (grows_of_growsFrom hr)

theorem growsFrom_of_grows {n : Nat} {pairs : List (Nat × Nat)} {vis : List Nat}
    (h : Grows n vis pairs) : growsFrom n vis pairs = true := by
  induction h with
  | nil vis => rfl
  | fwd ha hb hn _ ih => simp [growsFrom, ha, hb, hn, ih]
  | bwd hb ha hn _ ih => simp [growsFrom, ha, hb, hn, ih]

theorem spanningTree_of_isSpanningTree {n : Nat} {pairs : List (Nat × Nat)}
    (h : isSpanningTree n pairs = true) (hn : 2 ≤ n) : SpanningTree n pairs := by
  unfold isSpanningTree at h
  simp only [Bool.and_eq_true, beq_iff_eq] at h
  refine ⟨h.1, ?_⟩
  cases pairs with
  | nil => simp at h; omega
  | cons p rest =>
    obtain ⟨a, b⟩ := p
    simp only [Bool.or_eq_true, Bool.and_eq_true, decide_eq_true_eq] at h
    rcases h.2 with ⟨ha, hg⟩ | ⟨hb, hg⟩
    · exact ⟨a, ha, grows_of_growsFrom hg⟩
    · exact ⟨b, hb, grows_of_growsFrom hg⟩

/-! ## edges of a vine -/

/-- `v` is an end (as a graph node of its tree) of edge `e`. -/
def IsEnd (first : Bool) (e : Edge) (v : Nat) : Prop := v = (e.ends first).1 ∨ v = (e.ends first).2

/-- two edges of one tree share a node (**proximity**, when they are the parents of an edge). -/
def ShareNode (first : Bool) (p q : Edge) : Prop := ∃ v, IsEnd first p v ∧ IsEnd first q v

theorem shareNode_iff {first : Bool} {p q : Edge} :
    shareNode first p q = true ↔ ShareNode first p q := by
  unfold shareNode ShareNode IsEnd
  simp only [Bool.or_eq_true, beq_iff_eq]
  constructor
  · rintro (((h | h) | h) | h)
    · exact ⟨_, Or.inl rfl, Or.inl h⟩
    · exact ⟨_, Or.inl rfl, Or.inr h⟩
    · exact ⟨_, Or.inr rfl, Or.inl h⟩
    · exact ⟨_, Or.inr rfl, Or.inr h⟩
  · rintro ⟨v, (h1 | h1), (h2 | h2)⟩
    · exact Or.inl (Or.inl (Or.inl (h1.symm.trans h2)))
    · exact Or.inl (Or.inl (Or.inr (h1.symm.trans h2)))
    · exact Or.inl (Or.inr (h1.symm.trans h2))
    · exact Or.inr (h1.symm.trans h2)

/-- an edge of the first tree: two distinct variables `< d`, nothing conditioned, no parents. -/
structure FirstEdgeSpec (d : Nat) (e : Edge) : Prop where
  parents : e.parents = none
  cond : e.D = []
  lt : e.L < e.R
  bound : e.R < d

/-- an edge of tree `k ≥ 1` (0-based) over the previous tree `prev`: its parents are two distinct
    edges of `prev` that share a node (proximity); its conditioned pair `L < R` is the symmetric
    difference and its conditioning set `D` (strictly increasing, `k` elements) the intersection
    of the parents' variable sets. -/
structure KthEdgeAt (k : Nat) (prev : Tree) (e : Edge) (i j : Nat) : Prop where
  hi : i < prev.length
  hj : j < prev.length
  parents : e.parents = some (i, j)
  ne : i ≠ j
  proximity : ShareNode (k == 1) (prev.getD i default) (prev.getD j default)
  lt : e.L < e.R
  conditioned : ∀ x, x = e.L ∨ x = e.R ↔
    (x ∈ (prev.getD i default).vars ∧ x ∉ (prev.getD j default).vars) ∨
    (x ∈ (prev.getD j default).vars ∧ x ∉ (prev.getD i default).vars)
  sortedD : SortedS e.D
  conditioning : ∀ x, x ∈ e.D ↔ x ∈ (prev.getD i default).vars ∧ x ∈ (prev.getD j default).vars
  card : e.D.length = k

def KthEdgeSpec (k : Nat) (prev : Tree) (e : Edge) : Prop := ∃ i j, KthEdgeAt k prev e i j

/-- tree `k` (0-based) of a vine on `d` variables: a spanning tree on its `d - k` nodes whose
    edges are well formed. -/
def TreeSpec (d k : Nat) (prev : Option Tree) (t : Tree) : Prop :=
  match prev with
  | none => (∀ e ∈ t, FirstEdgeSpec d e) ∧ SpanningTree d (t.map (Edge.ends true))
  | some p => (∀ e ∈ t, KthEdgeSpec k p e) ∧ SpanningTree (d - k) (t.map (Edge.ends false))

def TreesSpec (d : Nat) : Nat → Option Tree → List Tree → Prop
  | _, _, [] => True
  | k, prev, t :: ts => TreeSpec d k prev t ∧ TreesSpec d (k + 1) (some t) ts

/-- no pair of variables is conditioned twice. -/
def PairsOnce (trees : List Tree) : Prop := (condPairs trees).Nodup

/-- **The structural predicate of C16** for the trees of a vine fitted on `d ≥ 2` columns with
    truncation `t`: `min (d-1) t ≥ 1` trees (exactly one if `t = 0`), tree `k` a spanning tree on
    `d - k` nodes (hence `d - k - 1` edges) with well-formed edges, proximity, and no pair of
    variables conditioned twice. -/
structure IsRegularVine (d t : Nat) (trees : List Tree) : Prop where
  two_le : 2 ≤ d
  count : trees.length = max 1 (min (d - 1) t)
  trees_ok : TreesSpec d 0 none trees
  pairs_once : PairsOnce trees

theorem pairsOnceB_iff {l : List (Nat × Nat)} : pairsOnceB l = true ↔ l.Nodup := by
  induction l with
  | nil => simp [pairsOnceB]
  | cons a l ih => simp [pairsOnceB, ih]

theorem firstEdgeSpec_of_ok {d : Nat} {e : Edge} (h : firstEdgeOk d e = true) :
    FirstEdgeSpec d e := by
  simp only [firstEdgeOk, Bool.and_eq_true, beq_iff_eq, decide_eq_true_eq] at h
  exact ⟨h.1.1.1, h.1.1.2, h.1.2, h.2⟩

theorem kthEdgeSpec_of_ok {k : Nat} {prev : Tree} {e : Edge} (h : kthEdgeOk k prev e = true) :
    KthEdgeSpec k prev e := by
  unfold kthEdgeOk at h
  split at h
  · simp at h
  · rename_i i j hpar
    simp only [Bool.and_eq_true, decide_eq_true_eq, bne_iff_ne, ne_eq, beq_iff_eq] at h
    obtain ⟨⟨⟨⟨⟨⟨⟨hi, hj⟩, hne⟩, hsh⟩, hlt⟩, hsd⟩, hD⟩, hlen⟩ := h
    refine ⟨i, j, ?_⟩
    refine { hi := hi, hj := hj, parents := hpar, ne := hne,
             proximity := shareNode_iff.mp hsh, lt := hlt, conditioned := ?_, sortedD := ?_,
             conditioning := ?_, card := hlen }
    · intro x
      rw [← mem_symDiff, hsd]; simp
    · rw [hD]; exact sorted_inter _ (Edge.sorted_vars _)
    · intro x; rw [hD, mem_inter]

theorem treesSpec_of_ok {d : Nat} : ∀ {trees : List Tree} {k : Nat} {prev : Option Tree},
    treesOk d k prev trees = true → (∀ j, j < trees.length → 2 ≤ d - (k + j)) →
    (prev = none → k = 0) → TreesSpec d k prev trees
  | [], _, _, _, _, _ => trivial
  | t :: ts, k, prev, h, hn, hk => by
    simp only [treesOk, Bool.and_eq_true] at h
    refine ⟨?_, treesSpec_of_ok h.2 (fun j hj => ?_) (by simp)⟩
    · have h2 : 2 ≤ d - k := by simpa using hn 0 (by simp)
      cases prev with
      | none =>
        have hk0 := hk rfl; subst hk0
        simp only [treeOk, Bool.and_eq_true, List.all_eq_true] at h
        exact ⟨fun e he => firstEdgeSpec_of_ok (h.1.1 e he),
          spanningTree_of_isSpanningTree h.1.2 (by simpa using h2)⟩
      | some p =>
        simp only [treeOk, Bool.and_eq_true, List.all_eq_true] at h
        exact ⟨fun e he => kthEdgeSpec_of_ok (h.1.1 e he), spanningTree_of_isSpanningTree h.1.2 h2⟩
    · have := hn (j + 1) (by simpa using hj)
      rwa [show k + 1 + j = k + (j + 1) by omega]

/-- **Soundness of the decidable checker**: if `isRegularVine d t trees` evaluates to `true`
    (as it is required to on every real fitted vine in the correspondence run) then the trees
    satisfy the C16 structural predicate. -/
theorem isRegularVine_sound' {d t : Nat} {trees : List Tree}
    (h : isRegularVine d t trees = true) : IsRegularVine d t trees := by
  simp only [isRegularVine, Bool.and_eq_true, decide_eq_true_eq, beq_iff_eq] at h
  obtain ⟨⟨⟨h2, hc⟩, ht⟩, hp⟩ := h
  refine ⟨h2, hc, treesSpec_of_ok ht (fun j hj => ?_) (fun _ => rfl), pairsOnceB_iff.mp hp⟩
  rw [hc] at hj
  have : max 1 (min (d - 1) t) ≤ d - 1 := by omega
  omega

/-! ## type predicates -/

/-- a star: one node is an end of every edge. -/
def IsStar (pairs : List (Nat × Nat)) : Prop := ∃ c, ∀ p ∈ pairs, p.1 = c ∨ p.2 = c

/-- `Walks v seen pairs`: the edges, in order, walk from `v` along pairwise distinct new nodes. -/
inductive Walks : Nat → List Nat → List (Nat × Nat) → Prop
  | nil (v : Nat) (seen : List Nat) : Walks v seen []
  | fwd {v b : Nat} {seen : List Nat} {rest : List (Nat × Nat)} :
      b ∉ seen → Walks b (b :: seen) rest → Walks v seen ((v, b) :: rest)
  | bwd {v a : Nat} {seen : List Nat} {rest : List (Nat × Nat)} :
      a ∉ seen → Walks a (a :: seen) rest → Walks v seen ((a, v) :: rest)

/-- a path: the edges in order are the consecutive edges of a simple path. -/
def IsPath (pairs : List (Nat × Nat)) : Prop := ∃ v, Walks v [v] pairs

theorem isStar_sound {pairs : List (Nat × Nat)} (h : isStar pairs = true) : IsStar pairs := by
  unfold isStar at h
  cases pairs with
  | nil => exact ⟨0, by simp⟩
  | cons p rest =>
    obtain ⟨a, b⟩ := p
    simp only [Bool.or_eq_true, List.all_eq_true, beq_iff_eq] at h
    rcases h with h | h
    · exact ⟨a, h⟩
    · exact ⟨b, h⟩

theorem walks_of_walksFrom : ∀ {pairs : List (Nat × Nat)} {v : Nat} {seen : List Nat},
    walksFrom v seen pairs = true → Walks v seen pairs
  | [], v, seen, _ => .nil v seen
  | (a, b) :: rest, v, seen, h => by
    simp only [walksFrom, Bool.or_eq_true, Bool.and_eq_true, beq_iff_eq, Bool.not_eq_true',
      List.contains_eq_mem, decide_eq_false_iff_not] at h
    rcases h with ⟨⟨rfl, hb⟩, hr⟩ | ⟨⟨rfl, ha⟩, hr⟩
    · exact .fwd hb (walks_of_walksFrom hr)
    · exact .bwd ha (walks_of_walksFrom hr)

theorem isPath_sound {pairs : List (Nat × Nat)} (h : isPath pairs = true) : IsPath pairs := by
  unfold isPath at h
  cases pairs with
  | nil => exact ⟨0, .nil _ _⟩
  | cons p rest =>
    obtain ⟨a, b⟩ := p
    simp only [Bool.and_eq_true, Bool.or_eq_true] at h
    rcases h.2 with h | h
    · exact ⟨a, walks_of_walksFrom h⟩
    · exact ⟨b, walks_of_walksFrom h⟩

/-- the type clause of C16 in `Prop` form. -/
def TypeSpec (vt : VType) (trees : List Tree) : Prop :=
  match vt with
  | .center => ∀ ps ∈ treePairs trees, IsStar ps
  | .direct => ∀ ps ∈ treePairs trees, IsPath ps
  | .regular => True

theorem typeOk_sound' {vt : VType} {trees : List Tree} (h : typeOk vt trees = true) :
    TypeSpec vt trees := by
  cases vt with
  | center =>
    simp only [typeOk, List.all_eq_true] at h
    exact fun ps hps => isStar_sound (h ps hps)
  | direct =>
    simp only [typeOk, List.all_eq_true] at h
    exact fun ps hps => isPath_sound (h ps hps)
  | regular => trivial

end CopVerif.Model.Vine
