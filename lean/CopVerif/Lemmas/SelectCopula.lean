import CopVerif.Model.SelectCopula
import CopVerif.Real.Inst
/-!
  Lemmas for property C11 (`select_copula`).  Part A–C are about the model at an arbitrary carrier
  `α` (so they also read at `Float` under the stated order hypotheses); part D specialises the
  ranking to `ℝ`.
-/
set_option linter.unusedSectionVars false
set_option linter.unusedSimpArgs false
set_option linter.unusedVariables false
namespace CopVerif.Lemmas.SelectCopula
open CopVerif CopVerif.Model CopVerif.Model.SelectCopula

/-! ## A. the `_compute_empirical` loop -/
section Generic
variable {α : Type} [Add α] [Sub α] [Mul α] [Div α] [Neg α] [LT α] [LE α]
  [DecidableLT α] [DecidableLE α] [NumFns α]

/-- field-wise concatenation of the four lists. -/
def Emp.app (a b : Emp α) : Emp α :=
  ⟨a.zLeft ++ b.zLeft, a.L ++ b.L, a.zRight ++ b.zRight, a.R ++ b.R⟩

theorem Emp.app_empty (a : Emp α) : Emp.app a (empSpec leftOf rightOf []) = a := by
  cases a; simp [Emp.app, empSpec]

theorem Emp.empty_app (a : Emp α) : Emp.app Emp.empty a = a := by
  cases a; simp [Emp.app, Emp.empty]

/-- One loop iteration equals "append the index-free contribution of `b`", provided the list
    `z_right` has exactly `k` elements so far **or** nothing is appended on the right. -/
theorem stepEmp_eq (k : Nat) (b left right : α) (st : Emp α)
    (h : st.zRight.length = k ∨ Gen.SelectCopula.rightGuard right = false) :
    stepEmp k b left right st = .ok (Emp.app st
      ⟨if Gen.SelectCopula.leftGuard left then [b] else [],
       if Gen.SelectCopula.leftGuard left then [Gen.SelectCopula.leftVal left b] else [],
       if Gen.SelectCopula.rightGuard right then [b] else [],
       if Gen.SelectCopula.rightGuard right then [Gen.SelectCopula.rightVal right b b] else []⟩) := by
  cases st with
  | mk zl L zr R =>
  unfold stepEmp
  by_cases hl : Gen.SelectCopula.leftGuard left = true <;>
  by_cases hr : Gen.SelectCopula.rightGuard right = true <;>
  by_cases hrr : Gen.SelectCopula.rightReadsZRight = true
  all_goals first
    | (rcases h with h | h
       · simp only [] at h; subst h; simp [hl, hr, hrr, Emp.app]
       · simp [hr] at h)
    | simp [hl, hr, hrr, Emp.app]

/-- the right guard is antitone along the list: once it fails it fails for every later element. -/
def GuardAntitone (rightOf : α → α) (bs : List α) : Prop :=
  bs.Pairwise fun a b => Gen.SelectCopula.rightGuard (rightOf b) = true →
    Gen.SelectCopula.rightGuard (rightOf a) = true

/-- The loop started at index `k` in state `st` equals "append the index-free specification",
    provided `z_right` holds exactly `k` elements or nothing more will be appended to it. -/
theorem loopEmp_eq (leftOf rightOf : α → α) :
    ∀ (bs : List α) (k : Nat) (st : Emp α), GuardAntitone rightOf bs →
      (st.zRight.length = k ∨ ∀ b ∈ bs, Gen.SelectCopula.rightGuard (rightOf b) = false) →
      loopEmp leftOf rightOf bs k st = .ok (Emp.app st (empSpec leftOf rightOf bs)) := by
  intro bs
  induction bs with
  | nil => intro k st _ _; simp [loopEmp, Emp.app_empty]
  | cons b bs ih =>
    intro k st hp hk
    unfold GuardAntitone at hp
    rw [List.pairwise_cons] at hp
    obtain ⟨hb, hp'⟩ := hp
    have hstep := stepEmp_eq k b (leftOf b) (rightOf b) st (by
      rcases hk with hk | hk
      · exact Or.inl hk
      · exact Or.inr (hk b (by simp)))
    unfold loopEmp
    rw [hstep]
    simp only []
    rw [ih (k + 1) _ hp']
    · congr 1
      cases st with
      | mk zl L zr R =>
      by_cases hl : Gen.SelectCopula.leftGuard (leftOf b) = true <;>
      by_cases hr : Gen.SelectCopula.rightGuard (rightOf b) = true <;>
      simp [Emp.app, empSpec, List.filter_cons, hl, hr]
    · by_cases hr : Gen.SelectCopula.rightGuard (rightOf b) = true
      · rcases hk with hk | hk
        · left; simp [Emp.app, hr, hk]
        · have := hk b (by simp); simp [hr] at this
      · right
        intro b' hb'
        by_cases hr' : Gen.SelectCopula.rightGuard (rightOf b') = true
        · exact absurd (hb b' hb' hr') hr
        · simpa using hr'

/-- `_compute_empirical` never raises on a non-empty data set and a long enough grid along which the
    right guard is antitone, and its result is the index-free specification: in particular the
    value read as `z_right[k]` is `base[k]`. -/
theorem computeEmpirical_eq (base : List α) (data : List (α × α))
    (hlen : Gen.SelectCopula.steps ≤ base.length) (hdata : data ≠ [])
    (hanti : GuardAntitone (fun b => Gen.SelectCopula.ratio (countRight data b) data.length)
      (base.take Gen.SelectCopula.steps)) :
    computeEmpirical base data = .ok (empSpec
      (fun b => Gen.SelectCopula.ratio (countLeft data b) data.length)
      (fun b => Gen.SelectCopula.ratio (countRight data b) data.length)
      (base.take Gen.SelectCopula.steps)) := by
  unfold computeEmpirical
  have h1 : ¬ base.length < Gen.SelectCopula.steps := by omega
  have h2 : ¬ (data.length = 0 ∧ 0 < Gen.SelectCopula.steps) := by
    intro h; exact hdata (List.length_eq_zero_iff.mp h.1)
  simp only [h1, h2, if_false]
  rw [loopEmp_eq _ _ _ 0 Emp.empty hanti (Or.inl rfl), Emp.empty_app]

/-- `N = 0`: `0 / 0` on Python ints (not reachable through `select_copula`: `Frank.fit` raises first). -/
theorem computeEmpirical_nil (base : List α) (hlen : Gen.SelectCopula.steps ≤ base.length) :
    computeEmpirical base ([] : List (α × α)) = .error .other := by
  unfold computeEmpirical
  have h1 : ¬ base.length < Gen.SelectCopula.steps := by omega
  simp [h1, Gen.SelectCopula.steps]

/-- What the index-safety argument needs from the carrier: `≤` is transitive, `<` implies `≤`, and the
    test `right > 0` on `count / N` is monotone in the count (at `ℝ`: `N > 0`; at binary64:
    `count / N ≥ 2⁻⁵³` never underflows). -/
structure OrderHyps (α : Type) [Div α] [LT α] [LE α] [DecidableLT α] [NumFns α] : Prop where
  le_trans : ∀ a b c : α, a ≤ b → b ≤ c → a ≤ c
  le_of_lt : ∀ a b : α, a < b → a ≤ b
  guard_mono : ∀ c c' n : Nat, c' ≤ c →
    Gen.SelectCopula.rightGuard (Gen.SelectCopula.ratio c' n : α) = true →
    Gen.SelectCopula.rightGuard (Gen.SelectCopula.ratio c n : α) = true

/-- the right-tail count is non-increasing along an increasing grid. -/
theorem countRight_antitone (H : OrderHyps α) (data : List (α × α)) {b b' : α} (h : b ≤ b') :
    countRight data b' ≤ countRight data b := by
  unfold countRight
  apply List.countP_mono_left
  intro p _ hp
  simp only [Gen.SelectCopula.rightPred, Bool.and_eq_true, decide_eq_true_eq] at hp ⊢
  exact ⟨H.le_trans _ _ _ h hp.1, H.le_trans _ _ _ h hp.2⟩

theorem guardAntitone_of_increasing (H : OrderHyps α) (data : List (α × α)) (bs : List α)
    (hinc : bs.Pairwise (· < ·)) :
    GuardAntitone (fun b => Gen.SelectCopula.ratio (countRight data b) data.length) bs := by
  unfold GuardAntitone
  refine hinc.imp ?_
  intro a b hab hg
  exact H.guard_mono _ _ _ (countRight_antitone H data (H.le_of_lt _ _ hab)) hg

/-- **Index safety**, carrier-generic form. -/
theorem computeEmpirical_safe (H : OrderHyps α) (base : List α) (data : List (α × α))
    (hlen : Gen.SelectCopula.steps ≤ base.length) (hdata : data ≠ [])
    (hinc : base.Pairwise (· < ·)) :
    computeEmpirical base data = .ok (empSpec
      (fun b => Gen.SelectCopula.ratio (countLeft data b) data.length)
      (fun b => Gen.SelectCopula.ratio (countRight data b) data.length)
      (base.take Gen.SelectCopula.steps)) :=
  computeEmpirical_eq base data hlen hdata
    (guardAntitone_of_increasing H data _ (hinc.sublist (List.take_sublist _ _)))

end Generic

/-- the hypotheses hold at `ℝ`. -/
theorem orderHyps_real : OrderHyps ℝ where
  le_trans := fun _ _ _ => le_trans
  le_of_lt := fun _ _ => le_of_lt
  guard_mono := by
    intro c c' n hcc h
    simp only [Gen.SelectCopula.rightGuard, Gen.SelectCopula.ratio, ofNat_real, decide_eq_true_eq,
      Nat.cast_zero] at h ⊢
    have hn : (0 : ℝ) < n := by
      rcases Nat.eq_zero_or_pos n with hn | hn
      · subst hn; simp at h
      · exact_mod_cast hn
    have hc' : (0 : ℝ) < c' := by
      by_contra hneg
      have : (c' : ℝ) / n ≤ 0 := div_nonpos_of_nonpos_of_nonneg (not_lt.mp hneg) hn.le
      linarith
    have hc : (0 : ℝ) < c := lt_of_lt_of_le hc' (by exact_mod_cast hcc)
    exact div_pos hc hn
end CopVerif.Lemmas.SelectCopula
