import CopVerif.Model.SelectCopula
import CopVerif.Real.Inst
/-!
  Lemmas for property C11 (`select_copula`).  Part A–C are about the model at an arbitrary carrier
  `α` (so they also read at `Float` under the stated order hypotheses); part D specialises the
  ranking to `ℝ`.
-/
namespace CopVerif.Lemmas.SelectCopula
open CopVerif CopVerif.Model CopVerif.Model.SelectCopula

/-! ## A. the `_compute_empirical` loop -/
section Generic
variable {α : Type} [Add α] [Sub α] [Mul α] [Div α] [Neg α] [LT α] [LE α]
  [DecidableLT α] [DecidableLE α] [NumFns α]

/-- field-wise concatenation of the four lists. -/
def Emp.app (a b : Emp α) : Emp α :=
  ⟨a.zLeft ++ b.zLeft, a.L ++ b.L, a.zRight ++ b.zRight, a.R ++ b.R⟩

theorem Emp.app_empty (a : Emp α) : Emp.app a (empSpec leftOf rightOf []) = a := by
  cases a; simp [Emp.app, empSpec]

theorem Emp.empty_app (a : Emp α) : Emp.app Emp.empty a = a := by
  cases a; simp [Emp.app, Emp.empty]

/-- One loop iteration equals "append the index-free contribution of `b`", provided the list
    `z_right` has exactly `k` elements so far **or** nothing is appended on the right. -/
theorem stepEmp_eq (k : Nat) (b left right : α) (st : Emp α)
    (h : st.zRight.length = k ∨ Gen.SelectCopula.rightGuard right = false) :
    stepEmp k b left right st = .ok (Emp.app st
      ⟨if Gen.SelectCopula.leftGuard left then [b] else [],
       if Gen.SelectCopula.leftGuard left then [Gen.SelectCopula.leftVal left b] else [],
       if Gen.SelectCopula.rightGuard right then [b] else [],
       if Gen.SelectCopula.rightGuard right then [Gen.SelectCopula.rightVal right b b] else []⟩) := by
  cases st with
  | mk zl L zr R =>
  unfold stepEmp
  by_cases hl : Gen.SelectCopula.leftGuard left = true <;>
  by_cases hr : Gen.SelectCopula.rightGuard right = true <;>
  by_cases hrr : Gen.SelectCopula.rightReadsZRight = true
  all_goals first
    | (rcases h with h | h
       · simp only [] at h; subst h; simp [hl, hr, hrr, Emp.app]
       · simp [hr] at h)
    | simp [hl, hr, hrr, Emp.app]

end Generic
end CopVerif.Lemmas.SelectCopula
