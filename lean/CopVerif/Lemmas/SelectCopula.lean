import CopVerif.Model.SelectCopula
import CopVerif.Real.Inst
/-!
  Lemmas for property C11 (`select_copula`).  Part A–C are about the model at an arbitrary carrier
  `α` (so they also read at `Float` under the stated order hypotheses); part D specialises the
  ranking to `ℝ`.
-/
set_option linter.unusedSectionVars false
set_option linter.unusedSimpArgs false
set_option linter.unusedVariables false
namespace CopVerif.Lemmas.SelectCopula
open CopVerif CopVerif.Model CopVerif.Model.SelectCopula

/-! ## A. the `_compute_empirical` loop -/
section Generic
variable {α : Type} [Add α] [Sub α] [Mul α] [Div α] [Neg α] [LT α] [LE α]
  [DecidableLT α] [DecidableLE α] [NumFns α]

/-- field-wise concatenation of the four lists. -/
def Emp.app (a b : Emp α) : Emp α :=
  ⟨a.zLeft ++ b.zLeft, a.L ++ b.L, a.zRight ++ b.zRight, a.R ++ b.R⟩

theorem Emp.app_empty (a : Emp α) : Emp.app a (empSpec leftOf rightOf []) = a := by
  cases a; simp [Emp.app, empSpec]

theorem Emp.empty_app (a : Emp α) : Emp.app Emp.empty a = a := by
  cases a; simp [Emp.app, Emp.empty]

/-- One loop iteration equals "append the index-free contribution of `b`", provided the list
    `z_right` has exactly `k` elements so far **or** nothing is appended on the right. -/
theorem stepEmp_eq (k : Nat) (b left right : α) (st : Emp α)
    (h : st.zRight.length = k ∨ Gen.SelectCopula.rightGuard right = false) :
    stepEmp k b left right st = .ok (Emp.app st
      ⟨if Gen.SelectCopula.leftGuard left then [b] else [],
       if Gen.SelectCopula.leftGuard left then [Gen.SelectCopula.leftVal left b] else [],
       if Gen.SelectCopula.rightGuard right then [b] else [],
       if Gen.SelectCopula.rightGuard right then [Gen.SelectCopula.rightVal right b b] else []⟩) := by
  cases st with
  | mk zl L zr R =>
  unfold stepEmp
  by_cases hl : Gen.SelectCopula.leftGuard left = true <;>
  by_cases hr : Gen.SelectCopula.rightGuard right = true <;>
  by_cases hrr : Gen.SelectCopula.rightReadsZRight = true
  all_goals first
    | (rcases h with h | h
       · simp only [] at h; subst h; simp [hl, hr, hrr, Emp.app]
       · simp [hr] at h)
    | simp [hl, hr, hrr, Emp.app]

/-- the right guard is antitone along the list: once it fails it fails for every later element. -/
def GuardAntitone (rightOf : α → α) (bs : List α) : Prop :=
  bs.Pairwise fun a b => Gen.SelectCopula.rightGuard (rightOf b) = true →
    Gen.SelectCopula.rightGuard (rightOf a) = true

/-- The loop started at index `k` in state `st` equals "append the index-free specification",
    provided `z_right` holds exactly `k` elements or nothing more will be appended to it. -/
theorem loopEmp_eq (leftOf rightOf : α → α) :
    ∀ (bs : List α) (k : Nat) (st : Emp α), GuardAntitone rightOf bs →
      (st.zRight.length = k ∨ ∀ b ∈ bs, Gen.SelectCopula.rightGuard (rightOf b) = false) →
      loopEmp leftOf rightOf bs k st = .ok (Emp.app st (empSpec leftOf rightOf bs)) := by
  intro bs
  induction bs with
  | nil => intro k st _ _; simp [loopEmp, Emp.app_empty]
  | cons b bs ih =>
    intro k st hp hk
    unfold GuardAntitone at hp
    rw [List.pairwise_cons] at hp
    obtain ⟨hb, hp'⟩ := hp
    have hstep := stepEmp_eq k b (leftOf b) (rightOf b) st (by
      rcases hk with hk | hk
      · exact Or.inl hk
      · exact Or.inr (hk b (by simp)))
    unfold loopEmp
    rw [hstep]
    simp only []
    rw [ih (k + 1) _ hp']
    · congr 1
      cases st with
      | mk zl L zr R =>
      by_cases hl : Gen.SelectCopula.leftGuard (leftOf b) = true <;>
      by_cases hr : Gen.SelectCopula.rightGuard (rightOf b) = true <;>
      simp [Emp.app, empSpec, List.filter_cons, hl, hr]
    · by_cases hr : Gen.SelectCopula.rightGuard (rightOf b) = true
      · rcases hk with hk | hk
        · left; simp [Emp.app, hr, hk]
        · have := hk b (by simp); simp [hr] at this
      · right
        intro b' hb'
        by_cases hr' : Gen.SelectCopula.rightGuard (rightOf b') = true
        · exact absurd (hb b' hb' hr') hr
        · simpa using hr'

/-- `_compute_empirical` never raises on a non-empty data set and a long enough grid along which the
    right guard is antitone, and its result is the index-free specification: in particular the
    value read as `z_right[k]` is `base[k]`. -/
theorem computeEmpirical_eq (base : List α) (data : List (α × α))
    (hlen : Gen.SelectCopula.steps ≤ base.length) (hdata : data ≠ [])
    (hanti : GuardAntitone (fun b => Gen.SelectCopula.ratio (countRight data b) data.length)
      (base.take Gen.SelectCopula.steps)) :
    computeEmpirical base data = .ok (empSpec
      (fun b => Gen.SelectCopula.ratio (countLeft data b) data.length)
      (fun b => Gen.SelectCopula.ratio (countRight data b) data.length)
      (base.take Gen.SelectCopula.steps)) := by
  unfold computeEmpirical
  have h1 : ¬ base.length < Gen.SelectCopula.steps := by omega
  have h2 : ¬ (data.length = 0 ∧ 0 < Gen.SelectCopula.steps) := by
    intro h; exact hdata (List.length_eq_zero_iff.mp h.1)
  simp only [h1, h2, if_false]
  rw [loopEmp_eq _ _ _ 0 Emp.empty hanti (Or.inl rfl), Emp.empty_app]

/-- `N = 0`: `0 / 0` on Python ints (not reachable through `select_copula`: `Frank.fit` raises first). -/
theorem computeEmpirical_nil (base : List α) (hlen : Gen.SelectCopula.steps ≤ base.length) :
    computeEmpirical base ([] : List (α × α)) = .error .other := by
  unfold computeEmpirical
  have h1 : ¬ base.length < Gen.SelectCopula.steps := by omega
  simp [h1, Gen.SelectCopula.steps]

/-- What the index-safety argument needs from the carrier: `≤` is transitive, `<` implies `≤`, and the
    test `right > 0` on `count / N` is monotone in the count (at `ℝ`: `N > 0`; at binary64:
    `count / N ≥ 2⁻⁵³` never underflows). -/
structure OrderHyps (α : Type) [Div α] [LT α] [LE α] [DecidableLT α] [NumFns α] : Prop where
  le_trans : ∀ a b c : α, a ≤ b → b ≤ c → a ≤ c
  le_of_lt : ∀ a b : α, a < b → a ≤ b
  guard_mono : ∀ c c' n : Nat, c' ≤ c →
    Gen.SelectCopula.rightGuard (Gen.SelectCopula.ratio c' n : α) = true →
    Gen.SelectCopula.rightGuard (Gen.SelectCopula.ratio c n : α) = true

/-- the right-tail count is non-increasing along an increasing grid. -/
theorem countRight_antitone (H : OrderHyps α) (data : List (α × α)) {b b' : α} (h : b ≤ b') :
    countRight data b' ≤ countRight data b := by
  unfold countRight
  apply List.countP_mono_left
  intro p _ hp
  simp only [Gen.SelectCopula.rightPred, Bool.and_eq_true, decide_eq_true_eq] at hp ⊢
  exact ⟨H.le_trans _ _ _ h hp.1, H.le_trans _ _ _ h hp.2⟩

theorem guardAntitone_of_increasing (H : OrderHyps α) (data : List (α × α)) (bs : List α)
    (hinc : bs.Pairwise (· < ·)) :
    GuardAntitone (fun b => Gen.SelectCopula.ratio (countRight data b) data.length) bs := by
  unfold GuardAntitone
  refine hinc.imp ?_
  intro a b hab hg
  exact H.guard_mono _ _ _ (countRight_antitone H data (H.le_of_lt _ _ hab)) hg

/-- **Index safety**, carrier-generic form. -/
theorem computeEmpirical_safe (H : OrderHyps α) (base : List α) (data : List (α × α))
    (hlen : Gen.SelectCopula.steps ≤ base.length) (hdata : data ≠ [])
    (hinc : base.Pairwise (· < ·)) :
    computeEmpirical base data = .ok (empSpec
      (fun b => Gen.SelectCopula.ratio (countLeft data b) data.length)
      (fun b => Gen.SelectCopula.ratio (countRight data b) data.length)
      (base.take Gen.SelectCopula.steps)) :=
  computeEmpirical_eq base data hlen hdata
    (guardAntitone_of_increasing H data _ (hinc.sublist (List.take_sublist _ _)))

end Generic

/-- the hypotheses hold at `ℝ`. -/
theorem orderHyps_real : OrderHyps ℝ where
  le_trans := fun _ _ _ => le_trans
  le_of_lt := fun _ _ => le_of_lt
  guard_mono := by
    intro c c' n hcc h
    simp only [Gen.SelectCopula.rightGuard, Gen.SelectCopula.ratio, ofNat_real, decide_eq_true_eq,
      Nat.cast_zero] at h ⊢
    have hn : (0 : ℝ) < n := by
      rcases Nat.eq_zero_or_pos n with hn | hn
      · subst hn; simp at h
      · exact_mod_cast hn
    have hc' : (0 : ℝ) < c' := by
      by_contra hneg
      have : (c' : ℝ) / n ≤ 0 := div_nonpos_of_nonpos_of_nonneg (not_lt.mp hneg) hn.le
      linarith
    have hc : (0 : ℝ) < c := lt_of_lt_of_le hc' (by exact_mod_cast hcc)
    exact div_pos hc hn
/-! ## B. candidates -/
section Cands
variable {α : Type} [Add α] [Sub α] [Mul α] [Div α] [Neg α] [LT α] [LE α]
  [DecidableLT α] [DecidableLE α] [NumFns α]

/-- `compute_theta` of the closed-form families raises nothing but `ValueError` (generated code). -/
theorem tryCandidate_ok (solve : α → α) (τ : α) (f : Family) (o : Option (Cand α))
    (h : tryCandidate solve τ f = .ok o) :
    (o = none ∧ (computeThetaFam f solve τ = .error .valueError ∨
        ∃ θ, computeThetaFam f solve τ = .ok θ ∧ checkThetaB f θ = false)) ∨
    (∃ θ, o = some ⟨f, τ, θ⟩ ∧ computeThetaFam f solve τ = .ok θ ∧ checkThetaB f θ = true) := by
  unfold tryCandidate at h
  split at h
  · left; injection h with h; exact ⟨h.symm, Or.inl (by assumption)⟩
  · cases h
  · rename_i θ hθ
    by_cases hc : checkThetaB f θ = true
    · right; simp [hc] at h; exact ⟨θ, h.symm, hθ, hc⟩
    · left; simp [hc] at h; exact ⟨h.symm, Or.inr ⟨θ, hθ, by simpa using hc⟩⟩

/-- the candidates built after Frank: exactly the classes (in the order tried) whose calibration of
    the shared τ exists and passes `check_theta`; each carries τ and that calibration. -/
theorem extraCandidates_spec (solve : α → α) (τ : α) :
    ∀ (fs : List Family) (cs : List (Cand α)), extraCandidates solve τ fs = .ok cs →
      (∀ c ∈ cs, c.tau = τ ∧ c.fam ∈ fs ∧ computeThetaFam c.fam solve τ = .ok c.theta ∧
        checkThetaB c.fam c.theta = true) ∧
      (cs.map (·.fam)).Sublist fs ∧
      (∀ f ∈ fs, ∀ θ, computeThetaFam f solve τ = .ok θ → checkThetaB f θ = true →
        (⟨f, τ, θ⟩ : Cand α) ∈ cs) := by
  intro fs
  induction fs with
  | nil =>
    intro cs h
    simp [extraCandidates] at h
    subst h
    simp
  | cons f fs ih =>
    intro cs h
    unfold extraCandidates at h
    split at h
    · cases h
    · rename_i o ho
      split at h
      · cases h
      · rename_i cs' hcs'
        injection h with h
        subst h
        obtain ⟨h1, h2, h3⟩ := ih cs' hcs'
        rcases tryCandidate_ok solve τ f o ho with ⟨hnone, hwhy⟩ | ⟨θ, hsome, hθ, hc⟩
        · subst hnone
          refine ⟨?_, ?_, ?_⟩
          · intro c hc
            simp at hc
            obtain ⟨a, b, c', d⟩ := h1 c hc
            exact ⟨a, List.mem_cons_of_mem _ b, c', d⟩
          · simpa using h2.trans (List.sublist_cons_self f fs)
          · intro g hg θ hθ hc
            simp only [Option.toList_none, List.nil_append]
            rcases List.mem_cons.mp hg with rfl | hg
            · rcases hwhy with hw | ⟨θ', hw, hw'⟩
              · rw [hw] at hθ; cases hθ
              · rw [hw] at hθ; injection hθ with hθ; subst hθ; rw [hw'] at hc; cases hc
            · exact h3 g hg θ hθ hc
        · subst hsome
          refine ⟨?_, ?_, ?_⟩
          · intro c hc'
            simp only [Option.toList_some, List.singleton_append, List.mem_cons] at hc'
            rcases hc' with rfl | hc'
            · exact ⟨rfl, by simp, hθ, hc⟩
            · obtain ⟨a, b, c', d⟩ := h1 c hc'
              exact ⟨a, List.mem_cons_of_mem _ b, c', d⟩
          · simpa using h2
          · intro g hg θ' hθ' hc'
            simp only [Option.toList_some, List.singleton_append, List.mem_cons]
            rcases List.mem_cons.mp hg with rfl | hg
            · left; rw [hθ] at hθ'; injection hθ' with hθ'; subst hθ'; rfl
            · right; exact h3 g hg θ' hθ' hc'

/-- a successful `Frank.fit`: the two attributes it leaves behind. -/
theorem fit_frank_ok (solve : α → α) (inp : FitInput α) (st : FitState α)
    (h : (Model.fit .frank solve inp { tau := none, theta := none }) = (.ok (), st)) :
    st.tau = some inp.tau ∧ st.theta = some (.fin (solve inp.tau)) ∧
      checkThetaB Family.frank (Bound.fin (solve inp.tau)) = true ∧ NumFns.isNaN inp.tau = false := by
  unfold Model.fit at h
  split at h
  · cases h
  · split at h
    · cases h
    · simp only [] at h
      split at h
      · cases h
      · rename_i hnan
        simp only [computeThetaFam] at h
        split at h
        · injection h with h1 h2
          subst h2
          rename_i hc
          exact ⟨rfl, rfl, hc, by simpa using hnan⟩
        · cases h

/-- the shape of a successful `select_copula` run. -/
theorem selectOutcome_ok (ext : Ext α) (base : List α) (data : List (α × α)) (o : Outcome α)
    (h : selectOutcome ext base data = .ok o) :
    ∃ st, Model.fit .frank ext.frankSolve ext.fitInput { tau := none, theta := none } = (.ok (), st) ∧
      let τ := ext.fitInput.tau
      let θF : Bound α := .fin (ext.frankSolve τ)
      ((Gen.SelectCopula.frankOnly τ = true ∧ o = .early ⟨.frank, τ, θF⟩) ∨
       (Gen.SelectCopula.frankOnly τ = false ∧ rankPath ext base data τ θF = .ok o)) := by
  unfold selectOutcome at h
  split at h
  · cases h
  · rename_i u st hfit
    have hu : u = () := rfl
    subst hu
    obtain ⟨h1, h2, _, _⟩ := fit_frank_ok _ _ _ hfit
    refine ⟨st, hfit, ?_⟩
    rw [h1, h2] at h
    simp only [] at h
    by_cases hg : Gen.SelectCopula.frankOnly ext.fitInput.tau = true
    · left
      simp [hg] at h
      exact ⟨hg, h.symm⟩
    · right
      simp [hg] at h
      exact ⟨by simpa using hg, h⟩

theorem allCurves_length (inf : α) (zl zr : List α) :
    ∀ (cs : List (Cand α)) (xs : List (Curves α)), allCurves inf zl zr cs = .ok xs →
      xs.length = cs.length := by
  intro cs
  induction cs with
  | nil => intro xs h; simp [allCurves] at h; subst h; rfl
  | cons c cs ih =>
    intro xs h
    unfold allCurves at h
    split at h
    · cases h
    · split at h
      · cases h
      · rename_i xs' hxs'
        injection h with h
        subst h
        simp [ih xs' hxs']

/-- the shape of a successful ranking path. -/
theorem rankPath_ok (ext : Ext α) (base : List α) (data : List (α × α)) (τ : α) (θF : Bound α)
    (o : Outcome α) (h : rankPath ext base data τ θF = .ok o) :
    ∃ extra emp curves c,
      extraCandidates ext.frankSolve τ Gen.SelectCopula.extraFamilies = .ok extra ∧
      computeEmpirical base data = .ok emp ∧
      allCurves ext.inf emp.zLeft emp.zRight (⟨.frank, τ, θF⟩ :: extra) = .ok curves ∧
      let cands : List (Cand α) := ⟨.frank, τ, θF⟩ :: extra
      let ts := curves.map (distTriple emp.L emp.R)
      let sc := scores Gen.SelectCopula.rankAscending ts
      let idx := pickIdx Gen.SelectCopula.pickMax sc
      cands[idx]? = some c ∧ o = .ranked ⟨cands, emp, curves, ts, sc, idx⟩ c := by
  unfold rankPath at h
  split at h
  · cases h
  · rename_i extra hextra
    split at h
    · cases h
    · rename_i emp hemp
      simp only [] at h
      split at h
      · cases h
      · rename_i curves hcurves
        split at h
        · rename_i c hc
          injection h with h
          exact ⟨extra, emp, curves, c, hextra, hemp, hcurves, hc, h.symm⟩
        · cases h

/-- if every candidate's CDF evaluates (its `check_fit` passes) the curves are all produced. -/
theorem allCurves_ok (inf : α) (zl zr : List α) :
    ∀ cs : List (Cand α), (∀ c ∈ cs, ∀ zs, ∃ r, cdfDiag inf c zs = .ok r) →
      ∃ xs, allCurves inf zl zr cs = .ok xs := by
  intro cs
  induction cs with
  | nil => intro _; exact ⟨[], rfl⟩
  | cons c cs ih =>
    intro h
    obtain ⟨xs, hxs⟩ := ih (fun c' hc' => h c' (List.mem_cons_of_mem _ hc'))
    obtain ⟨rl, hrl⟩ := h c (by simp) zl
    obtain ⟨rr, hrr⟩ := h c (by simp) zr
    refine ⟨⟨List.zipWith Gen.SelectCopula.candLeft rl zl,
      List.zipWith Gen.SelectCopula.candRight rr zr⟩ :: xs, ?_⟩
    simp [allCurves, candCurves, hrl, hrr, hxs]

end Cands

/-! ## C. ranking and arg-max at ℝ -/
section Real

/-- pandas' descending average rank of `x` within `d`: the entries strictly larger than `x` come
    first, then the tie group of `x` (size `e`) occupying positions `g+1 … g+e`, whose mean is
    `g + (e+1)/2`. -/
noncomputable def rankR (d : List ℝ) (x : ℝ) : ℝ :=
  (d.countP (fun y => decide (x < y)) : ℝ) + ((d.countP (fun y => decide (x = y)) : ℝ) + 1) / 2

theorem rankOf_real (d : List ℝ) (x : ℝ) :
    rankOf Gen.SelectCopula.rankAscending d x = some (rankR d x) := by
  have hb : (fun y : ℝ => NumFns.beq x y) = fun y => decide (x = y) := rfl
  simp only [rankOf, Gen.SelectCopula.rankAscending, isNaN_real, hb, rankR, ofNat_real]
  simp only [Bool.false_eq_true, if_false]
  congr 1
  push_cast
  ring

theorem countP_add_le {β : Type} (p q r : β → Bool) (l : List β) (hp : ∀ z, p z = true → r z = true)
    (hq : ∀ z, q z = true → r z = true) (hpq : ∀ z, p z = true → q z = true → False) :
    l.countP p + l.countP q ≤ l.countP r := by
  induction l with
  | nil => simp
  | cons a l ih =>
    simp only [List.countP_cons]
    have h1 := hp a
    have h2 := hq a
    have h3 := hpq a
    cases hpa : p a <;> cases hqa : q a <;> cases hra : r a <;> simp_all <;> omega

/-- descending ranks reverse the order: the smaller distance gets the strictly larger rank. -/
theorem rankR_strictAnti (d : List ℝ) {x y : ℝ} (hy : y ∈ d) (hxy : x < y) :
    rankR d y < rankR d x := by
  have h1 : d.countP (fun z => decide (y < z)) + d.countP (fun z => decide (y = z))
      ≤ d.countP (fun z => decide (x < z)) := by
    apply countP_add_le
    · intro z hz; simp only [decide_eq_true_eq] at hz ⊢; exact lt_trans hxy hz
    · intro z hz; simp only [decide_eq_true_eq] at hz ⊢; exact hz ▸ hxy
    · intro z hz hz'; simp only [decide_eq_true_eq] at hz hz'; exact absurd hz (hz' ▸ lt_irrefl y)
  have h2 : 0 < d.countP (fun z => decide (y = z)) :=
    List.countP_pos_iff.mpr ⟨y, hy, by simp⟩
  have h1' : ((d.countP (fun z => decide (y < z)) : ℕ) : ℝ) + (d.countP (fun z => decide (y = z)) : ℕ)
      ≤ (d.countP (fun z => decide (x < z)) : ℕ) := by exact_mod_cast h1
  have h2' : (1 : ℝ) ≤ (d.countP (fun z => decide (y = z)) : ℕ) := by exact_mod_cast h2
  have h3 : (0 : ℝ) ≤ (d.countP (fun z => decide (x = z)) : ℕ) := Nat.cast_nonneg _
  unfold rankR
  linarith

/-- every rank lies in `[1, n]` … at least: it is at least 1 and at most the length. -/
theorem rankR_bounds (d : List ℝ) {x : ℝ} (hx : x ∈ d) : 1 ≤ rankR d x ∧ rankR d x ≤ d.length := by
  have h0 : d.countP (fun z => decide (x < z)) + d.countP (fun z => decide (x = z))
      ≤ d.countP (fun _ => true) := by
    apply countP_add_le
    · intro z _; rfl
    · intro z _; rfl
    · intro z hz hz'; simp only [decide_eq_true_eq] at hz hz'; exact absurd hz (hz' ▸ lt_irrefl x)
  have hall : d.countP (fun _ => true) = d.length := by simp
  rw [hall] at h0
  have h2 : 0 < d.countP (fun z => decide (x = z)) :=
    List.countP_pos_iff.mpr ⟨x, hx, by simp⟩
  have h0' : ((d.countP (fun z => decide (x < z)) : ℕ) : ℝ) + (d.countP (fun z => decide (x = z)) : ℕ)
      ≤ (d.length : ℝ) := by exact_mod_cast h0
  have h2' : (1 : ℝ) ≤ (d.countP (fun z => decide (x = z)) : ℕ) := by exact_mod_cast h2
  have h3 : (0 : ℝ) ≤ (d.countP (fun z => decide (x < z)) : ℕ) := Nat.cast_nonneg _
  unfold rankR
  constructor <;> linarith

/-- the score `select_copula` gives to a candidate with distance triple `t` among all triples `ts`. -/
noncomputable def scoreR (ts : List (ℝ × ℝ × ℝ)) (t : ℝ × ℝ × ℝ) : ℝ :=
  rankR (ts.map fun t => t.1) t.1 + rankR (ts.map fun t => t.2.1) t.2.1 +
    rankR (ts.map fun t => t.2.2) t.2.2

theorem scores_real (ts : List (ℝ × ℝ × ℝ)) :
    scores Gen.SelectCopula.rankAscending ts = (ts.map (scoreR ts)).map some := by
  simp only [scores, rankOf_real, scoreOf, Gen.SelectCopula.scoreSum, scoreR, List.map_map]
  rfl

/-- `np.argmax` on a NaN-free non-empty vector: the FIRST position of the maximum. -/
theorem argBest_max (l : List ℝ) (hl : l ≠ []) :
    ∃ m, l[argBest (fun y x => decide (x < y)) l]? = some m ∧ (∀ y ∈ l, y ≤ m) ∧
      (∀ j y, j < argBest (fun y x => decide (x < y)) l → l[j]? = some y → y < m) := by
  induction l with
  | nil => exact absurd rfl hl
  | cons x xs ih =>
    by_cases hxs : xs = []
    · subst hxs
      refine ⟨x, by simp [argBest], by simp, ?_⟩
      intro j y hj; simp [argBest] at hj
    · obtain ⟨m, hm, hmax, hbefore⟩ := ih hxs
      by_cases hlt : x < m
      · refine ⟨m, ?_, ?_, ?_⟩
        · simp [argBest, hm, hlt]
        · intro y hy
          rcases List.mem_cons.mp hy with rfl | hy
          · exact hlt.le
          · exact hmax y hy
        · intro j y hj hjy
          simp only [argBest, hm, hlt, decide_true, if_true] at hj
          cases j with
          | zero => simp at hjy; exact hjy ▸ hlt
          | succ j =>
            simp only [List.getElem?_cons_succ] at hjy
            exact hbefore j y (by omega) hjy
      · refine ⟨x, ?_, ?_, ?_⟩
        · simp [argBest, hm, hlt]
        · intro y hy
          rcases List.mem_cons.mp hy with rfl | hy
          · exact le_refl _
          · exact le_trans (hmax y hy) (not_lt.mp hlt)
        · intro j y hj; simp [argBest, hm, hlt] at hj

theorem pickIdx_real (l : List ℝ) :
    pickIdx Gen.SelectCopula.pickMax (l.map some) = argBest (fun y x => decide (x < y)) l := by
  have h1 : (l.map some).findIdx? Option.isNone = none := by
    rw [List.findIdx?_eq_none_iff]
    intro x hx
    simp only [List.mem_map] at hx
    obtain ⟨a, _, rfl⟩ := hx
    rfl
  have h2 : (l.map some).filterMap id = l := by
    induction l with
    | nil => rfl
    | cons a l ih => simp [List.filterMap_cons, ih]
  simp only [pickIdx, h1, h2, Gen.SelectCopula.pickMax, if_true]

/-- the arg-max index is in range. -/
theorem pickIdx_lt (ts : List (ℝ × ℝ × ℝ)) (hne : ts ≠ []) :
    pickIdx Gen.SelectCopula.pickMax (scores Gen.SelectCopula.rankAscending ts) < ts.length := by
  rw [scores_real, pickIdx_real]
  obtain ⟨m, hm, _, _⟩ := argBest_max (ts.map (scoreR ts)) (by simpa using hne)
  obtain ⟨h, _⟩ := List.getElem?_eq_some_iff.mp hm
  simpa using h

end Real

end CopVerif.Lemmas.SelectCopula
