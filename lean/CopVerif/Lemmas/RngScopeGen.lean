import CopVerif.Model.RngStep
import CopVerif.Lemmas.Rng
/-!
  Evaluation lemmas for the step language `CopVerif.Model.RngStep` and the tactic `rng_eval [defs…]`
  used by the bridge theorems of `CopVerif/Props/C15c.lean` (`Gen.RngScope.<def> = Model.Rng.<def>`).

  `rng_eval` runs a generated `do` block symbolically: `bind`/`pure`/`tryFin` are unfolded at a world, every
  primitive applied to a value of the right tag is replaced by its effect, tag tests are computed, and what
  remains is an equation between worlds that `simp` closes field by field (`upd_upd`: a cell written twice
  holds the last value).  Harmless rewrites of the Python source (renamed locals, extra temporaries, an
  `isinstance` chain in another order, `if x is not None … else …` with the arms swapped) produce a different
  `do` block with the same evaluation; a change of meaning leaves an unsolved goal.

  This file does not mention `CopVerif.Gen.RngScope`, so it is not rebuilt when the source changes.
-/
namespace CopVerif.Model.RngStep
open CopVerif.Model.Rng

variable {G Draw Out : Type} {α β : Type}

/-! ## the monad -/

@[simp] theorem pure_run (a : α) (w : World G) : (pure a : M G α) w = (w, .ok a) := rfl

@[simp] theorem mpure_run (a : α) (w : World G) : (M.pure a : M G α) w = (w, .ok a) := rfl

@[simp] theorem bind_run (x : M G α) (f : α → M G β) (w : World G) :
    (x >>= f) w = match x w with
      | (w1, .ok a) => f a w1
      | (w1, .error e) => (w1, .error e) := rfl

@[simp] theorem raiseExc_run (e : Exc) (w : World G) : (raiseExc e : M G α) w = (w, .error e) := rfl

@[simp] theorem tryFin_run (x : M G α) (f : M G (Val G)) (w : World G) :
    tryFin x f w = match x w with
      | (w1, r) =>
        match f w1 with
        | (w2, .ok _) => (w2, r)
        | (w2, .error e) => (w2, .error e) := rfl

@[simp] theorem ite_run (c : Prop) [Decidable c] (x y : M G α) (w : World G) :
    (if c then x else y) w = if c then x w else y w := by
  split <;> rfl

/-! ## primitives -/

@[simp] theorem npGetState_run (w : World G) : npGetState w = (w, .ok (.state w.global)) := rfl

@[simp] theorem npSetState_run (g : G) (w : World G) :
    npSetState (.state g) w = (⟨g, w.heap, w.next, w.rs⟩, .ok .none) := rfl

@[simp] theorem rsGetState_run (r : Nat) (w : World G) :
    rsGetState (.rs r) w = (w, .ok (.state (w.heap r))) := rfl

@[simp] theorem rsSetState_run (r : Nat) (g : G) (w : World G) :
    rsSetState (.rs r) (.state g) w = (⟨w.global, upd w.heap r g, w.next, w.rs⟩, .ok .none) := rfl

@[simp] theorem newRandomState_run (w : World G) :
    newRandomState w = (⟨w.global, w.heap, w.next + 1, w.rs⟩, .ok (.rs w.next)) := rfl

@[simp] theorem newRandomStateSeeded_int (A : GenAlg G Draw Out) (n : Nat) (w : World G) :
    newRandomStateSeeded A (.int n) w
      = (⟨w.global, upd w.heap w.next (A.fromSeed n), w.next + 1, w.rs⟩, .ok (.rs w.next)) := rfl

@[simp] theorem newRandomStateSeeded_none (A : GenAlg G Draw Out) (w : World G) :
    newRandomStateSeeded A (.none : Val G) w = (⟨w.global, w.heap, w.next + 1, w.rs⟩, .ok (.rs w.next)) := rfl

@[simp] theorem attrOf_get (m : Nat) (w : World G) :
    (attrOf m).getRandomState w = (w, .ok (optVal (w.rs m))) := rfl

@[simp] theorem attrOf_assign_none (m : Nat) (w : World G) :
    (attrOf m).assignRandomState .none w = (⟨w.global, w.heap, w.next, upd w.rs m none⟩, .ok .none) := rfl

@[simp] theorem attrOf_assign_rs (m r : Nat) (w : World G) :
    (attrOf m).assignRandomState (.rs r) w
      = (⟨w.global, w.heap, w.next, upd w.rs m (some r)⟩, .ok .none) := rfl

@[simp] theorem unseeded_get (w : World G) :
    (unseededInstance : SelfRef G).getRandomState w = (w, .ok .none) := rfl

@[simp] theorem unseeded_assign (v : Val G) (w : World G) :
    (unseededInstance : SelfRef G).assignRandomState v w = (w, .ok .none) := rfl

@[simp] theorem isNone_none : isNone (.none : Val G) = true := rfl
@[simp] theorem isNone_int (n : Nat) : isNone (.int n : Val G) = false := rfl
@[simp] theorem isNone_rs (r : Nat) : isNone (.rs r : Val G) = false := rfl
@[simp] theorem isNone_state (g : G) : isNone (.state g : Val G) = false := rfl
@[simp] theorem isNone_other : isNone (.other : Val G) = false := rfl
@[simp] theorem isInt_none : isInt (.none : Val G) = false := rfl
@[simp] theorem isInt_int (n : Nat) : isInt (.int n : Val G) = true := rfl
@[simp] theorem isInt_rs (r : Nat) : isInt (.rs r : Val G) = false := rfl
@[simp] theorem isInt_state (g : G) : isInt (.state g : Val G) = false := rfl
@[simp] theorem isInt_other : isInt (.other : Val G) = false := rfl
@[simp] theorem isRandomState_none : isRandomState (.none : Val G) = false := rfl
@[simp] theorem isRandomState_int (n : Nat) : isRandomState (.int n : Val G) = false := rfl
@[simp] theorem isRandomState_rs (r : Nat) : isRandomState (.rs r : Val G) = true := rfl
@[simp] theorem isRandomState_state (g : G) : isRandomState (.state g : Val G) = false := rfl
@[simp] theorem isRandomState_other : isRandomState (.other : Val G) = false := rfl

@[simp] theorem optVal_some (r : Nat) : (optVal (some r) : Val G) = .rs r := rfl
@[simp] theorem optVal_none : (optVal none : Val G) = .none := rfl

@[simp] theorem excOfName_TypeError : excOfName "TypeError" = .typeError := by decide

/-! ## glue -/

@[simp] theorem liftBody_run (b : World G → World G × Result Out) (w : World G) :
    liftBody b w = ((b w).1, ofResult (b w).2) := rfl

@[simp] theorem lowerBody_run (x : M G (List Out)) (w : World G) :
    lowerBody x w = ((x w).1, toResult (x w).2) := rfl

@[simp] theorem effect_run (x : M G α) (w : World G) : effect x w = (x w).1 := rfl

@[simp] theorem toResult_ofResult (r : Result Out) : toResult (ofResult r) = r := by cases r <;> rfl

@[simp] theorem lowerBody_liftBody (b : World G → World G × Result Out) : lowerBody (liftBody b) = b := by
  funext w; simp

@[simp] theorem seedVal_none : (seedVal .none : Val G) = .none := rfl
@[simp] theorem seedVal_int (n : Nat) : (seedVal (.int n) : Val G) = .int n := rfl
@[simp] theorem seedVal_obj (r : Nat) : (seedVal (.obj r) : Val G) = .rs r := rfl

theorem upd_upd {γ : Type} (f : Nat → γ) (k : Nat) (a b : γ) : upd (upd f k a) k b = upd f k b := by
  funext i
  simp only [upd]
  split <;> rfl

/-- the context manager of the model commutes with the change of vocabulary. -/
theorem withModelState_liftBody (st : G) (setter : G → World G → World G)
    (b : World G → World G × Result Out) (w : World G) :
    withModelState st setter (liftBody b) w
      = ((withModelState st setter b w).1, ofResult (withModelState st setter b w).2) := rfl

end CopVerif.Model.RngStep

/-- `rng_eval [defs…]`: symbolic evaluation of generated `do` blocks against the model's definitions. -/
syntax "rng_eval" "[" Lean.Parser.Tactic.simpLemma,* "]" : tactic

open Lean.Parser.Tactic in
macro_rules
  | `(tactic| rng_eval [$ls,*]) =>
    `(tactic| first
      | (simp only [$ls,*]; done)
      | rfl
      | (simp [$ls,*, CopVerif.Model.RngStep.upd_upd, CopVerif.Model.RngStep.withModelState_liftBody,
          CopVerif.Model.Rng.withModelState, CopVerif.Model.Rng.storeFresh,
          CopVerif.Model.Rng.setRandomState]; done))
