import CopVerif.Gen.VineBuild
import CopVerif.Lemmas.VineSets
/-!
  Bridge lemmas for the translator tie of C16: every definition of the GENERATED `CopVerif/Gen/VineBuild.lean`
  (regenerated from `copulas/multivariate/tree.py` / `vine.py` on every run by `tools/gen_vinebuild.py`) equals the
  corresponding definition of the hand model `CopVerif/Model/Vine.lean`, for all inputs.  Headline:
  `gen_trainVine_eq`.
-/
set_option linter.unusedSimpArgs false
set_option linter.unusedSectionVars false
set_option linter.unusedVariables false
namespace CopVerif.Gen.VineBuild
open CopVerif CopVerif.Model.Vine

/-! ## sets, `_identify_eds_ing`, `_check_constraint`, `is_adjacent`, `sort_edge`, `get_child_edge` -/

theorem pyUnion_pySet_eq (l D : List Nat) : pyUnion (pySet l) D = norm (l ++ D) := by
  unfold pyUnion pySet
  exact sorted_ext (sorted_norm _) (sorted_norm _) (fun a => by simp [mem_norm])

theorem pyUnion_norm_eq (l D : List Nat) : pyUnion (norm l) D = norm (l ++ D) := by
  unfold pyUnion
  exact sorted_ext (sorted_norm _) (sorted_norm _) (fun a => by simp [mem_norm])

theorem pyUnion_vars (e : Edge) : pyUnion (pySet [e.L, e.R]) e.D = e.vars := by
  rw [pyUnion_pySet_eq]; rfl

theorem gen_identify_eq (p q : Edge) : identifyEdsIng p q = identify p q := by
  unfold identifyEdsIng identify
  simp only [pyUnion_vars, pySorted, pySymDiff, pyInter]
  rcases symDiff p.vars q.vars with _ | ⟨a, _ | ⟨b, _ | ⟨c, t⟩⟩⟩ <;> rfl

theorem gen_checkConstraint_eq (level : Nat) (e f : Edge) :
    checkConstraintPy level e f = checkConstraint level e f := by
  unfold checkConstraintPy checkConstraint pyLen
  rw [pyUnion_pySet_eq, pyUnion_norm_eq] <;> (congr 1; omega)

theorem gen_isAdjacent_eq (e f : Edge) : isAdjacentPy e f = isAdjacent e f := by
  unfold isAdjacentPy isAdjacent
  generalize (e.L == f.L) = a
  generalize (e.L == f.R) = b
  generalize (e.R == f.L) = c
  generalize (e.R == f.R) = d
  cases a <;> cases b <;> cases c <;> cases d <;> rfl

theorem gen_sortSwaps_eq (p q : Edge) : sorted2Swaps sortEdgeKey p q = keyLt q p := rfl

theorem gen_sortedChild_eq (prev : Tree) (i j : Nat) :
    sortedChild prev (i, j) = childEdge prev i j := by
  unfold sortedChild childEdge
  cases hp : getE prev i with
  | error e => rfl
  | ok p =>
    cases hq : getE prev j with
    | error e => rfl
    | ok q =>
      simp only [gen_sortSwaps_eq, sortPair, getChildEdge, gen_identify_eq, bind, Except.bind]
      by_cases h : keyLt q p = true
      · simp only [h, if_true]
      · simp only [h, if_false, Bool.false_eq_true]

section
variable {α : Type} [LT α] [DecidableLT α] [Neg α] [NumFns α]

/-! ## `_sort_tau_by_y` -/

theorem gen_sortTauKey_eq (tau : Mat α) (y i : Nat) :
    sortTauKey (sortTauRow tau y i) = sortKey (i == y) (tau.get i y) := by
  cases h : (i == y) <;> simp [sortTauKey, sortTauRow, sortKey, nvFill, nvAbs, h, m10]

theorem gen_sortTauVal_eq (tau : Mat α) (y i : Nat) :
    (sortTauRow tau y i).c1 = sortVal (i == y) (tau.get i y) := by
  cases h : (i == y) <;> simp [sortTauRow, sortVal, nvFill, h, m10]

theorem gen_sortTauIdx_eq (tau : Mat α) (y i : Nat) : (sortTauRow tau y i).c0 = i := rfl

theorem gen_sortKeys_eq (tau : Mat α) (y n : Nat) : sortKeys tau y n = colKeys tau y n := by
  unfold sortKeys colKeys
  exact List.map_congr_left (fun i _ => gen_sortTauKey_eq tau y i)

theorem gen_sortDescending : sortTauDescending = true := rfl

theorem colVals_getD (tau : Mat α) (y n r : Nat) (hr : r < n) :
    (colVals tau y n).getD r (NumFns.ofNat 0) = sortVal (r == y) (tau.get r y) := by
  unfold colVals
  simp [List.getD_eq_getElem?_getD, List.getElem?_map, List.getElem?_range hr]

theorem orderOk_facts {n : Nat} {keys : List α} {picks : List Nat}
    (h : orderOk n keys picks = true) : picks.length + 1 = n ∧ ∀ p ∈ picks, p < n := by
  unfold orderOk at h
  simp only [Bool.and_eq_true, beq_iff_eq, List.all_eq_true, decide_eq_true_eq] at h
  exact ⟨h.1.1.1.1, h.1.1.1.2⟩

theorem top2Ok_facts {n : Nat} {keys : List α} {l r : Nat}
    (h : top2Ok n keys l r = true) : l < n ∧ r < n := by
  unfold top2Ok at h
  simp only [Bool.and_eq_true, decide_eq_true_eq] at h
  exact ⟨h.1.1.1.1, h.1.1.1.2⟩

/-! ## CenterTree -/

theorem gen_centerFirst_eq (n : Nat) (tau : Mat α) (picks : List Nat) :
    buildFirstCenter n tau picks = centerFirst n tau picks := by
  unfold buildFirstCenter centerFirst argsortHeadOk
  simp only [gen_sortDescending, if_true, gen_sortKeys_eq, centerFirstY, centerFirstCount]
  cases h : orderOk n (colKeys tau 0 n) picks with
  | false => simp
  | true =>
    have hl := (orderOk_facts h).1
    have : (picks.length == n - 1) = true := by simp; omega
    simp only [this, Bool.and_self, if_true]
    rfl

theorem gen_centerKth_eq (n : Nat) (prev : Tree) (tau : Mat α) (picks : List Nat) :
    buildKthCenter n prev tau picks = centerKth n prev tau picks := by
  unfold buildKthCenter centerKth argsortHeadOk
  simp only [gen_sortDescending, if_true, gen_sortKeys_eq, centerKthY, getAnchor, centerKthCount]
  cases h : orderOk n (colKeys tau 0 n) picks with
  | false => simp
  | true =>
    obtain ⟨hl, hlt⟩ := orderOk_facts h
    have : (picks.length == n - 1) = true := by simp; omega
    simp only [this, Bool.and_self, if_true]
    have h1 : (picks.mapM fun p => sortedChild prev (centerKthParents n (sortTauRow tau 0 p))) =
        starKth prev picks := by
      unfold starKth
      congr 1
      funext p
      exact gen_sortedChild_eq prev 0 p
    have h2 : (picks.map fun p => centerKthTau (sortTauRow tau 0 p)) =
        picks.map fun r => (colVals tau 0 n).getD r (NumFns.ofNat 0) := by
      apply List.map_congr_left
      intro r hr
      rw [colVals_getD tau 0 n r (hlt r hr)]
      exact gen_sortTauVal_eq tau 0 r
    rw [h1, h2]

/-! ## DirectTree -/

theorem gen_directLoop_eq (fuel : Nat) (m : Mat α) (T1 : List Nat) (tT1 : List α) :
    directLoop fuel m T1 tT1 = greedyLoop fuel m T1 tT1 := by
  induction fuel generalizing m T1 tT1 with
  | zero => rfl
  | succ k ih =>
    show directLoop k (directStep m T1 tT1).1 (directStep m T1 tT1).2.1 (directStep m T1 tT1).2.2 = _
    rw [ih]
    conv_rhs => unfold greedyLoop
    by_cases h : npMax (matRow m (pyLast T1)) < npMax (matRow m (pyFirst T1))
    · have hs : directStep m T1 tT1 = (m.setCol (argmax (matRow m (pyFirst T1))) (-(NumFns.ofNat 10)),
          [argmax (matRow m (pyFirst T1))] ++ T1, [npMax (matRow m (pyFirst T1))] ++ tT1) := if_pos h
      rw [hs]
      exact (if_pos h).symm
    · have hs : directStep m T1 tT1 = (m.setCol (argmax (matRow m (pyLast T1))) (-(NumFns.ofNat 10)),
          T1 ++ [argmax (matRow m (pyLast T1))], tT1 ++ [npMax (matRow m (pyLast T1))]) := if_neg h
      rw [hs]
      exact (if_neg h).symm

theorem gen_directFirstEdge_eq (a b : Nat) : directFirstEdge a b = mkSorted a b := by
  unfold directFirstEdge mkSorted sortedPair mkEdge
  split <;> rfl

theorem gen_directEdges_eq (l : List Nat) : directEdges l = pathEdges l := by
  induction l with
  | nil => rfl
  | cons a t ih =>
    cases t with
    | nil => rfl
    | cons b rest =>
      unfold directEdges pathEdges
      rw [ih, gen_directFirstEdge_eq]

theorem gen_directFirst_eq (n : Nat) (tau : Mat α) (left right : Nat) :
    buildFirstDirect n tau left right = directFirst n tau left right := by
  unfold buildFirstDirect directFirst argsortTop2Ok
  simp only [gen_sortDescending, if_true, gen_sortKeys_eq, directFirstY]
  cases h : top2Ok n (colKeys tau 0 n) left right with
  | false => simp
  | true =>
    obtain ⟨hl, hr⟩ := top2Ok_facts h
    simp only [if_true, greedyPath, directInitT1, directInitTauT1, directInitMask, setCols,
      List.foldl, gen_sortTauIdx_eq, gen_sortTauVal_eq, gen_directLoop_eq, directLoopCount,
      directEdgeCount, colVals_getD tau 0 n left hl, colVals_getD tau 0 n right hr,
      gen_directEdges_eq, m10]
    have : n - 1 - 2 = n - 3 := by omega
    rw [this]

theorem gen_directKth_eq (n : Nat) (prev : Tree) (tau : Mat α) :
    buildKthDirect n prev tau = directKth n prev tau := by
  unfold buildKthDirect directKth pathKth
  have : (fun k => sortedChild prev (directKthParents k)) = fun k => childEdge prev k (k + 1) := by
    funext k; exact gen_sortedChild_eq prev k (k + 1)
  simp only [this, directKthCount]
  rfl

/-! ## RegularTree -/

theorem gen_adjFirst_eq (n : Nat) (vis : List Nat) :
    adjSet n vis (regFirstCand vis) regFirstPair = candsFirst n vis := rfl

theorem gen_adjKth_eq (level n : Nat) (prev : Tree) (vis : List Nat) :
    adjSet n vis (regKthCand level prev vis) regKthPair = candsKth level n prev vis := by
  unfold adjSet candsKth regKthCand regKthPair
  simp only [gen_checkConstraint_eq]

theorem gen_firstStep_eq (n : Nat) (tau : Mat α) (vis : List Nat) (q : Nat × Nat) :
    sortedHeadOk (regFirstKey tau) (candsFirst n vis) q = primStepOk n tau vis q := rfl

theorem gen_kthStep_eq (level n : Nat) (prev : Tree) (tau : Mat α) (vis : List Nat) (q : Nat × Nat) :
    sortedHeadOk (regKthKey tau) (candsKth level n prev vis) q = primStepKthOk level n prev tau vis q :=
  rfl

theorem gen_regFirstEdge_eq (q : Nat × Nat) : regFirstEdge q = mkSorted q.1 q.2 :=
  gen_directFirstEdge_eq q.1 q.2

theorem gen_regFirstGo_eq (n : Nat) (tau : Mat α) (vis : List Nat) (qs : List (Nat × Nat)) :
    regFirstGo n tau vis qs = primFirstGo n tau vis qs := by
  induction qs generalizing vis with
  | nil => rfl
  | cons q qs ih =>
    unfold regFirstGo primFirstGo
    simp only [gen_adjFirst_eq, gen_firstStep_eq, ih, gen_regFirstEdge_eq, regFirstAdd, regFirstTau]

theorem gen_regFirst_eq (n : Nat) (tau : Mat α) (choices : List (Nat × Nat)) :
    buildFirstRegular n tau choices = primFirst n tau choices :=
  gen_regFirstGo_eq n tau regFirstStart choices

theorem gen_regKthGo_eq (level n : Nat) (prev : Tree) (tau : Mat α) (vis : List Nat)
    (qs : List (Nat × Nat)) :
    regKthGo level n prev tau vis qs = primKthGo level n prev tau vis qs := by
  induction qs generalizing vis with
  | nil =>
    unfold regKthGo primKthGo
    simp only [gen_adjKth_eq]
  | cons q qs ih =>
    unfold regKthGo primKthGo
    simp only [gen_adjKth_eq, gen_kthStep_eq, ih, regKthParents, gen_sortedChild_eq, regKthAdd,
      regKthTau]

theorem gen_regKth_eq (level n : Nat) (prev : Tree) (tau : Mat α) (choices : List (Nat × Nat)) :
    buildKthRegular level n prev tau choices = primKth level n prev tau choices :=
  gen_regKthGo_eq level n prev tau regKthStart choices

/-! ## `Tree.fit`, `train_vine` -/

theorem gen_treeFit_first_eq (vt : VType) (n : Nat) (prev : Tree) (c : Choice α) :
    treeFit vt 0 n prev c = buildFirst vt n c := by
  unfold treeFit buildFirst
  simp only [fitIsFirst]
  cases vt with
  | center => exact gen_centerFirst_eq n c.tau c.picks
  | direct =>
    simp only [Nat.zero_add, beq_self_eq_true, if_true]
    obtain ⟨tau, picks⟩ := c
    rcases picks with _ | ⟨a, _ | ⟨b, _ | ⟨x, t⟩⟩⟩
    · rfl
    · rfl
    · exact gen_directFirst_eq n tau a b
    · rfl
  | regular => exact gen_regFirst_eq n c.tau _

theorem gen_treeFit_kth_eq (vt : VType) (k n : Nat) (prev : Tree) (c : Choice α) :
    treeFit vt (k + 1) n prev c = buildKth vt (k + 1 + 1) n prev c := by
  unfold treeFit buildKth
  have : fitIsFirst (k + 1) = false := by simp [fitIsFirst]
  simp only [this, Bool.false_eq_true, if_false, fitLevel]
  cases vt with
  | center => exact gen_centerKth_eq n prev c.tau c.picks
  | direct => exact gen_directKth_eq n prev c.tau
  | regular => exact gen_regKth_eq _ n prev c.tau _

theorem gen_trainLoop_eq (vt : VType) (d fuel k : Nat) (prev : Tree) (cs : List (Choice α)) :
    trainLoop vt d fuel (k + 1) prev cs = trainRest vt d fuel (k + 1) prev cs := by
  induction fuel generalizing k prev cs with
  | zero => rfl
  | succ f ih =>
    cases cs with
    | nil => rfl
    | cons c cs =>
      unfold trainLoop trainRest
      simp only [trainKthIndex, trainKthNodes, gen_treeFit_kth_eq, ih]

theorem gen_trainLoop_one_eq (vt : VType) (d fuel : Nat) (prev : Tree) (cs : List (Choice α)) :
    trainLoop vt d fuel 1 prev cs = trainRest vt d fuel 1 prev cs :=
  gen_trainLoop_eq vt d fuel 0 prev cs

/-- **the generated `train_vine` IS the hand model's**, for every vine type, size, truncation and
    supplied tau data / tie-breaking. -/
theorem gen_trainVine_eq (vt : VType) (d t : Nat) (cs : List (Choice α)) :
    trainVineGen vt d t cs = trainVine vt d t cs := by
  unfold trainVineGen trainVine
  cases cs with
  | nil => rfl
  | cons c cs =>
    simp only [trainFirstIndex, trainFirstNodes, trainLoopHi, trainLoopLo, gen_treeFit_first_eq,
      gen_trainLoop_one_eq]

end
end CopVerif.Gen.VineBuild
