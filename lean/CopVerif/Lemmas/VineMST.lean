import Mathlib.Algebra.BigOperators.Group.List.Basic
import Mathlib.Algebra.Order.BigOperators.Group.List
import Mathlib.Combinatorics.SimpleGraph.Acyclic
import CopVerif.Lemmas.VineTotal
import CopVerif.Real.Inst
/-!
  Prim's first tree of a regular vine is a MAXIMUM spanning tree of the complete graph weighted by
  `|tau|` (exchange argument).

  The proof never needs acyclicity.  `ConnSpan n vis E` says: the edge list `E` (end points `< n`)
  connects every node `< n` to the node set `vis`.  Invariant of the induction over Prim's loop:
  every `E` with `ConnSpan n vis E` and `|E| + |vis| ≤ n` weighs at most what Prim still adds.
  Step: Prim adds `(x, k)` of maximal weight across the cut `vis | rest`; `k` is connected to `vis`
  in `E`, so some edge `f ∈ E` crosses the cut with `k` on its far side in `E - f`; `w f ≤ w (x,k)`
  and `E - f` connects everything to `vis ∪ {k}`.
-/
set_option linter.unusedSimpArgs false
set_option linter.unusedSectionVars false
set_option linter.unusedVariables false
namespace CopVerif.Model.Vine

/-! ## reachability -/

theorem Reach.trans {E : List (Nat × Nat)} {a b c : Nat} (h1 : Reach E a b) (h2 : Reach E b c) :
    Reach E a c := by
  induction h2 with
  | refl => exact h1
  | step _ he ih => exact .step ih he

theorem Reach.symm {E : List (Nat × Nat)} {a b : Nat} (h : Reach E a b) : Reach E b a := by
  induction h with
  | refl => exact .refl
  | @step u v _ he ih =>
    have : Reach E v u := .step .refl (he.symm)
    exact this.trans ih

theorem Reach.mono {E E' : List (Nat × Nat)} (hsub : ∀ p ∈ E, p ∈ E') {a b : Nat}
    (h : Reach E a b) : Reach E' a b := by
  induction h with
  | refl => exact .refl
  | step _ he ih => exact .step ih (he.imp (hsub _) (hsub _))

/-- the edge list `E` (end points `< n`) connects every node `< n` to some node of `vis`. -/
def ConnSpan (n : Nat) (vis : List Nat) (E : List (Nat × Nat)) : Prop :=
  (∀ p ∈ E, p.1 < n ∧ p.2 < n) ∧ ∀ v, v < n → ∃ r ∈ vis, Reach E r v

/-- **crossing edge**: a node outside `vis` reachable from `vis` is reachable, without the edge
    `p`, from the far end of some edge `p` that crosses the cut. -/
theorem Reach.crossing {E : List (Nat × Nat)} {vis : List Nat} {r v : Nat} (h : Reach E r v)
    (hr : r ∈ vis) (hv : v ∉ vis) :
    ∃ p ∈ E, ∃ a c, a ∈ vis ∧ c ∉ vis ∧ (p = (a, c) ∨ p = (c, a)) ∧ Reach (E.erase p) c v := by
  induction h with
  | refl => exact absurd hr hv
  | @step u v _ he ih =>
    by_cases hu : u ∈ vis
    · rcases he with he | he
      · exact ⟨(u, v), he, u, v, hu, hv, Or.inl rfl, .refl⟩
      · exact ⟨(v, u), he, u, v, hu, hv, Or.inr rfl, .refl⟩
    · obtain ⟨p, hp, a, c, ha, hc, hpc, hreach⟩ := ih hu
      refine ⟨p, hp, a, c, ha, hc, hpc, ?_⟩
      -- the last edge `{u, v}` is not `p`: else `u = c` and `v = a ∈ vis`
      have key : ∀ p0 : Nat × Nat, p0 ∈ E → (p0 = (u, v) ∨ p0 = (v, u)) → p0 ∈ E.erase p := by
        intro p0 hp0 hp0'
        by_cases hne : p0 = p
        · exfalso
          subst hne
          rcases hpc with h1 | h1 <;> rcases hp0' with h2 | h2 <;>
            (rw [h1] at h2; simp only [Prod.mk.injEq] at h2; obtain ⟨e1, e2⟩ := h2)
          · exact hu (e1 ▸ ha)
          · exact hv (e1 ▸ ha)
          · exact hv (e2 ▸ ha)
          · exact hu (e2 ▸ ha)
        · exact (List.mem_erase_of_ne hne).mpr hp0
      rcases he with he | he
      · exact .step hreach (Or.inl (key _ he (Or.inl rfl)))
      · exact .step hreach (Or.inr (key _ he (Or.inr rfl)))

/-- after removing a crossing edge `p = {a, c}` (`a ∈ vis`) whose far end `c` stays connected to
    `k`, everything reachable from `vis` is reachable from `vis ∪ {k}`. -/
theorem Reach.erase_cross {E : List (Nat × Nat)} {vis : List Nat} {p : Nat × Nat} {a c k r v : Nat}
    (h : Reach E r v) (hr : r ∈ vis) (ha : a ∈ vis) (hpc : p = (a, c) ∨ p = (c, a))
    (hck : Reach (E.erase p) c k) : ∃ r' ∈ vis ++ [k], Reach (E.erase p) r' v := by
  induction h with
  | refl => exact ⟨r, by simp [hr], .refl⟩
  | @step u v _ he ih =>
    obtain ⟨r', hr', hreach⟩ := ih
    have key : ∀ p0 : Nat × Nat, p0 ∈ E → (p0 = (u, v) ∨ p0 = (v, u)) →
        p0 ∈ E.erase p ∨ v = a ∨ v = c := by
      intro p0 hp0 hp0'
      by_cases hne : p0 = p
      · right
        subst hne
        rcases hpc with h1 | h1 <;> rcases hp0' with h2 | h2 <;>
          (rw [h1] at h2; simp only [Prod.mk.injEq] at h2; obtain ⟨e1, e2⟩ := h2)
        · exact Or.inr e2.symm
        · exact Or.inl e1.symm
        · exact Or.inl e2.symm
        · exact Or.inr e1.symm
      · exact Or.inl ((List.mem_erase_of_ne hne).mpr hp0)
    have fin : (v = a ∨ v = c) → ∃ r' ∈ vis ++ [k], Reach (E.erase p) r' v := by
      rintro (rfl | rfl)
      · exact ⟨v, by simp [ha], .refl⟩
      · exact ⟨k, by simp, hck.symm⟩
    rcases he with he | he
    · rcases key _ he (Or.inl rfl) with h | h
      · exact ⟨r', hr', .step hreach (Or.inl h)⟩
      · exact fin h
    · rcases key _ he (Or.inr rfl) with h | h
      · exact ⟨r', hr', .step hreach (Or.inr h)⟩
      · exact fin h

/-! ## weights -/

/-- total `|tau|` weight of an edge list. -/
noncomputable def absWeight (tau : Mat ℝ) (E : List (Nat × Nat)) : ℝ :=
  (E.map fun p => |tau.get p.1 p.2|).sum

theorem absWeight_cons (tau : Mat ℝ) (p : Nat × Nat) (E : List (Nat × Nat)) :
    absWeight tau (p :: E) = |tau.get p.1 p.2| + absWeight tau E := by
  simp [absWeight]

theorem absWeight_erase (tau : Mat ℝ) {p : Nat × Nat} {E : List (Nat × Nat)} (hp : p ∈ E) :
    absWeight tau E = |tau.get p.1 p.2| + absWeight tau (E.erase p) := by
  rw [← absWeight_cons]
  unfold absWeight
  exact ((List.perm_cons_erase hp).map _).sum_eq

/-- `|tau|` is symmetric on the nodes `< n`. -/
def AbsSymm (n : Nat) (tau : Mat ℝ) : Prop :=
  ∀ i j, i < n → j < n → |tau.get i j| = |tau.get j i|

/-! ## the exchange induction -/

/-- **Exchange invariant.**  While Prim's loop (any accepted continuation `qs`) still has to
    attach the nodes outside `vis`, every edge list that connects all nodes to `vis` with at most
    `n - |vis|` edges weighs at most what the loop still adds. -/
theorem primTrace_exchange {n : Nat} {tau : Mat ℝ} (hsym : AbsSymm n tau) :
    ∀ (qs : List (Nat × Nat)) (vis : List Nat), PrimTrace n tau vis qs → (∀ v ∈ vis, v < n) →
      qs.length + vis.length = n →
      ∀ E, ConnSpan n vis E → E.length + vis.length ≤ n → absWeight tau E ≤ absWeight tau qs
  | [], vis, _, _, hlen, E, _, hE => by
    have : E = [] := List.eq_nil_of_length_eq_zero (by simp at hlen; omega)
    subst this; exact le_refl _
  | q :: qs, vis, htr, hv, hlen, E, hE, hEl => by
    obtain ⟨hmem, hmin, hrest⟩ := htr
    obtain ⟨x, k⟩ := q
    obtain ⟨hx, hk, hkv, hkx⟩ := mem_candsFirst.mp hmem
    obtain ⟨r, hr, hreach⟩ := hE.2 k hk
    obtain ⟨p, hp, a, c, ha, hc, hpc, hck⟩ := hreach.crossing hr hkv
    -- the crossing edge weighs at most Prim's choice
    have hcn : c < n := by
      have := hE.1 p hp
      rcases hpc with rfl | rfl
      · exact this.2
      · exact this.1
    have hcand : (a, c) ∈ candsFirst n vis :=
      mem_candsFirst.mpr ⟨ha, hcn, hc, fun h => hc (h ▸ ha)⟩
    have hle : |tau.get a c| ≤ |tau.get x k| := by
      have := hmin _ hcand
      simp only [primKey, abs_real, not_lt, neg_le_neg_iff] at this
      exact this
    have hwp : |tau.get p.1 p.2| = |tau.get a c| := by
      rcases hpc with rfl | rfl
      · rfl
      · exact hsym c a hcn (hv a ha)
    -- the rest of `E` connects everything to `vis ∪ {k}`
    have hE' : ConnSpan n (vis ++ [k]) (E.erase p) := by
      refine ⟨fun p0 hp0 => hE.1 p0 (List.mem_of_mem_erase hp0), fun v hvn => ?_⟩
      obtain ⟨r0, hr0, hreach0⟩ := hE.2 v hvn
      exact hreach0.erase_cross hr0 ha hpc hck
    have hv' : ∀ v ∈ vis ++ [k], v < n := by
      intro v hv'
      rcases List.mem_append.mp hv' with h | h
      · exact hv v h
      · simp at h; subst h; exact hk
    have hpos : 0 < E.length := List.length_pos_of_mem hp
    have ih := primTrace_exchange hsym qs (vis ++ [k]) hrest hv'
      (by simp at hlen ⊢; omega) (E.erase p) hE'
      (by rw [List.length_erase_of_mem hp]; simp; omega)
    rw [absWeight_erase tau hp, absWeight_cons, hwp]
    exact add_le_add hle ih

/-! ## Prim's first tree is a maximum spanning tree -/

/-- the edges Prim's loop produces weigh what the chosen pairs weigh (`sorted([x, k])` may swap
    the two ends; `|tau|` is symmetric). -/
theorem absWeight_primEdges {n : Nat} {tau : Mat ℝ} (hsym : AbsSymm n tau) :
    ∀ (qs : List (Nat × Nat)) (vis : List Nat), PrimTrace n tau vis qs → (∀ v ∈ vis, v < n) →
      absWeight tau ((qs.map fun q => mkSorted q.1 q.2).map (Edge.ends true)) = absWeight tau qs
  | [], _, _, _ => rfl
  | q :: qs, vis, htr, hv => by
    obtain ⟨hmem, _, hrest⟩ := htr
    obtain ⟨x, k⟩ := q
    obtain ⟨hx, hk, hkv, hkx⟩ := mem_candsFirst.mp hmem
    have hv' : ∀ v ∈ vis ++ [k], v < n := by
      intro v hv'
      rcases List.mem_append.mp hv' with h | h
      · exact hv v h
      · simp at h; subst h; exact hk
    have ih := absWeight_primEdges hsym qs (vis ++ [k]) hrest hv'
    simp only [List.map_cons, absWeight_cons, ih]
    congr 1
    rcases ends_mkSorted x k with h | h <;> rw [h]
    exact hsym k x hk (hv x hx)

/-- a spanning tree by growth order connects all nodes to node `0`. -/
theorem SpanningTree.connSpan {n : Nat} {E : List (Nat × Nat)} (hn : 1 ≤ n)
    (h : SpanningTree n E) : ConnSpan n [0] E := by
  obtain ⟨root, hroot, hreach⟩ := h.connected
  obtain ⟨_, root', hroot', hg⟩ := h
  refine ⟨hg.ends_lt (by simpa using hroot'), fun v hv => ⟨0, by simp, ?_⟩⟩
  exact (hreach 0 (by omega)).symm.trans (hreach v hv)

section
variable {n : Nat} {tau : Mat ℝ} {choices : List (Nat × Nat)} {t : Tree} {ts : List ℝ}

/-- **Prim's first tree has maximal weight among all connected spanning edge sets with at most
    `n - 1` edges** — in particular among all spanning trees. -/
theorem primFirst_max_of_connSpan (hn : 1 ≤ n) (hsym : AbsSymm n tau)
    (h : primFirst n tau choices = .ok (t, ts)) (E : List (Nat × Nat)) (hE : ConnSpan n [0] E)
    (hEl : E.length + 1 ≤ n) : absWeight tau E ≤ absWeight tau (t.map (Edge.ends true)) := by
  obtain ⟨r1, r2, r3, _, _⟩ := primFirstGo_spec h (by simp; omega)
  have hv : ∀ v ∈ [0], v < n := by simp; omega
  rw [r1, absWeight_primEdges hsym choices [0] r3 hv]
  refine primTrace_exchange hsym choices [0] r3 hv ?_ E hE (by simpa using hEl)
  rw [r1] at r2; simpa using r2

/-- the same against every spanning tree in the model's representation (growth-ordered list). -/
theorem primFirst_max_spanning (hn : 1 ≤ n) (hsym : AbsSymm n tau)
    (h : primFirst n tau choices = .ok (t, ts)) (E : List (Nat × Nat)) (hE : SpanningTree n E) :
    absWeight tau E ≤ absWeight tau (t.map (Edge.ends true)) :=
  primFirst_max_of_connSpan hn hsym h E (hE.connSpan hn) (by rw [hE.1])

end


/-! ## against Mathlib's trees: `SimpleGraph.IsTree` on `Fin n` -/

section
variable {n : Nat} (G : SimpleGraph (Fin n)) [DecidableRel G.Adj]

/-- the edges of a graph on `Fin n`, each once, oriented `i < j`. -/
def orientedEdges : Finset (Fin n × Fin n) :=
  Finset.univ.filter fun p => p.1 < p.2 ∧ G.Adj p.1 p.2

/-- … as an edge list over `Nat` (the model's representation). -/
noncomputable def edgeListOf : List (Nat × Nat) :=
  (orientedEdges G).toList.map fun p => (p.1.val, p.2.val)

theorem mem_edgeListOf {a b : Fin n} (hab : a < b) (h : G.Adj a b) :
    (a.val, b.val) ∈ edgeListOf G := by
  unfold edgeListOf orientedEdges
  simp only [List.mem_map, Finset.mem_toList, Finset.mem_filter, Finset.mem_univ, true_and]
  exact ⟨(a, b), ⟨hab, h⟩, rfl⟩

theorem card_orientedEdges_le : (orientedEdges G).card ≤ G.edgeFinset.card := by
  apply Finset.card_le_card_of_injOn (fun p => s(p.1, p.2))
  · intro p hp
    simp only [orientedEdges, Finset.coe_filter, Finset.mem_univ, true_and, Set.mem_ofPred_eq] at hp
    simp [hp.2]
  · intro p hp q hq h
    simp only [orientedEdges, Finset.coe_filter, Finset.mem_univ, true_and, Set.mem_ofPred_eq] at hp hq
    simp only [Sym2.eq_iff] at h
    rcases h with ⟨h1, h2⟩ | ⟨h1, h2⟩
    · exact Prod.ext h1 h2
    · exfalso
      have a1 := hp.1; have a2 := hq.1
      rw [h1, h2] at a1
      exact absurd a1 (not_lt.mpr a2.le)

theorem reach_edgeListOf {u v : Fin n} (h : G.Reachable u v) :
    Reach (edgeListOf G) u.val v.val := by
  rw [SimpleGraph.reachable_iff_reflTransGen] at h
  induction h with
  | refl => exact .refl
  | @tail b c _ hbc ih =>
    refine .step ih ?_
    rcases lt_trichotomy b c with hlt | heq | hgt
    · exact Or.inl (mem_edgeListOf G hlt hbc)
    · exact absurd hbc (heq ▸ G.irrefl)
    · exact Or.inr (mem_edgeListOf G hgt hbc.symm)

/-- total `|tau|` weight of a graph on `Fin n` (every edge once, read at `i < j`). -/
noncomputable def graphWeight (tau : Mat ℝ) : ℝ :=
  ∑ p ∈ orientedEdges G, |tau.get p.1.val p.2.val|

theorem absWeight_edgeListOf (tau : Mat ℝ) : absWeight tau (edgeListOf G) = graphWeight G tau := by
  unfold absWeight edgeListOf graphWeight
  rw [List.map_map]
  exact Finset.sum_map_toList _ _

theorem connSpan_of_connected (hn : 1 ≤ n) (hG : G.Connected) : ConnSpan n [0] (edgeListOf G) := by
  refine ⟨?_, fun v hv => ⟨0, by simp, ?_⟩⟩
  · intro p hp
    unfold edgeListOf at hp
    obtain ⟨q, _, rfl⟩ := List.mem_map.mp hp
    exact ⟨q.1.isLt, q.2.isLt⟩
  · exact reach_edgeListOf G (hG.preconnected ⟨0, by omega⟩ ⟨v, hv⟩)

theorem length_edgeListOf_of_isTree (hG : G.IsTree) : (edgeListOf G).length + 1 ≤ n := by
  have h1 := hG.card_edgeFinset
  have h2 := card_orientedEdges_le G
  simp only [Fintype.card_fin] at h1
  unfold edgeListOf
  rw [List.length_map, Finset.length_toList]
  omega

/-- **Prim's first tree weighs at least as much as every tree (Mathlib's `IsTree`) on the nodes
    `0 … n-1`.** -/
theorem primFirst_max_isTree {tau : Mat ℝ} {choices : List (Nat × Nat)} {t : Tree} {ts : List ℝ}
    (hn : 1 ≤ n) (hsym : AbsSymm n tau) (h : primFirst n tau choices = .ok (t, ts))
    (hG : G.IsTree) : graphWeight G tau ≤ absWeight tau (t.map (Edge.ends true)) := by
  rw [← absWeight_edgeListOf]
  exact primFirst_max_of_connSpan hn hsym h _ (connSpan_of_connected G hn hG.connected)
    (length_edgeListOf_of_isTree G hG)

end

/-- the `.tau` values the first tree records are those of the chosen pairs. -/
theorem primFirstGo_taus {α : Type} [LT α] [DecidableLT α] [Neg α] [NumFns α] {n : Nat}
    {tau : Mat α} : ∀ {choices : List (Nat × Nat)} {vis : List Nat} {t : Tree} {ts : List α},
    primFirstGo n tau vis choices = .ok (t, ts) → ts = choices.map fun q => tau.get q.1 q.2
  | [], vis, t, ts, h => by
    simp only [primFirstGo] at h
    split_ifs at h
    simp only [Except.ok.injEq, Prod.mk.injEq] at h
    simp [h.2]
  | q :: qs, vis, t, ts, h => by
    simp only [primFirstGo] at h
    split_ifs at h
    rw [bind_eq_ok] at h
    obtain ⟨⟨es, ts'⟩, hrec, h⟩ := h
    simp only [pure, Except.pure, Except.ok.injEq, Prod.mk.injEq] at h
    obtain ⟨_, rfl⟩ := h
    simp [primFirstGo_taus hrec]


/-! ## the model's spanning trees are Mathlib trees -/

/-- the simple graph on `Fin n` with the (unordered, loop-free) edges of the list `E`. -/
def graphOfEdges (n : Nat) (E : List (Nat × Nat)) : SimpleGraph (Fin n) where
  Adj u v := u ≠ v ∧ ((u.val, v.val) ∈ E ∨ (v.val, u.val) ∈ E)
  symm := ⟨fun u v h => ⟨h.1.symm, h.2.symm⟩⟩
  loopless := ⟨fun u h => h.1 rfl⟩

instance (n : Nat) (E : List (Nat × Nat)) : DecidableRel (graphOfEdges n E).Adj := fun u v => by
  unfold graphOfEdges; exact inferInstanceAs (Decidable (_ ∧ _))

theorem reachable_of_reach {n : Nat} {E : List (Nat × Nat)} (hends : ∀ p ∈ E, p.1 < n ∧ p.2 < n)
    {r b : Nat} (h : Reach E r b) (hr : r < n) :
    ∃ hb : b < n, (graphOfEdges n E).Reachable ⟨r, hr⟩ ⟨b, hb⟩ := by
  induction h with
  | refl => exact ⟨hr, .refl _⟩
  | @step a b _ he ih =>
    obtain ⟨ha, hra⟩ := ih
    have hb : b < n := by
      rcases he with he | he
      · exact (hends _ he).2
      · exact (hends _ he).1
    refine ⟨hb, ?_⟩
    by_cases hab : a = b
    · subst hab; exact hra
    · refine hra.trans (SimpleGraph.Adj.reachable ?_)
      exact ⟨fun h => hab (by simpa using congrArg Fin.val h), he⟩

theorem connected_graphOfEdges {n : Nat} {E : List (Nat × Nat)} (hn : 1 ≤ n)
    (h : ConnSpan n [0] E) : (graphOfEdges n E).Connected := by
  have : Nonempty (Fin n) := ⟨⟨0, by omega⟩⟩
  refine ⟨fun u v => ?_⟩
  have key : ∀ w : Fin n, (graphOfEdges n E).Reachable ⟨0, by omega⟩ w := by
    intro w
    obtain ⟨r, hr, hreach⟩ := h.2 w.val w.isLt
    simp only [List.mem_singleton] at hr
    subst hr
    obtain ⟨_, hre⟩ := reachable_of_reach h.1 hreach (by omega)
    exact hre
  exact (key u).symm.trans (key v)

theorem card_edgeFinset_graphOfEdges_le (n : Nat) (E : List (Nat × Nat)) :
    (graphOfEdges n E).edgeFinset.card ≤ E.length := by
  classical
  let EF : Finset (Fin n × Fin n) := Finset.univ.filter fun p => (p.1.val, p.2.val) ∈ E
  have h1 : (graphOfEdges n E).edgeFinset ⊆ EF.image fun p => s(p.1, p.2) := by
    intro e he
    induction e using Sym2.ind with
    | _ u v =>
      rw [SimpleGraph.mem_edgeFinset, SimpleGraph.mem_edgeSet] at he
      rw [Finset.mem_image]
      rcases he.2 with h | h
      · exact ⟨(u, v), by simp [EF, h], rfl⟩
      · exact ⟨(v, u), by simp [EF, h], Sym2.eq_swap⟩
  have h2 : EF.card ≤ E.toFinset.card := by
    apply Finset.card_le_card_of_injOn (fun p => (p.1.val, p.2.val))
    · intro p hp
      simpa [EF] using hp
    · intro p _ q _ h
      simp only [Prod.mk.injEq] at h
      exact Prod.ext (Fin.ext h.1) (Fin.ext h.2)
  calc (graphOfEdges n E).edgeFinset.card ≤ (EF.image fun p => s(p.1, p.2)).card :=
        Finset.card_le_card h1
    _ ≤ EF.card := Finset.card_image_le
    _ ≤ E.toFinset.card := h2
    _ ≤ E.length := List.toFinset_card_le E

/-- **a spanning tree in the model's sense is a tree in Mathlib's sense**, with as many edges as
    the list is long (so the list has no repeated edge). -/
theorem SpanningTree.isTree {n : Nat} {E : List (Nat × Nat)} (hn : 1 ≤ n) (h : SpanningTree n E) :
    (graphOfEdges n E).IsTree ∧ (graphOfEdges n E).edgeFinset.card = E.length := by
  have hconn := connected_graphOfEdges hn (h.connSpan hn)
  have hle := card_edgeFinset_graphOfEdges_le n E
  have hge := hconn.card_vert_le_card_edgeSet_add_one
  rw [Nat.card_eq_fintype_card, Nat.card_eq_fintype_card, Fintype.card_fin,
    ← SimpleGraph.edgeFinset_card] at hge
  have hlen := h.1
  have hcard : (graphOfEdges n E).edgeFinset.card = E.length := by omega
  refine ⟨SimpleGraph.isTree_iff_connected_and_card.mpr ⟨hconn, ?_⟩, hcard⟩
  rw [Nat.card_eq_fintype_card, Nat.card_eq_fintype_card, Fintype.card_fin,
    ← SimpleGraph.edgeFinset_card]
  omega

/-- an edge read with its smaller end first. -/
def orientN (p : Nat × Nat) : Nat × Nat := (min p.1 p.2, max p.1 p.2)

theorem orientN_eq {p q : Nat × Nat} (h : orientN p = orientN q) :
    (p.1 = q.1 ∧ p.2 = q.2) ∨ (p.1 = q.2 ∧ p.2 = q.1) := by
  simp only [orientN, Prod.mk.injEq] at h
  omega

theorem Grows.new_end {n : Nat} {vis : List Nat} {E : List (Nat × Nat)} (h : Grows n vis E) :
    ∀ p ∈ E, p.1 ∉ vis ∨ p.2 ∉ vis := by
  induction h with
  | nil vis => simp
  | fwd ha hb hn _ ih =>
    intro p hp
    rcases List.mem_cons.mp hp with rfl | hp
    · exact Or.inr hb
    · exact (ih p hp).imp (fun h h' => h (List.mem_cons_of_mem _ h'))
        (fun h h' => h (List.mem_cons_of_mem _ h'))
  | bwd hb ha hn _ ih =>
    intro p hp
    rcases List.mem_cons.mp hp with rfl | hp
    · exact Or.inl ha
    · exact (ih p hp).imp (fun h h' => h (List.mem_cons_of_mem _ h'))
        (fun h h' => h (List.mem_cons_of_mem _ h'))

/-- a growth-ordered edge list has no repeated (unordered) edge. -/
theorem Grows.nodup_orient {n : Nat} {vis : List Nat} {E : List (Nat × Nat)} (h : Grows n vis E) :
    (E.map orientN).Nodup := by
  induction h with
  | nil vis => simp
  | @fwd vis a b rest ha hb hn hg ih =>
    rw [List.map_cons, List.nodup_cons]
    refine ⟨fun hmem => ?_, ih⟩
    obtain ⟨p, hp, hpe⟩ := List.mem_map.mp hmem
    have hnew := hg.new_end p hp
    simp only [List.mem_cons, not_or] at hnew
    rcases orientN_eq hpe with ⟨h1, h2⟩ | ⟨h1, h2⟩
    · simp only at h1 h2; rcases hnew with h | h
      · exact h.2 (h1 ▸ ha)
      · exact h.1 h2
    · simp only at h1 h2; rcases hnew with h | h
      · exact h.1 h1
      · exact h.2 (h2 ▸ ha)
  | @bwd vis a b rest hb ha hn hg ih =>
    rw [List.map_cons, List.nodup_cons]
    refine ⟨fun hmem => ?_, ih⟩
    obtain ⟨p, hp, hpe⟩ := List.mem_map.mp hmem
    have hnew := hg.new_end p hp
    simp only [List.mem_cons, not_or] at hnew
    rcases orientN_eq hpe with ⟨h1, h2⟩ | ⟨h1, h2⟩
    · simp only at h1 h2; rcases hnew with h | h
      · exact h.1 h1
      · exact h.2 (h2 ▸ hb)
    · simp only at h1 h2; rcases hnew with h | h
      · exact h.2 (h1 ▸ hb)
      · exact h.1 h2

theorem image_orientedEdges_graphOfEdges {n : Nat} {E : List (Nat × Nat)}
    (hends : ∀ p ∈ E, p.1 < n ∧ p.2 < n) (hne : ∀ p ∈ E, p.1 ≠ p.2) :
    (orientedEdges (graphOfEdges n E)).image (fun p => (p.1.val, p.2.val)) =
      (E.map orientN).toFinset := by
  ext ⟨a, b⟩
  simp only [Finset.mem_image, orientedEdges, Finset.mem_filter, Finset.mem_univ, true_and,
    List.mem_toFinset, List.mem_map, Prod.mk.injEq]
  constructor
  · rintro ⟨⟨u, v⟩, ⟨hlt, _, hE⟩, rfl, rfl⟩
    have hlt' : u.val < v.val := hlt
    rcases hE with h | h
    · exact ⟨_, h, by simp [orientN]; omega⟩
    · exact ⟨_, h, by simp [orientN]; omega⟩
  · rintro ⟨p, hp, hpe⟩
    have hb := hends p hp
    have hn := hne p hp
    simp only [orientN, Prod.mk.injEq] at hpe
    have ha' : a < n := by omega
    have hb' : b < n := by omega
    have hab : a < b := by omega
    refine ⟨(⟨a, ha'⟩, ⟨b, hb'⟩), ⟨hab, ?_, ?_⟩, rfl, rfl⟩
    · intro h; have := congrArg Fin.val h; simp at this; omega
    · by_cases h12 : p.1 < p.2
      · left
        have : p = (a, b) := Prod.ext (by simp; omega) (by simp; omega)
        rw [← this]; exact hp
      · right
        have : p = (b, a) := Prod.ext (by simp; omega) (by simp; omega)
        rw [← this]; exact hp

/-- the graph weight of a spanning tree's graph is the list weight. -/
theorem SpanningTree.graphWeight_eq {n : Nat} {E : List (Nat × Nat)} {tau : Mat ℝ}
    (hsym : AbsSymm n tau) (h : SpanningTree n E) :
    graphWeight (graphOfEdges n E) tau = absWeight tau E := by
  obtain ⟨_, root, hroot, hg⟩ := h
  have hends := hg.ends_lt (by simpa using hroot)
  have hne := hg.ends_ne
  unfold graphWeight
  have himg := image_orientedEdges_graphOfEdges hends hne
  have hinj : Set.InjOn (fun p : Fin n × Fin n => (p.1.val, p.2.val))
      (orientedEdges (graphOfEdges n E)) := by
    intro p _ q _ h
    simp only [Prod.mk.injEq] at h
    exact Prod.ext (Fin.ext h.1) (Fin.ext h.2)
  have h1 : ∑ p ∈ orientedEdges (graphOfEdges n E), |tau.get p.1.val p.2.val| =
      ∑ q ∈ (E.map orientN).toFinset, |tau.get q.1 q.2| := by
    rw [← himg, Finset.sum_image hinj]
  rw [h1, List.sum_toFinset _ hg.nodup_orient, List.map_map]
  unfold absWeight
  congr 1
  apply List.map_congr_left
  intro p hp
  simp only [Function.comp, orientN]
  have hb := hends p hp
  rcases Nat.le_total p.1 p.2 with hle | hle
  · simp [Nat.min_eq_left hle, Nat.max_eq_right hle]
  · rw [Nat.min_eq_right hle, Nat.max_eq_left hle]
    exact hsym _ _ hb.2 hb.1

end CopVerif.Model.Vine
