import CopVerif.Model.Serial
/-!
  C14: `to_dict` is a function of the OBSERVABLE state of a model, for every public class
  (`Model.toDict T m = Obs.toDict T m.obs`); and the "parents are edges of the previous tree"
  structure of a vine, read by value (`ParentsInPrev`), is a function of the identity-erased trees.
  Core Lean only.
-/
namespace CopVerif.Model.Serial

/-! ### `to_dict` from the observable state -/

/-- `Univariate.to_dict` computed from the observable state. -/
def UniObs.toDict (o : UniObs) : Option V :=
  if o.fitted then o.params.map fun p => V.dict (insertNew p "type" (V.str o.qual)) else Option.none

def optUniToDict (o : Option UniObs) : Option V := o.bind UniObs.toDict

theorem Uni.toDict_obs (u : Uni) : u.toDict = u.obs.toDict := rfl

theorem Wrapper.toDict_obs (w : Wrapper) : w.toDict = optUniToDict w.obs := by
  cases w with
  | mk fitted inst =>
    cases inst with
    | none => cases fitted <;> rfl
    | some u => cases fitted <;> rfl

theorem UniRef.toDict_obs (r : UniRef) : r.toDict = optUniToDict r.obs := by
  cases r with
  | plain u => exact Uni.toDict_obs u
  | wrapped w => exact Wrapper.toDict_obs w

theorem mapM_option_map {α β γ : Type} (f : β → Option γ) (g : α → β) (h : α → Option γ)
    (hfg : ∀ a, h a = f (g a)) : ∀ l : List α, l.mapM h = (l.map g).mapM f
  | [] => by simp
  | a :: l => by
    simp only [List.mapM_cons, List.map_cons, hfg a, mapM_option_map f g h hfg l]

/-- `GaussianMultivariate.to_dict` computed from the observable state. -/
def GaussObs.toDict (o : GaussObs) : Option V :=
  if o.fitted then
    (o.univariates.mapM optUniToDict).map fun us =>
      V.dict [("correlation", o.correlation), ("univariates", .list us), ("columns", o.columns),
              ("type", .str gaussQual)]
  else Option.none

theorem Gauss.toDict_obs (g : Gauss) : g.toDict = g.obs.toDict := by
  simp only [Gauss.toDict, GaussObs.toDict, Gauss.obs,
    mapM_option_map optUniToDict UniRef.obs UniRef.toDict UniRef.toDict_obs g.univariates]
  rfl

mutual
theorem Edge.toDict_strip : ∀ e : Edge, Edge.toDict e.strip = Edge.toDict e
  | .mk o index L R name theta U parents D tau likelihood neighbors => by
    have h := Edge.toDictL_stripL parents
    cases parents with
    | nil => simp [Edge.strip, Edge.stripL, Edge.toDict, ArrAttr.view]
    | cons p ps =>
      simp only [Edge.stripL, Edge.toDictL] at h
      simp only [Edge.strip, Edge.stripL, Edge.toDict, ArrAttr.view]
      injection h with h1 h2
      rw [h1, h2]
theorem Edge.toDictL_stripL : ∀ es : List Edge, Edge.toDictL (Edge.stripL es) = Edge.toDictL es
  | [] => rfl
  | e :: es => by
    simp only [Edge.stripL, Edge.toDictL, Edge.toDict_strip e, Edge.toDictL_stripL es]
end

theorem Tree.toDict_strip (t : Tree) : Tree.toDict t.strip = Tree.toDict t := by
  cases t with
  | mk treeType fitted level nNodes tauMatrix previous edges =>
    cases previous <;> cases fitted <;>
      simp [Tree.strip, Tree.toDict, ArrAttr.view, Edge.toDictL_stripL] <;> rfl

/-- `VineCopula.to_dict` computed from the observable state. -/
def VineObs.toDict (o : VineObs) : Option V :=
  let head : Dict := [("type", .str vineQual), ("vine_type", o.vineType), ("fitted", .bool o.fitted)]
  if o.fitted then
    match o.scalars with
    | [ns, nv, dp, tr] =>
      (o.unis.mapM UniObs.toDict).map fun us =>
        V.dict (head ++ [("n_sample", ns), ("n_var", nv), ("depth", dp),
          ("truncated", tr), ("trees", .list (o.trees.map Tree.toDict)),
          ("tau_mat", o.tauMat), ("u_matrix", o.uMatrix), ("unis", .list us),
          ("columns", o.columns)])
    | _ => Option.none
  else some (.dict head)

theorem Vine.toDict_obs (s : Vine) : s.toDict = s.obs.toDict := by
  cases hf : s.fitted with
  | false => simp [Vine.toDict, Vine.obs, VineObs.toDict, hf]
  | true =>
    have hu := mapM_option_map UniObs.toDict Uni.obs Uni.toDict Uni.toDict_obs s.unis
    have ht : (s.trees.map Tree.strip).map Tree.toDict = s.trees.map Tree.toDict := by
      rw [List.map_map]
      exact List.map_congr_left fun t _ => Tree.toDict_strip t
    simp only [Vine.toDict, Vine.obs, VineObs.toDict, hf, if_true, hu, ht]

/-- `to_dict` of any model, computed from its observable state. -/
def Obs.toDict (T : Tables) : Obs → Option V
  | .uni o => optUniToDict o
  | .biv b => b.toDict T.biv
  | .gauss g => g.toDict
  | .vine s => s.toDict

/-- **`to_dict` reads only the observable state.** -/
theorem Model.toDict_obs (T : Tables) (m : Model) : m.toDict T = (m.obs).toDict T := by
  cases m with
  | uni u => exact Uni.toDict_obs u
  | wrapper w => exact Wrapper.toDict_obs w
  | biv b => rfl
  | gauss g => exact Gauss.toDict_obs g
  | vine s => exact Vine.toDict_obs s

/-! ### parents, by value -/

theorem Edge.stripL_eq_map : ∀ es : List Edge, Edge.stripL es = es.map Edge.strip
  | [] => rfl
  | e :: es => by simp [Edge.stripL, Edge.stripL_eq_map es]

theorem Edge.strip_parents (e : Edge) : e.strip.parents = e.parents.map Edge.strip := by
  cases e with
  | mk o index L R name theta U parents D tau likelihood neighbors =>
    simp [Edge.strip, Edge.parents, Edge.stripL_eq_map]

theorem Tree.strip_edges (t : Tree) : t.strip.edges = t.edges.map Edge.strip := by
  simp [Tree.strip, Edge.stripL_eq_map]

/-- membership transfers along equal identity-erased lists. -/
theorem mem_of_map_strip_eq {es es' : List Edge} (h : es'.map Edge.strip = es.map Edge.strip)
    {e' : Edge} (he' : e' ∈ es') : ∃ e ∈ es, e.strip = e'.strip := by
  have : e'.strip ∈ es.map Edge.strip := h ▸ List.mem_map.2 ⟨e', he', rfl⟩
  obtain ⟨e, he, hs⟩ := List.mem_map.1 this
  exact ⟨e, he, hs⟩

/-- **re-linking read by value**: every parent of an edge of tree `k+1` is (up to object identity)
    an edge of tree `k`. -/
def ParentsInPrev (ts : List Tree) : Prop :=
  ∀ (k : Nat) (t tp : Tree), ts[k + 1]? = some t → ts[k]? = some tp →
    ∀ e ∈ t.edges, ∀ p ∈ e.parents, ∃ e2 ∈ tp.edges, e2.strip = p.strip

theorem getElem?_of_map_strip_eq {ts ts' : List Tree} (h : ts'.map Tree.strip = ts.map Tree.strip)
    {k : Nat} {t' : Tree} (ht' : ts'[k]? = some t') : ∃ t, ts[k]? = some t ∧ t.strip = t'.strip := by
  have h1 : (ts'.map Tree.strip)[k]? = some t'.strip := by simp [ht']
  rw [h] at h1
  simp only [List.getElem?_map, Option.map_eq_some_iff] at h1
  exact h1

/-- `ParentsInPrev` is a property of the identity-erased trees. -/
theorem ParentsInPrev.of_strip_eq {ts ts' : List Tree} (h : ts'.map Tree.strip = ts.map Tree.strip)
    (hp : ParentsInPrev ts) : ParentsInPrev ts' := by
  intro k t' tp' ht' htp' e' he' p' hp'
  obtain ⟨t, ht, hts⟩ := getElem?_of_map_strip_eq h ht'
  obtain ⟨tp, htp, htps⟩ := getElem?_of_map_strip_eq h htp'
  have hedges : t'.edges.map Edge.strip = t.edges.map Edge.strip := by
    rw [← Tree.strip_edges, ← Tree.strip_edges, hts]
  have hpedges : tp.edges.map Edge.strip = tp'.edges.map Edge.strip := by
    rw [← Tree.strip_edges, ← Tree.strip_edges, htps]
  obtain ⟨e, he, hes⟩ := mem_of_map_strip_eq hedges he'
  have hpar : e'.parents.map Edge.strip = e.parents.map Edge.strip := by
    rw [← Edge.strip_parents, ← Edge.strip_parents, hes]
  obtain ⟨p, hpm, hps⟩ := mem_of_map_strip_eq hpar hp'
  obtain ⟨e2, he2, he2s⟩ := hp k t tp ht htp e he p hpm
  obtain ⟨e2', he2', he2s'⟩ := mem_of_map_strip_eq hpedges he2
  exact ⟨e2', he2', by rw [he2s', he2s, hps]⟩

end CopVerif.Model.Serial
