import Mathlib.Order.Monotone.Basic
import CopVerif.Real.Inst
import CopVerif.Lemmas.GaussTransform
/-!
  Order facts about the score plan over `ℝ` (property C13): `clip` is monotone, hence every score
  is a monotone function of its cell given monotone external `CDF j` and `NORMPPF`; the executable
  Cholesky MVN density is positive whenever the factorisation succeeds and equals `exp` of the
  log form.
-/
set_option linter.unusedSectionVars false
namespace CopVerif.Model.GaussTransform
open CopVerif NumFns

theorem clipFn_mono {lo hi : ℝ} (h : lo ≤ hi) : Monotone (clipFn lo hi) := by
  intro x y hxy
  unfold clipFn
  split_ifs <;> linarith

theorem clipLo_le_clipHi : (Gen.GaussTransform.clipLo : ℝ) ≤ Gen.GaussTransform.clipHi := by
  simp only [Gen.GaussTransform.clipLo, Gen.GaussTransform.clipHi, Gen.GaussTransform.epsilon, ofNat_real]
  norm_num

/-- hypotheses on the external symbols used by the order theorems. -/
structure MonoExt (E : Ext ℝ) : Prop where
  cdf_mono : ∀ j, Monotone (E.cdf j)
  ppf_mono : Monotone E.normppf

theorem scoreTerm_eval_mono {E : Ext ℝ} (hE : MonoExt E) (j : Nat) :
    Monotone fun x : ℝ => (scoreTerm j x).eval E := by
  intro x y hxy
  simp only [scoreTerm, Term.eval]
  exact hE.ppf_mono (clipFn_mono clipLo_le_clipHi (hE.cdf_mono j hxy))

section
variable {L : Type} [DecidableEq L]

theorem pick_forall₂ {β : Type} {R : β → β → Prop} (l : L) :
    ∀ (ls : List L) {r r' : List β}, List.Forall₂ R r r' → List.Forall₂ R (pick ls l r) (pick ls l r')
  | [], _, _, _ => by simp [pick]
  | a :: ls, _, _, .nil => by simp [pick]
  | a :: ls, _, _, .cons (a := x) (b := y) hxy h => by
    have ih := pick_forall₂ (R := R) l ls h
    unfold pick at ih ⊢
    by_cases ha : a = l
    · simp only [List.zip_cons_cons, List.filter_cons, ha, decide_true, if_true, List.map_cons]
      exact List.Forall₂.cons hxy ih
    · simp only [List.zip_cons_cons, List.filter_cons, ha, decide_false, Bool.false_eq_true, if_false]
      exact ih

/-- the scores of one row under `E`. -/
noncomputable def rowScores (E : Ext ℝ) (m : GModel L) (ls : List L) (r : List ℝ) : List ℝ :=
  (rowPlan m ls r).map (Term.eval E)

theorem rowScores_mono {E : Ext ℝ} (hE : MonoExt E) (m : GModel L) (ls : List L) {r r' : List ℝ}
    (h : List.Forall₂ (· ≤ ·) r r') :
    List.Forall₂ (· ≤ ·) (rowScores E m ls r) (rowScores E m ls r') := by
  unfold rowScores rowPlan
  generalize (m.cols.zip (List.range m.cols.length)) = Z
  induction Z with
  | nil => simp
  | cons z Z ih =>
    simp only [List.flatMap_cons, List.map_append]
    refine List.rel_append ?_ ih
    simp only [List.map_map]
    rw [List.forall₂_map_left_iff, List.forall₂_map_right_iff]
    exact List.Forall₂.imp (fun _ _ hxy => scoreTerm_eval_mono hE z.2 hxy) (pick_forall₂ z.1 ls h)
end

/-! ### the executable Cholesky MVN density over ℝ -/

theorem cholRow_last_pos {L : List (List ℝ)} {arow r : List ℝ} (h : cholRow L arow = some r) :
    0 < r.getLastD (ofNat 1) := by
  unfold cholRow at h
  simp only [ofNat_real, Nat.cast_zero] at h
  split_ifs at h with hp
  simp only [Option.some.injEq] at h
  subst h
  simp only [List.getLastD_concat, sqrt_real]
  exact Real.sqrt_pos.mpr hp

/-- every diagonal entry produced by a successful factorisation is positive. -/
def DiagPos (L : List (List ℝ)) : Prop := ∀ r ∈ L, 0 < r.getLastD (ofNat 1)

theorem cholAux_diagPos : ∀ (A L L' : List (List ℝ)), DiagPos L → cholAux L A = some L' → DiagPos L'
  | [], L, L', hL, h => by simp only [cholAux, Option.some.injEq] at h; exact h ▸ hL
  | arow :: A, L, L', hL, h => by
    unfold cholAux at h
    cases hr : cholRow L arow with
    | none => simp [hr] at h
    | some r =>
      simp only [hr] at h
      refine cholAux_diagPos A (L ++ [r]) L' ?_ h
      intro x hx
      rcases List.mem_append.mp hx with hx | hx
      · exact hL x hx
      · rw [List.mem_singleton.mp hx]; exact cholRow_last_pos hr

theorem cholesky_diagPos {A L : List (List ℝ)} (h : cholesky A = some L) : DiagPos L :=
  cholAux_diagPos A [] L (by intro r hr; simp at hr) h

theorem foldl_mul_pos : ∀ (xs : List ℝ) (a : ℝ), 0 < a → (∀ x ∈ xs, 0 < x) → 0 < xs.foldl (· * ·) a
  | [], a, ha, _ => ha
  | x :: xs, a, ha, h => by
    simp only [List.foldl_cons]
    exact foldl_mul_pos xs (a * x) (mul_pos ha (h x (by simp))) (fun y hy => h y (by simp [hy]))

theorem prodL_pos {xs : List ℝ} (h : ∀ x ∈ xs, 0 < x) : 0 < prodL xs := by
  unfold prodL; exact foldl_mul_pos xs _ (by simp) h

theorem diag_pos {L : List (List ℝ)} (h : DiagPos L) : ∀ x ∈ diag L, 0 < x := by
  intro x hx
  obtain ⟨r, hr, rfl⟩ := List.mem_map.mp hx
  exact h r hr

theorem mvnPdfChol_pos {τ : ℝ} (hτ : 0 < τ) {L : List (List ℝ)} (hL : DiagPos L) (z : List ℝ) :
    0 < mvnPdfChol τ L z := by
  unfold mvnPdfChol
  simp only [exp_real, sqrt_real]
  have h1 : 0 < prodL (List.replicate L.length τ) :=
    prodL_pos (fun x hx => by rw [(List.mem_replicate.mp hx).2]; exact hτ)
  have h2 : 0 < prodL (diag L) := prodL_pos (diag_pos hL)
  exact div_pos (Real.exp_pos _) (Real.sqrt_pos.mpr (mul_pos h1 (mul_pos h2 h2)))

theorem foldl_mul_eq_exp : ∀ (xs : List ℝ) (a s : ℝ), 0 < a → (∀ x ∈ xs, 0 < x) → a = Real.exp s →
    xs.foldl (· * ·) a = Real.exp ((xs.map Real.log).foldl (· + ·) s)
  | [], a, s, _, _, h => by simpa using h
  | x :: xs, a, s, ha, hx, h => by
    have hx0 : 0 < x := hx x (by simp)
    simp only [List.foldl_cons, List.map_cons]
    exact foldl_mul_eq_exp xs (a * x) (s + Real.log x) (mul_pos ha hx0)
      (fun y hy => hx y (by simp [hy])) (by rw [Real.exp_add, Real.exp_log hx0, h])

theorem prodL_eq_exp {xs : List ℝ} (h : ∀ x ∈ xs, 0 < x) :
    prodL xs = Real.exp (sumL (xs.map Real.log)) := by
  unfold prodL sumL
  exact foldl_mul_eq_exp xs _ _ (by simp) h (by simp)

theorem sumL_replicate (n : ℕ) (c : ℝ) : sumL (List.replicate n c) = n * c := by
  unfold sumL
  have : ∀ (n : ℕ) (a : ℝ), (List.replicate n c).foldl (· + ·) a = a + n * c := by
    intro n
    induction n with
    | zero => intro a; simp
    | succ n ih => intro a; simp only [List.replicate_succ, List.foldl_cons, ih]; push_cast; ring
  simpa using this n 0

/-- the textbook form `exp(-q/2)/sqrt(τ^d det)` IS `exp` of the log form. -/
theorem mvnPdfChol_eq_exp_log {τ : ℝ} (hτ : 0 < τ) {L : List (List ℝ)} (hL : DiagPos L) (z : List ℝ) :
    mvnPdfChol τ L z = Real.exp (mvnLogPdfChol τ L z) := by
  unfold mvnPdfChol mvnLogPdfChol
  simp only [exp_real, sqrt_real, log_real, ofNat_real]
  have hd := diag_pos hL
  rw [prodL_eq_exp hd, prodL_eq_exp (xs := List.replicate L.length τ)
    (fun x hx => by rw [(List.mem_replicate.mp hx).2]; exact hτ)]
  have hlog : (NumFns.log : ℝ → ℝ) = Real.log := rfl
  rw [List.map_replicate, sumL_replicate, ← Real.exp_add, ← Real.exp_add, ← Real.exp_half,
    ← Real.exp_sub, hlog]
  congr 1
  push_cast
  ring

/-- the factorisation succeeds for every positive `1 × 1` matrix … -/
theorem cholesky_defined_one {a : ℝ} (ha : 0 < a) : ∃ L, cholesky [[a]] = some L := by
  refine ⟨[[Real.sqrt a]], ?_⟩
  simp [cholesky, cholAux, cholRow, forward, dot, ha]

/-- … and for every symmetric positive definite `2 × 2` matrix (leading minors `a`, `ac - b²`). -/
theorem cholesky_defined_two {a b c : ℝ} (ha : 0 < a) (hdet : 0 < a * c - b * b) :
    ∃ L, cholesky [[a, b], [b, c]] = some L := by
  have hs : 0 < Real.sqrt a := Real.sqrt_pos.mpr ha
  have hq : b / Real.sqrt a * (b / Real.sqrt a) = b * b / a := by
    rw [div_mul_div_comm, Real.mul_self_sqrt ha.le]
  have hp : 0 < c - b * b / a := by
    have : c - b * b / a = (a * c - b * b) / a := by field_simp
    rw [this]; exact div_pos hdet ha
  refine ⟨[[Real.sqrt a], [b / Real.sqrt a, Real.sqrt (c - b * b / a)]], ?_⟩
  simp [cholesky, cholAux, cholRow, forward, subst, dot, ha, hq, hp]
end CopVerif.Model.GaussTransform
