import Mathlib.Data.List.Basic
import Mathlib.Data.List.Perm.Subperm
import Mathlib.Data.List.Range
import Mathlib.Tactic
import CopVerif.Model.VineFlow
/-!
  Lemmas about the vine data-flow model `Model/VineFlow.lean` (property C17):
  * the list representation of Python sets and `identify`;
  * `condUni_spec` / `edgePlan_spec`: under the hypothesis the code silently makes (`flowOK`),
    `Edge.get_conditional_uni` picks the pseudo-observation of the right variable;
  * `likPlan_spec`: in a `goodVine` every cell `get_likelihood` reads was written by the previous
    tree and holds the h-propagated argument the specification asks for;
  * `specArgs_clean`, `likValue_junk_irrelevant`: determinism;
  * `visitOrder_perm`: the stack search of `_sample_row` over a rooted spanning tree visits every
    variable exactly once.
-/
set_option linter.unusedSimpArgs false
set_option linter.unusedVariables false
set_option linter.unusedSectionVars false
namespace CopVerif.Model.VineFlow

theorem mem_sdiff {x : Nat} {A B : List Nat} : x ∈ sdiff A B ↔ x ∈ A ∧ x ∉ B := by
  simp [sdiff]

theorem mem_inter {x : Nat} {A B : List Nat} : x ∈ inter A B ↔ x ∈ A ∧ x ∈ B := by
  simp [inter]

theorem mem_dedup {x : Nat} {l : List Nat} : x ∈ dedup l ↔ x ∈ l := by
  induction l generalizing x with
  | nil => simp [dedup]
  | cons a l ih =>
    simp only [dedup]
    split_ifs with h
    · rw [ih]
      have : a ∈ l := by rw [← ih]; simpa using h
      constructor
      · intro hx; exact List.mem_cons_of_mem _ hx
      · intro hx; rcases List.mem_cons.mp hx with rfl | hx
        · exact this
        · exact hx
    · simp [ih]

theorem mem_symDiff {x : Nat} {A B : List Nat} :
    x ∈ symDiff A B ↔ (x ∈ A ∧ x ∉ B) ∨ (x ∈ B ∧ x ∉ A) := by
  simp [symDiff, mem_dedup, mem_sdiff]

theorem identify_ok {p q : Edge} {l r : Nat} {D : List Nat} (h : identify p q = .ok (l, r, D)) :
    D = inter p.vars q.vars ∧ ∀ x, x ∈ symDiff p.vars q.vars ↔ x = l ∨ x = r := by
  unfold identify at h
  split at h
  · rename_i a b hab
    simp only [Except.ok.injEq, Prod.mk.injEq] at h
    obtain ⟨hl, hr, hD⟩ := h
    refine ⟨hD.symm, ?_⟩
    intro x
    rw [hab]
    simp only [List.mem_cons, List.not_mem_nil, or_false]
    subst hl hr
    rcases Nat.le_total a b with hle | hle
    · simp [Nat.min_eq_left hle, Nat.max_eq_right hle]
    · simp [Nat.min_eq_right hle, Nat.max_eq_left hle]; tauto
  · simp at h

theorem nodupB_iff {l : List Nat} : nodupB l = true ↔ l.Nodup := by
  induction l with
  | nil => simp [nodupB]
  | cons a l ih => simp [nodupB, ih]


theorem cond_sub_vars {p : Edge} {x : Nat} (h : p.cond.contains x = true) : x ∈ p.vars := by
  simp [Edge.cond, Edge.vars] at h ⊢
  rcases h with h | h <;> simp [h]

/-- what `identify` + the silent hypothesis give: `A \ B = {l}`, `B \ A = {r}`. -/
theorem flow_facts {p0 p1 : Edge} {l r : Nat} {D : List Nat}
    (hid : identify p0 p1 = .ok (l, r, D))
    (hL : p0.cond.contains l = true) (hR : p1.cond.contains r = true) :
    (∀ y, y ∈ p0.vars → (y ∉ p1.vars ↔ y = l)) ∧ (∀ y, y ∈ p1.vars → (y ∉ p0.vars ↔ y = r)) ∧
    (∀ y, y ∈ D ↔ y ∈ p0.vars ∧ y ∈ p1.vars) := by
  obtain ⟨hD, hs⟩ := identify_ok hid
  have lA := cond_sub_vars hL
  have rB := cond_sub_vars hR
  have hl : l ∈ symDiff p0.vars p1.vars := (hs l).mpr (Or.inl rfl)
  have hr : r ∈ symDiff p0.vars p1.vars := (hs r).mpr (Or.inr rfl)
  rw [mem_symDiff] at hl hr
  have lB : l ∉ p1.vars := by rcases hl with h | h; exact h.2; exact absurd lA h.2
  have rA : r ∉ p0.vars := by rcases hr with h | h; exact absurd rB h.2; exact h.2
  refine ⟨?_, ?_, ?_⟩
  · intro y hy
    constructor
    · intro hyB
      have : y ∈ symDiff p0.vars p1.vars := mem_symDiff.mpr (Or.inl ⟨hy, hyB⟩)
      rcases (hs y).mp this with h | h
      · exact h
      · subst h; exact absurd hy rA
    · intro h; subst h; exact lB
  · intro y hy
    constructor
    · intro hyA
      have : y ∈ symDiff p0.vars p1.vars := mem_symDiff.mpr (Or.inr ⟨hy, hyA⟩)
      rcases (hs y).mp this with h | h
      · subst h; exact absurd hy lB
      · exact h
    · intro h; subst h; exact rA
  · intro y; rw [hD, mem_inter]

/-- the slot of `p` that the code picks for `x` is the right one when `x` is conditioned in `p`. -/
theorem sideOf_spec {p : Edge} {x : Nat} (hx : p.cond.contains x = true) (hnd : nodupB p.vars = true)
    (D : List Nat) (hD : ∀ y, y ∈ D ↔ y ∈ p.vars ∧ y ≠ x) :
    slotVar p (sideOf p x) = x ∧ ∀ y, y ∈ slotGiven p (sideOf p x) ↔ y ∈ D := by
  have hnd' := nodupB_iff.mp hnd
  simp only [Edge.vars, List.nodup_cons, List.mem_cons, not_or] at hnd'
  obtain ⟨⟨hLR, hLD⟩, hRD, _⟩ := hnd'
  simp only [Edge.cond, List.contains_cons, List.contains_nil, Bool.or_false, Bool.or_eq_true,
    beq_iff_eq] at hx
  by_cases hpl : p.L = x
  · have : sideOf p x = 0 := by simp [sideOf, hpl]
    rw [this]
    refine ⟨by simp [slotVar, hpl], ?_⟩
    intro y
    rw [hD]
    simp only [slotGiven, if_true, List.mem_cons, Edge.vars]
    subst hpl
    constructor
    · rintro (h | h)
      · subst h; exact ⟨Or.inr (Or.inl rfl), fun h => hLR h.symm⟩
      · exact ⟨Or.inr (Or.inr h), fun h' => hLD (h' ▸ h)⟩
    · rintro ⟨h | h | h, hne⟩
      · exact absurd h hne
      · exact Or.inl h
      · exact Or.inr h
  · have hpr : p.R = x := by
      rcases hx with h | h
      · exact absurd h.symm hpl
      · exact h.symm
    have : sideOf p x = 1 := by simp [sideOf, hpl]
    rw [this]
    refine ⟨by simp [slotVar, hpr], ?_⟩
    intro y
    rw [hD]
    simp only [slotGiven, List.mem_cons, Edge.vars]
    subst hpr
    constructor
    · rintro (h | h)
      · simp at h; subst h; exact ⟨Or.inl rfl, hLR⟩
      · exact ⟨Or.inr (Or.inr h), fun h' => hRD (h' ▸ h)⟩
    · rintro ⟨h | h | h, hne⟩
      · left; simpa using h
      · exact absurd h hne
      · exact Or.inr h

theorem condUni_spec {p0 p1 : Edge} {i0 i1 l r : Nat} {D : List Nat}
    (hid : identify p0 p1 = .ok (l, r, D))
    (h0 : nodupB p0.vars = true) (h1 : nodupB p1.vars = true)
    (hL : p0.cond.contains l = true) (hR : p1.cond.contains r = true) :
    ∃ s0 s1, condUni p0 p1 i0 i1 = .ok (.uof i0 s0, .uof i1 s1) ∧
      slotVar p0 s0 = l ∧ slotVar p1 s1 = r ∧
      (∀ x, x ∈ slotGiven p0 s0 ↔ x ∈ D) ∧ (∀ x, x ∈ slotGiven p1 s1 ↔ x ∈ D) ∧
      needSlot p0 p1 i0 i1 l = some (.uof i0 s0) ∧ needSlot p0 p1 i0 i1 r = some (.uof i1 s1) := by
  obtain ⟨fA, fB, fD⟩ := flow_facts hid hL hR
  have lA := cond_sub_vars hL
  have rB := cond_sub_vars hR
  have hD0 : ∀ y, y ∈ D ↔ y ∈ p0.vars ∧ y ≠ l := by
    intro y; rw [fD]
    constructor
    · rintro ⟨ha, hb⟩; exact ⟨ha, fun h => ((fA y ha).mpr h) hb⟩
    · rintro ⟨ha, hne⟩; refine ⟨ha, ?_⟩; by_contra hb; exact hne ((fA y ha).mp hb)
  have hD1 : ∀ y, y ∈ D ↔ y ∈ p1.vars ∧ y ≠ r := by
    intro y; rw [fD]
    constructor
    · rintro ⟨ha, hb⟩; exact ⟨hb, fun h => ((fB y hb).mpr h) ha⟩
    · rintro ⟨hb, hne⟩; refine ⟨?_, hb⟩; by_contra ha; exact hne ((fB y hb).mp ha)
  obtain ⟨v0, g0⟩ := sideOf_spec hL h0 D hD0
  obtain ⟨v1, g1⟩ := sideOf_spec hR h1 D hD1
  refine ⟨sideOf p0 l, sideOf p1 r, ?_, v0, v1, g0, g1, ?_, ?_⟩
  · simp [condUni, hid]
  · simp only [Edge.cond, List.contains_cons, List.contains_nil, Bool.or_false, Bool.or_eq_true,
      beq_iff_eq] at hL
    unfold needSlot sideOf
    by_cases h : p0.L = l
    · simp [h]
    · have : p0.R = l := by rcases hL with h' | h'; exact absurd h'.symm h; exact h'.symm
      simp [h, this]
  · have rA : r ∉ p0.vars := (fB r rB).mpr rfl
    simp only [Edge.vars, List.mem_cons, not_or] at rA
    simp only [Edge.cond, List.contains_cons, List.contains_nil, Bool.or_false, Bool.or_eq_true,
      beq_iff_eq] at hR
    unfold needSlot sideOf
    have e1 : (p0.L == r) = false := by simpa using fun h => rA.1 h.symm
    have e2 : (p0.R == r) = false := by simpa using fun h => rA.2.1 h.symm
    by_cases h : p1.L = r
    · simp [e1, e2, h]
    · have : p1.R = r := by rcases hR with h' | h'; exact absurd h'.symm h; exact h'.symm
      simp [e1, e2, h, this]


/-! ## likelihood -/

theorem headE_of_all_eq {l : List Nat} {a : Nat} (hall : ∀ x ∈ l, x = a) (hmem : a ∈ l) :
    headE l = .ok a := by
  cases l with
  | nil => simp at hmem
  | cons b t => simp [headE, hall b (List.mem_cons_self)]

/-- `list(child.D - parent.D)[0]` is the parent's OTHER conditioned variable. -/
theorem ing_head {p : Edge} {x : Nat} {eD : List Nat} (hx : p.cond.contains x = true)
    (hnd : nodupB p.vars = true) (hD : ∀ y, y ∈ eD ↔ y ∈ p.vars ∧ y ≠ x) :
    headE (sdiff eD p.D) = .ok (if p.L = x then p.R else p.L) := by
  have hnd' := nodupB_iff.mp hnd
  simp only [Edge.vars, List.nodup_cons, List.mem_cons, not_or] at hnd'
  obtain ⟨⟨hLR, hLD⟩, hRD, _⟩ := hnd'
  simp only [Edge.cond, List.contains_cons, List.contains_nil, Bool.or_false, Bool.or_eq_true,
    beq_iff_eq] at hx
  apply headE_of_all_eq
  · intro y hy
    rw [mem_sdiff, hD] at hy
    obtain ⟨⟨hv, hne⟩, hnD⟩ := hy
    simp only [Edge.vars, List.mem_cons] at hv
    rcases hv with h | h | h
    · subst h
      rcases hx with h' | h'
      · exact absurd h'.symm hne
      · subst h'; simp [hLR]
    · subst h
      by_cases hpl : p.L = x
      · simp [hpl]
      · rcases hx with h' | h'
        · exact absurd h'.symm hpl
        · exact absurd h'.symm hne
    · exact absurd h hnD
  · rw [mem_sdiff, hD]
    by_cases hpl : p.L = x
    · simp only [hpl, if_true]
      subst hpl
      exact ⟨⟨by simp [Edge.vars], fun h => hLR h.symm⟩, hRD⟩
    · have hpr : p.R = x := by
        rcases hx with h' | h'
        · exact absurd h'.symm hpl
        · exact h'.symm
      simp only [hpl, if_false]
      subst hpr
      exact ⟨⟨by simp [Edge.vars], hLR⟩, hLD⟩

/-- the invariant tying the matrix written by the previous tree to its slots. -/
def MatOK (prev : Tree) (M : Mat) (slots : List (Term × Term)) : Prop :=
  slots.length = prev.length ∧
  ∀ (i : Nat) (p : Edge) (s : Term × Term), prev[i]? = some p → slots[i]? = some s →
    M.get p.L p.R = some s.1 ∧ M.get p.R p.L = some s.2

theorem readCell_of_get {k : Nat} {M : Mat} {r c : Nat} {t : Term} (h : M.get r c = some t) :
    readCell k M r c = (.cell r c true, t) := by
  simp [readCell, h]

/-- one side: reading `[x, ing]` gives exactly the slot of variable `x` of parent `p`. -/
theorem read_side {k : Nat} {M : Mat} {p : Edge} {s : Term × Term} {x : Nat}
    (hx : p.cond.contains x = true)
    (hM : M.get p.L p.R = some s.1 ∧ M.get p.R p.L = some s.2) :
    ∃ t, readCell k M x (if p.L = x then p.R else p.L) =
        (.cell x (if p.L = x then p.R else p.L) true, t) ∧ slotFor p s x = some t := by
  simp only [Edge.cond, List.contains_cons, List.contains_nil, Bool.or_false, Bool.or_eq_true,
    beq_iff_eq] at hx
  by_cases hpl : p.L = x
  · refine ⟨s.1, ?_, by simp [slotFor, hpl]⟩
    simp only [hpl, if_true]
    subst hpl
    exact readCell_of_get hM.1
  · have hpr : p.R = x := by
      rcases hx with h' | h'
      · exact absurd h'.symm hpl
      · exact h'.symm
    refine ⟨s.2, ?_, by simp [slotFor, hpl, hpr]⟩
    simp only [hpl, if_false]
    subst hpr
    exact readCell_of_get hM.2

theorem slotFor_none {p : Edge} {s : Term × Term} {x : Nat} (h : x ∉ p.vars) :
    slotFor p s x = none := by
  simp only [Edge.vars, List.mem_cons, not_or] at h
  have e1 : (p.L == x) = false := by simpa using fun h' => h.1 h'.symm
  have e2 : (p.R == x) = false := by simpa using fun h' => h.2.1 h'.symm
  simp [slotFor, e1, e2]

/-- every edge above the first tree that satisfies the hypothesis reads two WRITTEN cells, and they
hold the h-propagated arguments the specification asks for. -/
theorem likEdge_child {k : Nat} {prev : Tree} {M : Mat} {slots : List (Term × Term)} {e : Edge}
    (hwf : prev.all (fun e => nodupB e.vars) = true)
    (hM : MatOK prev M slots) (hc : childOK prev e = true) :
    ∃ le, likEdge k prev M e = .ok le ∧ specEdge k prev slots e = some le.args ∧
      le.readsWritten = true := by
  unfold childOK at hc
  cases hp : e.parents with
  | none => simp [hp] at hc
  | some ij =>
    obtain ⟨i0, i1⟩ := ij
    simp only [hp] at hc
    cases h0 : prev[i0]? with
    | none => simp [h0] at hc
    | some p0 =>
      cases h1 : prev[i1]? with
      | none => simp [h0, h1] at hc
      | some p1 =>
        simp only [h0, h1] at hc
        cases hid : identify p0 p1 with
        | error x => simp [hid] at hc
        | ok lrD =>
          obtain ⟨l, r, D⟩ := lrD
          simp only [hid, Bool.and_eq_true, beq_iff_eq] at hc
          obtain ⟨⟨⟨⟨⟨hl, hr⟩, hsame⟩, hndD⟩, hflow⟩, _hsorted⟩ := hc
          subst hl hr
          simp only [flowOK, Bool.and_eq_true] at hflow
          obtain ⟨hL, hR⟩ := hflow
          have hnd0 : nodupB p0.vars = true := by
            have := List.all_eq_true.mp hwf p0 (List.mem_of_getElem? h0); simpa using this
          have hnd1 : nodupB p1.vars = true := by
            have := List.all_eq_true.mp hwf p1 (List.mem_of_getElem? h1); simpa using this
          obtain ⟨fA, fB, fD⟩ := flow_facts hid hL hR
          have hsame' : ∀ y, y ∈ e.D ↔ y ∈ D := by
            intro y
            simp only [sameSet, Bool.and_eq_true, List.all_eq_true, List.contains_iff_mem] at hsame
            exact ⟨fun h => by simpa using hsame.2 y h, fun h => by simpa using hsame.1 y h⟩
          have hD0 : ∀ y, y ∈ e.D ↔ y ∈ p0.vars ∧ y ≠ e.L := by
            intro y; rw [hsame', fD]
            constructor
            · rintro ⟨ha, hb⟩; exact ⟨ha, fun h => ((fA y ha).mpr h) hb⟩
            · rintro ⟨ha, hne⟩; refine ⟨ha, ?_⟩; by_contra hb; exact hne ((fA y ha).mp hb)
          have hD1 : ∀ y, y ∈ e.D ↔ y ∈ p1.vars ∧ y ≠ e.R := by
            intro y; rw [hsame', fD]
            constructor
            · rintro ⟨ha, hb⟩; exact ⟨hb, fun h => ((fB y hb).mpr h) ha⟩
            · rintro ⟨hb, hne⟩; refine ⟨?_, hb⟩; by_contra ha; exact hne ((fB y hb).mp ha)
          have hi0 : i0 < slots.length := by
            rw [hM.1]; exact (List.getElem?_eq_some_iff.mp h0).1
          have hi1 : i1 < slots.length := by
            rw [hM.1]; exact (List.getElem?_eq_some_iff.mp h1).1
          have hs0 : slots[i0]? = some slots[i0] := List.getElem?_eq_getElem hi0
          have hs1 : slots[i1]? = some slots[i1] := List.getElem?_eq_getElem hi1
          obtain ⟨ta, hra, hsa⟩ := read_side (k := k) hL (hM.2 i0 p0 _ h0 hs0)
          obtain ⟨tb, hrb, hsb⟩ := read_side (k := k) hR (hM.2 i1 p1 _ h1 hs1)
          have hg0 : getE prev i0 = .ok p0 := by simp [getE, h0]
          have hg1 : getE prev i1 = .ok p1 := by simp [getE, h1]
          refine ⟨⟨.cell e.L (if p0.L = e.L then p0.R else p0.L) true,
            .cell e.R (if p1.L = e.R then p1.R else p1.L) true, ta, tb⟩, ?_, ?_, ?_⟩
          · simp only [likEdge, hp, hg0, hg1, ing_head hL hnd0 hD0, ing_head hR hnd1 hD1, hra, hrb]
          · simp only [specEdge, hp, h0, h1, hs0, hs1, hsa, hsb, Option.orElse, LikEdge.args]
          · simp [LikEdge.readsWritten]


theorem mapE_of_forall {β γ : Type} {f : β → Except Fail γ} {g : β → γ} :
    ∀ {l : List β}, (∀ x ∈ l, f x = .ok (g x)) → mapE f l = .ok (l.map g)
  | [], _ => rfl
  | x :: xs, h => by
    have hx := h x List.mem_cons_self
    have hxs := mapE_of_forall (f := f) (g := g) (l := xs) fun y hy => h y (List.mem_cons_of_mem _ hy)
    simp [mapE, hx, hxs]

theorem mapO_of_forall {β γ : Type} {f : β → Option γ} {g : β → γ} :
    ∀ {l : List β}, (∀ x ∈ l, f x = some (g x)) → mapO f l = some (l.map g)
  | [], _ => rfl
  | x :: xs, h => by
    have hx := h x List.mem_cons_self
    have hxs := mapO_of_forall (f := f) (g := g) (l := xs) fun y hy => h y (List.mem_cons_of_mem _ hy)
    simp [mapO, hx, hxs]

/-- a whole tree of edges satisfying the per-edge conclusion: choose the results. -/
theorem likTree_of_edges {k : Nat} {prev : Tree} {M : Mat} {slots : List (Term × Term)} {t : Tree}
    (h : ∀ e ∈ t, ∃ le, likEdge k prev M e = .ok le ∧ specEdge k prev slots e = some le.args ∧
      le.readsWritten = true) :
    ∃ les : List LikEdge, mapE (likEdge k prev M) t = .ok les ∧
      mapO (specEdge k prev slots) t = some (les.map LikEdge.args) ∧
      les.length = t.length ∧ ∀ le ∈ les, le.readsWritten = true := by
  induction t with
  | nil => exact ⟨[], rfl, rfl, rfl, by simp⟩
  | cons e t ih =>
    obtain ⟨le, h1, h2, h3⟩ := h e List.mem_cons_self
    obtain ⟨les, g1, g2, g3, g4⟩ := ih fun x hx => h x (List.mem_cons_of_mem _ hx)
    refine ⟨le :: les, by simp [mapE, h1, g1], by simp [mapO, h2, g2], by simp [g3], ?_⟩
    intro x hx
    rcases List.mem_cons.mp hx with rfl | hx
    · exact h3
    · exact g4 x hx

theorem keys_writeAll {k : Nat} : ∀ (t : List Edge) (ls : List LikEdge) (i : Nat) (key : Nat × Nat),
    key ∈ (writeAll k i t ls).map Prod.fst → ∃ f ∈ t, key = (f.R, f.L) ∨ key = (f.L, f.R)
  | [], _, _, _, h => by simp [writeAll] at h
  | _ :: _, [], _, _, h => by simp [writeAll] at h
  | e :: t, le :: ls, i, key, h => by
    simp only [writeAll, List.map_append, List.mem_append] at h
    rcases h with h | h
    · obtain ⟨f, hf, hk⟩ := keys_writeAll t ls (i + 1) key h
      exact ⟨f, List.mem_cons_of_mem _ hf, hk⟩
    · simp only [cellsOf, List.map_cons, List.map_nil, List.mem_cons, List.not_mem_nil,
        or_false] at h
      exact ⟨e, List.mem_cons_self, h⟩

theorem lookup_none_of_not_key {M : Mat} {key : Nat × Nat} (h : key ∉ M.map Prod.fst) :
    M.lookup key = none := by
  induction M with
  | nil => rfl
  | cons a M ih =>
    simp only [List.map_cons, List.mem_cons, not_or] at h
    have : (key == a.1) = false := by simpa using h.1
    obtain ⟨a1, a2⟩ := a
    simp only [List.lookup, this]
    simpa using ih h.2

/-- what `Tree.get_likelihood` leaves in the matrix for each of its edges. -/
theorem lookup_writeAll {k : Nat} : ∀ (t : List Edge) (ls : List LikEdge) (i : Nat),
    ls.length = t.length → pairsDistinct t = true → (∀ e ∈ t, e.L ≠ e.R) →
    ∀ (j : Nat) (e : Edge) (le : LikEdge), t[j]? = some e → ls[j]? = some le →
      (writeAll k i t ls).lookup (e.L, e.R) = some (.h k (i + j) le.l le.r) ∧
      (writeAll k i t ls).lookup (e.R, e.L) = some (.h k (i + j) le.r le.l)
  | [], _, _, _, _, _, j, e, le, h, _ => by simp at h
  | _ :: _, [], _, hl, _, _, _, _, _, _, _ => by simp at hl
  | e0 :: t, le0 :: ls, i, hl, hpd, hne, j, e, le, hj, hlj => by
    simp only [pairsDistinct, Bool.and_eq_true, List.all_eq_true] at hpd
    obtain ⟨hd0, hpd'⟩ := hpd
    have hl' : ls.length = t.length := by simpa using hl
    have hne' : ∀ e ∈ t, e.L ≠ e.R := fun x hx => hne x (List.mem_cons_of_mem _ hx)
    simp only [writeAll, List.lookup_append]
    cases j with
    | zero =>
      simp only [List.getElem?_cons_zero, Option.some.injEq] at hj hlj
      subst hj hlj
      have hLR := hne e0 List.mem_cons_self
      have n1 : (writeAll k (i + 1) t ls).lookup (e0.L, e0.R) = none := by
        apply lookup_none_of_not_key
        intro hk
        obtain ⟨f, hf, hk⟩ := keys_writeAll t ls (i + 1) _ hk
        have := hd0 f hf
        simp only [Bool.not_eq_true', Bool.or_eq_false_iff, Bool.and_eq_false_iff,
          beq_eq_false_iff_ne] at this
        rcases hk with hk | hk
        · simp only [Prod.mk.injEq] at hk
          rcases this.2 with h | h
          · exact h hk.2.symm
          · exact h hk.1.symm
        · simp only [Prod.mk.injEq] at hk
          rcases this.1 with h | h
          · exact h hk.1.symm
          · exact h hk.2.symm
      have n2 : (writeAll k (i + 1) t ls).lookup (e0.R, e0.L) = none := by
        apply lookup_none_of_not_key
        intro hk
        obtain ⟨f, hf, hk⟩ := keys_writeAll t ls (i + 1) _ hk
        have := hd0 f hf
        simp only [Bool.not_eq_true', Bool.or_eq_false_iff, Bool.and_eq_false_iff,
          beq_eq_false_iff_ne] at this
        rcases hk with hk | hk
        · simp only [Prod.mk.injEq] at hk
          rcases this.1 with h | h
          · exact h hk.2.symm
          · exact h hk.1.symm
        · simp only [Prod.mk.injEq] at hk
          rcases this.2 with h | h
          · exact h hk.1.symm
          · exact h hk.2.symm
      have b1 : ((e0.L, e0.R) == (e0.R, e0.L)) = false := by
        simp only [beq_eq_false_iff_ne, ne_eq, Prod.mk.injEq, not_and]
        intro h; exact absurd h hLR
      simp [n1, n2, cellsOf, List.lookup, b1]
    | succ j =>
      simp only [List.getElem?_cons_succ] at hj hlj
      obtain ⟨a, b⟩ := lookup_writeAll (k := k) t ls (i + 1) hl' hpd' hne' j e le hj hlj
      have : i + 1 + j = i + (j + 1) := by omega
      rw [this] at a b
      simp [a, b]

theorem slotsOf_get {k : Nat} : ∀ (args : List (Term × Term)) (i j : Nat) (a : Term × Term),
    args[j]? = some a → (slotsOf k i args)[j]? = some (.h k (i + j) a.1 a.2, .h k (i + j) a.2 a.1)
  | [], _, _, _, h => by simp at h
  | (x, y) :: rest, i, 0, a, h => by
    simp only [List.getElem?_cons_zero, Option.some.injEq] at h
    subst h; simp [slotsOf]
  | (x, y) :: rest, i, j + 1, a, h => by
    simp only [List.getElem?_cons_succ] at h
    have := slotsOf_get (k := k) rest (i + 1) j a h
    have e : i + 1 + j = i + (j + 1) := by omega
    simp [slotsOf, this, e]

theorem slotsOf_length {k : Nat} : ∀ (args : List (Term × Term)) (i : Nat),
    (slotsOf k i args).length = args.length
  | [], _ => rfl
  | (x, y) :: rest, i => by simp [slotsOf, slotsOf_length rest (i + 1)]

theorem treeWF_parts {t : Tree} (h : treeWF t = true) :
    t.all (fun e => nodupB e.vars) = true ∧ pairsDistinct t = true ∧ ∀ e ∈ t, e.L ≠ e.R := by
  simp only [treeWF, Bool.and_eq_true] at h
  refine ⟨h.1, h.2, ?_⟩
  intro e he
  have := List.all_eq_true.mp h.1 e he
  have := nodupB_iff.mp this
  simp only [Edge.vars, List.nodup_cons, List.mem_cons, not_or] at this
  exact this.1.1

/-- after a tree has written, the invariant holds for it. -/
theorem matOK_step {k : Nat} {t : Tree} {les : List LikEdge} (hwf : treeWF t = true)
    (hlen : les.length = t.length) :
    MatOK t (writeAll k 0 t les) (slotsOf k 0 (les.map LikEdge.args)) := by
  obtain ⟨_, hpd, hne⟩ := treeWF_parts hwf
  refine ⟨by simp [slotsOf_length, hlen], ?_⟩
  intro i p s hp hs
  have hi : i < les.length := by rw [hlen]; exact (List.getElem?_eq_some_iff.mp hp).1
  have hle : les[i]? = some les[i] := List.getElem?_eq_getElem hi
  have hargs : (les.map LikEdge.args)[i]? = some (les[i]).args := by simp [hle]
  have := slotsOf_get (k := k) _ 0 i _ hargs
  rw [this] at hs
  simp only [Option.some.injEq] at hs
  subst hs
  have := lookup_writeAll (k := k) t les 0 hlen hpd hne i p les[i] hp hle
  simpa [Mat.get, LikEdge.args] using this


theorem likFrom_spec : ∀ (ts : List Tree) (k : Nat) (prev : Tree) (M : Mat)
    (slots : List (Term × Term)),
    treeWF prev = true → MatOK prev M slots → goodFrom prev ts = true →
    ∃ plan, likFrom k prev M ts = .ok plan ∧
      specFrom k prev slots ts = some (plan.map (·.map LikEdge.args)) ∧
      ∀ lv ∈ plan, ∀ le ∈ lv, le.readsWritten = true
  | [], _, _, _, _, _, _, _ => ⟨[], rfl, rfl, by simp⟩
  | t :: ts, k, prev, M, slots, hwf, hM, hg => by
    simp only [goodFrom, Bool.and_eq_true] at hg
    obtain ⟨⟨hwt, hch⟩, hrest⟩ := hg
    have hedges : ∀ e ∈ t, ∃ le, likEdge k prev M e = .ok le ∧
        specEdge k prev slots e = some le.args ∧ le.readsWritten = true := by
      intro e he
      exact likEdge_child (treeWF_parts hwf).1 hM (List.all_eq_true.mp hch e he)
    obtain ⟨les, h1, h2, h3, h4⟩ := likTree_of_edges hedges
    obtain ⟨plan, g1, g2, g3⟩ := likFrom_spec ts (k + 1) t (writeAll k 0 t les)
      (slotsOf k 0 (les.map LikEdge.args)) hwt (matOK_step hwt h3) hrest
    refine ⟨les :: plan, ?_, ?_, ?_⟩
    · simp [likFrom, likTree, h1, g1]
    · simp [specFrom, h2, g2]
    · intro lv hlv
      rcases List.mem_cons.mp hlv with rfl | hlv
      · exact h4
      · exact g3 lv hlv

theorem likPlan_spec {trees : List Tree} (hg : goodVine trees = true) :
    ∃ plan, likPlan trees = .ok plan ∧
      specArgs trees = some (plan.map (·.map LikEdge.args)) ∧
      ∀ lv ∈ plan, ∀ le ∈ lv, le.readsWritten = true := by
  cases trees with
  | nil => exact ⟨[], rfl, rfl, by simp⟩
  | cons t ts =>
    simp only [goodVine, Bool.and_eq_true] at hg
    obtain ⟨⟨hwt, hpar⟩, hrest⟩ := hg
    have hedges : ∀ e ∈ t, ∃ le, likEdge 0 [] [] e = .ok le ∧
        specEdge 0 [] [] e = some le.args ∧ le.readsWritten = true := by
      intro e he
      have hp : e.parents = none := by
        have := List.all_eq_true.mp hpar e he
        simpa using this
      exact ⟨⟨.input e.L, .input e.R, .u e.L, .u e.R⟩, by simp [likEdge, hp],
        by simp [specEdge, hp, LikEdge.args], by simp [LikEdge.readsWritten]⟩
    obtain ⟨les, h1, h2, h3, h4⟩ := likTree_of_edges hedges
    obtain ⟨plan, g1, g2, g3⟩ := likFrom_spec ts 1 t (writeAll 0 0 t les)
      (slotsOf 0 0 (les.map LikEdge.args)) hwt (matOK_step hwt h3) hrest
    refine ⟨les :: plan, ?_, ?_, ?_⟩
    · simp [likPlan, likFrom, likTree, h1, g1]
    · simp [specArgs, specFrom, h2, g2]
    · intro lv hlv
      rcases List.mem_cons.mp hlv with rfl | hlv
      · exact h4
      · exact g3 lv hlv


/-- the fit-side statement for one edge above the first tree. -/
theorem edgePlan_spec {prev : Tree} {e : Edge}
    (hwf : prev.all (fun e => nodupB e.vars) = true) (hc : childOK prev e = true) :
    ∃ i0 i1 p0 p1 s0 s1, e.parents = some (i0, i1) ∧ prev[i0]? = some p0 ∧ prev[i1]? = some p1 ∧
      edgePlan false prev e = .ok ⟨.uof i0 s0, .uof i1 s1⟩ ∧
      slotVar p0 s0 = e.L ∧ slotVar p1 s1 = e.R ∧
      (∀ x, x ∈ slotGiven p0 s0 ↔ x ∈ e.D) ∧ (∀ x, x ∈ slotGiven p1 s1 ↔ x ∈ e.D) ∧
      needSlot p0 p1 i0 i1 e.L = some (.uof i0 s0) ∧ needSlot p0 p1 i0 i1 e.R = some (.uof i1 s1) := by
  unfold childOK at hc
  cases hp : e.parents with
  | none => simp [hp] at hc
  | some ij =>
    obtain ⟨i0, i1⟩ := ij
    simp only [hp] at hc
    cases h0 : prev[i0]? with
    | none => simp [h0] at hc
    | some p0 =>
      cases h1 : prev[i1]? with
      | none => simp [h0, h1] at hc
      | some p1 =>
        simp only [h0, h1] at hc
        cases hid : identify p0 p1 with
        | error x => simp [hid] at hc
        | ok lrD =>
          obtain ⟨l, r, D⟩ := lrD
          simp only [hid, Bool.and_eq_true, beq_iff_eq] at hc
          obtain ⟨⟨⟨⟨⟨hl, hr⟩, hsame⟩, hndD⟩, hflow⟩, _hsorted⟩ := hc
          subst hl hr
          simp only [flowOK, Bool.and_eq_true] at hflow
          obtain ⟨hL, hR⟩ := hflow
          have hnd0 : nodupB p0.vars = true := by
            have := List.all_eq_true.mp hwf p0 (List.mem_of_getElem? h0); simpa using this
          have hnd1 : nodupB p1.vars = true := by
            have := List.all_eq_true.mp hwf p1 (List.mem_of_getElem? h1); simpa using this
          have hsame' : ∀ y, y ∈ D ↔ y ∈ e.D := by
            intro y
            simp only [sameSet, Bool.and_eq_true, List.all_eq_true, List.contains_iff_mem] at hsame
            exact ⟨fun h => by simpa using hsame.1 y h, fun h => by simpa using hsame.2 y h⟩
          obtain ⟨s0, s1, hcu, v0, v1, g0, g1, n0, n1⟩ :=
            condUni_spec (i0 := i0) (i1 := i1) hid hnd0 hnd1 hL hR
          refine ⟨i0, i1, p0, p1, s0, s1, rfl, h0, h1, ?_, v0, v1,
            fun x => (g0 x).trans (hsame' x), fun x => (g1 x).trans (hsame' x), n0, n1⟩
          simp [edgePlan, hp, getE, h0, h1, hcu]

/-! ## determinism: clean terms do not see the junk -/

section
variable {α : Type} [Add α] [NumFns α]

theorem evalTerm_clean (I : Interp α) (u : Nat → α) (j1 j2 : Nat → Nat → Nat → α) :
    ∀ t : Term, t.clean = true → evalTerm I u j1 t = evalTerm I u j2 t
  | .u _, _ => rfl
  | .junk _ _ _, h => by simp [Term.clean] at h
  | .h k i a b, h => by
    simp only [Term.clean, Bool.and_eq_true] at h
    simp [evalTerm, evalTerm_clean I u j1 j2 a h.1, evalTerm_clean I u j1 j2 b h.2]

theorem sumFrom_congr {f g : Nat → (Term × Term) → α} :
    ∀ (l : List (Term × Term)) (i : Nat), (∀ j, ∀ a ∈ l, f j a = g j a) →
      sumFrom f i l = sumFrom g i l
  | [], _, _ => rfl
  | x :: xs, i, h => by
    simp only [sumFrom]
    rw [h i x List.mem_cons_self, sumFrom_congr xs (i + 1) fun j a ha => h j a (List.mem_cons_of_mem _ ha)]

theorem sumTrees_congr {f g : Nat → Nat → (Term × Term) → α} :
    ∀ (l : List (List (Term × Term))) (k : Nat),
      (∀ k' j, ∀ lv ∈ l, ∀ a ∈ lv, f k' j a = g k' j a) → sumTrees f k l = sumTrees g k l
  | [], _, _ => rfl
  | t :: ts, k, h => by
    simp only [sumTrees]
    rw [sumFrom_congr t 0 fun j a ha => h k j t List.mem_cons_self a ha,
      sumTrees_congr ts (k + 1) fun k' j lv hlv a ha => h k' j lv (List.mem_cons_of_mem _ hlv) a ha]

def argsClean (args : List (List (Term × Term))) : Prop :=
  ∀ lv ∈ args, ∀ a ∈ lv, a.1.clean = true ∧ a.2.clean = true

theorem likValue_junk_irrelevant (I : Interp α) (u : Nat → α) (j1 j2 : Nat → Nat → Nat → α)
    {args : List (List (Term × Term))} (hc : argsClean args) :
    likValue I u j1 args = likValue I u j2 args := by
  unfold likValue
  apply sumTrees_congr
  intro k' j lv hlv a ha
  obtain ⟨c1, c2⟩ := hc lv hlv a ha
  simp only [evalTerm_clean I u j1 j2 a.1 c1, evalTerm_clean I u j1 j2 a.2 c2]
end

theorem mapO_mem {β γ : Type} {f : β → Option γ} :
    ∀ {l : List β} {ys : List γ}, mapO f l = some ys → ∀ y ∈ ys, ∃ x ∈ l, f x = some y
  | [], ys, h, y, hy => by simp [mapO] at h; subst h; simp at hy
  | x :: xs, ys, h, y, hy => by
    simp only [mapO] at h
    cases hx : f x with
    | none => simp [hx] at h
    | some y0 =>
      cases hxs : mapO f xs with
      | none => simp [hx, hxs] at h
      | some ys0 =>
        simp only [hx, hxs, Option.some.injEq] at h
        subst h
        rcases List.mem_cons.mp hy with rfl | hy
        · exact ⟨x, List.mem_cons_self, hx⟩
        · obtain ⟨x', hx', hf⟩ := mapO_mem hxs y hy
          exact ⟨x', List.mem_cons_of_mem _ hx', hf⟩

def slotsClean (slots : List (Term × Term)) : Prop :=
  ∀ s ∈ slots, s.1.clean = true ∧ s.2.clean = true

theorem slotFor_clean {p : Edge} {s : Term × Term} {x : Nat} {t : Term}
    (hs : s.1.clean = true ∧ s.2.clean = true) (h : slotFor p s x = some t) : t.clean = true := by
  unfold slotFor at h
  split_ifs at h <;> simp at h <;> subst h
  · exact hs.1
  · exact hs.2

theorem specEdge_clean {k : Nat} {prev : Tree} {slots : List (Term × Term)} {e : Edge}
    {a : Term × Term} (hs : slotsClean slots) (h : specEdge k prev slots e = some a) :
    a.1.clean = true ∧ a.2.clean = true := by
  unfold specEdge at h
  split at h
  · split_ifs at h
    simp at h; subst h; simp [Term.clean]
  · rename_i i0 i1 _
    split at h
    · rename_i p0 p1 s0 s1 _ _ h0 h1
      have c0 := hs s0 (List.mem_of_getElem? h0)
      have c1 := hs s1 (List.mem_of_getElem? h1)
      split at h
      · rename_i ta tb ha hb
        simp only [Option.some.injEq] at h
        subst h
        constructor
        · cases hq : slotFor p0 s0 e.L with
          | some t => simp [hq, Option.orElse] at ha; subst ha; exact slotFor_clean c0 hq
          | none => simp [hq, Option.orElse] at ha; exact slotFor_clean c1 ha
        · cases hq : slotFor p1 s1 e.R with
          | some t => simp [hq, Option.orElse] at hb; subst hb; exact slotFor_clean c1 hq
          | none => simp [hq, Option.orElse] at hb; exact slotFor_clean c0 hb
      · simp at h
    · simp at h

theorem slotsOf_clean {k : Nat} : ∀ (args : List (Term × Term)) (i : Nat),
    (∀ a ∈ args, a.1.clean = true ∧ a.2.clean = true) → slotsClean (slotsOf k i args)
  | [], _, _ => by simp [slotsOf, slotsClean]
  | (x, y) :: rest, i, h => by
    intro s hs
    simp only [slotsOf, List.mem_cons] at hs
    have hxy := h (x, y) List.mem_cons_self
    rcases hs with hs | hs
    · subst hs; simp [Term.clean, hxy.1, hxy.2]
    · exact slotsOf_clean rest (i + 1) (fun a ha => h a (List.mem_cons_of_mem _ ha)) s hs

theorem specFrom_clean : ∀ (ts : List Tree) (k : Nat) (prev : Tree) (slots : List (Term × Term))
    (out : List (List (Term × Term))), slotsClean slots → specFrom k prev slots ts = some out →
    argsClean out
  | [], _, _, _, out, _, h => by simp [specFrom] at h; subst h; simp [argsClean]
  | t :: ts, k, prev, slots, out, hs, h => by
    simp only [specFrom] at h
    cases hm : mapO (specEdge k prev slots) t with
    | none => simp [hm] at h
    | some args =>
      cases hr : specFrom (k + 1) t (slotsOf k 0 args) ts with
      | none => simp [hm, hr] at h
      | some rest =>
        simp only [hm, hr, Option.some.injEq] at h
        subst h
        have hargs : ∀ a ∈ args, a.1.clean = true ∧ a.2.clean = true := by
          intro a ha
          obtain ⟨e, _, he⟩ := mapO_mem hm a ha
          exact specEdge_clean hs he
        intro lv hlv
        rcases List.mem_cons.mp hlv with rfl | hlv
        · exact hargs
        · exact specFrom_clean ts (k + 1) t _ rest (slotsOf_clean args 0 hargs) hr lv hlv

/-- the specification's arguments never contain uninitialised memory. -/
theorem specArgs_clean {trees : List Tree} {args : List (List (Term × Term))}
    (h : specArgs trees = some args) : argsClean args :=
  specFrom_clean trees 0 [] [] args (by simp [slotsClean]) h

/-! ## sampling bookkeeping -/

theorem annotate_currents {trees : List Tree} {trunc : Nat} :
    ∀ (l : List (Nat × List Nat)) (itr : Nat) (b : Bool) (vs : List Visit),
      annotate trees trunc itr b l = .ok vs → vs.map (·.current) = l.map (·.1)
  | [], _, _, vs, h => by simp [annotate] at h; subst h; rfl
  | (c, visited) :: rest, itr, b, vs, h => by
    unfold annotate at h
    cases visited with
    | nil =>
      simp only at h
      cases hr : annotate trees trunc (itr + 1) b rest with
      | error e => simp [hr] at h
      | ok vs' =>
        simp only [hr, Except.ok.injEq] at h
        subst h
        simp [annotate_currents rest _ _ vs' hr]
    | cons v0 vt =>
      simp only at h
      cases hs : visitSteps trees trunc itr c v0 (v0 :: vt) itr with
      | error e => simp [hs] at h
      | ok steps =>
        simp only [hs] at h
        split_ifs at h
        cases hr : annotate trees trunc (itr + 1) true rest with
        | error e => simp [hr] at h
        | ok vs' =>
          simp only [hr, Except.ok.injEq] at h
          subst h
          simp [annotate_currents rest _ _ vs' hr]

theorem rowCells_of_perm {d : Nat} {order : List Nat} (h : order.Perm (List.range d)) :
    rowCells d order = List.replicate d 1 := by
  unfold rowCells
  apply List.ext_getElem
  · simp
  · intro i h1 h2
    simp only [List.length_map, List.length_range] at h1
    simp only [List.getElem_map, List.getElem_range, List.getElem_replicate]
    rw [h.count_eq]
    exact List.count_eq_one_of_mem List.nodup_range (List.mem_range.mpr h1)


/-! ## the traversal of `_sample_row` on a rooted spanning tree -/

def kids (par : Nat → Nat) (d c : Nat) : List Nat :=
  (List.range d).filter fun j => j != c && par j == c

structure Rooted (t : Tree) (d first : Nat) (par depth : Nat → Nat) : Prop where
  first_lt : first < d
  par_first : par first = first
  down : ∀ v, v < d → v ≠ first → par v < d ∧ depth (par v) < depth v
  adj : ∀ a b, a < d → b < d → adjB t a b = (a != b && (par a == b || par b == a))

theorem rooted_of_ok {t : Tree} {d first : Nat} {par depth : List Nat}
    (h : rootedOK t d first par depth = true) :
    Rooted t d first (fun v => par.getD v d) (fun v => depth.getD v 0) := by
  simp only [rootedOK, Bool.and_eq_true, decide_eq_true_eq, beq_iff_eq, List.all_eq_true,
    List.mem_range, Bool.or_eq_true] at h
  obtain ⟨⟨⟨⟨⟨h1, _⟩, _⟩, h4⟩, h5⟩, h6⟩ := h
  refine ⟨h1, h4, ?_, ?_⟩
  · intro v hv hne
    rcases h5 v hv with h | h
    · exact absurd h hne
    · exact h
  · intro a b ha hb
    exact h6 a ha b hb

structure Inv (d first : Nat) (par : Nat → Nat) (explore visited : List Nat) : Prop where
  i1 : explore.Nodup
  i2 : visited.Nodup
  i3 : ∀ v ∈ explore, v < d ∧ v ∉ visited ∧ (v = first ∨ par v ∈ visited)
  i4 : ∀ v ∈ visited, v < d ∧ (v = first ∨ par v ∈ visited)
  i5 : ∀ v, v < d → v ∉ visited → (v = first ∨ par v ∈ visited) → v ∈ explore

theorem unvisited_nbrs {t : Tree} {d first : Nat} {par depth : Nat → Nat}
    (hr : Rooted t d first par depth) {c : Nat} {rest visited : List Nat}
    (hi : Inv d first par (c :: rest) visited) :
    (adjRow t d c).filter (fun s => !visited.contains s) = kids par d c := by
  obtain ⟨hc, hcv, hcp⟩ := hi.i3 c List.mem_cons_self
  simp only [adjRow, kids, List.filter_filter]
  apply List.filter_congr
  intro j hj
  have hj' : j < d := List.mem_range.mp hj
  rw [hr.adj c j hc hj']
  by_cases hjc : j = c
  · subst hjc; simp
  · have hcj : c ≠ j := fun h => hjc h.symm
    have b1 : (j != c) = true := by simp [hjc]
    have b2 : (c != j) = true := by simp [hcj]
    by_cases hpj : par j = c
    · -- a child: it is unvisited
      have hjv : j ∉ visited := by
        intro hv
        rcases (hi.i4 j hv).2 with h | h
        · subst h; rw [hr.par_first] at hpj; exact hjc hpj
        · rw [hpj] at h; exact hcv h
      have b3 : (par j == c) = true := by simp [hpj]
      simp [b1, b2, b3, hjv]
    · -- not a child: either not adjacent, or the parent (visited)
      by_cases hpc : par c = j
      · have hjv : j ∈ visited := by
          rcases hcp with h | h
          · subst h; rw [hr.par_first] at hpc; exact absurd hpc hcj
          · rw [hpc] at h; exact h
        have b3 : (par j == c) = false := by simp [hpj]
        simp [b1, b2, b3, hjv]
      · have b3 : (par j == c) = false := by simp [hpj]
        have b4 : (par c == j) = false := by simp [hpc]
        simp [b1, b2, b3, b4]

theorem inv_step {t : Tree} {d first : Nat} {par depth : Nat → Nat}
    (hr : Rooted t d first par depth) {c : Nat} {rest visited : List Nat}
    (hi : Inv d first par (c :: rest) visited) :
    Inv d first par ((kids par d c).reverse ++ rest) (c :: visited) := by
  obtain ⟨hc, hcv, hcp⟩ := hi.i3 c List.mem_cons_self
  have hnd := List.nodup_cons.mp hi.i1
  have kid_iff : ∀ j, j ∈ kids par d c ↔ j < d ∧ j ≠ c ∧ par j = c := by
    intro j; simp [kids, and_assoc]
  have kid_unvisited : ∀ j, j ∈ kids par d c → j ∉ visited := by
    intro j hj hv
    obtain ⟨_, hjc, hpj⟩ := (kid_iff j).mp hj
    rcases (hi.i4 j hv).2 with h | h
    · subst h; rw [hr.par_first] at hpj; exact hjc hpj
    · rw [hpj] at h; exact hcv h
  refine ⟨?_, ?_, ?_, ?_, ?_⟩
  · rw [List.nodup_append]
    refine ⟨List.nodup_reverse.mpr ((List.nodup_range).filter _), hnd.2, ?_⟩
    intro a ha b hb hab
    subst hab
    have ha' := (kid_iff a).mp (List.mem_reverse.mp ha)
    rcases (hi.i3 a (List.mem_cons_of_mem _ hb)).2.2 with h | h
    · subst h; rw [hr.par_first] at ha'; exact ha'.2.1 ha'.2.2
    · rw [ha'.2.2] at h; exact hcv h
  · exact List.nodup_cons.mpr ⟨hcv, hi.i2⟩
  · intro v hv
    rcases List.mem_append.mp hv with hv | hv
    · have hv' := (kid_iff v).mp (List.mem_reverse.mp hv)
      refine ⟨hv'.1, ?_, Or.inr (by rw [hv'.2.2]; exact List.mem_cons_self)⟩
      intro h
      rcases List.mem_cons.mp h with h | h
      · exact hv'.2.1 h
      · exact kid_unvisited v (List.mem_reverse.mp hv) h
    · obtain ⟨a, b, c'⟩ := hi.i3 v (List.mem_cons_of_mem _ hv)
      refine ⟨a, ?_, ?_⟩
      · intro h
        rcases List.mem_cons.mp h with h | h
        · rw [h] at hv; exact hnd.1 hv
        · exact b h
      · rcases c' with h | h
        · exact Or.inl h
        · exact Or.inr (List.mem_cons_of_mem _ h)
  · intro v hv
    rcases List.mem_cons.mp hv with h | h
    · subst h
      refine ⟨hc, ?_⟩
      rcases hcp with h | h
      · exact Or.inl h
      · exact Or.inr (List.mem_cons_of_mem _ h)
    · obtain ⟨a, b⟩ := hi.i4 v h
      refine ⟨a, ?_⟩
      rcases b with h | h
      · exact Or.inl h
      · exact Or.inr (List.mem_cons_of_mem _ h)
  · intro v hv hnv hp
    have hvc : v ≠ c := fun h => hnv (h ▸ List.mem_cons_self)
    have hvv : v ∉ visited := fun h => hnv (List.mem_cons_of_mem _ h)
    have old : (v = first ∨ par v ∈ visited) → v ∈ (kids par d c).reverse ++ rest := by
      intro h
      have := hi.i5 v hv hvv h
      rcases List.mem_cons.mp this with h' | h'
      · exact absurd h' hvc
      · exact List.mem_append_right _ h'
    rcases hp with h | h
    · exact old (Or.inl h)
    · rcases List.mem_cons.mp h with h | h
      · exact List.mem_append_left _ (List.mem_reverse.mpr ((kid_iff v).mpr ⟨hv, hvc, h⟩))
      · exact old (Or.inr h)

theorem length_lt_of_nodup {d c : Nat} {visited : List Nat} (hnd : visited.Nodup)
    (hlt : ∀ v ∈ visited, v < d) (hc : c < d) (hcv : c ∉ visited) : visited.length < d := by
  have hnd' : (c :: visited).Nodup := List.nodup_cons.mpr ⟨hcv, hnd⟩
  have hsub : (c :: visited) ⊆ List.range d := by
    intro x hx
    rcases List.mem_cons.mp hx with h | h
    · subst h; exact List.mem_range.mpr hc
    · exact List.mem_range.mpr (hlt x h)
  have := (hnd'.subperm hsub).length_le
  simp at this
  omega

theorem all_visited {t : Tree} {d first : Nat} {par depth : Nat → Nat}
    (hr : Rooted t d first par depth) {visited : List Nat} (hi : Inv d first par [] visited) :
    ∀ v, v < d → v ∈ visited := by
  have key : ∀ n v, v < d → depth v = n → v ∈ visited := by
    intro n
    induction n using Nat.strong_induction_on with
    | _ n ih =>
      intro v hv hn
      by_contra hnv
      by_cases hvf : v = first
      · exact absurd (hi.i5 v hv hnv (Or.inl hvf)) (by simp)
      · obtain ⟨hp, hdp⟩ := hr.down v hv hvf
        have := ih _ (hn ▸ hdp) _ hp rfl
        exact absurd (hi.i5 v hv hnv (Or.inr this)) (by simp)
  intro v hv
  exact key _ v hv rfl

theorem traverse_spec {t : Tree} {d first : Nat} {par depth : Nat → Nat}
    (hr : Rooted t d first par depth) :
    ∀ (fuel : Nat) (explore visited : List Nat), Inv d first par explore visited →
      d - visited.length ≤ fuel →
      ∃ vs, traverse t d fuel explore visited = .ok vs ∧ (vs.map (·.1)).Nodup ∧
        ∀ v, v ∈ vs.map (·.1) ↔ (v < d ∧ v ∉ visited) := by
  intro fuel
  induction fuel with
  | zero =>
    intro explore visited hi hf
    cases explore with
    | nil =>
      refine ⟨[], by simp [traverse], by simp, ?_⟩
      intro v; simp only [List.map_nil, List.not_mem_nil, false_iff, not_and, not_not]
      exact all_visited hr hi v
    | cons c rest =>
      obtain ⟨hc, hcv, _⟩ := hi.i3 c List.mem_cons_self
      have := length_lt_of_nodup hi.i2 (fun v hv => (hi.i4 v hv).1) hc hcv
      omega
  | succ fuel ih =>
    intro explore visited hi hf
    cases explore with
    | nil =>
      refine ⟨[], by simp [traverse], by simp, ?_⟩
      intro v; simp only [List.map_nil, List.not_mem_nil, false_iff, not_and, not_not]
      exact all_visited hr hi v
    | cons c rest =>
      obtain ⟨hc, hcv, _⟩ := hi.i3 c List.mem_cons_self
      have hlt := length_lt_of_nodup hi.i2 (fun v hv => (hi.i4 v hv).1) hc hcv
      have hi' := inv_step hr hi
      obtain ⟨vs, h1, h2, h3⟩ := ih _ _ hi' (by simp; omega)
      refine ⟨(c, visited) :: vs, ?_, ?_, ?_⟩
      · simp only [traverse, unvisited_nbrs hr hi, h1]
      · simp only [List.map_cons, List.nodup_cons]
        refine ⟨?_, h2⟩
        intro h
        exact ((h3 c).mp h).2 List.mem_cons_self
      · intro v
        simp only [List.map_cons, List.mem_cons]
        rw [h3 v]
        constructor
        · rintro (h | ⟨h1, h2⟩)
          · subst h; exact ⟨hc, hcv⟩
          · exact ⟨h1, fun h => h2 (List.mem_cons_of_mem _ h)⟩
        · rintro ⟨h1, h2⟩
          by_cases hvc : v = c
          · exact Or.inl hvc
          · refine Or.inr ⟨h1, ?_⟩
            intro h
            rcases List.mem_cons.mp h with h | h
            · exact hvc h
            · exact h2 h

theorem inv_init {d first : Nat} {par : Nat → Nat} (hf : first < d) :
    Inv d first par [first] [] := by
  refine ⟨by simp, by simp, ?_, by simp, ?_⟩
  · intro v hv; simp at hv; subst hv; exact ⟨hf, by simp, Or.inl rfl⟩
  · intro v _ _ h
    rcases h with h | h
    · simp [h]
    · simp at h

/-- on a spanning tree rooted at `first`, the traversal assigns every column exactly once. -/
theorem visitOrder_perm {t : Tree} {d first : Nat} {par depth : List Nat}
    (h : rootedOK t d first par depth = true) :
    ∃ order, visitOrder t d first = .ok order ∧ order.Perm (List.range d) := by
  have hr := rooted_of_ok h
  obtain ⟨vs, h1, h2, h3⟩ := traverse_spec hr (d * d + d + 1) [first] [] (inv_init hr.first_lt)
    (by simp; nlinarith)
  refine ⟨vs.map (·.1), by simp [visitOrder, h1], ?_⟩
  apply (List.perm_ext_iff_of_nodup h2 List.nodup_range).mpr
  intro v
  rw [h3 v]; simp


end CopVerif.Model.VineFlow
