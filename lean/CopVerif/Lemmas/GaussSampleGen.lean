import CopVerif.Lemmas.GaussSample
import CopVerif.Gen.GaussCond
import CopVerif.Gen.GaussTransform
/-!
  C01, translator tie (T): glue definitions and helper lemmas between the definitions GENERATED from the source
  (`CopVerif/Gen/GaussCond.lean`: `_get_normal_samples`, `sample`; `CopVerif/Gen/GaussTransform.lean`: `_fit_columns`)
  and the hand model `CopVerif/Model/GaussSample.lean`.  Core Lean only (the driver `Driver/GaussSample.lean` runs the
  generated definitions through the very same glue: `genFitted`, `ppfOf`).

  How the positional `zip(self.columns, self.univariates)` of the model meets the by-label `ppf` of the generated
  code: `ppfOf E m col` is `percent_point` of the univariate that `zip` pairs with the label `col` (`lookup` in the
  zipped list); the translator only emits `ppf col` for the loop's OWN univariate of the loop
  `for column_name, univariate in zip(self.columns, self.univariates)` (pinned; any other loop source is
  `Untranslatable`).
-/
namespace CopVerif.GaussSampleGen
open CopVerif CopVerif.Model.GaussSample NumFns
open CopVerif.Model.GaussCond (Corr CondDist Conditions drawCol)
open CopVerif.Gen.GaussCond (dictLoop)

/-! ## glue between the by-label reading of the generated code and the positional fitted state of the model -/

/-- `univariate.percent_point` for the univariate that `zip(self.columns, self.univariates)` pairs with the label
    `col` (identity for a label that is not a training column — never asked for). -/
def ppfOf {ι α : Type} [DecidableEq ι] (E : Ext α) (m : Fitted ι α) (col : ι) (u : α) : α :=
  match (m.columns.zip m.univariates).lookup col with
  | some uni => uni.ppf E.ppf u
  | none => u

/-- the external functions of the model read off the parameters of the generated code: `np.random.multivariate_normal`
    is called with `np.zeros(d)` and the stored correlation. -/
def extOf {ι α : Type} [NumFns α] (ppf : Nat → α → α) (phi : α → α)
    (rng : List α → List (List α) → Nat → List (List α)) (S : Corr ι α) : Ext α :=
  { ppf := ppf, phi := phi, mvn := fun d n => rng (List.replicate d (ofNat 0)) S.data n }

/-- the `fitColumn` parameter with which the generated `_fit_columns` just records the column data handed to
    `_fit_column` (position by position). -/
def recordColumn {ι α D : Type} : List α → D → ι → List α := fun column _ _ => column

/-- the fitted state built by the GENERATED `_fit_columns`: its first list as `self.columns`; the `j`-th univariate is
    what `sample` can observe of `_fit_column` on the `j`-th column the generated loop hands over (`fitColumn j`:
    constant ⇒ `percent_point ≡ c`, else the external `PPF j`). -/
def genFitted {ι α D : Type} [BEq α] (gd : ι → D) (X : List (ι × List α)) : Fitted ι α :=
  { columns := (Gen.GaussTransform.fitColumns X gd recordColumn).1
    univariates := ((Gen.GaussTransform.fitColumns X gd (recordColumn (ι := ι))).2.zipIdx).map fun p => fitColumn p.2 p.1 }

/-- the array the generated code obtains from `np.random.multivariate_normal(np.zeros(d), self.correlation, size=n)`. -/
def drawsOf {ι α : Type} [NumFns α] (rng : List α → List (List α) → Nat → List (List α)) (S : Corr ι α) (n : Nat) :
    List (List α) :=
  rng (List.replicate S.labels.length (ofNat 0)) S.data n

/-! ## helper lemmas -/
section helpers
variable {ι α : Type}

theorem dictLoop_ok [DecidableEq ι] [Add α] [Sub α] [Mul α] [NumFns α] (f : ι → List α) (cols : List ι) :
    dictLoop (fun c => .ok (f c)) cols = .ok (cols.map fun c => (c, f c)) := by
  induction cols with
  | nil => rfl
  | cons c rest ih => simp [dictLoop, ih]

/-- column `k` of an array all of whose rows are longer than `k`, read row by row with a default. -/
theorem colOf_eq_map_getD {d k : Nat} (rows : List (List α)) (hrows : ∀ r ∈ rows, r.length = d) (hk : k < d) (z : α) :
    colOf k rows = rows.map fun r => r.getD k z := by
  induction rows with
  | nil => rfl
  | cons r rest ih =>
    have hr : k < r.length := by rw [hrows r List.mem_cons_self]; exact hk
    have ih' := ih (fun r' h => hrows r' (List.mem_cons_of_mem _ h))
    simp only [colOf] at ih' ⊢
    rw [List.filterMap_cons, List.getElem?_eq_getElem hr]
    simp [ih', List.getD_eq_getElem?_getD, List.getElem?_eq_getElem hr]

theorem lookup_of_mem_nodup [DecidableEq ι] {V : Type} (l : List (ι × V)) (hnd : (l.map Prod.fst).Nodup) (p : ι × V)
    (hp : p ∈ l) : l.lookup p.1 = some p.2 := by
  induction l with
  | nil => simp at hp
  | cons q rest ih =>
    obtain ⟨k, v⟩ := q
    simp only [List.map_cons, List.nodup_cons] at hnd
    rcases List.mem_cons.1 hp with h | h
    · subst h; simp [List.lookup]
    · have hne : p.1 ≠ k := fun e => hnd.1 (e ▸ List.mem_map_of_mem h)
      have : (p.1 == k) = false := by rw [beq_eq_false_iff_ne]; exact hne
      simp only [List.lookup, this]
      exact ih hnd.2 h

theorem foldl_fit {L C D U : Type} (gd : L → D) (fc : C → D → L → U) (items : List (L × C)) (acc : List L × List U) :
    items.foldl (fun acc lc => (acc.1 ++ [lc.1], acc.2 ++ [fc lc.2 (gd lc.1) lc.1])) acc
      = (acc.1 ++ items.map Prod.fst, acc.2 ++ items.map fun lc => fc lc.2 (gd lc.1) lc.1) := by
  induction items generalizing acc with
  | nil => simp
  | cons x xs ih => simp [List.foldl_cons, ih, List.append_assoc]

theorem fitColumnsFrom_snd [BEq α] (j : Nat) (X : List (ι × List α)) :
    (fitColumnsFrom j X).2 = ((X.map Prod.snd).zipIdx j).map fun p => fitColumn p.2 p.1 := by
  induction X generalizing j with
  | nil => rfl
  | cons p rest ih => obtain ⟨name, col⟩ := p; simp [fitColumnsFrom, ih, List.zipIdx_cons]

end helpers

end CopVerif.GaussSampleGen
