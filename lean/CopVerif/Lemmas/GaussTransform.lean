import Mathlib.Data.List.Forall2
import Mathlib.Data.List.Perm.Basic
import Mathlib.Data.List.Nodup
import CopVerif.Model.GaussTransform
/-!
  Structural lemmas about `Model/GaussTransform.lean` (property C13): the generated glue over the
  pandas primitives computes, for a frame, the row-wise map of `rowPlan`; `rowPlan` depends on a row
  only through label lookup (`pick`), which is invariant under column permutations of a frame with
  distinct labels and ignores columns whose label is not a training column.
-/
set_option linter.unusedSectionVars false
namespace CopVerif.Model.GaussTransform
open CopVerif NumFns

/-! ### column_stack of row-wise blocks -/

theorem foldl_stack_rowwise {ρ β : Type} (rows : List ρ) (fs : List (Nat × (ρ → List β))) :
    ∀ (w0 : Nat) (g0 : ρ → List β),
      (fs.map fun f => (⟨f.1, rows.map f.2⟩ : Block β)).foldl
          (fun (acc b' : Block β) =>
            ({ width := acc.width + b'.width, rows := List.zipWith (· ++ ·) acc.rows b'.rows } : Block β))
          (⟨w0, rows.map g0⟩ : Block β)
        = (⟨(fs.map (·.1)).foldl (· + ·) w0, rows.map fun r => g0 r ++ fs.flatMap fun f => f.2 r⟩ : Block β) := by
  induction fs with
  | nil => intro w0 g0; simp
  | cons f fs ih =>
    intro w0 g0
    simp only [List.map_cons, List.foldl_cons]
    rw [List.zipWith_map_left, List.zipWith_map_right, List.zipWith_self, ih]
    simp [List.flatMap_cons, List.append_assoc]

section
variable {L α : Type} [DecidableEq L]

theorem pick_nil_of_not_mem {labels : List L} {l : L} (h : l ∉ labels) (r : List α) :
    pick labels l r = [] := by
  unfold pick
  rw [List.map_eq_nil_iff, List.filter_eq_nil_iff]
  intro c hc
  have : c.1 ∈ labels := (List.of_mem_zip hc).1
  simp only [decide_eq_true_eq]
  rintro rfl
  exact h this

variable [Add α] [Sub α] [Mul α] [Div α] [Neg α] [NumFns α]

/-- number of score columns: every training column present in `labels`, with its multiplicity. -/
def planWidth (m : GModel L) (labels : List L) : Nat :=
  ((((m.cols.zip (List.range m.cols.length)).filter fun cu => decide (cu.1 ∈ labels)).map
    fun cu => (labels.filter fun l' => l' = cu.1).length)).foldl (· + ·) 0

/-- `np.column_stack(U)` does not raise: some training column is present. -/
def anyPresent (m : GModel L) (labels : List L) : Bool := m.cols.any fun l => decide (l ∈ labels)

theorem filter_present_eq_nil_iff (m : GModel L) (labels : List L) :
    ((m.cols.zip (List.range m.cols.length)).filter fun cu => decide (cu.1 ∈ labels)) = [] ↔
      anyPresent m labels = false := by
  unfold anyPresent
  rw [List.filter_eq_nil_iff, List.any_eq_false]
  constructor
  · intro h l hl
    obtain ⟨i, hi, rfl⟩ := List.getElem_of_mem hl
    have hmem : (m.cols[i], i) ∈ m.cols.zip (List.range m.cols.length) := by
      rw [List.mem_iff_getElem]
      refine ⟨i, by simpa using hi, by simp⟩
    simpa using h _ hmem
  · intro h cu hcu
    have := h cu.1 (List.of_mem_zip hcu).1
    simpa using this

/-- the clipped-cdf block of one present training column (what the loop appends to `U`). -/
def blockOf (labels : List L) (rows : List (List α)) (cu : L × Nat) : Block (Term α) :=
  Block.map (Term.clip Gen.GaussTransform.clipLo Gen.GaussTransform.clipHi)
    (Block.map (fun x => Term.cdf cu.2 (Term.cell x)) (getitem ⟨labels, rows⟩ cu.1))

theorem stack_blocks (labels : List L) (rows : List (List α)) (F : List (L × Nat)) :
    (columnStack (F.map (blockOf labels rows)) >>= fun s => pure (Block.map Term.normppf s))
      = match F with
        | [] => .error .valueError
        | _ :: _ => .ok ⟨(F.map fun cu => (labels.filter fun l' => l' = cu.1).length).foldl (· + ·) 0,
            rows.map fun r => F.flatMap fun cj => (pick labels cj.1 r).map (scoreTerm cj.2)⟩ := by
  have hb : blockOf labels rows = fun cu : L × Nat =>
      (⟨(labels.filter fun l' => l' = cu.1).length, rows.map fun r => (pick labels cu.1 r).map fun x =>
        Term.clip Gen.GaussTransform.clipLo Gen.GaussTransform.clipHi (Term.cdf cu.2 (Term.cell x))⟩ :
        Block (Term α)) := by
    funext cu
    simp [blockOf, Block.map, getitem, List.map_map, Function.comp_def]
  cases F with
  | nil => simp [columnStack, bind, Except.bind]
  | cons c F =>
    have hstack := foldl_stack_rowwise (β := Term α) rows
      (F.map fun cu => ((labels.filter fun l' => l' = cu.1).length,
        fun r => (pick labels cu.1 r).map fun x =>
          Term.clip Gen.GaussTransform.clipLo Gen.GaussTransform.clipHi (Term.cdf cu.2 (Term.cell x))))
      (labels.filter fun l' => l' = c.1).length
      (fun r => (pick labels c.1 r).map fun x =>
          Term.clip Gen.GaussTransform.clipLo Gen.GaussTransform.clipHi (Term.cdf c.2 (Term.cell x)))
    rw [hb]
    simp only [List.map_cons, columnStack, bind, Except.bind, pure, Except.pure, Block.map,
      List.map_map, Function.comp_def] at hstack ⊢
    rw [hstack]
    simp [List.map_map, Function.comp_def, List.flatMap_cons, List.map_append,
      List.map_flatMap, List.flatMap_map]
    intro a _
    rfl

/-- **The generated glue, on a frame, is the row-wise map of `rowPlan`.** -/
theorem transformToNormal_frame (m : GModel L) (labels : List L) (rows : List (List α)) :
    transformToNormal m (.frame labels rows) =
      if anyPresent m labels then .ok ⟨planWidth m labels, rows.map (rowPlan m labels)⟩
      else .error .valueError := by
  have hkey := filter_present_eq_nil_iff m labels
  have hst := stack_blocks labels rows
    ((m.cols.zip (List.range m.cols.length)).filter fun cu => decide (cu.1 ∈ labels))
  refine Eq.trans (show transformToNormal m (.frame labels rows) = _ from ?_) (hst.trans ?_)
  · rfl
  -- rowPlan only sees the present columns
  have hrow : ∀ r : List α, rowPlan m labels r =
      ((m.cols.zip (List.range m.cols.length)).filter fun cu => decide (cu.1 ∈ labels)).flatMap
        fun cj => (pick labels cj.1 r).map (scoreTerm cj.2) := by
    intro r
    unfold rowPlan
    generalize (m.cols.zip (List.range m.cols.length)) = Z
    induction Z with
    | nil => rfl
    | cons z Z ih =>
      by_cases hz : z.1 ∈ labels
      · simp [hz, ih]
      · simp [hz, ih, pick_nil_of_not_mem hz]
  unfold planWidth
  generalize ((m.cols.zip (List.range m.cols.length)).filter fun cu => decide (cu.1 ∈ labels)) = F
    at hkey hrow ⊢
  cases F with
  | nil =>
    have : anyPresent m labels = false := hkey.mp rfl
    simp [this]
  | cons c F =>
    have : anyPresent m labels = true := by
      cases h : anyPresent m labels with
      | true => rfl
      | false => exact absurd (hkey.mpr h) (by simp)
    simp only [this, if_true]
    rw [funext hrow]

/-! ### fit stores the columns in TABLE order -/

theorem fitColumns_fst {L C D U : Type} (gd : L → D) (fc : C → D → L → U) (items : List (L × C)) :
    (Gen.GaussTransform.fitColumns items gd fc).1 = items.map (·.1) := by
  unfold Gen.GaussTransform.fitColumns
  have key : ∀ (items : List (L × C)) (acc : List L × List U),
      (items.foldl (fun acc lc => (acc.1 ++ [lc.1], acc.2 ++ [fc lc.2 (gd lc.1) lc.1])) acc).1
        = acc.1 ++ items.map (·.1) := by
    intro items
    induction items with
    | nil => intro acc; simp
    | cons x xs ih => intro acc; simp [List.foldl_cons, ih, List.append_assoc]
  simpa using key items ([], [])

theorem fitColumns_snd_length {L C D U : Type} (gd : L → D) (fc : C → D → L → U) (items : List (L × C)) :
    (Gen.GaussTransform.fitColumns items gd fc).2.length = items.length := by
  unfold Gen.GaussTransform.fitColumns
  have key : ∀ (items : List (L × C)) (acc : List L × List U),
      (items.foldl (fun acc lc => (acc.1 ++ [lc.1], acc.2 ++ [fc lc.2 (gd lc.1) lc.1])) acc).2.length
        = acc.2.length + items.length := by
    intro items
    induction items with
    | nil => intro acc; simp
    | cons x xs ih => intro acc; simp [List.foldl_cons, ih]; omega
  simpa using key items ([], [])

/-! ### the other container forms reduce to a frame -/

theorem transformToNormal_series (m : GModel L) (labels : List L) (row : List α) :
    transformToNormal m (.series labels row) = transformToNormal m (.frame labels [row]) := rfl

theorem transformToNormal_arr2 (m : GModel L) (rows : List (List α)) :
    transformToNormal m (.arr2 rows) =
      if rows.all (fun r => r.length = m.cols.length) then transformToNormal m (.frame m.cols rows)
      else .error .valueError := by
  by_cases h : rows.all (fun r => decide (r.length = m.cols.length)) = true
  · rw [if_pos h]
    show (Gen.GaussTransform.normalise prims m.cols (Container.arr2 rows) >>= _) =
      (Gen.GaussTransform.normalise prims m.cols (Container.frame m.cols rows) >>= _)
    have : Gen.GaussTransform.normalise (α := α) prims m.cols (Container.arr2 rows)
        = Gen.GaussTransform.normalise prims m.cols (Container.frame m.cols rows) := by
      simp [Gen.GaussTransform.normalise, prims, dataFrame, h]
    rw [this]
  · rw [if_neg h]
    show (Gen.GaussTransform.normalise prims m.cols (Container.arr2 rows) >>= _) = _
    have : Gen.GaussTransform.normalise (α := α) prims m.cols (Container.arr2 rows)
        = .error .valueError := by
      simp [Gen.GaussTransform.normalise, prims, dataFrame, h]
    rw [this]; rfl

theorem transformToNormal_arr1 (m : GModel L) (row : List α) :
    transformToNormal m (.arr1 row) = transformToNormal m (.arr2 [row]) := rfl

/-! ### the plan of a frame depends on it only through label lookup of the training columns -/

theorem transformToNormal_frame_congr (m : GModel L) {ls ls' : List L} {rows rows' : List (List α)}
    (hmem : ∀ l ∈ m.cols, (l ∈ ls' ↔ l ∈ ls))
    (hcnt : ∀ l ∈ m.cols, (ls'.filter fun l' => l' = l).length = (ls.filter fun l' => l' = l).length)
    (hrows : List.Forall₂ (fun r' r => ∀ l ∈ m.cols, pick ls' l r' = pick ls l r) rows' rows) :
    transformToNormal m (.frame ls' rows') = transformToNormal m (.frame ls rows) := by
  rw [transformToNormal_frame, transformToNormal_frame]
  have hany : anyPresent m ls' = anyPresent m ls := by
    unfold anyPresent
    rw [Bool.eq_iff_iff, List.any_eq_true, List.any_eq_true]
    constructor
    · rintro ⟨l, hl, h⟩; exact ⟨l, hl, by simpa [hmem l hl] using h⟩
    · rintro ⟨l, hl, h⟩; exact ⟨l, hl, by simpa [hmem l hl] using h⟩
  have hfilt : ((m.cols.zip (List.range m.cols.length)).filter fun cu => decide (cu.1 ∈ ls'))
      = ((m.cols.zip (List.range m.cols.length)).filter fun cu => decide (cu.1 ∈ ls)) := by
    apply List.filter_congr
    intro cu hcu
    simp [hmem cu.1 (List.of_mem_zip hcu).1]
  have hw : planWidth m ls' = planWidth m ls := by
    unfold planWidth
    rw [hfilt]
    congr 1
    apply List.map_congr_left
    intro cu hcu
    exact hcnt cu.1 (List.of_mem_zip (List.mem_of_mem_filter hcu)).1
  have hr : rows'.map (rowPlan m ls') = rows.map (rowPlan m ls) := by
    induction hrows with
    | nil => rfl
    | cons h _ ih =>
      simp only [List.map_cons, ih]
      congr 1
      unfold rowPlan
      apply List.flatMap_congr
      intro cj hcj
      rw [h cj.1 (List.of_mem_zip hcj).1]
  rw [hany, hw, hr]

/-! ### label lookup under a column permutation of a frame with distinct labels -/

theorem map_fst_zip_sublist {β γ : Type} : ∀ (ls : List β) (r : List γ), ((ls.zip r).map (·.1)).Sublist ls
  | [], _ => by simp
  | _ :: _, [] => by simp
  | a :: ls, b :: r => by simpa using (map_fst_zip_sublist ls r)

theorem length_le_one_of_nodup_const {β : Type} {xs : List β} {l : β} (hnd : xs.Nodup)
    (hall : ∀ x ∈ xs, x = l) : xs.length ≤ 1 := by
  match xs, hnd, hall with
  | [], _, _ => simp
  | [_], _, _ => simp
  | a :: b :: _, hnd, hall =>
    have ha : a = l := hall a (by simp)
    have hb : b = l := hall b (by simp)
    simp [ha, hb] at hnd

theorem filter_label_length_le_one {ls : List L} (hnd : ls.Nodup) (l : L) (r : List α) :
    ((ls.zip r).filter fun c => c.1 = l).length ≤ 1 := by
  have hsub : (((ls.zip r).filter fun c => decide (c.1 = l)).map (·.1)).Sublist ls :=
    ((List.filter_sublist).map _).trans (map_fst_zip_sublist ls r)
  have := length_le_one_of_nodup_const (l := l) (hnd.sublist hsub) (by
    intro x hx
    obtain ⟨c, hc, rfl⟩ := List.mem_map.mp hx
    simpa using (List.mem_filter.mp hc).2)
  simpa using this

theorem perm_eq_of_length_le_one {β : Type} {xs ys : List β} (h : xs.Perm ys) (hl : ys.length ≤ 1) :
    xs = ys := by
  match xs, ys, h, hl with
  | [], [], _, _ => rfl
  | [], _ :: _, h, _ => exact absurd h.length_eq (by simp)
  | _ :: _, [], h, _ => exact absurd h.length_eq (by simp)
  | [a], [b], h, _ => simpa using h
  | _ :: _ :: _, [_], h, _ => exact absurd h.length_eq (by simp)
  | _, _ :: _ :: _, _, hl => simp at hl

/-- label lookup sees a row only as a SET of labelled cells when the labels are distinct. -/
theorem pick_perm {ls ls' : List L} {r r' : List α} (hnd : ls.Nodup)
    (h : (ls'.zip r').Perm (ls.zip r)) (l : L) : pick ls' l r' = pick ls l r := by
  unfold pick
  have hp := (h.filter fun c => decide (c.1 = l))
  rw [perm_eq_of_length_le_one hp (filter_label_length_le_one hnd l r)]

/-- **Column permutations**: if every row of the second frame is, as a list of labelled cells, a
    permutation of the corresponding row of the first, whose labels are distinct, the plans are EQUAL. -/
theorem transformToNormal_perm (m : GModel L) {ls ls' : List L} {rows rows' : List (List α)}
    (hnd : ls.Nodup) (hls : ls'.Perm ls)
    (hrows : List.Forall₂ (fun r' r => (ls'.zip r').Perm (ls.zip r)) rows' rows) :
    transformToNormal m (.frame ls' rows') = transformToNormal m (.frame ls rows) := by
  apply transformToNormal_frame_congr
  · intro l _; exact hls.mem_iff
  · intro l _; exact (hls.filter _).length_eq
  · exact List.Forall₂.imp (fun _ _ h l _ => pick_perm hnd h l) hrows

/-! ### explicit column permutations and extra columns -/

/-- the list re-indexed by `σ` (positions out of range are dropped). -/
def reindex {β : Type} (σ : List Nat) (xs : List β) : List β := σ.filterMap fun i => xs[i]?

theorem reindex_range {β : Type} : ∀ xs : List β, reindex (List.range xs.length) xs = xs
  | [] => rfl
  | a :: xs => by
    have ih := reindex_range xs
    unfold reindex at ih ⊢
    rw [List.length_cons, List.range_succ_eq_map, List.filterMap_cons]
    simp only [List.getElem?_cons_zero, List.filterMap_map]
    congr 1

theorem reindex_perm {β : Type} {σ : List Nat} (xs : List β) (hσ : σ.Perm (List.range xs.length)) :
    (reindex σ xs).Perm xs := by
  have := hσ.filterMap fun i => xs[i]?
  rwa [show List.filterMap (fun i => xs[i]?) (List.range xs.length) = xs from reindex_range xs] at this

theorem reindex_zip {β γ : Type} (xs : List β) (ys : List γ) (hlen : xs.length = ys.length) :
    ∀ σ : List Nat, (∀ i ∈ σ, i < xs.length) → reindex σ (xs.zip ys) = (reindex σ xs).zip (reindex σ ys)
  | [], _ => rfl
  | i :: σ, h => by
    have hi : i < xs.length := h i (by simp)
    have ih := reindex_zip xs ys hlen σ (fun j hj => h j (by simp [hj]))
    unfold reindex at ih ⊢
    have hi' : i < ys.length := hlen ▸ hi
    have hz : i < (xs.zip ys).length := by rw [List.length_zip]; omega
    simp only [List.filterMap_cons, List.getElem?_eq_getElem hi, List.getElem?_eq_getElem hi',
      List.getElem?_eq_getElem hz, ih, List.zip_cons_cons, List.getElem_zip]

/-- **for EVERY permutation `σ` of the column positions** of a rectangular frame with distinct labels,
    re-ordering labels and every row by `σ` leaves the plan unchanged. -/
theorem transformToNormal_reindex (m : GModel L) (ls : List L) (rows : List (List α)) (σ : List Nat)
    (hnd : ls.Nodup) (hσ : σ.Perm (List.range ls.length)) (hrect : ∀ r ∈ rows, r.length = ls.length) :
    transformToNormal m (.frame (reindex σ ls) (rows.map (reindex σ))) = transformToNormal m (.frame ls rows) := by
  have hlt : ∀ i ∈ σ, i < ls.length := fun i hi => List.mem_range.mp (hσ.mem_iff.mp hi)
  apply transformToNormal_perm m hnd (reindex_perm ls hσ)
  rw [List.forall₂_map_left_iff]
  apply List.forall₂_same.mpr
  intro r hr
  have hl : ls.length = r.length := (hrect r hr).symm
  rw [← reindex_zip ls r hl σ hlt]
  apply reindex_perm
  rwa [List.length_zip, ← hl, Nat.min_self]

theorem zip_map_fst_map_snd {β γ : Type} : ∀ l : List (β × γ), (l.map (·.1)).zip (l.map (·.2)) = l
  | [] => rfl
  | _ :: l => by simp [zip_map_fst_map_snd l]

/-- deleting the columns whose label is not a training column does not change label lookup. -/
theorem pick_filter_cols (m : GModel L) (ls : List L) (r : List α) {l : L} (hl : l ∈ m.cols) :
    pick (((ls.zip r).filter fun c => decide (c.1 ∈ m.cols)).map (·.1)) l
        (((ls.zip r).filter fun c => decide (c.1 ∈ m.cols)).map (·.2)) = pick ls l r := by
  unfold pick
  rw [zip_map_fst_map_snd, List.filter_filter]
  congr 1
  apply List.filter_congr
  intro c _
  by_cases h : c.1 = l
  · simp [h, hl]
  · simp [h]

theorem filter_zip_map_fst {β γ : Type} (p : β → Bool) :
    ∀ (ls : List β) (r : List γ), ls.length ≤ r.length →
      ((ls.zip r).filter fun c => p c.1).map (·.1) = ls.filter p
  | [], _, _ => by simp
  | _ :: _, [], h => by simp at h
  | a :: ls, b :: r, h => by
    have ih := filter_zip_map_fst p ls r (by simpa using h)
    by_cases ha : p a <;> simp [ha, ih]

/-- the frame with the non-training columns deleted. -/
def dropExtra (m : GModel L) (ls : List L) (rows : List (List α)) : Container L α :=
  .frame (ls.filter fun l => decide (l ∈ m.cols))
    (rows.map fun r => ((ls.zip r).filter fun c => decide (c.1 ∈ m.cols)).map (·.2))

/-- **Extra columns are ignored**: the plan of a (rectangular) frame equals the plan of the frame with
    every column whose label is not a training column deleted. -/
theorem transformToNormal_dropExtra (m : GModel L) (ls : List L) (rows : List (List α))
    (hrect : ∀ r ∈ rows, r.length = ls.length) :
    transformToNormal m (dropExtra m ls rows) = transformToNormal m (.frame ls rows) := by
  unfold dropExtra
  apply transformToNormal_frame_congr
  · intro l hl; simp [hl]
  · intro l hl
    rw [List.filter_filter]
    congr 1
    apply List.filter_congr
    intro l' _
    by_cases h : l' = l
    · simp [h, hl]
    · simp [h]
  · rw [List.forall₂_map_left_iff]
    apply List.forall₂_same.mpr
    intro r hr l hl
    rw [← filter_zip_map_fst (fun l => decide (l ∈ m.cols)) ls r (Nat.le_of_eq (hrect r hr).symm)]
    exact pick_filter_cols m ls r hl

/-! ### the well-formed case: distinct labels containing every training column -/

theorem foldl_add_ones {β : Type} (f : β → Nat) : ∀ (xs : List β) (a : Nat), (∀ x ∈ xs, f x = 1) →
    (xs.map f).foldl (· + ·) a = a + xs.length
  | [], a, _ => by simp
  | x :: xs, a, h => by
    have hx : f x = 1 := h x (by simp)
    have := foldl_add_ones f xs (a + 1) (fun y hy => h y (by simp [hy]))
    simp only [List.map_cons, List.foldl_cons, hx, this, List.length_cons]
    omega

theorem count_label_eq_one {ls : List L} (hnd : ls.Nodup) {l : L} (hl : l ∈ ls) :
    (ls.filter fun l' => decide (l' = l)).length = 1 := by
  have h1 : (ls.filter fun l' => decide (l' = l)).length ≤ 1 :=
    length_le_one_of_nodup_const (l := l) (hnd.sublist List.filter_sublist)
      (fun x hx => by simpa using (List.mem_filter.mp hx).2)
  have h2 : l ∈ ls.filter fun l' => decide (l' = l) := List.mem_filter.mpr ⟨hl, by simp⟩
  have := List.length_pos_of_mem h2
  omega

theorem planWidth_eq (m : GModel L) {ls : List L} (hnd : ls.Nodup) (hall : ∀ l ∈ m.cols, l ∈ ls) :
    planWidth m ls = m.cols.length := by
  unfold planWidth
  have hf : ((m.cols.zip (List.range m.cols.length)).filter fun cu => decide (cu.1 ∈ ls))
      = m.cols.zip (List.range m.cols.length) := by
    rw [List.filter_eq_self]
    intro cu hcu
    simpa using hall cu.1 (List.of_mem_zip hcu).1
  rw [hf, foldl_add_ones _ _ 0 (fun cu hcu => count_label_eq_one hnd (hall cu.1 (List.of_mem_zip hcu).1))]
  simp

theorem anyPresent_of_all (m : GModel L) {ls : List L} (hne : m.cols ≠ []) (hall : ∀ l ∈ m.cols, l ∈ ls) :
    anyPresent m ls = true := by
  unfold anyPresent
  obtain ⟨l, hl⟩ := List.exists_mem_of_ne_nil _ hne
  exact List.any_eq_true.mpr ⟨l, hl, by simpa using hall l hl⟩

/-! ### the density methods on a frame -/

/-- the row handed to `MVNPDF` (numpy broadcasting of a one-column score matrix). -/
def shapeRow {β : Type} (d w : Nat) (row : List β) : List β :=
  if w = d then row else row.flatMap fun t => List.replicate d t

theorem pdfPlan_frame (m : GModel L) (ls : List L) (rows : List (List α)) :
    pdfPlan m (.frame ls rows) =
      if !m.fitted then .error .notFitted
      else if !anyPresent m ls then .error .valueError
      else if planWidth m ls = m.corr.dim ∨ planWidth m ls = 1 then
        .ok (rows.map fun r => RTerm.mvnpdf true (shapeRow m.corr.dim (planWidth m ls) (rowPlan m ls r)))
      else .error .valueError := by
  unfold pdfPlan Gen.GaussTransform.probabilityDensity
  rw [transformToNormal_frame]
  cases hf : m.fitted <;> cases ha : anyPresent m ls <;>
    simp [checkFit, hf, bind, Except.bind, mvnPdfBatch, shapeRow, Function.comp_def]
  by_cases h1 : planWidth m ls = m.corr.dim
  · simp [h1]
  · by_cases h2 : planWidth m ls = 1
    · by_cases h3 : 1 = m.corr.dim
      · exact absurd (h2.trans h3) h1
      · simp [h2, h3]
    · simp [h1, h2]

theorem cdfPlan_frame (m : GModel L) (ls : List L) (rows : List (List α)) :
    cdfPlan m (.frame ls rows) =
      if !m.fitted then .error .notFitted
      else if !anyPresent m ls then .error .valueError
      else if m.corr.singular && !Gen.GaussTransform.cdfAllowSingular then .error .valueError
      else if planWidth m ls = m.corr.dim ∧ rows ≠ [] then
        .ok (rows.map fun r => RTerm.mvncdf Gen.GaussTransform.cdfAllowSingular (rowPlan m ls r))
      else .error .valueError := by
  unfold cdfPlan Gen.GaussTransform.cumulativeDistribution
  rw [transformToNormal_frame]
  cases hf : m.fitted <;> cases ha : anyPresent m ls <;>
    simp [checkFit, hf, bind, Except.bind, mvnCdfBatch, Function.comp_def]
  by_cases hs : m.corr.singular = true ∧ Gen.GaussTransform.cdfAllowSingular = false
  · simp [hs]
  · by_cases h1 : planWidth m ls = m.corr.dim
    · cases rows <;> simp [hs, h1]
    · simp [hs, h1]

theorem logPdfPlan_eq (m : GModel L) (x : Container L α) :
    logPdfPlan m x = (pdfPlan m x).map fun ys => ys.map RTerm.log := by
  unfold logPdfPlan Gen.GaussTransform.logProbabilityDensity
  cases pdfPlan m x <;> rfl

/-- the three density methods see `X` only through `_transform_to_normal(X)`. -/
theorem densities_congr (m : GModel L) {x y : Container L α}
    (h : transformToNormal m x = transformToNormal m y) :
    pdfPlan m x = pdfPlan m y ∧ cdfPlan m x = cdfPlan m y ∧ logPdfPlan m x = logPdfPlan m y := by
  have hp : pdfPlan m x = pdfPlan m y := by
    unfold pdfPlan Gen.GaussTransform.probabilityDensity; rw [h]
  refine ⟨hp, ?_, ?_⟩
  · unfold cdfPlan Gen.GaussTransform.cumulativeDistribution; rw [h]
  · rw [logPdfPlan_eq, logPdfPlan_eq, hp]
end
end CopVerif.Model.GaussTransform
