import Mathlib.Data.List.Forall2
import Mathlib.Data.List.Perm.Basic
import Mathlib.Data.List.Nodup
import CopVerif.Model.GaussTransform
/-!
  Structural lemmas about `Model/GaussTransform.lean` (property C13): the generated glue over the
  pandas primitives computes, for a frame, the row-wise map of `rowPlan`; `rowPlan` depends on a row
  only through label lookup (`pick`), which is invariant under column permutations of a frame with
  distinct labels and ignores columns whose label is not a training column.
-/
namespace CopVerif.Model.GaussTransform
open CopVerif NumFns

/-! ### column_stack of row-wise blocks -/

theorem foldl_stack_rowwise {ρ β : Type} (rows : List ρ) (fs : List (Nat × (ρ → List β))) :
    ∀ (w0 : Nat) (g0 : ρ → List β),
      (fs.map fun f => (⟨f.1, rows.map f.2⟩ : Block β)).foldl
          (fun (acc b' : Block β) =>
            ({ width := acc.width + b'.width, rows := List.zipWith (· ++ ·) acc.rows b'.rows } : Block β))
          (⟨w0, rows.map g0⟩ : Block β)
        = (⟨(fs.map (·.1)).foldl (· + ·) w0, rows.map fun r => g0 r ++ fs.flatMap fun f => f.2 r⟩ : Block β) := by
  induction fs with
  | nil => intro w0 g0; simp
  | cons f fs ih =>
    intro w0 g0
    simp only [List.map_cons, List.foldl_cons]
    rw [List.zipWith_map_left, List.zipWith_map_right, List.zipWith_self, ih]
    simp [List.flatMap_cons, List.append_assoc]

section
variable {L α : Type} [DecidableEq L]

theorem pick_nil_of_not_mem {labels : List L} {l : L} (h : l ∉ labels) (r : List α) :
    pick labels l r = [] := by
  unfold pick
  rw [List.map_eq_nil_iff, List.filter_eq_nil_iff]
  intro c hc
  have : c.1 ∈ labels := (List.of_mem_zip hc).1
  simp only [decide_eq_true_eq]
  rintro rfl
  exact h this

variable [Add α] [Sub α] [Mul α] [Div α] [Neg α] [NumFns α]

/-- number of score columns: every training column present in `labels`, with its multiplicity. -/
def planWidth (m : GModel L) (labels : List L) : Nat :=
  ((((m.cols.zip (List.range m.cols.length)).filter fun cu => decide (cu.1 ∈ labels)).map
    fun cu => (labels.filter fun l' => l' = cu.1).length)).foldl (· + ·) 0

/-- `np.column_stack(U)` does not raise: some training column is present. -/
def anyPresent (m : GModel L) (labels : List L) : Bool := m.cols.any fun l => decide (l ∈ labels)

theorem filter_present_eq_nil_iff (m : GModel L) (labels : List L) :
    ((m.cols.zip (List.range m.cols.length)).filter fun cu => decide (cu.1 ∈ labels)) = [] ↔
      anyPresent m labels = false := by
  unfold anyPresent
  rw [List.filter_eq_nil_iff, List.any_eq_false]
  constructor
  · intro h l hl
    obtain ⟨i, hi, rfl⟩ := List.getElem_of_mem hl
    have hmem : (m.cols[i], i) ∈ m.cols.zip (List.range m.cols.length) := by
      rw [List.mem_iff_getElem]
      refine ⟨i, by simpa using hi, by simp⟩
    simpa using h _ hmem
  · intro h cu hcu
    have := h cu.1 (List.of_mem_zip hcu).1
    simpa using this

/-- the clipped-cdf block of one present training column (what the loop appends to `U`). -/
def blockOf (labels : List L) (rows : List (List α)) (cu : L × Nat) : Block (Term α) :=
  Block.map (Term.clip Gen.GaussTransform.clipLo Gen.GaussTransform.clipHi)
    (Block.map (fun x => Term.cdf cu.2 (Term.cell x)) (getitem ⟨labels, rows⟩ cu.1))

theorem stack_blocks (labels : List L) (rows : List (List α)) (F : List (L × Nat)) :
    (columnStack (F.map (blockOf labels rows)) >>= fun s => pure (Block.map Term.normppf s))
      = match F with
        | [] => .error .valueError
        | _ :: _ => .ok ⟨(F.map fun cu => (labels.filter fun l' => l' = cu.1).length).foldl (· + ·) 0,
            rows.map fun r => F.flatMap fun cj => (pick labels cj.1 r).map (scoreTerm cj.2)⟩ := by
  cases F with
  | nil => simp [columnStack, bind, Except.bind]
  | cons c F =>
    have hstack := foldl_stack_rowwise (β := Term α) rows
      (F.map fun cu => ((labels.filter fun l' => l' = cu.1).length,
        fun r => (pick labels cu.1 r).map fun x =>
          Term.clip Gen.GaussTransform.clipLo Gen.GaussTransform.clipHi (Term.cdf cu.2 (Term.cell x))))
      (labels.filter fun l' => l' = c.1).length
      (fun r => (pick labels c.1 r).map fun x =>
          Term.clip Gen.GaussTransform.clipLo Gen.GaussTransform.clipHi (Term.cdf c.2 (Term.cell x)))
    simp only [List.map_cons, columnStack, bind, Except.bind, pure, Except.pure, Block.map, getitem,
      List.map_map, Function.comp_def, blockOf] at hstack ⊢
    rw [hstack]
    simp [List.map_map, Function.comp_def, List.flatMap_cons, List.map_append,
      List.map_flatMap, scoreTerm, List.flatMap_map]

/-- **The generated glue, on a frame, is the row-wise map of `rowPlan`.** -/
theorem transformToNormal_frame (m : GModel L) (labels : List L) (rows : List (List α)) :
    transformToNormal m (.frame labels rows) =
      if anyPresent m labels then .ok ⟨planWidth m labels, rows.map (rowPlan m labels)⟩
      else .error .valueError := by
  have hkey := filter_present_eq_nil_iff m labels
  have hst := stack_blocks labels rows
    ((m.cols.zip (List.range m.cols.length)).filter fun cu => decide (cu.1 ∈ labels))
  refine Eq.trans (show transformToNormal m (.frame labels rows) = _ from ?_) (hst.trans ?_)
  · rfl
  -- rowPlan only sees the present columns
  have hrow : ∀ r : List α, rowPlan m labels r =
      ((m.cols.zip (List.range m.cols.length)).filter fun cu => decide (cu.1 ∈ labels)).flatMap
        fun cj => (pick labels cj.1 r).map (scoreTerm cj.2) := by
    intro r
    unfold rowPlan
    generalize (m.cols.zip (List.range m.cols.length)) = Z
    induction Z with
    | nil => rfl
    | cons z Z ih =>
      by_cases hz : z.1 ∈ labels
      · simp [hz, ih]
      · simp [hz, ih, pick_nil_of_not_mem hz]
  unfold planWidth
  generalize ((m.cols.zip (List.range m.cols.length)).filter fun cu => decide (cu.1 ∈ labels)) = F
    at hkey hrow ⊢
  cases F with
  | nil =>
    have : anyPresent m labels = false := hkey.mp rfl
    simp [this]
  | cons c F =>
    have : anyPresent m labels = true := by
      cases h : anyPresent m labels with
      | true => rfl
      | false => exact absurd (hkey.mpr h) (by simp)
    simp only [this, if_true, hrow]
end
end CopVerif.Model.GaussTransform
