import Mathlib.LinearAlgebra.Matrix.Block
import Mathlib.LinearAlgebra.Matrix.NonsingularInverse
import Mathlib.Data.List.OfFn
import CopVerif.Lemmas.CholeskyPD
/-!
  The executable Cholesky form of the zero-mean MVN density IS the textbook `N(0, A)` density
  (property C13b).  With `Am = Matrix.of fun i j : Fin d => ent A i j` and `Lm` likewise for the
  factor returned by `cholesky A`:

  * `IsChol.mat_eq`: `Am = Lm * Lmᵀ`; `IsChol.det_l`: `det Lm = ∏ L_ii` (lower triangular), hence
    `IsChol.det_a`: `det Am = (∏ L_ii)²` and `IsChol.prodL_diag`: the model's `prodL (diag L)` is
    that product;
  * `IsChol.maha_eq`: forward substitution solves `Lm y = z`, so the model's
    `maha L z = yᵀy = zᵀ Am⁻¹ z` (`Am⁻¹ = Lm⁻ᵀ Lm⁻¹`);
  * `mvnPdfChol_textbook`, `mvnLogPdfChol_textbook`: the two closed forms.
-/
set_option linter.unusedSectionVars false
namespace CopVerif.Model.GaussTransform
open CopVerif NumFns Finset Matrix

/-- what `cholesky_of_posDef` proves of the returned factor. -/
structure IsChol (A L : List (List ℝ)) (d : ℕ) : Prop where
  len : L.length = d
  rows : RowsOK L
  tri : ∀ i j, i < j → ent L i j = 0
  pos : ∀ i, i < d → 0 < ent L i i
  mul : ∀ i j, i < d → j < d → ∑ m ∈ range d, ent L i m * ent L j m = ent A i j

/-- for a symmetric positive definite `A`, whatever `cholesky A` returns is its Cholesky factor. -/
theorem isChol_of_posDef {A L : List (List ℝ)} {d : ℕ} (hrows : A.length = d)
    (hcols : ∀ r ∈ A, r.length = d) (hsym : ∀ i j : Fin d, ent A i j = ent A j i)
    (hpd : ∀ x : Fin d → ℝ, x ≠ 0 → 0 < ∑ i : Fin d, ∑ j : Fin d, x i * ent A i j * x j)
    (hL : cholesky A = some L) : IsChol A L d := by
  obtain ⟨L', hL', h1, h2, h3, h4, h5⟩ := cholesky_of_posDef hrows hcols hsym hpd
  obtain rfl : L' = L := Option.some.inj (hL'.symm.trans hL)
  exact ⟨h1, h2, h3, h4, h5⟩

theorem prodL_eq_prod (xs : List ℝ) : prodL xs = xs.prod := by
  unfold prodL
  rw [ofNat_real, Nat.cast_one, List.prod_eq_foldl]

theorem prodL_replicate (n : ℕ) (τ : ℝ) : prodL (List.replicate n τ) = τ ^ n := by
  rw [prodL_eq_prod, List.prod_replicate]

namespace IsChol
variable {A L : List (List ℝ)} {d : ℕ}

theorem mat_eq (h : IsChol A L d) :
    (Matrix.of fun i j : Fin d => ent A i j)
      = (Matrix.of fun i j : Fin d => ent L i j) * (Matrix.of fun i j : Fin d => ent L i j)ᵀ := by
  ext i j
  simp only [Matrix.of_apply, Matrix.mul_apply, Matrix.transpose_apply]
  rw [← h.mul i j i.2 j.2, Finset.sum_range]

theorem det_l (h : IsChol A L d) :
    (Matrix.of fun i j : Fin d => ent L i j).det = ∏ i : Fin d, ent L i i := by
  rw [Matrix.det_of_isLowerTriangular]
  · rfl
  · intro i j hij
    exact h.tri i j (by simpa using hij)

theorem prod_pos (h : IsChol A L d) : 0 < ∏ i : Fin d, ent L i i :=
  Finset.prod_pos fun i _ => h.pos i i.2

theorem det_a (h : IsChol A L d) :
    (Matrix.of fun i j : Fin d => ent A i j).det
      = (∏ i : Fin d, ent L i i) * (∏ i : Fin d, ent L i i) := by
  rw [h.mat_eq, Matrix.det_mul, Matrix.det_transpose, h.det_l]

theorem det_a_pos (h : IsChol A L d) : 0 < (Matrix.of fun i j : Fin d => ent A i j).det := by
  rw [h.det_a]; exact mul_pos h.prod_pos h.prod_pos

/-- the model's `Π L_ii` is the product of the diagonal of the matrix `Lm`. -/
theorem prodL_diag (h : IsChol A L d) : prodL (diag L) = ∏ i : Fin d, ent L i i := by
  obtain ⟨hlen, hR, -, -, -⟩ := h
  subst hlen
  rw [prodL_eq_prod, diag, ← List.ofFn_getElem_eq_map, List.prod_ofFn]
  refine Finset.prod_congr rfl fun i _ => ?_
  exact hR.last i.2

theorem diagPos (h : IsChol A L d) : DiagPos L := by
  intro r hr
  obtain ⟨i, hi, rfl⟩ := List.getElem_of_mem hr
  rw [h.rows.last hi]
  exact h.pos i (h.len ▸ hi)

/-- **the Mahalanobis form computed by forward substitution is `zᵀ A⁻¹ z`.** -/
theorem maha_eq (h : IsChol A L d) (z : List ℝ) (hz : z.length = d) :
    maha L z = (fun i : Fin d => z.getD i 0) ⬝ᵥ
      ((Matrix.of fun i j : Fin d => ent A i j)⁻¹ *ᵥ fun i : Fin d => z.getD i 0) := by
  obtain ⟨hlen, hfw⟩ := forward_spec L z h.rows (by rw [h.len, hz])
    (fun j hj => (h.pos j (h.len ▸ hj)).ne')
  have hMy : (Matrix.of fun i j : Fin d => ent L i j) *ᵥ (fun i : Fin d => (forward L z).getD i 0)
      = fun i : Fin d => z.getD i 0 := by
    funext j
    simp only [Matrix.mulVec, dotProduct, Matrix.of_apply]
    rw [← hfw j (by rw [h.len]; exact j.2),
      sum_tri_extend h.tri (fun m => (forward L z).getD m 0) j.2, Finset.sum_range]
    exact Finset.sum_congr rfl fun m _ => mul_comm _ _
  have hmaha : maha L z = (fun i : Fin d => (forward L z).getD i 0) ⬝ᵥ
      (fun i : Fin d => (forward L z).getD i 0) := by
    unfold maha
    simp only
    rw [dot_eq_sum _ _ d (by rw [hlen, h.len, min_self]), Finset.sum_range]
    rfl
  have hdet : IsUnit (Matrix.of fun i j : Fin d => ent L i j).det := by
    rw [h.det_l]; exact h.prod_pos.ne'.isUnit
  have hdet' : IsUnit (Matrix.of fun i j : Fin d => ent L i j)ᵀ.det := by
    rwa [Matrix.det_transpose]
  rw [hmaha, h.mat_eq, Matrix.mul_inv_rev, ← hMy, Matrix.mulVec_mulVec, Matrix.mul_assoc,
    Matrix.nonsing_inv_mul _ hdet, Matrix.mul_one, ← Matrix.vecMul_transpose,
    ← Matrix.dotProduct_mulVec, Matrix.mulVec_mulVec, Matrix.mul_nonsing_inv _ hdet',
    Matrix.one_mulVec]

/-- the normalising constant: `τ^d · (Π L_ii)² = τ^d · det A`. -/
theorem norm_const (h : IsChol A L d) (τ : ℝ) :
    prodL (List.replicate L.length τ) * (prodL (diag L) * prodL (diag L))
      = τ ^ d * (Matrix.of fun i j : Fin d => ent A i j).det := by
  rw [prodL_replicate, h.len, h.prodL_diag, h.det_a]

/-- **the executable density is the textbook `N(0, A)` density** `exp(-½ zᵀA⁻¹z)/√(τ^d det A)`. -/
theorem mvnPdfChol_textbook (h : IsChol A L d) (τ : ℝ) (z : List ℝ) (hz : z.length = d) :
    mvnPdfChol τ L z = Real.exp (-(1 / 2) * ((fun i : Fin d => z.getD i 0) ⬝ᵥ
        ((Matrix.of fun i j : Fin d => ent A i j)⁻¹ *ᵥ fun i : Fin d => z.getD i 0))) /
      Real.sqrt (τ ^ d * (Matrix.of fun i j : Fin d => ent A i j).det) := by
  unfold mvnPdfChol
  rw [h.norm_const, h.maha_eq z hz, exp_real, sqrt_real, ofNat_real]
  congr 2
  push_cast
  ring

/-- the log form: `-(d/2) log τ - ½ log det A - ½ zᵀA⁻¹z`. -/
theorem mvnLogPdfChol_textbook (h : IsChol A L d) (τ : ℝ) (z : List ℝ) (hz : z.length = d) :
    mvnLogPdfChol τ L z = -((d : ℝ) / 2) * Real.log τ
      - (1 / 2) * Real.log (Matrix.of fun i j : Fin d => ent A i j).det
      - (1 / 2) * ((fun i : Fin d => z.getD i 0) ⬝ᵥ
        ((Matrix.of fun i j : Fin d => ent A i j)⁻¹ *ᵥ fun i : Fin d => z.getD i 0)) := by
  unfold mvnLogPdfChol
  have hlog : (NumFns.log : ℝ → ℝ) = Real.log := rfl
  have hP : 0 < prodL (diag L) := by rw [h.prodL_diag]; exact h.prod_pos
  have hsum : sumL ((diag L).map Real.log) = Real.log (prodL (diag L)) := by
    rw [prodL_eq_exp (diag_pos h.diagPos), Real.log_exp]
  rw [h.maha_eq z hz, hlog, hsum, h.det_a, ← h.prodL_diag, Real.log_mul hP.ne' hP.ne', h.len]
  simp only [ofNat_real]
  push_cast
  ring

end IsChol
end CopVerif.Model.GaussTransform
