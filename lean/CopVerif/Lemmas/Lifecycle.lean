import CopVerif.Model.Lifecycle
/-!
# Lemmas about the life-cycle model (property C19) — core Lean, no Mathlib

* structural facts about `fit` / `fitAll` (what a fit never changes; snoc form of a history);
* `Repaired`: a fit is a function of (class, kind, constructor options, data) — `fit_repaired_congr`;
* `AsFound`: the invariant `Inv` linking the option attributes / overrides of the instance to the
  history of datasets it has seen, and the predicate `Safe` describing the histories after which the
  as-found code still behaves like a fresh fit;
* the free ("Herbrand") fitters used for the closed counter-examples;
* `get_instance` / `construct` facts.
-/
namespace CopVerif.Model.Lifecycle
open CopVerif

section
variable {C V O P D : Type}

/-! ## structure -/

theorem fit_cls (v : Variant) (ops : DataOps D V) (F : Fitters C V O P D) (s : UState C V O P) (x : D) :
    (fit v ops F s x).cls = s.cls ∧ (fit v ops F s x).kind = s.kind ∧ (fit v ops F s x).ctor = s.ctor ∧
    (fit v ops F s x).fitted = true := by
  unfold fit
  cases h : ops.const? x <;> simp

theorem fitAll_cls (v : Variant) (ops : DataOps D V) (F : Fitters C V O P D) (xs : List D) :
    ∀ s : UState C V O P, (fitAll v ops F s xs).cls = s.cls ∧ (fitAll v ops F s xs).kind = s.kind ∧
      (fitAll v ops F s xs).ctor = s.ctor := by
  induction xs with
  | nil => intro s; exact ⟨rfl, rfl, rfl⟩
  | cons x xs ih =>
    intro s
    obtain ⟨a, b, c⟩ := ih (fit v ops F s x)
    obtain ⟨a', b', c', _⟩ := fit_cls v ops F s x
    exact ⟨a.trans a', b.trans b', c.trans c'⟩

theorem fitAll_snoc (v : Variant) (ops : DataOps D V) (F : Fitters C V O P D) (xs : List D) (x : D) :
    ∀ s : UState C V O P, fitAll v ops F s (xs ++ [x]) = fit v ops F (fitAll v ops F s xs) x := by
  induction xs with
  | nil => intro s; rfl
  | cons y ys ih => intro s; exact ih (fit v ops F s y)

/-! ## Repaired: a fit does not read what earlier fits left behind -/

theorem fit_repaired_congr (ops : DataOps D V) (F : Fitters C V O P D) (s s' : UState C V O P) (x : D)
    (hc : s.cls = s'.cls) (hk : s.kind = s'.kind) (ho : s.ctor = s'.ctor) :
    fit .repaired ops F s x = fit .repaired ops F s' x := by
  unfold fit
  simp only [hc, hk, ho, Variant.repaired_keepOverride, Variant.repaired_rememberBounds,
    Variant.repaired_cacheSize]
  rfl

/-! ## AsFound: what a history leaves on the instance -/

/-- state reached from a fresh object built with options `o` after the datasets `h`. -/
structure Inv (ops : DataOps D V) (o : Opts V O) (h : List D) (s : UState C V O P) : Prop where
  ctor : s.ctor = o
  /-- no constant dataset so far ⇒ no constant methods on the instance. -/
  override : (∀ y ∈ h, ops.const? y = none) → s.override = none
  /-- `self.min` is the constructor's, or (constructor gave none) that of a non-constant dataset seen. -/
  min : s.min = o.min ∨ (o.min = none ∧ ∃ y ∈ h, ops.const? y = none ∧ s.min = some (ops.lo y))
  max : s.max = o.max ∨ (o.max = none ∧ ∃ y ∈ h, ops.const? y = none ∧ s.max = some (ops.hi y))
  /-- `self._sample_size` is the constructor's, or (constructor's falsy) the length of a
      non-constant dataset seen. -/
  size : s.sampleSize = o.sampleSize ∨
    (truthy o.sampleSize = none ∧ ∃ y ∈ h, ops.const? y = none ∧ s.sampleSize = some (ops.len y))
  /-- nothing non-constant seen ⇒ option attributes untouched. -/
  untouched : (∀ y ∈ h, ops.const? y ≠ none) → s.min = o.min ∧ s.max = o.max ∧ s.sampleSize = o.sampleSize

theorem inv_fresh (ops : DataOps D V) (c : C) (k : Kind) (o : Opts V O) :
    Inv ops o [] (UState.fresh (P := P) c k o) :=
  ⟨rfl, fun _ => rfl, .inl rfl, .inl rfl, .inl rfl, fun _ => ⟨rfl, rfl, rfl⟩⟩

theorem truthy_orLen (ss : Option Nat) (n : Nat) (h : truthy ss ≠ none) : some (orLen ss n) = ss := by
  unfold orLen
  cases ss with
  | none => simp [truthy] at h
  | some k => cases k with
    | zero => simp [truthy] at h
    | succ k => simp [truthy]

theorem orLen_falsy (ss : Option Nat) (n : Nat) (h : truthy ss = none) : orLen ss n = n := by
  unfold orLen; rw [h]

theorem inv_step (ops : DataOps D V) (F : Fitters C V O P D) (o : Opts V O) (h : List D)
    (s : UState C V O P) (x : D) (hi : Inv ops o h s) :
    Inv ops o (h ++ [x]) (fit .asFound ops F s x) := by
  obtain ⟨hc, hov, hmin, hmax, hsz, hun⟩ := hi
  have memL : ∀ {p : D → Prop}, (∀ y ∈ h ++ [x], p y) → (∀ y ∈ h, p y) := fun H y hy =>
    H y (List.mem_append.2 (.inl hy))
  have memX : x ∈ h ++ [x] := List.mem_append.2 (.inr (List.mem_singleton.2 rfl))
  have lift : ∀ {p : D → Prop}, (∃ y ∈ h, p y) → ∃ y ∈ h ++ [x], p y := fun ⟨y, hy, hp⟩ =>
    ⟨y, List.mem_append.2 (.inl hy), hp⟩
  cases hx : ops.const? x with
  | some c =>
    have e : fit .asFound ops F s x =
        ⟨s.cls, s.kind, s.ctor, true, some (F.fitConst s.cls (constSize s.kind s.sampleSize (ops.len x)) x),
         some c, s.min, s.max, s.sampleSize⟩ := by
      unfold fit; simp [hx]
    rw [e]
    refine ⟨hc, ?_, ?_, ?_, ?_, ?_⟩
    · intro H; have := H x memX; rw [hx] at this; cases this
    · rcases hmin with a | ⟨a, b⟩
      · exact .inl a
      · exact .inr ⟨a, by obtain ⟨y, hy, p1, p2⟩ := b; exact ⟨y, List.mem_append.2 (.inl hy), p1, p2⟩⟩
    · rcases hmax with a | ⟨a, b⟩
      · exact .inl a
      · exact .inr ⟨a, by obtain ⟨y, hy, p1, p2⟩ := b; exact ⟨y, List.mem_append.2 (.inl hy), p1, p2⟩⟩
    · rcases hsz with a | ⟨a, b⟩
      · exact .inl a
      · exact .inr ⟨a, by obtain ⟨y, hy, p1, p2⟩ := b; exact ⟨y, List.mem_append.2 (.inl hy), p1, p2⟩⟩
    · intro H; exact hun (memL H)
  | none =>
    have e : fit .asFound ops F s x =
        ⟨s.cls, s.kind, s.ctor, true,
         some (F.fitFn s.cls (effOpts s.kind
            (stepBound s.kind s.min (ops.lo x))
            (stepBound s.kind s.max (ops.hi x))
            s.sampleSize s.ctor.other) x),
         s.override,
         (stepBound s.kind s.min (ops.lo x)),
         (stepBound s.kind s.max (ops.hi x)),
         (stepSize s.kind s.sampleSize (ops.len x))⟩ := by
      unfold fit; simp [hx]
    rw [e]
    refine ⟨hc, ?_, ?_, ?_, ?_, ?_⟩
    · intro H; exact hov (memL H)
    · show (stepBound s.kind s.min (ops.lo x)) = o.min ∨ _
      cases hk : s.kind <;> simp only [stepBound]
      · rcases hmin with a | ⟨a, b⟩
        · exact .inl a
        · exact .inr ⟨a, lift b⟩
      · rcases hmin with a | ⟨a, y, hy, p1, p2⟩
        · cases hm : o.min with
          | some m => left; rw [a, hm]; rfl
          | none => right; exact ⟨rfl, x, memX, hx, by rw [a, hm]; rfl⟩
        · right; exact ⟨a, y, List.mem_append.2 (.inl hy), p1, by rw [p2]; rfl⟩
      · rcases hmin with a | ⟨a, b⟩
        · exact .inl a
        · exact .inr ⟨a, lift b⟩
    · show (stepBound s.kind s.max (ops.hi x)) = o.max ∨ _
      cases hk : s.kind <;> simp only [stepBound]
      · rcases hmax with a | ⟨a, b⟩
        · exact .inl a
        · exact .inr ⟨a, lift b⟩
      · rcases hmax with a | ⟨a, y, hy, p1, p2⟩
        · cases hm : o.max with
          | some m => left; rw [a, hm]; rfl
          | none => right; exact ⟨rfl, x, memX, hx, by rw [a, hm]; rfl⟩
        · right; exact ⟨a, y, List.mem_append.2 (.inl hy), p1, by rw [p2]; rfl⟩
      · rcases hmax with a | ⟨a, b⟩
        · exact .inl a
        · exact .inr ⟨a, lift b⟩
    · show (stepSize s.kind s.sampleSize (ops.len x)) = o.sampleSize ∨ _
      cases hk : s.kind <;> simp only [stepSize]
      · rcases hsz with a | ⟨a, b⟩
        · exact .inl a
        · exact .inr ⟨a, lift b⟩
      · rcases hsz with a | ⟨a, b⟩
        · exact .inl a
        · exact .inr ⟨a, lift b⟩
      · rcases hsz with a | ⟨a, y, hy, p1, p2⟩
        · by_cases ht : truthy o.sampleSize = none
          · right; exact ⟨ht, x, memX, hx, by rw [a, orLen_falsy _ _ ht]⟩
          · left; rw [a]; exact truthy_orLen _ _ ht
        · right
          cases hl : ops.len y with
          | zero => exact ⟨a, x, memX, hx, by rw [p2, hl]; rfl⟩
          | succ n => exact ⟨a, y, List.mem_append.2 (.inl hy), p1, by rw [p2, hl]; rfl⟩
    · intro H; have := H x memX; rw [hx] at this; exact absurd rfl this

theorem inv_fitAll (ops : DataOps D V) (F : Fitters C V O P D) (o : Opts V O) (xs : List D) :
    ∀ (h : List D) (s : UState C V O P), Inv ops o h s →
      Inv ops o (h ++ xs) (fitAll .asFound ops F s xs) := by
  induction xs with
  | nil => intro h s hi; simpa [fitAll] using hi
  | cons x xs ih =>
    intro h s hi
    have := ih (h ++ [x]) (fit .asFound ops F s x) (inv_step ops F o h s x hi)
    simpa [List.append_assoc, fitAll] using this

/-- the histories `h` after which an as-found fit on `x` still behaves like a fresh one. -/
def Safe (ops : DataOps D V) (k : Kind) (o : Opts V O) (h : List D) (x : D) : Prop :=
  -- (1) constant methods: no constant dataset before a non-constant final one
  (ops.const? x = none → ∀ y ∈ h, ops.const? y = none) ∧
  -- (2) remembered bounds: given in the constructor, or every earlier non-constant dataset has the range of `x`
  (k = .truncated → ops.const? x = none →
    (o.min ≠ none ∨ ∀ y ∈ h, ops.const? y = none → ops.lo y = ops.lo x) ∧
    (o.max ≠ none ∨ ∀ y ∈ h, ops.const? y = none → ops.hi y = ops.hi x)) ∧
  -- (3) cached sample size: given in the constructor, or nothing non-constant seen, or `x` is
  --     constant and every earlier non-constant dataset has its length
  (k = .kde → truthy o.sampleSize ≠ none ∨ (∀ y ∈ h, ops.const? y ≠ none) ∨
    (ops.const? x ≠ none ∧ ∀ y ∈ h, ops.const? y = none → ops.len y = ops.len x))

theorem orLen_self (n : Nat) : orLen (some n) n = n := by
  cases n <;> rfl

theorem obs_fit_of_safe (ops : DataOps D V) (F : Fitters C V O P D) (c : C) (k : Kind) (o : Opts V O)
    (h : List D) (s : UState C V O P) (x : D) (hi : Inv ops o h s) (hc : s.cls = c) (hk : s.kind = k)
    (hs : Safe ops k o h x) :
    obs (fit .asFound ops F s x) = obs (fit .asFound ops F (UState.fresh c k o) x) := by
  obtain ⟨hct, hov, hmin, hmax, hsz, hun⟩ := hi
  obtain ⟨s1, s2, s3⟩ := hs
  cases hx : ops.const? x with
  | some cv =>
    have hsize : constSize k s.sampleSize (ops.len x) = constSize k o.sampleSize (ops.len x) := by
      cases k with
      | scipy => rfl
      | truncated => rfl
      | kde =>
        simp only [constSize]
        rcases hsz with a | ⟨a, y, hy, p1, p2⟩
        · rw [a]
        · rcases s3 rfl with t | t | ⟨_, t⟩
          · exact absurd a t
          · exact absurd p1 (t y hy)
          · rw [p2, t y hy p1, orLen_self, orLen_falsy _ _ a]
    unfold fit obs toDict checkFit UState.fresh
    simp [hx, hc, hk, hsize]
  | none =>
    have hov' : s.override = none := hov (s1 hx)
    have hopts : effOpts k (stepBound k s.min (ops.lo x)) (stepBound k s.max (ops.hi x)) s.sampleSize o.other =
        effOpts k (stepBound k o.min (ops.lo x)) (stepBound k o.max (ops.hi x)) o.sampleSize o.other := by
      cases k with
      | scipy => rfl
      | truncated =>
        obtain ⟨b1, b2⟩ := s2 rfl hx
        have e1 : orElse s.min (ops.lo x) = orElse o.min (ops.lo x) := by
          rcases hmin with a | ⟨a, y, hy, p1, p2⟩
          · rw [a]
          · rcases b1 with t | t
            · exact absurd a t
            · rw [p2, a, t y hy p1]; rfl
        have e2 : orElse s.max (ops.hi x) = orElse o.max (ops.hi x) := by
          rcases hmax with a | ⟨a, y, hy, p1, p2⟩
          · rw [a]
          · rcases b2 with t | t
            · exact absurd a t
            · rw [p2, a, t y hy p1]; rfl
        simp only [effOpts, stepBound, e1, e2]
      | kde =>
        simp only [effOpts]
        rcases hsz with a | ⟨a, y, hy, p1, p2⟩
        · rw [a]
        · rcases s3 rfl with t | t | ⟨t, _⟩
          · exact absurd a t
          · exact absurd p1 (t y hy)
          · exact absurd hx t
    unfold fit obs toDict checkFit UState.fresh
    simp only [hx, hc, hk, hov', hct, Variant.asFound_keepOverride, Variant.asFound_rememberBounds,
      Variant.asFound_cacheSize, if_true, ite_self]
    rw [hopts]

/-- every query is a function of the observation (and of the never-written constructor options). -/
theorem query_congr {R : Type} (E : Evals C V O P R) (s s' : UState C V O P) (q : Q)
    (h : obs s = obs s') (ho : s.ctor.other = s'.ctor.other) : query E s q = query E s' q := by
  have h1 : s.cls = s'.cls := congrArg Obs.cls h
  have h2 : s.fitted = s'.fitted := congrArg Obs.fitted h
  have h3 : s.override = s'.override := congrArg Obs.override h
  have h4 : s.params = s'.params := congrArg Obs.params h
  unfold query
  rw [h1, h2, h3, h4, ho]

/-! ## closed refutation of re-fit purity for the code as found -/

/-- "re-fitting gives the same observable model as fitting a fresh one", for every interpretation of
    the externals, every class/kind/options, every history. -/
def RefitPure (v : Variant) : Prop :=
  ∀ (C V O P D : Type) (ops : DataOps D V) (F : Fitters C V O P D) (c : C) (k : Kind) (o : Opts V O)
    (xs : List D) (x : D),
    obs (fitAll v ops F (UState.fresh c k o) (xs ++ [x])) = obs (fit v ops F (UState.fresh c k o) x)

end

/-! ## `construct` / `get_instance` -/
section
variable {Val St : Type}

theorem construct_ok (ci : ClassInfo) (a : Args Val) (o : Obj Val St) (h : construct ci a = .ok o) :
    o.cls = ci.name ∧ o.stored = (if ci.storeArgs then some a else none) ∧ o.fitted = false ∧
    o.fitState = none ∧ bindArgs ci.params ci.required a = .ok o.bound := by
  unfold construct at h
  cases hb : bindArgs ci.params ci.required a with
  | error e => rw [hb] at h; cases h
  | ok b =>
    rw [hb] at h
    injection h with h
    subst h
    exact ⟨rfl, rfl, rfl, rfl, rfl⟩

theorem bindArgs_none_ok (params required : List String) (b : List (String × Val))
    (h : bindArgs params required Args.none = .ok b) : b = [] := by
  unfold bindArgs at h
  simp only [Args.none, List.length_nil, List.zip_nil_right, List.any_nil, List.map_nil, List.append_nil] at h
  split at h
  · cases h
  · split at h
    · cases h
    · split at h
      · cases h
      · split at h
        · cases h
        · injection h with h; exact h.symm

end
end CopVerif.Model.Lifecycle
