import Mathlib.Algebra.BigOperators.Fin
import Mathlib.Algebra.BigOperators.Ring.Finset
import Mathlib.Data.List.GetD
import Mathlib.LinearAlgebra.Matrix.PosDef
import CopVerif.Lemmas.GaussTransformReal
/-!
  The list-based Cholesky–Banachiewicz factorisation `CopVerif.Model.GaussTransform.cholesky`
  succeeds on EVERY symmetric positive definite matrix, in every dimension (property C13b), and
  returns a lower-triangular factor with positive diagonal and `L Lᵀ = A`.

  Route (no determinants):
  * `Fac a l k`: `l` (index functions `ℕ → ℕ → ℝ`, `0` outside the stored cells) factors the
    lower triangle of the leading `k × k` block of `a`;
  * `tri_solve`: back substitution — `Lᵀ x = b` is solvable when the diagonal is non-zero;
  * `pivot_pos`: with `o` the forward solve `L o = (a k j)_{j<k}`, the pivot `a k k − Σ o²` is the
    quadratic form of the leading `(k+1)` block at `x = (−L⁻ᵀ o, 1)`, hence positive;
  * `forward_spec`, `cholRow_spec`, `cholAux_spec`: the list code computes exactly that
    (`foldl_snoc_spec` unrolls the appending left fold), by induction on the rows still to process;
  * `PDn_of_fin`, `posDef_of_iff`: the `ℕ`-indexed positive definiteness used internally is the
    standard one (`Fin d → ℝ` vectors, resp. `Matrix.PosDef`).
-/
set_option linter.unusedSectionVars false
namespace CopVerif.Model.GaussTransform
open CopVerif NumFns Finset

/-- entry `(i, j)` of a list matrix (`0` outside the stored cells). -/
noncomputable def ent (M : List (List ℝ)) (i j : ℕ) : ℝ := (M.getD i []).getD j 0

/-! ### list helpers -/

theorem sum_zipWith_mul : ∀ (xs ys : List ℝ) (n : ℕ), min xs.length ys.length ≤ n →
    (List.zipWith (· * ·) xs ys).sum = ∑ m ∈ range n, xs.getD m 0 * ys.getD m 0
  | [], ys, n, _ => by simp
  | x :: xs, [], n, _ => by simp
  | x :: xs, y :: ys, 0, h => by simp at h
  | x :: xs, y :: ys, n + 1, h => by
    rw [Finset.sum_range_succ', List.zipWith_cons_cons, List.sum_cons,
      sum_zipWith_mul xs ys n (by simpa using h)]
    simp [add_comm]

theorem dot_eq_sum (xs ys : List ℝ) (n : ℕ) (h : min xs.length ys.length ≤ n) :
    dot xs ys = ∑ m ∈ range n, xs.getD m 0 * ys.getD m 0 := by
  unfold dot
  rw [ofNat_real, Nat.cast_zero, ← List.sum_eq_foldl, sum_zipWith_mul xs ys n h]

/-- a left fold that appends one computed element per step: length and element-wise recurrence. -/
theorem foldl_snoc_spec {β γ : Type} (g : List γ → β → γ) (zs : List β) :
    (zs.foldl (fun cur z => cur ++ [g cur z]) []).length = zs.length ∧
    ∀ (j : ℕ) (hj : j < zs.length) (hj' : j < (zs.foldl (fun cur z => cur ++ [g cur z]) []).length),
      (zs.foldl (fun cur z => cur ++ [g cur z]) [])[j]
        = g ((zs.foldl (fun cur z => cur ++ [g cur z]) []).take j) zs[j] := by
  induction zs using List.reverseRecOn with
  | nil => simp
  | append_singleton zs z ih =>
    obtain ⟨hlen, hrec⟩ := ih
    rw [List.foldl_append, List.foldl_cons, List.foldl_nil]
    set R := zs.foldl (fun cur z => cur ++ [g cur z]) [] with hR
    refine ⟨by simp [hlen], ?_⟩
    intro j hj hj'
    rcases Nat.lt_or_ge j zs.length with hlt | hge
    · have hjR : j < R.length := by omega
      rw [List.getElem_append_left hjR, List.getElem_append_left hlt,
        List.take_append_of_le_length (by omega)]
      exact hrec j hlt hjR
    · have hje : j = zs.length := by
        simp only [List.length_append, List.length_singleton] at hj; omega
      subst hje
      have h1 : (R ++ [g R z])[zs.length]'hj' = g R z := by
        rw [List.getElem_append_right (by omega)]; simp [hlen]
      have h2 : (zs ++ [z])[zs.length]'hj = z := by
        rw [List.getElem_append_right (by omega)]; simp
      rw [h1, h2, ← hlen, List.take_left']
      rfl


/-! ### the algebraic core, on index functions `ℕ → ℕ → ℝ` -/

/-- `l` (lower triangular, positive diagonal on the first `k` rows) factors the lower triangle of
the leading `k × k` block of `a`. -/
structure Fac (a l : ℕ → ℕ → ℝ) (k : ℕ) : Prop where
  tri : ∀ i m, i < m → l i m = 0
  pos : ∀ i, i < k → 0 < l i i
  eq : ∀ i, i < k → ∀ j, j ≤ i → ∑ m ∈ range (j + 1), l i m * l j m = a i j

/-- positive definiteness of the leading `d × d` block, for vectors indexed by `ℕ`. -/
def PDn (a : ℕ → ℕ → ℝ) (d : ℕ) : Prop :=
  ∀ x : ℕ → ℝ, (∃ i, i < d ∧ x i ≠ 0) → 0 < ∑ i ∈ range d, ∑ j ∈ range d, x i * a i j * x j

theorem PDn.mono {a : ℕ → ℕ → ℝ} {d k : ℕ} (h : PDn a d) (hk : k ≤ d) : PDn a k := by
  intro x ⟨i, hi, hxi⟩
  have key := h (fun i => if i < k then x i else 0) ⟨i, by omega, by simpa [hi] using hxi⟩
  have inner : ∀ (c : ℝ) (i : ℕ), ∑ j ∈ range d, c * a i j * (if j < k then x j else 0)
      = ∑ j ∈ range k, c * a i j * x j := by
    intro c i
    rw [← Finset.sum_subset (Finset.range_mono hk)
      (f := fun j => c * a i j * (if j < k then x j else 0))]
    · exact Finset.sum_congr rfl fun j hj => by simp [Finset.mem_range.mp hj]
    · intro j _ hj
      simp only [Finset.mem_range] at hj
      simp [hj]
  have e : ∑ i ∈ range d, ∑ j ∈ range d,
      (if i < k then x i else 0) * a i j * (if j < k then x j else 0)
      = ∑ i ∈ range k, ∑ j ∈ range k, x i * a i j * x j := by
    simp_rw [inner]
    rw [← Finset.sum_subset (Finset.range_mono hk)
      (f := fun i => ∑ j ∈ range k, (if i < k then x i else 0) * a i j * x j)]
    · exact Finset.sum_congr rfl fun i hi => by simp [Finset.mem_range.mp hi]
    · intro i _ hi
      simp only [Finset.mem_range] at hi
      simp [hi]
  rw [e] at key
  exact key

/-- sums against a row of a lower-triangular `l` may be extended from `range (j+1)` to `range k`. -/
theorem sum_tri_extend {l : ℕ → ℕ → ℝ} (htri : ∀ i m, i < m → l i m = 0) (f : ℕ → ℝ) {j k : ℕ}
    (hjk : j < k) : ∑ m ∈ range (j + 1), f m * l j m = ∑ m ∈ range k, f m * l j m := by
  refine Finset.sum_subset (Finset.range_mono hjk) ?_
  intro m _ hm
  simp only [Finset.mem_range] at hm
  rw [htri j m (by omega), mul_zero]

/-- the factorisation identity on the whole leading block (both triangles, full-length sums). -/
theorem Fac.full {a l : ℕ → ℕ → ℝ} {k : ℕ} (hF : Fac a l k)
    (hsym : ∀ i j, i < k → j < k → a i j = a j i) {i j : ℕ} (hi : i < k) (hj : j < k) :
    ∑ m ∈ range k, l i m * l j m = a i j := by
  rcases Nat.le_total j i with h | h
  · rw [← sum_tri_extend hF.tri (fun m => l i m) hj]; exact hF.eq i hi j h
  · rw [hsym i j hi hj, ← hF.eq j hj i h, sum_tri_extend hF.tri (fun m => l j m) hi]
    exact Finset.sum_congr rfl fun m _ => mul_comm _ _

/-- back substitution: a triangular system `Lᵀ x = b` with non-zero diagonal has a solution. -/
theorem tri_solve (l : ℕ → ℕ → ℝ) (htri : ∀ i m, i < m → l i m = 0) :
    ∀ (k : ℕ), (∀ i, i < k → l i i ≠ 0) → ∀ b : ℕ → ℝ,
      ∃ x : ℕ → ℝ, ∀ m, m < k → ∑ i ∈ range k, x i * l i m = b m
  | 0, _, _ => ⟨fun _ => 0, fun m hm => absurd hm (Nat.not_lt_zero m)⟩
  | k + 1, hd, b => by
    obtain ⟨x, hx⟩ := tri_solve l htri k (fun i hi => hd i (by omega))
      (fun m => b m - b k / l k k * l k m)
    refine ⟨Function.update x k (b k / l k k), fun m hm => ?_⟩
    have hsum : ∑ i ∈ range k, Function.update x k (b k / l k k) i * l i m
        = ∑ i ∈ range k, x i * l i m := by
      refine Finset.sum_congr rfl fun i hi => ?_
      simp only [Finset.mem_range] at hi
      rw [Function.update_of_ne (by omega)]
    rw [Finset.sum_range_succ, hsum, Function.update_self]
    rcases Nat.lt_or_ge m k with hlt | hge
    · rw [hx m hlt]; ring
    · have hmk : m = k := by omega
      subst hmk
      have hz : ∑ i ∈ range m, x i * l i m = 0 := by
        refine Finset.sum_eq_zero fun i hi => ?_
        simp only [Finset.mem_range] at hi
        rw [htri i m hi, mul_zero]
      rw [hz, zero_add, div_mul_cancel₀ _ (hd m (by omega))]


/-- **Schur pivot**: if `l` factors the leading `k × k` block and `o` is the forward solve of the
new row, then the pivot `a k k - Σ o²` is the quadratic form of the leading `(k+1)` block at the
vector `(-L⁻ᵀ o, 1)`, hence positive. -/
theorem pivot_pos {a l : ℕ → ℕ → ℝ} {k : ℕ} (hF : Fac a l k)
    (hsym : ∀ i j, i < k + 1 → j < k + 1 → a i j = a j i) (hpd : PDn a (k + 1)) (o : ℕ → ℝ)
    (ho : ∀ j, j < k → ∑ m ∈ range (j + 1), o m * l j m = a k j) :
    0 < a k k - ∑ m ∈ range k, o m * o m := by
  have ho' : ∀ j, j < k → ∑ m ∈ range k, o m * l j m = a k j := fun j hj => by
    rw [← sum_tri_extend hF.tri o hj]; exact ho j hj
  have hfull : ∀ i j, i < k → j < k → ∑ m ∈ range k, l i m * l j m = a i j := fun i j hi hj =>
    hF.full (fun i j hi hj => hsym i j (by omega) (by omega)) hi hj
  obtain ⟨x0, hx0⟩ := tri_solve l hF.tri k (fun i hi => (hF.pos i hi).ne') (fun m => - o m)
  have key := hpd (Function.update x0 k 1) ⟨k, by omega, by simp⟩
  set x := Function.update x0 k 1 with hx
  have hxk : x k = 1 := by simp [hx]
  have hxi : ∀ i, i < k → x i = x0 i := fun i hi => by
    rw [hx, Function.update_of_ne (by omega)]
  have hxs : ∀ m, m < k → ∑ i ∈ range k, x i * l i m = - o m := fun m hm => by
    rw [← hx0 m hm]
    exact Finset.sum_congr rfl fun i hi => by rw [hxi i (Finset.mem_range.mp hi)]
  have S3 : ∑ j ∈ range k, a k j * x j = - ∑ m ∈ range k, o m * o m := by
    calc ∑ j ∈ range k, a k j * x j
        = ∑ j ∈ range k, ∑ m ∈ range k, o m * (x j * l j m) := by
          refine Finset.sum_congr rfl fun j hj => ?_
          rw [← ho' j (Finset.mem_range.mp hj), Finset.sum_mul]
          exact Finset.sum_congr rfl fun m _ => by ring
      _ = ∑ m ∈ range k, ∑ j ∈ range k, o m * (x j * l j m) := Finset.sum_comm
      _ = ∑ m ∈ range k, o m * (- o m) := by
          refine Finset.sum_congr rfl fun m hm => ?_
          rw [← Finset.mul_sum, hxs m (Finset.mem_range.mp hm)]
      _ = _ := by simp [Finset.sum_neg_distrib]
  have S1 : ∑ i ∈ range k, ∑ j ∈ range k, x i * a i j * x j = ∑ m ∈ range k, o m * o m := by
    calc ∑ i ∈ range k, ∑ j ∈ range k, x i * a i j * x j
        = ∑ i ∈ range k, ∑ j ∈ range k, ∑ m ∈ range k, (x i * l i m) * (x j * l j m) := by
          refine Finset.sum_congr rfl fun i hi => Finset.sum_congr rfl fun j hj => ?_
          rw [← hfull i j (mem_range.mp hi) (mem_range.mp hj), Finset.mul_sum, Finset.sum_mul]
          exact Finset.sum_congr rfl fun m _ => by ring
      _ = ∑ i ∈ range k, ∑ m ∈ range k, ∑ j ∈ range k, (x i * l i m) * (x j * l j m) :=
          Finset.sum_congr rfl fun i _ => Finset.sum_comm
      _ = ∑ m ∈ range k, ∑ i ∈ range k, ∑ j ∈ range k, (x i * l i m) * (x j * l j m) :=
          Finset.sum_comm
      _ = ∑ m ∈ range k, (- o m) * (- o m) := by
          refine Finset.sum_congr rfl fun m hm => ?_
          rw [← hxs m (mem_range.mp hm), Finset.sum_mul_sum]
      _ = _ := Finset.sum_congr rfl fun m _ => by ring
  have S2 : ∑ i ∈ range k, x i * a i k = - ∑ m ∈ range k, o m * o m := by
    rw [← S3]
    refine Finset.sum_congr rfl fun i hi => ?_
    have := mem_range.mp hi
    rw [hsym i k (by omega) (by omega), mul_comm]
  have tot : ∑ i ∈ range (k + 1), ∑ j ∈ range (k + 1), x i * a i j * x j
      = a k k - ∑ m ∈ range k, o m * o m := by
    simp only [Finset.sum_range_succ, hxk, mul_one, one_mul]
    rw [Finset.sum_add_distrib, S1, S2, S3]; ring
  rw [tot] at key
  exact key


/-! ### the list-based factorisation -/

/-- row `i` of the factor has exactly `i + 1` entries. -/
def RowsOK (L : List (List ℝ)) : Prop := ∀ i (h : i < L.length), L[i].length = i + 1

theorem ent_of_lt {M : List (List ℝ)} {i : ℕ} (h : i < M.length) (m : ℕ) :
    ent M i m = M[i].getD m 0 := by
  unfold ent; rw [List.getD_eq_getElem _ _ h]

theorem ent_of_ge {M : List (List ℝ)} {i : ℕ} (h : M.length ≤ i) (m : ℕ) : ent M i m = 0 := by
  unfold ent; rw [List.getD_eq_default _ _ h]; simp

theorem ent_append_left {L : List (List ℝ)} {r : List ℝ} {i : ℕ} (h : i < L.length) (m : ℕ) :
    ent (L ++ [r]) i m = ent L i m := by
  unfold ent; rw [List.getD_append _ _ _ _ h]

theorem ent_append_self (L : List (List ℝ)) (r : List ℝ) (m : ℕ) :
    ent (L ++ [r]) L.length m = r.getD m 0 := by
  unfold ent; rw [List.getD_append_right _ _ _ _ le_rfl]; simp

theorem RowsOK.tri {L : List (List ℝ)} (h : RowsOK L) : ∀ i m, i < m → ent L i m = 0 := by
  intro i m him
  rcases Nat.lt_or_ge i L.length with hi | hi
  · rw [ent_of_lt hi, List.getD_eq_default _ _ (by rw [h i hi]; omega)]
  · exact ent_of_ge hi m

theorem RowsOK.last {L : List (List ℝ)} (h : RowsOK L) {i : ℕ} (hi : i < L.length) :
    L[i].getLastD (ofNat 1) = ent L i i := by
  have hl := h i hi
  rw [ent_of_lt hi, List.getLastD_eq_getLast?, List.getLast?_eq_getElem?, hl,
    List.getD_eq_getElem?_getD]
  have : i < L[i].length := by omega
  simp [List.getElem?_eq_getElem this]

theorem RowsOK.snoc {L : List (List ℝ)} (h : RowsOK L) {r : List ℝ} (hr : r.length = L.length + 1) :
    RowsOK (L ++ [r]) := by
  intro i hi
  rcases Nat.lt_or_ge i L.length with hlt | hge
  · rw [List.getElem_append_left hlt]; exact h i hlt
  · have : i = L.length := by simp only [List.length_append, List.length_singleton] at hi; omega
    subst this
    rw [List.getElem_append_right (le_refl _)]
    simpa using hr

/-- forward substitution against a well-formed factor solves the triangular system. -/
theorem forward_spec (L : List (List ℝ)) (a : List ℝ) (hR : RowsOK L) (ha : L.length ≤ a.length)
    (hd : ∀ j, j < L.length → ent L j j ≠ 0) :
    (forward L a).length = L.length ∧ ∀ j, j < L.length →
      ∑ m ∈ range (j + 1), (forward L a).getD m 0 * ent L j m = a.getD j 0 := by
  have hspec := foldl_snoc_spec
    (fun (cur : List ℝ) (la : List ℝ × ℝ) => (la.2 - dot cur la.1) / la.1.getLastD (ofNat 1))
    (L.zip a)
  have hfw : forward L a = (L.zip a).foldl (fun cur la =>
      cur ++ [(la.2 - dot cur la.1) / la.1.getLastD (ofNat 1)]) [] := rfl
  rw [← hfw] at hspec
  obtain ⟨hlen, hrec⟩ := hspec
  have hlen' : (forward L a).length = L.length := by
    rw [hlen, List.length_zip]; omega
  refine ⟨hlen', fun j hj => ?_⟩
  have hjz : j < (L.zip a).length := by rw [List.length_zip]; omega
  have hja : j < a.length := by omega
  have hjR : j < (forward L a).length := by omega
  have h1 := hrec j hjz hjR
  rw [List.getElem_zip] at h1
  simp only at h1
  have hdot : dot ((forward L a).take j) L[j]
      = ∑ m ∈ range j, (forward L a).getD m 0 * ent L j m := by
    rw [dot_eq_sum _ _ j (by simp)]
    refine Finset.sum_congr rfl fun m hm => ?_
    have hm' := Finset.mem_range.mp hm
    rw [ent_of_lt hj]
    congr 1
    simp [List.getD_eq_getElem?_getD, hm']
  rw [Finset.sum_range_succ, ← hdot, List.getD_eq_getElem _ _ hjR, h1, hR.last hj,
    List.getD_eq_getElem _ _ hja, div_mul_cancel₀ _ (hd j hj)]
  ring

/-- one row of the factorisation: the pivot is positive and the invariant is extended. -/
theorem cholRow_spec {A L : List (List ℝ)} {k : ℕ} (hk : L.length = k)
    (hrow : k < (A.getD k []).length) (hR : RowsOK L) (hF : Fac (ent A) (ent L) k)
    (hsym : ∀ i j, i < k + 1 → j < k + 1 → ent A i j = ent A j i) (hpd : PDn (ent A) (k + 1)) :
    ∃ r, cholRow L (A.getD k []) = some r ∧ RowsOK (L ++ [r]) ∧
      Fac (ent A) (ent (L ++ [r])) (k + 1) := by
  subst hk
  obtain ⟨hlen, hfw⟩ := forward_spec L (A.getD L.length []) hR (by omega)
    (fun j hj => (hF.pos j hj).ne')
  have hdot : dot (forward L (A.getD L.length [])) (forward L (A.getD L.length []))
      = ∑ m ∈ range L.length, (forward L (A.getD L.length [])).getD m 0
          * (forward L (A.getD L.length [])).getD m 0 := dot_eq_sum _ _ _ (by rw [hlen, min_self])
  have hp : 0 < (A.getD L.length []).getD L.length 0
      - dot (forward L (A.getD L.length [])) (forward L (A.getD L.length [])) := by
    rw [hdot]
    exact pivot_pos hF hsym hpd (fun m => (forward L (A.getD L.length [])).getD m 0)
      (fun j hj => hfw j hj)
  have hrow_eq : cholRow L (A.getD L.length []) = some (forward L (A.getD L.length []) ++
      [Real.sqrt ((A.getD L.length []).getD L.length 0
        - dot (forward L (A.getD L.length [])) (forward L (A.getD L.length [])))]) := by
    simp only [cholRow, ofNat_real, Nat.cast_zero, sqrt_real]
    rw [if_pos hp]
  generalize forward L (A.getD L.length []) = off at *
  generalize hpv : (A.getD L.length []).getD L.length 0 - dot off off = p at *
  have hRs : RowsOK (L ++ [off ++ [Real.sqrt p]]) := hR.snoc (by simp [hlen])
  refine ⟨_, hrow_eq, hRs, hRs.tri, ?_, ?_⟩
  · intro i hi
    rcases Nat.lt_or_ge i L.length with hlt | hge
    · rw [ent_append_left hlt]; exact hF.pos i hlt
    · have : i = L.length := by omega
      subst this
      rw [ent_append_self, ← hlen, List.getD_append_right _ _ _ _ le_rfl]
      simpa using Real.sqrt_pos.mpr hp
  · intro i hi j hji
    rcases Nat.lt_or_ge i L.length with hlt | hge
    · rw [← hF.eq i hlt j hji]
      refine Finset.sum_congr rfl fun m _ => ?_
      rw [ent_append_left hlt, ent_append_left (by omega)]
    · have : i = L.length := by omega
      subst this
      rcases Nat.lt_or_ge j L.length with hjl | hjg
      · rw [← show (A.getD L.length []).getD j 0 = ent A L.length j from rfl, ← hfw j hjl]
        refine Finset.sum_congr rfl fun m hm => ?_
        have hm' := Finset.mem_range.mp hm
        rw [ent_append_self, ent_append_left hjl, List.getD_append _ _ _ _ (by omega)]
      · have : j = L.length := by omega
        subst this
        have hsq : Real.sqrt p * Real.sqrt p = p := Real.mul_self_sqrt hp.le
        have hpv' : ent A L.length L.length = p + dot off off := by
          rw [← hpv]; unfold ent; ring
        rw [Finset.sum_range_succ, ent_append_self, hpv', hdot]
        have e1 : (off ++ [Real.sqrt p]).getD L.length 0 = Real.sqrt p := by
          rw [← hlen, List.getD_append_right _ _ _ _ le_rfl]; simp
        rw [e1, hsq, add_comm]
        congr 1
        refine Finset.sum_congr rfl fun m hm => ?_
        have hm' := Finset.mem_range.mp hm
        rw [ent_append_self, List.getD_append _ _ _ _ (by omega)]


/-- the whole factorisation, by induction on the rows still to be processed: `pre` are the rows
already consumed and `L` factors the leading `pre.length` block. -/
theorem cholAux_spec {A : List (List ℝ)} {d : ℕ} (hA : A.length = d)
    (hsq : ∀ r ∈ A, r.length = d) (hsym : ∀ i j, i < d → j < d → ent A i j = ent A j i)
    (hpd : PDn (ent A) d) :
    ∀ (rest pre L : List (List ℝ)), A = pre ++ rest → L.length = pre.length → RowsOK L →
      Fac (ent A) (ent L) L.length →
      ∃ L', cholAux L rest = some L' ∧ L'.length = d ∧ RowsOK L' ∧ Fac (ent A) (ent L') d
  | [], pre, L, hApp, hL, hR, hF => by
    have hLd : L.length = d := by rw [hL, ← hA, hApp]; simp
    rw [hLd] at hF
    exact ⟨L, rfl, hLd, hR, hF⟩
  | arow :: rest, pre, L, hApp, hL, hR, hF => by
    have hkd : L.length < d := by rw [← hA, hApp, hL]; simp
    have hget : A.getD L.length [] = arow := by
      rw [hApp, hL, List.getD_append_right _ _ _ _ le_rfl]; simp
    have hrowlen : arow.length = d := hsq arow (by rw [hApp]; simp)
    obtain ⟨r, hr, hRs, hFs⟩ := cholRow_spec (A := A) rfl (by rw [hget, hrowlen]; exact hkd) hR hF
      (fun i j hi hj => hsym i j (by omega) (by omega)) (hpd.mono (by omega))
    rw [hget] at hr
    obtain ⟨L', h1, h2⟩ := cholAux_spec hA hsq hsym hpd rest (pre ++ [arow]) (L ++ [r])
      (by rw [hApp]; simp) (by simp [hL]) hRs (by simpa using hFs)
    refine ⟨L', ?_, h2⟩
    unfold cholAux
    simp only [hr]
    exact h1

/-! ### positive definiteness: `Fin`-indexed and `Matrix.PosDef` forms -/

theorem PDn_of_fin {a : ℕ → ℕ → ℝ} {d : ℕ}
    (h : ∀ x : Fin d → ℝ, x ≠ 0 → 0 < ∑ i : Fin d, ∑ j : Fin d, x i * a i j * x j) : PDn a d := by
  intro x ⟨i, hi, hxi⟩
  have := h (fun i => x i) (fun h0 => hxi (by simpa using congrFun h0 ⟨i, hi⟩))
  rw [Finset.sum_range]
  simp_rw [Finset.sum_range]
  exact this

theorem fin_of_PDn {a : ℕ → ℕ → ℝ} {d : ℕ} (h : PDn a d) (x : Fin d → ℝ) (hx : x ≠ 0) :
    0 < ∑ i : Fin d, ∑ j : Fin d, x i * a i j * x j := by
  obtain ⟨i, hi⟩ := Function.ne_iff.mp hx
  have := h (fun n => if hn : n < d then x ⟨n, hn⟩ else 0)
    ⟨i, i.2, by simpa using hi⟩
  rw [Finset.sum_range] at this
  simp_rw [Finset.sum_range] at this
  simpa using this

/-- the standard `Matrix.PosDef` of the `d × d` matrix read off the list matrix is exactly
"symmetric and `xᵀ A x > 0` for `x ≠ 0`". -/
theorem posDef_of_iff (A : List (List ℝ)) (d : ℕ) :
    (Matrix.of fun i j : Fin d => ent A i j).PosDef ↔
      (∀ i j : Fin d, ent A i j = ent A j i) ∧
        ∀ x : Fin d → ℝ, x ≠ 0 → 0 < ∑ i : Fin d, ∑ j : Fin d, x i * ent A i j * x j := by
  rw [Matrix.posDef_iff_dotProduct_mulVec]
  have e : ∀ x : Fin d → ℝ, star x ⬝ᵥ (Matrix.of (fun i j : Fin d => ent A i j)).mulVec x
      = ∑ i : Fin d, ∑ j : Fin d, x i * ent A i j * x j := by
    intro x
    simp [dotProduct, Matrix.mulVec, Finset.mul_sum, mul_assoc]
  constructor
  · rintro ⟨hH, hP⟩
    refine ⟨fun i j => ?_, fun x hx => ?_⟩
    · have := hH.apply i j
      simpa using this.symm
    · rw [← e]; exact hP hx
  · rintro ⟨hS, hP⟩
    refine ⟨?_, fun x hx => ?_⟩
    · ext i j
      simpa using hS j i
    · rw [e]; exact hP x hx

/-- **The list-based Cholesky factorisation succeeds on every symmetric positive definite
matrix**, in every dimension; the factor is lower triangular with positive diagonal and
`L Lᵀ = A` entry by entry. -/
theorem cholesky_of_posDef {A : List (List ℝ)} {d : ℕ} (hrows : A.length = d)
    (hcols : ∀ r ∈ A, r.length = d) (hsym : ∀ i j : Fin d, ent A i j = ent A j i)
    (hpd : ∀ x : Fin d → ℝ, x ≠ 0 → 0 < ∑ i : Fin d, ∑ j : Fin d, x i * ent A i j * x j) :
    ∃ L, cholesky A = some L ∧ L.length = d ∧ (∀ i (h : i < L.length), L[i].length = i + 1) ∧
      (∀ i j, i < j → ent L i j = 0) ∧ (∀ i, i < d → 0 < ent L i i) ∧
      (∀ i j, i < d → j < d → ∑ m ∈ range d, ent L i m * ent L j m = ent A i j) := by
  have hsym' : ∀ i j, i < d → j < d → ent A i j = ent A j i :=
    fun i j hi hj => hsym ⟨i, hi⟩ ⟨j, hj⟩
  obtain ⟨L, hL, hlen, hR, hF⟩ := cholAux_spec hrows hcols hsym' (PDn_of_fin hpd) A [] []
    rfl rfl (fun i hi => absurd hi (Nat.not_lt_zero i))
    ⟨fun i m _ => by simp [ent], fun i hi => absurd hi (Nat.not_lt_zero i),
      fun i hi => absurd hi (Nat.not_lt_zero i)⟩
  exact ⟨L, hL, hlen, hR, hF.tri, hF.pos, fun i j hi hj => hF.full hsym' hi hj⟩


/-- the same with the hypothesis stated as Mathlib's `Matrix.PosDef`. -/
theorem cholesky_of_matrix_posDef {A : List (List ℝ)} {d : ℕ} (hrows : A.length = d)
    (hcols : ∀ r ∈ A, r.length = d) (hpd : (Matrix.of fun i j : Fin d => ent A i j).PosDef) :
    ∃ L, cholesky A = some L ∧ L.length = d ∧ (∀ i (h : i < L.length), L[i].length = i + 1) ∧
      (∀ i j, i < j → ent L i j = 0) ∧ (∀ i, i < d → 0 < ent L i i) ∧
      (∀ i j, i < d → j < d → ∑ m ∈ range d, ent L i m * ent L j m = ent A i j) :=
  cholesky_of_posDef hrows hcols ((posDef_of_iff A d).mp hpd).1 ((posDef_of_iff A d).mp hpd).2

/-- the executable density and log-density are defined whenever the factorisation is. -/
theorem mvn_defined_of_cholesky {τ : ℝ} {A L : List (List ℝ)} (z : List ℝ)
    (h : cholesky A = some L) :
    mvnPdf τ A z = some (mvnPdfChol τ L z) ∧ mvnLogPdf τ A z = some (mvnLogPdfChol τ L z) := by
  simp [mvnPdf, mvnLogPdf, h]

end CopVerif.Model.GaussTransform
