import CopVerif.Lemmas.VinePairsD
/-!
  Consequences of the vine-structure predicate `TreesSpec` for a whole vine: per-tree level
  invariant, edge counts, the list of graph edge lists `treePairs`.
-/
set_option linter.unusedSimpArgs false
set_option linter.unusedSectionVars false
set_option linter.unusedVariables false
namespace CopVerif.Model.Vine

/-- the previous tree of tree `i`. -/
def prevOf (trees : List Tree) (i : Nat) : Option Tree :=
  match i with
  | 0 => none
  | i + 1 => trees[i]?

theorem treePairs_cons (t0 : Tree) (rest : List Tree) :
    treePairs (t0 :: rest) = t0.map (Edge.ends true) :: rest.map (fun t => t.map (Edge.ends false)) := by
  unfold treePairs
  rw [List.mapIdx_cons]
  congr 1
  apply List.ext_getElem
  · simp
  · intro i h1 h2
    simp

/-- every tree of a vine structure satisfies the level invariant over its predecessor. -/
theorem TreesSpec.levelInv_aux {d : Nat} : ∀ (trees : List Tree) (k : Nat) (pp : Option Tree)
    (prev : Tree), LevelInv k pp prev → prev.length = d - (k + 1) →
    TreesSpec d (k + 1) (some prev) trees →
    ∀ i (hi : i < trees.length),
      LevelInv (k + 1 + i) (some ((prev :: trees).getD i default)) trees[i] ∧
      trees[i].length + 1 = d - (k + 1 + i)
  | [], _, _, _, _, _, _, i, hi => by simp at hi
  | t :: ts, k, pp, prev, hinv, hlen, hspec, i, hi => by
    obtain ⟨⟨hk, hspan⟩, hrest⟩ := hspec
    have hfirst : ((k + 1 == 1) : Bool) = pp.isNone := by rw [hinv.first_iff]; simp
    have hch : ∀ e ∈ t, ChildOK pp.isNone prev e := by
      intro e he
      obtain ⟨a, b, hat⟩ := hk e he
      exact childOK_of_kthEdgeAt hat hfirst
    have htl : t.length + 1 = prev.length := by rw [hlen]; simpa using hspan.1
    obtain ⟨_, hinv'⟩ := hinv.next htl hch (by rw [hlen]; exact hspan)
    cases i with
    | zero => exact ⟨by simpa using hinv', by simpa using hspan.1⟩
    | succ i =>
      have := TreesSpec.levelInv_aux ts (k + 1) (some prev) t hinv' (by omega) hrest i
        (by simpa using hi)
      simp only [List.getElem_cons_succ, List.getD_cons_succ]
      rw [show k + 1 + (i + 1) = k + 1 + 1 + i by omega]
      exact this

theorem TreesSpec.levelInv {d : Nat} {trees : List Tree} (h : TreesSpec d 0 none trees)
    (i : Nat) (hi : i < trees.length) :
    LevelInv i (prevOf trees i) trees[i] ∧ trees[i].length + 1 = d - i := by
  cases trees with
  | nil => simp at hi
  | cons t0 rest =>
    obtain ⟨⟨he, hspan⟩, hr⟩ := h
    have hinv := LevelInv.first (by simpa using hspan.1) he hspan
    cases i with
    | zero => exact ⟨hinv, by simpa using hspan.1⟩
    | succ i =>
      have hi' : i < rest.length := by simpa using hi
      have := TreesSpec.levelInv_aux rest 0 none t0 hinv
        (by have := hspan.1; simp at this; omega) hr i hi'
      simp only [List.getElem_cons_succ, prevOf]
      rw [show i + 1 = 0 + 1 + i by omega]
      have hget : (t0 :: rest)[i]? = some ((t0 :: rest).getD i default) := by
        rw [List.getD_eq_getElem?_getD, List.getElem?_eq_getElem (by simp; omega)]; simp
      rw [hget]
      exact this

/-- the graph edge list of tree `i`. -/
theorem treePairs_getElem (trees : List Tree) (i : Nat) (hi : i < trees.length) :
    (treePairs trees)[i]'(by simpa [treePairs] using hi) = trees[i].map (Edge.ends (i == 0)) := by
  simp [treePairs]

theorem TreesSpec.spanning_aux {d : Nat} : ∀ (trees : List Tree) (k : Nat) (prev : Tree),
    TreesSpec d (k + 1) (some prev) trees → ∀ i (hi : i < trees.length),
      SpanningTree (d - (k + 1 + i)) (trees[i].map (Edge.ends false)) ∧
      ∀ e ∈ trees[i], KthEdgeSpec (k + 1 + i) ((prev :: trees).getD i default) e
  | [], _, _, _, i, hi => by simp at hi
  | t :: ts, k, prev, hspec, i, hi => by
    obtain ⟨⟨hk, hspan⟩, hrest⟩ := hspec
    cases i with
    | zero => exact ⟨by simpa using hspan, by simpa using hk⟩
    | succ i =>
      have := TreesSpec.spanning_aux ts (k + 1) t hrest i (by simpa using hi)
      simp only [List.getElem_cons_succ, List.getD_cons_succ]
      rw [show k + 1 + (i + 1) = k + 1 + 1 + i by omega]
      exact this

end CopVerif.Model.Vine
