import CopVerif.Model.Plot
/-!
  Lemmas about the plot model (C20): splitting by label loses and duplicates nothing.
  Core Lean only.
-/
namespace CopVerif.Model.Plot

theorem pointsOf_append {β : Type} (a b : List (Label × List β)) (l : Label) :
    pointsOf (a ++ b) l = pointsOf a l ++ pointsOf b l := by
  simp [pointsOf, List.filter_append, List.flatMap_append]

theorem pointsOf_traceOf_same {β : Type} (l : Label) (xs : List β) :
    pointsOf (traceOf l xs) l = xs := by
  unfold traceOf pointsOf
  cases xs <;> simp

theorem pointsOf_traceOf_other {β : Type} (l l' : Label) (h : l ≠ l') (xs : List β) :
    pointsOf (traceOf l xs) l' = [] := by
  unfold traceOf pointsOf
  cases xs <;> simp [h]

/-- the points under label `l` after the split are exactly the points that carried label `l`,
    in order, each once -/
theorem pointsOf_splitByLabel {β : Type} (pts : List (β × Label)) (l : Label) :
    pointsOf (splitByLabel pts) l = pick pts l := by
  cases pts with
  | nil => simp [splitByLabel, pointsOf, pick]
  | cons p ps =>
    simp only [splitByLabel]
    by_cases hp : p.2 = Label.real
    · simp only [hp, if_true, pointsOf_append]
      cases l
      · rw [pointsOf_traceOf_same, pointsOf_traceOf_other _ _ (by decide)]; simp
      · rw [pointsOf_traceOf_same, pointsOf_traceOf_other _ _ (by decide)]; simp
    · simp only [hp, if_false, pointsOf_append]
      cases l
      · rw [pointsOf_traceOf_same, pointsOf_traceOf_other _ _ (by decide)]; simp
      · rw [pointsOf_traceOf_same, pointsOf_traceOf_other _ _ (by decide)]; simp

/-- every label heads at most one trace -/
theorem splitByLabel_labels_nodup {β : Type} (pts : List (β × Label)) :
    ((splitByLabel pts).map (·.1)).Nodup := by
  cases pts with
  | nil => simp [splitByLabel]
  | cons p ps =>
    simp only [splitByLabel, traceOf]
    by_cases hp : p.2 = Label.real <;>
      by_cases h1 : (pick (p :: ps) Label.real).isEmpty <;>
      by_cases h2 : (pick (p :: ps) Label.synthetic).isEmpty <;>
      simp [hp, h1, h2]

section
variable {α : Type}

theorem filter_labelled_same {β : Type} (f : Frame α) (l : Label) (g : List α → β) :
    pick ((labelled f l).map fun r => (g r.1, r.2)) l = f.rows.map g := by
  simp only [pick, labelled, List.map_map]
  induction f.rows with
  | nil => rfl
  | cons r rs ih => simp [ih]

theorem filter_labelled_other {β : Type} (f : Frame α) (l l' : Label) (h : l ≠ l') (g : List α → β) :
    pick ((labelled f l).map fun r => (g r.1, r.2)) l' = [] := by
  simp only [pick, labelled, List.map_map]
  induction f.rows with
  | nil => rfl
  | cons r rs ih => simp [h, ih]

/-- split of a labelled concatenation -/
theorem points_concat {β : Type} (real synth : Frame α) (g : List α → β) :
    let ts := splitByLabel ((labelled real .real ++ labelled synth .synthetic).map fun r => (g r.1, r.2))
    pointsOf ts .real = real.rows.map g ∧ pointsOf ts .synthetic = synth.rows.map g := by
  intro ts
  have happ : ∀ (a b : List (β × Label)) (l : Label), pick (a ++ b) l = pick a l ++ pick b l := by
    intro a b l; simp [pick, List.filter_append]
  simp only [ts, pointsOf_splitByLabel, List.map_append, happ]
  constructor
  · rw [filter_labelled_same real .real g, filter_labelled_other synth .synthetic .real (by decide) g]
    simp
  · rw [filter_labelled_other real .real .synthetic (by decide) g, filter_labelled_same synth .synthetic g]
    simp

theorem points_single {β : Type} (data : Frame α) (g : List α → β) :
    let ts := splitByLabel ((labelled data .real).map fun r => (g r.1, r.2))
    pointsOf ts .real = data.rows.map g ∧ pointsOf ts .synthetic = [] := by
  intro ts
  simp only [ts, pointsOf_splitByLabel]
  exact ⟨filter_labelled_same data .real g, filter_labelled_other data .real .synthetic (by decide) g⟩

end
end CopVerif.Model.Plot
