import CopVerif.Model.Plot
/-!
  Lemmas about the plot model (C20): splitting by label loses and duplicates nothing.
  Core Lean only.
-/
namespace CopVerif.Model.Plot

/-- the points under label `l` after the split are exactly the points that carried label `l`,
    in order, each once -/
theorem pointsOf_splitByLabel {β : Type} (pts : List (β × Label)) (l : Label) :
    pointsOf (splitByLabel pts) l = (pts.filter fun p => p.2 = l).map (·.1) := by
  cases pts with
  | nil => simp [splitByLabel, pointsOf]
  | cons p ps =>
    simp only [splitByLabel, pointsOf]
    by_cases hp : p.2 = Label.real
    · cases l <;>
        by_cases h1 : (List.map (·.1) (List.filter (fun q : β × Label => q.2 = Label.real) (p :: ps))).isEmpty <;>
        by_cases h2 : (List.map (·.1) (List.filter (fun q : β × Label => q.2 = Label.synthetic) (p :: ps))).isEmpty <;>
        simp_all [List.filter, List.flatMap]
    · cases l <;>
        by_cases h1 : (List.map (·.1) (List.filter (fun q : β × Label => q.2 = Label.real) (p :: ps))).isEmpty <;>
        by_cases h2 : (List.map (·.1) (List.filter (fun q : β × Label => q.2 = Label.synthetic) (p :: ps))).isEmpty <;>
        simp_all [List.filter, List.flatMap]

/-- every label heads at most one trace -/
theorem splitByLabel_labels_nodup {β : Type} (pts : List (β × Label)) :
    ((splitByLabel pts).map (·.1)).Nodup := by
  cases pts with
  | nil => simp [splitByLabel]
  | cons p ps =>
    simp only [splitByLabel]
    by_cases hp : p.2 = Label.real <;>
      by_cases h1 : (List.map (·.1) (List.filter (fun q : β × Label => q.2 = Label.real) (p :: ps))).isEmpty <;>
      by_cases h2 : (List.map (·.1) (List.filter (fun q : β × Label => q.2 = Label.synthetic) (p :: ps))).isEmpty <;>
      simp_all [List.filter]

section
variable {α : Type} [Inhabited α]

theorem filter_labelled_same {β : Type} (f : Frame α) (l : Label) (g : List α → β) :
    (((labelled f l).map fun r => (g r.1, r.2)).filter fun p => p.2 = l).map (·.1) = f.rows.map g := by
  simp only [labelled, List.map_map]
  induction f.rows with
  | nil => rfl
  | cons r rs ih => simp [List.filter, ih]

theorem filter_labelled_other {β : Type} (f : Frame α) (l l' : Label) (h : l ≠ l') (g : List α → β) :
    (((labelled f l).map fun r => (g r.1, r.2)).filter fun p => p.2 = l').map (·.1) = [] := by
  simp only [labelled, List.map_map]
  induction f.rows with
  | nil => rfl
  | cons r rs ih => simp [List.filter, h, ih]

/-- split of a labelled concatenation -/
theorem points_concat {β : Type} (real synth : Frame α) (g : List α → β) :
    let ts := splitByLabel ((labelled real .real ++ labelled synth .synthetic).map fun r => (g r.1, r.2))
    pointsOf ts .real = real.rows.map g ∧ pointsOf ts .synthetic = synth.rows.map g := by
  intro ts
  simp only [ts, pointsOf_splitByLabel, List.map_append, List.filter_append]
  constructor
  · rw [filter_labelled_same real .real g, filter_labelled_other synth .synthetic .real (by decide) g]
    simp
  · rw [filter_labelled_other real .real .synthetic (by decide) g, filter_labelled_same synth .synthetic g]
    simp

theorem points_single {β : Type} (data : Frame α) (g : List α → β) :
    let ts := splitByLabel ((labelled data .real).map fun r => (g r.1, r.2))
    pointsOf ts .real = data.rows.map g ∧ pointsOf ts .synthetic = [] := by
  intro ts
  simp only [ts, pointsOf_splitByLabel]
  exact ⟨filter_labelled_same data .real g, filter_labelled_other data .real .synthetic (by decide) g⟩

end
end CopVerif.Model.Plot
