import CopVerif.Lemmas.VineTotal
/-!
  No pair of variables is conditioned twice — for ARBITRARY regular-vine structures (`TreesSpec`),
  truncated or not.  A pure counting proof on top of `LevelInv.count`
  ("at most `|S| - (j+1)` edges of tree `j` lie inside a variable set `S`"):

  * `cnt_vars`: the constraint set `U_e` of an edge `e` of tree `k` contains EXACTLY `k + 1 - j`
    edges of tree `j ≤ k` (its sub-vine) — inclusion–exclusion over the two parents;
  * `inside_parent`: every edge of a lower tree inside `U_e` lies inside the constraint set of one
    of the two parents of `e`; hence it does not contain both conditioned variables of `e`;
  * `exists_inter_edge`: for two edges `e`, `f` sharing two variables, `U_e ∩ U_f` is itself the
    constraint set of an edge (inclusion–exclusion on `U_e`, `U_f`, `U_e ∪ U_f`);
  * `cond_pair_injective`: equal conditioned pairs ⇒ same tree, same position.
-/
set_option linter.unusedSimpArgs false
set_option linter.unusedSectionVars false
set_option linter.unusedVariables false
namespace CopVerif.Model.Vine

/-! ## counting with filters -/

theorem length_filter_or_add_and {β : Type} (P Q : β → Bool) : ∀ l : List β,
    (l.filter fun x => P x || Q x).length + (l.filter fun x => P x && Q x).length =
      (l.filter P).length + (l.filter Q).length
  | [] => rfl
  | a :: l => by
    have ih := length_filter_or_add_and P Q l
    simp only [List.filter_cons]
    cases hP : P a <;> cases hQ : Q a <;> simp <;> omega

theorem length_filter_mono {β : Type} {P Q : β → Bool} : ∀ {l : List β},
    (∀ x ∈ l, P x = true → Q x = true) → (l.filter P).length ≤ (l.filter Q).length
  | [], _ => by simp
  | a :: l, h => by
    have ih := length_filter_mono (l := l) (fun x hx => h x (List.mem_cons_of_mem _ hx))
    have ha := h a (List.mem_cons_self ..)
    simp only [List.filter_cons]
    cases hP : P a <;> cases hQ : Q a <;> simp <;> first | omega | (rw [hP] at ha; simp [hQ] at ha)

/-- a sub-filter that is as long as the filter is the filter. -/
theorem filter_eq_of_length_le {β : Type} {P Q : β → Bool} : ∀ {l : List β},
    (∀ x ∈ l, P x = true → Q x = true) → (l.filter Q).length ≤ (l.filter P).length →
    ∀ x ∈ l, Q x = true → P x = true
  | [], _, _ => by simp
  | a :: l, h, hle => by
    have hmono := length_filter_mono (l := l) (fun x hx => h x (List.mem_cons_of_mem _ hx))
    have ha := h a (List.mem_cons_self ..)
    simp only [List.filter_cons] at hle
    intro x hx hQx
    cases hP : P a <;> cases hQ : Q a <;> simp only [hP, hQ, Bool.false_eq_true, ite_false,
      ite_true, List.length_cons] at hle
    · rcases List.mem_cons.mp hx with rfl | hx
      · rw [hQ] at hQx; exact absurd hQx (by simp)
      · exact filter_eq_of_length_le (fun y hy => h y (List.mem_cons_of_mem _ hy)) hle x hx hQx
    · omega
    · rw [hP] at ha; simp [hQ] at ha
    · rcases List.mem_cons.mp hx with rfl | hx
      · exact hP
      · exact filter_eq_of_length_le (fun y hy => h y (List.mem_cons_of_mem _ hy))
          (by omega) x hx hQx

/-- a duplicate-free list inside a list that is not longer contains it. -/
theorem subset_of_length_le {A B : List Nat} (hA : A.Nodup) (hB : B.Nodup) (hAB : A ⊆ B)
    (hl : B.length ≤ A.length) : B ⊆ A := by
  have hp : A.Perm B := (List.subperm_of_subset hA hAB).perm_of_length_le hl
  exact fun x hx => hp.mem_iff.mpr hx

/-! ## edges inside a variable set -/

/-- number of edges of `t` whose constraint set (`vars`) lies inside `S`. -/
def cnt (t : Tree) (S : List Nat) : Nat := (t.filter fun g => subsetB g.vars S).length

theorem cnt_pos {t : Tree} {S : List Nat} {g : Edge} (hg : g ∈ t) (h : ∀ x ∈ g.vars, x ∈ S) :
    1 ≤ cnt t S :=
  List.length_pos_of_mem (List.mem_filter.mpr ⟨hg, subsetB_iff.mpr h⟩)

theorem exists_of_cnt_pos {t : Tree} {S : List Nat} (h : 1 ≤ cnt t S) :
    ∃ g ∈ t, ∀ x ∈ g.vars, x ∈ S := by
  unfold cnt at h
  obtain ⟨g, hg⟩ := List.exists_mem_of_length_pos h
  obtain ⟨h1, h2⟩ := List.mem_filter.mp hg
  exact ⟨g, h1, subsetB_iff.mp h2⟩

/-- inclusion–exclusion: edges inside `A`, inside `B`, inside `A ∩ B`, inside `A ∪ B`. -/
theorem cnt_add_le (t : Tree) (A B : List Nat) :
    cnt t A + cnt t B ≤ cnt t (norm (A ++ B)) + cnt t (inter A B) := by
  unfold cnt
  rw [← length_filter_or_add_and]
  apply Nat.add_le_add
  · apply length_filter_mono
    intro g _ hg
    rw [Bool.or_eq_true, subsetB_iff, subsetB_iff] at hg
    rw [subsetB_iff]
    intro x hx
    rw [mem_norm, List.mem_append]
    rcases hg with hg | hg
    · exact Or.inl (hg x hx)
    · exact Or.inr (hg x hx)
  · apply length_filter_mono
    intro g _ hg
    rw [Bool.and_eq_true, subsetB_iff, subsetB_iff] at hg
    rw [subsetB_iff]
    intro x hx
    exact mem_inter.mpr ⟨hg.1 x hx, hg.2 x hx⟩

theorem cnt_mono (t : Tree) {A B : List Nat} (h : ∀ x ∈ A, x ∈ B) : cnt t A ≤ cnt t B := by
  unfold cnt
  apply length_filter_mono
  intro g _ hg
  rw [subsetB_iff] at hg ⊢
  exact fun x hx => h x (hg x hx)

/-! ## an edge and its two parents -/

/-- the facts about an edge `e` of tree `k + 1` and its parents `p`, `q` in tree `k` (`tk`). -/
structure ParentsOf (k : Nat) (tk : Tree) (e p q : Edge) : Prop where
  hp : p ∈ tk
  hq : q ∈ tk
  vars : ∀ x, x ∈ e.vars ↔ x ∈ p.vars ∨ x ∈ q.vars
  cond : ∀ x, x = e.L ∨ x = e.R ↔ (x ∈ p.vars ∧ x ∉ q.vars) ∨ (x ∈ q.vars ∧ x ∉ p.vars)
  D : ∀ x, x ∈ e.D ↔ x ∈ p.vars ∧ x ∈ q.vars
  Dnodup : e.D.Nodup
  Dlen : e.D.length = k + 1
  lt : e.L < e.R

theorem ParentsOf.inter_length {k : Nat} {tk : Tree} {e p q : Edge} (h : ParentsOf k tk e p q) :
    (inter p.vars q.vars).length = k + 1 := by
  have hperm : (inter p.vars q.vars).Perm e.D :=
    (List.perm_ext_iff_of_nodup (nodup_of_sorted (sorted_inter _ p.sorted_vars)) h.Dnodup).mpr
      (fun x => by rw [mem_inter, h.D])
  rw [hperm.length_eq, h.Dlen]

section
variable {d : Nat} {trees : List Tree}

theorem TreesSpec.kthEdgeAt (hspec : TreesSpec d 0 none trees) (k : Nat)
    (hk : k + 1 < trees.length) (e : Edge) (he : e ∈ trees[k + 1]) :
    ∃ i j, KthEdgeAt (k + 1) (trees[k]'(by omega)) e i j := by
  cases trees with
  | nil => simp at hk
  | cons t0 rest =>
    obtain ⟨_, hrest⟩ := hspec
    have hk' : k < rest.length := by simpa using hk
    obtain ⟨_, hedges⟩ := TreesSpec.spanning_aux rest 0 t0 hrest k hk'
    simp only [List.getElem_cons_succ] at he
    obtain ⟨i, j, hat⟩ := hedges e he
    have hprev : (t0 :: rest).getD k default = (t0 :: rest)[k]'(by simp; omega) :=
      getD_eq_getElem' _ (by simp; omega)
    rw [hprev, show 0 + 1 + k = k + 1 by omega] at hat
    exact ⟨i, j, hat⟩

theorem TreesSpec.parentsOf (hspec : TreesSpec d 0 none trees) (k : Nat)
    (hk : k + 1 < trees.length) (e : Edge) (he : e ∈ trees[k + 1]) :
    ∃ p q, ParentsOf k (trees[k]'(by omega)) e p q := by
  obtain ⟨i, j, hat⟩ := hspec.kthEdgeAt k hk e he
  refine ⟨_, _, getD_mem hat.hi, getD_mem hat.hj, ?_, hat.conditioned, hat.conditioning,
    nodup_of_sorted hat.sortedD, hat.card, hat.lt⟩
  intro x
  rw [Edge.mem_vars]
  have h1 := hat.conditioned x
  have h2 := hat.conditioning x
  tauto

/-- upper bound (`LevelInv.count`) at tree `j` of a vine structure. -/
theorem TreesSpec.cnt_le (hspec : TreesSpec d 0 none trees) {j : Nat} (hj : j < trees.length)
    {S : List Nat} (hS : S.Nodup) : cnt trees[j] S ≤ S.length - (j + 1) :=
  (hspec.levelInv j hj).1.count S hS

theorem TreesSpec.vars_length (hspec : TreesSpec d 0 none trees) {k : Nat} (hk : k < trees.length)
    {e : Edge} (he : e ∈ trees[k]) : e.vars.length = k + 2 :=
  (hspec.levelInv k hk).1.card e he

/-- **the sub-vine of an edge**: the constraint set of an edge of tree `k` contains exactly
    `k + 1 - j` edges of tree `j ≤ k`. -/
theorem TreesSpec.cnt_vars (hspec : TreesSpec d 0 none trees) : ∀ (k : Nat) (hk : k < trees.length)
    (e : Edge), e ∈ trees[k] → ∀ (j : Nat) (hjk : j ≤ k),
      cnt (trees[j]'(by omega)) e.vars = k + 1 - j := by
  intro k
  induction k with
  | zero =>
    intro hk e he j hjk
    obtain rfl : j = 0 := by omega
    have h1 := cnt_pos he (fun x hx => hx)
    have h2 := hspec.cnt_le hk (nodup_of_sorted e.sorted_vars)
    rw [hspec.vars_length hk he] at h2
    omega
  | succ k ih =>
    intro hk e he j hjk
    have hup := hspec.cnt_le (j := j) (by omega) (nodup_of_sorted e.sorted_vars)
    rw [hspec.vars_length hk he] at hup
    by_cases hj : j = k + 1
    · subst hj
      have h1 := cnt_pos he (fun x hx => hx)
      omega
    · have hjk' : j ≤ k := by omega
      obtain ⟨p, q, hpq⟩ := hspec.parentsOf k hk e he
      have ip := ih (by omega) p hpq.hp j hjk'
      have iq := ih (by omega) q hpq.hq j hjk'
      have hie := cnt_add_le (trees[j]'(by omega)) p.vars q.vars
      have hun : cnt (trees[j]'(by omega)) (norm (p.vars ++ q.vars)) ≤
          cnt (trees[j]'(by omega)) e.vars :=
        cnt_mono _ (fun x hx => by
          rw [mem_norm, List.mem_append] at hx; exact (hpq.vars x).mpr hx)
      have hin := hspec.cnt_le (j := j) (by omega)
        (nodup_of_sorted (sorted_inter q.vars p.sorted_vars))
      rw [hpq.inter_length] at hin
      omega

/-- every edge of a lower tree inside the constraint set of `e` lies inside the constraint set of
    one of the two parents of `e`. -/
theorem TreesSpec.inside_parent (hspec : TreesSpec d 0 none trees) {k : Nat}
    (hk : k + 1 < trees.length) {e p q : Edge} (he : e ∈ trees[k + 1])
    (hpq : ParentsOf k (trees[k]'(by omega)) e p q) {j : Nat} (hjk : j ≤ k) {g : Edge}
    (hg : g ∈ trees[j]'(by omega)) (hsub : ∀ x ∈ g.vars, x ∈ e.vars) :
    (∀ x ∈ g.vars, x ∈ p.vars) ∨ (∀ x ∈ g.vars, x ∈ q.vars) := by
  have hkl : k < trees.length := by omega
  have ip := hspec.cnt_vars k hkl p hpq.hp j hjk
  have iq := hspec.cnt_vars k hkl q hpq.hq j hjk
  have ie := hspec.cnt_vars (k + 1) hk e he j (by omega)
  have hin := hspec.cnt_le (j := j) (by omega)
    (nodup_of_sorted (sorted_inter q.vars p.sorted_vars))
  rw [hpq.inter_length] at hin
  have hio := length_filter_or_add_and (fun g : Edge => subsetB g.vars p.vars)
    (fun g : Edge => subsetB g.vars q.vars) (trees[j]'(by omega))
  have hand : ((trees[j]'(by omega)).filter fun g =>
      subsetB g.vars p.vars && subsetB g.vars q.vars).length ≤
      cnt (trees[j]'(by omega)) (inter p.vars q.vars) := by
    apply length_filter_mono
    intro g _ hg
    rw [Bool.and_eq_true, subsetB_iff, subsetB_iff] at hg
    rw [subsetB_iff]
    exact fun x hx => mem_inter.mpr ⟨hg.1 x hx, hg.2 x hx⟩
  have hand' := le_trans hand hin
  unfold cnt at ip iq ie
  beta_reduce at hio
  have key := filter_eq_of_length_le
    (P := fun g : Edge => subsetB g.vars p.vars || subsetB g.vars q.vars)
    (Q := fun g : Edge => subsetB g.vars e.vars) (l := trees[j]'(by omega))
    (by
      intro g _ hg
      simp only [Bool.or_eq_true, subsetB_iff] at hg
      rw [subsetB_iff]
      intro x hx
      rcases hg with hg | hg
      · exact (hpq.vars x).mpr (Or.inl (hg x hx))
      · exact (hpq.vars x).mpr (Or.inr (hg x hx)))
    (by omega) g hg (subsetB_iff.mpr hsub)
  simp only [Bool.or_eq_true, subsetB_iff] at key
  exact key

/-- … hence it does not contain both conditioned variables of `e`. -/
theorem TreesSpec.not_both_cond (hspec : TreesSpec d 0 none trees) {k : Nat}
    (hk : k + 1 < trees.length) {e : Edge} (he : e ∈ trees[k + 1]) {j : Nat} (hjk : j ≤ k)
    {g : Edge} (hg : g ∈ trees[j]'(by omega)) (hsub : ∀ x ∈ g.vars, x ∈ e.vars) :
    ¬ (e.L ∈ g.vars ∧ e.R ∈ g.vars) := by
  rintro ⟨hL, hR⟩
  obtain ⟨p, q, hpq⟩ := hspec.parentsOf k hk e he
  have hkl : k < trees.length := by omega
  -- if both conditioned variables lie in one parent, the other parent lies inside `D`
  have main : ∀ p q : Edge, q ∈ trees[k]'hkl → (∀ x, x ∈ e.vars ↔ x ∈ p.vars ∨ x ∈ q.vars) →
      (∀ x, x = e.L ∨ x = e.R ↔ (x ∈ p.vars ∧ x ∉ q.vars) ∨ (x ∈ q.vars ∧ x ∉ p.vars)) →
      (∀ x ∈ g.vars, x ∈ p.vars) → False := by
    intro p q hq hvars hcond hgp
    have hLq : e.L ∉ q.vars := by
      have := (hcond e.L).mp (Or.inl rfl)
      have := hgp _ hL
      tauto
    have hRq : e.R ∉ q.vars := by
      have := (hcond e.R).mp (Or.inr rfl)
      have := hgp _ hR
      tauto
    have hsubD : q.vars ⊆ e.D := by
      intro x hx
      have hxe : x ∈ e.vars := (hvars x).mpr (Or.inr hx)
      rcases Edge.mem_vars.mp hxe with rfl | rfl | h
      · exact absurd hx hLq
      · exact absurd hx hRq
      · exact h
    have := (List.subperm_of_subset (nodup_of_sorted q.sorted_vars) hsubD).length_le
    rw [hspec.vars_length hkl hq, hpq.Dlen] at this
    omega
  rcases hspec.inside_parent hk he hpq hjk hg hsub with h | h
  · exact main p q hpq.hq hpq.vars hpq.cond h
  · refine main q p hpq.hp (fun x => by rw [hpq.vars x]; exact or_comm)
      (fun x => by rw [hpq.cond x]; exact or_comm) h

/-- the conditioned pair of every edge of a vine structure is increasing. -/
theorem TreesSpec.cond_lt (hspec : TreesSpec d 0 none trees) {k : Nat} (hk : k < trees.length)
    {e : Edge} (he : e ∈ trees[k]) : e.L < e.R := by
  cases k with
  | zero =>
    cases trees with
    | nil => simp at hk
    | cons t0 rest => exact (hspec.1.1 e (by simpa using he)).lt
  | succ k =>
    obtain ⟨i, j, hat⟩ := hspec.kthEdgeAt k hk e he
    exact hat.lt

/-- **constraint sets are closed under intersection**: if the constraint sets of two edges share
    at least two variables, their intersection is the constraint set of an edge (of tree
    `|U_e ∩ U_f| - 2`). -/
theorem TreesSpec.exists_inter_edge (hspec : TreesSpec d 0 none trees) {k k' : Nat}
    (hk : k < trees.length) (hk' : k' < trees.length) (hkk : k ≤ k') {e f : Edge}
    (he : e ∈ trees[k]) (hf : f ∈ trees[k']) (h2 : 2 ≤ (inter e.vars f.vars).length) :
    ∃ (j : Nat) (hj : j ≤ k), j + 2 = (inter e.vars f.vars).length ∧
      ∃ g ∈ trees[j]'(by omega), ∀ x, x ∈ g.vars ↔ x ∈ e.vars ∧ x ∈ f.vars := by
  set S := inter e.vars f.vars with hS
  have hSnd : S.Nodup := nodup_of_sorted (sorted_inter _ e.sorted_vars)
  have hSle : S.length ≤ k + 2 := by
    rw [← hspec.vars_length hk he]
    exact List.length_filter_le _ _
  obtain ⟨j, hj⟩ : ∃ j, j + 2 = S.length := ⟨S.length - 2, by omega⟩
  have hjk : j ≤ k := by omega
  refine ⟨j, hjk, hj, ?_⟩
  have ce := hspec.cnt_vars k hk e he j hjk
  have cf := hspec.cnt_vars k' hk' f hf j (by omega)
  have hie := cnt_add_le (trees[j]'(by omega)) e.vars f.vars
  have hun := hspec.cnt_le (j := j) (by omega)
    (nodup_of_sorted (sorted_norm (e.vars ++ f.vars)))
  have hcard := length_union_add_inter (nodup_of_sorted e.sorted_vars)
    (nodup_of_sorted f.sorted_vars)
  rw [hspec.vars_length hk he, hspec.vars_length hk' hf] at hcard
  rw [← hS] at hcard hie
  have hpos : 1 ≤ cnt (trees[j]'(by omega)) S := by omega
  obtain ⟨g, hg, hgS⟩ := exists_of_cnt_pos hpos
  have hgl := hspec.vars_length (k := j) (by omega) hg
  have hSg : S ⊆ g.vars :=
    subset_of_length_le (nodup_of_sorted g.sorted_vars) hSnd hgS (by omega)
  exact ⟨g, hg, fun x => ⟨fun hx => mem_inter.mp (hgS x hx), fun hx => hSg (mem_inter.mpr hx)⟩⟩

theorem TreesSpec.cond_pair_aux (hspec : TreesSpec d 0 none trees) {k k' : Nat}
    (hk : k < trees.length) (hk' : k' < trees.length) (hkk : k ≤ k') {e f : Edge}
    (he : e ∈ trees[k]) (hf : f ∈ trees[k']) (hL : e.L = f.L) (hR : e.R = f.R) :
    k = k' ∧ e.vars = f.vars := by
  have hlt := hspec.cond_lt hk he
  have hLe : e.L ∈ e.vars := Edge.mem_vars.mpr (Or.inl rfl)
  have hRe : e.R ∈ e.vars := Edge.mem_vars.mpr (Or.inr (Or.inl rfl))
  have hLf : e.L ∈ f.vars := Edge.mem_vars.mpr (Or.inl hL)
  have hRf : e.R ∈ f.vars := Edge.mem_vars.mpr (Or.inr (Or.inl hR))
  have hSnd : (inter e.vars f.vars).Nodup := nodup_of_sorted (sorted_inter _ e.sorted_vars)
  have h2 : 2 ≤ (inter e.vars f.vars).length := by
    have hsub : [e.L, e.R] ⊆ inter e.vars f.vars := by
      intro x hx
      simp only [List.mem_cons, List.mem_nil_iff, or_false] at hx
      rcases hx with rfl | rfl
      · exact mem_inter.mpr ⟨hLe, hLf⟩
      · exact mem_inter.mpr ⟨hRe, hRf⟩
    have := (List.subperm_of_subset (l₁ := [e.L, e.R]) (by simp; omega) hsub).length_le
    simpa using this
  obtain ⟨j, hjk, hjS, g, hg, hgv⟩ := hspec.exists_inter_edge hk hk' hkk he hf h2
  have hgL : e.L ∈ g.vars := (hgv _).mpr ⟨hLe, hLf⟩
  have hgR : e.R ∈ g.vars := (hgv _).mpr ⟨hRe, hRf⟩
  -- `g` is not below `e`
  have hjk' : j = k := by
    by_contra hne
    obtain ⟨k0, rfl⟩ : ∃ k0, k = k0 + 1 := ⟨k - 1, by omega⟩
    exact hspec.not_both_cond hk he (j := j) (by omega) hg (fun x hx => ((hgv x).mp hx).1)
      ⟨hgL, hgR⟩
  subst hjk'
  -- so `U_e ⊆ U_f`
  have hef : e.vars ⊆ f.vars := by
    have hsub : inter e.vars f.vars ⊆ e.vars := fun x hx => (mem_inter.mp hx).1
    have := subset_of_length_le hSnd (nodup_of_sorted e.sorted_vars) hsub
      (by rw [hspec.vars_length hk he]; omega)
    exact fun x hx => (mem_inter.mp (this hx)).2
  have hkk' : j = k' := by
    by_contra hne
    obtain ⟨k0, rfl⟩ : ∃ k0, k' = k0 + 1 := ⟨k' - 1, by omega⟩
    exact hspec.not_both_cond hk' hf (j := j) (by omega) he (fun x hx => hef hx)
      ⟨hL ▸ hLe, hR ▸ hRe⟩
  subst hkk'
  refine ⟨rfl, sorted_ext e.sorted_vars f.sorted_vars (fun x => ⟨fun hx => hef hx, fun hx => ?_⟩)⟩
  exact subset_of_length_le (nodup_of_sorted e.sorted_vars) (nodup_of_sorted f.sorted_vars) hef
    (by rw [hspec.vars_length hk he, hspec.vars_length hk' hf]) hx

/-- **Two edges of a vine structure with the same conditioned pair lie in the same tree and have
    the same constraint set.** -/
theorem TreesSpec.cond_pair_injective (hspec : TreesSpec d 0 none trees) {k k' : Nat}
    (hk : k < trees.length) (hk' : k' < trees.length) {e f : Edge}
    (he : e ∈ trees[k]) (hf : f ∈ trees[k']) (hL : e.L = f.L) (hR : e.R = f.R) :
    k = k' ∧ e.vars = f.vars := by
  rcases Nat.le_total k k' with h | h
  · exact hspec.cond_pair_aux hk hk' h he hf hL hR
  · obtain ⟨h1, h2⟩ := hspec.cond_pair_aux hk' hk h hf he hL.symm hR.symm
    exact ⟨h1.symm, h2.symm⟩

/-- **`pairs_once` for every regular-vine structure** (full or truncated, any shape of trees):
    no pair of variables is conditioned twice. -/
theorem TreesSpec.pairsOnce (hspec : TreesSpec d 0 none trees) : PairsOnce trees := by
  unfold PairsOnce condPairs
  rw [List.nodup_flatMap]
  constructor
  · intro t ht
    obtain ⟨k, hk, rfl⟩ := List.getElem_of_mem ht
    rw [List.nodup_iff_injective_getElem]
    intro ⟨i, hi⟩ ⟨j, hj⟩ heq
    simp only [List.getElem_map, Prod.mk.injEq] at heq
    simp only [List.length_map] at hi hj
    by_contra hne
    have hij : i ≠ j := fun h => hne (by simp [h])
    have hvi := (hspec.levelInv k hk).1.vars_injective hi hj hij
    rw [getD_eq_getElem' _ hi, getD_eq_getElem' _ hj] at hvi
    exact hvi (hspec.cond_pair_injective hk hk (List.getElem_mem hi) (List.getElem_mem hj)
      heq.1 heq.2).2
  · rw [List.pairwise_iff_getElem]
    intro k k' hk hk' hlt
    simp only [Function.onFun, List.disjoint_left]
    intro pr h1 h2
    obtain ⟨e, he, rfl⟩ := List.mem_map.mp h1
    obtain ⟨f, hf, hfe⟩ := List.mem_map.mp h2
    simp only [Prod.mk.injEq] at hfe
    have := (hspec.cond_pair_injective hk hk' he hf hfe.1.symm hfe.2.symm).1
    omega

end
end CopVerif.Model.Vine
