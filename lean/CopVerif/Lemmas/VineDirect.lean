import CopVerif.Lemmas.VineCenter
import Mathlib.Order.Basic
/-!
  `DirectTree`: the k-th tree joins consecutive edges of the previous tree (a path again); the
  first tree is the greedy path, a Hamiltonian path whenever all taus exceed the marker `-10`.
-/
set_option linter.unusedSimpArgs false
set_option linter.unusedSectionVars false
set_option linter.unusedVariables false
namespace CopVerif.Model.Vine

/-- consecutive edges of the list share a node. -/
def ConsecShare (first : Bool) (t : Tree) : Prop :=
  ∀ i, i + 1 < t.length → ShareNode first (t.getD i default) (t.getD (i + 1) default)

/-- the construction shape of a direct vine's trees: the first tree is the edge list of a
    duplicate-free node sequence; edge `i` of a later tree joins edges `i` and `i + 1`. -/
def DShape (first : Bool) (t : Tree) : Prop :=
  if first then ∃ T1 : List Nat, T1.Nodup ∧ t = pathEdges T1
  else List.Forall₂ (fun k e => e.ends false = (k, k + 1) ∨ e.ends false = (k + 1, k))
    (List.range t.length) t

def SharesEnd (p q : Nat × Nat) : Prop := p.1 = q.1 ∨ p.1 = q.2 ∨ p.2 = q.1 ∨ p.2 = q.2

theorem Walks.consec {v : Nat} {seen : List Nat} {pairs : List (Nat × Nat)} (h : Walks v seen pairs) :
    (∀ p, pairs.head? = some p → p.1 = v ∨ p.2 = v) ∧
    ∀ i (hi : i + 1 < pairs.length), SharesEnd (pairs[i]'(by omega)) pairs[i + 1] := by
  induction h with
  | nil v seen => simp
  | @fwd v b seen rest hb _ ih =>
    refine ⟨by simp, fun i hi => ?_⟩
    cases i with
    | zero =>
      cases rest with
      | nil => simp at hi
      | cons q rest =>
        have := ih.1 q rfl
        simp only [List.getElem_cons_zero, List.getElem_cons_succ, SharesEnd]
        rcases this with h | h <;> simp [h]
    | succ i => simpa using ih.2 i (by simpa using hi)
  | @bwd v a seen rest ha _ ih =>
    refine ⟨by simp, fun i hi => ?_⟩
    cases i with
    | zero =>
      cases rest with
      | nil => simp at hi
      | cons q rest =>
        have := ih.1 q rfl
        simp only [List.getElem_cons_zero, List.getElem_cons_succ, SharesEnd]
        rcases this with h | h <;> simp [h]
    | succ i => simpa using ih.2 i (by simpa using hi)

theorem consecShare_of_walks {first : Bool} {t : Tree} {v : Nat} {seen : List Nat}
    (h : Walks v seen (t.map (Edge.ends first))) : ConsecShare first t := by
  intro i hi
  have := h.consec.2 i (by simpa using hi)
  simp only [List.getElem_map] at this
  rw [getD_eq_getElem' _ (by omega), getD_eq_getElem' _ hi]
  rcases this with h | h | h | h
  · exact ⟨_, Or.inl rfl, Or.inl h⟩
  · exact ⟨_, Or.inl rfl, Or.inr h⟩
  · exact ⟨_, Or.inr rfl, Or.inl h⟩
  · exact ⟨_, Or.inr rfl, Or.inr h⟩

/-- the edge list `{s, s+1}, {s+1, s+2}, …` (each in either order) walks and grows from `s`. -/
theorem walks_grows_range {n : Nat} : ∀ {m s : Nat} {pairs : List (Nat × Nat)} {seen : List Nat},
    List.Forall₂ (fun k p => p = (k, k + 1) ∨ p = (k + 1, k)) (List.range' s m) pairs →
    s ∈ seen → (∀ x ∈ seen, x ≤ s) → s + m < n → Walks s seen pairs ∧ Grows n seen pairs
  | 0, s, _, seen, .nil, _, _, _ => ⟨.nil _ _, .nil _⟩
  | m + 1, s, _, seen, .cons hq hrest, hs, hle, hn => by
    have hnew : s + 1 ∉ seen := fun h => by have := hle _ h; omega
    have hrec := walks_grows_range (n := n) (seen := (s + 1) :: seen) hrest
      (List.mem_cons_self ..) (by
        intro x hx; rcases List.mem_cons.mp hx with rfl | hx
        · exact Nat.le_refl _
        · exact Nat.le_succ_of_le (hle x hx)) (by omega)
    rcases hq with rfl | rfl
    · exact ⟨.fwd hnew hrec.1, .fwd hs hnew (by omega) hrec.2⟩
    · exact ⟨.bwd hnew hrec.1, .bwd hs hnew (by omega) hrec.2⟩

section
variable {α : Type} [LT α] [DecidableLT α] [Neg α] [NumFns α]

/-- **k-th tree of a direct vine** over a tree `prev` whose consecutive edges share a node: edge
    `k` is the child of `edges[k]` and `edges[k+1]`; the new tree is again a path (and a spanning
    tree) on the edges of `prev`. -/
theorem directKth_spec {n : Nat} {pp : Option Tree} {prev : Tree} {tau : Mat α} {t : Tree}
    {ts : List α} (hn : 2 ≤ n) (hlen : prev.length = n) (hcons : ConsecShare pp.isNone prev)
    (h : directKth n prev tau = .ok (t, ts)) :
    t.length + 1 = n ∧ (∀ e ∈ t, ChildOK pp.isNone prev e) ∧
      SpanningTree n (t.map (Edge.ends false)) ∧ Walks 0 [0] (t.map (Edge.ends false)) ∧
      DShape false t := by
  unfold directKth at h
  rw [bind_eq_ok] at h
  obtain ⟨t', ht', h⟩ := h
  simp only [pure, Except.pure, Except.ok.injEq, Prod.mk.injEq] at h
  obtain ⟨rfl, _⟩ := h
  have hall := mapM_ok ht'
  have hl : t'.length = n - 1 := by rw [← hall.length_eq]; simp
  have hedge : List.Forall₂ (fun k e => ChildOK pp.isNone prev e ∧
      (e.ends false = (k, k + 1) ∨ e.ends false = (k + 1, k))) (List.range (n - 1)) t' := by
    refine forall₂_imp_mem hall ?_
    intro k e hk _ hce
    obtain ⟨hkl, hk1l, a, b, hab, _, hpar, hid⟩ := childEdge_ok hce
    have hsh := hcons k hk1l
    rcases hab with ⟨rfl, rfl⟩ | ⟨rfl, rfl⟩
    · exact ⟨⟨_, _, hkl, hk1l, by omega, hpar, hsh, hid⟩, Or.inl (by simp [Edge.ends, hpar])⟩
    · exact ⟨⟨_, _, hk1l, hkl, by omega, hpar, hsh.symm, hid⟩, Or.inr (by simp [Edge.ends, hpar])⟩
  have hwg := walks_grows_range (n := n) (m := n - 1) (s := 0) (seen := [0])
    (pairs := t'.map (Edge.ends false)) (by
      rw [← List.range_eq_range', List.forall₂_map_right_iff]
      exact hedge.imp fun _ _ h => h.2) (by simp) (by simp) (by omega)
  refine ⟨by omega, ?_, ⟨by simp; omega, 0, by omega, hwg.2⟩, hwg.1, ?_⟩
  · intro e he
    obtain ⟨r, _, hS⟩ := forall₂_exists_left hedge e he
    exact hS.1
  · simp only [DShape, Bool.false_eq_true, ite_false]
    rw [hl]
    exact hedge.imp fun _ _ h => h.2

end
/-! ## the first tree: the greedy path -/

section
variable {α : Type} [Preorder α] [DecidableLT α] [Neg α] [NumFns α]

/-- entry `(i, c)` of a matrix, as the code reads it. -/
def cell (m : Mat α) (i c : Nat) : α := (m.getD i []).getD c (NumFns.ofNat 0)

theorem getD_setCol (m : Mat α) (j : Nat) (v : α) (i : Nat) :
    (m.setCol j v).getD i [] = (m.getD i []).set j v := by
  unfold Mat.setCol
  simp only [List.getD_eq_getElem?_getD, List.getElem?_map]
  cases m[i]? <;> simp

theorem rowlen_setCol (m : Mat α) (j : Nat) (v : α) (i : Nat) :
    ((m.setCol j v).getD i []).length = (m.getD i []).length := by
  rw [getD_setCol]; simp

theorem getD_set (row : List α) (j c : Nat) (v z : α) :
    (row.set j v).getD c z = if c = j ∧ j < row.length then v else row.getD c z := by
  simp only [List.getD_eq_getElem?_getD, List.getElem?_set]
  by_cases hjc : j = c
  · subst hjc
    by_cases hlt : j < row.length
    · simp [hlt]
    · have : row[j]? = none := by simp; omega
      simp [hlt, this]
  · have : ¬ (c = j ∧ j < row.length) := fun h => hjc h.1.symm
    simp [hjc, this]

theorem cell_setCol (m : Mat α) (j : Nat) (v : α) (i c : Nat) :
    cell (m.setCol j v) i c = if c = j ∧ j < (m.getD i []).length then v else cell m i c := by
  unfold cell
  rw [getD_setCol]
  exact getD_set _ _ _ _ _

/-! ### `np.argmax` -/

/-- `argmaxFrom` returns an index whose entry is not strictly below any other entry. -/
theorem argmaxFrom_spec : ∀ (xs pre : List α) (best : Nat) (bv : α),
    best < pre.length → (pre.getD best (NumFns.ofNat 0) = bv) →
    (∀ j, j < pre.length → ¬ bv < pre.getD j (NumFns.ofNat 0)) →
    let r := argmaxFrom best bv pre.length xs
    r < (pre ++ xs).length ∧
      ∀ j, j < (pre ++ xs).length →
        ¬ (pre ++ xs).getD r (NumFns.ofNat 0) < (pre ++ xs).getD j (NumFns.ofNat 0)
  | [], pre, best, bv, hb, hbv, hmax => by
    simp only [argmaxFrom, List.append_nil]
    exact ⟨hb, fun j hj => by rw [hbv]; exact hmax j hj⟩
  | x :: xs, pre, best, bv, hb, hbv, hmax => by
    simp only [argmaxFrom]
    have happ : pre ++ x :: xs = (pre ++ [x]) ++ xs := by simp
    have hlen : (pre ++ [x]).length = pre.length + 1 := by simp
    have hgetx : (pre ++ [x]).getD pre.length (NumFns.ofNat 0) = x := by
      simp [List.getD_eq_getElem?_getD]
    have hgetj : ∀ j, j < pre.length →
        (pre ++ [x]).getD j (NumFns.ofNat 0) = pre.getD j (NumFns.ofNat 0) := by
      intro j hj
      simp [List.getD_eq_getElem?_getD, List.getElem?_append_left hj]
    split_ifs with hlt
    · have := argmaxFrom_spec xs (pre ++ [x]) pre.length x (by simp) hgetx (by
        intro j hj
        rw [hlen] at hj
        rcases Nat.lt_succ_iff_lt_or_eq.mp hj with hj | rfl
        · rw [hgetj j hj]
          intro hxj
          exact hmax j hj (lt_trans hlt hxj)
        · rw [hgetx]; exact lt_irrefl _)
      rw [hlen] at this
      rw [happ]; exact this
    · have := argmaxFrom_spec xs (pre ++ [x]) best bv (by simp; omega)
        (by rw [hgetj best hb]; exact hbv) (by
        intro j hj
        rw [hlen] at hj
        rcases Nat.lt_succ_iff_lt_or_eq.mp hj with hj | rfl
        · rw [hgetj j hj]; exact hmax j hj
        · rw [hgetx]; exact hlt)
      rw [hlen] at this
      rw [happ]; exact this

theorem argmax_spec (row : List α) (h : row ≠ []) :
    argmax row < row.length ∧ ∀ j, j < row.length →
      ¬ row.getD (argmax row) (NumFns.ofNat 0) < row.getD j (NumFns.ofNat 0) := by
  cases row with
  | nil => exact absurd rfl h
  | cons x xs =>
    have := argmaxFrom_spec xs [x] 0 x (by simp) (by simp) (by
      intro j hj
      have : j = 0 := by simpa using hj
      subst this; simp)
    simpa [argmax] using this

/-! ### the greedy loop -/

/-- invariant of the `for k in range(2, n_nodes - 1)` loop of `DirectTree._build_first_tree`. -/
structure GInv (n : Nat) (m : Mat α) (T1 : List Nat) : Prop where
  nodup : T1.Nodup
  lt : ∀ v ∈ T1, v < n
  rows : ∀ i, i < n → (m.getD i []).length = n
  marked : ∀ i, i < n → ∀ c, c < n → c ∈ T1 → cell m i c = m10
  open_ : ∀ i, i < n → ∀ c, c < n → c ∉ T1 → (m10 : α) < cell m i c

/-- in a row of the current matrix, `argmax` picks an unvisited column. -/
theorem GInv.argmax_new {n : Nat} {m : Mat α} {T1 : List Nat} (h : GInv n m T1) {i : Nat}
    (hi : i < n) (hfree : T1.length < n) :
    argmax (m.getD i []) < n ∧ argmax (m.getD i []) ∉ T1 := by
  have hrow := h.rows i hi
  have hne : m.getD i [] ≠ [] := by
    intro h0; rw [h0] at hrow; simp at hrow; omega
  obtain ⟨h1, h2⟩ := argmax_spec (m.getD i []) hne
  rw [hrow] at h1 h2
  refine ⟨h1, fun hmem => ?_⟩
  -- some column is unvisited
  obtain ⟨c, hc, hcn⟩ : ∃ c, c < n ∧ c ∉ T1 := by
    by_contra hcon
    simp only [not_exists, not_and, not_not] at hcon
    have hsub : List.range n ⊆ T1 := fun j hj => hcon j (List.mem_range.mp hj)
    have := (List.subperm_of_subset List.nodup_range hsub).length_le
    simp at this; omega
  have hm := h.marked i hi _ h1 hmem
  have ho := h.open_ i hi c hc hcn
  have := h2 c hc
  unfold cell at hm ho
  rw [hm] at this
  exact this ho

theorem GInv.visit {n : Nat} {m : Mat α} {T1 : List Nat} (h : GInv n m T1) {c : Nat}
    (hc : c < n) (hnew : c ∉ T1) {T1' : List Nat} (hperm : T1'.Perm (c :: T1)) :
    GInv n (m.setCol c m10) T1' where
  nodup := hperm.nodup_iff.mpr (List.nodup_cons.mpr ⟨hnew, h.nodup⟩)
  lt := by
    intro v hv
    rcases List.mem_cons.mp (hperm.mem_iff.mp hv) with rfl | hv
    · exact hc
    · exact h.lt v hv
  rows := by intro i hi; rw [rowlen_setCol]; exact h.rows i hi
  marked := by
    intro i hi c' hc' hmem
    rw [cell_setCol]
    split_ifs with hcc
    · rfl
    · rcases List.mem_cons.mp (hperm.mem_iff.mp hmem) with rfl | hmem
      · exact absurd ⟨rfl, by rw [h.rows i hi]; exact hc⟩ hcc
      · exact h.marked i hi c' hc' hmem
  open_ := by
    intro i hi c' hc' hnm
    rw [cell_setCol]
    have hne : c' ≠ c := by
      rintro rfl; exact hnm (hperm.mem_iff.mpr (List.mem_cons_self ..))
    have : ¬ (c' = c ∧ c < (m.getD i []).length) := fun hh => hne hh.1
    rw [if_neg this]
    exact h.open_ i hi c' hc' (fun hm => hnm (hperm.mem_iff.mpr (List.mem_cons_of_mem _ hm)))

theorem headD_mem {l : List Nat} (h : l ≠ []) : l.headD 0 ∈ l := by
  cases l with
  | nil => exact absurd rfl h
  | cons a l => simp

theorem getLastD_mem {l : List Nat} (h : l ≠ []) : l.getLastD 0 ∈ l := by
  rw [List.getLastD_eq_getLast?]
  cases hl : l.getLast? with
  | none => simp at hl; exact absurd hl h
  | some a => exact List.mem_of_mem_getLast? (by simp [hl])

/-- the greedy loop extends the node sequence by `fuel` new nodes. -/
theorem greedyLoop_spec {n : Nat} : ∀ (fuel : Nat) (m : Mat α) (T1 : List Nat) (tT1 : List α),
    GInv n m T1 → T1 ≠ [] → T1.length + fuel ≤ n →
    let r := greedyLoop fuel m T1 tT1
    r.1.Nodup ∧ (∀ v ∈ r.1, v < n) ∧ r.1.length = T1.length + fuel
  | 0, m, T1, tT1, h, _, _ => by simp [greedyLoop]; exact ⟨h.nodup, h.lt⟩
  | fuel + 1, m, T1, tT1, h, hne, hlen => by
    have hfree : T1.length < n := by omega
    have hL := h.argmax_new (h.lt _ (headD_mem hne)) hfree
    have hR := h.argmax_new (h.lt _ (getLastD_mem hne)) hfree
    simp only [greedyLoop]
    split_ifs with hlt
    · have := greedyLoop_spec fuel _ (argmax (m.getD (T1.headD 0) []) :: T1)
        ((m.getD (T1.headD 0) []).getD (argmax (m.getD (T1.headD 0) [])) (NumFns.ofNat 0) :: tT1)
        (h.visit hL.1 hL.2 (List.Perm.refl _)) (by simp) (by simp; omega)
      simp only [List.length_cons] at this
      refine ⟨this.1, this.2.1, ?_⟩
      rw [this.2.2]; omega
    · have := greedyLoop_spec fuel _ (T1 ++ [argmax (m.getD (T1.getLastD 0) [])])
        (tT1 ++ [(m.getD (T1.getLastD 0) []).getD (argmax (m.getD (T1.getLastD 0) []))
          (NumFns.ofNat 0)])
        (h.visit hR.1 hR.2 (by
          rw [List.perm_comm]; exact List.perm_append_singleton _ _ |>.symm)) (by simp)
        (by simp; omega)
      simp only [List.length_append, List.length_singleton] at this
      refine ⟨this.1, this.2.1, ?_⟩
      rw [this.2.2]; omega

/-! ### from the node sequence to the first tree -/

omit [Preorder α] [DecidableLT α] [Neg α] [NumFns α] in
theorem ends_mkSorted (a b : Nat) :
    (mkSorted a b).ends true = (a, b) ∨ (mkSorted a b).ends true = (b, a) := by
  unfold mkSorted
  split_ifs <;> simp [Edge.ends, mkEdge]

omit [Preorder α] [DecidableLT α] [Neg α] [NumFns α] in
theorem firstEdgeSpec_mkSorted {n a b : Nat} (ha : a < n) (hb : b < n) (hab : a ≠ b) :
    FirstEdgeSpec n (mkSorted a b) := by
  unfold mkSorted
  split_ifs with h
  · exact ⟨rfl, rfl, h, ha⟩
  · exact ⟨rfl, rfl, by simp [mkEdge]; omega, hb⟩

omit [Preorder α] [DecidableLT α] [Neg α] [NumFns α] in
/-- the edges along a duplicate-free node sequence form a path that grows as a tree. -/
theorem pathEdges_spec {n : Nat} : ∀ (T1 : List Nat), T1.Nodup → (∀ v ∈ T1, v < n) →
    (pathEdges T1).length = T1.length - 1 ∧ (∀ e ∈ pathEdges T1, FirstEdgeSpec n e) ∧
    ∀ v rest, T1 = v :: rest → ∀ seen : List Nat, v ∈ seen → (∀ x ∈ rest, x ∉ seen) →
      Walks v seen ((pathEdges T1).map (Edge.ends true)) ∧
      Grows n seen ((pathEdges T1).map (Edge.ends true))
  | [], _, _ => by simp [pathEdges]
  | [a], _, _ => by
    simp only [pathEdges, List.length_nil, List.length_singleton, Nat.sub_self, List.not_mem_nil,
      false_imp_iff, implies_true, List.map_nil, true_and]
    intro v rest _ seen _ _
    exact ⟨.nil _ _, .nil _⟩
  | a :: b :: rest, hnd, hlt => by
    have hnd' := List.nodup_cons.mp hnd
    have ih := pathEdges_spec (n := n) (b :: rest) hnd'.2
      (fun v hv => hlt v (List.mem_cons_of_mem _ hv))
    have hab : a ≠ b := fun h => hnd'.1 (h ▸ List.mem_cons_self ..)
    refine ⟨by simp [pathEdges, ih.1], ?_, ?_⟩
    · intro e he
      simp only [pathEdges, List.mem_cons] at he
      rcases he with rfl | he
      · exact firstEdgeSpec_mkSorted (hlt a (by simp)) (hlt b (by simp)) hab
      · exact ih.2.1 e he
    · intro v rest' heq seen hv hseen
      simp only [List.cons.injEq] at heq
      obtain ⟨rfl, rfl⟩ := heq
      have hbs : b ∉ seen := hseen b (List.mem_cons_self ..)
      have hrec := ih.2.2 b rest rfl (b :: seen) (List.mem_cons_self ..) (by
        intro x hx hmem
        rcases List.mem_cons.mp hmem with rfl | hmem
        · exact (List.nodup_cons.mp hnd'.2).1 hx
        · exact hseen x (List.mem_cons_of_mem _ hx) hmem)
      simp only [pathEdges, List.map_cons]
      rcases ends_mkSorted a b with h | h <;> rw [h]
      · exact ⟨.fwd hbs hrec.1, .fwd hv hbs (hlt b (by simp)) hrec.2⟩
      · exact ⟨.bwd hbs hrec.1, .bwd hv hbs (hlt b (by simp)) hrec.2⟩

/-- the tau matrix is `n × n`. -/
def Square (n : Nat) (tau : Mat α) : Prop := ∀ i, i < n → (tau.getD i []).length = n

/-- every entry exceeds the marker `-10` (Kendall taus lie in `[-1, 1]`). -/
def AllAbove (n : Nat) (tau : Mat α) : Prop := ∀ i, i < n → ∀ c, c < n → (m10 : α) < tau.get i c

structure Top2Facts (n : Nat) (keys : List α) (l r : Nat) : Prop where
  ll : l < n
  rl : r < n
  ne : l ≠ r
  ge : ¬ keyAt keys l < keyAt keys r
  rest : ∀ i, i < n → i ≠ l → i ≠ r → ¬ keyAt keys r < keyAt keys i

theorem top2Ok_facts {n : Nat} {keys : List α} {l r : Nat} (h : top2Ok n keys l r = true) :
    Top2Facts n keys l r := by
  simp only [top2Ok, Bool.and_eq_true, decide_eq_true_eq, bne_iff_ne, ne_eq, Bool.not_eq_true',
    decide_eq_false_iff_not, List.all_eq_true, List.mem_range, Bool.or_eq_true, beq_iff_eq] at h
  obtain ⟨⟨⟨⟨h1, h2⟩, h3⟩, h4⟩, h5⟩ := h
  refine ⟨h1, h2, h3, h4, fun i hi hil hir => ?_⟩
  rcases h5 i hi with (h | h) | h
  · exact absurd h hil
  · exact absurd h hir
  · exact h

theorem top2_left_ne_zero {n : Nat} {tau : Mat α} {l r : Nat} (hcol : ColOK n tau)
    (h : Top2Facts n (colKeys tau 0 n) l r) : l ≠ 0 := by
  rintro rfl
  have hr0 : 0 < r := Nat.pos_of_ne_zero (fun h0 => h.ne h0.symm)
  have := h.ge
  rw [keyAt_colKeys_zero tau n h.ll, keyAt_colKeys tau n r h.rl] at this
  have hb : (r == 0) = false := by simp; omega
  rw [hb] at this
  exact this (hcol r hr0 h.rl)

theorem top2_right_ne_zero {n : Nat} {tau : Mat α} {l r : Nat} (hn : 3 ≤ n) (hcol : ColOK n tau)
    (h : Top2Facts n (colKeys tau 0 n) l r) : r ≠ 0 := by
  rintro rfl
  have hl0 := top2_left_ne_zero hcol h
  obtain ⟨i, hi, hil, hi0⟩ : ∃ i, i < n ∧ i ≠ l ∧ i ≠ 0 := by
    by_cases h1 : l = 1
    · exact ⟨2, by omega, by omega, by omega⟩
    · exact ⟨1, by omega, fun h => h1 h.symm, by omega⟩
  have := h.rest i hi hil hi0
  rw [keyAt_colKeys_zero tau n h.rl, keyAt_colKeys tau n i hi] at this
  have hb : (i == 0) = false := by simp; omega
  rw [hb] at this
  exact this (hcol i (Nat.pos_of_ne_zero hi0) hi)

/-- **First tree of a direct vine**: for every accepted choice of the two strongest partners of
    variable 0, the greedy procedure yields a Hamiltonian path on the `n` variables; its edges in
    order are a path and grow as a spanning tree. -/
theorem directFirst_spec {n : Nat} {tau : Mat α} {l r : Nat} {t : Tree} {ts : List α}
    (hn : 2 ≤ n) (hsq : Square n tau) (hcol : ColOK n tau) (habove : AllAbove n tau)
    (h : directFirst n tau l r = .ok (t, ts)) :
    t.length + 1 = n ∧ (∀ e ∈ t, FirstEdgeSpec n e) ∧
      SpanningTree n (t.map (Edge.ends true)) ∧ IsPath (t.map (Edge.ends true)) ∧
      DShape true t ∧ Top2Facts n (colKeys tau 0 n) l r := by
  unfold directFirst at h
  split at h
  · rename_i hok
    have hf := top2Ok_facts hok
    have hl0 := top2_left_ne_zero hcol hf
    simp only [Except.ok.injEq, Prod.mk.injEq] at h
    obtain ⟨rfl, _⟩ := h
    rcases Nat.lt_or_ge n 3 with hn3 | hn3
    · -- two variables: the single edge (0, 1)
      have hn2 : n = 2 := by omega
      subst hn2
      have hl1 : l = 1 := by have := hf.ll; omega
      subst hl1
      have : (greedyPath 2 tau 1 r).1 = [1, 0, r] := by simp [greedyPath, greedyLoop]
      rw [this]
      simp only [pathEdges, List.take_succ_cons, List.take_zero]
      have hm : mkSorted 1 0 = mkEdge 0 1 := by simp [mkSorted]
      rw [hm]
      refine ⟨rfl, ?_, ⟨rfl, 0, by omega, ?_⟩, ⟨0, ?_⟩,
        by simp only [DShape, ite_true]; exact ⟨[1, 0], by simp, by simp [pathEdges, hm]⟩, hf⟩
      · intro e he
        simp only [List.mem_singleton] at he; subst he
        exact ⟨rfl, rfl, by simp [mkEdge], by simp [mkEdge]⟩
      · simp only [List.map_cons, List.map_nil, Edge.ends, mkEdge, ite_true]
        exact .fwd (by simp) (by simp) (by omega) (.nil _)
      · simp only [List.map_cons, List.map_nil, Edge.ends, mkEdge, ite_true]
        exact .fwd (by simp) (.nil _ _)
    · have hr0 := top2_right_ne_zero hn3 hcol hf
      have g0 : GInv n tau [] :=
        ⟨List.nodup_nil, by simp, hsq, by simp, fun i hi c hc _ => habove i hi c hc⟩
      have g1 := g0.visit hf.ll (by simp) (List.Perm.refl [l])
      have g2 := g1.visit (c := 0) (by omega) (by simp; exact hl0.symm) (T1' := [l, 0])
        (List.Perm.swap _ _ _)
      have g3 := g2.visit hf.rl (by simp; exact ⟨hf.ne.symm, hr0⟩) (T1' := [l, 0, r])
        (List.perm_append_singleton r [l, 0])
      have hspec := greedyLoop_spec (n - 3) _ [l, 0, r]
        [(colVals tau 0 n).getD l (NumFns.ofNat 0), (colVals tau 0 n).getD r (NumFns.ofNat 0)]
        g3 (by simp) (by simp; omega)
      obtain ⟨T1, hT1eq, hnd, hlt, hlen'⟩ : ∃ T1, (greedyPath n tau l r).1 = T1 ∧ T1.Nodup ∧
          (∀ v ∈ T1, v < n) ∧ T1.length = n :=
        ⟨_, rfl, hspec.1, hspec.2.1, by
          have := hspec.2.2
          simp only [List.length_cons, List.length_nil] at this
          show (greedyLoop _ _ _ _).1.length = n
          omega⟩
      rw [hT1eq]
      have hp := pathEdges_spec (n := n) T1 hnd hlt
      have htake : (pathEdges T1).take (n - 1) = pathEdges T1 :=
        List.take_of_length_le (by rw [hp.1]; omega)
      rw [htake]
      obtain ⟨v, rest, hvr⟩ : ∃ v rest, T1 = v :: rest := by
        cases hT : T1 with
        | nil => rw [hT] at hlen'; simp at hlen'; omega
        | cons v rest => exact ⟨v, rest, rfl⟩
      have hw := hp.2.2 v rest hvr [v] (by simp) (by
        intro x hx hmem
        simp only [List.mem_singleton] at hmem; subst hmem
        rw [hvr] at hnd
        exact (List.nodup_cons.mp hnd).1 hx)
      refine ⟨by rw [hp.1]; omega, hp.2.1, ⟨by simp [hp.1]; omega, v, ?_, hw.2⟩, ⟨v, hw.1⟩,
        by simp only [DShape, ite_true]; exact ⟨T1, hnd, rfl⟩, hf⟩
      exact hlt v (by rw [hvr]; simp)
  · simp at h

end
end CopVerif.Model.Vine
