import CopVerif.Lemmas.VinePairs
/-!
  No pair of variables is conditioned twice — for D-vine structures: the first tree is the edge
  list of a node sequence `T1`, edge `i` of every later tree joins edges `i` and `i + 1` of the
  previous one.  Edge `i` of tree `k` then has the variables `T1[i … i+k+1]` and the conditioned
  pair `{T1[i], T1[i+k+1]}`.
-/
set_option linter.unusedSimpArgs false
set_option linter.unusedSectionVars false
set_option linter.unusedVariables false
set_option linter.unnecessarySeqFocus false
namespace CopVerif.Model.Vine

theorem pathEdges_getD : ∀ (T1 : List Nat) (i : Nat), i + 1 < T1.length →
    (pathEdges T1).getD i default = mkSorted (T1.getD i 0) (T1.getD (i + 1) 0)
  | [], i, h => by simp at h
  | [a], i, h => by simp at h
  | a :: b :: rest, 0, _ => by simp [pathEdges]
  | a :: b :: rest, i + 1, h => by
    have := pathEdges_getD (b :: rest) i (by simpa using h)
    simpa [pathEdges] using this

theorem length_pathEdges : ∀ (T1 : List Nat), (pathEdges T1).length = T1.length - 1
  | [] => rfl
  | [a] => rfl
  | a :: b :: rest => by simp [pathEdges, length_pathEdges (b :: rest)]

/-- edge `i` of tree `k`: its variables are the window `T1[i … i+k+1]`, its conditioned pair the
    two ends of the window. -/
structure Win (T1 : List Nat) (k : Nat) (t : Tree) : Prop where
  len : t.length + k + 1 = T1.length
  vars : ∀ i, i < t.length → ∀ x, x ∈ (t.getD i default).vars ↔
    ∃ j, i ≤ j ∧ j ≤ i + k + 1 ∧ T1[j]? = some x
  pair : ∀ i, i < t.length →
    ((t.getD i default).L = T1.getD i 0 ∧ (t.getD i default).R = T1.getD (i + k + 1) 0) ∨
    ((t.getD i default).L = T1.getD (i + k + 1) 0 ∧ (t.getD i default).R = T1.getD i 0)

theorem getD_eq_iff_getElem? {l : List Nat} {j x : Nat} (hj : j < l.length) :
    l.getD j 0 = x ↔ l[j]? = some x := by
  rw [getD_eq_getElem' _ hj, List.getElem?_eq_getElem hj]; simp

theorem Win.first {T1 : List Nat} (hlen : 1 ≤ T1.length) : Win T1 0 (pathEdges T1) where
  len := by rw [length_pathEdges]; omega
  vars := by
    intro i hi x
    rw [length_pathEdges] at hi
    rw [pathEdges_getD T1 i (by omega)]
    have h1 : i < T1.length := by omega
    have h2 : i + 1 < T1.length := by omega
    have hm : x ∈ (mkSorted (T1.getD i 0) (T1.getD (i + 1) 0)).vars ↔
        x = T1.getD i 0 ∨ x = T1.getD (i + 1) 0 := by
      unfold mkSorted
      split_ifs <;> simp [Edge.mem_vars, mkEdge] <;> tauto
    rw [hm]
    constructor
    · rintro (rfl | rfl)
      · exact ⟨i, le_refl _, by omega, (getD_eq_iff_getElem? h1).mp rfl⟩
      · exact ⟨i + 1, by omega, by omega, (getD_eq_iff_getElem? h2).mp rfl⟩
    · rintro ⟨j, hj1, hj2, hj⟩
      have : j = i ∨ j = i + 1 := by omega
      rcases this with rfl | rfl
      · exact Or.inl ((getD_eq_iff_getElem? h1).mpr hj).symm
      · exact Or.inr ((getD_eq_iff_getElem? h2).mpr hj).symm
  pair := by
    intro i hi
    rw [length_pathEdges] at hi
    rw [pathEdges_getD T1 i (by omega)]
    unfold mkSorted
    split_ifs
    · right; simp [mkEdge]
    · left; simp [mkEdge]

/-- from `{L, R} = {u, w}` as sets to the two possible assignments. -/
theorem pair_cases {L R u w : Nat} (h : ∀ x, x = L ∨ x = R ↔ x = u ∨ x = w) :
    (L = u ∧ R = w) ∨ (L = w ∧ R = u) ∨ (L = R) := by
  have hL := (h L).mp (Or.inl rfl)
  have hR := (h R).mp (Or.inr rfl)
  rcases hL with hL | hL <;> rcases hR with hR | hR
  · right; right; rw [hL, hR]
  · exact Or.inl ⟨hL, hR⟩
  · exact Or.inr (Or.inl ⟨hL, hR⟩)
  · right; right; rw [hL, hR]

theorem Win.next {T1 : List Nat} {k : Nat} {pp : Option Tree} {prev t : Tree}
    (hT : T1.Nodup) (hw : Win T1 k prev) (hinv : LevelInv k pp prev)
    (hk : ∀ e ∈ t, KthEdgeSpec (k + 1) prev e) (hlen : t.length + 1 = prev.length)
    (hshape : DShape false t) : Win T1 (k + 1) t := by
  simp only [DShape, Bool.false_eq_true, ite_false] at hshape
  have hfirst : ((k + 1 == 1) : Bool) = pp.isNone := by rw [hinv.first_iff]; simp
  -- per-index facts
  have hidx : ∀ i (hi : i < t.length),
      (∀ x, x = (t.getD i default).L ∨ x = (t.getD i default).R ↔
        (x ∈ (prev.getD i default).vars ∧ x ∉ (prev.getD (i + 1) default).vars) ∨
        (x ∈ (prev.getD (i + 1) default).vars ∧ x ∉ (prev.getD i default).vars)) ∧
      (t.getD i default).L < (t.getD i default).R ∧
      ∀ x, x ∈ (t.getD i default).vars ↔
        x ∈ (prev.getD i default).vars ∨ x ∈ (prev.getD (i + 1) default).vars := by
    intro i hi
    have hmem : t.getD i default ∈ t := getD_mem hi
    obtain ⟨a, b, hat⟩ := hk _ hmem
    obtain ⟨a', b', _, hends, _, hv⟩ := hinv.kthEdge (childOK_of_kthEdgeAt hat hfirst)
    have hab : (a', b') = (a, b) := by
      rw [← hends]
      simp only [Edge.ends, Bool.false_eq_true, ite_false, hat.parents, Option.getD_some]
    simp only [Prod.mk.injEq] at hab
    obtain ⟨rfl, rfl⟩ := hab
    have hsh := List.forall₂_iff_get.mp hshape
    have := hsh.2 i (by simpa using hi) hi
    simp only [List.get_eq_getElem, List.getElem_range] at this
    rw [← getD_eq_getElem' default hi, hends] at this
    rcases this with h | h
    · simp only [Prod.mk.injEq] at h
      obtain ⟨rfl, rfl⟩ := h
      exact ⟨hat.conditioned, hat.lt, hv⟩
    · simp only [Prod.mk.injEq] at h
      obtain ⟨rfl, rfl⟩ := h
      refine ⟨fun x => ?_, hat.lt, fun x => ?_⟩
      · rw [hat.conditioned x]; exact or_comm
      · rw [hv x]; exact or_comm
  have hget : ∀ j, j < T1.length → ∀ j', j' < T1.length → T1[j]? = T1[j']? → j = j' := by
    intro j hj j' hj' h
    rw [List.getElem?_eq_getElem hj, List.getElem?_eq_getElem hj'] at h
    exact (List.Nodup.getElem_inj_iff hT).mp (Option.some.inj h)
  refine ⟨by have := hw.len; omega, ?_, ?_⟩
  · intro i hi x
    rw [(hidx i hi).2.2 x, hw.vars i (by omega), hw.vars (i + 1) (by omega)]
    constructor
    · rintro (⟨j, h1, h2, h3⟩ | ⟨j, h1, h2, h3⟩)
      · exact ⟨j, h1, by omega, h3⟩
      · exact ⟨j, by omega, by omega, h3⟩
    · rintro ⟨j, h1, h2, h3⟩
      by_cases hj : j ≤ i + k + 1
      · exact Or.inl ⟨j, h1, hj, h3⟩
      · exact Or.inr ⟨j, by omega, by omega, h3⟩
  · intro i hi
    obtain ⟨hc, hlt, _⟩ := hidx i hi
    have hb1 : i < T1.length := by have := hw.len; omega
    have hb2 : i + (k + 1) + 1 < T1.length := by have := hw.len; omega
    have hset : ∀ x, x = (t.getD i default).L ∨ x = (t.getD i default).R ↔
        x = T1.getD i 0 ∨ x = T1.getD (i + (k + 1) + 1) 0 := by
      intro x
      rw [hc x, hw.vars i (by omega), hw.vars (i + 1) (by omega)]
      constructor
      · rintro (⟨⟨j, h1, h2, h3⟩, hn⟩ | ⟨⟨j, h1, h2, h3⟩, hn⟩)
        · have : j = i := by
            by_contra hne
            exact hn ⟨j, by omega, by omega, h3⟩
          subst this
          exact Or.inl ((getD_eq_iff_getElem? hb1).mpr h3).symm
        · have : j = i + (k + 1) + 1 := by
            by_contra hne
            exact hn ⟨j, by omega, by omega, h3⟩
          subst this
          exact Or.inr ((getD_eq_iff_getElem? hb2).mpr h3).symm
      · rintro (rfl | rfl)
        · left
          refine ⟨⟨i, le_refl _, by omega, (getD_eq_iff_getElem? hb1).mp rfl⟩, ?_⟩
          rintro ⟨j, h1, h2, h3⟩
          have hjl : j < T1.length := by
            by_contra hge
            rw [List.getElem?_eq_none (by omega)] at h3; simp at h3
          have := hget j hjl i hb1 (by rw [h3]; exact ((getD_eq_iff_getElem? hb1).mp rfl).symm)
          omega
        · right
          refine ⟨⟨i + (k + 1) + 1, by omega, by omega, (getD_eq_iff_getElem? hb2).mp rfl⟩, ?_⟩
          rintro ⟨j, h1, h2, h3⟩
          have hjl : j < T1.length := by
            by_contra hge
            rw [List.getElem?_eq_none (by omega)] at h3; simp at h3
          have := hget j hjl _ hb2 (by rw [h3]; exact ((getD_eq_iff_getElem? hb2).mp rfl).symm)
          omega
    rcases pair_cases hset with h | h | h
    · exact Or.inl h
    · exact Or.inr h
    · omega

/-- `p` is the pair of the two ends of a window of `T1` with index gap `g`. -/
def GapPair (T1 : List Nat) (g i : Nat) (p : Nat × Nat) : Prop :=
  i + g < T1.length ∧ ((p.1 = T1.getD i 0 ∧ p.2 = T1.getD (i + g) 0) ∨
    (p.1 = T1.getD (i + g) 0 ∧ p.2 = T1.getD i 0))

/-- in a duplicate-free sequence a pair determines its window. -/
theorem GapPair.unique {T1 : List Nat} (hT : T1.Nodup) {g g' i i' : Nat} {p : Nat × Nat}
    (hg : 0 < g) (hg' : 0 < g') (h : GapPair T1 g i p) (h' : GapPair T1 g' i' p) :
    g = g' ∧ i = i' := by
  obtain ⟨hb, hp⟩ := h
  obtain ⟨hb', hp'⟩ := h'
  have inj : ∀ a b, a < T1.length → b < T1.length → T1.getD a 0 = T1.getD b 0 → a = b := by
    intro a b ha hb h
    rw [getD_eq_getElem' _ ha, getD_eq_getElem' _ hb] at h
    exact (List.Nodup.getElem_inj_iff hT).mp h
  rcases hp with ⟨h1, h2⟩ | ⟨h1, h2⟩ <;> rcases hp' with ⟨h1', h2'⟩ | ⟨h1', h2'⟩
  · have e1 := inj _ _ (by omega) (by omega) (h1.symm.trans h1')
    have e2 := inj _ _ (by omega) (by omega) (h2.symm.trans h2')
    omega
  · have e1 := inj _ _ (by omega) (by omega) (h1.symm.trans h1')
    have e2 := inj _ _ (by omega) (by omega) (h2.symm.trans h2')
    omega
  · have e1 := inj _ _ (by omega) (by omega) (h1.symm.trans h1')
    have e2 := inj _ _ (by omega) (by omega) (h2.symm.trans h2')
    omega
  · have e1 := inj _ _ (by omega) (by omega) (h1.symm.trans h1')
    have e2 := inj _ _ (by omega) (by omega) (h2.symm.trans h2')
    omega

theorem Win.gapPair {T1 : List Nat} {k : Nat} {t : Tree} (hw : Win T1 k t) {i : Nat}
    (hi : i < t.length) :
    GapPair T1 (k + 1) i ((t.getD i default).L, (t.getD i default).R) := by
  refine ⟨by have := hw.len; omega, ?_⟩
  simpa [Nat.add_assoc] using hw.pair i hi

theorem Win.pairs_nodup {T1 : List Nat} {k : Nat} {t : Tree} (hT : T1.Nodup) (hw : Win T1 k t) :
    (t.map fun e => (e.L, e.R)).Nodup := by
  rw [List.nodup_iff_injective_getElem]
  intro ⟨i, hi⟩ ⟨j, hj⟩ heq
  simp only [List.getElem_map] at heq
  simp only [List.length_map] at hi hj
  have h1 := hw.gapPair hi
  have h2 := hw.gapPair hj
  rw [getD_eq_getElem' _ hi] at h1
  rw [getD_eq_getElem' _ hj, ← heq] at h2
  have := (GapPair.unique hT (by omega) (by omega) h1 h2).2
  exact Fin.ext this

theorem pairs_direct_aux {d : Nat} {T1 : List Nat} (hT : T1.Nodup) : ∀ (trees : List Tree)
    (k : Nat) (pp : Option Tree) (prev : Tree), LevelInv k pp prev → Win T1 k prev →
    prev.length = d - (k + 1) → TreesSpec d (k + 1) (some prev) trees →
    (∀ t ∈ trees, DShape false t) →
    (condPairs trees).Nodup ∧ ∀ p ∈ condPairs trees, ∃ g i, k + 1 < g ∧ GapPair T1 g i p
  | [], _, _, _, _, _, _, _, _ => by simp [condPairs]
  | t :: ts, k, pp, prev, hinv, hw, hlen, hspec, hshapes => by
    obtain ⟨⟨hk, hspan⟩, hrest⟩ := hspec
    have hfirst : ((k + 1 == 1) : Bool) = pp.isNone := by rw [hinv.first_iff]; simp
    have hch : ∀ e ∈ t, ChildOK pp.isNone prev e := by
      intro e he
      obtain ⟨i, j, hat⟩ := hk e he
      exact childOK_of_kthEdgeAt hat hfirst
    have htl : t.length + 1 = prev.length := by rw [hlen]; simpa using hspan.1
    obtain ⟨_, hinv'⟩ := hinv.next htl hch (by rw [hlen]; exact hspan)
    have hw' := hw.next hT hinv hk htl (hshapes t (List.mem_cons_self ..))
    obtain ⟨r1, r2⟩ := pairs_direct_aux hT ts (k + 1) (some prev) t hinv' hw' (by omega) hrest
      (fun t' ht' => hshapes t' (List.mem_cons_of_mem _ ht'))
    have hown : ∀ e ∈ t, ∃ i, GapPair T1 (k + 2) i (e.L, e.R) := by
      intro e he
      obtain ⟨i, hi, rfl⟩ := List.getElem_of_mem he
      have := hw'.gapPair hi
      rw [getD_eq_getElem' _ hi] at this
      exact ⟨i, this⟩
    refine ⟨treePairs_nodup_cons (hw'.pairs_nodup hT) r1 ?_, ?_⟩
    · intro e he hmem
      obtain ⟨i, hi⟩ := hown e he
      obtain ⟨g, i', hg, hg'⟩ := r2 _ hmem
      have := (GapPair.unique hT (by omega) (by omega) hi hg').1
      omega
    · intro p hp
      unfold condPairs at hp
      simp only [List.flatMap_cons, List.mem_append] at hp
      rcases hp with hp | hp
      · obtain ⟨e, he, rfl⟩ := List.mem_map.mp hp
        obtain ⟨i, hi⟩ := hown e he
        exact ⟨k + 2, i, by omega, hi⟩
      · obtain ⟨g, i, hg, h⟩ := r2 p hp
        exact ⟨g, i, by omega, h⟩

/-- **`pairs_once` for D-vines**: in a vine structure whose first tree is the edge list of a
    duplicate-free node sequence and in whose later trees edge `i` joins edges `i` and `i + 1`, no
    pair of variables is conditioned twice. -/
theorem pairsOnce_of_paths {d : Nat} {t0 : Tree} {rest : List Tree} (hd : 2 ≤ d)
    (hspec : TreesSpec d 0 none (t0 :: rest)) (h0 : DShape true t0)
    (hrest : ∀ t ∈ rest, DShape false t) : PairsOnce (t0 :: rest) := by
  obtain ⟨⟨he, hspan⟩, hr⟩ := hspec
  have hinv := LevelInv.first (by simpa using hspan.1) he hspan
  simp only [DShape, ite_true] at h0
  obtain ⟨T1, hT, rfl⟩ := h0
  have hl := hspan.1
  rw [List.length_map, length_pathEdges] at hl
  have hw := Win.first (T1 := T1) (by omega)
  obtain ⟨r1, r2⟩ := pairs_direct_aux hT rest 0 none (pathEdges T1) hinv hw
    (by rw [length_pathEdges]; omega) hr hrest
  refine treePairs_nodup_cons (hw.pairs_nodup hT) r1 ?_
  intro e hmem hin
  obtain ⟨i, hi, rfl⟩ := List.getElem_of_mem hmem
  have h1 := hw.gapPair hi
  rw [getD_eq_getElem' _ hi] at h1
  obtain ⟨g, i', hg, hg'⟩ := r2 _ hin
  have := (GapPair.unique hT (by omega) (by omega) h1 hg').1
  omega

end CopVerif.Model.Vine
