import CopVerif.Real.Schur
import CopVerif.Gen.GaussCond
/-!
  C12, translator tie (T): bridge lemmas between the definitions GENERATED from the source
  (`CopVerif/Gen/GaussCond.lean`, re-written by `tools/gen_gausscond.py` on every run) and the hand model
  `CopVerif/Model/GaussCond.lean` with both repairs (`Variant.repaired`).

  The lemmas about the table section (`affine_eq`, `dictLoop_eq`, …) are about fixed text; the `gen_*` lemmas are
  about text that changes with the source, so their proofs go through the robust tactic `gc_bridge`.
-/
namespace CopVerif.GaussCondGen
open CopVerif CopVerif.Model.GaussCond CopVerif.GaussCond NumFns
open CopVerif.Gen.GaussCond

section table
variable {ι α : Type} [DecidableEq ι] [Add α] [Sub α] [Mul α] [NumFns α]

theorem foldl_congr_mem {β γ : Type} (l : List γ) (f g : β → γ → β) (h : ∀ b, ∀ x ∈ l, f b x = g b x) (b : β) :
    l.foldl f b = l.foldl g b := by
  induction l generalizing b with
  | nil => rfl
  | cons x xs ih =>
    simp only [List.foldl_cons]
    rw [h b x (by simp)]
    exact ih (fun b y hy => h b y (List.mem_cons_of_mem _ hy)) _

omit [DecidableEq ι] [Sub α] [Mul α] in
theorem sumRange_congr (k : ℕ) (f g : ℕ → α) (h : ∀ l, l < k → f l = g l) : sumRange k f = sumRange k g := by
  unfold sumRange
  apply foldl_congr_mem
  intro b x hx
  rw [h x (List.mem_range.1 hx)]

omit [DecidableEq ι] [Add α] [Sub α] [Mul α] in
theorem npZeros_getD (n i : ℕ) : (npZeros n : List α).getD i (ofNat 0) = ofNat 0 := by
  unfold npZeros
  by_cases h : i < n
  · simp [List.getD_eq_getElem?_getD, h]
  · simp [List.getD_eq_getElem?_getD, h]

theorem range_map_getD {β : Type} (n : ℕ) (f : ℕ → β) (d : β) {i : ℕ} (hi : i < n) :
    ((List.range n).map f).getD i d = f i := by
  simp [List.getD_eq_getElem?_getD, hi]

omit [DecidableEq ι] in
/-- `mu1 + A @ (z - mu2)` with `mu1 = np.zeros(m)`, `mu2 = np.zeros(k)`, operation by operation, is the
    model's fused `affineMean`. -/
theorem affine_eq (m k : ℕ) (A : List (List α)) (z : List α) :
    vecAdd m (npZeros m) (matVec m k A (vecSub k z (npZeros k))) = affineMean m k A z := by
  unfold vecAdd matVec vecSub affineMean
  apply List.map_congr_left
  intro i hi
  have hi' : i < m := List.mem_range.1 hi
  rw [npZeros_getD, range_map_getD _ _ _ hi']
  congr 1
  apply sumRange_congr
  intro l hl
  rw [range_map_getD _ _ _ hl, npZeros_getD]

omit [DecidableEq ι] in
theorem affineMean_isEmpty (m k : ℕ) (A : List (List α)) (z : List α) :
    (affineMean m k A z).isEmpty = decide (m = 0) := by
  cases m with
  | zero => simp [affineMean]
  | succ m => simp [affineMean, List.range_succ]

omit [Add α] [Sub α] [Mul α] [NumFns α] in
theorem isEmpty_eq_decide_length {β : Type} (l : List β) : l.isEmpty = decide (l.length = 0) := by
  cases l <;> simp

omit [Add α] [Sub α] [Mul α] [NumFns α] in
/-- `pd.Series(<walked scores>, index=<walked columns>)` is the list of walked (label, score) pairs. -/
theorem seriesOf_walked (cols : List ι) (score : ι → α → α) (items : List (ι × α)) :
    seriesOf (cols.filter fun x => decide (x ∈ items.map Prod.fst)) ((walkedScores cols score items).map Prod.snd)
      = .ok (walkedScores cols score items) := by
  have h := walkedScores_fst cols score items
  unfold walked at h
  unfold seriesOf
  rw [← h]
  simp [zip_fst_snd]

omit [Add α] [Sub α] [Mul α] [NumFns α] in
/-- the `out = {}; for …: out[k] = …; DataFrame(out)` idiom over the generated loop body is the model's
    `planCols` followed by `evalCol`, when the body is. -/
theorem dictLoop_eq (v : Variant) (c : Conditions ι α) (body : ι → Except Err (List α))
    (ev : ι → ColPlan ι α → List α)
    (hbody : ∀ col, body col = match colPlan v c col with
      | .error e => .error e
      | .ok p => .ok (ev col p)) (cols : List ι) :
    dictLoop body cols = match planCols v c cols with
      | .error e => .error e
      | .ok ps => .ok (ps.map fun q => (q.1, ev q.1 q.2)) := by
  induction cols with
  | nil => rfl
  | cons col rest ih =>
    simp only [dictLoop, planCols, hbody col, ih]
    cases colPlan v c col with
    | error e => rfl
    | ok p =>
      cases planCols v c rest with
      | error e => rfl
      | ok ps => rfl

end table

/-- closes a bridge `generated = model`: unfold the generated definition and the table, then `rfl`, or the
    lemmas about the fixed table text, or plain simplification. -/
macro "gc_bridge" "[" ids:Lean.Parser.Tactic.simpLemma,* "]" : tactic =>
  `(tactic| first
    | rfl
    | (simp only [$ids,*]; done)
    | (simp only [$ids,*, indexDifference, columns1, condMean, condCov, gain, affine_eq]; done)
    | (simp only [$ids,*, indexDifference, columns1, condMean, condCov, gain, affine_eq]; rfl)
    | (simp [$ids,*, indexDifference, columns1, condMean, condCov, gain, affine_eq]; done))

end CopVerif.GaussCondGen
