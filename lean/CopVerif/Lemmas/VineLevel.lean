import CopVerif.Lemmas.VineGrow
/-!
  The level invariant of a regular vine and the counting argument.

  `LevelInv k prev t`: tree `t` (level `k`, 0-based, over the previous tree `prev`) is a spanning
  tree whose edges have `k + 2` variables, the union of the variable sets of their two end nodes
  (`k + 1` variables each), and for every variable set `S` at most `|S| - k` nodes lie inside `S`.
  From it: at most `|S| - (k+1)` edges lie inside `S` (forest bound), hence different edges have
  different variable sets, and two edges whose union has `k + 3` variables share a node — the
  equivalence between `Tree._check_constraint` and proximity.
-/
set_option linter.unusedSimpArgs false
namespace CopVerif.Model.Vine

def subsetB (A S : List Nat) : Bool := A.all fun x => S.contains x

theorem subsetB_iff {A S : List Nat} : subsetB A S = true ↔ ∀ x ∈ A, x ∈ S := by
  simp [subsetB]

/-- variable set of node `v` of a tree over `prev`: the variable itself in the first tree, the
    variable set of edge `v` of the previous tree afterwards. -/
def nodeVars (prev : Option Tree) (v : Nat) : List Nat :=
  match prev with
  | none => [v]
  | some p => (p.getD v default).vars

theorem sorted_nodeVars (prev : Option Tree) (v : Nat) : SortedS (nodeVars prev v) := by
  cases prev with
  | none => simp [nodeVars, SortedS]
  | some p => exact Edge.sorted_vars _

structure LevelInv (k : Nat) (prev : Option Tree) (t : Tree) : Prop where
  first_iff : prev.isNone = (k == 0)
  span : SpanningTree (t.length + 1) (t.map (Edge.ends prev.isNone))
  nodeCard : ∀ v, v < t.length + 1 → (nodeVars prev v).length = k + 1
  varsEq : ∀ e ∈ t, ∀ x, x ∈ e.vars ↔
    x ∈ nodeVars prev (e.ends prev.isNone).1 ∨ x ∈ nodeVars prev (e.ends prev.isNone).2
  card : ∀ e ∈ t, e.vars.length = k + 2
  nodeCount : ∀ S : List Nat, S.Nodup →
    ((List.range (t.length + 1)).filter fun v => subsetB (nodeVars prev v) S).length ≤ S.length - k

/-! ### list helpers -/

theorem map_getD_range {β : Type} (l : List β) (d : β) :
    (List.range l.length).map (fun i => l.getD i d) = l := by
  apply List.ext_getElem
  · simp
  · intro i h1 h2
    simp at h1
    simp [List.getD_eq_getElem?_getD, h1]

theorem length_filter_range_getD {β : Type} (l : List β) (d : β) (P : β → Bool) :
    ((List.range l.length).filter fun i => P (l.getD i d)).length = (l.filter P).length := by
  conv_rhs => rw [← map_getD_range l d]
  rw [List.filter_map, List.length_map]
  rfl

theorem getD_eq_getElem' {β : Type} {l : List β} {i : Nat} (d : β) (hi : i < l.length) :
    l.getD i d = l[i] := (List.getElem_eq_getD d).symm

theorem two_le_length_filter {β : Type} {P : β → Bool} : ∀ {l : List β} {i j : Nat}
    (hi : i < j) (hj : j < l.length), P (l[i]'(by omega)) = true → P l[j] = true →
    2 ≤ (l.filter P).length
  | [], _, _, _, hj, _, _ => by simp at hj
  | a :: l, 0, j + 1, _, hj, h1, h2 => by
    have hj' : j < l.length := by simpa using hj
    simp only [List.getElem_cons_zero] at h1
    simp only [List.getElem_cons_succ] at h2
    have : l[j] ∈ l.filter P := List.mem_filter.mpr ⟨List.getElem_mem _, h2⟩
    have := List.length_pos_of_mem this
    simp [List.filter_cons, h1]; omega
  | a :: l, i + 1, j + 1, hi, hj, h1, h2 => by
    simp only [List.getElem_cons_succ] at h1 h2
    have := two_le_length_filter (l := l) (i := i) (j := j) (by omega) (by simpa using hj) h1 h2
    rw [List.filter_cons]; split <;> simp <;> omega

theorem length_norm_of_nodup {l : List Nat} (h : l.Nodup) : (norm l).length = l.length :=
  ((List.perm_ext_iff_of_nodup (nodup_of_sorted (sorted_norm l)) h).mpr
    (fun _ => mem_norm)).length_eq

theorem getD_mem {t : Tree} {i : Nat} (hi : i < t.length) : t.getD i default ∈ t := by
  rw [getD_eq_getElem' _ hi]; exact List.getElem_mem _

theorem ends_mem_map {t : Tree} {first : Bool} {i : Nat} (hi : i < t.length) :
    (t.getD i default).ends first ∈ t.map (Edge.ends first) :=
  List.mem_map.mpr ⟨_, getD_mem hi, rfl⟩

namespace LevelInv
variable {k : Nat} {prev : Option Tree} {t : Tree}

theorem ends_lt (h : LevelInv k prev t) {e : Edge} (he : e ∈ t) :
    (e.ends prev.isNone).1 < t.length + 1 ∧ (e.ends prev.isNone).2 < t.length + 1 := by
  obtain ⟨_, root, hroot, hg⟩ := h.span
  exact hg.ends_lt (by simpa using hroot) _ (List.mem_map.mpr ⟨e, he, rfl⟩)

theorem ends_ne (h : LevelInv k prev t) {e : Edge} (he : e ∈ t) :
    (e.ends prev.isNone).1 ≠ (e.ends prev.isNone).2 := by
  obtain ⟨_, root, hroot, hg⟩ := h.span
  exact hg.ends_ne _ (List.mem_map.mpr ⟨e, he, rfl⟩)

/-- an edge lies inside `S` iff both its end nodes do. -/
theorem inside_iff (h : LevelInv k prev t) {e : Edge} (he : e ∈ t) (S : List Nat) :
    subsetB e.vars S = (subsetB (nodeVars prev (e.ends prev.isNone).1) S &&
      subsetB (nodeVars prev (e.ends prev.isNone).2) S) := by
  rw [Bool.eq_iff_iff]
  simp only [Bool.and_eq_true, subsetB_iff]
  constructor
  · intro hx
    exact ⟨fun x hx' => hx x ((h.varsEq e he x).mpr (Or.inl hx')),
      fun x hx' => hx x ((h.varsEq e he x).mpr (Or.inr hx'))⟩
  · rintro ⟨h1, h2⟩ x hx
    rcases (h.varsEq e he x).mp hx with h' | h'
    · exact h1 x h'
    · exact h2 x h'

/-- **Counting bound**: at most `|S| - (k+1)` edges of a level-`k` tree have all their variables
    in `S`. -/
theorem count (h : LevelInv k prev t) (S : List Nat) (hS : S.Nodup) :
    (t.filter fun e => subsetB e.vars S).length ≤ S.length - (k + 1) := by
  obtain ⟨_, root, hroot, hg⟩ := h.span
  have hf := hg.forest (P := fun v => subsetB (nodeVars prev v) S) hroot
  have hn := h.nodeCount S hS
  have : (t.filter fun e => subsetB e.vars S).length =
      insideCount (fun v => subsetB (nodeVars prev v) S) (t.map (Edge.ends prev.isNone)) := by
    unfold insideCount
    rw [List.filter_map, List.length_map]
    congr 1
    apply List.filter_congr
    intro e he
    exact h.inside_iff he S
  omega

/-- different edges of a tree have different variable sets. -/
theorem vars_injective (h : LevelInv k prev t) {i j : Nat} (hi : i < t.length) (hj : j < t.length)
    (hij : i ≠ j) : (t.getD i default).vars ≠ (t.getD j default).vars := by
  intro heq
  have hc := h.count (t.getD i default).vars (nodup_of_sorted (Edge.sorted_vars _))
  rw [h.card _ (getD_mem hi)] at hc
  have h1 : subsetB (t.getD i default).vars (t.getD i default).vars = true :=
    subsetB_iff.mpr fun x hx => hx
  have h2 : subsetB (t.getD j default).vars (t.getD i default).vars = true := by
    rw [← heq]; exact h1
  rw [getD_eq_getElem' _ hi] at h1 hc
  rw [getD_eq_getElem' _ hj, getD_eq_getElem' _ hi] at h2
  rcases Nat.lt_or_gt_of_ne hij with hlt | hlt
  · have := two_le_length_filter (P := fun e => subsetB e.vars t[i].vars) hlt hj h1 h2
    omega
  · have := two_le_length_filter (P := fun e => subsetB e.vars t[i].vars) hlt hi h2 h1
    omega

/-- **`_check_constraint` ⇒ proximity**: two different edges of a level-`k` tree whose variable
    sets have a union of `k + 3` elements share a node. -/
theorem share_of_union_card (h : LevelInv k prev t) {i j : Nat} (hi : i < t.length)
    (hj : j < t.length) (hij : i ≠ j)
    (hU : (norm ((t.getD i default).vars ++ (t.getD j default).vars)).length = k + 3) :
    ShareNode prev.isNone (t.getD i default) (t.getD j default) := by
  set S := norm ((t.getD i default).vars ++ (t.getD j default).vars) with hS
  have hSnd : S.Nodup := nodup_of_sorted (sorted_norm _)
  have hn := h.nodeCount S hSnd
  rw [hU] at hn
  have hin : ∀ m, m < t.length → (m = i ∨ m = j) → subsetB (t.getD m default).vars S = true := by
    intro m _ hm
    apply subsetB_iff.mpr
    intro x hx
    rw [hS, mem_norm, List.mem_append]
    rcases hm with rfl | rfl
    · exact Or.inl hx
    · exact Or.inr hx
  have hi' := hin i hi (Or.inl rfl)
  have hj' := hin j hj (Or.inr rfl)
  rw [h.inside_iff (getD_mem hi), Bool.and_eq_true] at hi'
  rw [h.inside_iff (getD_mem hj), Bool.and_eq_true] at hj'
  have hli := h.ends_lt (getD_mem hi)
  have hlj := h.ends_lt (getD_mem hj)
  have hni := h.ends_ne (getD_mem hi)
  have hnj := h.ends_ne (getD_mem hj)
  set a := ((t.getD i default).ends prev.isNone).1
  set b := ((t.getD i default).ends prev.isNone).2
  set c := ((t.getD j default).ends prev.isNone).1
  set f := ((t.getD j default).ends prev.isNone).2
  by_contra hns
  have hd : [a, b, c, f].Nodup := by
    simp only [List.nodup_cons, List.mem_cons, List.mem_nil_iff, or_false, not_or, List.nodup_nil,
      and_true, not_false_eq_true]
    refine ⟨⟨hni, ?_, ?_⟩, ⟨?_, ?_⟩, hnj⟩
    · intro hac; exact hns ⟨a, Or.inl rfl, Or.inl hac⟩
    · intro haf; exact hns ⟨a, Or.inl rfl, Or.inr haf⟩
    · intro hbc; exact hns ⟨b, Or.inr rfl, Or.inl hbc⟩
    · intro hbf; exact hns ⟨b, Or.inr rfl, Or.inr hbf⟩
  have hsub : [a, b, c, f] ⊆
      (List.range (t.length + 1)).filter fun v => subsetB (nodeVars prev v) S := by
    intro v hv
    simp only [List.mem_cons, List.mem_nil_iff, or_false] at hv
    rw [List.mem_filter, List.mem_range]
    rcases hv with rfl | rfl | rfl | rfl
    · exact ⟨hli.1, hi'.1⟩
    · exact ⟨hli.2, hi'.2⟩
    · exact ⟨hlj.1, hj'.1⟩
    · exact ⟨hlj.2, hj'.2⟩
  have := (List.subperm_of_subset hd hsub).length_le
  simp at this
  omega

/-- **proximity ⇒ `_identify_eds_ing` succeeds with the regular-vine sets**: two different edges
    of a level-`k` tree sharing a node have `|A △ B| = 2`, `|A ∩ B| = k + 1` and `|A ∪ B| = k + 3`. -/
theorem identify_of_share (h : LevelInv k prev t) {i j : Nat} (hi : i < t.length)
    (hj : j < t.length) (hij : i ≠ j)
    (hs : ShareNode prev.isNone (t.getD i default) (t.getD j default)) :
    ∃ l r, identify (t.getD i default) (t.getD j default) =
        .ok (l, r, inter (t.getD i default).vars (t.getD j default).vars) ∧ l < r ∧
      symDiff (t.getD i default).vars (t.getD j default).vars = [l, r] ∧
      (inter (t.getD i default).vars (t.getD j default).vars).length = k + 1 := by
  obtain ⟨v, hvi, hvj⟩ := hs
  have hsubi : nodeVars prev v ⊆ (t.getD i default).vars := by
    intro x hx
    rcases hvi with rfl | rfl
    · exact (h.varsEq _ (getD_mem hi) x).mpr (Or.inl hx)
    · exact (h.varsEq _ (getD_mem hi) x).mpr (Or.inr hx)
  have hsubj : nodeVars prev v ⊆ (t.getD j default).vars := by
    intro x hx
    rcases hvj with rfl | rfl
    · exact (h.varsEq _ (getD_mem hj) x).mpr (Or.inl hx)
    · exact (h.varsEq _ (getD_mem hj) x).mpr (Or.inr hx)
  have hvlt : v < t.length + 1 := by
    rcases hvi with rfl | rfl
    · exact (h.ends_lt (getD_mem hi)).1
    · exact (h.ends_lt (getD_mem hi)).2
  obtain ⟨l, r, h1, h2, h3, h4, _⟩ := identify_spec_sets (m := k + 1)
    (h.card _ (getD_mem hi)) (h.card _ (getD_mem hj))
    (nodup_of_sorted (sorted_nodeVars prev v)) (h.nodeCard v hvlt) hsubi hsubj
    (h.vars_injective hi hj hij)
  exact ⟨l, r, h1, h2, h3, h4⟩

end LevelInv

end CopVerif.Model.Vine
