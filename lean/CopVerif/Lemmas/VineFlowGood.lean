import CopVerif.Lemmas.VineFlow
import CopVerif.Lemmas.VinePairsR
/-!
  For which vines the code builds does the hypothesis bundle `goodVine` of the C17 data-flow
  theorems hold?  (`Model/VineFlow.lean`: `goodVine`; `Model/Vine.lean`: the construction.)

  * `toFlow`: the conversion of a construction-model vine (`Model.Vine.Tree`) into the encoding of
    the data-flow model (`Model.VineFlow.Tree`) — exactly what `tools/props/c17.py: extract` sends
    for a real fitted vine: `index` = position in `Tree.edges`, `L`, `R`, `D` ascending, `parents` =
    positions of `[left_parent, right_parent]` (in `Edge.sort_edge` order) in the previous tree.
  * `ParentsSorted`: the parents are recorded in `sort_edge` order — true of EVERY accepted run of
    `train_vine` (`trainVine_sorted`): all three builders call `Edge.sort_edge` before
    `Edge.get_child_edge`.
  * **Key lemma** (`flowOK_of_sameD`): if the two parents of an edge have the SAME conditioning set
    then, in `sort_edge` order, `parents[0]` carries the child's smaller conditioned variable and
    `parents[1]` the larger one.  Reason: the parents are `{z, x | D}` and `{z, y | D}` with a common
    conditioned variable `z`, and `x ↦ (min z x, max z x)` is strictly monotone for the
    lexicographic order — which is the key of `sort_edge`.
  * `goodVine_of_uniformD`: a vine structure (`TreesSpec`) with sorted parents in which every tree
    but the last has ONE conditioning set for all its edges is a `goodVine`.
  * That covers every vine with at most two trees (the first tree conditions on nothing) — in
    particular every vine on `d ≤ 3` columns — and every C-vine (`uniformD_of_stars`: all edges of
    tree `k` of a C-vine are conditioned on the same `k` variables).
-/
set_option linter.unusedSimpArgs false
set_option linter.unusedVariables false
set_option linter.unusedSectionVars false
namespace CopVerif.Model.VineGood
open CopVerif CopVerif.Model

/-! ## the conversion -/

/-- one edge: `Edge.index` is the position in `Tree.edges`; the other fields are copied. -/
def toFlowEdge (i : Nat) (e : Vine.Edge) : VineFlow.Edge :=
  { index := i, L := e.L, R := e.R, D := e.D, parents := e.parents }

/-- the edges numbered from `i`. -/
def toFlowFrom : Nat → Vine.Tree → VineFlow.Tree
  | _, [] => []
  | i, e :: t => toFlowEdge i e :: toFlowFrom (i + 1) t

def toFlowTree (t : Vine.Tree) : VineFlow.Tree := toFlowFrom 0 t

/-- a construction-model vine in the encoding of the data-flow model. -/
def toFlow (trees : List Vine.Tree) : List VineFlow.Tree := trees.map toFlowTree

theorem toFlowFrom_getElem? : ∀ (t : Vine.Tree) (i j : Nat),
    (toFlowFrom i t)[j]? = (t[j]?).map (toFlowEdge (i + j))
  | [], _, _ => by simp [toFlowFrom]
  | e :: t, i, 0 => by simp [toFlowFrom]
  | e :: t, i, j + 1 => by
    simp only [toFlowFrom, List.getElem?_cons_succ]
    rw [toFlowFrom_getElem? t (i + 1) j, show i + 1 + j = i + (j + 1) by omega]

theorem toFlowTree_getElem? (t : Vine.Tree) (j : Nat) :
    (toFlowTree t)[j]? = (t[j]?).map (toFlowEdge j) := by
  rw [toFlowTree, toFlowFrom_getElem?]; simp

theorem toFlowTree_eq_mapIdx (t : Vine.Tree) : toFlowTree t = t.mapIdx toFlowEdge := by
  apply List.ext_getElem?
  intro j
  rw [toFlowTree_getElem?]; simp [List.getElem?_mapIdx]

theorem mem_toFlowFrom : ∀ {t : Vine.Tree} {i : Nat} {fe : VineFlow.Edge},
    fe ∈ toFlowFrom i t → ∃ j e, e ∈ t ∧ fe = toFlowEdge j e
  | [], _, _, h => by simp [toFlowFrom] at h
  | e :: t, i, fe, h => by
    simp only [toFlowFrom, List.mem_cons] at h
    rcases h with rfl | h
    · exact ⟨i, e, List.mem_cons_self .., rfl⟩
    · obtain ⟨j, e', he', rfl⟩ := mem_toFlowFrom h
      exact ⟨j, e', List.mem_cons_of_mem _ he', rfl⟩

theorem toFlowEdge_vars (i : Nat) (e : Vine.Edge) :
    (toFlowEdge i e).vars = e.L :: e.R :: e.D := rfl

theorem mem_toFlowEdge_vars {i : Nat} {e : Vine.Edge} {x : Nat} :
    x ∈ (toFlowEdge i e).vars ↔ x ∈ e.vars := by
  rw [toFlowEdge_vars, Vine.Edge.mem_vars]; simp

/-! ## lists standing for sets: `identify` of the data-flow model -/

theorem dedup_nodup : ∀ l : List Nat, (VineFlow.dedup l).Nodup
  | [] => by simp [VineFlow.dedup]
  | a :: l => by
    simp only [VineFlow.dedup]
    split_ifs with h
    · exact dedup_nodup l
    · exact List.nodup_cons.mpr ⟨by simpa using h, dedup_nodup l⟩

theorem eq_pair_of_nodup {l : List Nat} {a b : Nat} (hnd : l.Nodup) (hab : a ≠ b)
    (hm : ∀ x, x ∈ l ↔ x = a ∨ x = b) : l = [a, b] ∨ l = [b, a] := by
  have hperm : l.Perm [a, b] :=
    (List.perm_ext_iff_of_nodup hnd (by simp [hab])).mpr (by intro x; rw [hm]; simp)
  have hlen := hperm.length_eq
  match l, hlen, hnd, hm with
  | [x, y], _, hnd, hm =>
    have hx := (hm x).mp (by simp)
    have hy := (hm y).mp (by simp)
    have hxy : x ≠ y := by simpa using hnd
    rcases hx with rfl | rfl <;> rcases hy with rfl | rfl <;> simp_all

/-- `_identify_eds_ing` in the data-flow model succeeds with `(L, R, A ∩ B)` as soon as
    `A △ B = {L, R}`, `L < R`. -/
theorem flow_identify_of_facts {p q : VineFlow.Edge} {L R : Nat} (hLR : L < R)
    (hm : ∀ x, (x = L ∨ x = R) ↔ (x ∈ p.vars ∧ x ∉ q.vars) ∨ (x ∈ q.vars ∧ x ∉ p.vars)) :
    VineFlow.identify p q = .ok (L, R, VineFlow.inter p.vars q.vars) := by
  have hl := eq_pair_of_nodup (l := VineFlow.symDiff p.vars q.vars) (dedup_nodup _)
    (Nat.ne_of_lt hLR) (by intro x; rw [VineFlow.mem_symDiff, hm])
  unfold VineFlow.identify
  rcases hl with h | h <;> rw [h] <;> simp only [Except.ok.injEq, Prod.mk.injEq, and_true]
  · exact ⟨Nat.min_eq_left hLR.le, Nat.max_eq_right hLR.le⟩
  · exact ⟨Nat.min_eq_right hLR.le, Nat.max_eq_left hLR.le⟩

/-! ## the key lemma -/

/-- **Arithmetic core.**  Two parents with conditioned pairs `a0 < b0` and `a1 < b1` in `sort_edge`
    order (`(a1, b1)` not lexicographically before `(a0, b0)`), whose conditioned pairs have the
    symmetric difference `{L, R}`, `L < R`: then `L` is conditioned in the first parent and `R` in
    the second. -/
theorem flowOK_arith {a0 b0 a1 b1 L R : Nat} (h0 : a0 < b0) (h1 : a1 < b1) (hLR : L < R)
    (hs : ¬ (a1 < a0 ∨ (a1 = a0 ∧ b1 < b0)))
    (hL : ((L = a0 ∨ L = b0) ∧ ¬ (L = a1 ∨ L = b1)) ∨ ((L = a1 ∨ L = b1) ∧ ¬ (L = a0 ∨ L = b0)))
    (hR : ((R = a0 ∨ R = b0) ∧ ¬ (R = a1 ∨ R = b1)) ∨ ((R = a1 ∨ R = b1) ∧ ¬ (R = a0 ∨ R = b0)))
    (ha0 : a0 = a1 ∨ a0 = b1 ∨ a0 = L ∨ a0 = R) (hb0 : b0 = a1 ∨ b0 = b1 ∨ b0 = L ∨ b0 = R)
    (ha1 : a1 = a0 ∨ a1 = b0 ∨ a1 = L ∨ a1 = R) (hb1 : b1 = a0 ∨ b1 = b0 ∨ b1 = L ∨ b1 = R) :
    (L = a0 ∨ L = b0) ∧ (R = a1 ∨ R = b1) := by
  omega


/-- a well-formed edge: conditioned pair increasing and disjoint from the conditioning set. -/
def EdgeWF (e : Vine.Edge) : Prop := e.L < e.R ∧ e.L ∉ e.D ∧ e.R ∉ e.D ∧ e.D.Nodup

theorem diff_iff_of_sameD {p q : Vine.Edge} (hp : EdgeWF p) (hD : p.D = q.D) (x : Nat) :
    (x ∈ p.vars ∧ x ∉ q.vars) ↔ ((x = p.L ∨ x = p.R) ∧ ¬ (x = q.L ∨ x = q.R)) := by
  obtain ⟨_, hL, hR, _⟩ := hp
  simp only [Vine.Edge.mem_vars, ← hD]
  constructor
  · rintro ⟨h1, h2⟩
    refine ⟨?_, fun h => h2 (by tauto)⟩
    rcases h1 with h | h | h
    · exact Or.inl h
    · exact Or.inr h
    · exact absurd (Or.inr (Or.inr h)) h2
  · rintro ⟨h1, h2⟩
    refine ⟨by tauto, ?_⟩
    rintro (h | h | h)
    · exact h2 (Or.inl h)
    · exact h2 (Or.inr h)
    · rcases h1 with rfl | rfl
      · exact hL h
      · exact hR h

/-- **Key lemma.**  Two parents `p`, `q` in `sort_edge` order with the SAME conditioning set: the
    child's smaller conditioned variable is conditioned in `p`, the larger one in `q` — the hypothesis
    `flowOK` that `Edge.get_conditional_uni` / `Edge.get_likelihood` silently make. -/
theorem flowOK_of_sameD {p q e : Vine.Edge} (hp : EdgeWF p) (hq : EdgeWF q) (hD : p.D = q.D)
    (hLR : e.L < e.R)
    (hcond : ∀ x, x = e.L ∨ x = e.R ↔ (x ∈ p.vars ∧ x ∉ q.vars) ∨ (x ∈ q.vars ∧ x ∉ p.vars))
    (hs : Vine.keyLt q p = false) :
    (e.L = p.L ∨ e.L = p.R) ∧ (e.R = q.L ∨ e.R = q.R) := by
  have hc : ∀ x, x = e.L ∨ x = e.R ↔ ((x = p.L ∨ x = p.R) ∧ ¬ (x = q.L ∨ x = q.R)) ∨
      ((x = q.L ∨ x = q.R) ∧ ¬ (x = p.L ∨ x = p.R)) := by
    intro x
    rw [hcond x, diff_iff_of_sameD hp hD x, diff_iff_of_sameD hq hD.symm x]
  have h1 := hc e.L
  have h2 := hc e.R
  have h3 := hc p.L
  have h4 := hc p.R
  have h5 := hc q.L
  have h6 := hc q.R
  have hp1 := hp.1
  have hq1 := hq.1
  simp only [Vine.keyLt, Bool.or_eq_false_iff, Bool.and_eq_false_iff, decide_eq_false_iff_not,
    beq_eq_false_iff_ne] at hs
  omega


/-! ## one edge, one tree -/

theorem getElem?_of_lt {t : Vine.Tree} {i : Nat} (hi : i < t.length) :
    t[i]? = some (t.getD i default) := by
  rw [List.getD_eq_getElem?_getD, List.getElem?_eq_getElem hi]; simp

theorem sameSet_of_mem {A B : List Nat} (h : ∀ x, x ∈ A ↔ x ∈ B) : VineFlow.sameSet A B = true := by
  simp only [VineFlow.sameSet, Bool.and_eq_true, List.all_eq_true, List.contains_iff_mem,
    decide_eq_true_eq]
  exact ⟨fun x hx => by simpa using (h x).mp hx, fun x hx => by simpa using (h x).mpr hx⟩

/-- an edge of the construction model over `prev` whose parents are in `sort_edge` order and have
    the same conditioning set passes `childOK` after conversion. -/
theorem childOK_toFlow {k : Nat} {prev : Vine.Tree} {e : Vine.Edge} {i j idx : Nat}
    (hat : Vine.KthEdgeAt k prev e i j) (hwf : ∀ p ∈ prev, EdgeWF p)
    (hs : Vine.keyLt (prev.getD j default) (prev.getD i default) = false)
    (hD : (prev.getD i default).D = (prev.getD j default).D) :
    VineFlow.childOK (toFlowTree prev) (toFlowEdge idx e) = true := by
  have hpi := getElem?_of_lt hat.hi
  have hpj := getElem?_of_lt hat.hj
  have hcond : ∀ x, (x = e.L ∨ x = e.R) ↔
      (x ∈ (toFlowEdge i (prev.getD i default)).vars ∧ x ∉ (toFlowEdge j (prev.getD j default)).vars) ∨
      (x ∈ (toFlowEdge j (prev.getD j default)).vars ∧ x ∉ (toFlowEdge i (prev.getD i default)).vars) := by
    intro x
    rw [mem_toFlowEdge_vars, mem_toFlowEdge_vars]
    exact hat.conditioned x
  have hid := flow_identify_of_facts hat.lt hcond
  have hflow := flowOK_of_sameD (hwf _ (Vine.getD_mem hat.hi)) (hwf _ (Vine.getD_mem hat.hj)) hD
    hat.lt hat.conditioned hs
  have hpar : (toFlowEdge idx e).parents = some (i, j) := hat.parents
  unfold VineFlow.childOK
  simp only [hpar, toFlowTree_getElem?, hpi, hpj, Option.map_some, hid]
  simp only [Bool.and_eq_true, beq_iff_eq]
  refine ⟨⟨⟨⟨⟨rfl, rfl⟩, ?_⟩, ?_⟩, ?_⟩, ?_⟩
  · apply sameSet_of_mem
    intro x
    rw [VineFlow.mem_inter, mem_toFlowEdge_vars, mem_toFlowEdge_vars]
    exact (hat.conditioning x).symm
  · exact VineFlow.nodupB_iff.mpr (Vine.nodup_of_sorted hat.sortedD)
  · simp only [VineFlow.flowOK, VineFlow.Edge.cond, toFlowEdge, Bool.and_eq_true,
      List.contains_iff_mem, List.mem_cons, List.not_mem_nil, or_false]
    exact hflow
  · have hk : VineFlow.keyLt (toFlowEdge j (prev.getD j default)) (toFlowEdge i (prev.getD i default)) =
        Vine.keyLt (prev.getD j default) (prev.getD i default) := rfl
    rw [VineFlow.sortedOK, hk, hs]; rfl

theorem pairsDistinct_toFlowFrom : ∀ (t : Vine.Tree) (i : Nat),
    t.Pairwise (fun e f => ¬ ((f.L = e.L ∧ f.R = e.R) ∨ (f.L = e.R ∧ f.R = e.L))) →
    VineFlow.pairsDistinct (toFlowFrom i t) = true
  | [], _, _ => rfl
  | e :: t, i, h => by
    obtain ⟨h1, h2⟩ := List.pairwise_cons.mp h
    simp only [toFlowFrom, VineFlow.pairsDistinct, Bool.and_eq_true, List.all_eq_true]
    refine ⟨?_, pairsDistinct_toFlowFrom t (i + 1) h2⟩
    intro fe hfe
    obtain ⟨j, f, hf, rfl⟩ := mem_toFlowFrom hfe
    have := h1 f hf
    simp only [toFlowEdge, Bool.not_eq_true', Bool.or_eq_false_iff, Bool.and_eq_false_iff,
      beq_eq_false_iff_ne]
    omega

/-- a tree of well-formed edges with pairwise different conditioned pairs passes `treeWF`. -/
theorem treeWF_toFlow {t : Vine.Tree} (hwf : ∀ e ∈ t, EdgeWF e)
    (hp : t.Pairwise (fun e f => ¬ ((f.L = e.L ∧ f.R = e.R) ∨ (f.L = e.R ∧ f.R = e.L)))) :
    VineFlow.treeWF (toFlowTree t) = true := by
  simp only [VineFlow.treeWF, Bool.and_eq_true, List.all_eq_true]
  refine ⟨?_, pairsDistinct_toFlowFrom t 0 hp⟩
  intro fe hfe
  obtain ⟨j, e, he, rfl⟩ := mem_toFlowFrom hfe
  obtain ⟨h1, h2, h3, h4⟩ := hwf e he
  rw [VineFlow.nodupB_iff, toFlowEdge_vars]
  simp only [List.nodup_cons, List.mem_cons, not_or]
  exact ⟨⟨Nat.ne_of_lt h1, h2⟩, h3, h4⟩

/-- `goodFrom` from tree-wise facts. -/
theorem goodFrom_of_forall : ∀ (ts : List VineFlow.Tree) (prev : VineFlow.Tree),
    (∀ k (hk : k < ts.length), VineFlow.treeWF ts[k] = true ∧
      ts[k].all (VineFlow.childOK ((prev :: ts)[k]'(by simp; omega))) = true) →
    VineFlow.goodFrom prev ts = true
  | [], _, _ => rfl
  | t :: ts, prev, h => by
    have h0 := h 0 (by simp)
    simp only [List.getElem_cons_zero] at h0
    simp only [VineFlow.goodFrom, Bool.and_eq_true]
    refine ⟨h0, goodFrom_of_forall ts t ?_⟩
    intro k hk
    have := h (k + 1) (by simpa using hk)
    simpa using this


/-! ## whole vines: from the C16 structure predicate -/

/-- edge `e` over `prev` records its parents in `Edge.sort_edge` order: `parents[1]` does not sort
    strictly before `parents[0]`. -/
def SortedAt (prev : Vine.Tree) (e : Vine.Edge) : Prop :=
  ∀ a b, e.parents = some (a, b) → Vine.keyLt (prev.getD b default) (prev.getD a default) = false

/-- every edge above the first tree records its parents in `sort_edge` order. -/
def ParentsSorted (trees : List Vine.Tree) : Prop :=
  ∀ k (hk : k + 1 < trees.length), ∀ e ∈ trees[k + 1], SortedAt (trees[k]'(by omega)) e

/-- all edges of the tree are conditioned on the same set of variables. -/
def UniformD (t : Vine.Tree) : Prop := ∃ C, ∀ e ∈ t, e.D = C

section
open Vine
variable {d : Nat} {trees : List Vine.Tree}

theorem edgeWF_of_spec (hspec : TreesSpec d 0 none trees) {k : Nat} (hk : k < trees.length)
    {e : Vine.Edge} (he : e ∈ trees[k]) : EdgeWF e := by
  cases k with
  | zero =>
    cases trees with
    | nil => simp at hk
    | cons t0 rest =>
      have h := hspec.1.1 e (by simpa using he)
      exact ⟨h.lt, by simp [h.cond], by simp [h.cond], by simp [h.cond]⟩
  | succ k =>
    obtain ⟨i, j, hat⟩ := hspec.kthEdgeAt k hk e he
    have hL : e.L ∉ e.D := by
      intro hm
      have h1 := (hat.conditioned e.L).mp (Or.inl rfl)
      have h2 := (hat.conditioning e.L).mp hm
      tauto
    have hR : e.R ∉ e.D := by
      intro hm
      have h1 := (hat.conditioned e.R).mp (Or.inr rfl)
      have h2 := (hat.conditioning e.R).mp hm
      tauto
    exact ⟨hat.lt, hL, hR, nodup_of_sorted hat.sortedD⟩

theorem pairwise_of_spec (hspec : TreesSpec d 0 none trees) {k : Nat} (hk : k < trees.length) :
    trees[k].Pairwise (fun e f => ¬ ((f.L = e.L ∧ f.R = e.R) ∨ (f.L = e.R ∧ f.R = e.L))) := by
  rw [List.pairwise_iff_getElem]
  intro i j hi hj hij hsame
  have he := List.getElem_mem hi
  have hf := List.getElem_mem hj
  have h1 := hspec.cond_lt hk he
  have h2 := hspec.cond_lt hk hf
  have h' : trees[k][i].L = trees[k][j].L ∧ trees[k][i].R = trees[k][j].R := by omega
  obtain ⟨_, hv⟩ := hspec.cond_pair_injective hk hk he hf h'.1 h'.2
  have := (hspec.levelInv k hk).1.vars_injective hi hj (Nat.ne_of_lt hij)
  rw [getD_eq_getElem' _ hi, getD_eq_getElem' _ hj] at this
  exact this hv

/-- **Structure theorem.**  A vine structure (C16's `TreesSpec`: spanning trees, proximity,
    conditioned/conditioning sets) whose parents are recorded in `sort_edge` order and in which every
    tree but the last conditions all its edges on ONE set is a `goodVine` in the encoding of the
    data-flow model. -/
theorem goodVine_of_uniformD (hspec : TreesSpec d 0 none trees) (hsort : ParentsSorted trees)
    (hD : ∀ k (hk : k + 1 < trees.length), UniformD (trees[k]'(by omega))) :
    VineFlow.goodVine (toFlow trees) = true := by
  cases trees with
  | nil => rfl
  | cons t0 rest =>
    have hwf : ∀ k (hk : k < (t0 :: rest).length),
        VineFlow.treeWF (toFlowTree ((t0 :: rest)[k])) = true := fun k hk =>
      treeWF_toFlow (fun e he => edgeWF_of_spec hspec hk he) (pairwise_of_spec hspec hk)
    simp only [toFlow, List.map_cons, VineFlow.goodVine, Bool.and_eq_true]
    refine ⟨⟨hwf 0 (by simp), ?_⟩, goodFrom_of_forall _ _ ?_⟩
    · rw [List.all_eq_true]
      intro fe hfe
      obtain ⟨idx, e, he, rfl⟩ := mem_toFlowFrom hfe
      have := (hspec.1.1 e he).parents
      simp [toFlowEdge, this]
    · intro k hk
      have hk' : k + 1 < (t0 :: rest).length := by simpa using hk
      have hkr : k < rest.length := by simpa using hk
      have e1 : (List.map toFlowTree rest)[k] = toFlowTree ((t0 :: rest)[k + 1]) := by simp
      have e2 : (toFlowTree t0 :: List.map toFlowTree rest)[k]'(by simp; omega) =
          toFlowTree ((t0 :: rest)[k]'(by omega)) := by
        cases k <;> simp
      rw [e1, e2]
      refine ⟨hwf (k + 1) hk', ?_⟩
      rw [List.all_eq_true]
      intro fe hfe
      obtain ⟨idx, e, he, rfl⟩ := mem_toFlowFrom hfe
      obtain ⟨i, j, hat⟩ := hspec.kthEdgeAt k hk' e he
      obtain ⟨C, hC⟩ := hD k hk'
      exact childOK_toFlow hat (fun p hp => edgeWF_of_spec hspec (by omega) hp)
        (hsort k hk' e he i j hat.parents)
        ((hC _ (getD_mem hat.hi)).trans (hC _ (getD_mem hat.hj)).symm)

end


/-! ## every accepted run records its parents in `sort_edge` order -/

section
open Vine
variable {α : Type} [LT α] [DecidableLT α] [Neg α] [NumFns α]

theorem keyLt_asymm {p q : Vine.Edge} (h : Vine.keyLt q p = true) : Vine.keyLt p q = false := by
  simp only [Vine.keyLt, Bool.or_eq_true, Bool.and_eq_true, decide_eq_true_eq, beq_iff_eq,
    Bool.or_eq_false_iff, Bool.and_eq_false_iff, decide_eq_false_iff_not, beq_eq_false_iff_ne] at h ⊢
  omega

/-- `Edge.get_child_edge(index, *Edge.sort_edge([edges[i], edges[j]]))` records sorted parents. -/
theorem childEdge_sorted {prev : Vine.Tree} {i j : Nat} {e : Vine.Edge}
    (h : childEdge prev i j = .ok e) : SortedAt prev e := by
  obtain ⟨_, _, a, b, _, hsp, hpar, _⟩ := childEdge_ok h
  intro a' b' hp
  rw [hpar] at hp
  simp only [Option.some.injEq, Prod.mk.injEq] at hp
  obtain ⟨rfl, rfl⟩ := hp
  unfold sortPair at hsp
  split_ifs at hsp with hk
  · simp only [Prod.mk.injEq] at hsp
    obtain ⟨rfl, rfl⟩ := hsp
    exact keyLt_asymm hk
  · simp only [Prod.mk.injEq] at hsp
    obtain ⟨rfl, rfl⟩ := hsp
    simpa using hk

theorem primKthGo_children {level n : Nat} {prev : Vine.Tree} {tau : Mat α} :
    ∀ {choices : List (Nat × Nat)} {vis : List Nat} {t : Vine.Tree} {ts : List α},
    primKthGo level n prev tau vis choices = .ok (t, ts) →
    ∀ e ∈ t, ∃ i j, childEdge prev i j = .ok e
  | [], vis, t, ts, h => by
    simp only [primKthGo] at h
    split_ifs at h with hl
    simp only [Except.ok.injEq, Prod.mk.injEq] at h
    obtain ⟨rfl, _⟩ := h
    simp
  | q :: qs, vis, t, ts, h => by
    simp only [primKthGo] at h
    split_ifs at h with h1 h2 h3
    rw [bind_eq_ok] at h
    obtain ⟨e, hce, h⟩ := h
    rw [bind_eq_ok] at h
    obtain ⟨⟨es, ts'⟩, hrec, h⟩ := h
    simp only [pure, Except.pure, Except.ok.injEq, Prod.mk.injEq] at h
    obtain ⟨rfl, _⟩ := h
    intro e' he'
    rcases List.mem_cons.mp he' with rfl | he'
    · exact ⟨_, _, hce⟩
    · exact primKthGo_children hrec e' he'

/-- every edge a k-th-tree builder appends is `get_child_edge` of two SORTED edges of the previous
    tree (center: `[edges[anchor], edges[right]]`; direct: `[edges[k], edges[k+1]]`; regular:
    `[edges[pairs[0]], edges[pairs[1]]]`). -/
theorem buildKth_children {vt : VType} {level n : Nat} {prev : Vine.Tree} {c : Choice α}
    {t : Vine.Tree} {ts : List α} (h : buildKth vt level n prev c = .ok (t, ts)) :
    ∀ e ∈ t, ∃ i j, childEdge prev i j = .ok e := by
  cases vt with
  | center =>
    simp only [buildKth, centerKth] at h
    split_ifs at h with hok
    rw [bind_eq_ok] at h
    obtain ⟨t', ht', h⟩ := h
    simp only [pure, Except.pure, Except.ok.injEq, Prod.mk.injEq] at h
    obtain ⟨rfl, _⟩ := h
    intro e he
    obtain ⟨r, _, hr⟩ := forall₂_exists_left (mapM_ok ht') e he
    exact ⟨_, _, hr⟩
  | direct =>
    simp only [buildKth, directKth] at h
    rw [bind_eq_ok] at h
    obtain ⟨t', ht', h⟩ := h
    simp only [pure, Except.pure, Except.ok.injEq, Prod.mk.injEq] at h
    obtain ⟨rfl, _⟩ := h
    intro e he
    obtain ⟨r, _, hr⟩ := forall₂_exists_left (mapM_ok ht') e he
    exact ⟨_, _, hr⟩
  | regular => exact primKthGo_children h

theorem trainRest_sorted {vt : VType} {d : Nat} : ∀ (fuel k : Nat) (prev : Vine.Tree)
    (cs : List (Choice α)) (r : List (Vine.Tree × List α)),
    trainRest vt d fuel k prev cs = .ok r → ParentsSorted (prev :: r.map (·.1))
  | 0, _, _, _, r, h => by
    simp only [trainRest, Except.ok.injEq] at h; subst h
    intro k hk; simp at hk
  | fuel + 1, k, prev, cs, r, h => by
    cases cs with
    | nil => simp [trainRest] at h
    | cons c cs =>
      simp only [trainRest] at h
      rw [bind_eq_ok] at h
      obtain ⟨⟨t, ts⟩, hb, h⟩ := h
      rw [bind_eq_ok] at h
      obtain ⟨rest, hrest, h⟩ := h
      simp only [pure, Except.pure, Except.ok.injEq] at h
      subst h
      have ih := trainRest_sorted fuel (k + 1) t cs rest hrest
      intro m hm e he
      cases m with
      | zero =>
        simp only [List.map_cons, List.getElem_cons_succ, List.getElem_cons_zero] at he ⊢
        obtain ⟨i, j, hce⟩ := buildKth_children hb e he
        exact childEdge_sorted hce
      | succ m =>
        simp only [List.map_cons, List.getElem_cons_succ] at he ⊢
        exact ih m (by simpa using hm) e he

/-- **Every accepted run of `train_vine`, of every type, on any data, records the parents of every
    edge in `Edge.sort_edge` order.** -/
theorem trainVine_sorted {vt : VType} {d t : Nat} {cs : List (Choice α)}
    {r : List (Vine.Tree × List α)} (h : trainVine vt d t cs = .ok r) :
    ParentsSorted (r.map (·.1)) := by
  cases cs with
  | nil => simp [trainVine] at h
  | cons c cs =>
    simp only [trainVine] at h
    rw [bind_eq_ok] at h
    obtain ⟨⟨t0, ts0⟩, _, h⟩ := h
    rw [bind_eq_ok] at h
    obtain ⟨rest, hr, h⟩ := h
    simp only [pure, Except.pure, Except.ok.injEq] at h
    subst h
    exact trainRest_sorted _ _ _ _ _ hr

end


/-! ## which structures have uniform conditioning sets -/

section
open Vine
variable {d : Nat}

/-- at most two trees: the only tree that has children is the first, which conditions on nothing. -/
theorem uniformD_of_two_trees {trees : List Vine.Tree} (hspec : TreesSpec d 0 none trees)
    (hlen : trees.length ≤ 2) : ∀ k (hk : k + 1 < trees.length), UniformD (trees[k]'(by omega)) := by
  intro k hk
  have hk0 : k = 0 := by omega
  subst hk0
  cases trees with
  | nil => simp at hk
  | cons t0 rest => exact ⟨[], fun e he => (hspec.1.1 e (by simpa using he)).cond⟩

/-- the trees of a C-vine above a tree of shape `(C, a)` all have a C-vine shape. -/
theorem centerShape_aux : ∀ (trees : List Vine.Tree) (k : Nat) (pp : Option Vine.Tree)
    (prev : Vine.Tree) (C : List Nat) (a : Nat), LevelInv k pp prev → CenterShape C a prev →
    prev.length = d - (k + 1) → TreesSpec d (k + 1) (some prev) trees →
    (∀ t ∈ trees, IsStar (t.map (Edge.ends false))) →
    ∀ t ∈ trees, ∃ C' a', CenterShape C' a' t
  | [], _, _, _, _, _, _, _, _, _, _ => by simp
  | t :: ts, k, pp, prev, C, a, hinv, hs, hlen, hspec, hstars => by
    obtain ⟨⟨hk, hspan⟩, hrest⟩ := hspec
    obtain ⟨b, hs'⟩ := hs.next hinv hk (hstars t (List.mem_cons_self ..))
    have hfirst : ((k + 1 == 1) : Bool) = pp.isNone := by rw [hinv.first_iff]; simp
    have hch : ∀ e ∈ t, ChildOK pp.isNone prev e := by
      intro e he
      obtain ⟨i, j, hat⟩ := hk e he
      exact childOK_of_kthEdgeAt hat hfirst
    have htl : t.length + 1 = prev.length := by rw [hlen]; simpa using hspan.1
    obtain ⟨_, hinv'⟩ := hinv.next htl hch (by rw [hlen]; exact hspan)
    have ih := centerShape_aux ts (k + 1) (some prev) t (norm (a :: C)) b hinv' hs'
      (by omega) hrest (fun t' ht' => hstars t' (List.mem_cons_of_mem _ ht'))
    intro t' ht'
    rcases List.mem_cons.mp ht' with rfl | ht'
    · exact ⟨_, _, hs'⟩
    · exact ih t' ht'

/-- **C-vines**: in a vine structure with a star in every tree, all edges of a tree are conditioned
    on the same variables (tree `k`: the centres of the trees `0 … k-1`). -/
theorem uniformD_of_stars {t0 : Vine.Tree} {rest : List Vine.Tree}
    (hspec : TreesSpec d 0 none (t0 :: rest)) (h0 : IsStar (t0.map (Edge.ends true)))
    (hrest : ∀ t ∈ rest, IsStar (t.map (Edge.ends false))) :
    ∀ t ∈ t0 :: rest, UniformD t := by
  obtain ⟨⟨he, hspan⟩, hr⟩ := hspec
  have hinv := LevelInv.first (by simpa using hspan.1) he hspan
  obtain ⟨c, hc⟩ := h0
  have hs : CenterShape [] c t0 := by
    intro e hmem
    have h := he e hmem
    have := hc _ (List.mem_map.mpr ⟨e, hmem, rfl⟩)
    exact ⟨h.cond, h.lt, by simp, by simp, by simpa [Edge.ends] using this⟩
  have haux := centerShape_aux rest 0 none t0 [] c hinv hs
    (by have := hspan.1; simp at this; omega) hr hrest
  intro t ht
  rcases List.mem_cons.mp ht with rfl | ht
  · exact ⟨[], fun e he => (hs e he).1⟩
  · obtain ⟨C', a', hs'⟩ := haux t ht
    exact ⟨C', fun e he => (hs' e he).1⟩

/-- a vine structure with at most two trees and sorted parents is a `goodVine`. -/
theorem goodVine_of_two_trees {trees : List Vine.Tree} (hspec : TreesSpec d 0 none trees)
    (hsort : ParentsSorted trees) (hlen : trees.length ≤ 2) :
    VineFlow.goodVine (toFlow trees) = true :=
  goodVine_of_uniformD hspec hsort (uniformD_of_two_trees hspec hlen)

/-- a C-vine structure (a star in every tree) with sorted parents is a `goodVine`. -/
theorem goodVine_of_stars {t0 : Vine.Tree} {rest : List Vine.Tree}
    (hspec : TreesSpec d 0 none (t0 :: rest)) (hsort : ParentsSorted (t0 :: rest))
    (h0 : IsStar (t0.map (Edge.ends true)))
    (hrest : ∀ t ∈ rest, IsStar (t.map (Edge.ends false))) :
    VineFlow.goodVine (toFlow (t0 :: rest)) = true :=
  goodVine_of_uniformD hspec hsort
    (fun k hk => uniformD_of_stars hspec h0 hrest _ (List.getElem_mem _))

end


/-! ## per-edge form, and what `goodVine` says tree by tree -/

section
open Vine
variable {d : Nat} {trees : List Vine.Tree}

/-- **Per-edge characterisation**: in ANY vine structure with sorted parents, an edge whose two
    parents have the same conditioning set passes `childOK` (so `Edge.get_conditional_uni` selects
    the right pseudo-observations for it, `edgePlan_spec`).  The recorded defect therefore needs an
    edge whose parents are conditioned on DIFFERENT sets: tree index `≥ 2` (level `≥ 3`), hence
    `d ≥ 4` columns and truncation `≥ 3`, in a vine that is not a C-vine. -/
theorem childOK_of_sameD (hspec : TreesSpec d 0 none trees) (hsort : ParentsSorted trees)
    {k : Nat} (hk : k + 1 < trees.length) {e : Vine.Edge} (he : e ∈ trees[k + 1])
    (hD : ∀ i j, e.parents = some (i, j) →
      ((trees[k]'(by omega)).getD i default).D = ((trees[k]'(by omega)).getD j default).D)
    (idx : Nat) :
    VineFlow.childOK (toFlowTree (trees[k]'(by omega))) (toFlowEdge idx e) = true := by
  obtain ⟨i, j, hat⟩ := hspec.kthEdgeAt k hk e he
  exact childOK_toFlow hat (fun p hp => edgeWF_of_spec hspec (by omega) hp)
    (hsort k hk e he i j hat.parents) (hD i j hat.parents)

end

/-- **The second tree of EVERY vine structure is fed correctly**: the first tree conditions on
    nothing, so every edge of tree 1 (level 2) passes `childOK`. -/
theorem childOK_second_tree {d : Nat} {trees : List Vine.Tree}
    (hspec : Vine.TreesSpec d 0 none trees) (hsort : ParentsSorted trees) (hk : 1 < trees.length) :
    VineFlow.treeWF (toFlowTree (trees[0]'(by omega))) = true ∧
      ∀ fe ∈ toFlowTree trees[1],
        VineFlow.childOK (toFlowTree (trees[0]'(by omega))) fe = true := by
  refine ⟨treeWF_toFlow (fun e he => edgeWF_of_spec hspec (by omega) he)
    (pairwise_of_spec hspec (by omega)), ?_⟩
  intro fe hfe
  obtain ⟨idx, e, he, rfl⟩ := mem_toFlowFrom hfe
  refine childOK_of_sameD hspec hsort (k := 0) hk he ?_ idx
  intro i j hp
  obtain ⟨i', j', hat⟩ := hspec.kthEdgeAt 0 hk e he
  have hij : (i', j') = (i, j) := by
    have := hat.parents.symm.trans hp
    simpa using this
  obtain ⟨rfl, rfl⟩ := Prod.mk.inj hij
  cases trees with
  | nil => simp at hk
  | cons t0 rest =>
    have h1 := (hspec.1.1 _ (Vine.getD_mem hat.hi)).cond
    have h2 := (hspec.1.1 _ (Vine.getD_mem hat.hj)).cond
    exact h1.trans h2.symm

theorem goodFrom_forall : ∀ (ts : List VineFlow.Tree) (prev : VineFlow.Tree),
    VineFlow.goodFrom prev ts = true →
    ∀ k (hk : k < ts.length), VineFlow.treeWF ts[k] = true ∧
      ts[k].all (VineFlow.childOK ((prev :: ts)[k]'(by simp; omega))) = true
  | [], _, _, k, hk => by simp at hk
  | t :: ts, prev, h, k, hk => by
    simp only [VineFlow.goodFrom, Bool.and_eq_true] at h
    cases k with
    | zero => simpa using h.1
    | succ k =>
      have := goodFrom_forall ts t h.2 k (by simpa using hk)
      simpa using this

/-- `goodVine`, tree by tree: every tree is well formed and every edge above the first tree passes
    `childOK` over the tree below. -/
theorem goodVine_children {trees : List VineFlow.Tree} (hg : VineFlow.goodVine trees = true)
    (k : Nat) (hk : k + 1 < trees.length) :
    VineFlow.treeWF (trees[k]'(by omega)) = true ∧
      ∀ e ∈ trees[k + 1], VineFlow.childOK (trees[k]'(by omega)) e = true := by
  cases trees with
  | nil => simp at hk
  | cons t ts =>
    simp only [VineFlow.goodVine, Bool.and_eq_true] at hg
    obtain ⟨⟨hwt, _⟩, hrest⟩ := hg
    have hk' : k < ts.length := by simpa using hk
    obtain ⟨h1, h2⟩ := goodFrom_forall ts t hrest k hk'
    refine ⟨?_, ?_⟩
    · cases k with
      | zero => exact hwt
      | succ k =>
        have := (goodFrom_forall ts t hrest k (by omega)).1
        simpa using this
    · intro e he
      exact List.all_eq_true.mp h2 e (by simpa using he)

theorem mapE_first (t : VineFlow.Tree) :
    VineFlow.mapE (VineFlow.edgePlan true []) t =
      .ok (t.map fun e => ⟨.col e.L, .col e.R⟩) := by
  induction t with
  | nil => rfl
  | cons e t ih => simp [VineFlow.mapE, ih, VineFlow.edgePlan]


/-! ## data for kernel-evaluated examples -/

/-- a computable numeric signature for evaluating the construction model on integer "taus"
    (a plain definition, not an instance). -/
@[reducible] def intFns : NumFns Int where
  exp := id
  log := id
  pow := fun a _ => a
  sqrt := id
  abs := fun a => (Int.natAbs a : Int)
  ofNat := Int.ofNat
  ofSci := fun m _ => Int.ofNat m
  beq := fun a b => a == b
  isPosInf := fun _ => false
  isNaN := fun _ => false

/-- an all-zero tau matrix: every tie-breaking is then one the code could make. -/
def zeroTau (n : Nat) : Vine.Mat Int := List.replicate n (List.replicate n 0)

/-- choices of a run of `train_vine("direct")` on 4 columns that yields the path `3 – 2 – 0 – 1`
    (`|tau[2,0]| > |tau[1,0]| > |tau[3,0]|`, then `tau[2,3] > tau[1,3]` extends to the left). -/
def dvine4Choices : List (Vine.Choice Int) :=
  [⟨[[10, 5, 6, 1], [5, 10, 3, 2], [6, 3, 10, 4], [1, 2, 4, 10]], [2, 1]⟩,
   ⟨zeroTau 3, []⟩, ⟨zeroTau 2, []⟩]

/-- choices of a run of `train_vine("center")` on 5 columns, full depth. -/
def cvine5Choices : List (Vine.Choice Int) :=
  [⟨zeroTau 5, [3, 1, 4, 2]⟩, ⟨zeroTau 4, [2, 3, 1]⟩, ⟨zeroTau 3, [2, 1]⟩, ⟨zeroTau 2, [1]⟩]

end CopVerif.Model.VineGood
