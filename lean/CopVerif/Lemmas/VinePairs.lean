import CopVerif.Lemmas.VineTrain
/-!
  No pair of variables is conditioned twice — for C-vine structures (a star in every tree).
-/
set_option linter.unusedSimpArgs false
set_option linter.unusedSectionVars false
set_option linter.unusedVariables false
namespace CopVerif.Model.Vine

/-- a well-formed k-th-tree edge is what `get_child_edge` builds from its parents. -/
theorem childOK_of_kthEdgeAt {k : Nat} {prev : Tree} {e : Edge} {i j : Nat} {first : Bool}
    (h : KthEdgeAt k prev e i j) (hf : (k == 1) = first) : ChildOK first prev e := by
  refine ⟨i, j, h.hi, h.hj, h.ne, h.parents, hf ▸ h.proximity, ?_⟩
  have hsd : symDiff (prev.getD i default).vars (prev.getD j default).vars = [e.L, e.R] :=
    sorted_pair_of_mem (sorted_symDiff _ _) h.lt (by
      intro a; rw [mem_symDiff]; exact (h.conditioned a).symm)
  have hD : e.D = inter (prev.getD i default).vars (prev.getD j default).vars :=
    sorted_ext h.sortedD (sorted_inter _ (Edge.sorted_vars _)) (by
      intro a; rw [mem_inter]; exact h.conditioning a)
  unfold identify
  rw [hsd, hD]

/-- `(condPairs trees)` has no duplicates if each tree has none and different trees share none. -/
theorem treePairs_nodup_cons {t : Tree} {ts : List Tree}
    (h1 : (t.map fun e => (e.L, e.R)).Nodup) (h2 : (condPairs ts).Nodup)
    (h3 : ∀ e ∈ t, (e.L, e.R) ∉ condPairs ts) : (condPairs (t :: ts)).Nodup := by
  unfold condPairs at *
  simp only [List.flatMap_cons]
  refine List.nodup_append.mpr ⟨h1, h2, ?_⟩
  intro a ha b hb hab
  subst hab
  obtain ⟨e, he, rfl⟩ := List.mem_map.mp ha
  exact h3 e he hb

/-- all edges of a C-vine tree have the same conditioning set `C`, and their conditioned pairs
    all contain the variable `a`. -/
def CenterShape (C : List Nat) (a : Nat) (t : Tree) : Prop :=
  ∀ e ∈ t, e.D = C ∧ e.L < e.R ∧ e.L ∉ C ∧ e.R ∉ C ∧ (e.L = a ∨ e.R = a)

/-- within a tree of that shape the conditioned pairs are pairwise different. -/
theorem CenterShape.pairs_nodup {k : Nat} {pp : Option Tree} {t : Tree} {C : List Nat} {a : Nat}
    (hs : CenterShape C a t) (hinv : LevelInv k pp t) : (t.map fun e => (e.L, e.R)).Nodup := by
  rw [List.nodup_iff_injective_getElem]
  intro ⟨i, hi⟩ ⟨j, hj⟩ heq
  simp only [List.getElem_map, Prod.mk.injEq] at heq
  simp only [List.length_map] at hi hj
  by_contra hne
  have hij : i ≠ j := fun h => hne (by simp [h])
  have hvi := hinv.vars_injective hi hj hij
  rw [getD_eq_getElem' _ hi, getD_eq_getElem' _ hj] at hvi
  apply hvi
  unfold Edge.vars
  rw [heq.1, heq.2, (hs _ (List.getElem_mem hi)).1, (hs _ (List.getElem_mem hj)).1]

theorem mem_condPairs {p : Nat × Nat} {trees : List Tree} :
    p ∈ condPairs trees ↔ ∃ t ∈ trees, ∃ e ∈ t, p = (e.L, e.R) := by
  simp only [condPairs, List.mem_flatMap, List.mem_map]
  constructor
  · rintro ⟨t, ht, e, he, rfl⟩; exact ⟨t, ht, e, he, rfl⟩
  · rintro ⟨t, ht, e, he, rfl⟩; exact ⟨t, ht, e, he, rfl⟩

/-- the other conditioned variable of an edge containing `a`. -/
def otherOf (a : Nat) (e : Edge) : Nat := if e.L = a then e.R else e.L

theorem CenterShape.vars_mem {C : List Nat} {a : Nat} {t : Tree} (hs : CenterShape C a t)
    {e : Edge} (he : e ∈ t) (x : Nat) : x ∈ e.vars ↔ x = a ∨ x = otherOf a e ∨ x ∈ C := by
  obtain ⟨hD, hlt, _, _, ha⟩ := hs e he
  rw [Edge.mem_vars, hD]
  unfold otherOf
  rcases ha with ha | ha
  · simp [ha]
  · have : e.L ≠ a := by omega
    simp [this, ha]; tauto

theorem CenterShape.other_facts {C : List Nat} {a : Nat} {t : Tree} (hs : CenterShape C a t)
    {e : Edge} (he : e ∈ t) : otherOf a e ≠ a ∧ otherOf a e ∉ C := by
  obtain ⟨_, hlt, hL, hR, ha⟩ := hs e he
  unfold otherOf
  rcases ha with ha | ha
  · simp only [ha, ite_true]; exact ⟨by omega, hR⟩
  · have : e.L ≠ a := by omega
    simp only [this, ite_false]; exact ⟨this, hL⟩

/-- **C-vine step**: over a tree of shape `(C, a)`, the edges of a star tree have shape
    `(C ∪ {a}, b)` where `b` is the other variable of the centre edge; their conditioned pairs
    avoid `C ∪ {a}`. -/
theorem CenterShape.next {k : Nat} {pp : Option Tree} {prev t : Tree} {C : List Nat} {a : Nat}
    (hs : CenterShape C a prev) (hinv : LevelInv k pp prev)
    (hk : ∀ e ∈ t, KthEdgeSpec (k + 1) prev e) (hstar : IsStar (t.map (Edge.ends false))) :
    ∃ b, CenterShape (norm (a :: C)) b t := by
  obtain ⟨c, hc⟩ := hstar
  by_cases hcl : c < prev.length
  swap
  · -- no edge can have `c` as a parent: the tree is empty
    refine ⟨0, fun e he => ?_⟩
    obtain ⟨i, j, hat⟩ := hk e he
    have := hc _ (List.mem_map.mpr ⟨e, he, rfl⟩)
    simp only [Edge.ends, hat.parents, Option.getD_some] at this
    rcases this with rfl | rfl
    · exact absurd hat.hi hcl
    · exact absurd hat.hj hcl
  refine ⟨otherOf a (prev.getD c default), fun e he => ?_⟩
  obtain ⟨i, j, hat⟩ := hk e he
  have hcm : prev.getD c default ∈ prev := getD_mem hcl
  -- the parents are the centre edge and another edge `x`
  have hends := hc _ (List.mem_map.mpr ⟨e, he, rfl⟩)
  simp only [Edge.ends, hat.parents, Option.getD_some] at hends
  obtain ⟨x, hx, hxc, hsym⟩ : ∃ x, x < prev.length ∧ x ≠ c ∧
      ((∀ y, y = e.L ∨ y = e.R ↔
        (y ∈ (prev.getD c default).vars ∧ y ∉ (prev.getD x default).vars) ∨
        (y ∈ (prev.getD x default).vars ∧ y ∉ (prev.getD c default).vars)) ∧
      ∀ y, y ∈ e.D ↔ y ∈ (prev.getD c default).vars ∧ y ∈ (prev.getD x default).vars) := by
    rcases hends with rfl | rfl
    · exact ⟨j, hat.hj, hat.ne.symm, hat.conditioned, hat.conditioning⟩
    · refine ⟨i, hat.hi, hat.ne, fun y => ?_, fun y => ?_⟩
      · rw [hat.conditioned y]; exact or_comm
      · rw [hat.conditioning y]; exact and_comm
  have hxm : prev.getD x default ∈ prev := getD_mem hx
  set e0 := prev.getD c default
  set ex := prev.getD x default
  have hv0 := hs.vars_mem hcm
  have hvx := hs.vars_mem hxm
  obtain ⟨hb_a, hb_C⟩ := hs.other_facts hcm
  obtain ⟨hy_a, hy_C⟩ := hs.other_facts hxm
  -- the two "other" variables differ, since the variable sets do
  have hby : otherOf a e0 ≠ otherOf a ex := by
    intro h
    apply hinv.vars_injective hcl hx hxc.symm
    apply sorted_ext (Edge.sorted_vars _) (Edge.sorted_vars _)
    intro y; rw [hv0 y, hvx y, h]
  have haC : a ∉ C := by
    obtain ⟨_, _, hL, hR, ha⟩ := hs e0 hcm
    rcases ha with rfl | rfl <;> assumption
  have hLR : ∀ y, y = e.L ∨ y = e.R ↔ y = otherOf a e0 ∨ y = otherOf a ex := by
    intro y
    rw [hsym.1 y, hv0 y, hvx y]
    constructor
    · rintro (⟨h1, h2⟩ | ⟨h1, h2⟩)
      · rcases h1 with rfl | rfl | h1
        · exact absurd (Or.inl rfl) h2
        · exact Or.inl rfl
        · exact absurd (Or.inr (Or.inr h1)) h2
      · rcases h1 with rfl | rfl | h1
        · exact absurd (Or.inl rfl) h2
        · exact Or.inr rfl
        · exact absurd (Or.inr (Or.inr h1)) h2
    · rintro (rfl | rfl)
      · left; refine ⟨Or.inr (Or.inl rfl), ?_⟩
        rintro (h | h | h)
        · exact hb_a h
        · exact hby h
        · exact hb_C h
      · right; refine ⟨Or.inr (Or.inl rfl), ?_⟩
        rintro (h | h | h)
        · exact hy_a h
        · exact hby h.symm
        · exact hy_C h
  have hDmem : ∀ y, y ∈ e.D ↔ y = a ∨ y ∈ C := by
    intro y
    rw [hsym.2 y, hv0 y, hvx y]
    constructor
    · rintro ⟨h1 | h1 | h1, h2 | h2 | h2⟩
      · exact Or.inl h1
      · exact Or.inl h1
      · exact Or.inl h1
      · exact Or.inl h2
      · exact absurd (h1.symm.trans h2) hby
      · exact Or.inr h2
      · exact Or.inl h2
      · exact Or.inr h1
      · exact Or.inr h1
    · rintro (h | h)
      · exact ⟨Or.inl h, Or.inl h⟩
      · exact ⟨Or.inr (Or.inr h), Or.inr (Or.inr h)⟩
  have hD : e.D = norm (a :: C) :=
    sorted_ext hat.sortedD (sorted_norm _) (by intro y; rw [hDmem y, mem_norm]; simp)
  have hLm := (hLR e.L).mp (Or.inl rfl)
  have hRm := (hLR e.R).mp (Or.inr rfl)
  have hnot : ∀ y, (y = otherOf a e0 ∨ y = otherOf a ex) → y ∉ norm (a :: C) := by
    intro y hy hmem
    rw [mem_norm] at hmem
    rcases List.mem_cons.mp hmem with h | h
    · rcases hy with rfl | rfl
      · exact hb_a h
      · exact hy_a h
    · rcases hy with rfl | rfl
      · exact hb_C h
      · exact hy_C h
  refine ⟨hD, hat.lt, hnot _ hLm, hnot _ hRm, ?_⟩
  have := (hLR (otherOf a e0)).mpr (Or.inl rfl)
  exact this.imp Eq.symm Eq.symm

/-- pairs-once for the tail of a C-vine, together with: the later pairs avoid `C ∪ {a}`. -/
theorem pairs_center_aux {d : Nat} : ∀ (trees : List Tree) (k : Nat) (pp : Option Tree)
    (prev : Tree) (C : List Nat) (a : Nat), LevelInv k pp prev → CenterShape C a prev →
    prev.length = d - (k + 1) → TreesSpec d (k + 1) (some prev) trees →
    (∀ t ∈ trees, IsStar (t.map (Edge.ends false))) →
    (condPairs trees).Nodup ∧
      ∀ p ∈ condPairs trees, p.1 ≠ a ∧ p.2 ≠ a ∧ p.1 ∉ C ∧ p.2 ∉ C
  | [], _, _, _, _, _, _, _, _, _, _ => by simp [condPairs]
  | t :: ts, k, pp, prev, C, a, hinv, hs, hlen, hspec, hstars => by
    obtain ⟨⟨hk, hspan⟩, hrest⟩ := hspec
    obtain ⟨b, hs'⟩ := hs.next hinv hk (hstars t (List.mem_cons_self ..))
    have hfirst : ((k + 1 == 1) : Bool) = pp.isNone := by rw [hinv.first_iff]; simp
    have hch : ∀ e ∈ t, ChildOK pp.isNone prev e := by
      intro e he
      obtain ⟨i, j, hat⟩ := hk e he
      exact childOK_of_kthEdgeAt hat hfirst
    have htl : t.length + 1 = prev.length := by rw [hlen]; simpa using hspan.1
    obtain ⟨_, hinv'⟩ := hinv.next htl hch (by rw [hlen]; exact hspan)
    obtain ⟨r1, r2⟩ := pairs_center_aux ts (k + 1) (some prev) t (norm (a :: C)) b hinv' hs'
      (by omega) hrest (fun t' ht' => hstars t' (List.mem_cons_of_mem _ ht'))
    have hown : ∀ e ∈ t, e.L ≠ a ∧ e.R ≠ a ∧ e.L ∉ C ∧ e.R ∉ C := by
      intro e he
      obtain ⟨_, _, hL, hR, _⟩ := hs' e he
      simp only [mem_norm, List.mem_cons, not_or] at hL hR
      exact ⟨hL.1, hR.1, hL.2, hR.2⟩
    refine ⟨treePairs_nodup_cons (hs'.pairs_nodup hinv') r1 ?_, ?_⟩
    · intro e he hmem
      obtain ⟨_, _, _, _, hb⟩ := hs' e he
      have := r2 _ hmem
      simp only at this
      rcases hb with hb | hb
      · exact this.1 hb
      · exact this.2.1 hb
    · intro p hp
      unfold condPairs at hp
      simp only [List.flatMap_cons, List.mem_append] at hp
      rcases hp with hp | hp
      · obtain ⟨e, he, rfl⟩ := List.mem_map.mp hp
        exact hown e he
      · have := r2 p hp
        simp only [mem_norm, List.mem_cons, not_or] at this
        exact ⟨this.2.2.1.1, this.2.2.2.1, this.2.2.1.2, this.2.2.2.2⟩

/-- **`pairs_once` for C-vines**: in any vine structure (`TreesSpec`) in which the first tree is a
    star and every later tree is a star, no pair of variables is conditioned twice. -/
theorem pairsOnce_of_stars {d : Nat} {t0 : Tree} {rest : List Tree}
    (hspec : TreesSpec d 0 none (t0 :: rest)) (h0 : IsStar (t0.map (Edge.ends true)))
    (hrest : ∀ t ∈ rest, IsStar (t.map (Edge.ends false))) : PairsOnce (t0 :: rest) := by
  obtain ⟨⟨he, hspan⟩, hr⟩ := hspec
  have hinv := LevelInv.first (by simpa using hspan.1) he hspan
  obtain ⟨c, hc⟩ := h0
  have hs : CenterShape [] c t0 := by
    intro e hmem
    have h := he e hmem
    have := hc _ (List.mem_map.mpr ⟨e, hmem, rfl⟩)
    exact ⟨h.cond, h.lt, by simp, by simp, by simpa [Edge.ends] using this⟩
  obtain ⟨r1, r2⟩ := pairs_center_aux rest 0 none t0 [] c hinv hs
    (by have := hspan.1; simp at this; omega) hr hrest
  refine treePairs_nodup_cons (hs.pairs_nodup hinv) r1 ?_
  intro e hmem hin
  obtain ⟨_, _, _, _, hb⟩ := hs e hmem
  have := r2 _ hin
  simp only at this
  rcases hb with hb | hb
  · exact this.1 hb
  · exact this.2.1 hb

end CopVerif.Model.Vine
