import CopVerif.Model.Effects
/-!
  Soundness of the write-effect checker (C20): induction over traces with the taint closure as
  the invariant.  Core Lean only.
-/
namespace CopVerif.Model.Effects

/-- The invariant carried along a trace.  `Owned` = the caller-owned objects, `T` = a taint set,
    `h0` = the heap at the start. -/
structure Inv (Owned : Obj → Prop) (T : Var → Bool) (h0 : Obj → Val) (s : State) : Prop where
  /-- every variable pointing at a caller-owned object is tainted -/
  tainted : ∀ x, Owned (s.env x) → T x = true
  /-- caller-owned objects are allocated (a `fresh` object is never one of them) -/
  alloc : ∀ o, Owned o → o < s.next
  /-- caller-owned objects still have their initial content -/
  same : ∀ o, Owned o → s.heap o = h0 o

theorem Inv.step {Owned : Obj → Prop} {T : Var → Bool} {h0 : Obj → Val} {s : State}
    (inv : Inv Owned T h0 s) (c : Val) (st : Stmt) (hst : closedStmt T st = true) :
    Inv Owned T h0 (Effects.step s c st) := by
  cases st with
  | param x => exact inv
  | call f args ret => exact inv
  | alias x y =>
    refine ⟨?_, inv.alloc, inv.same⟩
    intro v hv
    simp only [Effects.step] at hv
    by_cases hvx : v = x
    · subst hvx
      simp only [if_true] at hv
      have hy := inv.tainted y hv
      simp only [closedStmt, hy, Bool.not_true, Bool.false_or] at hst
      exact hst
    · simp only [hvx, if_false] at hv
      exact inv.tainted v hv
  | fresh x =>
    refine ⟨?_, ?_, ?_⟩
    · intro v hv
      simp only [Effects.step] at hv
      by_cases hvx : v = x
      · subst hvx
        simp only [if_true] at hv
        exact absurd (inv.alloc _ hv) (Nat.lt_irrefl _)
      · simp only [hvx, if_false] at hv
        exact inv.tainted v hv
    · intro o ho
      exact Nat.lt_succ_of_lt (inv.alloc o ho)
    · intro o ho
      simp only [Effects.step]
      have hne : o ≠ s.next := Nat.ne_of_lt (inv.alloc o ho)
      simp only [hne, if_false]
      exact inv.same o ho
  | write x =>
    refine ⟨inv.tainted, inv.alloc, ?_⟩
    intro o ho
    simp only [Effects.step]
    by_cases hox : o = s.env x
    · subst hox
      have hx := inv.tainted x ho
      simp [closedStmt, hx] at hst
    · simp only [hox, if_false]
      exact inv.same o ho

theorem Inv.run {Owned : Obj → Prop} {T : Var → Bool} {h0 : Obj → Val} (p : Program)
    (hp : p.all (closedStmt T) = true) :
    ∀ (tr : List (Stmt × Val)) (s : State), Inv Owned T h0 s → (∀ sc ∈ tr, sc.1 ∈ p) →
      Inv Owned T h0 (Effects.run s tr) := by
  intro tr
  induction tr with
  | nil => intro s inv _; exact inv
  | cons sc tr ih =>
    intro s inv hmem
    obtain ⟨st, c⟩ := sc
    have hst : closedStmt T st = true :=
      List.all_eq_true.mp hp st (hmem (st, c) (List.mem_cons_self ..))
    exact ih (Effects.step s c st) (Inv.step inv c st hst) (fun sc h => hmem sc (List.mem_cons_of_mem _ h))

/-- General form: any taint set `T` accepted by `okFor` protects every object that initially is
    pointed at by root variables only. -/
theorem okFor_sound (p : Program) (T : Var → Bool) (roots : List Var) (h : okFor p T roots = true)
    (Owned : Obj → Prop) (s0 : State)
    (hown : ∀ x, Owned (s0.env x) → x ∈ roots)
    (halloc : ∀ o, Owned o → o < s0.next)
    (tr : List (Stmt × Val)) (htr : ∀ sc ∈ tr, sc.1 ∈ p) :
    ∀ o, Owned o → (run s0 tr).heap o = s0.heap o := by
  simp only [okFor, Bool.and_eq_true] at h
  have inv0 : Inv Owned T s0.heap s0 :=
    ⟨fun x hx => List.all_eq_true.mp h.1 x (hown x hx), halloc, fun _ _ => rfl⟩
  exact (Inv.run p h.2 tr s0 inv0 htr).same

theorem mem_params {p : Program} {x : Var} : x ∈ params p ↔ Stmt.param x ∈ p := by
  simp only [params, List.mem_filterMap]
  constructor
  · rintro ⟨s, hs, hx⟩
    cases s <;> simp at hx
    subst hx; exact hs
  · intro h
    exact ⟨_, h, rfl⟩

end CopVerif.Model.Effects
