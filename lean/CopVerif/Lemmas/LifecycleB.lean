import CopVerif.Lemmas.Lifecycle
import CopVerif.Gen.Lifecycle
/-!
# Lemmas for the complete case analyses of C19 (`Props/C19b.lean`) — core Lean, no Mathlib

* `Variant.current`: the flags the code has **now** (the constant-method override was repaired in
  /repo commit c9bdab3; the remembered bounds and the cached sample size are still there — the tie
  `corr:fit-history` reports "real code refines variant 011").
* `Given` / `Unaffected` / `RefitPureAt`: re-fit purity of a variant *restricted to a kind and to the
  constructors that give / do not give each of the three options*, and the exact condition under
  which it holds.
* `refit_state_of_unaffected`: under that condition re-fitting is state-identical to a fresh fit
  (invariant: the option attributes of the instance stay the constructor's).
* three families of closed counter-examples (free fitters, concrete datasets) for the
  configurations that violate the condition.
* entry points of unfitted objects: `guardAtEnd`, `Outcome`, `unfittedOutcome` (what the generated
  guard table says a call on an unfitted object does first), `rawQuery` (a method body without
  `check_fit`).
-/
namespace CopVerif.Model.Lifecycle
open CopVerif

/-- the code as it is now: constant methods are removed by a non-constant fit (repaired), bounds are
    remembered and the sample size is cached (recorded findings). -/
def Variant.current : Variant := ⟨false, true, true⟩

@[simp] theorem Variant.current_keepOverride : Variant.current.keepOverride = false := rfl
@[simp] theorem Variant.current_rememberBounds : Variant.current.rememberBounds = true := rfl
@[simp] theorem Variant.current_cacheSize : Variant.current.cacheSize = true := rfl

/-- which of the three option attributes a constructor call sets (to something a fit will not
    replace): `minimum`, `maximum` not `None`; `sample_size` truthy. -/
structure Given where
  min : Bool
  max : Bool
  size : Bool
  deriving DecidableEq, Repr

def Opts.given {V O : Type} (o : Opts V O) : Given :=
  ⟨o.min.isSome, o.max.isSome, (truthy o.sampleSize).isSome⟩

/-- the configurations (variant, kind of class, options given) that none of the three recorded
    behaviours can reach:
    * the variant removes the constant methods;
    * a class that stores data-derived bounds either does not read them back or was given both;
    * a class that caches the data length either does not read it back or was given a size. -/
def Unaffected (v : Variant) (k : Kind) (g : Given) : Bool :=
  !v.keepOverride &&
  (!(k == .truncated) || !v.rememberBounds || (g.min && g.max)) &&
  (!(k == .kde) || !v.cacheSize || g.size)

/-- "re-fitting gives the same observable model as fitting a fresh one" for variant `v`, classes
    of kind `k` and constructor calls of given-ness `g`: every interpretation of the externals,
    every class, every such constructor call, every history. -/
def RefitPureAt (v : Variant) (k : Kind) (g : Given) : Prop :=
  ∀ (C V O P D : Type) (ops : DataOps D V) (F : Fitters C V O P D) (c : C) (o : Opts V O),
    o.given = g → ∀ (xs : List D) (x : D),
      obs (fitAll v ops F (UState.fresh c k o) (xs ++ [x])) = obs (fit v ops F (UState.fresh c k o) x)

section
variable {C V O P D : Type}

/-- the instance agrees with a fresh one on everything a fit can read (bar the override). -/
structure Settled (c : C) (k : Kind) (o : Opts V O) (s : UState C V O P) : Prop where
  cls : s.cls = c
  kind : s.kind = k
  ctor : s.ctor = o
  min : s.min = o.min
  max : s.max = o.max
  size : s.sampleSize = o.sampleSize

theorem settled_fresh (c : C) (k : Kind) (o : Opts V O) : Settled c k o (UState.fresh (P := P) c k o) :=
  ⟨rfl, rfl, rfl, rfl, rfl, rfl⟩

theorem orElse_of_ne_none (a : Option V) (b : V) (h : a ≠ none) : orElse a b = a := by
  cases a with
  | none => exact absurd rfl h
  | some v => rfl

/-- hypotheses of the positive results, on the options themselves. -/
structure OptsOK (v : Variant) (k : Kind) (o : Opts V O) : Prop where
  bounds : k = .truncated → v.rememberBounds = true → o.min ≠ none ∧ o.max ≠ none
  size : k = .kde → v.cacheSize = true → truthy o.sampleSize ≠ none

theorem optsOK_of_unaffected (v : Variant) (k : Kind) (o : Opts V O)
    (h : Unaffected v k o.given = true) : v.keepOverride = false ∧ OptsOK v k o := by
  unfold Unaffected Opts.given at h
  simp only [Bool.and_eq_true, Bool.or_eq_true, Bool.not_eq_true'] at h
  obtain ⟨⟨h1, h2⟩, h3⟩ := h
  refine ⟨h1, ⟨?_, ?_⟩⟩
  · intro hk hv
    rcases h2 with (h2 | h2) | ⟨a, b⟩
    · simp [hk] at h2
    · rw [hv] at h2; cases h2
    · exact ⟨(by intro e; rw [e] at a; cases a), (by intro e; rw [e] at b; cases b)⟩
  · intro hk hv
    rcases h3 with (h3 | h3) | a
    · simp [hk] at h3
    · rw [hv] at h3; cases h3
    · intro e; rw [e] at a; cases a

theorem settled_step (v : Variant) (ops : DataOps D V) (F : Fitters C V O P D) (c : C) (k : Kind)
    (o : Opts V O) (hok : OptsOK v k o) (s : UState C V O P) (x : D) (hs : Settled c k o s) :
    Settled c k o (fit v ops F s x) := by
  obtain ⟨h1, h2, h3, h4, h5, h6⟩ := hs
  have hmn : (if v.rememberBounds then s.min else s.ctor.min) = o.min := by
    cases v.rememberBounds <;> simp [h3, h4]
  have hmx : (if v.rememberBounds then s.max else s.ctor.max) = o.max := by
    cases v.rememberBounds <;> simp [h3, h5]
  have hss : (if v.cacheSize then s.sampleSize else s.ctor.sampleSize) = o.sampleSize := by
    cases v.cacheSize <;> simp [h3, h6]
  cases hx : ops.const? x with
  | some cv =>
    have e : fit v ops F s x =
        ⟨s.cls, s.kind, s.ctor, true,
         some (F.fitConst s.cls (constSize s.kind (if v.cacheSize then s.sampleSize else s.ctor.sampleSize) (ops.len x)) x),
         some cv, (if v.rememberBounds then s.min else s.ctor.min),
         (if v.rememberBounds then s.max else s.ctor.max),
         (if v.cacheSize then s.sampleSize else s.ctor.sampleSize)⟩ := by
      unfold fit; simp [hx]
    rw [e]
    exact ⟨h1, h2, h3, hmn, hmx, hss⟩
  | none =>
    have e : fit v ops F s x =
        ⟨s.cls, s.kind, s.ctor, true,
         some (F.fitFn s.cls (effOpts s.kind
            (stepBound s.kind (if v.rememberBounds then s.min else s.ctor.min) (ops.lo x))
            (stepBound s.kind (if v.rememberBounds then s.max else s.ctor.max) (ops.hi x))
            (if v.cacheSize then s.sampleSize else s.ctor.sampleSize) s.ctor.other) x),
         (if v.keepOverride then s.override else none),
         (if v.rememberBounds then
            stepBound s.kind (if v.rememberBounds then s.min else s.ctor.min) (ops.lo x)
          else (if v.rememberBounds then s.min else s.ctor.min)),
         (if v.rememberBounds then
            stepBound s.kind (if v.rememberBounds then s.max else s.ctor.max) (ops.hi x)
          else (if v.rememberBounds then s.max else s.ctor.max)),
         (if v.cacheSize then
            stepSize s.kind (if v.cacheSize then s.sampleSize else s.ctor.sampleSize) (ops.len x)
          else (if v.cacheSize then s.sampleSize else s.ctor.sampleSize))⟩ := by
      unfold fit; simp [hx]
    rw [e, hmn, hmx, hss, h2]
    refine ⟨h1, rfl, h3, ?_, ?_, ?_⟩
    · show (if v.rememberBounds then stepBound k o.min (ops.lo x) else o.min) = o.min
      cases hv : v.rememberBounds with
      | false => rfl
      | true =>
        cases k with
        | scipy => rfl
        | kde => rfl
        | truncated => exact orElse_of_ne_none _ _ (hok.bounds rfl hv).1
    · show (if v.rememberBounds then stepBound k o.max (ops.hi x) else o.max) = o.max
      cases hv : v.rememberBounds with
      | false => rfl
      | true =>
        cases k with
        | scipy => rfl
        | kde => rfl
        | truncated => exact orElse_of_ne_none _ _ (hok.bounds rfl hv).2
    · show (if v.cacheSize then stepSize k o.sampleSize (ops.len x) else o.sampleSize) = o.sampleSize
      cases hv : v.cacheSize with
      | false => rfl
      | true =>
        cases k with
        | scipy => rfl
        | truncated => rfl
        | kde => exact truthy_orLen _ _ (hok.size rfl hv)

theorem settled_fitAll (v : Variant) (ops : DataOps D V) (F : Fitters C V O P D) (c : C) (k : Kind)
    (o : Opts V O) (hok : OptsOK v k o) (xs : List D) :
    ∀ s : UState C V O P, Settled c k o s → Settled c k o (fitAll v ops F s xs) := by
  induction xs with
  | nil => intro s hs; exact hs
  | cons x xs ih => intro s hs; exact ih _ (settled_step v ops F c k o hok s x hs)

/-- a fit that does not keep overrides reads only what `Settled` fixes. -/
theorem fit_of_settled (v : Variant) (hv : v.keepOverride = false) (ops : DataOps D V)
    (F : Fitters C V O P D) (c : C) (k : Kind) (o : Opts V O) (s : UState C V O P) (x : D)
    (hs : Settled c k o s) : fit v ops F s x = fit v ops F (UState.fresh c k o) x := by
  obtain ⟨h1, h2, h3, h4, h5, h6⟩ := hs
  unfold fit UState.fresh
  simp only [h1, h2, h3, h4, h5, h6, hv]
  cases ops.const? x <;> simp

/-- **state-identical re-fit** for every variant that removes the constant methods, every kind and
    every constructor call the remaining recorded behaviours cannot reach. -/
theorem refit_state_of_optsOK (v : Variant) (hv : v.keepOverride = false) (ops : DataOps D V)
    (F : Fitters C V O P D) (c : C) (k : Kind) (o : Opts V O) (hok : OptsOK v k o) (xs : List D)
    (x : D) :
    fitAll v ops F (UState.fresh c k o) (xs ++ [x]) = fit v ops F (UState.fresh c k o) x := by
  rw [fitAll_snoc]
  exact fit_of_settled v hv ops F c k o _ x
    (settled_fitAll v ops F c k o hok xs _ (settled_fresh c k o))

end

/-! ## closed counter-examples (free fitters, datasets `Dat Nat`) -/

/-- a constructor call with prescribed given-ness. -/
def witnessOpts (g : Given) : Opts Nat Unit :=
  ⟨if g.min then some 0 else none, if g.max then some 100 else none, if g.size then some 9 else none, ()⟩

theorem witnessOpts_given (g : Given) : (witnessOpts g).given = g := by
  rcases g with ⟨_ | _, _ | _, _ | _⟩ <;> rfl

abbrev WP := FreeP Unit Nat Unit (Dat Nat)

/-- constant dataset (value 7), and two non-constant ones with different ranges and lengths. -/
def datC : Dat Nat := ⟨1, some 7, 7, 7, 3⟩
def datA : Dat Nat := ⟨2, none, 1, 50, 5⟩
def datB : Dat Nat := ⟨3, none, 20, 40, 4⟩

theorem not_pure_of_keepOverride (v : Variant) (k : Kind) (g : Given) (hv : v.keepOverride = true) :
    ¬ RefitPureAt v k g := by
  intro H
  have h := H Unit Nat Unit WP (Dat Nat) datOps freeFitters () (witnessOpts g) (witnessOpts_given g)
    [datC] datA
  have h := congrArg Obs.override h
  rcases v with ⟨a, b, c⟩
  simp only at hv
  subst hv
  revert h
  cases b <;> cases c <;> cases k <;> rcases g with ⟨_ | _, _ | _, _ | _⟩ <;> decide

theorem not_pure_of_rememberBounds (v : Variant) (g : Given) (hv : v.rememberBounds = true)
    (hg : (g.min && g.max) = false) : ¬ RefitPureAt v .truncated g := by
  intro H
  have h := H Unit Nat Unit WP (Dat Nat) datOps freeFitters () (witnessOpts g) (witnessOpts_given g)
    [datA] datB
  have h := congrArg Obs.params h
  rcases v with ⟨a, b, c⟩
  simp only at hv
  subst hv
  revert h hg
  cases a <;> cases c <;> rcases g with ⟨_ | _, _ | _, _ | _⟩ <;> decide

theorem not_pure_of_cacheSize (v : Variant) (g : Given) (hv : v.cacheSize = true)
    (hg : g.size = false) : ¬ RefitPureAt v .kde g := by
  intro H
  have h := H Unit Nat Unit WP (Dat Nat) datOps freeFitters () (witnessOpts g) (witnessOpts_given g)
    [datA] datB
  have h := congrArg Obs.params h
  rcases v with ⟨a, b, c⟩
  simp only at hv
  subst hv
  revert h hg
  cases a <;> cases b <;> rcases g with ⟨_ | _, _ | _, _ | _⟩ <;> decide

/-- **exact characterisation** of re-fit purity over variants × kinds × given options. -/
theorem refitPureAt_iff (v : Variant) (k : Kind) (g : Given) :
    RefitPureAt v k g ↔ Unaffected v k g = true := by
  constructor
  · intro H
    cases hu : Unaffected v k g with
    | true => rfl
    | false =>
      exfalso
      unfold Unaffected at hu
      cases h1 : v.keepOverride with
      | true => exact not_pure_of_keepOverride v k g h1 H
      | false =>
        cases k with
        | scipy => simp [h1] at hu
        | truncated =>
          cases h2 : v.rememberBounds with
          | false => simp [h1, h2] at hu
          | true =>
            refine not_pure_of_rememberBounds v g h2 ?_ H
            cases hg : (g.min && g.max) with
            | false => rfl
            | true => simp [h1, h2, hg] at hu
        | kde =>
          cases h2 : v.cacheSize with
          | false => simp [h1, h2] at hu
          | true =>
            refine not_pure_of_cacheSize v g h2 ?_ H
            cases hg : g.size with
            | false => rfl
            | true => simp [h1, h2, hg] at hu
  · intro hu C V O P D ops F c o hg xs x
    subst hg
    obtain ⟨hv, hok⟩ := optsOK_of_unaffected v k o hu
    rw [refit_state_of_optsOK v hv ops F c k o hok xs x]

/-! ## what a call on an unfitted object does first, according to the generated guard table -/

/-- the guard at the end of the delegation chain of method `m`. -/
def guardAtEnd (ci : ClassInfo) : Nat → String → Option Guard
  | 0, _ => none
  | fuel + 1, m =>
    match lookupGuard ci m with
    | some (.delegate m') => guardAtEnd ci fuel m'
    | g => g

/-- classification of an entry point of a class. -/
inductive Outcome where
  /-- `check_fit()` comes first: `NotFittedError` on an unfitted object. -/
  | notFitted
  /-- the class does not implement the method (`raise NotImplementedError`, fitted or not). -/
  | notImplemented
  /-- the body runs on the unfitted attributes. -/
  | runsBody
  deriving DecidableEq, Repr

def unfittedOutcome (ci : ClassInfo) (m : String) : Option Outcome :=
  match lookupGuard ci m with
  | none => none
  | some _ =>
    if guarded ci m then some .notFitted
    else if guardAtEnd ci 4 m == some .abstract then some .notImplemented
    else some .runsBody

/-- the classes a user instantiates and fits (abstract bases `ScipyModel`/`Multivariate`/`Bivariate`
    and the internal `Tree`/`Edge` classes excluded). -/
def modelClasses : List String :=
  ["Univariate", "BetaUnivariate", "GammaUnivariate", "GaussianUnivariate", "GaussianKDE", "LogLaplace",
   "StudentTUnivariate", "TruncatedGaussian", "UniformUnivariate",
   "GaussianMultivariate", "VineCopula", "Clayton", "Frank", "Gumbel", "Independence"]

/-- all (class, method) pairs of the generated table for the model classes. -/
def entryPoints : List (String × String) :=
  (Gen.Lifecycle.classes.filter fun ci => modelClasses.contains ci.name).flatMap fun ci =>
    ci.guards.map fun g => (ci.name, g.1)

def outcomeOf (p : String × String) : Option Outcome :=
  match tableOf Gen.Lifecycle.classes p.1 with
  | none => none
  | some ci => unfittedOutcome ci p.2

/-- a method whose first statement is **not** `self.check_fit()`: the body runs on the attributes as
    they are.  With the parameter missing (`None`, or an attribute only `fit` creates) its first use
    raises `onMissing` — `TypeError` for arithmetic / comparison with `None` (`Bivariate.sample`:
    `self.tau > 1`; `Frank.generator`: `-self.theta * t`; `Gumbel.generator`:
    `np.power(…, self.theta)`), `AttributeError` (`Err.other`) for `VineCopula.sample` /
    `get_likelihood` (`self.tau_mat`, `self.trees`, …). -/
def rawQuery {T R : Type} (onMissing : Err) (eval : T → R) (θ : Option T) : Except Err R :=
  match θ with
  | none => .error onMissing
  | some t => .ok (eval t)

end CopVerif.Model.Lifecycle
