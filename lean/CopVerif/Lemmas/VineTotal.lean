import CopVerif.Lemmas.VineWhole
/-!
  No Python-level failure (`ValueError` from `_identify_eds_ing`, `IndexError`, the non-terminating
  branch) in any of the three vine types: the model fails only by refusing the supplied choices.
-/
set_option linter.unusedSimpArgs false
set_option linter.unusedSectionVars false
set_option linter.unusedVariables false
namespace CopVerif.Model.Vine

theorem mapM_total {β γ : Type} {f : β → Except Fail γ} : ∀ (l : List β),
    (∀ a ∈ l, ∃ b, f a = .ok b) → ∃ r, l.mapM f = .ok r
  | [], _ => ⟨[], rfl⟩
  | a :: l, h => by
    obtain ⟨b, hb⟩ := h a (List.mem_cons_self ..)
    obtain ⟨r, hr⟩ := mapM_total l (fun x hx => h x (List.mem_cons_of_mem _ hx))
    exact ⟨b :: r, by rw [List.mapM_cons, hb, hr]; rfl⟩

section
variable {α : Type} [Preorder α] [DecidableLT α] [Neg α] [NumFns α]

theorem buildFirst_no_failure {vt : VType} {d : Nat} {c : Choice α} {e : Fail} (hd : 2 ≤ d)
    (h : buildFirst vt d c = .error e) : e.isRefusal := by
  cases vt with
  | center =>
    simp only [buildFirst, centerFirst] at h
    split_ifs at h
    simp only [Except.error.injEq] at h; subst h; trivial
  | direct =>
    simp only [buildFirst] at h
    split at h
    · simp only [directFirst] at h
      split_ifs at h
      simp only [Except.error.injEq] at h; subst h; trivial
    · simp only [Except.error.injEq] at h; subst h; trivial
  | regular =>
    obtain ⟨w, rfl⟩ := primFirstGo_no_failure (unflatten c.picks) [0] (by simp) (by simp)
      (by simp; omega) e h
    trivial

theorem buildKth_no_failure {vt : VType} {k n : Nat} {pp : Option Tree} {prev : Tree}
    {c : Choice α} {e : Fail} (hn : 2 ≤ n) (hinv : LevelInv k pp prev) (hlen : prev.length = n)
    (hty : TypeInv vt pp.isNone prev) (hc : ChoiceOK vt n false c)
    (h : buildKth vt (k + 2) n prev c = .error e) : e.isRefusal := by
  cases vt with
  | center =>
    simp only [buildKth, centerKth] at h
    split_ifs at h with hok
    · exfalso
      have hf := orderOk_facts hok
      have h0 := zero_not_picked (by omega) hc hf
      obtain ⟨cc, hcc⟩ := hty
      have hsh : ∀ i, i < prev.length → IsEnd pp.isNone (prev.getD i default) cc := by
        intro i hi
        exact (hcc _ (ends_mem_map hi)).imp Eq.symm Eq.symm
      obtain ⟨t, ht⟩ := mapM_total (f := fun r => childEdge prev 0 r) c.picks (by
        intro r hr
        have hrl : r < prev.length := by rw [hlen]; exact hf.lt r hr
        have h0l : 0 < prev.length := by omega
        exact hinv.childEdge_total h0l hrl (by rintro rfl; exact h0 hr)
          ⟨cc, hsh 0 h0l, hsh r hrl⟩)
      simp only [starKth, ht, bind, Except.bind, pure, Except.pure] at h
      exact absurd h (by simp)
    · simp only [Except.error.injEq] at h; subst h; trivial
  | direct =>
    exfalso
    obtain ⟨⟨v, hv⟩, _⟩ := hty
    have hcons := consecShare_of_walks hv
    obtain ⟨t, ht⟩ := mapM_total (f := fun k => childEdge prev k (k + 1)) (List.range (n - 1)) (by
      intro i hi
      have hi' : i < n - 1 := List.mem_range.mp hi
      exact hinv.childEdge_total (by omega) (by omega) (by omega) (hcons i (by omega)))
    simp only [buildKth, directKth, pathKth, ht, bind, Except.bind, pure, Except.pure] at h
    exact absurd h (by simp)
  | regular =>
    obtain ⟨w, rfl⟩ := primKthGo_no_failure hinv hlen (unflatten c.picks) [0] (by simp)
      (by simp) (by simp; omega) e h
    trivial

theorem trainRest_no_failure {vt : VType} {d : Nat} : ∀ (fuel j : Nat) (pp : Option Tree)
    (prev : Tree) (cs : List (Choice α)) (e : Fail),
    LevelInv j pp prev → prev.length = d - (j + 1) → TypeInv vt pp.isNone prev →
    j + 1 + fuel ≤ d - 1 → ChoicesOK vt d (j + 1) cs →
    trainRest vt d fuel (j + 1) prev cs = .error e → e.isRefusal
  | 0, j, pp, prev, cs, e, _, _, _, _, _, h => by simp [trainRest] at h
  | fuel + 1, j, pp, prev, cs, e, hinv, hlen, hty, hle, hcs, h => by
    cases cs with
    | nil => simp only [trainRest, Except.error.injEq] at h; subst h; trivial
    | cons c cs =>
      simp only [trainRest] at h
      have hn : 2 ≤ d - (j + 1) := by omega
      have hc : ChoiceOK vt (d - (j + 1)) false c := by simpa using hcs.1
      cases hb : buildKth vt (j + 1 + 1) (d - (j + 1)) prev c with
      | error e' =>
        simp only [hb, bind, Except.bind, Except.error.injEq] at h
        subst h
        exact buildKth_no_failure hn hinv hlen hty hc hb
      | ok b =>
        obtain ⟨t, ts⟩ := b
        obtain ⟨h1, h2, h3, h4⟩ := buildKth_spec hn hinv hlen hty hc hb
        obtain ⟨hk, hinv'⟩ := hinv.next (by omega) h2 (by rw [hlen]; exact h3)
        cases hr : trainRest vt d fuel (j + 1 + 1) t cs with
        | ok rest => simp [hb, hr, bind, Except.bind, pure, Except.pure] at h
        | error e' =>
          simp only [hb, hr, bind, Except.bind, Except.error.injEq] at h
          subst h
          exact trainRest_no_failure fuel (j + 1) (some prev) t cs e' hinv' (by omega)
            (by simpa using h4) (by omega) hcs.2 hr

/-- **No Python-level failure, all vine types.**  For `d ≥ 2` and tau data satisfying `ChoicesOK`,
    the model of `train_vine` never raises `ValueError` (`left, right = sorted(A ^ B)` always finds
    exactly two variables), never an `IndexError`, and never enters the non-terminating branch. -/
theorem trainVine_no_failure {vt : VType} {d t : Nat} {cs : List (Choice α)} {e : Fail}
    (hd : 2 ≤ d) (hcs : ChoicesOK vt d 0 cs) (h : trainVine vt d t cs = .error e) :
    e.isRefusal := by
  cases cs with
  | nil => simp only [trainVine, Except.error.injEq] at h; subst h; trivial
  | cons c cs =>
    simp only [trainVine] at h
    cases hb : buildFirst vt d c with
    | error e' =>
      simp only [hb, bind, Except.bind, Except.error.injEq] at h
      subst h
      exact buildFirst_no_failure hd hb
    | ok b =>
      obtain ⟨t0, ts⟩ := b
      obtain ⟨h1, h2, h3, h4⟩ := buildFirst_spec hd (by simpa using hcs.1) hb
      have hinv := LevelInv.first h1 h2 h3
      cases hr : trainRest vt d (min (d - 1) t - 1) 1 t0 cs with
      | ok rest => simp [hb, hr, bind, Except.bind, pure, Except.pure] at h
      | error e' =>
        simp only [hb, hr, bind, Except.bind, Except.error.injEq] at h
        subst h
        exact trainRest_no_failure _ 0 none t0 cs e' hinv (by omega) h4 (by omega) hcs.2 hr

end
end CopVerif.Model.Vine
