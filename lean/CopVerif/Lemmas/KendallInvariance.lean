import Mathlib.Order.Monotone.Basic
import CopVerif.Model.GaussSample
/-!
  Invariance of Kendall's concordance counts under coordinate-wise increasing maps (property C01).

  * `counts_map_strictMono`: for strictly increasing `f`, `g` the five counts (concordant, discordant,
    tied in x, tied in y, tied in both) of `l.map (Prod.map f g)` are those of `l`, for samples of ANY
    length; hence `kendallTauB` is unchanged (`kendallTauB_map_strictMono`).
  * for merely non-decreasing maps (a quantile function with flat pieces: a discrete or constant marginal)
    only inequalities hold: image pairs that are concordant (discordant) come from concordant (discordant)
    pairs — `pairCount_conc_map_le`, `pairCount_disc_map_le` — the others become ties.
-/
namespace CopVerif.Model.GaussSample

section
variable {γ δ : Type}

theorem pairCount_map (P : δ → δ → Bool) (h : γ → δ) (l : List γ) :
    pairCount P (l.map h) = pairCount (fun p q => P (h p) (h q)) l := by
  induction l with
  | nil => rfl
  | cons p rest ih => simp only [List.map_cons, pairCount, List.countP_map, ih]; rfl

theorem pairCount_congr {P P' : γ → γ → Bool} (h : ∀ p q, P p q = P' p q) (l : List γ) :
    pairCount P l = pairCount P' l := by
  have : P = P' := funext fun p => funext fun q => h p q
  rw [this]

theorem pairCount_le {P P' : γ → γ → Bool} (h : ∀ p q, P p q = true → P' p q = true) (l : List γ) :
    pairCount P l ≤ pairCount P' l := by
  induction l with
  | nil => exact Nat.le_refl _
  | cons p rest ih =>
    simp only [pairCount]
    exact Nat.add_le_add (List.countP_mono_left fun q _ hq => h p q hq) ih
end

section
variable {α β α' β' : Type} [LinearOrder α] [LinearOrder β] [LinearOrder α'] [LinearOrder β']
  {f : α → α'} {g : β → β'}

theorem conc_map (hf : StrictMono f) (hg : StrictMono g) (p q : α × β) :
    conc (Prod.map f g p) (Prod.map f g q) = conc p q := by
  simp [conc, hf.lt_iff_lt, hg.lt_iff_lt]

theorem disc_map (hf : StrictMono f) (hg : StrictMono g) (p q : α × β) :
    disc (Prod.map f g p) (Prod.map f g q) = disc p q := by
  simp [disc, hf.lt_iff_lt, hg.lt_iff_lt]

omit [LinearOrder β] [LinearOrder β'] in
theorem tieX_map (hf : StrictMono f) (p q : α × β) :
    tieX (Prod.map f g p) (Prod.map f g q) = tieX p q := by
  simp [tieX, hf.lt_iff_lt]

omit [LinearOrder α] [LinearOrder α'] in
theorem tieY_map (hg : StrictMono g) (p q : α × β) :
    tieY (Prod.map f g p) (Prod.map f g q) = tieY p q := by
  simp [tieY, hg.lt_iff_lt]

/-- the concordance counts are invariant under strictly increasing coordinate maps. -/
theorem counts_map_strictMono (hf : StrictMono f) (hg : StrictMono g) (l : List (α × β)) :
    counts (l.map (Prod.map f g)) = counts l := by
  have h1 : pairCount (fun p q => conc (Prod.map f g p) (Prod.map f g q)) l = pairCount conc l :=
    pairCount_congr (conc_map hf hg) l
  have h2 : pairCount (fun p q => disc (Prod.map f g p) (Prod.map f g q)) l = pairCount disc l :=
    pairCount_congr (disc_map hf hg) l
  have h3 : pairCount (fun p q => tieX (Prod.map f g p) (Prod.map f g q)) l = pairCount tieX l :=
    pairCount_congr (tieX_map (g := g) hf) l
  have h4 : pairCount (fun p q => tieY (Prod.map f g p) (Prod.map f g q)) l = pairCount tieY l :=
    pairCount_congr (tieY_map (f := f) hg) l
  have h5 : pairCount (fun p q => tieX (Prod.map f g p) (Prod.map f g q)
        && tieY (Prod.map f g p) (Prod.map f g q)) l = pairCount (fun p q => tieX p q && tieY p q) l :=
    pairCount_congr (fun p q => by rw [tieX_map (g := g) hf, tieY_map (f := f) hg]) l
  simp only [counts, pairCount_map, h1, h2, h3, h4, h5]

theorem kendallTauB_map_strictMono {ν : Type} [Sub ν] [Mul ν] [Div ν] [NumFns ν]
    (hf : StrictMono f) (hg : StrictMono g) (l : List (α × β)) :
    (kendallTauB (l.map (Prod.map f g)) : Option ν) = kendallTauB l := by
  simp only [kendallTauB, counts_map_strictMono hf hg, List.length_map]

/-- non-decreasing maps can only destroy concordance (turn it into a tie), never create it. -/
theorem pairCount_conc_map_le (hf : Monotone f) (hg : Monotone g) (l : List (α × β)) :
    pairCount conc (l.map (Prod.map f g)) ≤ pairCount conc l := by
  rw [pairCount_map]
  apply pairCount_le
  intro p q h
  simp only [conc, Prod.map_fst, Prod.map_snd, Bool.or_eq_true, Bool.and_eq_true, decide_eq_true_eq] at h ⊢
  rcases h with ⟨h1, h2⟩ | ⟨h1, h2⟩
  · exact Or.inl ⟨hf.reflect_lt h1, hg.reflect_lt h2⟩
  · exact Or.inr ⟨hf.reflect_lt h1, hg.reflect_lt h2⟩

theorem pairCount_disc_map_le (hf : Monotone f) (hg : Monotone g) (l : List (α × β)) :
    pairCount disc (l.map (Prod.map f g)) ≤ pairCount disc l := by
  rw [pairCount_map]
  apply pairCount_le
  intro p q h
  simp only [disc, Prod.map_fst, Prod.map_snd, Bool.or_eq_true, Bool.and_eq_true, decide_eq_true_eq] at h ⊢
  rcases h with ⟨h1, h2⟩ | ⟨h1, h2⟩
  · exact Or.inl ⟨hf.reflect_lt h1, hg.reflect_lt h2⟩
  · exact Or.inr ⟨hf.reflect_lt h1, hg.reflect_lt h2⟩

end
end CopVerif.Model.GaussSample
