import CopVerif.Real.Pearson
/-!
  C02, "finite": the shape of every entry of the fitted correlation matrix, for an ARBITRARY numeric
  carrier (in particular `Float`, where `<`, `isNaN`, `+` are opaque to the kernel).

  `clipUnit` followed by `nan_to_num` can only produce the NaN replacement, `1`, `-1`, or a value `v`
  that is not NaN and satisfies neither `1 < v` nor `v < -1` (`UnitForm`).  `UnitFinite α` collects
  the facts about the carrier that turn this shape into `np.isfinite`; they are proved at `ℝ`
  (`unitFinite_real`) and are IEEE-754 facts at binary64.
-/
namespace CopVerif.Pearson
open CopVerif Model NumFns

section generic
set_option linter.unusedSectionVars false
variable {α : Type} [Add α] [Sub α] [Mul α] [Div α] [Neg α] [LT α] [LE α]
  [DecidableLT α] [DecidableLE α] [NumFns α]

/-- what `nan_to_num(clip(·))` can return: the NaN replacement, `1`, `-1`, or a non-NaN value that
    is neither `> 1` nor `< -1`. -/
def UnitForm (e : α) : Prop :=
  e = Gen.GaussCorr.nanReplacement ∨ e = ofNat 1 ∨ e = -(ofNat 1) ∨
    (NumFns.isNaN e = false ∧ ¬ ofNat 1 < e ∧ ¬ e < -(ofNat 1))

theorem clipUnit_form (v : α) :
    clipUnit v = ofNat 1 ∨ clipUnit v = -(ofNat 1) ∨
      (clipUnit v = v ∧ ¬ ofNat 1 < v ∧ ¬ v < -(ofNat 1)) := by
  unfold clipUnit
  split_ifs with h1 h2
  · exact Or.inl rfl
  · exact Or.inr (Or.inl rfl)
  · exact Or.inr (Or.inr ⟨rfl, h1, h2⟩)

theorem nanToZero1_some_form (v : α) : UnitForm (nanToZero1 (some (clipUnit v))) := by
  simp only [nanToZero1]
  split_ifs with hn
  · exact Or.inl rfl
  · have hn' : NumFns.isNaN (clipUnit v) = false := by simpa using hn
    rcases clipUnit_form v with h | h | ⟨h, h1, h2⟩
    · exact Or.inr (Or.inl h)
    · exact Or.inr (Or.inr (Or.inl h))
    · rw [h] at hn' ⊢
      exact Or.inr (Or.inr (Or.inr ⟨hn', h1, h2⟩))

theorem nanToZero1_pearsonPair_form (xs ys : List α) : UnitForm (nanToZero1 (pearsonPair xs ys)) := by
  simp only [pearsonPair]
  split_ifs
  · exact nanToZero1_some_form _
  · exact Or.inl rfl

theorem nanToZero1_pearsonEntry_form (cols : List (List α)) (i j : ℕ) :
    UnitForm (nanToZero1 (pearsonEntry cols i j)) := by
  simp only [pearsonEntry]
  split_ifs <;> exact nanToZero1_pearsonPair_form _ _

/-- every entry of `nan_to_num(corr(scores))` has the unit form — on any carrier. -/
theorem preRidge_entry_form (d : α) (cols : List (List α)) {i j : ℕ} (hi : i < cols.length)
    (hj : j < cols.length) : UnitForm (entryD d (preRidge cols) i j) := by
  rw [preRidge_eq_table, entryD_table _ _ hi hj]
  exact nanToZero1_pearsonEntry_form cols i j

/-- every entry of the fitted matrix is a unit-form value, plus `δ_ij·ε` when the ridge is applied. -/
theorem corrModel_entry_form (d : α) (cols : List (List α)) (c : α) {i j : ℕ} (hi : i < cols.length)
    (hj : j < cols.length) :
    ∃ e : α, UnitForm e ∧ entryD d (corrModel cols c) i j =
      if Gen.GaussCorr.condThreshold < c then
        e + (if i = j then ofNat 1 else ofNat 0) * Gen.GaussCorr.ridgeConst
      else e := by
  refine ⟨nanToZero1 (pearsonEntry cols i j), nanToZero1_pearsonEntry_form cols i j, ?_⟩
  rw [corrModel_eq_table, entryD_table _ _ hi hj]

/-- the facts about the carrier that make a unit-form value (and its ridge update) `np.isfinite`.
    At binary64 they are IEEE-754 facts: `0`, `±1` are finite; a non-NaN `v` with neither `1 < v` nor
    `v < -1` lies in `[-1, 1]`; adding `0·ε` or `1·ε` (`ε = 2⁻²³`) to a value of `[-1, 1]` cannot
    overflow. -/
structure UnitFinite (α : Type) [Add α] [Sub α] [Mul α] [Div α] [Neg α] [LT α] [LE α]
    [DecidableLT α] [DecidableLE α] [NumFns α] : Prop where
  repl : isFinite (Gen.GaussCorr.nanReplacement : α) = true
  one : isFinite (ofNat 1 : α) = true
  negOne : isFinite (-(ofNat 1) : α) = true
  unit : ∀ v : α, NumFns.isNaN v = false → ¬ ofNat 1 < v → ¬ v < -(ofNat 1) → isFinite v = true
  ridge : ∀ v : α, UnitForm v →
    isFinite (v + ofNat 1 * (Gen.GaussCorr.ridgeConst : α)) = true ∧
    isFinite (v + ofNat 0 * (Gen.GaussCorr.ridgeConst : α)) = true

theorem UnitFinite.of_form (H : UnitFinite α) {e : α} (h : UnitForm e) : isFinite e = true := by
  rcases h with h | h | h | ⟨h0, h1, h2⟩
  · rw [h]; exact H.repl
  · rw [h]; exact H.one
  · rw [h]; exact H.negOne
  · exact H.unit e h0 h1 h2

/-- under `UnitFinite`, every entry of the fitted matrix is finite, in both ridge branches. -/
theorem corrModel_entry_finite (H : UnitFinite α) (d : α) (cols : List (List α)) (c : α) {i j : ℕ}
    (hi : i < cols.length) (hj : j < cols.length) :
    isFinite (entryD d (corrModel cols c) i j) = true := by
  obtain ⟨e, he, h⟩ := corrModel_entry_form d cols c hi hj
  rw [h]
  split_ifs
  · exact (H.ridge e he).1
  · exact (H.ridge e he).2
  · exact H.of_form he

end generic

/-- at `ℝ` nothing is NaN or infinite. -/
theorem isFinite_real (x : ℝ) : isFinite x = true := by
  simp [isFinite]

theorem unitFinite_real : UnitFinite ℝ :=
  ⟨isFinite_real _, isFinite_real _, isFinite_real _, fun v _ _ _ => isFinite_real v,
    fun _ _ => ⟨isFinite_real _, isFinite_real _⟩⟩

end CopVerif.Pearson
