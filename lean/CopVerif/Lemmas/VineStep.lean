import CopVerif.Lemmas.VineLevel
/-!
  Establishing and propagating the level invariant: the first tree (`LevelInv.first`), one more
  tree whose edges are children of two different node-sharing edges (`LevelInv.next`), and what a
  successful `childEdge` (`Edge.get_child_edge`) returns.
-/
set_option linter.unusedSimpArgs false
namespace CopVerif.Model.Vine

/-! ### the `Except` monad -/

theorem bind_eq_ok {ε β γ : Type} {x : Except ε β} {f : β → Except ε γ} {c : γ} :
    (x >>= f) = .ok c ↔ ∃ b, x = .ok b ∧ f b = .ok c := by
  cases x with
  | error e => simp [bind, Except.bind]
  | ok b => simp [bind, Except.bind]

theorem mapM_ok {β γ : Type} {f : β → Except Fail γ} : ∀ {l : List β} {r : List γ},
    l.mapM f = .ok r → List.Forall₂ (fun a b => f a = .ok b) l r
  | [], r, h => by
    simp [pure, Except.pure] at h; subst h; exact .nil
  | a :: l, r, h => by
    rw [List.mapM_cons, bind_eq_ok] at h
    obtain ⟨b, hb, h⟩ := h
    rw [bind_eq_ok] at h
    obtain ⟨bs, hbs, h⟩ := h
    simp [pure, Except.pure] at h; subst h
    exact .cons hb (mapM_ok hbs)

theorem getE_ok {t : Tree} {i : Nat} {e : Edge} (h : getE t i = .ok e) :
    i < t.length ∧ e = t.getD i default := by
  unfold getE at h
  split at h
  · rename_i e' he
    simp at h; subst h
    obtain ⟨hi, rfl⟩ := List.getElem?_eq_some_iff.mp he
    exact ⟨hi, (getD_eq_getElem' _ hi).symm⟩
  · simp at h

/-- what a successful `Edge.get_child_edge` (after `sort_edge`) returns. -/
theorem childEdge_ok {prev : Tree} {i j : Nat} {e : Edge} (h : childEdge prev i j = .ok e) :
    i < prev.length ∧ j < prev.length ∧ ∃ a b, ((a = i ∧ b = j) ∨ (a = j ∧ b = i)) ∧
      (a, b) = sortPair (prev.getD i default) (prev.getD j default) i j ∧
      e.parents = some (a, b) ∧
      identify (prev.getD a default) (prev.getD b default) = .ok (e.L, e.R, e.D) := by
  unfold childEdge at h
  rw [bind_eq_ok] at h
  obtain ⟨p, hp, h⟩ := h
  rw [bind_eq_ok] at h
  obtain ⟨q, hq, h⟩ := h
  obtain ⟨hi, rfl⟩ := getE_ok hp
  obtain ⟨hj, rfl⟩ := getE_ok hq
  refine ⟨hi, hj, ?_⟩
  by_cases hk : keyLt (prev.getD j default) (prev.getD i default) = true
  · simp only [sortPair, hk, ite_true] at h
    rw [bind_eq_ok] at h
    obtain ⟨⟨l, r, D⟩, hid, h⟩ := h
    simp [pure, Except.pure] at h; subst h
    exact ⟨j, i, Or.inr ⟨rfl, rfl⟩, by unfold sortPair; rw [if_pos hk], rfl, hid⟩
  · have hk' : keyLt (prev.getD j default) (prev.getD i default) = false := by simpa using hk
    simp only [sortPair, hk', Bool.false_eq_true, ite_false] at h
    rw [bind_eq_ok] at h
    obtain ⟨⟨l, r, D⟩, hid, h⟩ := h
    simp [pure, Except.pure] at h; subst h
    exact ⟨i, j, Or.inl ⟨rfl, rfl⟩, by unfold sortPair; rw [if_neg hk], rfl, hid⟩

theorem ShareNode.symm {first : Bool} {p q : Edge} (h : ShareNode first p q) :
    ShareNode first q p := by
  obtain ⟨v, h1, h2⟩ := h; exact ⟨v, h2, h1⟩

/-! ### first tree -/

theorem LevelInv.first {d : Nat} {t : Tree} (hd : t.length + 1 = d)
    (he : ∀ e ∈ t, FirstEdgeSpec d e) (hs : SpanningTree d (t.map (Edge.ends true))) :
    LevelInv 0 none t where
  first_iff := rfl
  span := by rw [hd]; exact hs
  nodeCard := by intro v _; rfl
  varsEq := by
    intro e hmem x
    have := he e hmem
    simp [Edge.mem_vars, this.cond, nodeVars, Edge.ends]
  card := by
    intro e hmem
    have h := he e hmem
    have hnd : (e.L :: e.R :: e.D).Nodup := by
      rw [h.cond]; simp; exact Nat.ne_of_lt h.lt
    unfold Edge.vars
    rw [length_norm_of_nodup hnd, h.cond]; rfl
  nodeCount := by
    intro S hS
    simp only [Nat.sub_zero]
    apply List.Subperm.length_le
    apply List.subperm_of_subset ((List.nodup_range).filter _)
    intro v hv
    simp only [List.mem_filter, subsetB_iff, nodeVars] at hv
    exact hv.2 v (by simp)

/-! ### next tree -/

/-- what the builders guarantee for every edge of the next tree over `t`. -/
def ChildOK (first : Bool) (t : Tree) (e : Edge) : Prop :=
  ∃ i j, i < t.length ∧ j < t.length ∧ i ≠ j ∧ e.parents = some (i, j) ∧
    ShareNode first (t.getD i default) (t.getD j default) ∧
    identify (t.getD i default) (t.getD j default) = .ok (e.L, e.R, e.D)

theorem LevelInv.kthEdge {k : Nat} {prev : Option Tree} {t : Tree} (h : LevelInv k prev t)
    {e : Edge} (hc : ChildOK prev.isNone t e) :
    ∃ i j, KthEdgeAt (k + 1) t e i j ∧ e.ends false = (i, j) ∧ e.vars.length = k + 3 ∧
      ∀ x, x ∈ e.vars ↔ x ∈ (t.getD i default).vars ∨ x ∈ (t.getD j default).vars := by
  obtain ⟨i, j, hi, hj, hij, hpar, hsh, hid⟩ := hc
  obtain ⟨hsd, hlt, hD⟩ := identify_ok hid
  obtain ⟨l, r, _, _, _, hcard⟩ := h.identify_of_share hi hj hij hsh
  have hmemLR : ∀ x, x = e.L ∨ x = e.R ↔
      (x ∈ (t.getD i default).vars ∧ x ∉ (t.getD j default).vars) ∨
      (x ∈ (t.getD j default).vars ∧ x ∉ (t.getD i default).vars) := by
    intro x; rw [← mem_symDiff, hsd]; simp
  have hmemD : ∀ x, x ∈ e.D ↔ x ∈ (t.getD i default).vars ∧ x ∈ (t.getD j default).vars := by
    intro x; rw [hD, mem_inter]
  have hsorted : SortedS e.D := by rw [hD]; exact sorted_inter _ (Edge.sorted_vars _)
  refine ⟨i, j, ?_, by simp [Edge.ends, hpar], ?_, ?_⟩
  · refine { hi := hi, hj := hj, parents := hpar, ne := hij, proximity := ?_, lt := hlt,
             conditioned := hmemLR, sortedD := hsorted, conditioning := hmemD,
             card := by rw [hD]; exact hcard }
    have : ((k + 1 == 1) : Bool) = prev.isNone := by rw [h.first_iff]; simp
    rw [this]; exact hsh
  · have hLD : e.L ∉ e.D := by
      intro hm
      have h1 := (hmemLR e.L).mp (Or.inl rfl)
      have h2 := (hmemD e.L).mp hm
      tauto
    have hRD : e.R ∉ e.D := by
      intro hm
      have h1 := (hmemLR e.R).mp (Or.inr rfl)
      have h2 := (hmemD e.R).mp hm
      tauto
    have hnd : (e.L :: e.R :: e.D).Nodup := by
      simp only [List.nodup_cons, List.mem_cons, not_or]
      exact ⟨⟨Nat.ne_of_lt hlt, hLD⟩, hRD, nodup_of_sorted hsorted⟩
    unfold Edge.vars
    rw [length_norm_of_nodup hnd]
    simp; rw [hD, hcard]
  · intro x
    rw [Edge.mem_vars]
    have h1 := hmemLR x
    have h2 := hmemD x
    by_cases hxi : x ∈ (t.getD i default).vars <;> by_cases hxj : x ∈ (t.getD j default).vars <;>
      simp only [hxi, hxj, true_and, and_true, not_true_eq_false, not_false_eq_true, and_false,
        false_and, or_false, false_or, or_true, true_or, iff_true, iff_false] at h1 h2 ⊢
    · exact Or.inr (Or.inr h2)
    · rcases h1 with h1 | h1
      · exact Or.inl h1
      · exact Or.inr (Or.inl h1)
    · rcases h1 with h1 | h1
      · exact Or.inl h1
      · exact Or.inr (Or.inl h1)
    · rintro (h | h | h)
      · exact h1 (Or.inl h)
      · exact h1 (Or.inr h)
      · exact h2 h

/-- **One more tree.**  If every edge of `t'` is the child of two different edges of `t` that
    share a node, and `t'` (as a graph on the edges of `t`) grows as a spanning tree, then `t'`
    satisfies the C16 edge specification and the level invariant again. -/
theorem LevelInv.next {k : Nat} {prev : Option Tree} {t t' : Tree} (h : LevelInv k prev t)
    (hlen : t'.length + 1 = t.length) (hch : ∀ e ∈ t', ChildOK prev.isNone t e)
    (hs : SpanningTree t.length (t'.map (Edge.ends false))) :
    (∀ e ∈ t', KthEdgeSpec (k + 1) t e) ∧ LevelInv (k + 1) (some t) t' := by
  refine ⟨fun e he => ?_, ?_⟩
  · obtain ⟨i, j, hk, _⟩ := h.kthEdge (hch e he)
    exact ⟨i, j, hk⟩
  · refine { first_iff := by simp, span := by rw [hlen]; exact hs, nodeCard := ?_, varsEq := ?_,
             card := ?_, nodeCount := ?_ }
    · intro v hv
      exact h.card _ (getD_mem (by omega))
    · intro e he x
      obtain ⟨i, j, _, hends, _, hv⟩ := h.kthEdge (hch e he)
      simp only [Option.isNone_some, hends, nodeVars]
      exact hv x
    · intro e he
      obtain ⟨i, j, _, _, hc, _⟩ := h.kthEdge (hch e he)
      exact hc
    · intro S hS
      have := h.count S hS
      rw [hlen]
      simp only [nodeVars]
      rw [length_filter_range_getD t default (fun e => subsetB e.vars S)]
      exact this

end CopVerif.Model.Vine
