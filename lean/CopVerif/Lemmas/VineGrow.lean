import CopVerif.Lemmas.VineSpec
/-!
  Graph facts about trees given by a growth order (`Grows`): bounds and distinctness of end
  points, connectedness (`Reach`), "every later edge touches an earlier one", and the forest
  bound used by the counting argument for regular vines.
-/
set_option linter.unusedSimpArgs false
namespace CopVerif.Model.Vine

/-- both ends of every edge are `< n`, provided the visited nodes are. -/
theorem Grows.ends_lt {n : Nat} {vis : List Nat} {pairs : List (Nat × Nat)} (h : Grows n vis pairs)
    (hv : ∀ v ∈ vis, v < n) : ∀ p ∈ pairs, p.1 < n ∧ p.2 < n := by
  induction h with
  | nil vis => simp
  | fwd ha hb hn _ ih =>
    intro p hp
    rcases List.mem_cons.mp hp with rfl | hp
    · exact ⟨hv _ ha, hn⟩
    · exact ih (by intro v hv'; rcases List.mem_cons.mp hv' with rfl | h; exact hn; exact hv v h) p hp
  | bwd hb ha hn _ ih =>
    intro p hp
    rcases List.mem_cons.mp hp with rfl | hp
    · exact ⟨hn, hv _ hb⟩
    · exact ih (by intro v hv'; rcases List.mem_cons.mp hv' with rfl | h; exact hn; exact hv v h) p hp

/-- the two ends of an edge are different. -/
theorem Grows.ends_ne {n : Nat} {vis : List Nat} {pairs : List (Nat × Nat)} (h : Grows n vis pairs) :
    ∀ p ∈ pairs, p.1 ≠ p.2 := by
  induction h with
  | nil vis => simp
  | fwd ha hb hn _ ih =>
    intro p hp
    rcases List.mem_cons.mp hp with rfl | hp
    · intro h; simp only at h; subst h; exact hb ha
    · exact ih p hp
  | bwd hb ha hn _ ih =>
    intro p hp
    rcases List.mem_cons.mp hp with rfl | hp
    · intro h; simp only at h; subst h; exact ha hb
    · exact ih p hp

/-- reachability in the undirected graph with edge list `pairs`. -/
inductive Reach (pairs : List (Nat × Nat)) (root : Nat) : Nat → Prop
  | refl : Reach pairs root root
  | step {a b : Nat} : Reach pairs root a → ((a, b) ∈ pairs ∨ (b, a) ∈ pairs) → Reach pairs root b

theorem Grows.reach {n : Nat} {all : List (Nat × Nat)} {root : Nat} {vis : List Nat}
    {pairs : List (Nat × Nat)} (h : Grows n vis pairs) (hsub : ∀ p ∈ pairs, p ∈ all)
    (hv : ∀ v ∈ vis, Reach all root v) : ∀ p ∈ pairs, Reach all root p.1 ∧ Reach all root p.2 := by
  induction h with
  | nil vis => simp
  | @fwd vis a b rest ha hb hn _ ih =>
    have hab : Reach all root b := .step (hv a ha) (Or.inl (hsub _ (List.mem_cons_self ..)))
    intro p hp
    rcases List.mem_cons.mp hp with rfl | hp
    · exact ⟨hv _ ha, hab⟩
    · refine ih (fun q hq => hsub q (List.mem_cons_of_mem _ hq)) ?_ p hp
      intro v hv'; rcases List.mem_cons.mp hv' with rfl | h
      · exact hab
      · exact hv v h
  | @bwd vis a b rest hb ha hn _ ih =>
    have hab : Reach all root a := .step (hv b hb) (Or.inr (hsub _ (List.mem_cons_self ..)))
    intro p hp
    rcases List.mem_cons.mp hp with rfl | hp
    · exact ⟨hab, hv _ hb⟩
    · refine ih (fun q hq => hsub q (List.mem_cons_of_mem _ hq)) ?_ p hp
      intro v hv'; rcases List.mem_cons.mp hv' with rfl | h
      · exact hab
      · exact hv v h

/-- the nodes visited at the end: `vis` plus one new node per edge, all different. -/
theorem Grows.final {n : Nat} {vis : List Nat} {pairs : List (Nat × Nat)} (h : Grows n vis pairs)
    (hnd : vis.Nodup) : ∃ fin : List Nat, fin.Nodup ∧ fin.length = vis.length + pairs.length ∧
      (∀ v ∈ vis, v ∈ fin) ∧ (∀ v ∈ fin, v ∈ vis ∨ ∃ p ∈ pairs, v = p.1 ∨ v = p.2) := by
  induction h with
  | nil vis => exact ⟨vis, hnd, by simp, fun v hv => hv, fun v hv => Or.inl hv⟩
  | @fwd vis a b rest ha hb hn _ ih =>
    obtain ⟨fin, h1, h2, h3, h4⟩ := ih (List.nodup_cons.mpr ⟨hb, hnd⟩)
    refine ⟨fin, h1, by simp at h2 ⊢; omega, fun v hv => h3 v (List.mem_cons_of_mem _ hv), ?_⟩
    intro v hv
    rcases h4 v hv with h | ⟨p, hp, h⟩
    · rcases List.mem_cons.mp h with rfl | h
      · exact Or.inr ⟨(a, v), List.mem_cons_self .., Or.inr rfl⟩
      · exact Or.inl h
    · exact Or.inr ⟨p, List.mem_cons_of_mem _ hp, h⟩
  | @bwd vis a b rest hb ha hn _ ih =>
    obtain ⟨fin, h1, h2, h3, h4⟩ := ih (List.nodup_cons.mpr ⟨ha, hnd⟩)
    refine ⟨fin, h1, by simp at h2 ⊢; omega, fun v hv => h3 v (List.mem_cons_of_mem _ hv), ?_⟩
    intro v hv
    rcases h4 v hv with h | ⟨p, hp, h⟩
    · rcases List.mem_cons.mp h with rfl | h
      · exact Or.inr ⟨(v, b), List.mem_cons_self .., Or.inl rfl⟩
      · exact Or.inl h
    · exact Or.inr ⟨p, List.mem_cons_of_mem _ hp, h⟩

/-- **A spanning tree by growth order is spanning and connected**: every node `< n` is the root
    or an end of an edge, and is reachable from the root along the edges. -/
theorem SpanningTree.connected {n : Nat} {pairs : List (Nat × Nat)} (h : SpanningTree n pairs) :
    ∃ root, root < n ∧ ∀ v, v < n → Reach pairs root v := by
  obtain ⟨hlen, root, hroot, hg⟩ := h
  refine ⟨root, hroot, fun v hv => ?_⟩
  obtain ⟨fin, hnd, hl, _, hfin⟩ := hg.final (List.nodup_singleton root)
  have hlt : ∀ w ∈ fin, w < n := by
    intro w hw
    rcases hfin w hw with h | ⟨p, hp, h⟩
    · simp at h; omega
    · have := hg.ends_lt (by simp; omega) p hp
      rcases h with rfl | rfl <;> omega
  -- `fin` is a duplicate-free list of `n` numbers `< n`: it contains every number `< n`
  have hmem : v ∈ fin := by
    have hsub : fin ⊆ List.range n := fun w hw => List.mem_range.mpr (hlt w hw)
    have hperm : fin.Perm (List.range n) := by
      refine (List.subperm_of_subset hnd hsub).perm_of_length_le ?_
      simp at hl ⊢; omega
    exact hperm.mem_iff.mpr (List.mem_range.mpr hv)
  have hr := hg.reach (all := pairs) (root := root) (fun p hp => hp) (by simp; exact .refl)
  rcases hfin v hmem with h | ⟨p, hp, h⟩
  · simp at h; subst h; exact .refl
  · rcases h with rfl | rfl
    · exact (hr p hp).1
    · exact (hr p hp).2

/-- every edge has an end among the initially visited nodes or shares an end with an EARLIER
    edge of the list. -/
theorem Grows.touches_earlier {n : Nat} {vis : List Nat} {pairs : List (Nat × Nat)}
    (h : Grows n vis pairs) : ∀ j (hj : j < pairs.length),
      (pairs[j].1 ∈ vis ∨ pairs[j].2 ∈ vis) ∨
      ∃ i, ∃ (hi : i < j), let p := pairs[i]'(by omega); let q := pairs[j]
        (p.1 = q.1 ∨ p.1 = q.2 ∨ p.2 = q.1 ∨ p.2 = q.2) := by
  induction h with
  | nil vis => intro j hj; simp at hj
  | @fwd vis a b rest ha hb hn _ ih =>
    intro j hj
    cases j with
    | zero => exact Or.inl (Or.inl ha)
    | succ j =>
      have hj' : j < rest.length := by simpa using hj
      rcases ih j hj' with (h | h) | ⟨i, hi, h⟩
      · rcases List.mem_cons.mp h with h | h
        · exact Or.inr ⟨0, by omega, by simp [← h]⟩
        · exact Or.inl (Or.inl h)
      · rcases List.mem_cons.mp h with h | h
        · exact Or.inr ⟨0, by omega, by simp [← h]⟩
        · exact Or.inl (Or.inr h)
      · exact Or.inr ⟨i + 1, by omega, by simpa using h⟩
  | @bwd vis a b rest hb ha hn _ ih =>
    intro j hj
    cases j with
    | zero => exact Or.inl (Or.inr hb)
    | succ j =>
      have hj' : j < rest.length := by simpa using hj
      rcases ih j hj' with (h | h) | ⟨i, hi, h⟩
      · rcases List.mem_cons.mp h with h | h
        · exact Or.inr ⟨0, by omega, by simp [← h]⟩
        · exact Or.inl (Or.inl h)
      · rcases List.mem_cons.mp h with h | h
        · exact Or.inr ⟨0, by omega, by simp [← h]⟩
        · exact Or.inl (Or.inr h)
      · exact Or.inr ⟨i + 1, by omega, by simpa using h⟩

/-- in a tree grown from ONE root, every edge but the first shares an end with an earlier edge. -/
theorem Grows.shares_earlier {n root : Nat} {pairs : List (Nat × Nat)}
    (h : Grows n [root] pairs) (j : Nat) (hj : j < pairs.length) (hj0 : 0 < j) :
    ∃ i, ∃ (hi : i < j), let p := pairs[i]'(by omega); let q := pairs[j]
      (p.1 = q.1 ∨ p.1 = q.2 ∨ p.2 = q.1 ∨ p.2 = q.2) := by
  rcases h.touches_earlier j hj with h' | h'
  · -- an end of edge `j` is the root, which is an end of edge `0`
    have h0 := h.touches_earlier 0 (by omega)
    have h0' : pairs[0].1 = root ∨ pairs[0].2 = root := by
      rcases h0 with h0 | ⟨i, hi, _⟩
      · simpa using h0
      · omega
    refine ⟨0, hj0, ?_⟩
    simp only [List.mem_singleton] at h'
    rcases h' with h' | h' <;> rcases h0' with h0' | h0' <;> simp [h', h0']
  · exact h'

/-! ## the forest bound -/

/-- number of edges with both ends in `P`. -/
def insideCount (P : Nat → Bool) (pairs : List (Nat × Nat)) : Nat :=
  (pairs.filter fun p => P p.1 && P p.2).length

theorem length_filter_le_range {n : Nat} {P : Nat → Bool} {vis : List Nat} (hnd : vis.Nodup)
    (hv : ∀ v ∈ vis, v < n) : (vis.filter P).length ≤ ((List.range n).filter P).length := by
  apply List.Subperm.length_le
  apply List.subperm_of_subset (hnd.filter _)
  intro v hv'
  simp only [List.mem_filter, List.mem_range] at hv' ⊢
  exact ⟨hv v hv'.1, hv'.2⟩

theorem Grows.forest_aux {n : Nat} {P : Nat → Bool} {vis : List Nat} {pairs : List (Nat × Nat)}
    (h : Grows n vis pairs) (hnd : vis.Nodup) (hv : ∀ v ∈ vis, v < n) :
    insideCount P pairs + (vis.filter P).length +
      (if (vis.filter P).length = 0 ∧ 0 < insideCount P pairs then 1 else 0)
      ≤ ((List.range n).filter P).length := by
  induction h with
  | nil vis =>
    have := length_filter_le_range (P := P) hnd hv
    simp [insideCount]; exact this
  | @fwd vis a b rest ha hb hn _ ih =>
    have ih' := ih (List.nodup_cons.mpr ⟨hb, hnd⟩)
      (by intro v hv'; rcases List.mem_cons.mp hv' with rfl | h; exact hn; exact hv v h)
    by_cases hPb : P b = true
    · by_cases hPa : P a = true
      · have hpos : 0 < (vis.filter P).length :=
          List.length_pos_of_mem (List.mem_filter.mpr ⟨ha, hPa⟩)
        simp only [insideCount, List.filter_cons, hPa, hPb, Bool.and_self, ite_true,
          List.length_cons] at ih' ⊢
        split_ifs at ih' ⊢ <;> omega
      · simp only [insideCount, List.filter_cons, hPa, hPb, Bool.false_and, Bool.false_eq_true,
          ite_false, ite_true, List.length_cons] at ih' ⊢
        split_ifs at ih' ⊢ <;> omega
    · simp only [insideCount, List.filter_cons, hPb, Bool.and_false, Bool.false_eq_true,
        ite_false] at ih' ⊢
      exact ih'
  | @bwd vis a b rest hb ha hn _ ih =>
    have ih' := ih (List.nodup_cons.mpr ⟨ha, hnd⟩)
      (by intro v hv'; rcases List.mem_cons.mp hv' with rfl | h; exact hn; exact hv v h)
    by_cases hPa : P a = true
    · by_cases hPb : P b = true
      · have hpos : 0 < (vis.filter P).length :=
          List.length_pos_of_mem (List.mem_filter.mpr ⟨hb, hPb⟩)
        simp only [insideCount, List.filter_cons, hPa, hPb, Bool.and_self, ite_true,
          List.length_cons] at ih' ⊢
        split_ifs at ih' ⊢ <;> omega
      · simp only [insideCount, List.filter_cons, hPa, hPb, Bool.and_false, Bool.false_eq_true,
          ite_false, ite_true, List.length_cons] at ih' ⊢
        split_ifs at ih' ⊢ <;> omega
    · simp only [insideCount, List.filter_cons, hPa, Bool.false_and, Bool.false_eq_true,
        ite_false] at ih' ⊢
      exact ih'

/-- **Forest bound**: in a tree grown from one root on the nodes `< n`, a node set `P` contains
    at most `|P| - 1` edges (both ends in `P`). -/
theorem Grows.forest {n root : Nat} {P : Nat → Bool} {pairs : List (Nat × Nat)}
    (h : Grows n [root] pairs) (hroot : root < n) :
    insideCount P pairs ≤ ((List.range n).filter P).length - 1 := by
  have := h.forest_aux (P := P) (List.nodup_singleton root) (by simp; exact hroot)
  by_cases hP : P root = true
  · simp [List.filter_cons, hP] at this; omega
  · simp [List.filter_cons, hP] at this
    split_ifs at this <;> omega

end CopVerif.Model.Vine
