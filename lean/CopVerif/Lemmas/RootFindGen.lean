import Mathlib.Tactic.Ring
import Mathlib.Tactic.FieldSimp
import Mathlib.Tactic.NormNum
import CopVerif.Real.Inst
import CopVerif.Real.RootFind
/-!
  `rf_bridge [defs…]` — the tactic for the bridge theorems of `CopVerif/Props/C18b.lean`
  (`Gen.RootFind.<def> … = Model.<def> …` over ℝ, property C18).  Same idea as `bridge` in
  `CopVerif/Real/BridgeTac.lean`: unfold both sides (`simp only`: a generated term that is the
  model's term up to `let`s closes by reflexivity), otherwise normalise with `simp` — structure
  equalities split into their fields, `NumFns` literals become real numerals, `decide`/`Bool`
  conditions become propositions — and let `ring_nf` / `field_simp` absorb harmless rewrites of the
  Python formula (reordered commutative operands, `2` for `2.0`, a named sub-expression).  The
  numpy primitives `signNP`, `clipNP`, `minNP`, `maxNP` are NOT unfolded: they occur on both sides.
  A change of meaning (another comparison operator, constant, mask, `np.choose` alternative,
  `logical_and` for `logical_or`) leaves an unsolved goal: the bridge fails, a broken obligation.

  This file does not mention `CopVerif.Gen.RootFind`, so it is not rebuilt when the source changes.
-/
open Lean.Parser.Tactic in
macro "rf_bridge" "[" ls:simpLemma,* "]" : tactic =>
  `(tactic| first
    | (simp only [$ls,*]; done)
    | (simp [$ls,*]; done)
    | (simp [$ls,*] <;> ring_nf <;> done)
    | (simp [$ls,*] <;> ring_nf <;> simp <;> done)
    | (simp [$ls,*] <;> field_simp <;> done)
    | (simp [$ls,*] <;> field_simp <;> ring_nf <;> done)
    | (simp [$ls,*] <;> norm_num <;> done)
    | (simp [$ls,*, and_comm, and_left_comm, or_comm, or_left_comm, Bool.and_comm, Bool.and_left_comm,
        Bool.or_comm, Bool.or_left_comm]; done)
    | (simp [$ls,*, and_comm, and_left_comm, or_comm, or_left_comm, Bool.and_comm, Bool.and_left_comm,
        Bool.or_comm, Bool.or_left_comm] <;> ring_nf <;> done))
