import CopVerif.Lemmas.VinePrim
/-!
  `VineCopula.train_vine`: the whole tree sequence, by induction over the `for k in range(1, …)`
  loop, for the three vine types.
-/
set_option linter.unusedSimpArgs false
set_option linter.unusedSectionVars false
set_option linter.unusedVariables false
namespace CopVerif.Model.Vine

/-- the type clause for one tree. -/
def TypeInv (vt : VType) (first : Bool) (t : Tree) : Prop :=
  match vt with
  | .center => IsStar (t.map (Edge.ends first))
  | .direct => IsPath (t.map (Edge.ends first)) ∧ DShape first t
  | .regular => True

section
variable {α : Type} [Preorder α] [DecidableLT α] [Neg α] [NumFns α]

/-- what the theorems assume about the tau matrix a tree receives (all of it holds for Kendall
    matrices of non-constant columns): center — the keys of column 0 off the diagonal exceed the
    NaN marker; direct, first tree — additionally the matrix is `n × n` with entries above `-10`;
    regular — nothing. -/
def ChoiceOK (vt : VType) (n : Nat) (isFirst : Bool) (c : Choice α) : Prop :=
  match vt with
  | .center => ColOK n c.tau
  | .direct => isFirst = true → (Square n c.tau ∧ ColOK n c.tau ∧ AllAbove n c.tau)
  | .regular => True

def ChoicesOK (vt : VType) (d : Nat) : Nat → List (Choice α) → Prop
  | _, [] => True
  | k, c :: cs => ChoiceOK vt (d - k) (k == 0) c ∧ ChoicesOK vt d (k + 1) cs

theorem buildFirst_spec {vt : VType} {d : Nat} {c : Choice α} {t : Tree} {ts : List α}
    (hd : 2 ≤ d) (hc : ChoiceOK vt d true c) (h : buildFirst vt d c = .ok (t, ts)) :
    t.length + 1 = d ∧ (∀ e ∈ t, FirstEdgeSpec d e) ∧ SpanningTree d (t.map (Edge.ends true)) ∧
      TypeInv vt true t := by
  cases vt with
  | center =>
    obtain ⟨_, h2, h3, h4, h5, _⟩ := centerFirst_spec hd hc h
    refine ⟨h2, h3, h4, 0, ?_⟩
    intro p hp
    obtain ⟨e, he, rfl⟩ := List.mem_map.mp hp
    exact Or.inl (by simpa [Edge.ends] using h5 e he)
  | direct =>
    simp only [buildFirst] at h
    split at h
    · rename_i l r hp
      obtain ⟨hsq, hcol, hab⟩ := hc rfl
      obtain ⟨h2, h3, h4, h5, h6, _⟩ := directFirst_spec hd hsq hcol hab h
      exact ⟨h2, h3, h4, h5, h6⟩
    · simp at h
  | regular =>
    obtain ⟨h2, h3, h4, _⟩ := primFirst_spec (by omega) h
    exact ⟨h2, h3, h4, trivial⟩

theorem buildKth_spec {vt : VType} {k n : Nat} {pp : Option Tree} {prev : Tree} {c : Choice α}
    {t : Tree} {ts : List α} (hn : 2 ≤ n) (hinv : LevelInv k pp prev) (hlen : prev.length = n)
    (hty : TypeInv vt pp.isNone prev) (hc : ChoiceOK vt n false c)
    (h : buildKth vt (k + 2) n prev c = .ok (t, ts)) :
    t.length + 1 = n ∧ (∀ e ∈ t, ChildOK pp.isNone prev e) ∧
      SpanningTree n (t.map (Edge.ends false)) ∧ TypeInv vt false t := by
  cases vt with
  | center =>
    obtain ⟨h1, h2, h3, h4, _⟩ := centerKth_spec hn hlen hinv hty hc h
    refine ⟨h1, h2, h3, 0, ?_⟩
    intro p hp
    obtain ⟨e, he, rfl⟩ := List.mem_map.mp hp
    exact h4 e he
  | direct =>
    obtain ⟨⟨v, hv⟩, _⟩ := hty
    obtain ⟨h1, h2, h3, h4, h5⟩ := directKth_spec hn hlen (consecShare_of_walks hv) h
    exact ⟨h1, h2, h3, ⟨0, h4⟩, h5⟩
  | regular =>
    obtain ⟨h1, h2, h3, _⟩ := primKth_spec (by omega) hinv hlen h
    exact ⟨h1, h2, h3, trivial⟩

theorem trainRest_spec {vt : VType} {d : Nat} : ∀ (fuel j : Nat) (pp : Option Tree) (prev : Tree)
    (cs : List (Choice α)) (r : List (Tree × List α)),
    LevelInv j pp prev → prev.length = d - (j + 1) → TypeInv vt pp.isNone prev →
    j + 1 + fuel ≤ d - 1 → ChoicesOK vt d (j + 1) cs →
    trainRest vt d fuel (j + 1) prev cs = .ok r →
    r.length = fuel ∧ TreesSpec d (j + 1) (some prev) (r.map (·.1)) ∧
      ∀ t ∈ r.map (·.1), TypeInv vt false t
  | 0, j, pp, prev, cs, r, _, _, _, _, _, h => by
    simp only [trainRest, Except.ok.injEq] at h; subst h
    exact ⟨rfl, trivial, by simp⟩
  | fuel + 1, j, pp, prev, cs, r, hinv, hlen, hty, hle, hcs, h => by
    cases cs with
    | nil => simp [trainRest] at h
    | cons c cs =>
      simp only [trainRest] at h
      rw [bind_eq_ok] at h
      obtain ⟨⟨t, ts⟩, hb, h⟩ := h
      rw [bind_eq_ok] at h
      obtain ⟨rest, hrest, h⟩ := h
      simp only [pure, Except.pure, Except.ok.injEq] at h
      subst h
      have hn : 2 ≤ d - (j + 1) := by omega
      have hb' : buildKth vt (j + 2) (d - (j + 1)) prev c = .ok (t, ts) := hb
      obtain ⟨h1, h2, h3, h4⟩ := buildKth_spec hn hinv hlen hty (by
        have := hcs.1
        simpa using this) hb'
      obtain ⟨hk, hinv'⟩ := hinv.next (by omega) h2 (by rw [hlen]; exact h3)
      obtain ⟨r1, r2, r3⟩ := trainRest_spec fuel (j + 1) (some prev) t cs rest hinv'
        (by omega) (by simpa using h4) (by omega) hcs.2 hrest
      refine ⟨by simp [r1], ⟨⟨hk, h3⟩, r2⟩, ?_⟩
      intro t' ht'
      simp only [List.map_cons, List.mem_cons] at ht'
      rcases ht' with rfl | ht'
      · exact h4
      · exact r3 t' ht'

/-- **The whole vine.**  For every vine type, every `d ≥ 2`, truncation `t` and every accepted
    run of `train_vine`: the number of trees is `max 1 (min (d-1) t)`, every tree satisfies the
    C16 tree specification (spanning tree by growth order, well-formed edges, proximity, conditioned
    and conditioning sets) and the type clause (star / path in every tree). -/
theorem trainVine_spec {vt : VType} {d t : Nat} {cs : List (Choice α)}
    {r : List (Tree × List α)} (hd : 2 ≤ d) (hcs : ChoicesOK vt d 0 cs)
    (h : trainVine vt d t cs = .ok r) :
    r.length = max 1 (min (d - 1) t) ∧ TreesSpec d 0 none (r.map (·.1)) ∧
      ∃ t0 rest, r.map (·.1) = t0 :: rest ∧ TypeInv vt true t0 ∧ ∀ t' ∈ rest, TypeInv vt false t' := by
  cases cs with
  | nil => simp [trainVine] at h
  | cons c cs =>
    simp only [trainVine] at h
    rw [bind_eq_ok] at h
    obtain ⟨⟨t0, ts⟩, hb, h⟩ := h
    rw [bind_eq_ok] at h
    obtain ⟨rest, hrest, h⟩ := h
    simp only [pure, Except.pure, Except.ok.injEq] at h
    subst h
    obtain ⟨h1, h2, h3, h4⟩ := buildFirst_spec hd (by simpa using hcs.1) hb
    have hinv := LevelInv.first h1 h2 h3
    obtain ⟨r1, r2, r3⟩ := trainRest_spec (min (d - 1) t - 1) 0 none t0 cs rest hinv (by omega)
      h4 (by omega) hcs.2 hrest
    refine ⟨by simp [r1]; omega, ⟨⟨h2, h3⟩, r2⟩, t0, rest.map (·.1), rfl, h4, r3⟩

/-! ### no Python-level failure in a regular vine -/

theorem candsFirst_nonempty {n : Nat} {vis : List Nat} (h0 : 0 ∈ vis) (hnd : vis.Nodup)
    (hv : ∀ v ∈ vis, v < n) (hl : vis.length ≠ n) : (candsFirst n vis).isEmpty = false := by
  have hex : ∃ j, j < n ∧ j ∉ vis := by
    by_contra hcon
    simp only [not_exists, not_and, not_not] at hcon
    have hsub : List.range n ⊆ vis := fun j hj => hcon j (List.mem_range.mp hj)
    have h1 := (List.subperm_of_subset List.nodup_range hsub).length_le
    have h2 := (List.subperm_of_subset hnd
      (fun v hv' => List.mem_range.mpr (hv v hv'))).length_le
    simp at h1 h2; omega
  obtain ⟨j, hj, hjv⟩ := hex
  have hmem : (0, j) ∈ candsFirst n vis :=
    mem_candsFirst.mpr ⟨h0, hj, hjv, fun h => hjv (h ▸ h0)⟩
  cases hc : candsFirst n vis with
  | nil => rw [hc] at hmem; simp at hmem
  | cons a l => rfl

theorem primFirstGo_no_failure {n : Nat} {tau : Mat α} :
    ∀ (choices : List (Nat × Nat)) (vis : List Nat), 0 ∈ vis → vis.Nodup → (∀ v ∈ vis, v < n) →
    ∀ e, primFirstGo n tau vis choices = .error e → ∃ w, e = .rejected w
  | [], vis, h0, hnd, hv, e, h => by
    simp only [primFirstGo] at h
    split_ifs at h
    simp only [Except.error.injEq] at h; exact ⟨_, h.symm⟩
  | q :: qs, vis, h0, hnd, hv, e, h => by
    simp only [primFirstGo] at h
    split_ifs at h with h1 h2 h3
    · simp only [Except.error.injEq] at h; exact ⟨_, h.symm⟩
    · have := candsFirst_nonempty h0 hnd hv (by simpa using h1)
      rw [this] at h2; exact absurd h2 (by simp)
    · simp only [Except.error.injEq] at h; exact ⟨_, h.symm⟩
    · simp only [Bool.not_eq_true', Bool.not_eq_false] at h3
      simp only [primStepOk, Bool.and_eq_true, List.contains_iff_mem] at h3
      obtain ⟨x, kk⟩ := q
      have hc := mem_candsFirst.mp h3.1
      cases hrec : primFirstGo n tau (vis ++ [kk]) qs with
      | ok r => simp [hrec, bind, Except.bind, pure, Except.pure] at h
      | error e' =>
        simp only [hrec, bind, Except.bind, Except.error.injEq] at h
        subst h
        exact primFirstGo_no_failure qs (vis ++ [kk]) (by simp [h0])
          (List.nodup_append.mpr ⟨hnd, by simp, by
            intro a ha b hb; simp at hb; subst hb; rintro rfl; exact hc.2.2.1 ha⟩)
          (by
            intro v hv'
            rcases List.mem_append.mp hv' with h | h
            · exact hv v h
            · simp at h; subst h; exact hc.2.1) e' hrec

/-- a `Fail` that is not a Python-level failure: the data or choices supplied to the model were
    not what the code could have produced. -/
def Fail.isRefusal : Fail → Prop
  | .rejected _ => True
  | .badInput _ => True
  | _ => False

theorem trainRest_regular_no_failure {d : Nat} : ∀ (fuel j : Nat) (pp : Option Tree) (prev : Tree)
    (cs : List (Choice α)) (e : Fail),
    LevelInv j pp prev → prev.length = d - (j + 1) → j + 1 + fuel ≤ d - 1 →
    trainRest .regular d fuel (j + 1) prev cs = .error e → e.isRefusal
  | 0, j, pp, prev, cs, e, _, _, _, h => by simp [trainRest] at h
  | fuel + 1, j, pp, prev, cs, e, hinv, hlen, hle, h => by
    cases cs with
    | nil => simp only [trainRest, Except.error.injEq] at h; subst h; trivial
    | cons c cs =>
      simp only [trainRest] at h
      cases hb : buildKth VType.regular (j + 1 + 1) (d - (j + 1)) prev c with
      | error e' =>
        simp only [hb, bind, Except.bind, Except.error.injEq] at h
        subst h
        obtain ⟨w, rfl⟩ := primKthGo_no_failure hinv hlen (unflatten c.picks) [0] (by simp)
          (by simp) (by simp; omega) e' hb
        trivial
      | ok b =>
        obtain ⟨t, ts⟩ := b
        have hn : 2 ≤ d - (j + 1) := by omega
        obtain ⟨h1, h2, h3, h4⟩ := buildKth_spec (vt := .regular) hn hinv hlen trivial trivial hb
        obtain ⟨hk, hinv'⟩ := hinv.next (by omega) h2 (by rw [hlen]; exact h3)
        cases hr : trainRest VType.regular d fuel (j + 1 + 1) t cs with
        | ok rest => simp [hb, hr, bind, Except.bind, pure, Except.pure] at h
        | error e' =>
          simp only [hb, hr, bind, Except.bind, Except.error.injEq] at h
          subst h
          exact trainRest_regular_no_failure fuel (j + 1) (some prev) t cs e' hinv' (by omega)
            (by omega) hr

/-- **A regular vine never fails at the Python level**: for `d ≥ 2` the model of
    `train_vine("regular")` never reaches the non-terminating `adj_set == ∅` branch, never raises
    `ValueError` from `_identify_eds_ing` and never an `IndexError`, whatever the tau matrices and
    whatever choices are tried. -/
theorem trainVine_regular_no_failure {d t : Nat} {cs : List (Choice α)} {e : Fail} (hd : 2 ≤ d)
    (h : trainVine .regular d t cs = .error e) : e.isRefusal := by
  cases cs with
  | nil => simp only [trainVine, Except.error.injEq] at h; subst h; trivial
  | cons c cs =>
    simp only [trainVine] at h
    cases hb : buildFirst VType.regular d c with
    | error e' =>
      simp only [hb, bind, Except.bind, Except.error.injEq] at h
      subst h
      obtain ⟨w, rfl⟩ := primFirstGo_no_failure (unflatten c.picks) [0] (by simp) (by simp)
        (by simp; omega) e' hb
      trivial
    | ok b =>
      obtain ⟨t0, ts⟩ := b
      obtain ⟨h1, h2, h3, h4⟩ := buildFirst_spec (vt := .regular) hd trivial hb
      have hinv := LevelInv.first h1 h2 h3
      cases hr : trainRest VType.regular d (min (d - 1) t - 1) 1 t0 cs with
      | ok rest => simp [hb, hr, bind, Except.bind, pure, Except.pure] at h
      | error e' =>
        simp only [hb, hr, bind, Except.bind, Except.error.injEq] at h
        subst h
        exact trainRest_regular_no_failure _ 0 none t0 cs e' hinv (by omega) (by omega) hr

end
end CopVerif.Model.Vine
