import CopVerif.Model.Rng
/-!
# Helper lemmas for C15 (core Lean only): one-step facts about the RNG protocol model
-/
namespace CopVerif.Model.Rng

section
variable {α : Type}

@[simp] theorem upd_same (f : Nat → α) (k : Nat) (v : α) : upd f k v k = v := by simp [upd]

theorem upd_other (f : Nat → α) {k i : Nat} (v : α) (h : i ≠ k) : upd f k v i = f i := by
  simp [upd, h]

end

section
variable {G Draw Out : Type} (A : GenAlg G Draw Out)

@[simp] theorem advDraws_nil (g : G) : advDraws A g [] = g := rfl

@[simp] theorem advDraws_cons (g : G) (d : Draw) (ds : List Draw) :
    advDraws A g (d :: ds) = advDraws A (A.advance g d) ds := rfl

theorem advDraws_append (g : G) (ds es : List Draw) :
    advDraws A g (ds ++ es) = advDraws A (advDraws A g ds) es := by
  simp [advDraws, List.foldl_append]

theorem outDraws_append (g : G) (ds es : List Draw) :
    outDraws A g (ds ++ es) = outDraws A g ds ++ outDraws A (advDraws A g ds) es := by
  induction ds generalizing g with
  | nil => simp [outDraws]
  | cons d ds ih => simp [outDraws, ih]

theorem outDraws_length (g : G) (ds : List Draw) : (outDraws A g ds).length = ds.length := by
  induction ds generalizing g with
  | nil => simp [outDraws]
  | cons d ds ih => simp [outDraws, ih]

/-! ### the context manager -/

/-- what `withModelState` does, spelled out. -/
theorem withModelState_eq {R : Type} (st : G) (setter : G → World G → World G)
    (body : World G → World G × R) (w : World G) :
    withModelState st setter body w =
      (⟨w.global,
        (setter (body ⟨st, w.heap, w.next, w.rs⟩).1.global (body ⟨st, w.heap, w.next, w.rs⟩).1).heap,
        (setter (body ⟨st, w.heap, w.next, w.rs⟩).1.global (body ⟨st, w.heap, w.next, w.rs⟩).1).next,
        (setter (body ⟨st, w.heap, w.next, w.rs⟩).1.global (body ⟨st, w.heap, w.next, w.rs⟩).1).rs⟩,
       (body ⟨st, w.heap, w.next, w.rs⟩).2) := rfl

/-- the global generator is restored whatever the body and the setter do. -/
theorem withModelState_global {R : Type} (st : G) (setter : G → World G → World G)
    (body : World G → World G × R) (w : World G) :
    (withModelState st setter body w).1.global = w.global := rfl

/-! ### sampling, one call -/

variable (cfg : Config)

theorem undecoratedSample_eq (m : Nat) (c : Call Draw) (w : World G) :
    undecoratedSample A cfg m c w = drawGlobal A c w := by
  unfold undecoratedSample
  cases cfg.kind m <;> rfl

/-- a decorated sampler on a seeded model: the global state is untouched, the model gets a fresh
    object holding the advanced state, the result is computed from the model's own stream. -/
theorem sample_seeded {m : Nat} {r : Nat} (c : Call Draw) {w : World G}
    (hd : cfg.decorated m = true) (hr : w.rs m = some r) :
    sample A cfg m c w =
      (⟨w.global, upd w.heap w.next (advDraws A (w.heap r) c.draws), w.next + 1,
        upd w.rs m (some w.next)⟩, result A (w.heap r) c) := by
  have hu : undecoratedSample A cfg m c = drawGlobal A c := funext (undecoratedSample_eq A cfg m c)
  simp [sample, hd, decorate, decorateWith, World.view, hr, hu, withModelState, drawGlobal,
    storeFresh]

/-- otherwise (no decorator, or `random_state is None`) the call is the body on the global stream. -/
theorem sample_unseeded {m : Nat} (c : Call Draw) {w : World G}
    (h : seeded cfg w m = false) : sample A cfg m c w = drawGlobal A c w := by
  have hu : undecoratedSample A cfg m c = drawGlobal A c := funext (undecoratedSample_eq A cfg m c)
  unfold sample
  cases hd : cfg.decorated m with
  | false => simp [hu]
  | true =>
    have : w.rs m = none := by
      cases hrs : w.rs m with
      | none => rfl
      | some r => simp [seeded, hd, hrs] at h
    simp [hu, decorate, decorateWith, World.view, this]

theorem seeded_iff {m : Nat} {w : World G} :
    seeded cfg w m = true ↔ cfg.decorated m = true ∧ ∃ r, w.rs m = some r := by
  unfold seeded
  cases cfg.decorated m <;> cases w.rs m <;> simp

/-! ### datasets leave the whole world alone -/

theorem datasetSimple_eq (seed : Nat) (ds : List Draw) (w : World G) :
    datasetSimple A seed ds w = (w, .ok (outDraws A (A.fromSeed seed) ds)) := by
  cases w
  simp [datasetSimple, datasetScope, withModelState, dummySetter, drawGlobal, result]

theorem datasetBimodal_eq (seed : Nat) (dsB dsM : List Draw) (w : World G) :
    datasetBimodal A seed dsB dsM w =
      (w, .ok (outDraws A (A.fromSeed seed) dsB ++ outDraws A (A.fromSeed seed) dsM)) := by
  cases w
  simp [datasetBimodal, datasetScope, withModelState, dummySetter, datasetSimple_eq, drawGlobal,
    result, Result.append]

/-! ### one step of a history -/

theorem stepW_sample (m : Nat) (c : Call Draw) (w : World G) :
    stepW A cfg w (.sample m c) = (sample A cfg m c w).1 := rfl

/-- well-formedness is an invariant. -/
theorem WF_step {w : World G} (hw : WF w) (op : Op Draw) : WF (stepW A cfg w op) := by
  intro m' r' h'
  cases op with
  | sample m c =>
    rw [stepW_sample] at h' ⊢
    cases hs : seeded cfg w m with
    | false =>
      rw [sample_unseeded A cfg c hs] at h' ⊢
      exact hw m' r' h'
    | true =>
      obtain ⟨hd, r, hr⟩ := (seeded_iff cfg).1 hs
      rw [sample_seeded A cfg c hd hr] at h' ⊢
      simp only at h' ⊢
      by_cases hm : m' = m
      · subst hm; simp at h'; omega
      · rw [upd_other _ _ hm] at h'; have := hw m' r' h'; omega
  | setState m s =>
    cases s with
    | none =>
      simp only [stepW, step, setRandomState] at h' ⊢
      by_cases hm : m' = m
      · subst hm; simp at h'
      · rw [upd_other _ _ hm] at h'; exact hw m' r' h'
    | int n =>
      simp only [stepW, step, setRandomState, storeFresh] at h' ⊢
      by_cases hm : m' = m
      · subst hm; simp at h'; omega
      · rw [upd_other _ _ hm] at h'; have := hw m' r' h'; omega
    | obj r =>
      simp only [stepW, step, setRandomState] at h' ⊢
      by_cases hr : r < w.next
      · simp only [hr, if_true] at h' ⊢
        by_cases hm : m' = m
        · subst hm; simp at h'; omega
        · rw [upd_other _ _ hm] at h'; exact hw m' r' h'
      · simp only [hr, if_false] at h' ⊢; exact hw m' r' h'
  | callerNew n =>
    simp only [stepW, step] at h' ⊢
    have := hw m' r' h'; omega
  | callerDraw r d =>
    simp only [stepW, step] at h' ⊢
    by_cases hr : r < w.next
    · simp only [hr, if_true] at h' ⊢; exact hw m' r' h'
    · simp only [hr, if_false] at h' ⊢; exact hw m' r' h'
  | seedGlobal n => simp only [stepW, step] at h' ⊢; exact hw m' r' h'
  | dataset seed ds =>
    simp only [stepW, step, datasetSimple_eq] at h' ⊢; exact hw m' r' h'
  | datasetBimodal seed dsB dsM =>
    simp only [stepW, step, datasetBimodal_eq] at h' ⊢; exact hw m' r' h'

theorem WF_runW {w : World G} (hw : WF w) (h : List (Op Draw)) : WF (runW A cfg w h) := by
  induction h generalizing w with
  | nil => exact hw
  | cons op h ih => exact ih (WF_step A cfg hw op)

/-! ### the view of one model -/

theorem view_frame {w w' : World G} {m : Nat} (hrs : w'.rs m = w.rs m)
    (hheap : ∀ r, w.rs m = some r → w'.heap r = w.heap r) : w'.view m = w.view m := by
  unfold World.view
  rw [hrs]
  cases h : w.rs m with
  | none => rfl
  | some r => simp [hheap r h]

theorem isoRun_append (v : Option G) (xs ys : List (MOp G Draw)) :
    isoRun A v (xs ++ ys) = isoRun A (isoRun A v xs) ys := by
  simp [isoRun, List.foldl_append]

theorem isoOutputs_append (v : Option G) (xs ys : List (MOp G Draw)) :
    isoOutputs (Out := Out) A v (xs ++ ys) = isoOutputs A v xs ++ isoOutputs A (isoRun A v xs) ys := by
  induction xs generalizing v with
  | nil => simp [isoOutputs, isoRun]
  | cons x xs ih =>
    cases x <;> simp [isoOutputs, isoRun, ih]

/-- **one step, seen from model `m`** (decorated sampler): the model's generator state after the
    step and what the step returned to a caller of `m.sample` are those of the isolated machine
    fed with the part of the op that concerns `m`. -/
theorem step_own {w : World G} (hw : WF w) {m : Nat} (hd : cfg.decorated m = true)
    (op : Op Draw) :
    (stepW A cfg w op).view m = isoRun A (w.view m) (ownOp A w m op) ∧
    maskedOp A cfg m w op = isoOutputs A (w.view m) (ownOp A w m op) := by
  cases op with
  | sample m' c =>
    by_cases hm : m' = m
    · subst hm
      cases hrs : w.rs m' with
      | none =>
        have hs : seeded cfg w m' = false := by simp [seeded, hrs]
        simp [stepW_sample, sample_unseeded A cfg c hs, maskedOp, ownOp, hrs, World.view, isoRun,
          isoStep, isoOutputs, drawGlobal]
      | some r =>
        simp [stepW_sample, sample_seeded A cfg c hd hrs, maskedOp, ownOp, hrs, World.view, isoRun,
          isoStep, isoOutputs]
    · have hown : ownOp A w m (Op.sample m' c) = [] := by simp [ownOp, hm]
      have hmask : maskedOp A cfg m w (Op.sample m' c) = [] := by simp [maskedOp, hm]
      rw [hown, hmask]
      refine ⟨?_, by simp [isoOutputs]⟩
      simp only [isoRun, List.foldl_nil]
      rw [stepW_sample]
      cases hs : seeded cfg w m' with
      | false => rw [sample_unseeded A cfg c hs]; rfl
      | true =>
        obtain ⟨hd', r', hr'⟩ := (seeded_iff cfg).1 hs
        rw [sample_seeded A cfg c hd' hr']
        apply view_frame
        · exact upd_other _ _ (Ne.symm hm)
        · intro r hr
          have := hw m r hr
          exact upd_other _ _ (by omega)
  | setState m' s =>
    by_cases hm : m' = m
    · subst hm
      cases s with
      | none => simp [stepW, step, setRandomState, ownOp, maskedOp, World.view, isoRun, isoStep, isoOutputs]
      | int n =>
        simp [stepW, step, setRandomState, storeFresh, ownOp, maskedOp, World.view, isoRun, isoStep,
          isoOutputs]
      | obj r =>
        by_cases hr : r < w.next
        · simp [stepW, step, setRandomState, ownOp, maskedOp, World.view, isoRun, isoStep,
            isoOutputs, hr]
        · simp [stepW, step, setRandomState, ownOp, maskedOp, isoRun, isoOutputs, hr]
    · have hown : ownOp A w m (Op.setState m' s) = [] := by cases s <;> simp [ownOp, hm]
      rw [hown]
      refine ⟨?_, by simp [maskedOp, isoOutputs]⟩
      simp only [isoRun, List.foldl_nil]
      cases s with
      | none =>
        apply view_frame
        · exact upd_other _ _ (Ne.symm hm)
        · intro r _; rfl
      | int n =>
        apply view_frame
        · exact upd_other _ _ (Ne.symm hm)
        · intro r hr
          have := hw m r hr
          exact upd_other _ _ (by omega)
      | obj r =>
        by_cases hr : r < w.next
        · simp only [stepW, step, setRandomState, hr, if_true]
          apply view_frame
          · exact upd_other _ _ (Ne.symm hm)
          · intro r _; rfl
        · simp only [stepW, step, setRandomState, hr, if_false]
  | callerNew n =>
    refine ⟨?_, by simp [maskedOp, ownOp, isoOutputs]⟩
    simp only [ownOp, isoRun, List.foldl_nil]
    apply view_frame
    · rfl
    · intro r hr
      have := hw m r hr
      exact upd_other _ _ (by omega)
  | callerDraw r d =>
    by_cases hr : r < w.next
    · cases hrs : w.rs m with
      | none => simp [stepW, step, hr, ownOp, maskedOp, World.view, hrs, isoRun, isoOutputs]
      | some r' =>
        by_cases hrr : r' = r
        · subst hrr
          simp [stepW, step, hr, ownOp, maskedOp, World.view, hrs, isoRun, isoStep, isoOutputs]
        · have hne : ¬ r = r' := fun h => hrr h.symm
          simp [stepW, step, hr, ownOp, maskedOp, World.view, hrs, isoRun, isoOutputs, hrr,
            upd_other]
    · simp [stepW, step, hr, ownOp, maskedOp, isoRun, isoOutputs]
  | seedGlobal n => simp [stepW, step, ownOp, maskedOp, World.view, isoRun, isoOutputs]
  | dataset seed ds => simp [stepW, step, datasetSimple_eq, ownOp, maskedOp, isoRun, isoOutputs]
  | datasetBimodal seed dsB dsM =>
    simp [stepW, step, datasetBimodal_eq, ownOp, maskedOp, isoRun, isoOutputs]

/-- **history level**: final state and (masked) outputs of `m` are those of the isolated machine
    on `m`'s own operations. -/
theorem run_own {w : World G} (hw : WF w) {m : Nat} (hd : cfg.decorated m = true)
    (h : List (Op Draw)) :
    (runW A cfg w h).view m = isoRun A (w.view m) (ownOps A cfg m w h) ∧
    maskedOutputs A cfg m w h = isoOutputs A (w.view m) (ownOps A cfg m w h) := by
  induction h generalizing w with
  | nil => simp [runW, ownOps, maskedOutputs, isoRun, isoOutputs]
  | cons op h ih =>
    obtain ⟨h1, h2⟩ := step_own A cfg hw hd op
    obtain ⟨i1, i2⟩ := ih (WF_step A cfg hw op)
    simp only [runW, ownOps, maskedOutputs]
    rw [isoRun_append, isoOutputs_append, i1, i2, h1, h2]
    exact ⟨rfl, rfl⟩

/-- without caller draws and `RandomState` seeds for `m`, the part of a history that concerns
    `m` can be read off the history alone. -/
theorem ownOps_eq_proj {m : Nat} (w : World G) (h : List (Op Draw))
    (hp : plainFor m h = true) : ownOps A cfg m w h = proj A m h := by
  induction h generalizing w with
  | nil => simp [ownOps, proj]
  | cons op h ih =>
    simp only [plainFor, List.all_cons, Bool.and_eq_true] at hp
    have ih' := ih (stepW A cfg w op) (by simpa [plainFor] using hp.2)
    simp only [ownOps, proj, List.flatMap_cons] at ih' ⊢
    rw [ih']
    congr 1
    cases op with
    | setState m' s =>
      cases s with
      | obj r =>
        have : m' ≠ m := by
          intro e; subst e; simp [plainOp] at hp
        simp [ownOp, projOp, this]
      | _ => rfl
    | callerDraw r d => simp [plainOp] at hp
    | _ => rfl

/-! ### `RandomState` objects are never mutated by the library -/

def noCallerDraw : Op Draw → Bool
  | .callerDraw _ _ => false
  | _ => true

theorem step_next_le (w : World G) (op : Op Draw) : w.next ≤ (stepW A cfg w op).next := by
  cases op with
  | sample m c =>
    rw [stepW_sample]
    cases hs : seeded cfg w m with
    | false => rw [sample_unseeded A cfg c hs]; exact Nat.le_refl _
    | true =>
      obtain ⟨hd, r, hr⟩ := (seeded_iff cfg).1 hs
      rw [sample_seeded A cfg c hd hr]; exact Nat.le_succ _
  | setState m s =>
    cases s with
    | obj r => by_cases hr : r < w.next <;> simp [stepW, step, setRandomState, hr]
    | _ => simp [stepW, step, setRandomState, storeFresh]
  | callerNew n => simp [stepW, step]
  | callerDraw r d => by_cases hr : r < w.next <;> simp [stepW, step, hr]
  | seedGlobal n => simp [stepW, step]
  | dataset seed ds => simp [stepW, step, datasetSimple_eq]
  | datasetBimodal seed dsB dsM => simp [stepW, step, datasetBimodal_eq]

theorem step_heap_frame (w : World G) (op : Op Draw) (hop : noCallerDraw op = true) {r : Nat}
    (hr : r < w.next) : (stepW A cfg w op).heap r = w.heap r := by
  have hne : r ≠ w.next := by omega
  cases op with
  | sample m c =>
    rw [stepW_sample]
    cases hs : seeded cfg w m with
    | false => rw [sample_unseeded A cfg c hs]; rfl
    | true =>
      obtain ⟨hd, r', hr'⟩ := (seeded_iff cfg).1 hs
      rw [sample_seeded A cfg c hd hr']; exact upd_other _ _ hne
  | setState m s =>
    cases s with
    | obj r' => by_cases hr' : r' < w.next <;> simp [stepW, step, setRandomState, hr']
    | none => simp [stepW, step, setRandomState]
    | int n => simp [stepW, step, setRandomState, storeFresh, upd_other _ _ hne]
  | callerNew n => simp [stepW, step, upd_other _ _ hne]
  | callerDraw r d => simp [noCallerDraw] at hop
  | seedGlobal n => simp [stepW, step]
  | dataset seed ds => simp [stepW, step, datasetSimple_eq]
  | datasetBimodal seed dsB dsM => simp [stepW, step, datasetBimodal_eq]

theorem run_heap_frame (w : World G) (h : List (Op Draw)) (hh : h.all noCallerDraw = true)
    {r : Nat} (hr : r < w.next) : (runW A cfg w h).heap r = w.heap r := by
  induction h generalizing w with
  | nil => rfl
  | cons op h ih =>
    simp only [List.all_cons, Bool.and_eq_true] at hh
    simp only [runW]
    rw [ih _ hh.2 (Nat.lt_of_lt_of_le hr (step_next_le A cfg w op)),
      step_heap_frame A cfg w op hh.1 hr]

/-! ### the global stream -/

theorem step_global (w : World G) (op : Op Draw) :
    (stepW A cfg w op).global = applyG A w.global (globalOp cfg w op) := by
  cases op with
  | sample m c =>
    rw [stepW_sample]
    cases hs : seeded cfg w m with
    | false => simp [sample_unseeded A cfg c hs, globalOp, hs, applyG, drawGlobal]
    | true =>
      obtain ⟨hd, r, hr⟩ := (seeded_iff cfg).1 hs
      simp [sample_seeded A cfg c hd hr, globalOp, hs, applyG]
  | setState m s =>
    cases s with
    | obj r => by_cases hr : r < w.next <;> simp [stepW, step, setRandomState, globalOp, applyG, hr]
    | _ => simp [stepW, step, setRandomState, storeFresh, globalOp, applyG]
  | callerNew n => simp [stepW, step, globalOp, applyG]
  | callerDraw r d => by_cases hr : r < w.next <;> simp [stepW, step, globalOp, applyG, hr]
  | seedGlobal n => simp [stepW, step, globalOp, applyG]
  | dataset seed ds => simp [stepW, step, datasetSimple_eq, globalOp, applyG]
  | datasetBimodal seed dsB dsM => simp [stepW, step, datasetBimodal_eq, globalOp, applyG]

theorem applyG_append (g : G) (xs ys : List (GEvent Draw)) :
    applyG A g (xs ++ ys) = applyG A (applyG A g xs) ys := by
  induction xs generalizing g with
  | nil => rfl
  | cons x xs ih => cases x <;> simp [applyG, ih]

theorem run_global (w : World G) (h : List (Op Draw)) :
    (runW A cfg w h).global = applyG A w.global (globalOps A cfg w h) := by
  induction h generalizing w with
  | nil => rfl
  | cons op h ih =>
    simp only [runW, globalOps]
    rw [ih, step_global, applyG_append]

theorem globalOps_of_quiet (w : World G) (h : List (Op Draw)) (hq : quiet A cfg w h = true) :
    globalOps A cfg w h = [] := by
  induction h generalizing w with
  | nil => rfl
  | cons op h ih =>
    simp only [quiet, Bool.and_eq_true, List.isEmpty_iff] at hq
    simp [globalOps, hq.1, ih _ hq.2]

end

/-! ### homomorphisms of generator algebras: the run of a history is natural in the algebra -/

section
variable {G G' Draw Out Out' : Type}

/-- `φ`/`ψ` commute with the three operations. -/
structure Hom (A : GenAlg G Draw Out) (A' : GenAlg G' Draw Out') (φ : G → G') (ψ : Out → Out') :
    Prop where
  advance : ∀ g d, φ (A.advance g d) = A'.advance (φ g) d
  out : ∀ g d, ψ (A.out g d) = A'.out (φ g) d
  fromSeed : ∀ n, φ (A.fromSeed n) = A'.fromSeed n

variable {A : GenAlg G Draw Out} {A' : GenAlg G' Draw Out'} {φ : G → G'} {ψ : Out → Out'}

theorem Hom.advDraws (H : Hom A A' φ ψ) (g : G) (ds : List Draw) :
    φ (advDraws A g ds) = advDraws A' (φ g) ds := by
  induction ds generalizing g with
  | nil => rfl
  | cons d ds ih => simp [ih, H.advance]

theorem Hom.outDraws (H : Hom A A' φ ψ) (g : G) (ds : List Draw) :
    (outDraws A g ds).map ψ = outDraws A' (φ g) ds := by
  induction ds generalizing g with
  | nil => rfl
  | cons d ds ih => simp [Rng.outDraws, ih, H.advance, H.out]

theorem Hom.result (H : Hom A A' φ ψ) (g : G) (c : Call Draw) :
    (result A g c).map ψ = result A' (φ g) c := by
  unfold Rng.result
  cases c.raises <;> simp [Result.map, H.outDraws]

theorem map_upd (φ : G → G') (f : Nat → G) (k : Nat) (v : G) :
    (fun r => φ (upd f k v r)) = upd (fun r => φ (f r)) k (φ v) := by
  funext r
  by_cases h : r = k <;> simp [upd, h]

theorem Hom.step (H : Hom A A' φ ψ) (cfg : Config) (w : World G) (op : Op Draw) :
    step A' cfg (w.map φ) op =
      ((step A cfg w op).1.map φ, (step A cfg w op).2.map (Result.map ψ)) := by
  cases op with
  | sample m c =>
    cases hs : seeded cfg w m with
    | false =>
      have hs' : seeded cfg (w.map φ) m = false := hs
      simp only [Rng.step]
      rw [sample_unseeded A cfg c hs, sample_unseeded A' cfg c hs']
      simp [drawGlobal, World.map, H.advDraws, H.result]
    | true =>
      obtain ⟨hd, r, hr⟩ := (seeded_iff cfg).1 hs
      have hr' : (w.map φ).rs m = some r := hr
      simp only [Rng.step]
      rw [sample_seeded A cfg c hd hr, sample_seeded A' cfg c hd hr']
      simp [World.map, H.advDraws, H.result, map_upd]
  | setState m s =>
    cases s with
    | none => simp [Rng.step, setRandomState, World.map]
    | int n => simp [Rng.step, setRandomState, storeFresh, World.map, map_upd, H.fromSeed]
    | obj r => by_cases hr : r < w.next <;> simp [Rng.step, setRandomState, World.map, hr]
  | callerNew n => simp [Rng.step, World.map, map_upd, H.fromSeed]
  | callerDraw r d =>
    by_cases hr : r < w.next <;> simp [Rng.step, World.map, hr, map_upd, H.advance]
  | seedGlobal n => simp [Rng.step, World.map, H.fromSeed]
  | dataset seed ds =>
    simp [Rng.step, datasetSimple_eq, World.map, Result.map, H.outDraws, H.fromSeed]
  | datasetBimodal seed dsB dsM =>
    simp [Rng.step, datasetBimodal_eq, World.map, Result.map, H.outDraws, H.fromSeed]

theorem Hom.runLog (H : Hom A A' φ ψ) (cfg : Config) (w : World G) (h : List (Op Draw)) :
    runLog A' cfg (w.map φ) h =
      (runLog A cfg w h).map fun e => (e.1.map φ, e.2.map (Result.map ψ)) := by
  induction h generalizing w with
  | nil => rfl
  | cons op h ih => simp [Rng.runLog, H.step, ih]

/-- the free algebra maps onto every algebra. -/
theorem interp_hom (A : GenAlg G Draw Out) (g0 : G) :
    Hom (freeAlg Draw) A (interp A g0) (fun o => A.out (interp A g0 o.1) o.2) where
  advance g d := by simp [interp, freeAlg, advDraws_append]
  out g d := rfl
  fromSeed n := rfl

/-- under `Acyclic`, a term and a proper extension of it denote different states. -/
theorem interp_prefix_ne (A : GenAlg G Draw Out) (hA : Acyclic A) (g0 : G) (t : Term Draw)
    (ds : List Draw) (hds : ds ≠ []) : interp A g0 ⟨t.root, t.draws ++ ds⟩ ≠ interp A g0 t := by
  simp only [interp, advDraws_append]
  exact hA _ ds hds

end
/-- `World.init` is well-formed. -/
theorem init_wf {G : Type} (g0 : G) : WF (World.init g0) := by
  intro m r h; simp [World.init] at h

theorem ctr_acyclic : Acyclic ctr := by
  have key : ∀ (ds : List Nat) (g : Nat), g + ds.length ≤ advDraws ctr g ds := by
    intro ds
    induction ds with
    | nil => intro g; simp
    | cons d ds ih =>
      intro g
      have := ih (g + d + 1)
      simp only [advDraws_cons, List.length_cons, ctr] at this ⊢
      omega
  intro g ds hds
  have h1 := key ds g
  have h2 : 0 < ds.length := List.length_pos_iff.mpr hds
  omega

end CopVerif.Model.Rng
