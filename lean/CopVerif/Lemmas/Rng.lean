import CopVerif.Model.Rng
/-!
# Helper lemmas for C15 (core Lean only): one-step facts about the RNG protocol model
-/
namespace CopVerif.Model.Rng

section
variable {α : Type}

@[simp] theorem upd_same (f : Nat → α) (k : Nat) (v : α) : upd f k v k = v := by simp [upd]

theorem upd_other (f : Nat → α) {k i : Nat} (v : α) (h : i ≠ k) : upd f k v i = f i := by
  simp [upd, h]

end

section
variable {G Draw Out : Type} (A : GenAlg G Draw Out)

@[simp] theorem advDraws_nil (g : G) : advDraws A g [] = g := rfl

@[simp] theorem advDraws_cons (g : G) (d : Draw) (ds : List Draw) :
    advDraws A g (d :: ds) = advDraws A (A.advance g d) ds := rfl

theorem advDraws_append (g : G) (ds es : List Draw) :
    advDraws A g (ds ++ es) = advDraws A (advDraws A g ds) es := by
  simp [advDraws, List.foldl_append]

theorem outDraws_append (g : G) (ds es : List Draw) :
    outDraws A g (ds ++ es) = outDraws A g ds ++ outDraws A (advDraws A g ds) es := by
  induction ds generalizing g with
  | nil => simp [outDraws]
  | cons d ds ih => simp [outDraws, ih]

theorem outDraws_length (g : G) (ds : List Draw) : (outDraws A g ds).length = ds.length := by
  induction ds generalizing g with
  | nil => simp [outDraws]
  | cons d ds ih => simp [outDraws, ih]

/-! ### the context manager -/

/-- what `withModelState` does, spelled out. -/
theorem withModelState_eq {R : Type} (st : G) (setter : G → World G → World G)
    (body : World G → World G × R) (w : World G) :
    withModelState st setter body w =
      (⟨w.global,
        (setter (body ⟨st, w.heap, w.next, w.rs⟩).1.global (body ⟨st, w.heap, w.next, w.rs⟩).1).heap,
        (setter (body ⟨st, w.heap, w.next, w.rs⟩).1.global (body ⟨st, w.heap, w.next, w.rs⟩).1).next,
        (setter (body ⟨st, w.heap, w.next, w.rs⟩).1.global (body ⟨st, w.heap, w.next, w.rs⟩).1).rs⟩,
       (body ⟨st, w.heap, w.next, w.rs⟩).2) := rfl

/-- the global generator is restored whatever the body and the setter do. -/
theorem withModelState_global {R : Type} (st : G) (setter : G → World G → World G)
    (body : World G → World G × R) (w : World G) :
    (withModelState st setter body w).1.global = w.global := rfl

/-! ### sampling, one call -/

variable (cfg : Config)

theorem undecoratedSample_eq (m : MId) (c : Call Draw) (w : World G) :
    undecoratedSample A cfg m c w = drawGlobal A c w := by
  unfold undecoratedSample
  cases cfg.kind m <;> rfl

/-- a decorated sampler on a seeded model: the global state is untouched, the model gets a fresh
    object holding the advanced state, the result is computed from the model's own stream. -/
theorem sample_seeded {m : MId} {r : Ref} (c : Call Draw) {w : World G}
    (hd : cfg.decorated m = true) (hr : w.rs m = some r) :
    sample A cfg m c w =
      (⟨w.global, upd w.heap w.next (advDraws A (w.heap r) c.draws), w.next + 1,
        upd w.rs m (some w.next)⟩, result A (w.heap r) c) := by
  have hu : undecoratedSample A cfg m c = drawGlobal A c := funext (undecoratedSample_eq A cfg m c)
  simp [sample, hd, decorate, decorateWith, World.view, hr, hu, withModelState, drawGlobal,
    storeFresh]

/-- otherwise (no decorator, or `random_state is None`) the call is the body on the global stream. -/
theorem sample_unseeded {m : MId} (c : Call Draw) {w : World G}
    (h : seeded cfg w m = false) : sample A cfg m c w = drawGlobal A c w := by
  have hu : undecoratedSample A cfg m c = drawGlobal A c := funext (undecoratedSample_eq A cfg m c)
  unfold sample
  cases hd : cfg.decorated m with
  | false => simp [hu]
  | true =>
    have : w.rs m = none := by
      cases hrs : w.rs m with
      | none => rfl
      | some r => simp [seeded, hd, hrs] at h
    simp [hu, decorate, decorateWith, World.view, this]

theorem seeded_iff {m : MId} {w : World G} :
    seeded cfg w m = true ↔ cfg.decorated m = true ∧ ∃ r, w.rs m = some r := by
  unfold seeded
  cases cfg.decorated m <;> cases w.rs m <;> simp

/-! ### datasets leave the whole world alone -/

theorem datasetSimple_eq (seed : Nat) (ds : List Draw) (w : World G) :
    datasetSimple A seed ds w = (w, .ok (outDraws A (A.fromSeed seed) ds)) := by
  cases w
  simp [datasetSimple, datasetScope, withModelState, dummySetter, drawGlobal, result]

theorem datasetBimodal_eq (seed : Nat) (dsB dsM : List Draw) (w : World G) :
    datasetBimodal A seed dsB dsM w =
      (w, .ok (outDraws A (A.fromSeed seed) dsB ++ outDraws A (A.fromSeed seed) dsM)) := by
  cases w
  simp [datasetBimodal, datasetScope, withModelState, dummySetter, datasetSimple_eq, drawGlobal,
    result, Result.append]

/-! ### one step of a history -/

theorem stepW_sample (m : MId) (c : Call Draw) (w : World G) :
    stepW A cfg w (.sample m c) = (sample A cfg m c w).1 := rfl

/-- well-formedness is an invariant. -/
theorem WF_step {w : World G} (hw : WF w) (op : Op Draw) : WF (stepW A cfg w op) := by
  intro m' r' h'
  cases op with
  | sample m c =>
    rw [stepW_sample] at h' ⊢
    cases hs : seeded cfg w m with
    | false =>
      rw [sample_unseeded A cfg c hs] at h' ⊢
      exact hw m' r' h'
    | true =>
      obtain ⟨hd, r, hr⟩ := (seeded_iff cfg).1 hs
      rw [sample_seeded A cfg c hd hr] at h' ⊢
      simp only at h' ⊢
      by_cases hm : m' = m
      · subst hm; simp at h'; omega
      · rw [upd_other _ _ hm] at h'; have := hw m' r' h'; omega
  | setState m s =>
    cases s with
    | none =>
      simp only [stepW, step, setRandomState] at h' ⊢
      by_cases hm : m' = m
      · subst hm; simp at h'
      · rw [upd_other _ _ hm] at h'; exact hw m' r' h'
    | int n =>
      simp only [stepW, step, setRandomState, storeFresh] at h' ⊢
      by_cases hm : m' = m
      · subst hm; simp at h'; omega
      · rw [upd_other _ _ hm] at h'; have := hw m' r' h'; omega
    | obj r =>
      simp only [stepW, step, setRandomState] at h' ⊢
      by_cases hr : r < w.next
      · simp only [hr, if_true] at h' ⊢
        by_cases hm : m' = m
        · subst hm; simp at h'; omega
        · rw [upd_other _ _ hm] at h'; exact hw m' r' h'
      · simp only [hr, if_false] at h' ⊢; exact hw m' r' h'
  | callerNew n =>
    simp only [stepW, step] at h' ⊢
    have := hw m' r' h'; omega
  | callerDraw r d =>
    simp only [stepW, step] at h' ⊢
    by_cases hr : r < w.next
    · simp only [hr, if_true] at h' ⊢; exact hw m' r' h'
    · simp only [hr, if_false] at h' ⊢; exact hw m' r' h'
  | seedGlobal n => simp only [stepW, step] at h' ⊢; exact hw m' r' h'
  | dataset seed ds =>
    simp only [stepW, step, datasetSimple_eq] at h' ⊢; exact hw m' r' h'
  | datasetBimodal seed dsB dsM =>
    simp only [stepW, step, datasetBimodal_eq] at h' ⊢; exact hw m' r' h'

theorem WF_runW {w : World G} (hw : WF w) (h : List (Op Draw)) : WF (runW A cfg w h) := by
  induction h generalizing w with
  | nil => exact hw
  | cons op h ih => exact ih (WF_step A cfg hw op)

end
end CopVerif.Model.Rng
