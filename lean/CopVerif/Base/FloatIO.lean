/-! Float <-> 16-hex-digit bit pattern, and small parsing helpers for the line-protocol driver. -/
namespace CopVerif.IO

def hexDigit (c : Char) : Option Nat :=
  if '0' ≤ c ∧ c ≤ '9' then some (c.toNat - '0'.toNat)
  else if 'a' ≤ c ∧ c ≤ 'f' then some (c.toNat - 'a'.toNat + 10)
  else if 'A' ≤ c ∧ c ≤ 'F' then some (c.toNat - 'A'.toNat + 10)
  else none

def parseHex (s : String) : Option Nat :=
  s.toList.foldl (fun acc c => match acc, hexDigit c with
    | some a, some d => some (a * 16 + d)
    | _, _ => none) (some 0)

def parseFloat (s : String) : Option Float :=
  if s.length != 16 then none else
  (parseHex s).map fun n => Float.ofBits (UInt64.ofNat n)

def showFloat (x : Float) : String :=
  let ds := Nat.toDigits 16 x.toBits.toNat
  String.ofList (List.replicate (16 - ds.length) '0' ++ ds)

def showFloats (xs : List Float) : String :=
  " ".intercalate (xs.map showFloat)

def parseFloats (ws : List String) : Option (List Float) :=
  ws.mapM parseFloat

/-- pair up a flat list `[a1,b1,a2,b2,…]`. -/
def pairs : List α → List (α × α)
  | a :: b :: rest => (a, b) :: pairs rest
  | _ => []

end CopVerif.IO

namespace CopVerif.IO

/-- serve the line protocol: one request per line on stdin, one reply line on stdout. -/
partial def serve (dispatch : List String → String) : IO Unit := do
  let inp ← IO.getStdin
  let out ← IO.getStdout
  let rec loop : IO Unit := do
    let line ← inp.getLine
    if line.isEmpty then return ()
    let ws := (line.trimAscii.toString.splitOn " ").filter (· ≠ "")
    let reply := match ws with
      | ["ping"] => "pong"
      | _ => dispatch ws
    out.putStrLn reply
    out.flush
    loop
  loop

def parseNat (s : String) : Option Nat := s.toNat?

end CopVerif.IO
