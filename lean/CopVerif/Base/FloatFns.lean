/-!
  `erf`, `erfc` and the standard normal CDF `ndtr` on Lean's `Float` (IEEE binary64), implemented
  with W. J. Cody's rational Chebyshev approximations (netlib SPECFUN `CALERF`, Math. Comp. 23
  (1969) 631-637).  Core Lean only: no Mathlib, no `partial`, no `unsafe`, no `implemented_by`.

  Three ranges in `y = |x|`:
  * `y ≤ 0.46875`      : `erf x = x · A(y²)/B(y²)`
  * `0.46875 < y ≤ 4`  : `erfc y = exp(-y²) · C(y)/D(y)`
  * `4 < y`            : `erfc y = exp(-y²)/y · (1/√π - y⁻² · P(y⁻²)/Q(y⁻²))`

  where `exp(-y²)` is evaluated as `exp(-ysq²) · exp(-(y-ysq)(y+ysq))`, `ysq = trunc(16y)/16`, so
  that `ysq²` is exact and the rounding error of `y²` is not amplified by `exp`.

  Measured against `scipy.special` (cephes) the results agree to a few ulp; see the module report.
-/
namespace CopVerif.FloatFns

/-! ### Coefficient tables (Cody 1969; SPECFUN `CALERF`) -/

/-- numerator, `|x| ≤ 0.46875`; `erfA[4]` is the leading coefficient. -/
def erfA : Array Float := #[
  3.16112374387056560E00, 1.13864154151050156E02, 3.77485237685302021E02,
  3.20937758913846947E03, 1.85777706184603153E-1]

/-- denominator (monic), `|x| ≤ 0.46875`. -/
def erfB : Array Float := #[
  2.36012909523441209E01, 2.44024637934444173E02, 1.28261652607737228E03,
  2.84423683343917062E03]

/-- numerator, `0.46875 < |x| ≤ 4`; `erfC[8]` is the leading coefficient. -/
def erfC : Array Float := #[
  5.64188496988670089E-1, 8.88314979438837594E0, 6.61191906371416295E01,
  2.98635138197400131E02, 8.81952221241769090E02, 1.71204761263407058E03,
  2.05107837782607147E03, 1.23033935479799725E03, 2.15311535474403846E-8]

/-- denominator (monic), `0.46875 < |x| ≤ 4`. -/
def erfD : Array Float := #[
  1.57449261107098347E01, 1.17693950891312499E02, 5.37181101862009858E02,
  1.62138957456669019E03, 3.29079923573345963E03, 4.36261909014324716E03,
  3.43936767414372164E03, 1.23033935480374942E03]

/-- numerator, `|x| > 4`; `erfP[5]` is the leading coefficient. -/
def erfP : Array Float := #[
  3.05326634961232344E-1, 3.60344899949804439E-1, 1.25781726111229246E-1,
  1.60837851487422766E-2, 6.58749161529837803E-4, 1.63153871373020978E-2]

/-- denominator (monic), `|x| > 4`. -/
def erfQ : Array Float := #[
  2.56852019228982242E00, 1.87295284992346725E00, 5.27905102951428412E-1,
  6.05183413124413191E-2, 2.33520497626869185E-3]

/-- `1/√π`. -/
def sqrpi : Float := 5.6418958354775628695E-1
/-- boundary between the `erf` and the `erfc` approximations. -/
def thresh : Float := 0.46875
/-- Cody's `XBIG`: `erfc y` drops below the smallest *normal* binary64 for `y ≥ xbig`.  Kept for
reference only; the cut-off actually used is `maxlog`, which lets the result underflow gradually. -/
def xbig : Float := 26.543
/-- `erfc y` is returned as `0` as soon as `y² > maxlog` (`y > 26.6417…`, true value `< 1.2e-310`).
This is cephes' `MAXLOG = log(DBL_MAX)`, i.e. exactly the point where `scipy.special.erfc`/`ndtr`
flush to zero, so the zero sets of the two implementations coincide. -/
def maxlog : Float := 7.09782712893383996843E2
/-- below this `y²` is dropped in the lowest range. -/
def xsmall : Float := 1.11E-16
/-- `1/√2`, the `M_SQRT1_2` of C, rounded to nearest. -/
def sqrt1_2 : Float := 0.70710678118654752440

/-! ### Evaluation -/

/-- Cody's paired Horner scheme.  With `num = #[n₀,…,n_k, lead]` and `den = #[d₀,…,d_k]` it returns
`((((lead·t + n₀)·t + n₁)·t + … )·t + n_k) / ((((t + d₀)·t + d₁)·t + … )·t + d_k)`,
a quotient of two polynomials of degree `k+1` in `t`, the denominator monic.
`num` must have exactly one more entry than `den` (true of all three table pairs). -/
def ratio (num den : Array Float) (t : Float) : Float :=
  let k := den.size - 1
  let lead := num[k + 1]!
  let (xn, xd) := (List.range k).foldl
    (fun (acc : Float × Float) i => ((acc.1 + num[i]!) * t, (acc.2 + den[i]!) * t))
    (lead * t, t)
  (xn + num[k]!) / (xd + den[k]!)

/-- `exp(-y²)` for finite `y ≥ 0`, split so that the first exponent is exact. -/
def expNegSq (y : Float) : Float :=
  let ysq := Float.floor (y * 16.0) / 16.0
  let del := (y - ysq) * (y + ysq)
  Float.exp (-(ysq * ysq)) * Float.exp (-del)

/-- `erf y` for `0 ≤ y ≤ thresh` (odd in `y`, so also valid for `-thresh ≤ y ≤ 0`). -/
def erfSmall (x : Float) : Float :=
  let y := Float.abs x
  let ysq := if y > xsmall then y * y else 0.0
  x * ratio erfA erfB ysq

/-- `erfc y` for `thresh < y`, `y` not NaN. -/
def erfcLarge (y : Float) : Float :=
  if y ≤ 4.0 then
    expNegSq y * ratio erfC erfD y
  else if y * y > maxlog then
    0.0
  else
    let ysq := 1.0 / (y * y)
    let r := ysq * ratio erfP erfQ ysq
    expNegSq y * ((sqrpi - r) / y)

/-- The error function `erf x = (2/√π) ∫₀ˣ exp(-t²) dt`. -/
def erf (x : Float) : Float :=
  if x.isNaN then x
  else
    let y := Float.abs x
    if y ≤ thresh then erfSmall x
    else
      let r := (0.5 - erfcLarge y) + 0.5
      if x < 0.0 then -r else r

/-- The complementary error function `erfc x = 1 - erf x`;
`erfc (+∞) = 0`, `erfc (-∞) = 2`, `erfc NaN = NaN`. -/
def erfc (x : Float) : Float :=
  if x.isNaN then x
  else
    let y := Float.abs x
    if y ≤ thresh then 1.0 - erfSmall x
    else
      let r := erfcLarge y
      if x < 0.0 then 2.0 - r else r

/-- The standard normal CDF `Φ(x) = ½ · erfc(-x/√2)`;
`ndtr (-∞) = 0`, `ndtr (+∞) = 1`, `ndtr NaN = NaN`. -/
def ndtr (x : Float) : Float :=
  0.5 * erfc (-(x * sqrt1_2))

end CopVerif.FloatFns
