/-
  Numeric signature shared by the executable (Float) and the proof (ℝ) reading of the
  generated and hand-written models.  This file imports nothing outside core Lean.

  A definition that is polymorphic in `α` with the standard arithmetic/ordering instances plus
  `NumFns α` is *one* term; instantiated at `Float` it is what the driver runs against numpy,
  instantiated at `ℝ` (CopVerif/Real/Inst.lean) it is what the theorems are about.
-/
namespace CopVerif

/-- Error kinds, the canonical image of Python exceptions. -/
inductive Err where
  | notFitted | valueError | typeError | assertion | other
  deriving DecidableEq, Repr, Inhabited

def Err.toString : Err → String
  | .notFitted => "NotFittedError"
  | .valueError => "ValueError"
  | .typeError => "TypeError"
  | .assertion => "AssertionError"
  | .other => "Other"

instance : ToString Err := ⟨Err.toString⟩

/-- The transcendental / literal part of the numeric signature. Arithmetic and order come from the
standard classes so that at `ℝ` they are literally Mathlib's instances. -/
class NumFns (α : Type) where
  exp : α → α
  log : α → α
  pow : α → α → α
  sqrt : α → α
  abs : α → α
  ofNat : Nat → α
  /-- `ofSci m e` is the decimal literal `m · 10^(-e)`. -/
  ofSci : Nat → Nat → α
  /-- numeric equality test (`==` on Python/numpy floats). -/
  beq : α → α → Bool
  /-- `x == +inf`; constantly `false` at `ℝ`. -/
  isPosInf : α → Bool
  /-- `np.isnan`; constantly `false` at `ℝ`. -/
  isNaN : α → Bool

export NumFns (exp log pow sqrt ofNat ofSci)

/-- An end point of an interval such as `theta_interval = [0, float('inf')]`. -/
inductive Bound (α : Type) where
  | fin : α → Bound α
  | posInf : Bound α
  | negInf : Bound α
  deriving Repr

section
variable {α : Type} [LT α] [LE α] [DecidableLT α] [DecidableLE α] [NumFns α]

/-- `lower <= x` in Python, with `lower` possibly `±inf` (false for NaN `x`). -/
def Bound.leVal (b : Bound α) (x : α) : Bool :=
  match b with
  | .fin a => decide (a ≤ x)
  | .negInf => !NumFns.isNaN x
  | .posInf => NumFns.isPosInf x

/-- `x <= upper` in Python. -/
def Bound.valLe (x : α) (b : Bound α) : Bool :=
  match b with
  | .fin a => decide (x ≤ a)
  | .posInf => !NumFns.isNaN x
  | .negInf => false  -- only `-inf <= -inf`; never used as an upper end by the code base
end

/-! ### Float instance -/

instance : NumFns Float where
  exp := Float.exp
  log := Float.log
  pow := Float.pow
  sqrt := Float.sqrt
  abs := Float.abs
  ofNat := Float.ofNat
  ofSci m e := OfScientific.ofScientific m true e
  beq a b := a == b
  isPosInf x := x == (1.0 / 0.0)
  isNaN x := x.isNaN

def Float.inf : Float := 1.0 / 0.0

/-! ### list helpers used by generated code -/

def sumList {α : Type} [Add α] [NumFns α] (xs : List α) : α :=
  xs.foldl (· + ·) (NumFns.ofNat 0)

def lenNum {α : Type} [NumFns α] (xs : List β) : α := NumFns.ofNat xs.length

end CopVerif
