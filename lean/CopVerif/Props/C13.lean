import CopVerif.Lemmas.GaussTransformReal
/-!
# C13 — Gaussian-copula density/CDF equal the normal-score MVN, in any representation

Property theorems only.  They are about `CopVerif.Model.GaussTransform` — the GENERATED glue
`CopVerif.Gen.GaussTransform` (`_transform_to_normal`, `probability_density`,
`cumulative_distribution`, `log_probability_density`, read off /repo on every run) instantiated
with the hand-modelled pandas primitives.  `transformToNormal m X` is the PLAN of
`model._transform_to_normal(X)`: a matrix of terms over the external symbols `CDF j`, `CLIP`,
`NORMPPF` (the run-time tie interprets it with the real fitted objects and demands bit-equality
with the real method); `pdfPlan / cdfPlan / logPdfPlan` add `MVNPDF / MVNCDF / LOG`.
Equality of plans is therefore equality of results under EVERY interpretation of the symbols.
-/
set_option linter.unusedSectionVars false
namespace CopVerif.Props.C13
open CopVerif CopVerif.Model.GaussTransform

section plans
variable {L α : Type} [DecidableEq L] [Add α] [Sub α] [Mul α] [Div α] [Neg α] [NumFns α]

/-- **Container invariance.**  For a rectangular DataFrame with distinct column labels:
(1) for EVERY permutation `σ` of its column positions the permuted frame has the same plan;
(2) a Series is its one-row frame, (3) also with its index in any order;
(4) a 2-d array and (5) a 1-d array of the right width are the frame labelled with the TRAINING
columns.  (By `density_container_invariant` the same holds for pdf / cdf / log pdf.) -/
theorem container_invariant (m : GModel L) (ls : List L) (rows : List (List α)) (hnd : ls.Nodup)
    (hrect : ∀ r ∈ rows, r.length = ls.length) :
    (∀ σ : List Nat, σ.Perm (List.range ls.length) →
        transformToNormal m (.frame (reindex σ ls) (rows.map (reindex σ)))
          = transformToNormal m (.frame ls rows))
    ∧ (∀ row : List α, transformToNormal m (.series ls row) = transformToNormal m (.frame ls [row]))
    ∧ (∀ (σ : List Nat) (row : List α), σ.Perm (List.range ls.length) → row.length = ls.length →
        transformToNormal m (.series (reindex σ ls) (reindex σ row))
          = transformToNormal m (.frame ls [row]))
    ∧ (∀ rows' : List (List α), (∀ r ∈ rows', r.length = m.cols.length) →
        transformToNormal m (.arr2 rows') = transformToNormal m (.frame m.cols rows'))
    ∧ (∀ row : List α, row.length = m.cols.length →
        transformToNormal m (.arr1 row) = transformToNormal m (.frame m.cols [row])) := by
  refine ⟨fun σ hσ => transformToNormal_reindex m ls rows σ hnd hσ hrect,
    fun row => transformToNormal_series m ls row, ?_, ?_, ?_⟩
  · intro σ row hσ hlen
    rw [transformToNormal_series]
    exact transformToNormal_reindex m ls [row] σ hnd hσ (by simpa using hlen)
  · intro rows' h
    rw [transformToNormal_arr2, if_pos (by simpa using h)]
  · intro row h
    rw [transformToNormal_arr1, transformToNormal_arr2, if_pos (by simpa using h)]

/-- non-vacuity of `container_invariant`'s hypotheses (two distinct labels, the swap). -/
example : (["a", "b"] : List String).Nodup ∧ ([1, 0] : List Nat).Perm (List.range 2) ∧
    reindex [1, 0] ["a", "b"] = ["b", "a"] := by decide

/-- The general form behind (1): the second frame only has to be, row by row, a permutation of the
first AS A LIST OF LABELLED CELLS (no common permutation is assumed; distinct labels force it). -/
theorem container_invariant_perm (m : GModel L) {ls ls' : List L} {rows rows' : List (List α)}
    (hnd : ls.Nodup) (hls : ls'.Perm ls)
    (hrows : List.Forall₂ (fun r' r => (ls'.zip r').Perm (ls.zip r)) rows' rows) :
    transformToNormal m (.frame ls' rows') = transformToNormal m (.frame ls rows) :=
  transformToNormal_perm m hnd hls hrows

/-- pdf, cdf and log pdf see `X` only through its scores: equal plans of the scores give equal plans
(hence equal values under every interpretation `E` of the external symbols). -/
theorem density_container_invariant (m : GModel L) {x y : Container L α}
    (h : transformToNormal m x = transformToNormal m y) :
    pdfPlan m x = pdfPlan m y ∧ cdfPlan m x = cdfPlan m y ∧ logPdfPlan m x = logPdfPlan m y :=
  densities_congr m h

/-- An array whose width is not the number of training columns is refused (`ValueError`). -/
theorem array_wrong_width_refused (m : GModel L) (rows : List (List α))
    (h : ∃ r ∈ rows, r.length ≠ m.cols.length) :
    transformToNormal m (.arr2 rows) = .error .valueError := by
  rw [transformToNormal_arr2, if_neg]
  simpa using h

/-- **A plain array is read in TRAINING-TABLE column order.**  `fit` stores as `self.columns` exactly the
labels of the training table in table order (`Gen.GaussTransform.fitColumns`, one pass over `X.items()`,
whatever the `distribution` configuration returns per column), with one univariate per column; hence for a
model produced by `fit` a 2-d / 1-d array of the right width has the plan of the DataFrame carrying the
TRAINING TABLE's labels in table order. -/
theorem array_read_in_training_table_order {C D U : Type} (items : List (L × C)) (gd : L → D)
    (fc : C → D → L → U) (m : GModel L)
    (hfit : m.cols = (Gen.GaussTransform.fitColumns items gd fc).1) :
    m.cols = items.map (·.1) ∧
      (Gen.GaussTransform.fitColumns items gd fc).2.length = m.cols.length ∧
      (∀ rows : List (List α), (∀ r ∈ rows, r.length = items.length) →
        transformToNormal m (.arr2 rows) = transformToNormal m (.frame (items.map (·.1)) rows)) ∧
      (∀ row : List α, row.length = items.length →
        transformToNormal m (.arr1 row) = transformToNormal m (.frame (items.map (·.1)) [row])) := by
  have hc : m.cols = items.map (·.1) := hfit.trans (fitColumns_fst gd fc items)
  have hl : m.cols.length = items.length := by rw [hc, List.length_map]
  refine ⟨hc, by rw [fitColumns_snd_length, hl], ?_, ?_⟩
  · intro rows h
    rw [transformToNormal_arr2, if_pos (by simpa [hl] using h), hc]
  · intro row h
    rw [transformToNormal_arr1, transformToNormal_arr2, if_pos (by simpa [hl] using h), hc]

/-- **Row independence of the scores**: the plan of a frame is the row-wise map of `rowPlan`, which
sees one row only; each row evaluated alone gives exactly its row of the batch. -/
theorem row_independent (m : GModel L) (ls : List L) (rows : List (List α)) (S : Block (Term α))
    (h : transformToNormal m (.frame ls rows) = .ok S) :
    S.rows = rows.map (rowPlan m ls) ∧
      ∀ r ∈ rows, transformToNormal m (.frame ls [r]) = .ok ⟨S.width, [rowPlan m ls r]⟩ := by
  rw [transformToNormal_frame] at h
  cases ha : anyPresent m ls with
  | false => simp [ha] at h
  | true =>
    simp only [ha, if_true, Except.ok.injEq] at h
    subst h
    refine ⟨rfl, fun r _ => ?_⟩
    rw [transformToNormal_frame]
    simp [ha]

/-- **Row independence of the density**: every value of the batch is a function of its own row, and
a row evaluated alone gives the same plan. -/
theorem pdf_row_independent (m : GModel L) (ls : List L) (rows : List (List α)) (ys : List (RTerm α))
    (h : pdfPlan m (.frame ls rows) = .ok ys) :
    ys = rows.map (fun r => RTerm.mvnpdf true (shapeRow m.corr.dim (planWidth m ls) (rowPlan m ls r))) ∧
      ∀ r ∈ rows, pdfPlan m (.frame ls [r]) =
        .ok [RTerm.mvnpdf true (shapeRow m.corr.dim (planWidth m ls) (rowPlan m ls r))] := by
  rw [pdfPlan_frame] at h
  split_ifs at h with h1 h2 h3
  simp only [Except.ok.injEq] at h
  refine ⟨h.symm, fun r _ => ?_⟩
  rw [pdfPlan_frame]
  simp [h1, h2, h3]

/-- same for the CDF (a non-empty batch). -/
theorem cdf_row_independent (m : GModel L) (ls : List L) (rows : List (List α)) (ys : List (RTerm α))
    (h : cdfPlan m (.frame ls rows) = .ok ys) :
    ys = rows.map (fun r => RTerm.mvncdf Gen.GaussTransform.cdfAllowSingular (rowPlan m ls r)) ∧
      ∀ r ∈ rows, cdfPlan m (.frame ls [r]) =
        .ok [RTerm.mvncdf Gen.GaussTransform.cdfAllowSingular (rowPlan m ls r)] := by
  rw [cdfPlan_frame] at h
  split_ifs at h with h1 h2 h3 h4
  simp only [Except.ok.injEq] at h
  refine ⟨h.symm, fun r _ => ?_⟩
  rw [cdfPlan_frame]
  simp [h1, h2, h3, h4.1]

/-- **Extra columns are ignored**: deleting every column whose label is not a training column changes
nothing (scores; hence pdf, cdf, log pdf). -/
theorem extra_columns_ignored (m : GModel L) (ls : List L) (rows : List (List α))
    (hrect : ∀ r ∈ rows, r.length = ls.length) :
    transformToNormal m (dropExtra m ls rows) = transformToNormal m (.frame ls rows) ∧
      pdfPlan m (dropExtra m ls rows) = pdfPlan m (.frame ls rows) ∧
      cdfPlan m (dropExtra m ls rows) = cdfPlan m (.frame ls rows) ∧
      logPdfPlan m (dropExtra m ls rows) = logPdfPlan m (.frame ls rows) :=
  ⟨transformToNormal_dropExtra m ls rows hrect, densities_congr m (transformToNormal_dropExtra m ls rows hrect)⟩

/-- For a frame with distinct labels containing every training column the score matrix has exactly
one column per TRAINING column, in TRAINING order (`rowPlan` walks `m.cols`). -/
theorem scores_width (m : GModel L) (ls : List L) (rows : List (List α)) (hnd : ls.Nodup)
    (hall : ∀ l ∈ m.cols, l ∈ ls) (hne : m.cols ≠ []) :
    transformToNormal m (.frame ls rows) = .ok ⟨m.cols.length, rows.map (rowPlan m ls)⟩ := by
  rw [transformToNormal_frame, anyPresent_of_all m hne hall, planWidth_eq m hnd hall]
  rfl

/-- **`log_probability_density` is the logarithm of `probability_density`** (plan level: `LOG` applied
to each value; error cases propagate unchanged). -/
theorem log_pdf_is_log_plan (m : GModel L) (x : Container L α) :
    logPdfPlan m x = (pdfPlan m x).map fun ys => ys.map RTerm.log :=
  logPdfPlan_eq m x

/-- pdf and cdf of a fitted model are DEFINED (no exception) for every non-empty well-formed frame,
whatever scipy's verdict on the stored correlation (`allow_singular=True` on both calls). -/
theorem densities_defined (m : GModel L) (ls : List L) (rows : List (List α)) (hfit : m.fitted = true)
    (hnd : ls.Nodup) (hall : ∀ l ∈ m.cols, l ∈ ls) (hne : m.cols ≠ []) (hdim : m.corr.dim = m.cols.length)
    (hrows : rows ≠ []) :
    (∃ ys, pdfPlan m (.frame ls rows) = .ok ys ∧ ys.length = rows.length) ∧
      (∃ ys, cdfPlan m (.frame ls rows) = .ok ys ∧ ys.length = rows.length) := by
  have hw := planWidth_eq m hnd hall
  have ha := anyPresent_of_all m hne hall
  constructor
  · rw [pdfPlan_frame]
    simp [hfit, ha, hw, hdim]
  · rw [cdfPlan_frame]
    have : Gen.GaussTransform.cdfAllowSingular = true := rfl
    simp [hfit, ha, hw, hdim, hrows, this]

/-- non-vacuity of `densities_defined` / `scores_width`. -/
example : ∃ m : GModel String, m.fitted = true ∧ m.cols ≠ [] ∧ m.corr.dim = m.cols.length ∧
    m.corr.singular = true ∧ (∀ l ∈ m.cols, l ∈ ["b", "x", "a"]) :=
  ⟨⟨true, ["a", "b"], ⟨2, true⟩⟩, rfl, by simp, rfl, rfl, by simp⟩

/-- What the repaired call guards against (finding `cumulative_distribution:raises[near-singular
correlation]`, fixed in /repo): WITHOUT `allow_singular` a stored correlation that scipy deems
singular makes the CDF raise for every score matrix. -/
theorem cdf_singular_not_allowed_raises (S : Block (Term α)) (d : Nat) :
    mvnCdfBatch S ⟨d, true⟩ false = .error .valueError := by
  simp [mvnCdfBatch]

/-- An unfitted model refuses all three methods (`NotFittedError`). -/
theorem unfitted_refused (m : GModel L) (x : Container L α) (h : m.fitted = false) :
    pdfPlan m x = .error .notFitted ∧ cdfPlan m x = .error .notFitted ∧
      logPdfPlan m x = .error .notFitted := by
  have hp : pdfPlan m x = .error .notFitted := by
    simp [pdfPlan, Gen.GaussTransform.probabilityDensity, checkFit, h, bind, Except.bind]
  refine ⟨hp, ?_, ?_⟩
  · simp [cdfPlan, Gen.GaussTransform.cumulativeDistribution, checkFit, h, bind, Except.bind]
  · rw [logPdfPlan_eq, hp]; rfl

end plans

/-! ## order and range (over ℝ, external symbols as hypotheses) -/

section real
variable {L : Type} [DecidableEq L]

/-- `log_probability_density(X) = log(probability_density(X))` value by value, under every
interpretation of the external symbols. -/
theorem log_pdf_is_log (E : Ext ℝ) (m : GModel L) (x : Container L ℝ) :
    logPdf E m x = (pdf E m x).map fun ys => ys.map Real.log := by
  unfold logPdf pdf
  rw [logPdfPlan_eq]
  cases pdfPlan m x with
  | error e => rfl
  | ok ys => simp [Except.map, RTerm.eval, Function.comp_def]

/-- **Each score is non-decreasing in its cell**, given monotone marginal CDFs and a monotone `Φ⁻¹`
(`clip` is monotone because `ε ≤ 1 - ε` for the generated bounds). -/
theorem score_mono_cell {E : Ext ℝ} (hE : MonoExt E) (j : Nat) :
    Monotone fun x : ℝ => (scoreTerm j x).eval E :=
  scoreTerm_eval_mono hE j

/-- **The score matrix is coordinate-wise non-decreasing in the query**: raising cells of a frame
(same labels) raises, entry by entry, the scores. -/
theorem scores_mono {E : Ext ℝ} (hE : MonoExt E) (m : GModel L) (ls : List L) {rows rows' : List (List ℝ)}
    (h : List.Forall₂ (List.Forall₂ (· ≤ ·)) rows rows') {S S' : List (List ℝ)}
    (hS : scores E m (.frame ls rows) = .ok S) (hS' : scores E m (.frame ls rows') = .ok S') :
    List.Forall₂ (List.Forall₂ (· ≤ ·)) S S' := by
  unfold scores at hS hS'
  rw [transformToNormal_frame] at hS hS'
  cases ha : anyPresent m ls with
  | false => simp [ha, Except.map] at hS
  | true =>
    simp only [ha, if_true, Except.map, Except.ok.injEq, List.map_map] at hS hS'
    subst hS hS'
    rw [List.forall₂_map_left_iff, List.forall₂_map_right_iff]
    exact List.Forall₂.imp (fun _ _ hr => rowScores_mono hE m ls hr) h

/-- non-vacuity of `MonoExt`. -/
example : MonoExt ⟨fun _ x => x, fun x => x, fun _ _ => 0, fun _ _ => 0⟩ :=
  ⟨fun _ => monotone_id, monotone_id⟩

/-- what is assumed of `scipy.stats.multivariate_normal.cdf(·, cov=Σ)`: a CDF. -/
structure MVNCDFSpec (F : List ℝ → ℝ) : Prop where
  mono : ∀ z z', List.Forall₂ (· ≤ ·) z z' → F z ≤ F z'
  nonneg : ∀ z, 0 ≤ F z
  le_one : ∀ z, F z ≤ 1

/-- non-vacuity of `MVNCDFSpec`: the CDF of the point mass at the origin. -/
example : MVNCDFSpec fun z => if ∀ x ∈ z, (0 : ℝ) ≤ x then 1 else 0 := by
  refine ⟨?_, fun z => by split_ifs <;> norm_num, fun z => by split_ifs <;> norm_num⟩
  intro z z' h
  have key : (∀ x ∈ z, (0 : ℝ) ≤ x) → ∀ x ∈ z', (0 : ℝ) ≤ x := by
    induction h with
    | nil => intro _ x hx; simp at hx
    | cons hab _ ih =>
      intro hz x hx
      rcases List.mem_cons.mp hx with rfl | hx
      · exact le_trans (hz _ (by simp)) hab
      · exact ih (fun y hy => hz y (by simp [hy])) x hx
  by_cases hz : ∀ x ∈ z, (0 : ℝ) ≤ x
  · rw [if_pos hz, if_pos (key hz)]
  · rw [if_neg hz]; split_ifs <;> norm_num

/-- **`cumulative_distribution` takes values in `[0,1]`**, for every container, GIVEN `MVNCDFSpec`. -/
theorem cdf_range {E : Ext ℝ} (hF : ∀ b, MVNCDFSpec (E.mvncdf b)) (m : GModel L) (x : Container L ℝ)
    {ys : List ℝ} (h : cdf E m x = .ok ys) : ∀ y ∈ ys, 0 ≤ y ∧ y ≤ 1 := by
  unfold cdf cdfPlan Gen.GaussTransform.cumulativeDistribution at h
  cases hc : checkFit m with
  | error e => simp [hc, bind, Except.bind, Except.map] at h
  | ok u =>
    cases ht : transformToNormal m x with
    | error e => simp [hc, ht, bind, Except.bind, Except.map] at h
    | ok S =>
      simp only [hc, ht, bind, Except.bind, mvnCdfBatch] at h
      split_ifs at h <;> simp only [Except.map, Except.ok.injEq, reduceCtorEq] at h
      subst h
      intro y hy
      simp only [List.map_map, List.mem_map, Function.comp_apply, RTerm.eval] at hy
      obtain ⟨r, _, rfl⟩ := hy
      exact ⟨(hF _).nonneg _, (hF _).le_one _⟩

/-- **`cumulative_distribution` is non-decreasing in every coordinate** of the query (frames with the
same labels; other containers reduce to frames by `container_invariant`), GIVEN monotone marginals,
monotone `Φ⁻¹` and `MVNCDFSpec`. -/
theorem cdf_mono_coord {E : Ext ℝ} (hE : MonoExt E) (hF : ∀ b, MVNCDFSpec (E.mvncdf b)) (m : GModel L)
    (ls : List L) {rows rows' : List (List ℝ)} (h : List.Forall₂ (List.Forall₂ (· ≤ ·)) rows rows')
    {ys ys' : List ℝ} (hy : cdf E m (.frame ls rows) = .ok ys) (hy' : cdf E m (.frame ls rows') = .ok ys') :
    List.Forall₂ (· ≤ ·) ys ys' := by
  unfold cdf at hy hy'
  rw [cdfPlan_frame] at hy hy'
  split_ifs at hy hy' <;> simp only [Except.map, Except.ok.injEq, reduceCtorEq] at hy hy'
  subst hy hy'
  simp only [List.map_map]
  rw [List.forall₂_map_left_iff, List.forall₂_map_right_iff]
  refine List.Forall₂.imp (fun r r' hr => ?_) h
  simp only [Function.comp_apply, RTerm.eval]
  exact (hF _).mono _ _ (rowScores_mono hE m ls hr)

/-! ## the executable MVN density (Cholesky), τ = 2π -/

/-- **Positivity**: whenever the factorisation succeeds (all pivots positive) the density
`exp(-q/2) / sqrt(τ^d · (Π L_ii)²)` is positive. -/
theorem mvn_pdf_pos {τ : ℝ} (hτ : 0 < τ) (A : List (List ℝ)) (z : List ℝ) {p : ℝ}
    (h : mvnPdf τ A z = some p) : 0 < p := by
  unfold mvnPdf at h
  cases hc : cholesky A with
  | none => simp [hc] at h
  | some L =>
    simp only [hc, Option.map_some, Option.some.injEq] at h
    exact h ▸ mvnPdfChol_pos hτ (cholesky_diagPos hc) z

/-- the textbook form is `exp` of the log form (the one compared with scipy at `Float`). -/
theorem mvn_pdf_eq_exp_log {τ : ℝ} (hτ : 0 < τ) (A : List (List ℝ)) (z : List ℝ) :
    mvnPdf τ A z = (mvnLogPdf τ A z).map Real.exp := by
  unfold mvnPdf mvnLogPdf
  cases hc : cholesky A with
  | none => rfl
  | some L => simp [mvnPdfChol_eq_exp_log hτ (cholesky_diagPos hc) z]

/-- PARTIAL (kept for its explicit `d ≤ 2` minors form): the density is defined (the factorisation
succeeds) for every symmetric positive definite matrix of dimension `d ≤ 2`.  The full-strength
statement — every dimension `d`, every symmetric positive definite list matrix, with `L Lᵀ = A` —
is `C13b.mvn_pdf_defined` / `C13b.cholesky_defined` in `Props/C13b.lean` (Schur-complement induction
in `Lemmas/CholeskyPD.lean`). -/
theorem mvn_pdf_defined_partial {τ : ℝ} (z : List ℝ) :
    (∀ a : ℝ, 0 < a → ∃ p, mvnPdf τ [[a]] z = some p) ∧
      (∀ a b c : ℝ, 0 < a → 0 < a * c - b * b → ∃ p, mvnPdf τ [[a, b], [b, c]] z = some p) := by
  constructor
  · intro a ha
    obtain ⟨L, hL⟩ := cholesky_defined_one ha
    exact ⟨mvnPdfChol τ L z, by simp [mvnPdf, hL]⟩
  · intro a b c ha hdet
    obtain ⟨L, hL⟩ := cholesky_defined_two ha hdet
    exact ⟨mvnPdfChol τ L z, by simp [mvnPdf, hL]⟩

/-- non-vacuity: the correlation matrix with ρ = 1/2 is covered by `mvn_pdf_defined_partial`. -/
example : (0 : ℝ) < 1 ∧ (0 : ℝ) < 1 * 1 - (1 / 2) * (1 / 2) := by norm_num

end real
end CopVerif.Props.C13
