import CopVerif.Model.GaussTransform
namespace CopVerif.Props.C13
theorem stub : True := trivial
end CopVerif.Props.C13
