import CopVerif.Props.C01
import CopVerif.Lemmas.GaussSampleGen
/-!
# C01b — translator tie (T): the theorems of C01 over the definitions GENERATED from the source

The code C01 is anchored in (`copulas/multivariate/gaussian.py`) is re-translated on every run by two translators:

* `tools/gen_gausscond.py` → `CopVerif/Gen/GaussCond.lean`: `_get_normal_samples` (the branch on `conditions is None`,
  which `(mean, cov)` go into `np.random.multivariate_normal`, the labels of the frame of draws) and `sample`
  (`self.check_fit()` first, the call `self._get_normal_samples(num_rows, conditions)`, the loop over
  `zip(self.columns, self.univariates)`, the test and both arms of its body, `pd.DataFrame(data=output)` and so the
  order of the output columns).  The unconditional call `sample(num_rows)` of C01 is `Gen.GaussCond.sample … none`.
* `tools/gen_gausstransform.py` → `CopVerif/Gen/GaussTransform.lean`: `_fit_columns` (one pass over `X.items()`,
  both lists appended to in step).

Part 1 (`gen_*`): the generated unconditional path EQUALS the hand model `Model/GaussSample.lean` (the model whose
plan terms `tools/props/c01.py` compares with the real `sample(n)` bit for bit): `(mean, cov)` handed to the RNG are
`(0, self.correlation)`, the frame of draws is labelled with the training columns, each cell is
`ppf_col(Φ(z))` of the draw found BY LABEL, output columns = training columns in training order; and the generated
`_fit_columns` builds the model's fitted state.  Part 2: the theorems of `Props/C01.lean` restated over the
generated definitions.

The glue between the by-label reading of the generated code and the positional fitted state of the model (`ppfOf`,
`extOf`, `genFitted`, `drawsOf`) is in `Lemmas/GaussSampleGen.lean` (core Lean; the driver runs the generated
definitions through the same glue).  Distinct labels (`Nodup`) are assumed exactly where `Props/C01.lean` assumes them.
-/
set_option linter.unusedTactic false
set_option linter.unreachableTactic false
namespace CopVerif.Props.C01b
open CopVerif CopVerif.Model.GaussSample CopVerif.PIT NumFns CopVerif.GaussSampleGen
open CopVerif.Model.GaussCond (Corr CondDist Conditions drawCol)
open CopVerif.Gen.GaussCond (npZeros mvnArgs optIsSome optIsNone optTruth optContains optGetItem andE orE notE dictLoop)

/-! ## Part 1 — generated = model -/
section bridges
variable {ι α : Type} [DecidableEq ι] [Add α] [Sub α] [Mul α] [NumFns α]

omit [DecidableEq ι] [Add α] [Sub α] [Mul α] [NumFns α] in
/-- the generated `_fit_columns`: the labels of the table in TABLE order, and position by position the fit of that
    column with the distribution configured for ITS label. -/
theorem gen_fitColumns_eq {C D U : Type} (gd : ι → D) (fc : C → D → ι → U) (X : List (ι × C)) :
    Gen.GaussTransform.fitColumns X gd fc = (X.map Prod.fst, X.map fun lc => fc lc.2 (gd lc.1) lc.1) := by
  unfold Gen.GaussTransform.fitColumns
  rw [foldl_fit]
  simp

omit [DecidableEq ι] [Add α] [Sub α] [Mul α] [NumFns α] in
/-- **generated `_fit_columns` = model `fitColumns`**: the fitted state built from the generated loop is the hand
    model's, for every table and every `distribution` configuration. -/
theorem gen_fit_eq_model {D : Type} [BEq α] (gd : ι → D) (X : List (ι × List α)) :
    genFitted gd X = fitColumns X := by
  unfold genFitted
  rw [gen_fitColumns_eq]
  show _ = ({ columns := (fitColumnsFrom 0 X).1, univariates := (fitColumnsFrom 0 X).2 } : Fitted ι α)
  rw [fitColumnsFrom_fst, fitColumnsFrom_snd]
  simp [recordColumn]

/-- **what the generated `_get_normal_samples(n, None)` hands to `np.random.multivariate_normal`**: mean `np.zeros(d)`,
    covariance the stored correlation, and the frame of draws is labelled with the training columns (numpy refuses
    an empty mean: a model without columns). -/
theorem gen_sampler_args_zero_corr (inv : List (List α) → List (List α)) (le : ι → ι → Bool) (score : ι → α → α)
    (S : Corr ι α) :
    Gen.GaussCond.samplerArgs inv le score S none
      = if S.labels = [] then .error .valueError
        else .ok { mean := List.replicate S.labels.length (ofNat 0), cov := S.data, columns := S.labels } := by
  unfold Gen.GaussCond.samplerArgs
  cases hl : S.labels with
  | nil => simp [mvnArgs, npZeros]
  | cons a l => simp [mvnArgs, npZeros, List.replicate_succ]

/-- the generated `_get_normal_samples(n, None)`: the frame `(training columns, rng(zeros, correlation, n))`. -/
theorem gen_normal_samples_none (inv : List (List α) → List (List α)) (le : ι → ι → Bool) (score : ι → α → α)
    (rng : List α → List (List α) → ℕ → List (List α)) (S : Corr ι α) (n : ℕ) (hne : S.labels ≠ []) :
    Gen.GaussCond.getNormalSamples inv le score rng S n none
      = .ok (S.labels, rng (List.replicate S.labels.length (ofNat 0)) S.data n) := by
  unfold Gen.GaussCond.getNormalSamples
  rw [gen_sampler_args_zero_corr, if_neg hne]

omit [Add α] [Sub α] [Mul α] in
/-- the generated body of the loop of `sample` when `conditions is None`: never the conditions arm; the value stored
    under the loop's column name is `univariate.percent_point(stats.norm.cdf(samples[column_name]))`, the draw column
    found BY LABEL. -/
theorem gen_sampleColumn_none (n : ℕ) (ppf : ι → α → α) (phi : α → α) (samples : List ι × List (List α)) (col : ι) :
    Gen.GaussCond.sampleColumn n ppf phi none samples col
      = .ok (((drawCol samples.1 samples.2 col).map phi).map (ppf col)) := by
  first
    | rfl
    | (simp only [Gen.GaussCond.sampleColumn, andE, orE, notE, optIsSome, optIsNone, optTruth, Option.isSome_none,
        Option.isNone_none, Bool.false_eq_true, if_false, Bool.not_true, Bool.not_false]; done)
    | (simp [Gen.GaussCond.sampleColumn, andE, orE, notE, optIsSome, optIsNone, optTruth]; done)

/-- **the generated `sample(n)` as a plan**: one output column per training column, in training order, labelled with
    it; the cells are `ppf_col(Φ(z))` of the draws `rng(zeros(d), correlation, n)` looked up by label. -/
theorem gen_sample_none_plan (inv : List (List α) → List (List α)) (le : ι → ι → Bool) (score ppf : ι → α → α)
    (phi : α → α) (rng : List α → List (List α) → ℕ → List (List α)) (S : Corr ι α) (n : ℕ) (hne : S.labels ≠ []) :
    Gen.GaussCond.sample inv le score ppf phi rng S n none
      = .ok (S.labels.map fun col => (col, ((drawCol S.labels
          (rng (List.replicate S.labels.length (ofNat 0)) S.data n) col).map phi).map (ppf col))) := by
  unfold Gen.GaussCond.sample
  rw [gen_normal_samples_none inv le score rng S n hne]
  simp only [gen_sampleColumn_none, dictLoop_ok]

/-- a model without columns: the generated `sample(n)` raises (numpy refuses the empty mean). -/
theorem gen_sample_none_empty (inv : List (List α) → List (List α)) (le : ι → ι → Bool) (score ppf : ι → α → α)
    (phi : α → α) (rng : List α → List (List α) → ℕ → List (List α)) (S : Corr ι α) (n : ℕ) (he : S.labels = []) :
    Gen.GaussCond.sample inv le score ppf phi rng S n none = .error .valueError := by
  unfold Gen.GaussCond.sample Gen.GaussCond.getNormalSamples
  rw [gen_sampler_args_zero_corr, if_pos he]

/-- **generated `sample(n)` = model `sample`**, for every fitted state with distinct labels, every `n`, every RNG,
    marginals and `Φ`: the correlation is labelled with the training columns, the draws the model calls `MVN d n`
    are what the generated code obtains from the RNG for `(zeros(d), correlation, n)` (an `n × d` array). -/
theorem gen_sample_eq_model (inv : List (List α) → List (List α)) (le : ι → ι → Bool) (score : ι → α → α)
    (E : Ext α) (m : Fitted ι α) (S : Corr ι α) (rng : List α → List (List α) → ℕ → List (List α)) (n : ℕ)
    (hS : S.labels = m.columns) (hne : m.columns ≠ []) (hnd : m.columns.Nodup)
    (hlen : m.columns.length = m.univariates.length)
    (hrng : rng (List.replicate m.columns.length (ofNat 0)) S.data n = E.mvn m.columns.length n)
    (hrows : ∀ r ∈ E.mvn m.columns.length n, r.length = m.columns.length) :
    Gen.GaussCond.sample inv le score (ppfOf E m) E.phi rng S n none = .ok (Model.GaussSample.sample E m n) := by
  rw [gen_sample_none_plan inv le score _ _ rng S n (by rw [hS]; exact hne), hS, hrng]
  unfold Model.GaussSample.sample
  rw [sampleWith_eq_map E m _ hnd hlen]
  have hfst : (m.columns.zip m.univariates).map Prod.fst = m.columns := List.map_fst_zip (Nat.le_of_eq hlen)
  congr 1
  generalize hdr : E.mvn m.columns.length n = draws at hrows ⊢
  have key : ∀ p ∈ m.columns.zip m.univariates,
      (p.1, ((drawCol m.columns draws p.1).map E.phi).map (ppfOf E m p.1))
        = (p.1, outCol E (frame m.columns draws) p) := by
    intro p hp
    have hmem : p.1 ∈ m.columns := (List.of_mem_zip (a := p.1) (b := p.2) hp).1
    have hk : m.columns[m.columns.idxOf p.1]? = some p.1 := List.getElem?_idxOf hmem
    have hlt : m.columns.idxOf p.1 < m.columns.length := List.idxOf_lt_length_iff.2 hmem
    have hl : (m.columns.zip m.univariates).lookup p.1 = some p.2 :=
      lookup_of_mem_nodup _ (by rw [hfst]; exact hnd) p hp
    have hppf : ppfOf E m p.1 = fun u => p.2.ppf E.ppf u := by
      funext u; simp only [ppfOf, hl]
    rw [hppf]
    simp only [outCol, getCol_frame_nodup _ _ hnd _ p.1 hk, drawCol,
      colOf_eq_map_getD draws hrows hlt (ofNat 0), List.map_map, Function.comp_def]
  calc m.columns.map (fun col => (col, ((drawCol m.columns draws col).map E.phi).map (ppfOf E m col)))
      = ((m.columns.zip m.univariates).map Prod.fst).map
          (fun col => (col, ((drawCol m.columns draws col).map E.phi).map (ppfOf E m col))) := by rw [hfst]
    _ = (m.columns.zip m.univariates).map fun p => (p.1, outCol E (frame m.columns draws) p) := by
        rw [List.map_map]
        exact List.map_congr_left key

/-- the same with the model's external functions READ OFF the generated code's parameters (`extOf`): no hypothesis on
    which arguments the RNG is called with is left. -/
theorem gen_sample_eq_model_ext (inv : List (List α) → List (List α)) (le : ι → ι → Bool) (score : ι → α → α)
    (ppf : ℕ → α → α) (phi : α → α) (m : Fitted ι α) (S : Corr ι α)
    (rng : List α → List (List α) → ℕ → List (List α)) (n : ℕ)
    (hS : S.labels = m.columns) (hne : m.columns ≠ []) (hnd : m.columns.Nodup)
    (hlen : m.columns.length = m.univariates.length)
    (hrows : ∀ mean cov, ∀ r ∈ rng mean cov n, r.length = mean.length) :
    Gen.GaussCond.sample inv le score (ppfOf (extOf ppf phi rng S) m) phi rng S n none
      = .ok (Model.GaussSample.sample (extOf ppf phi rng S) m n) :=
  gen_sample_eq_model inv le score (extOf ppf phi rng S) m S rng n hS hne hnd hlen rfl
    (fun r hr => by simpa using hrows _ _ r hr)

end bridges

/-! ## Part 2 — the property theorems of `Props/C01.lean` over the generated definitions

`drawsOf rng S n` below is what the generated `_get_normal_samples(n, None)` obtains from the RNG. -/

section transfer
variable {ι α : Type} [DecidableEq ι] [Add α] [Sub α] [Mul α] [NumFns α]

omit [DecidableEq ι] [Add α] [Sub α] [Mul α] [NumFns α] in
/-- `fit` keeps the table's labels in table order, one univariate per column (generated `_fit_columns`, any
    `distribution` configuration `gd`, any `_fit_column`). -/
theorem gen_fit_labels {C D U : Type} (gd : ι → D) (fc : C → D → ι → U) (X : List (ι × C)) :
    (Gen.GaussTransform.fitColumns X gd fc).1 = X.map Prod.fst ∧
      (Gen.GaussTransform.fitColumns X gd fc).2.length = (Gen.GaussTransform.fitColumns X gd fc).1.length := by
  rw [gen_fitColumns_eq]; simp

/-- **Schema, labels (any fitted state).**  The generated `sample(n)` returns, and its columns are exactly the
    training columns in training order — every `d ≥ 1`, `n`, whatever the external functions return.  (`_hnd`: the
    table meaning of `out = {}; for …: out[k] = …` is a Python dict only for distinct keys.) -/
theorem gen_sample_labels_state (inv : List (List α) → List (List α)) (le : ι → ι → Bool) (score ppf : ι → α → α)
    (phi : α → α) (rng : List α → List (List α) → ℕ → List (List α)) (S : Corr ι α) (n : ℕ)
    (hne : S.labels ≠ []) (_hnd : S.labels.Nodup) :
    ∃ out, Gen.GaussCond.sample inv le score ppf phi rng S n none = .ok out ∧ out.map Prod.fst = S.labels := by
  refine ⟨_, gen_sample_none_plan inv le score ppf phi rng S n hne, ?_⟩
  simp [List.map_map, Function.comp_def]

/-- **Schema, labels.**  After the generated `_fit_columns` on the table `X` (the correlation frame being labelled
    with `self.columns`), the generated `sample(n)` has exactly the TABLE's labels in table order. -/
theorem gen_sample_labels {C D U : Type} (gd : ι → D) (fc : C → D → ι → U) (X : List (ι × C))
    (inv : List (List α) → List (List α)) (le : ι → ι → Bool) (score ppf : ι → α → α)
    (phi : α → α) (rng : List α → List (List α) → ℕ → List (List α)) (S : Corr ι α) (n : ℕ)
    (hS : S.labels = (Gen.GaussTransform.fitColumns X gd fc).1) (hne : X ≠ []) (hnd : (X.map Prod.fst).Nodup) :
    ∃ out, Gen.GaussCond.sample inv le score ppf phi rng S n none = .ok out ∧ out.map Prod.fst = X.map Prod.fst := by
  have hl : S.labels = X.map Prod.fst := hS.trans (gen_fit_labels gd fc X).1
  obtain ⟨out, h1, h2⟩ := gen_sample_labels_state inv le score ppf phi rng S n
    (by rw [hl]; simpa using hne) (by rw [hl]; exact hnd)
  exact ⟨out, h1, h2.trans hl⟩

/-- **Schema, rows.**  Every column of the generated `sample(n)` has exactly `n` cells, given that numpy returns `n`
    rows — for ANY fitted state. -/
theorem gen_sample_nrows (inv : List (List α) → List (List α)) (le : ι → ι → Bool) (score ppf : ι → α → α)
    (phi : α → α) (rng : List α → List (List α) → ℕ → List (List α)) (S : Corr ι α) (n : ℕ)
    (hrng : ∀ mean cov, (rng mean cov n).length = n) {out : List (ι × List α)}
    (h : Gen.GaussCond.sample inv le score ppf phi rng S n none = .ok out) : ∀ c ∈ out, c.2.length = n := by
  by_cases hne : S.labels = []
  · rw [gen_sample_none_empty inv le score ppf phi rng S n hne] at h; cases h
  · rw [gen_sample_none_plan inv le score ppf phi rng S n hne] at h
    cases h
    intro c hc
    obtain ⟨col, -, rfl⟩ := List.mem_map.1 hc
    simp [drawCol, hrng]

/-- **Alignment (any fitted state).**  Output column `k` of the generated `sample(n)` carries training label `k`
    and is the `k`-th univariate's `percent_point ∘ Φ` mapped over ARRAY column `k` of the draws. -/
theorem gen_sample_aligned_state (inv : List (List α) → List (List α)) (le : ι → ι → Bool) (score : ι → α → α)
    (ppf : ℕ → α → α) (phi : α → α) (m : Fitted ι α) (S : Corr ι α)
    (rng : List α → List (List α) → ℕ → List (List α)) (n : ℕ)
    (hS : S.labels = m.columns) (hnd : m.columns.Nodup) (hlen : m.columns.length = m.univariates.length)
    (hrows : ∀ mean cov, ∀ r ∈ rng mean cov n, r.length = mean.length)
    (k : ℕ) (name : ι) (uni : Uni α) (hc : m.columns[k]? = some name) (hu : m.univariates[k]? = some uni) :
    ∃ out, Gen.GaussCond.sample inv le score (ppfOf (extOf ppf phi rng S) m) phi rng S n none = .ok out ∧
      out[k]? = some (name, (colOf k (drawsOf rng S n)).map fun z => uni.ppf ppf (phi z)) := by
  have hne : m.columns ≠ [] := by
    intro e; rw [e] at hc; simp at hc
  refine ⟨_, gen_sample_eq_model_ext inv le score ppf phi m S rng n hS hne hnd hlen hrows, ?_⟩
  have := sample_getElem? (extOf ppf phi rng S) m n hnd hlen k name uni hc hu
  simpa [extOf, drawsOf, hS] using this

/-- **Alignment after `fit`.**  With the state built by the generated `_fit_columns` from the table `X`: output column
    `k` carries the label of table column `k` and is `percent_point ∘ Φ` of THAT column's fit mapped over array column
    `k` of the draws (`zip` is not misaligned, the frame of draws is labelled in training order). -/
theorem gen_sample_aligned {D : Type} [BEq α] (gd : ι → D) (inv : List (List α) → List (List α))
    (le : ι → ι → Bool) (score : ι → α → α) (ppf : ℕ → α → α) (phi : α → α) (X : List (ι × List α)) (S : Corr ι α)
    (rng : List α → List (List α) → ℕ → List (List α)) (n : ℕ)
    (hS : S.labels = (genFitted gd X).columns) (hnd : (X.map Prod.fst).Nodup)
    (hrows : ∀ mean cov, ∀ r ∈ rng mean cov n, r.length = mean.length)
    (k : ℕ) (name : ι) (col : List α) (hk : X[k]? = some (name, col)) :
    ∃ out, Gen.GaussCond.sample inv le score (ppfOf (extOf ppf phi rng S) (genFitted gd X)) phi rng S n none = .ok out ∧
      out[k]? = some (name, (colOf k (drawsOf rng S n)).map fun z => (fitColumn k col).ppf ppf (phi z)) := by
  have hg := fitColumnsFrom_getElem? 0 X k name col hk
  rw [Nat.zero_add] at hg
  have hm : genFitted gd X = fitColumns X := gen_fit_eq_model gd X
  have hc := fitColumns_columns X
  exact gen_sample_aligned_state inv le score ppf phi (genFitted gd X) S rng n hS
    (by rw [hm, hc]; exact hnd) (by rw [hm]; exact fitColumns_lengths X) hrows k name (fitColumn k col)
    (by rw [hm]; exact hg.1) (by rw [hm]; exact hg.2)

/-- **A constant training column is reproduced exactly** by the generated pipeline: if column `k` of the table holds
    only the value `c`, column `k` of the generated `sample(n)` is `n` copies of `c` — whatever the draws are. -/
theorem gen_sample_constant_exact {D : Type} [BEq α] [LawfulBEq α] (gd : ι → D) (inv : List (List α) → List (List α))
    (le : ι → ι → Bool) (score : ι → α → α) (ppf : ℕ → α → α) (phi : α → α) (X : List (ι × List α)) (S : Corr ι α)
    (rng : List α → List (List α) → ℕ → List (List α)) (n : ℕ)
    (hS : S.labels = (genFitted gd X).columns) (hnd : (X.map Prod.fst).Nodup)
    (hrows : ∀ mean cov, ∀ r ∈ rng mean cov n, r.length = mean.length)
    (hrng : ∀ mean cov, (rng mean cov n).length = n)
    (k : ℕ) (name : ι) (col : List α) (c : α) (hk : X[k]? = some (name, col)) (hne : col ≠ [])
    (hconst : ∀ x ∈ col, x = c) :
    ∃ out, Gen.GaussCond.sample inv le score (ppfOf (extOf ppf phi rng S) (genFitted gd X)) phi rng S n none = .ok out ∧
      out[k]? = some (name, List.replicate n c) := by
  obtain ⟨out, h1, h2⟩ := gen_sample_aligned gd inv le score ppf phi X S rng n hS hnd hrows k name col hk
  refine ⟨out, h1, ?_⟩
  rw [h2, fitColumn_const k hne hconst]
  have hklt : k < X.length := by
    rcases List.getElem?_eq_some_iff.1 hk with ⟨h, _⟩; exact h
  have hd : S.labels.length = X.length := by
    rw [hS, gen_fit_eq_model, fitColumns_columns, List.length_map]
  have hlen : (colOf k (drawsOf rng S n)).length = n := by
    rw [length_colOf (d := X.length) _ (fun r hr => by
      have := hrows _ _ r hr; rw [this, List.length_replicate, hd]) hklt]
    exact hrng _ _
  simp only [Uni.ppf, Option.some.injEq, Prod.mk.injEq, true_and]
  rw [List.eq_replicate_iff]
  exact ⟨by rw [List.length_map, hlen], by intro b hb; simp at hb; exact hb.2.symm ▸ rfl⟩

end transfer

/-! ### marginals -/
section marginals
variable {ι : Type} [DecidableEq ι]
open MeasureTheory ProbabilityTheory

/-- **Marginal law, pointwise, of the generated sampler.**  For a training column `col` whose `percent_point` is the
    quantile function `Q` of `F`, with `Φ` the standard normal distribution function: the generated `sample(n)` has a
    column `col`, cell for cell the image of the draw column found by label, and a cell is `≤ x` exactly when its
    draw is `≤ Φ⁻¹(F x)` (`0 < F x < 1`): the event `{sampled ≤ x}` has standard normal probability `F x`. -/
theorem gen_marginal_pointwise (inv : List (List ℝ) → List (List ℝ)) (le : ι → ι → Bool) (score ppf : ι → ℝ → ℝ)
    (rng : List ℝ → List (List ℝ) → ℕ → List (List ℝ)) (S : Corr ι ℝ) (n : ℕ)
    {Q F Φ Φinv : ℝ → ℝ} (hQ : IsQuantileOf Q F) (hΦ : IsStdNormalCDF Φ Φinv)
    (col : ι) (hcol : col ∈ S.labels) (hppf : ppf col = Q) :
    ∃ out vals, Gen.GaussCond.sample inv le score ppf Φ rng S n none = .ok out ∧ (col, vals) ∈ out ∧
      List.Forall₂ (fun cell z => ∀ x, 0 < F x → F x < 1 → (cell ≤ x ↔ z ≤ Φinv (F x)))
        vals (drawCol S.labels (drawsOf rng S n) col) := by
  have hne : S.labels ≠ [] := List.ne_nil_of_mem hcol
  refine ⟨_, _, gen_sample_none_plan inv le score ppf Φ rng S n hne, List.mem_map.2 ⟨col, hcol, rfl⟩, ?_⟩
  unfold drawsOf
  rw [List.map_map, List.forall₂_map_left_iff, List.forall₂_same]
  intro z _ x h0 h1
  simp only [Function.comp_def, hppf]
  exact quantile_transform_le_iff hQ hΦ z x h0 h1

/-- **Marginal law, measure-theoretic, of the generated sampler.**  With `Φ` the true standard normal distribution
    function: the column `col` of the generated `sample(n)` is the image of its draw column under `g = Q ∘ Φ`, and the
    push-forward of the standard Gaussian measure under `g` has distribution function `F`:
    `P(g(Z) ≤ x) = F x`, `cdf (map g (gaussianReal 0 1)) x = F x`. -/
theorem gen_marginal_law (inv : List (List ℝ) → List (List ℝ)) (le : ι → ι → Bool) (score ppf : ι → ℝ → ℝ)
    (rng : List ℝ → List (List ℝ) → ℕ → List (List ℝ)) (S : Corr ι ℝ) (n : ℕ)
    {Q F : ℝ → ℝ} (hQ : IsQuantileOf Q F) (col : ι) (hcol : col ∈ S.labels) (hppf : ppf col = Q) :
    ∃ out, Gen.GaussCond.sample inv le score ppf stdPhi rng S n none = .ok out ∧
      (col, (drawCol S.labels (drawsOf rng S n) col).map fun z => Q (stdPhi z)) ∈ out ∧
      ∀ x, 0 ≤ F x → F x ≤ 1 →
        (gaussianReal 0 1) {z | Q (stdPhi z) ≤ x} = ENNReal.ofReal (F x) ∧
        ((gaussianReal 0 1).map fun z => Q (stdPhi z)) (Set.Iic x) = ENNReal.ofReal (F x) ∧
        cdf ((gaussianReal 0 1).map fun z => Q (stdPhi z)) x = F x := by
  have hne : S.labels ≠ [] := List.ne_nil_of_mem hcol
  refine ⟨_, gen_sample_none_plan inv le score ppf stdPhi rng S n hne, ?_, ?_⟩
  · refine List.mem_map.2 ⟨col, hcol, ?_⟩
    simp [List.map_map, Function.comp_def, hppf, drawsOf]
  · intro x h0 h1
    exact ⟨quantile_transform_law hQ x h0 h1, quantile_transform_map_Iic hQ x h0 h1,
      quantile_transform_cdf hQ x h0 h1⟩

end marginals

/-! ### dependence -/
section dependence
variable {ι α : Type} [DecidableEq ι] [Add α] [Sub α] [Mul α] [NumFns α] [LinearOrder α]

/-- **The sampled columns have the rank dependence of the normal draws** (generated sampler).  For two training
    columns at positions `j`, `k` whose `percent_point ∘ Φ` are strictly increasing, the Kendall concordant /
    discordant / tie counts and tau-b of the two OUTPUT columns of the generated `sample(n)` equal those of the two
    draw columns (found by label). -/
theorem gen_sample_rank_dependence (inv : List (List α) → List (List α)) (le : ι → ι → Bool) (score ppf : ι → α → α)
    (phi : α → α) (rng : List α → List (List α) → ℕ → List (List α)) (S : Corr ι α) (n : ℕ)
    (j k : ℕ) (nj nk : ι) (hcj : S.labels[j]? = some nj) (hck : S.labels[k]? = some nk)
    (hfa : StrictMono fun z => ppf nj (phi z)) (hfb : StrictMono fun z => ppf nk (phi z)) :
    ∃ out cj ck, Gen.GaussCond.sample inv le score ppf phi rng S n none = .ok out ∧
      out[j]? = some (nj, cj) ∧ out[k]? = some (nk, ck) ∧
      counts (cj.zip ck)
        = counts ((drawCol S.labels (drawsOf rng S n) nj).zip (drawCol S.labels (drawsOf rng S n) nk)) ∧
      (kendallTauB (cj.zip ck) : Option ℝ)
        = kendallTauB ((drawCol S.labels (drawsOf rng S n) nj).zip (drawCol S.labels (drawsOf rng S n) nk)) := by
  have hne : S.labels ≠ [] := by
    intro e; rw [e] at hcj; simp at hcj
  refine ⟨_, ((drawCol S.labels (drawsOf rng S n) nj).map phi).map (ppf nj),
    ((drawCol S.labels (drawsOf rng S n) nk).map phi).map (ppf nk),
    gen_sample_none_plan inv le score ppf phi rng S n hne, ?_, ?_, ?_⟩
  · rw [List.getElem?_map, hcj]; rfl
  · rw [List.getElem?_map, hck]; rfl
  · simp only [List.map_map, Function.comp_def]
    exact C01.kendall_invariant (f := fun z => ppf nj (phi z)) (g := fun z => ppf nk (phi z)) hfa hfb _ _

/-- for merely non-decreasing `percent_point ∘ Φ` (marginals with atoms) the generated sampler can only turn
    concordant / discordant pairs of the draws into ties, never create any. -/
theorem gen_sample_rank_nondecreasing_le (inv : List (List α) → List (List α)) (le : ι → ι → Bool)
    (score ppf : ι → α → α) (phi : α → α) (rng : List α → List (List α) → ℕ → List (List α)) (S : Corr ι α) (n : ℕ)
    (j k : ℕ) (nj nk : ι) (hcj : S.labels[j]? = some nj) (hck : S.labels[k]? = some nk)
    (hfa : Monotone fun z => ppf nj (phi z)) (hfb : Monotone fun z => ppf nk (phi z)) :
    ∃ out cj ck, Gen.GaussCond.sample inv le score ppf phi rng S n none = .ok out ∧
      out[j]? = some (nj, cj) ∧ out[k]? = some (nk, ck) ∧
      (counts (cj.zip ck)).conc
        ≤ (counts ((drawCol S.labels (drawsOf rng S n) nj).zip (drawCol S.labels (drawsOf rng S n) nk))).conc ∧
      (counts (cj.zip ck)).disc
        ≤ (counts ((drawCol S.labels (drawsOf rng S n) nj).zip (drawCol S.labels (drawsOf rng S n) nk))).disc := by
  have hne : S.labels ≠ [] := by
    intro e; rw [e] at hcj; simp at hcj
  refine ⟨_, ((drawCol S.labels (drawsOf rng S n) nj).map phi).map (ppf nj),
    ((drawCol S.labels (drawsOf rng S n) nk).map phi).map (ppf nk),
    gen_sample_none_plan inv le score ppf phi rng S n hne, ?_, ?_, ?_⟩
  · rw [List.getElem?_map, hcj]; rfl
  · rw [List.getElem?_map, hck]; rfl
  · simp only [List.map_map, Function.comp_def]
    exact C01.kendall_nondecreasing_le (f := fun z => ppf nj (phi z)) (g := fun z => ppf nk (phi z)) hfa hfb _ _

end dependence

/-! ### non-vacuity -/
section Examples

/-- a computable numeric signature for evaluating the generated code on integers. -/
local instance instNumFnsInt : NumFns Int where
  exp := id
  log := id
  pow := fun a _ => a
  sqrt := id
  abs := fun a => (Int.natAbs a : Int)
  ofNat := Int.ofNat
  ofSci := fun m _ => Int.ofNat m
  beq := fun a b => a == b
  isPosInf := fun _ => false
  isNaN := fun _ => false

private def exX : List (String × List Int) := [("a", [7, 7, 7]), ("b", [1, 2, 3])]
private def exS : Corr String Int := ⟨["a", "b"], [[1, 0], [0, 1]]⟩
/-- an RNG returning an `n × d` array whose row `i` is `[i, i + 10, …]`; `d` is read off the mean it is handed. -/
private def exRng : List Int → List (List Int) → ℕ → List (List Int) := fun mean _ n =>
  (List.range n).map fun i => (List.range mean.length).map fun k => Int.ofNat (i + 10 * k)

/-- non-vacuity of the hypotheses of the schema / alignment / constant-column theorems and of
    `gen_sample_eq_model(_ext)`: a 2-column table (one constant column) fitted by the generated `_fit_columns`, a
    correlation frame labelled with the fitted columns, an `n × d` RNG — and the value of the generated `sample(2)`. -/
example :
    exS.labels = (genFitted (fun _ => ()) exX).columns ∧ (exX.map Prod.fst).Nodup ∧ exX ≠ []
      ∧ (genFitted (fun _ => ()) exX).columns.length = (genFitted (fun _ => ()) exX).univariates.length
      ∧ (∀ mean cov, ∀ r ∈ exRng mean cov 2, r.length = mean.length) ∧ (∀ mean cov, (exRng mean cov 2).length = 2)
      ∧ Gen.GaussCond.samplerArgs id (fun _ _ => true) (fun _ x => x) exS none
          = .ok { mean := [0, 0], cov := [[1, 0], [0, 1]], columns := ["a", "b"] }
      ∧ Gen.GaussCond.sample id (fun _ _ => true) (fun _ x => x)
          (ppfOf (extOf (fun j u => 100 * (j : Int) + u) (· + 1) exRng exS) (genFitted (fun _ => ()) exX)) (· + 1)
          exRng exS 2 none = .ok [("a", [7, 7]), ("b", [111, 112])] := by
  refine ⟨by decide, by decide, by decide, by decide, ?_, ?_, rfl, by decide⟩
  · intro mean cov r hr; simp [exRng] at hr; obtain ⟨i, -, rfl⟩ := hr; simp
  · intro mean cov; simp [exRng]

/-- non-vacuity of the hypotheses of the marginal theorems: the fair-coin step functions are a quantile pair, Mathlib's
    standard normal distribution function satisfies `IsStdNormalCDF`, and the column is a training column. -/
example : IsQuantileOf coinQ coinF ∧ IsStdNormalCDF stdPhi stdPhiInv
    ∧ "b" ∈ (⟨["a", "b"], [[1, 0], [0, 1]]⟩ : Corr String ℝ).labels
    ∧ (fun (_ : String) => coinQ) "b" = coinQ :=
  ⟨coin_isQuantileOf, stdPhi_isStdNormalCDF, by simp, rfl⟩

/-- non-vacuity of the hypotheses of the dependence theorems: positions `0`, `1` carry the labels `a`, `b`, the maps
    `z ↦ 2 (z + 1)` are strictly increasing; the generated output and the Kendall counts of its two columns. -/
example :
    exS.labels[0]? = some "a" ∧ exS.labels[1]? = some "b" ∧ StrictMono (fun z : Int => 2 * (z + 1))
      ∧ Gen.GaussCond.sample id (fun _ _ => true) (fun _ x => x) (fun _ u => 2 * u) (· + 1) exRng exS 3 none
          = .ok [("a", [2, 4, 6]), ("b", [22, 24, 26])]
      ∧ counts ([2, 4, 6].zip [22, 24, 26] : List (Int × Int)) = { conc := 3, disc := 0, tieX := 0, tieY := 0, tieXY := 0 } := by
  refine ⟨by decide, by decide, ?_, by decide, by decide⟩
  intro a b h; show 2 * (a + 1) < 2 * (b + 1); omega

end Examples

end CopVerif.Props.C01b
