import CopVerif.Real.ClaytonDeriv
import CopVerif.Real.GumbelDeriv
import CopVerif.Real.Frank
import CopVerif.Real.Volume
/-!
# C07 — Copula density and conditional CDF are the derivatives of the CDF

Property theorems only, stated about the definitions GENERATED from the Python source
(`CopVerif.Gen.*` at ℝ).  `partial_derivative(u,v)` is `∂C/∂v`, `probability_density` is
`∂/∂u` of that.  Frank: see the second half (added when `Real/Frank*.lean` is in place).
-/
namespace CopVerif.Props.C07
open CopVerif

/-! ## Clayton (θ > 0) -/

theorem clayton_h_is_dC_dv {θ u v : ℝ} (hθ : 0 < θ) (hu : 0 < u) (hu1 : u ≤ 1) (hv : 0 < v)
    (hv1 : v ≤ 1) :
    HasDerivAt (fun v => Gen.Clayton.cdfRow θ u v) (Gen.Clayton.hRow θ u v) v := by
  have h := Clayton.hasDerivAt_C_right hθ hu hu1 hv hv1
  simpa only [Clayton.bridge_cdfRow, Clayton.bridge_hRow] using h

theorem clayton_pdf_is_dh_du {θ u v : ℝ} (hθ : 0 < θ) (hu : 0 < u) (hu1 : u ≤ 1) (hv : 0 < v)
    (hv1 : v ≤ 1) :
    HasDerivAt (fun u => Gen.Clayton.hRow θ u v) (Gen.Clayton.pdfRow θ u v) u := by
  have h := Clayton.hasDerivAt_h_left hθ hu hu1 hv hv1
  simpa only [Clayton.bridge_pdfRow, Clayton.bridge_hRow] using h

theorem clayton_pdf_pos {θ u v : ℝ} (hθ : 0 < θ) (hu : 0 < u) (hu1 : u ≤ 1) (hv : 0 < v)
    (hv1 : v ≤ 1) : 0 < Gen.Clayton.pdfRow θ u v := by
  rw [Clayton.bridge_pdfRow]; exact Clayton.c_pos hθ hu hu1 hv hv1

theorem clayton_pdf_symm (θ u v : ℝ) : Gen.Clayton.pdfRow θ u v = Gen.Clayton.pdfRow θ v u := by
  simp only [Clayton.bridge_pdfRow]; exact Clayton.c_symm θ u v

theorem clayton_h_range {θ u v : ℝ} (hθ : 0 < θ) (hu : 0 < u) (hu1 : u ≤ 1) (hv : 0 < v) :
    0 ≤ Gen.Clayton.hRow θ u v ∧ Gen.Clayton.hRow θ u v ≤ 1 := by
  rw [Clayton.bridge_hRow]; exact Clayton.h_bounds hθ hu hu1 hv

theorem clayton_h_mono_u {θ u u' v : ℝ} (hθ : 0 < θ) (hu : 0 < u) (huu : u ≤ u') (hu1 : u' ≤ 1)
    (hv : 0 < v) : Gen.Clayton.hRow θ u v ≤ Gen.Clayton.hRow θ u' v := by
  simp only [Clayton.bridge_hRow]; exact Clayton.h_mono hθ hu huu hu1 hv

theorem clayton_h_at_one {θ v : ℝ} (hθ : 0 < θ) (hv : 0 < v) : Gen.Clayton.hRow θ 1 v = 1 := by
  rw [Clayton.bridge_hRow]; exact Clayton.h_one_left hθ hv

theorem clayton_h_tendsto_zero {θ v : ℝ} (hθ : 0 < θ) (hv : 0 < v) :
    Filter.Tendsto (fun u => Gen.Clayton.hRow θ u v) (nhdsWithin 0 (Set.Ioi 0)) (nhds 0) := by
  have h := Clayton.h_tendsto_zero hθ hv
  simpa only [Clayton.bridge_hRow] using h

/-- Each row of a batch is evaluated independently (every batch, every θ > 0). Over ℝ the
`(A == inf).any()` shortcut of `partial_derivative` is dead; `clayton_no_overflow` below is what
makes it dead in binary64 on the property's domain. -/
theorem clayton_pdf_row_independent {θ : ℝ} (hθ : 0 < θ) (xs : List (ℝ × ℝ)) :
    Gen.Clayton.pdf θ xs = .ok (xs.map fun p => Gen.Clayton.pdfRow θ p.1 p.2) := by
  rw [Clayton.pdf_rowwise hθ]; simp only [Clayton.bridge_pdfRow]

theorem clayton_h_row_independent {θ : ℝ} (hθ : 0 < θ) (xs : List (ℝ × ℝ)) :
    Gen.Clayton.h θ xs = .ok (xs.map fun p => Gen.Clayton.hRow θ p.1 p.2) := by
  rw [Clayton.h_rowwise hθ]; simp only [Clayton.bridge_hRow]

/-- On the property's domain (`θ ≤ 8`, `v ≥ 1e-4`) the quantity tested against `inf` is at most
`1e36`, far below the binary64 overflow threshold. -/
theorem clayton_no_overflow {θ v : ℝ} (hθ : 0 < θ) (hθ8 : θ ≤ 8) (hv : 1 / 10000 ≤ v) (hv1 : v ≤ 1) :
    v ^ (-θ - 1) ≤ 10 ^ 36 := Clayton.no_overflow hθ hθ8 hv hv1

/-! ## Gumbel (θ > 1 through the closed forms; θ = 1 through the repaired shortcuts) -/

theorem gumbel_h_is_dC_dv {θ u v : ℝ} (hθ : 1 < θ) (hu : 0 < u) (hu1 : u < 1) (hv : 0 < v)
    (hv1 : v < 1) :
    HasDerivAt (fun v => Gen.Gumbel.cdfPt θ u v) (Gen.Gumbel.hRow θ u v) v := by
  have h := Gumbel.hasDerivAt_C_right hθ hu hu1 hv hv1
  have e : (fun v => Gen.Gumbel.cdfPt θ u v) = fun v => Gumbel.C θ u v := by
    funext w; rw [Gumbel.bridge_cdfPt]; simp [hθ.ne']
  rw [e, Gumbel.bridge_hRow hθ.ne']; exact h

theorem gumbel_pdf_is_dh_du {θ u v : ℝ} (hθ : 1 < θ) (hu : 0 < u) (hu1 : u < 1) (hv : 0 < v)
    (hv1 : v < 1) :
    HasDerivAt (fun u => Gen.Gumbel.hRow θ u v) (Gen.Gumbel.pdfRow θ u v) u := by
  have h := Gumbel.hasDerivAt_h_left hθ hu hu1 hv hv1
  have e : (fun u => Gen.Gumbel.hRow θ u v) = fun u => Gumbel.h θ u v := by
    funext w; exact Gumbel.bridge_hRow hθ.ne' w v
  rw [e, Gumbel.bridge_pdfRow hθ.ne']; exact h

theorem gumbel_pdf_pos {θ u v : ℝ} (hθ : 1 < θ) (hu : 0 < u) (hu1 : u < 1) (hv : 0 < v)
    (hv1 : v < 1) : 0 < Gen.Gumbel.pdfRow θ u v := by
  rw [Gumbel.bridge_pdfRow hθ.ne']; exact Gumbel.c_pos hθ.le hu hu1 hv hv1

theorem gumbel_pdf_symm {θ : ℝ} (hθ : 1 < θ) (u v : ℝ) :
    Gen.Gumbel.pdfRow θ u v = Gen.Gumbel.pdfRow θ v u := by
  simp only [Gumbel.bridge_pdfRow hθ.ne']; exact Gumbel.c_symm θ u v

theorem gumbel_h_range {θ u v : ℝ} (hθ : 1 < θ) (hu : 0 < u) (hu1 : u < 1) (hv : 0 < v)
    (hv1 : v < 1) : 0 ≤ Gen.Gumbel.hRow θ u v ∧ Gen.Gumbel.hRow θ u v ≤ 1 := by
  rw [Gumbel.bridge_hRow hθ.ne']; exact Gumbel.h_mem_unit hθ.le hu hu1 hv hv1

theorem gumbel_pdf_row_independent {θ : ℝ} (hθ : 1 < θ) (xs : List (ℝ × ℝ)) :
    Gen.Gumbel.pdf θ xs = .ok (xs.map fun p => Gen.Gumbel.pdfRow θ p.1 p.2) := by
  rw [Gumbel.pdf_rowwise hθ]; simp only [Gumbel.bridge_pdfRow hθ.ne']

theorem gumbel_h_row_independent {θ : ℝ} (hθ : 1 < θ) (xs : List (ℝ × ℝ)) :
    Gen.Gumbel.h θ xs = .ok (xs.map fun p => Gen.Gumbel.hRow θ p.1 p.2) := by
  rw [Gumbel.h_rowwise hθ]; simp only [Gumbel.bridge_hRow hθ.ne']

/-- θ = 1 (τ = 0, reachable through `fit`): the shortcut of `partial_derivative` returns `u`, the
`v`-derivative of the θ = 1 CDF `u·v`.  (Before `fix: Gumbel theta == 1 shortcuts …` it returned
`v`; a regression to that breaks this theorem.) -/
theorem gumbel_h_theta_one (u v : ℝ) :
    Gen.Gumbel.h (1 : ℝ) [(u, v)] = .ok [u] ∧
      Gen.Gumbel.cdf (1 : ℝ) [(u, v)] = .ok [u * v] ∧
      HasDerivAt (fun v => u * v) u v := Gumbel.h_theta_one_is_derivative u v

/-- θ = 1: the density shortcut returns 1 = ∂²(u·v)/∂u∂v, as the general formula does. -/
theorem gumbel_pdf_theta_one (u v : ℝ) :
    Gen.Gumbel.pdf (1 : ℝ) [(u, v)] = .ok [1] ∧ HasDerivAt (fun u' : ℝ => u') 1 u :=
  Gumbel.pdf_theta_one_is_derivative u v

/-- Row independence for every admissible θ ≥ 1 (θ = 1 included) on the open unit square, against
the single closed form. -/
theorem gumbel_rows_all_theta {θ : ℝ} (hθ : 1 ≤ θ) (xs : List (ℝ × ℝ))
    (hdom : ∀ p ∈ xs, 0 < p.1 ∧ p.1 < 1 ∧ 0 < p.2 ∧ p.2 < 1) :
    Gen.Gumbel.h θ xs = .ok (xs.map fun p => Gumbel.h θ p.1 p.2) ∧
      Gen.Gumbel.pdf θ xs = .ok (xs.map fun p => Gumbel.c θ p.1 p.2) :=
  ⟨Gumbel.h_rowwise_ge_one hθ xs hdom, Gumbel.pdf_rowwise_ge_one hθ xs hdom⟩

/-! ## Frank (every θ ≠ 0; on `[0,1] × ℝ`, which contains the property's open square) -/

theorem frank_h_is_dC_dv {θ u : ℝ} (hθ : θ ≠ 0) (hu : 0 ≤ u) (hu1 : u ≤ 1) (v : ℝ) :
    HasDerivAt (fun v => Gen.Frank.cdfRow θ u v) (Gen.Frank.hRow θ u v) v := by
  have h := Frank.hasDerivAt_C_right hθ hu hu1 v
  simpa only [Frank.bridge_cdfRow, Frank.bridge_hRow] using h

theorem frank_pdf_is_dh_du {θ u : ℝ} (hθ : θ ≠ 0) (hu : 0 ≤ u) (hu1 : u ≤ 1) (v : ℝ) :
    HasDerivAt (fun u => Gen.Frank.hRow θ u v) (Gen.Frank.pdfRow θ u v) u := by
  have h := Frank.hasDerivAt_h_left hθ hu hu1 v
  simpa only [Frank.bridge_pdfRow, Frank.bridge_hRow] using h

theorem frank_pdf_pos {θ u : ℝ} (hθ : θ ≠ 0) (hu : 0 ≤ u) (hu1 : u ≤ 1) (v : ℝ) :
    0 < Gen.Frank.pdfRow θ u v := by
  rw [Frank.bridge_pdfRow]; exact Frank.c_pos hθ hu hu1 v

theorem frank_pdf_symm (θ u v : ℝ) : Gen.Frank.pdfRow θ u v = Gen.Frank.pdfRow θ v u := by
  simp only [Frank.bridge_pdfRow]; exact Frank.c_symm θ u v

theorem frank_h_range {θ u : ℝ} (hθ : θ ≠ 0) (hu : 0 ≤ u) (hu1 : u ≤ 1) (v : ℝ) :
    0 ≤ Gen.Frank.hRow θ u v ∧ Gen.Frank.hRow θ u v ≤ 1 := by
  rw [Frank.bridge_hRow]; exact Frank.h_mem_Icc hθ hu hu1 v

theorem frank_h_endpoints {θ : ℝ} (hθ : θ ≠ 0) (v : ℝ) :
    Gen.Frank.hRow θ 0 v = 0 ∧ Gen.Frank.hRow θ 1 v = 1 := by
  simp only [Frank.bridge_hRow]; exact ⟨Frank.h_zero_left θ v, Frank.h_one_left hθ v⟩

theorem frank_h_mono_u {θ u u' : ℝ} (hθ : θ ≠ 0) (hu : 0 ≤ u) (huu : u ≤ u') (hu1 : u' ≤ 1)
    (v : ℝ) : Gen.Frank.hRow θ u v ≤ Gen.Frank.hRow θ u' v := by
  simp only [Frank.bridge_hRow]; exact Frank.h_mono_left hθ hu huu hu1 v

theorem frank_pdf_row_independent {θ : ℝ} (hθ : θ ≠ 0) (xs : List (ℝ × ℝ)) :
    Gen.Frank.pdf θ xs = .ok (xs.map fun p => Gen.Frank.pdfRow θ p.1 p.2) := by
  rw [Frank.pdf_rowwise hθ]; simp only [Frank.bridge_pdfRow]

theorem frank_h_row_independent {θ : ℝ} (hθ : θ ≠ 0) (xs : List (ℝ × ℝ)) :
    Gen.Frank.h θ xs = .ok (xs.map fun p => Gen.Frank.hRow θ p.1 p.2) := by
  rw [Frank.h_rowwise hθ]; simp only [Frank.bridge_hRow]

/-- The density integrates (in `v`) the conditional CDF back to the CDF: `∫ₐᵇ h(u,t) dt = C(u,b) − C(u,a)`;
with `frank_pdf_is_dh_du` this is the rectangle-volume clause, one integral at a time. -/
theorem frank_h_integrates_to_cdf {θ u : ℝ} (hθ : θ ≠ 0) (hu : 0 ≤ u) (hu1 : u ≤ 1) (a b : ℝ) :
    ∫ t in a..b, Gen.Frank.hRow θ u t = Gen.Frank.cdfRow θ u b - Gen.Frank.cdfRow θ u a := by
  simp only [Frank.bridge_hRow, Frank.bridge_cdfRow]; exact Frank.integral_h_sub hθ hu hu1 a b

/-! ## The density integrates over any rectangle to that rectangle's C-volume -/

theorem frank_pdf_integrates_to_volume {θ u₁ u₂ : ℝ} (hθ : θ ≠ 0) (h1 : 0 ≤ u₁) (h1' : u₁ ≤ 1)
    (h2 : 0 ≤ u₂) (h2' : u₂ ≤ 1) (v₁ v₂ : ℝ) :
    ∫ t in v₁..v₂, (∫ s in u₁..u₂, Gen.Frank.pdfRow θ s t)
      = Gen.Frank.cdfRow θ u₂ v₂ - Gen.Frank.cdfRow θ u₂ v₁ - Gen.Frank.cdfRow θ u₁ v₂
        + Gen.Frank.cdfRow θ u₁ v₁ := by
  simp only [Frank.bridge_pdfRow, Frank.bridge_cdfRow]
  exact Frank.integral_c_rect hθ h1 h1' h2 h2' v₁ v₂

/-- Clayton, on the closed unit square (the singular edges included through the code's own
boundary branch `C(0,v) = C(u,0) = 0`). -/
theorem clayton_pdf_integrates_to_volume {θ u₁ u₂ v₁ v₂ : ℝ} (hθ : 0 < θ) (h1 : 0 ≤ u₁)
    (h1' : u₁ ≤ 1) (h2 : 0 ≤ u₂) (h2' : u₂ ≤ 1) (hv₁ : 0 ≤ v₁) (hv₂ : 0 ≤ v₂) :
    ∫ t in v₁..v₂, (∫ s in u₁..u₂, Gen.Clayton.pdfRow θ s t)
      = Gen.Clayton.cdfRow θ u₂ v₂ - Gen.Clayton.cdfRow θ u₂ v₁ - Gen.Clayton.cdfRow θ u₁ v₂
        + Gen.Clayton.cdfRow θ u₁ v₁ := by
  simp only [Clayton.bridge_pdfRow, Clayton.bridge_cdfRow]
  exact Clayton.integral_c_rect hθ h1 h1' h2 h2' hv₁ hv₂

/-- Gumbel, every θ ≥ 1, rectangles inside `(0,1)×(0,1]` (closed form of the density). -/
theorem gumbel_pdf_integrates_to_volume {θ u₁ u₂ v₁ v₂ : ℝ} (hθ : 1 ≤ θ) (h1 : 0 < u₁) (h1' : u₁ < 1)
    (h2 : 0 < u₂) (h2' : u₂ < 1) (hv₁ : 0 < v₁) (hv₁' : v₁ ≤ 1) (hv₂ : 0 < v₂) (hv₂' : v₂ ≤ 1) :
    ∫ t in v₁..v₂, (∫ s in u₁..u₂, Gumbel.c θ s t)
      = Gen.Gumbel.cdfRow θ u₂ v₂ - Gen.Gumbel.cdfRow θ u₂ v₁ - Gen.Gumbel.cdfRow θ u₁ v₂
        + Gen.Gumbel.cdfRow θ u₁ v₁ := by
  simp only [Gumbel.bridge_cdfRow]
  exact Gumbel.integral_c_rect_of_pos hθ h1 h1' h2 h2' hv₁ hv₁' hv₂ hv₂'

/-- Total mass 1 for all three families. -/
theorem pdf_total_mass :
    (∀ θ : ℝ, θ ≠ 0 → ∫ t in (0:ℝ)..1, (∫ s in (0:ℝ)..1, Gen.Frank.pdfRow θ s t) = 1) ∧
    (∀ θ : ℝ, 0 < θ → ∫ t in (0:ℝ)..1, (∫ s in (0:ℝ)..1, Gen.Clayton.pdfRow θ s t) = 1) ∧
    (∀ θ : ℝ, 1 ≤ θ → ∫ t in (0:ℝ)..1, (∫ s in (0:ℝ)..1, Gumbel.c θ s t) = 1) := by
  refine ⟨fun θ h => ?_, fun θ h => ?_, fun θ h => Gumbel.integral_c_unit_square h⟩
  · simp only [Frank.bridge_pdfRow]; exact Frank.integral_c_unit_square h
  · simp only [Clayton.bridge_pdfRow]; exact Clayton.integral_c_unit_square h

/-! ## log_probability_density -/

/-- `log_probability_density` is literally the element-wise logarithm of `probability_density`
(base-class method), and no family overrides it or the `pdf/cdf/ppf` aliases. -/
theorem log_pdf_is_log (ps : List ℝ) :
    Gen.Base.logPdf ps = ps.map Real.log ∧ Gen.Base.aliasOverrides = [] := by
  constructor
  · simp [Gen.Base.logPdf]
  · rfl

example : (0:ℝ) < 2 ∧ (1:ℝ) < 2 ∧ (0:ℝ) < 1/2 ∧ (1/2:ℝ) < 1 := by norm_num

end CopVerif.Props.C07
