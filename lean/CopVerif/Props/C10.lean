import CopVerif.Real.Kendall
import CopVerif.Real.BivFit
/-!
# C10 — Bivariate fit calibrates theta to the data's Kendall tau or refuses

Property theorems only.  They are stated about

* the GENERATED calibration maps and admissible sets (`Gen.Clayton.computeTheta`,
  `Gen.Gumbel.computeTheta`, `Gen.Frank.tauResidual`, `Gen.*.thetaLower/thetaUpper/invalidThetas`),
* the hand-written model of `Bivariate.fit` (`Model.fit`, which *calls* the generated maps and
  tables; tied to base.py by the C10 correspondence run), and
* the executable tau-b model `Model.Kendall` (tied to `scipy.stats.kendalltau` by the same run).

`Model.fit fam frankSolve inp st` returns `(result, state left behind)`; `inp` carries what `fit`
reads off the data (column minima/maxima, `kendalltau`), `frankSolve` stands for Frank's
`least_squares` call.  Over ℝ there is no NaN, so the NaN-tau refusal is stated for an arbitrary
numeric type.

Limit case outside the property's quantifier (`tau in (-1,1)`): for Clayton `τ = 1` the code stores
`θ = +∞`, and both `check_theta` and `check_fit` accept it (`clayton_tau_one_inf`,
`clayton_accepts_iff_full`); `accepted_is_usable` covers it too (in the `check_fit` sense).
-/
namespace CopVerif.Props.C10
open CopVerif CopVerif.Model CopVerif.Model.Kendall

/-! ## tau ↦ theta: closed forms and their inverses -/

/-- Clayton: for `τ ≠ 1` the generated `compute_theta` returns `θ = 2τ/(1−τ)`, and the Clayton
Kendall tau of that θ, `θ/(θ+2)`, is τ. -/
theorem clayton_tau_roundtrip {τ θ : ℝ} (h : τ ≠ 1)
    (hc : Gen.Clayton.computeTheta τ = .ok (.fin θ)) :
    θ = 2 * τ / (1 - τ) ∧ θ / (θ + 2) = τ :=
  BivFit.clayton_roundtrip h hc

/-- the hypothesis of `clayton_tau_roundtrip` is met by every `τ ≠ 1` -/
theorem clayton_tau_computed {τ : ℝ} (h : τ ≠ 1) :
    Gen.Clayton.computeTheta τ = .ok (.fin (2 * τ / (1 - τ))) :=
  BivFit.clayton_computeTheta_of_ne_one h

/-- Gumbel: for `τ ≠ 1` the generated `compute_theta` returns `θ = 1/(1−τ)`, and the Gumbel
Kendall tau of that θ, `1 − 1/θ`, is τ. -/
theorem gumbel_tau_roundtrip {τ θ : ℝ} (h : τ ≠ 1)
    (hc : Gen.Gumbel.computeTheta τ = .ok (.fin θ)) :
    θ = 1 / (1 - τ) ∧ 1 - 1 / θ = τ :=
  BivFit.gumbel_roundtrip h hc

theorem gumbel_tau_computed {τ : ℝ} (h : τ ≠ 1) :
    Gen.Gumbel.computeTheta τ = .ok (.fin (1 / (1 - τ))) :=
  BivFit.gumbel_computeTheta_of_ne_one h

theorem gumbel_tau_one_refused : Gen.Gumbel.computeTheta (1 : ℝ) = .error .valueError :=
  BivFit.gumbel_computeTheta_one

theorem clayton_tau_one_inf : Gen.Clayton.computeTheta (1 : ℝ) = .ok .posInf :=
  BivFit.clayton_computeTheta_one

example : Gen.Clayton.computeTheta (1 / 2 : ℝ) = .ok (.fin 2) := by
  rw [clayton_tau_computed (by norm_num)]; norm_num

example : Gen.Gumbel.computeTheta (1 / 2 : ℝ) = .ok (.fin 2) := by
  rw [gumbel_tau_computed (by norm_num)]; norm_num

/-! ## admissibility: when does `fit` accept -/

/-- Clayton on the property's range `τ < 1`: `fit` succeeds iff all values are in `[0,1]` and
`0 < τ`.  (`τ = 0` gives `θ = 0 ∈ invalid_thetas`, `τ < 0` gives `θ < 0 ∉ theta_interval`:
both refused.) -/
theorem clayton_accepts_iff {s : ℝ → ℝ} {inp : FitInput ℝ} {st : FitState ℝ} (h1 : inp.tau < 1) :
    (fit .clayton s inp st).1 = .ok () ↔
      (0 ≤ inp.uMin ∧ inp.uMax ≤ 1 ∧ 0 ≤ inp.vMin ∧ inp.vMax ≤ 1) ∧ 0 < inp.tau :=
  BivFit.clayton_accepts_iff h1

/-- Clayton for every real τ (also `τ ≥ 1`): accepted iff in range and `0 < τ ≤ 1`. -/
theorem clayton_accepts_iff_full {s : ℝ → ℝ} {inp : FitInput ℝ} {st : FitState ℝ} :
    (fit .clayton s inp st).1 = .ok () ↔
      (0 ≤ inp.uMin ∧ inp.uMax ≤ 1 ∧ 0 ≤ inp.vMin ∧ inp.vMax ≤ 1) ∧ 0 < inp.tau ∧ inp.tau ≤ 1 :=
  BivFit.clayton_accepts_iff_full

/-- Gumbel, every real τ: `fit` succeeds iff all values are in `[0,1]` and `0 ≤ τ < 1`
(`τ < 0` gives `θ < 1`, `τ > 1` gives `θ < 0`, `τ = 1` raises in `compute_theta`). -/
theorem gumbel_accepts_iff {s : ℝ → ℝ} {inp : FitInput ℝ} {st : FitState ℝ} :
    (fit .gumbel s inp st).1 = .ok () ↔
      (0 ≤ inp.uMin ∧ inp.uMax ≤ 1 ∧ 0 ≤ inp.vMin ∧ inp.vMax ≤ 1) ∧ 0 ≤ inp.tau ∧ inp.tau < 1 :=
  BivFit.gumbel_accepts_iff

/-- Frank: `fit` succeeds iff all values are in `[0,1]` and the solver's θ is not `0`. -/
theorem frank_accepts_iff {s : ℝ → ℝ} {inp : FitInput ℝ} {st : FitState ℝ} :
    (fit .frank s inp st).1 = .ok () ↔
      (0 ≤ inp.uMin ∧ inp.uMax ≤ 1 ∧ 0 ≤ inp.vMin ∧ inp.vMax ≤ 1) ∧ s inp.tau ≠ 0 :=
  BivFit.frank_accepts_iff

/- non-vacuity: τ = 1/2 accepted by Clayton and Gumbel, τ = −1/4 refused by both, τ = 0 refused by
   Clayton and accepted by Gumbel; Frank with a non-zero / zero solver result. -/
example (s : ℝ → ℝ) :
    (fit .clayton s ⟨0, 1, 0, 1, 1 / 2, false, false⟩ ⟨none, none⟩).1 = .ok () := by
  rw [clayton_accepts_iff (by norm_num)]; norm_num

example (s : ℝ → ℝ) :
    (fit .clayton s ⟨0, 1, 0, 1, -1 / 4, false, false⟩ ⟨none, none⟩).1 ≠ .ok () := by
  rw [Ne, clayton_accepts_iff (by norm_num)]; norm_num

example (s : ℝ → ℝ) :
    (fit .clayton s ⟨0, 1, 0, 1, 0, false, false⟩ ⟨none, none⟩).1 ≠ .ok () := by
  rw [Ne, clayton_accepts_iff (by norm_num)]; norm_num

example (s : ℝ → ℝ) :
    (fit .gumbel s ⟨0, 1, 0, 1, 1 / 2, false, false⟩ ⟨none, none⟩).1 = .ok () := by
  rw [gumbel_accepts_iff]; norm_num

example (s : ℝ → ℝ) :
    (fit .gumbel s ⟨0, 1, 0, 1, 0, false, false⟩ ⟨none, none⟩).1 = .ok () := by
  rw [gumbel_accepts_iff]; norm_num

example (s : ℝ → ℝ) :
    (fit .gumbel s ⟨0, 1, 0, 1, -1 / 4, false, false⟩ ⟨none, none⟩).1 ≠ .ok () := by
  rw [Ne, gumbel_accepts_iff]; norm_num

example : (fit .frank (fun _ : ℝ => (3 : ℝ)) ⟨0, 1, 0, 1, 1 / 3, false, false⟩ ⟨none, none⟩).1 = .ok () := by
  rw [frank_accepts_iff]; norm_num

example : (fit .frank (fun _ : ℝ => (0 : ℝ)) ⟨0, 1, 0, 1, 0, false, false⟩ ⟨none, none⟩).1 ≠ .ok () := by
  rw [Ne, frank_accepts_iff]; norm_num

/-! ## refusals -/

section anyNum
variable {α : Type} [Add α] [Sub α] [Mul α] [Div α] [Neg α] [LT α] [LE α]
  [DecidableLT α] [DecidableLE α] [NumFns α]

/-- For any numeric type (Float included), any family:
1. a value outside `[0,1]` in either column ⇒ `ValueError`, and the object's state is returned
   UNCHANGED;
2. marginals in range but `kendalltau` is NaN (constant column) ⇒ `ValueError`, with only `tau`
   written (`theta` untouched). -/
theorem refusals (fam : Family) (s : α → α) (inp : FitInput α) (st : FitState α) :
    ((inp.uMin < NumFns.ofNat 0 ∨ NumFns.ofNat 1 < inp.uMax ∨
        inp.vMin < NumFns.ofNat 0 ∨ NumFns.ofNat 1 < inp.vMax) →
      fit fam s inp st = (.error .valueError, st)) ∧
    (¬ (inp.uMin < NumFns.ofNat 0 ∨ NumFns.ofNat 1 < inp.uMax ∨
        inp.vMin < NumFns.ofNat 0 ∨ NumFns.ofNat 1 < inp.vMax) →
      NumFns.isNaN inp.tau = true →
      fit fam s inp st = (.error .valueError, { st with tau := some inp.tau })) :=
  ⟨fun h => BivFit.fit_of_margBad h, fun hm hn => BivFit.fit_of_nan hm hn⟩

/-- Whatever `fit` raises is a `ValueError` (never `NotFittedError`, never another kind). -/
theorem refusal_is_valueError {fam : Family} {s : α → α} {inp : FitInput α} {st : FitState α}
    {e : Err} (h : (fit fam s inp st).1 = .error e) : e = .valueError :=
  BivFit.error_is_valueError h

/-- Exactly which attributes have been written at each refusal point (any numeric type):
marginal check: none; NaN tau: `tau` only; Gumbel `τ = 1`: `tau` only; inadmissible θ: both `tau`
and the inadmissible `theta`.  Together with `refusals`/`fit_exits` these are all refusal points. -/
theorem state_on_refusal (fam : Family) (s : α → α) (inp : FitInput α) (st : FitState α) :
    let bad := inp.uMin < NumFns.ofNat 0 ∨ NumFns.ofNat 1 < inp.uMax ∨
        inp.vMin < NumFns.ofNat 0 ∨ NumFns.ofNat 1 < inp.vMax
    (bad → (fit fam s inp st).2 = st) ∧
    (¬ bad → NumFns.isNaN inp.tau = true →
      (fit fam s inp st).2 = { st with tau := some inp.tau }) ∧
    (¬ bad → NumFns.isNaN inp.tau = false → NumFns.beq inp.tau (NumFns.ofNat 1) = true →
      fit .gumbel s inp st = (.error .valueError, { st with tau := some inp.tau })) ∧
    (¬ bad → NumFns.isNaN inp.tau = false →
      ∀ θ, computeThetaFam fam s inp.tau = .ok θ → checkThetaB fam θ = false →
        fit fam s inp st = (.error .valueError, { tau := some inp.tau, theta := some θ })) := by
  intro bad
  refine ⟨fun h => ?_, fun hm hn => ?_, fun hm hn h1 => ?_, fun hm hn θ hc hk => ?_⟩
  · rw [BivFit.fit_of_margBad h]
  · rw [BivFit.fit_of_nan hm hn]; rfl
  · exact BivFit.gumbel_tau_one_state hm hn h1
  · rw [BivFit.fit_of_computed hm hn hc, hk]; rfl

/-- The five exits of `fit`, exhaustive and mutually exclusive (any numeric type): the four
refusal points with the state they leave, and acceptance. -/
theorem fit_exits (fam : Family) (s : α → α) (inp : FitInput α) (st : FitState α) :
    let bad := inp.uMin < NumFns.ofNat 0 ∨ NumFns.ofNat 1 < inp.uMax ∨
        inp.vMin < NumFns.ofNat 0 ∨ NumFns.ofNat 1 < inp.vMax
    (bad ∧ fit fam s inp st = (.error .valueError, st)) ∨
    (¬ bad ∧ NumFns.isNaN inp.tau = true ∧
      fit fam s inp st = (.error .valueError, { st with tau := some inp.tau })) ∨
    (¬ bad ∧ NumFns.isNaN inp.tau = false ∧
      ∃ e, computeThetaFam fam s inp.tau = .error e ∧
        fit fam s inp st = (.error e, { st with tau := some inp.tau })) ∨
    (¬ bad ∧ NumFns.isNaN inp.tau = false ∧
      ∃ θ, computeThetaFam fam s inp.tau = .ok θ ∧ checkThetaB fam θ = false ∧
        fit fam s inp st = (.error .valueError, { tau := some inp.tau, theta := some θ })) ∨
    (¬ bad ∧ NumFns.isNaN inp.tau = false ∧
      ∃ θ, computeThetaFam fam s inp.tau = .ok θ ∧ checkThetaB fam θ = true ∧
        fit fam s inp st = (.ok (), { tau := some inp.tau, theta := some θ })) :=
  BivFit.fit_cases fam s inp st

/-- If `fit` starts from an object whose `theta` is still `None` (the unfitted object
`{tau := none, theta := none}` in particular) and raises, then `check_fit` does not pass on the
state left behind: a refused fit cannot be used silently (either `theta` was not written, or the
stored θ is `0`/inadmissible).  Any numeric type. -/
theorem refused_not_usable {fam : Family} {s : α → α} {inp : FitInput α} {st : FitState α}
    {e : Err} (hst : st.theta = none) (h : (fit fam s inp st).1 = .error e) :
    usable fam (fit fam s inp st).2 ≠ .ok () :=
  BivFit.refused_not_usable hst h

/-- An accepted fit (any numeric type) has stored `tau = kendalltau(U,V)` and
`theta = compute_theta()`, and that θ passed `check_theta`. -/
theorem accepted_state {fam : Family} {s : α → α} {inp : FitInput α} {st : FitState α}
    (h : (fit fam s inp st).1 = .ok ()) :
    ∃ θ, computeThetaFam fam s inp.tau = .ok θ ∧ checkThetaB fam θ = true ∧
      (fit fam s inp st).2 = { tau := some inp.tau, theta := some θ } := by
  obtain ⟨_, _, θ, hc, hk, hs⟩ := BivFit.accepted_state h
  exact ⟨θ, hc, hk, hs⟩

end anyNum

/-- ℝ reading of the marginal refusal, with literal bounds. -/
theorem refusals_real (fam : Family) (s : ℝ → ℝ) (inp : FitInput ℝ) (st : FitState ℝ)
    (h : inp.uMin < 0 ∨ 1 < inp.uMax ∨ inp.vMin < 0 ∨ 1 < inp.vMax) :
    fit fam s inp st = (.error .valueError, st) :=
  BivFit.fit_of_margBad ((BivFit.margBad_real inp).2 h)

example (fam : Family) (s : ℝ → ℝ) (st : FitState ℝ) :
    fit fam s ⟨0, 1, 0, 3 / 2, 1 / 2, false, false⟩ st = (.error .valueError, st) :=
  refusals_real fam s _ st (by norm_num)

/- non-vacuity of the NaN hypothesis of `refusals`/`state_on_refusal` (vacuous over ℝ): at `Float`
   `0/0` is NaN and is neither `< 0` nor `> 1`. -/
#guard NumFns.isNaN ((0.0 : Float) / 0.0) && !decide ((0.0 : Float) / 0.0 < NumFns.ofNat 0)

/-- A successful fit never leaves a silently invalid model (ℝ, all three families): whenever
`fit` returns normally, `check_fit` passes on the state it leaves.  In particular the stored θ is
never `0`.  (This relies on `0 ∈ invalid_thetas` for Clayton and Frank and on Gumbel's lower end
`1`.) -/
theorem accepted_is_usable {fam : Family} {s : ℝ → ℝ} {inp : FitInput ℝ} {st : FitState ℝ}
    (h : (fit fam s inp st).1 = .ok ()) : usable fam (fit fam s inp st).2 = .ok () :=
  BivFit.accepted_is_usable h

/-- On the property's range (`τ ≠ 1`) the θ stored by an accepted fit is finite, non-zero, and is
the family's `compute_theta` of the stored tau. -/
theorem accepted_theta_finite {fam : Family} {s : ℝ → ℝ} {inp : FitInput ℝ} {st : FitState ℝ}
    (h : (fit fam s inp st).1 = .ok ()) (h1 : inp.tau ≠ 1) :
    ∃ θ : ℝ, (fit fam s inp st).2 = { tau := some inp.tau, theta := some (.fin θ) } ∧ θ ≠ 0 ∧
      computeThetaFam fam s inp.tau = .ok (.fin θ) :=
  BivFit.accepted_theta_finite h h1

/-- End-to-end for Clayton on `0 < τ < 1` with in-range data: accepted, and the stored θ has
theoretical Kendall tau equal to the stored tau. -/
theorem clayton_fit_calibrated {s : ℝ → ℝ} {inp : FitInput ℝ} {st : FitState ℝ}
    (hm : 0 ≤ inp.uMin ∧ inp.uMax ≤ 1 ∧ 0 ≤ inp.vMin ∧ inp.vMax ≤ 1) (h0 : 0 < inp.tau)
    (h1 : inp.tau < 1) :
    ∃ θ : ℝ, fit .clayton s inp st = (.ok (), { tau := some inp.tau, theta := some (.fin θ) }) ∧
      0 < θ ∧ θ / (θ + 2) = inp.tau := by
  have hacc : (fit .clayton s inp st).1 = .ok () := (clayton_accepts_iff h1).2 ⟨hm, h0⟩
  obtain ⟨θ, hs, _, hc⟩ := accepted_theta_finite hacc h1.ne
  have hk : checkThetaB .clayton (.fin θ) = true := by
    obtain ⟨θ', hc', hk', _⟩ := accepted_state hacc
    rw [hc] at hc'; cases hc'; exact hk'
  refine ⟨θ, Prod.ext hacc hs, (BivFit.clayton_checkThetaB_fin θ).1 hk, ?_⟩
  exact (clayton_tau_roundtrip h1.ne hc).2

/-- End-to-end for Gumbel on `0 ≤ τ < 1` with in-range data. -/
theorem gumbel_fit_calibrated {s : ℝ → ℝ} {inp : FitInput ℝ} {st : FitState ℝ}
    (hm : 0 ≤ inp.uMin ∧ inp.uMax ≤ 1 ∧ 0 ≤ inp.vMin ∧ inp.vMax ≤ 1) (h0 : 0 ≤ inp.tau)
    (h1 : inp.tau < 1) :
    ∃ θ : ℝ, fit .gumbel s inp st = (.ok (), { tau := some inp.tau, theta := some (.fin θ) }) ∧
      1 ≤ θ ∧ 1 - 1 / θ = inp.tau := by
  have hacc : (fit .gumbel s inp st).1 = .ok () := gumbel_accepts_iff.2 ⟨hm, h0, h1⟩
  obtain ⟨θ, hs, _, hc⟩ := accepted_theta_finite hacc h1.ne
  have hk : checkThetaB .gumbel (.fin θ) = true := by
    obtain ⟨θ', hc', hk', _⟩ := accepted_state hacc
    rw [hc] at hc'; cases hc'; exact hk'
  refine ⟨θ, Prod.ext hacc hs, (BivFit.gumbel_checkThetaB_fin θ).1 hk, ?_⟩
  exact (gumbel_tau_roundtrip h1.ne hc).2

/-! ## Frank: what the solver solves -/

/-- The residual passed to `least_squares` vanishes at `a` iff `τ(a) = τ`, where
`τ(a) = 1 + 4 (D₁(a) − 1)/a` and `D₁(a) = quad(t/(eᵗ−1), ε, a)/a` (`quad` = `integrate.quad(...)[0]`).
That `least_squares` returns such a zero is an external hypothesis (checked at run time). -/
theorem frank_residual_zero_iff (quad : (ℝ → ℝ) → ℝ → ℝ → ℝ) (ε τ a : ℝ) :
    Gen.Frank.tauResidual quad ε τ a = 0 ↔
      1 + 4 * (quad Gen.Frank.debyeIntegrand ε a / a - 1) / a = τ :=
  BivFit.frank_residual_zero_iff quad ε τ a

/-- The generated Debye integrand is `t/(eᵗ−1)` and lies in `(0,1)` for `t > 0`. -/
theorem debye_integrand_pos {t : ℝ} (ht : 0 < t) :
    Gen.Frank.debyeIntegrand t = t / (Real.exp t - 1) ∧
      0 < Gen.Frank.debyeIntegrand t ∧ Gen.Frank.debyeIntegrand t < 1 :=
  ⟨BivFit.debyeIntegrand_eq t, BivFit.debyeIntegrand_pos ht, BivFit.debyeIntegrand_lt_one ht⟩

/-- PARTIAL (uniqueness of the calibrated θ).  With `quad` read as the exact interval integral and a
lower limit `ε > 0` (the code's `EPSILON`), the residual `a ↦ τ(a) − τ` passed to `least_squares`
is strictly increasing on `[ε, ∞)`.
Missing for the full claim "τ(θ) is strictly monotone on ℝ∖{0}": (i) the negative branch `a < 0` —
not proved; note (unproved remark) that with the code's lower limit `ε > 0` instead of `0` one has
`τ(a) ≈ 1 − 4/a − 4c/a²` with `c = ∫_0^ε > 0` as `a → 0⁻`, so the residual cannot be monotone on
the whole of `(−∞, 0)`, only away from a `2c`-neighbourhood of `0`;
(ii) existence of a root, i.e. the range of `τ(·)`; (iii) `integrate.quad` and `least_squares`
accuracy are external hypotheses. -/
theorem frank_tau_monotone_partial {ε τ : ℝ} (hε : 0 < ε) :
    StrictMonoOn
      (fun a => Gen.Frank.tauResidual (fun f lo hi => ∫ t in lo..hi, f t) ε τ a) (Set.Ici ε) := by
  have h : (fun a => Gen.Frank.tauResidual (fun f lo hi => ∫ t in lo..hi, f t) ε τ a)
      = BivFit.T ε τ := by
    funext a; exact BivFit.bridge_tauResidual ε τ a
  rw [h]; exact BivFit.T_strictMonoOn hε

/-- PARTIAL: hence at most one `θ ≥ ε` calibrates a given τ (same reading, same gaps as
`frank_tau_monotone_partial`). -/
theorem frank_theta_unique_partial {ε τ a b : ℝ} (hε : 0 < ε) (ha : ε ≤ a) (hb : ε ≤ b)
    (ra : Gen.Frank.tauResidual (fun f lo hi => ∫ t in lo..hi, f t) ε τ a = 0)
    (rb : Gen.Frank.tauResidual (fun f lo hi => ∫ t in lo..hi, f t) ε τ b = 0) : a = b :=
  BivFit.frank_root_unique hε ha hb ra rb

/-! ## the tau-b model (shared with C01) -/

section taub
variable {α : Type} [LinearOrder α] [DecidableLT α]

/-- Every pair is concordant, discordant or tied in a coordinate; concordant + discordant pairs are
at most `npairs − tiedX` and `npairs − tiedY`; hence `(conc − disc)² ≤ (npairs − tiedX)(npairs − tiedY)`
and `|tau-b| ≤ 1` whenever tau-b is defined (neither column constant).  Any list length. -/
theorem taub_bounds (xs : List (α × α)) :
    conc xs + disc xs + Kendall.tiedAny xs = npairs xs ∧
    conc xs + disc xs ≤ npairs xs - tiedX xs ∧
    conc xs + disc xs ≤ npairs xs - tiedY xs ∧
    ((conc xs : ℤ) - disc xs) ^ 2 ≤ ((npairs xs : ℤ) - tiedX xs) * ((npairs xs : ℤ) - tiedY xs) ∧
    2 * npairs xs = xs.length * (xs.length - 1) ∧
    (tiedX xs < npairs xs → tiedY xs < npairs xs → |tauB (β := ℝ) xs| ≤ 1) :=
  ⟨Kendall.partition xs, Kendall.conc_add_disc_le_sub_tiedX xs, Kendall.conc_add_disc_le_sub_tiedY xs,
    Kendall.sq_le_denominator xs, Kendall.two_mul_npairs xs, Kendall.abs_tauB_le_one xs⟩

/-- Swapping the two columns leaves `conc`, `disc`, `npairs` unchanged and exchanges `tiedX` and
`tiedY` (so tau-b is symmetric). -/
theorem taub_symm (xs : List (α × α)) :
    conc (xs.map Prod.swap) = conc xs ∧ disc (xs.map Prod.swap) = disc xs ∧
    tiedX (xs.map Prod.swap) = tiedY xs ∧ tiedY (xs.map Prod.swap) = tiedX xs ∧
    npairs (xs.map Prod.swap) = npairs xs ∧
    tauB (β := ℝ) (xs.map Prod.swap) = tauB (β := ℝ) xs := by
  refine ⟨Kendall.conc_swap xs, Kendall.disc_swap xs, Kendall.tiedX_swap xs, Kendall.tiedY_swap xs,
    Kendall.npairs_swap xs, ?_⟩
  rw [Kendall.tauB_real, Kendall.tauB_real, Kendall.conc_swap, Kendall.disc_swap,
    Kendall.tiedX_swap, Kendall.tiedY_swap, Kendall.npairs_swap, mul_comm]

/-- Strictly increasing data: all pairs concordant, tau-b = 1 (n ≥ 2). -/
theorem taub_monotone_data {xs : List (α × α)}
    (h : xs.Pairwise (fun p q => p.1 < q.1 ∧ p.2 < q.2)) :
    disc xs = 0 ∧ tiedX xs = 0 ∧ tiedY xs = 0 ∧ conc xs = npairs xs ∧
      (2 ≤ xs.length → tauB (β := ℝ) xs = 1) := by
  obtain ⟨a, b, c, d⟩ := Kendall.monotone_data h
  exact ⟨a, b, c, d, Kendall.tauB_monotone_data h⟩

/-- Strictly antimonotone data: all pairs discordant, tau-b = −1 (n ≥ 2). -/
theorem taub_antimonotone_data {xs : List (α × α)}
    (h : xs.Pairwise (fun p q => p.1 < q.1 ∧ q.2 < p.2)) :
    conc xs = 0 ∧ tiedX xs = 0 ∧ tiedY xs = 0 ∧ disc xs = npairs xs ∧
      (2 ≤ xs.length → tauB (β := ℝ) xs = -1) := by
  obtain ⟨a, b, c, d⟩ := Kendall.antimonotone_data h
  exact ⟨a, b, c, d, Kendall.tauB_antimonotone_data h⟩

example : [((1 : ℝ), (5 : ℝ)), (2, 7), (4, 9)].Pairwise (fun p q => p.1 < q.1 ∧ p.2 < q.2) := by
  simp; norm_num

example : [((1 : ℝ), (9 : ℝ)), (2, 7), (4, 5)].Pairwise (fun p q => p.1 < q.1 ∧ q.2 < p.2) := by
  simp; norm_num

/-- Strictly increasing transformations of the two margins change none of the five counts (hence
not tau-b). -/
theorem taub_invariant {α' : Type} [LinearOrder α'] [DecidableLT α'] {f g : α → α'}
    (hf : StrictMono f) (hg : StrictMono g) (xs : List (α × α)) :
    conc (xs.map fun p => (f p.1, g p.2)) = conc xs ∧
    disc (xs.map fun p => (f p.1, g p.2)) = disc xs ∧
    tiedX (xs.map fun p => (f p.1, g p.2)) = tiedX xs ∧
    tiedY (xs.map fun p => (f p.1, g p.2)) = tiedY xs ∧
    npairs (xs.map fun p => (f p.1, g p.2)) = npairs xs ∧
    tauB (β := ℝ) (xs.map fun p => (f p.1, g p.2)) = tauB (β := ℝ) xs := by
  obtain ⟨a, b, c, d, e⟩ := Kendall.invariant hf hg xs
  refine ⟨a, b, c, d, e, ?_⟩
  rw [Kendall.tauB_real, Kendall.tauB_real, a, b, c, d, e]

/-- A constant column ties every pair in that coordinate: `tiedX = npairs` (resp. `tiedY`), the
denominator of tau-b is `0` and tau-b is undefined — over ℝ's totalised division the model returns
`0`, at `Float` it returns NaN (`0/0`), which is when scipy returns NaN and `fit` raises
"Constant column.". -/
theorem taub_constant_column_undefined {xs : List (α × α)} {c : α} :
    ((∀ p ∈ xs, p.1 = c) → tiedX xs = npairs xs ∧ conc xs = 0 ∧ disc xs = 0 ∧
      ((npairs xs : ℝ) - tiedX xs) * ((npairs xs : ℝ) - tiedY xs) = 0) ∧
    ((∀ p ∈ xs, p.2 = c) → tiedY xs = npairs xs ∧ conc xs = 0 ∧ disc xs = 0 ∧
      ((npairs xs : ℝ) - tiedX xs) * ((npairs xs : ℝ) - tiedY xs) = 0) := by
  constructor
  · intro h
    have ht := Kendall.constant_column_x h
    have hb := Kendall.conc_disc_tiedX_le xs
    refine ⟨ht, by omega, by omega, ?_⟩
    rw [ht]; simp
  · intro h
    have ht := Kendall.constant_column_y h
    have hb := Kendall.conc_disc_tiedY_le xs
    refine ⟨ht, by omega, by omega, ?_⟩
    rw [ht]; simp

end taub

end CopVerif.Props.C10
