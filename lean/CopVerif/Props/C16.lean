import CopVerif.Lemmas.VineTotal
import CopVerif.Real.Inst
import CopVerif.Gen.Bivariate
/-!
# C16 — A fitted vine is a regular vine of the requested type and depth

Property theorems only.  They are about the hand-written model `CopVerif.Model.Vine` of
`copulas/multivariate/{tree,vine}.py` (tied to the real code on every run by
`tools/props/c16.py`): `trainVine vt d t cs` is `VineCopula.train_vine` on `d` columns with
`truncated = t`, where `cs` supplies, per tree, the tau matrix `Tree.fit` received and the
tie-breaking made where Python's is unspecified.  `trainVine … = .ok r` means: the choice sequence
is one the code could have made (every step accepted) and no exception was raised — so a theorem
with that hypothesis holds for EVERY accepted run.

`α` is any preorder with the numeric signature (`ℝ` in particular); nothing about the order of the
tau values is assumed beyond the hypotheses `ChoicesOK` (see there), which hold for every matrix
of real numbers in `(-10, ∞)`.
-/
set_option linter.unusedSimpArgs false
set_option linter.unusedSectionVars false
set_option linter.unusedVariables false
namespace CopVerif.Props.C16
open CopVerif CopVerif.Model.Vine

/-- the trees of a run (the model also returns every edge's `.tau`). -/
abbrev treesOf {α : Type} (r : List (Tree × List α)) : List Tree := r.map Prod.fst

section
variable {α : Type} [Preorder α] [DecidableLT α] [Neg α] [NumFns α]

/-! ## depth -/

/-- `len(self.trees) = max(1, min(d - 1, truncated))` — for every vine type, every data. -/
theorem tree_count {vt : VType} {d t : Nat} {cs : List (Choice α)} {r : List (Tree × List α)}
    (h : trainVine vt d t cs = .ok r) : r.length = max 1 (min (d - 1) t) := by
  have hrest : ∀ (fuel k : Nat) (prev : Tree) (cs : List (Choice α)) (r : List (Tree × List α)),
      trainRest vt d fuel k prev cs = .ok r → r.length = fuel := by
    intro fuel
    induction fuel with
    | zero => intro k prev cs r h; simp [trainRest] at h; subst h; rfl
    | succ n ih =>
      intro k prev cs r h
      cases cs with
      | nil => simp [trainRest] at h
      | cons c cs =>
        simp only [trainRest] at h
        rw [bind_eq_ok] at h
        obtain ⟨b, _, h⟩ := h
        rw [bind_eq_ok] at h
        obtain ⟨rest, hr, h⟩ := h
        simp only [pure, Except.pure, Except.ok.injEq] at h
        subst h
        simp [ih _ _ _ _ hr]
  cases cs with
  | nil => simp [trainVine] at h
  | cons c cs =>
    simp only [trainVine] at h
    rw [bind_eq_ok] at h
    obtain ⟨b, _, h⟩ := h
    rw [bind_eq_ok] at h
    obtain ⟨rest, hr, h⟩ := h
    simp only [pure, Except.pure, Except.ok.injEq] at h
    subst h
    simp [hrest _ _ _ _ _ hr]; omega

/-- for `d ≥ 2` columns and truncation `t ≥ 1` that is `min (d-1) t ≥ 1` trees. -/
theorem tree_count_min {vt : VType} {d t : Nat} {cs : List (Choice α)} {r : List (Tree × List α)}
    (hd : 2 ≤ d) (ht : 1 ≤ t) (h : trainVine vt d t cs = .ok r) :
    r.length = min (d - 1) t ∧ 1 ≤ r.length := by
  have := tree_count h; omega

/-! ## the vine structure, all three types -/

/-- **Main structure theorem.**  For every vine type, `d ≥ 2`, truncation, tau data (`ChoicesOK`)
    and every accepted run: tree `k` (0-based) is a spanning tree by growth order on its `d - k`
    nodes; every first-tree edge joins two different variables `< d` with empty conditioning set;
    every later edge has two different parents among the edges of the previous tree that share a
    node (**proximity**), its conditioned pair `L < R` is the symmetric difference and its
    conditioning set (`k` elements) the intersection of the parents' variable sets. -/
theorem vine_structure {vt : VType} {d t : Nat} {cs : List (Choice α)} {r : List (Tree × List α)}
    (hd : 2 ≤ d) (hcs : ChoicesOK vt d 0 cs) (h : trainVine vt d t cs = .ok r) :
    TreesSpec d 0 none (treesOf r) :=
  (trainVine_spec hd hcs h).2.1

/-- tree `k` has `d - k - 1` edges (on `d - k` nodes). -/
theorem edge_count {vt : VType} {d t : Nat} {cs : List (Choice α)} {r : List (Tree × List α)}
    (hd : 2 ≤ d) (hcs : ChoicesOK vt d 0 cs) (h : trainVine vt d t cs = .ok r)
    (k : Nat) (hk : k < (treesOf r).length) : ((treesOf r)[k]).length + 1 = d - k :=
  ((vine_structure hd hcs h).levelInv k hk).2

/-- every tree is a spanning tree by a growth order (its own edge order), hence connected: every
    node is reachable from the root along the edges. -/
theorem spanning {vt : VType} {d t : Nat} {cs : List (Choice α)} {r : List (Tree × List α)}
    (hd : 2 ≤ d) (hcs : ChoicesOK vt d 0 cs) (h : trainVine vt d t cs = .ok r)
    (k : Nat) (hk : k < (treesOf r).length) :
    let pairs := ((treesOf r)[k]).map (Edge.ends (k == 0))
    SpanningTree (d - k) pairs ∧ ∃ root, root < d - k ∧ ∀ v, v < d - k → Reach pairs root v := by
  obtain ⟨hinv, hlen⟩ := (vine_structure hd hcs h).levelInv k hk
  have hs := hinv.span
  have hf : (prevOf (treesOf r) k).isNone = (k == 0) := hinv.first_iff
  rw [hf, hlen] at hs
  exact ⟨hs, hs.connected⟩

end

/-- what `TreesSpec` says about tree `k + 1` of a vine structure. -/
theorem kthEdgeAt_of_spec {d : Nat} {trees : List Tree} (hspec : TreesSpec d 0 none trees)
    (k : Nat) (hk : k + 1 < trees.length) (e : Edge) (he : e ∈ trees[k + 1]) :
    ∃ i j, KthEdgeAt (k + 1) (trees[k]'(by omega)) e i j := by
  cases trees with
  | nil => simp at hk
  | cons t0 rest =>
    obtain ⟨_, hrest⟩ := hspec
    have hk' : k < rest.length := by simpa using hk
    obtain ⟨_, hedges⟩ := TreesSpec.spanning_aux rest 0 t0 hrest k hk'
    simp only [List.getElem_cons_succ] at he
    obtain ⟨i, j, hat⟩ := hedges e he
    have hprev : (t0 :: rest).getD k default = (t0 :: rest)[k]'(by simp; omega) :=
      getD_eq_getElem' _ (by simp; omega)
    rw [hprev, show 0 + 1 + k = k + 1 by omega] at hat
    exact ⟨i, j, hat⟩

/-- **proximity**: in a vine structure — by `vine_structure`: in the result of every accepted run,
    of all three types — every edge of tree `k + 1` joins two different edges of tree `k` that
    share a node.  (Center: all edges share the centre; direct: consecutive edges of a path;
    regular: through `_check_constraint`, see `checkConstraint_iff_proximity`.) -/
theorem proximity {d : Nat} {trees : List Tree} (hspec : TreesSpec d 0 none trees)
    (k : Nat) (hk : k + 1 < trees.length) (e : Edge) (he : e ∈ trees[k + 1]) :
    ∃ i j, e.parents = some (i, j) ∧ i ≠ j ∧ i < (trees[k]'(by omega)).length ∧
      j < (trees[k]'(by omega)).length ∧
      ShareNode (k == 0) ((trees[k]'(by omega)).getD i default)
        ((trees[k]'(by omega)).getD j default) := by
  obtain ⟨i, j, hat⟩ := kthEdgeAt_of_spec hspec k hk e he
  refine ⟨i, j, hat.parents, hat.ne, hat.hi, hat.hj, ?_⟩
  have := hat.proximity
  have hb : ((k + 1 == 1) : Bool) = (k == 0) := by rw [Bool.eq_iff_iff]; simp
  rw [hb] at this
  exact this

/-- conditioned and conditioning sets of every edge of tree `k + 1` of a vine structure: two
    different variables `L < R` = the symmetric difference, `D` (`k + 1` elements) = the
    intersection of the parents' variable sets. -/
theorem edge_sets {d : Nat} {trees : List Tree} (hspec : TreesSpec d 0 none trees)
    (k : Nat) (hk : k + 1 < trees.length) (e : Edge) (he : e ∈ trees[k + 1]) :
    ∃ i j, e.parents = some (i, j) ∧ e.L < e.R ∧ e.D.length = k + 1 ∧
      symDiff ((trees[k]'(by omega)).getD i default).vars
        ((trees[k]'(by omega)).getD j default).vars = [e.L, e.R] ∧
      e.D = inter ((trees[k]'(by omega)).getD i default).vars
        ((trees[k]'(by omega)).getD j default).vars := by
  obtain ⟨i, j, hat⟩ := kthEdgeAt_of_spec hspec k hk e he
  refine ⟨i, j, hat.parents, hat.lt, hat.card, ?_, ?_⟩
  · exact sorted_pair_of_mem (sorted_symDiff _ _) hat.lt (by
      intro a; rw [mem_symDiff]; exact (hat.conditioned a).symm)
  · exact sorted_ext hat.sortedD (sorted_inter _ (Edge.sorted_vars _)) (by
      intro a; rw [mem_inter]; exact hat.conditioning a)

/-! ## `_identify_eds_ing`, `_check_constraint` -/

/-- **`identify_spec`** (set form).  If two edges have `m + 1` variables each, different variable
    sets, and both contain the `m` variables `C` of a common node, then `_identify_eds_ing`
    does not raise, `|A △ B| = 2` (returned as `l < r`), and the conditioning set `A ∩ B` is `C`
    (`m` elements). -/
theorem identify_spec {p q : Edge} {C : List Nat} {m : Nat}
    (hp : p.vars.length = m + 1) (hq : q.vars.length = m + 1) (hC : C.Nodup)
    (hCl : C.length = m) (hCp : C ⊆ p.vars) (hCq : C ⊆ q.vars) (hne : p.vars ≠ q.vars) :
    ∃ l r, identify p q = .ok (l, r, inter p.vars q.vars) ∧ l < r ∧
      symDiff p.vars q.vars = [l, r] ∧
      (inter p.vars q.vars).length = m ∧ ∀ a, a ∈ inter p.vars q.vars ↔ a ∈ C :=
  identify_spec_sets hp hq hC hCl hCp hCq hne

/-- **`identify_spec` in a vine**: in ANY vine structure (model output or a checked real vine), two
    different edges of tree `k` that share a node are valid parents: `_identify_eds_ing` succeeds
    with `|A △ B| = 2` and `|A ∩ B| = k + 1`. -/
theorem identify_spec_vine {d : Nat} {trees : List Tree} (h : TreesSpec d 0 none trees)
    (k : Nat) (hk : k < trees.length) {i j : Nat} (hi : i < trees[k].length)
    (hj : j < trees[k].length) (hij : i ≠ j)
    (hs : ShareNode (k == 0) (trees[k].getD i default) (trees[k].getD j default)) :
    ∃ l r, identify (trees[k].getD i default) (trees[k].getD j default) =
        .ok (l, r, inter (trees[k].getD i default).vars (trees[k].getD j default).vars) ∧ l < r ∧
      symDiff (trees[k].getD i default).vars (trees[k].getD j default).vars = [l, r] ∧
      (inter (trees[k].getD i default).vars (trees[k].getD j default).vars).length = k + 1 := by
  obtain ⟨hinv, _⟩ := h.levelInv k hk
  have hf : (prevOf trees k).isNone = (k == 0) := hinv.first_iff
  exact hinv.identify_of_share hi hj hij (hf ▸ hs)

/-- **`_check_constraint` ⇔ proximity on regular-vine inputs**: for two different edges of tree
    `k` of any vine structure, `len(full_node) == level + 1` (with `level = k + 2`, the tree being
    built) holds exactly when the two edges share a node. -/
theorem checkConstraint_iff_proximity {d : Nat} {trees : List Tree}
    (h : TreesSpec d 0 none trees) (k : Nat) (hk : k < trees.length) {i j : Nat}
    (hi : i < trees[k].length) (hj : j < trees[k].length) (hij : i ≠ j) :
    checkConstraint (k + 2) (trees[k].getD i default) (trees[k].getD j default) = true ↔
      ShareNode (k == 0) (trees[k].getD i default) (trees[k].getD j default) := by
  obtain ⟨hinv, _⟩ := h.levelInv k hk
  have hf : (prevOf trees k).isNone = (k == 0) := hinv.first_iff
  rw [← hf]
  exact hinv.checkConstraint_iff_share hi hj hij

/-- different edges of a tree of a vine structure have different variable sets. -/
theorem vars_injective {d : Nat} {trees : List Tree} (h : TreesSpec d 0 none trees)
    (k : Nat) (hk : k < trees.length) {i j : Nat} (hi : i < trees[k].length)
    (hj : j < trees[k].length) (hij : i ≠ j) :
    (trees[k].getD i default).vars ≠ (trees[k].getD j default).vars :=
  (h.levelInv k hk).1.vars_injective hi hj hij

section
variable {α : Type} [Preorder α] [DecidableLT α] [Neg α] [NumFns α]

/-! ## type clauses -/

/-- a "center" vine has a star in every tree (around variable 0 / around edge 0). -/
theorem center_is_star {d t : Nat} {cs : List (Choice α)} {r : List (Tree × List α)}
    (hd : 2 ≤ d) (hcs : ChoicesOK .center d 0 cs) (h : trainVine .center d t cs = .ok r) :
    ∀ ps ∈ treePairs (treesOf r), IsStar ps := by
  obtain ⟨_, _, t0, rest, hr, h0, hrest⟩ := trainVine_spec hd hcs h
  rw [show treesOf r = t0 :: rest from hr, treePairs_cons]
  intro ps hps
  rcases List.mem_cons.mp hps with rfl | hps
  · exact h0
  · obtain ⟨t', ht', rfl⟩ := List.mem_map.mp hps
    exact hrest t' ht'

/-- a "direct" vine has a path in every tree (its edges in order walk along distinct nodes). -/
theorem direct_is_path {d t : Nat} {cs : List (Choice α)} {r : List (Tree × List α)}
    (hd : 2 ≤ d) (hcs : ChoicesOK .direct d 0 cs) (h : trainVine .direct d t cs = .ok r) :
    ∀ ps ∈ treePairs (treesOf r), IsPath ps := by
  obtain ⟨_, _, t0, rest, hr, h0, hrest⟩ := trainVine_spec hd hcs h
  rw [show treesOf r = t0 :: rest from hr, treePairs_cons]
  intro ps hps
  rcases List.mem_cons.mp hps with rfl | hps
  · exact h0.1
  · obtain ⟨t', ht', rfl⟩ := List.mem_map.mp hps
    exact (hrest t' ht').1

/-! ## no pair conditioned twice -/

/-- **`pairs_once`, center vines.** -/
theorem pairs_once_center {d t : Nat} {cs : List (Choice α)} {r : List (Tree × List α)}
    (hd : 2 ≤ d) (hcs : ChoicesOK .center d 0 cs) (h : trainVine .center d t cs = .ok r) :
    PairsOnce (treesOf r) := by
  obtain ⟨_, hspec, t0, rest, hr, h0, hrest⟩ := trainVine_spec hd hcs h
  rw [show treesOf r = t0 :: rest from hr]
  rw [hr] at hspec
  exact pairsOnce_of_stars hspec h0 hrest

/-- **`pairs_once`, direct vines.** -/
theorem pairs_once_direct {d t : Nat} {cs : List (Choice α)} {r : List (Tree × List α)}
    (hd : 2 ≤ d) (hcs : ChoicesOK .direct d 0 cs) (h : trainVine .direct d t cs = .ok r) :
    PairsOnce (treesOf r) := by
  obtain ⟨_, hspec, t0, rest, hr, h0, hrest⟩ := trainVine_spec hd hcs h
  rw [show treesOf r = t0 :: rest from hr]
  rw [hr] at hspec
  exact pairsOnce_of_paths hd hspec h0.2 (fun t' ht' => (hrest t' ht').2)

/-- **C16, structural part, for center vines**: every accepted run on `d ≥ 2` columns yields a
    regular vine of depth `max 1 (min (d-1) t)` with a star in every tree. -/
theorem center_vine_is_regular_vine {d t : Nat} {cs : List (Choice α)} {r : List (Tree × List α)}
    (hd : 2 ≤ d) (hcs : ChoicesOK .center d 0 cs) (h : trainVine .center d t cs = .ok r) :
    IsRegularVine d t (treesOf r) ∧ TypeSpec .center (treesOf r) :=
  ⟨⟨hd, by simpa using tree_count h, vine_structure hd hcs h, pairs_once_center hd hcs h⟩,
    center_is_star hd hcs h⟩

/-- **C16, structural part, for direct vines**. -/
theorem direct_vine_is_regular_vine {d t : Nat} {cs : List (Choice α)} {r : List (Tree × List α)}
    (hd : 2 ≤ d) (hcs : ChoicesOK .direct d 0 cs) (h : trainVine .direct d t cs = .ok r) :
    IsRegularVine d t (treesOf r) ∧ TypeSpec .direct (treesOf r) :=
  ⟨⟨hd, by simpa using tree_count h, vine_structure hd hcs h, pairs_once_direct hd hcs h⟩,
    direct_is_path hd hcs h⟩

/-- **C16, structural part, for regular vines — all but `pairs_once`** (no hypothesis on the tau
    data at all).  Missing for the full statement: that no pair of variables is conditioned twice
    in an ARBITRARY regular vine (a classical theorem on regular vines, not formalised here); it
    is established per fitted vine by the sound checker `isRegularVine` in the correspondence run. -/
theorem regular_vine_structure_partial {d t : Nat} {cs : List (Choice α)}
    {r : List (Tree × List α)} (hd : 2 ≤ d) (h : trainVine .regular d t cs = .ok r) :
    (treesOf r).length = max 1 (min (d - 1) t) ∧ TreesSpec d 0 none (treesOf r) := by
  have hcs : ChoicesOK (α := α) .regular d 0 cs := by
    have : ∀ (cs : List (Choice α)) k, ChoicesOK .regular d k cs := by
      intro cs
      induction cs with
      | nil => intro k; trivial
      | cons c cs ih => intro k; exact ⟨trivial, ih _⟩
    exact this cs 0
  exact ⟨by simpa using tree_count h, vine_structure hd hcs h⟩

/-! ## regular vines: greedy cut, termination -/

/-- **`prim_greedy_cut`** (first tree).  In every accepted run of Prim's loop each chosen pair
    `(x, k)` joins the visited set to a new variable and no pair across the current cut has a
    strictly smaller key `-|tau|`, i.e. a strictly larger `|tau|`. -/
theorem prim_greedy_cut {n : Nat} {tau : Mat α} {choices : List (Nat × Nat)} {t : Tree}
    {ts : List α} (hn : 1 ≤ n) (h : primFirst n tau choices = .ok (t, ts)) :
    PrimTrace n tau [0] choices :=
  (primFirst_spec hn h).2.2.2

/-- the same for the constrained loop of the k-th tree: among the pairs that satisfy
    `_check_constraint` (equivalently: proximity) across the cut, the chosen one has maximal
    `|tau|`. -/
theorem prim_greedy_cut_kth {k n : Nat} {pp : Option Tree} {prev : Tree} {tau : Mat α}
    {choices : List (Nat × Nat)} {t : Tree} {ts : List α} (hn : 1 ≤ n)
    (hinv : LevelInv k pp prev) (hlen : prev.length = n)
    (h : primKth (k + 2) n prev tau choices = .ok (t, ts)) :
    KthTrace (k + 2) n prev tau [0] choices :=
  (primKth_spec hn hinv hlen h).2.2.2

/-- **`prim_is_max_spanning_tree`, partial.**  Proved: the first tree of a regular vine is a
    spanning tree each of whose edges was, when chosen, of maximal `|tau|` across the cut between
    visited and unvisited variables (Prim's invariant).  Missing: the exchange argument that
    concludes maximality of the total weight among all spanning trees; the failing-input search
    compares the real first tree's weight multiset with Kruskal's. -/
theorem prim_is_max_spanning_tree_partial {n : Nat} {tau : Mat α} {choices : List (Nat × Nat)}
    {t : Tree} {ts : List α} (hn : 1 ≤ n) (h : primFirst n tau choices = .ok (t, ts)) :
    SpanningTree n (t.map (Edge.ends true)) ∧ PrimTrace n tau [0] choices :=
  ⟨(primFirst_spec hn h).2.2.1, (primFirst_spec hn h).2.2.2⟩

/-- **`regular_kth_terminates`** (one tree).  Over a tree `prev` of a vine structure (so: connected
    by growth order), the loop of `RegularTree._build_kth_tree` never reaches the `adj_set == ∅`
    branch — which would never terminate, `list(unvisited)[0]` being the already visited node 0 —
    and `get_child_edge` never raises: the model fails only by refusing a choice sequence. -/
theorem regular_kth_terminates {k n : Nat} {pp : Option Tree} {prev : Tree} {tau : Mat α}
    (hinv : LevelInv k pp prev) (hlen : prev.length = n) (hn : 1 ≤ n)
    (choices : List (Nat × Nat)) (e : Fail)
    (h : primKth (k + 2) n prev tau choices = .error e) : ∃ w, e = .rejected w :=
  primKthGo_no_failure hinv hlen choices [0] (by simp) (by simp) (by simp; omega) e h

/-- **`regular_kth_terminates`** (whole vine): for `d ≥ 2`, whatever the tau matrices and whatever
    choices are tried, the model of `train_vine("regular")` never diverges and never raises
    `ValueError`/`IndexError`. -/
theorem regular_never_fails {d t : Nat} {cs : List (Choice α)} {e : Fail} (hd : 2 ≤ d)
    (h : trainVine .regular d t cs = .error e) :
    e ≠ .diverges ∧ e ≠ .valueError ∧ e ≠ .indexError := by
  have := trainVine_regular_no_failure hd h
  cases e <;> simp_all [Fail.isRefusal]

/-- **no Python-level failure, all three types**: for `d ≥ 2` and tau data satisfying `ChoicesOK`
    the construction never raises `ValueError` from `left, right = sorted(A ^ B)` (the parents
    always differ in exactly two variables), never an `IndexError`, and never loops forever; the
    model fails only by refusing a choice sequence the code could not have produced. -/
theorem never_fails {vt : VType} {d t : Nat} {cs : List (Choice α)} {e : Fail} (hd : 2 ≤ d)
    (hcs : ChoicesOK vt d 0 cs) (h : trainVine vt d t cs = .error e) :
    e ≠ .diverges ∧ e ≠ .valueError ∧ e ≠ .indexError := by
  have := trainVine_no_failure hd hcs h
  cases e <;> simp_all [Fail.isRefusal]

end

/-! ## the checker -/

/-- **`isRegularVine_sound`**: the decidable checker evaluated by the driver on every real
    fitted vine implies the C16 structural predicate (depth, spanning trees, well-formed edges,
    proximity, conditioned/conditioning sets, pairs once). -/
theorem isRegularVine_sound {d t : Nat} {trees : List Tree}
    (h : isRegularVine d t trees = true) : IsRegularVine d t trees :=
  isRegularVine_sound' h

/-- the checker of the type clause (star / path in every tree) is sound. -/
theorem typeOk_sound {vt : VType} {trees : List Tree} (h : typeOk vt trees = true) :
    TypeSpec vt trees :=
  typeOk_sound' h

/-- **`pairs_once` for arbitrary regular vines, partial**: not proved for every accepted run of
    the regular builder; what is proved is that it holds for every vine the checker accepts (and
    the checker is run on every real fitted vine). -/
theorem pairs_once_regular_partial {d t : Nat} {trees : List Tree}
    (h : isRegularVine d t trees = true) : PairsOnce trees :=
  (isRegularVine_sound' h).pairs_once

/-- C-vine and D-vine structures have `pairs_once` — also for checked real vines. -/
theorem pairs_once_of_stars {d : Nat} {t0 : Tree} {rest : List Tree}
    (hspec : TreesSpec d 0 none (t0 :: rest)) (h0 : IsStar (t0.map (Edge.ends true)))
    (hrest : ∀ t ∈ rest, IsStar (t.map (Edge.ends false))) : PairsOnce (t0 :: rest) :=
  pairsOnce_of_stars hspec h0 hrest

/-! ## the hypotheses hold for real tau matrices; admissible thetas -/

/-- over `ℝ` the center-vine hypothesis holds for EVERY matrix: the keys are `|tau| ≥ 0 > -10`. -/
theorem colOK_real (n : Nat) (tau : Mat ℝ) : ColOK n tau := by
  intro j _ _
  simp only [m10, sortKey, Bool.false_eq_true, ite_false, isNaN_real, abs_real, ofNat_real]
  have := abs_nonneg (tau.get j 0)
  norm_num
  linarith

/-- hence for center vines over `ℝ` no hypothesis on the data is needed. -/
theorem choicesOK_center_real (d : Nat) (cs : List (Choice ℝ)) (k : Nat) :
    ChoicesOK .center d k cs := by
  induction cs generalizing k with
  | nil => trivial
  | cons c cs ih => exact ⟨colOK_real _ _, ih _⟩

/-- **C16, structural part, center vines over `ℝ`: no hypothesis on the tau matrices at all.** -/
theorem center_vine_is_regular_vine_real {d t : Nat} {cs : List (Choice ℝ)}
    {r : List (Tree × List ℝ)} (hd : 2 ≤ d) (h : trainVine .center d t cs = .ok r) :
    IsRegularVine d t (treesOf r) ∧ TypeSpec .center (treesOf r) :=
  center_vine_is_regular_vine hd (choicesOK_center_real d cs 0) h

/-- over `ℝ`, the greedy-cut property reads: every pair across the cut has `|tau| ≤` the chosen
    pair's `|tau|`. -/
theorem prim_greedy_cut_real {n : Nat} {tau : Mat ℝ} {vis : List Nat} {q : Nat × Nat}
    {qs : List (Nat × Nat)} (h : PrimTrace n tau vis (q :: qs)) :
    q ∈ candsFirst n vis ∧ ∀ c ∈ candsFirst n vis, |tau.get c.1 c.2| ≤ |tau.get q.1 q.2| := by
  obtain ⟨h1, h2, _⟩ := h
  refine ⟨h1, fun c hc => ?_⟩
  have := h2 c hc
  simp only [primKey, abs_real, not_lt, neg_le_neg_iff] at this
  exact this

/-- **admissible theta** = `check_theta` of the GENERATED class tables, read over `ℝ`:
    Clayton `θ > 0`, Frank `θ ≠ 0`, Gumbel `θ ≥ 1`. -/
theorem theta_admissible_iff (θ : ℝ) :
    (checkTheta (Gen.Clayton.thetaLower (α := ℝ)) Gen.Clayton.thetaUpper
        Gen.Clayton.invalidThetas θ = true ↔ 0 < θ) ∧
    (checkTheta (Gen.Frank.thetaLower (α := ℝ)) Gen.Frank.thetaUpper
        Gen.Frank.invalidThetas θ = true ↔ θ ≠ 0) ∧
    (checkTheta (Gen.Gumbel.thetaLower (α := ℝ)) Gen.Gumbel.thetaUpper
        Gen.Gumbel.invalidThetas θ = true ↔ 1 ≤ θ) := by
  refine ⟨?_, ?_, ?_⟩
  · simp [checkTheta, Gen.Clayton.thetaLower, Gen.Clayton.thetaUpper, Gen.Clayton.invalidThetas,
      Bound.leVal, Bound.valLe]
    constructor
    · rintro ⟨h1, h2⟩; exact lt_of_le_of_ne h1 (Ne.symm h2)
    · intro h; exact ⟨h.le, h.ne'⟩
  · simp [checkTheta, Gen.Frank.thetaLower, Gen.Frank.thetaUpper, Gen.Frank.invalidThetas,
      Bound.leVal, Bound.valLe]
  · simp [checkTheta, Gen.Gumbel.thetaLower, Gen.Gumbel.thetaUpper, Gen.Gumbel.invalidThetas,
      Bound.leVal, Bound.valLe]

/-! ## non-vacuity: the hypotheses are satisfiable together with an accepted run -/

section Examples

/-- a computable numeric signature for evaluating the model on integer "taus" (scaled by 10). -/
local instance instNumFnsInt : NumFns Int where
  exp := id
  log := id
  pow := fun a _ => a
  sqrt := id
  abs := fun a => (Int.natAbs a : Int)
  ofNat := Int.ofNat
  ofSci := fun m _ => Int.ofNat m
  beq := fun a b => a == b
  isPosInf := fun _ => false
  isNaN := fun _ => false

private def tauI : Mat Int := [[10, 5, -2, 1], [5, 10, 3, 4], [-2, 3, 10, 6], [1, 4, 6, 10]]
private def csCenter : List (Choice Int) :=
  [⟨tauI, [1, 2, 3]⟩, ⟨[[0, 4, 0], [7, 0, 2], [5, 3, 0]], [1, 2]⟩, ⟨[[0, 1], [1, 0]], [1]⟩]
private def csDirect : List (Choice Int) :=
  [⟨tauI, [1, 2]⟩, ⟨[[0, 4, 0], [7, 0, 2], [5, 3, 0]], []⟩, ⟨[[0, 1], [1, 0]], []⟩]
private def csRegular : List (Choice Int) :=
  [⟨tauI, [0, 1, 1, 3, 3, 2]⟩, ⟨[[0, 4, 0], [7, 0, 2], [0, 3, 0]], [0, 1, 1, 2]⟩,
    ⟨[[0, 1], [1, 0]], [0, 1]⟩]

/-- accepted runs exist for the three types (4 columns, full depth). -/
example : ∃ r, trainVine .center 4 3 csCenter = .ok r := ⟨_, rfl⟩
example : ∃ r, trainVine .direct 4 3 csDirect = .ok r := ⟨_, rfl⟩
example : ∃ r, trainVine .regular 4 3 csRegular = .ok r := ⟨_, rfl⟩

private theorem colOK_tauI : ColOK 4 tauI := by
  intro j h1 h2
  obtain rfl | rfl | rfl : j = 1 ∨ j = 2 ∨ j = 3 := by omega
  all_goals decide

/-- `ChoicesOK` holds for these runs (center: every tree's column-0 keys; direct: first tree). -/
example : ChoicesOK .center 4 0 csCenter := by
  refine ⟨colOK_tauI, ?_, ?_, trivial⟩
  · intro j h1 h2
    obtain rfl | rfl : j = 1 ∨ j = 2 := by omega
    all_goals decide
  · intro j h1 h2
    obtain rfl : j = 1 := by omega
    decide

example : ChoicesOK .direct 4 0 csDirect := by
  refine ⟨fun _ => ⟨?_, colOK_tauI, ?_⟩, fun h => absurd h (by decide), fun h => absurd h (by decide),
    trivial⟩
  · intro i hi
    obtain rfl | rfl | rfl | rfl : i = 0 ∨ i = 1 ∨ i = 2 ∨ i = 3 := by omega
    all_goals rfl
  · intro i hi c hc
    obtain rfl | rfl | rfl | rfl : i = 0 ∨ i = 1 ∨ i = 2 ∨ i = 3 := by omega
    all_goals (obtain rfl | rfl | rfl | rfl : c = 0 ∨ c = 1 ∨ c = 2 ∨ c = 3 := by omega)
    all_goals decide

/-- the hypotheses of `identify_spec`: edges `(0,3|1)` and `(1,2|3)` sharing the node `{1,3}`. -/
example : ∃ l r, identify ⟨0, 3, [1], none⟩ ⟨1, 2, [3], none⟩ = .ok (l, r, [1, 3]) ∧ l < r :=
  ⟨0, 2, rfl, by decide⟩

/-- over `ℝ` the direct-vine hypothesis `AllAbove` holds for a concrete Kendall-like matrix. -/
example : AllAbove 2 ([[1, 1/2], [1/2, 1]] : Mat ℝ) := by
  intro i hi c hc
  obtain rfl | rfl : i = 0 ∨ i = 1 := by omega
  all_goals (obtain rfl | rfl : c = 0 ∨ c = 1 := by omega)
  all_goals (simp [Mat.get, m10]; norm_num)

end Examples

end CopVerif.Props.C16
