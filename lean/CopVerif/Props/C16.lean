import CopVerif.Model.Vine
/-! # C16 (work in progress) -/
namespace CopVerif.Props.C16
open CopVerif CopVerif.Model.Vine

section
variable {α : Type} [LT α] [DecidableLT α] [Neg α] [NumFns α]

theorem trainRest_length (vt : VType) (d : Nat) :
    ∀ (fuel k : Nat) (prev : Tree) (cs : List (Choice α)) (r : List (Tree × List α)),
      trainRest vt d fuel k prev cs = .ok r → r.length = fuel := by
  intro fuel
  induction fuel with
  | zero => intro k prev cs r h; simp [trainRest] at h; subst h; rfl
  | succ n ih =>
    intro k prev cs r h
    cases cs with
    | nil => simp [trainRest] at h
    | cons c cs =>
      simp only [trainRest] at h
      cases hb : buildKth vt (k + 1) (d - k) prev c with
      | error e => simp [hb, bind, Except.bind] at h
      | ok b =>
        cases hr : trainRest vt d n (k + 1) b.1 cs with
        | error e => simp [hb, hr, bind, Except.bind] at h
        | ok rest =>
          simp [hb, hr, bind, Except.bind, pure, Except.pure] at h
          subst h
          simp [ih _ _ _ _ hr]
end
end CopVerif.Props.C16
