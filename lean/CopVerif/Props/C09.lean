import CopVerif.Real.ClaytonDeriv
import CopVerif.Real.Frank
import CopVerif.Real.Rosenblatt
import CopVerif.Real.Gumbel
/-!
# C09 — Bivariate copula samples have uniform margins and the model's dependence

`Gen.Base.sample` is GENERATED from `Bivariate.sample`: behind the tau guard it draws
`v = draw1`, `c = draw2` (two `np.random.uniform(0,1,n)` arrays), computes
`u = percent_point(c, v)` and returns the rows `(u, v)`.

The joint-law clause is the Rosenblatt identity: since `{percent_point(c, t) ≤ u} = {c ≤ h(u, t)}`,
for independent uniforms `P(U ≤ u, V ≤ v) = ∫₀ᵛ h(u, t) dt`, and that integral is `C(u, v)`
(`frank_rosenblatt`, `clayton_rosenblatt`, `gumbel_rosenblatt`; uniform margins are the `u = 1` and
`v = 1` cases).  For Clayton, whose inverse is closed-form, the event identity itself and its
Lebesgue measure are proved (`clayton_event_identity`, `clayton_event_measure`).  That numpy's MT19937 stream is
uniform/independent is in the trusted base; the value of Kendall's tau of `C_θ` is not proved.
-/
namespace CopVerif.Props.C09
open CopVerif

/-- |τ| > 1 ⇒ `ValueError`, whatever the draws (the guard precedes them). -/
theorem tau_guard {τ : ℝ} (hτ : 1 < τ ∨ τ < -1) (ppf : List (ℝ × ℝ) → Except Err (List ℝ))
    (d1 d2 : List ℝ) : Gen.Base.sample τ ppf d1 d2 = .error .valueError := by
  unfold Gen.Base.sample
  simp only [ofNat_real, Nat.cast_one]
  rw [if_pos hτ]

/-- Shape: with `|τ| ≤ 1`, equal-length draws and a `percent_point` that returns one value per row,
the result has `n` rows, its second column is the first draw itself, and its first column is
`percent_point(draw2, draw1)`. -/
theorem sample_shape {τ : ℝ} (hτ : ¬ (1 < τ ∨ τ < -1)) (ppf : List (ℝ × ℝ) → Except Err (List ℝ))
    (d1 d2 us : List ℝ) (hlen : d1.length = d2.length)
    (hppf : ppf (List.zip d2 d1) = .ok us) (hus : us.length = d1.length) :
    ∃ rows, Gen.Base.sample τ ppf d1 d2 = .ok rows ∧ rows.length = d1.length ∧
      rows.map Prod.snd = d1 ∧ rows.map Prod.fst = us := by
  refine ⟨List.zip us d1, ?_, ?_, ?_, ?_⟩
  · unfold Gen.Base.sample
    simp only [ofNat_real, Nat.cast_one]
    rw [if_neg hτ, hppf]
  · simp [hus]
  · exact List.map_snd_zip (by omega)
  · exact List.map_fst_zip (by omega)

/-- An error of `percent_point` (e.g. `NotFittedError`) propagates. -/
theorem sample_propagates_error {τ : ℝ} (hτ : ¬ (1 < τ ∨ τ < -1))
    (ppf : List (ℝ × ℝ) → Except Err (List ℝ)) (d1 d2 : List ℝ) (e : Err)
    (hppf : ppf (List.zip d2 d1) = .error e) : Gen.Base.sample τ ppf d1 d2 = .error e := by
  unfold Gen.Base.sample
  simp only [ofNat_real, Nat.cast_one]
  rw [if_neg hτ, hppf]

/-- Clayton end to end: for draws in `(0,1)`, row `i` of the sample is `(u_i, v_i)` with
`v_i = draw1_i`, `u_i ∈ (0,1]` and `h(u_i, v_i) = draw2_i` — the conditional-inverse transform. -/
theorem clayton_sample_is_conditional_inverse {θ τ : ℝ} (hθ : 0 < θ) (hτ : ¬ (1 < τ ∨ τ < -1))
    (d1 d2 : List ℝ) (h1 : ∀ v ∈ d1, 0 < v ∧ v < 1) (h2 : ∀ c ∈ d2, 0 < c ∧ c < 1) :
    Gen.Base.sample τ (Gen.Clayton.ppf θ) d1 d2
        = .ok (List.zip ((List.zip d2 d1).map fun p => Clayton.ppf θ p.1 p.2) d1) ∧
      ∀ p ∈ List.zip d2 d1, 0 < Clayton.ppf θ p.1 p.2 ∧ Clayton.ppf θ p.1 p.2 ≤ 1 ∧
        Clayton.h θ (Clayton.ppf θ p.1 p.2) p.2 = p.1 := by
  have hpos : ∀ p ∈ List.zip d2 d1, 0 < p.2 := by
    intro p hp; exact (h1 p.2 (List.of_mem_zip hp).2).1
  constructor
  · unfold Gen.Base.sample
    simp only [ofNat_real, Nat.cast_one]
    rw [if_neg hτ, Clayton.ppf_rowwise hθ _ hpos]
  · intro p hp
    have hc := h2 p.1 (List.of_mem_zip hp).1
    have hv := h1 p.2 (List.of_mem_zip hp).2
    have r := Clayton.ppf_mem_Ioc hθ hc.1 hc.2.le hv.1
    exact ⟨r.1, r.2, Clayton.h_ppf hθ hc.1 hc.2.le hv.1⟩

/-- Frank joint law (Rosenblatt identity): `∫₀ᵛ h(u,t) dt = C(u,v)` for `u ∈ [0,1]`, every `v`. -/
theorem frank_rosenblatt {θ u : ℝ} (hθ : θ ≠ 0) (hu : 0 ≤ u) (hu1 : u ≤ 1) (v : ℝ) :
    ∫ t in (0:ℝ)..v, Gen.Frank.hRow θ u t = Gen.Frank.cdfRow θ u v := by
  simp only [Frank.bridge_hRow, Frank.bridge_cdfRow]; exact Frank.integral_h hθ hu hu1 v

/-- Uniform margins as the two boundary cases of the joint law. -/
theorem frank_uniform_margins {θ : ℝ} (hθ : θ ≠ 0) :
    (∀ u, 0 ≤ u → u ≤ 1 → ∫ t in (0:ℝ)..1, Gen.Frank.hRow θ u t = u) ∧
      (∀ v, ∫ t in (0:ℝ)..v, Gen.Frank.hRow θ 1 t = v) := by
  constructor
  · intro u hu hu1
    rw [frank_rosenblatt hθ hu hu1, Frank.bridge_cdfRow, Frank.C_one_right hθ]
  · intro v
    rw [frank_rosenblatt hθ zero_le_one le_rfl, Frank.bridge_cdfRow, Frank.C_one_left hθ]

/-- Clayton joint law: `h(u,·)` is integrable on `[0,v]` and `∫₀ᵛ h(u,t) dt = C(u,v)`. -/
theorem clayton_rosenblatt {θ u v : ℝ} (hθ : 0 < θ) (hu : 0 < u) (hu1 : u ≤ 1) (hv : 0 ≤ v) :
    IntervalIntegrable (fun t => Gen.Clayton.hRow θ u t) MeasureTheory.volume 0 v ∧
      ∫ t in (0:ℝ)..v, Gen.Clayton.hRow θ u t = Gen.Clayton.cdfRow θ u v := by
  simp only [Clayton.bridge_hRow, Clayton.bridge_cdfRow]; exact Clayton.integral_h hθ hu hu1 hv

/-- The event identity behind the Rosenblatt transform: for the conditioning value `t`,
`{c ∈ (0,1] : percent_point(c, t) ≤ u}` is the interval `(0, h(u,t)]`, of Lebesgue measure `h(u,t)`. -/
theorem clayton_event_identity {θ y t u : ℝ} (hθ : 0 < θ) (hy : 0 < y) (hy1 : y ≤ 1) (ht : 0 < t)
    (hu : 0 < u) (hu1 : u ≤ 1) :
    Gen.Clayton.ppfRow θ y t ≤ u ↔ y ≤ Gen.Clayton.hRow θ u t := by
  simp only [Clayton.bridge_ppfRow, Clayton.bridge_hRow]; exact Clayton.ppf_le_iff hθ hy hy1 ht hu hu1

theorem clayton_event_measure {θ t u : ℝ} (hθ : 0 < θ) (ht : 0 < t) (hu : 0 < u) (hu1 : u ≤ 1) :
    MeasureTheory.volume {y | y ∈ Set.Ioc (0:ℝ) 1 ∧ Gen.Clayton.ppfRow θ y t ≤ u}
      = ENNReal.ofReal (Gen.Clayton.hRow θ u t) := by
  simp only [Clayton.bridge_ppfRow, Clayton.bridge_hRow]; exact Clayton.volume_ppf_le hθ ht hu hu1

/-- Gumbel joint law for every `θ ≥ 1`. -/
theorem gumbel_rosenblatt {θ u v : ℝ} (hθ : 1 ≤ θ) (hu : 0 < u) (hu1 : u < 1) (hv : 0 < v)
    (hv1 : v ≤ 1) :
    IntervalIntegrable (fun t => Gumbel.h θ u t) MeasureTheory.volume 0 v ∧
      ∫ t in (0:ℝ)..v, Gumbel.h θ u t = Gen.Gumbel.cdfRow θ u v := by
  simp only [Gumbel.bridge_cdfRow]; exact Gumbel.integral_h hθ hu hu1 hv hv1

/-- Gumbel has no closed-form inverse: for ANY root `u₀` of `h(·,t) = y` (what the Brent search
returns) the event identity `u₀ ≤ u ↔ y ≤ h(u,t)` holds. -/
theorem gumbel_event_identity {θ t u₀ u y : ℝ} (hθ : 1 ≤ θ) (ht : 0 < t) (ht1 : t < 1) (hu₀ : 0 < u₀)
    (hu₀1 : u₀ < 1) (hu : 0 < u) (hu1 : u < 1) (hroot : Gumbel.h θ u₀ t = y) :
    u₀ ≤ u ↔ y ≤ Gumbel.h θ u t := Gumbel.root_le_iff hθ ht ht1 hu₀ hu₀1 hu hu1 hroot

/-- Gumbel θ = 1 (τ = 0, independence): the sample is the pair of draws itself, `(c_i, v_i)` —
two independent uniforms — because `percent_point(c, v) = c` there. -/
theorem gumbel_sample_theta_one {τ : ℝ} (hτ : ¬ (1 < τ ∨ τ < -1)) (brent : ℝ → ℝ → ℝ)
    (d1 d2 : List ℝ) (hlen : d1.length = d2.length) :
    Gen.Base.sample τ (Gen.Gumbel.ppf (1 : ℝ) brent) d1 d2 = .ok (List.zip d2 d1) := by
  unfold Gen.Base.sample
  simp only [ofNat_real, Nat.cast_one]
  rw [if_neg hτ]
  unfold Gen.Gumbel.ppf
  rw [Gumbel.checkFit_ok le_rfl]
  have hfst : List.map (fun p : ℝ × ℝ => p.1) (List.zip d2 d1) = d2 := by
    have := List.map_fst_zip (l₁ := d2) (l₂ := d1) (by omega)
    simpa using this
  simp [Gen.Gumbel.ppf_leaf0, hfst]

example : ¬ ((1:ℝ) < 1/2 ∨ (1/2:ℝ) < -1) := by norm_num

end CopVerif.Props.C09
