import Mathlib.Tactic.IntervalCases
import Mathlib.Tactic.NormNum
import CopVerif.Lemmas.VineMST
import CopVerif.Lemmas.VinePairsR
import CopVerif.Props.C16
/-!
# C16, continued — the two clauses `Props/C16.lean` leaves `_partial`

* **`prim_is_max_spanning_tree`**: the first tree of a "regular" vine is a MAXIMUM spanning tree of
  the complete graph on the `n` variables weighted by `|tau|` — for every accepted run of the
  model's Prim loop (`primFirst`), ties allowed.  Maximality is stated three ways: against every
  spanning tree in the model's representation (`SpanningTree`, a growth-ordered edge list), against
  every connected spanning edge list with at most `n - 1` edges (no order, no acyclicity assumed),
  and against every tree on `Fin n` in Mathlib's sense (`SimpleGraph.IsTree`).
* **`pairs_once`**: in EVERY structure satisfying the model's `TreesSpec` (what `vine_structure`
  establishes for all three vine types; full or truncated) no pair of variables is conditioned
  twice; hence every accepted regular-vine run yields an `IsRegularVine`.

The theorems are about `CopVerif.Model.Vine` and compose with `CopVerif.Props.C16`.
-/
set_option linter.unusedSimpArgs false
set_option linter.unusedSectionVars false
set_option linter.unusedVariables false
namespace CopVerif.Props.C16b
open CopVerif CopVerif.Model.Vine CopVerif.Props.C16

/-! ## the first tree of a regular vine is a maximum spanning tree -/

/-- **`prim_is_max_spanning_tree`.**  Let `tau` be a real matrix with `|tau i j| = |tau j i|` on
    the `n` variables (a Kendall-tau matrix is symmetric).  For EVERY accepted run of
    `RegularTree._build_first_tree` (every admissible tie-breaking), the produced edge list `T` is
    a spanning tree on the nodes `0 … n-1` and its total weight `Σ |tau|` is maximal among all
    spanning trees `T'` of the complete graph on those nodes. -/
theorem prim_is_max_spanning_tree {n : Nat} {tau : Mat ℝ} {choices : List (Nat × Nat)} {t : Tree}
    {ts : List ℝ} (hn : 1 ≤ n) (hsym : AbsSymm n tau)
    (h : primFirst n tau choices = .ok (t, ts)) :
    SpanningTree n (t.map (Edge.ends true)) ∧
      ∀ T', SpanningTree n T' → absWeight tau T' ≤ absWeight tau (t.map (Edge.ends true)) :=
  ⟨(prim_is_max_spanning_tree_partial hn h).1, fun T' hT' => primFirst_max_spanning hn hsym h T' hT'⟩

/-- the same, against a notion of competitor that needs no growth order and no acyclicity: every
    edge list `E` on the nodes `< n` in which all nodes are connected (`Reach`) and that has at most
    `n - 1` edges (every spanning tree — `SpanningTree.connSpan`, `connSpan_of_connected` — is such
    an `E`). -/
theorem prim_max_among_connected {n : Nat} {tau : Mat ℝ} {choices : List (Nat × Nat)} {t : Tree}
    {ts : List ℝ} (hn : 1 ≤ n) (hsym : AbsSymm n tau)
    (h : primFirst n tau choices = .ok (t, ts)) (E : List (Nat × Nat))
    (hends : ∀ p ∈ E, p.1 < n ∧ p.2 < n) (hconn : ∀ u v, u < n → v < n → Reach E u v)
    (hcard : E.length + 1 ≤ n) : absWeight tau E ≤ absWeight tau (t.map (Edge.ends true)) :=
  primFirst_max_of_connSpan hn hsym h E
    ⟨hends, fun v hv => ⟨0, by simp, hconn 0 v (by omega) hv⟩⟩ hcard

/-- the same, against Mathlib's trees: every `G : SimpleGraph (Fin n)` with `G.IsTree` weighs
    (`graphWeight`: every edge once, `Σ_{i<j, G.Adj i j} |tau i j|`) at most what Prim's tree does. -/
theorem prim_max_among_isTree {n : Nat} {tau : Mat ℝ} {choices : List (Nat × Nat)} {t : Tree}
    {ts : List ℝ} (hn : 1 ≤ n) (hsym : AbsSymm n tau)
    (h : primFirst n tau choices = .ok (t, ts)) (G : SimpleGraph (Fin n)) [DecidableRel G.Adj]
    (hG : G.IsTree) : graphWeight G tau ≤ absWeight tau (t.map (Edge.ends true)) :=
  primFirst_max_isTree G hn hsym h hG

/-- **entirely in Mathlib's terms**: the graph `G_T` on `Fin n` formed by Prim's edges is a tree
    (`SimpleGraph.IsTree`) with `n - 1` distinct edges, its graph weight is the weight of the edge
    list, and no tree on `Fin n` weighs more. -/
theorem prim_tree_is_max_isTree {n : Nat} {tau : Mat ℝ} {choices : List (Nat × Nat)} {t : Tree}
    {ts : List ℝ} (hn : 1 ≤ n) (hsym : AbsSymm n tau)
    (h : primFirst n tau choices = .ok (t, ts)) :
    (graphOfEdges n (t.map (Edge.ends true))).IsTree ∧
    (graphOfEdges n (t.map (Edge.ends true))).edgeFinset.card + 1 = n ∧
    graphWeight (graphOfEdges n (t.map (Edge.ends true))) tau =
      absWeight tau (t.map (Edge.ends true)) ∧
    ∀ (G : SimpleGraph (Fin n)) [DecidableRel G.Adj], G.IsTree →
      graphWeight G tau ≤ graphWeight (graphOfEdges n (t.map (Edge.ends true))) tau := by
  have hT := (prim_is_max_spanning_tree_partial hn h).1
  obtain ⟨h1, h2⟩ := hT.isTree hn
  have h3 := hT.graphWeight_eq hsym
  refine ⟨h1, by rw [h2]; exact hT.1, h3, fun G _ hG => ?_⟩
  rw [h3]
  exact primFirst_max_isTree G hn hsym h hG

/-- the weight of Prim's tree is the sum of the `|.tau|` its edges record. -/
theorem prim_weight_eq_taus {n : Nat} {tau : Mat ℝ} {choices : List (Nat × Nat)} {t : Tree}
    {ts : List ℝ} (hn : 1 ≤ n) (hsym : AbsSymm n tau)
    (h : primFirst n tau choices = .ok (t, ts)) :
    absWeight tau (t.map (Edge.ends true)) = (ts.map fun x => |x|).sum := by
  obtain ⟨r1, _, r3, _, _⟩ := primFirstGo_spec h (by simp; omega)
  rw [r1, absWeight_primEdges hsym choices [0] r3 (by simp; omega), primFirstGo_taus h]
  simp [absWeight, List.map_map, Function.comp_def]

/-- **whole vine**: in every accepted run of `train_vine("regular")` on `d ≥ 2` columns, the first
    tree is a maximum spanning tree for the `|tau|` of the matrix the first `Tree.fit` received. -/
theorem regular_first_tree_is_mst {d t : Nat} {c : Choice ℝ} {cs : List (Choice ℝ)}
    {r : List (Tree × List ℝ)} (hd : 2 ≤ d) (hsym : AbsSymm d c.tau)
    (h : trainVine .regular d t (c :: cs) = .ok r) :
    ∃ t0 ts0 rest, r = (t0, ts0) :: rest ∧ SpanningTree d (t0.map (Edge.ends true)) ∧
      ∀ T', SpanningTree d T' → absWeight c.tau T' ≤ absWeight c.tau (t0.map (Edge.ends true)) := by
  simp only [trainVine] at h
  rw [bind_eq_ok] at h
  obtain ⟨⟨t0, ts0⟩, hb, h⟩ := h
  rw [bind_eq_ok] at h
  obtain ⟨rest, _, h⟩ := h
  simp only [pure, Except.pure, Except.ok.injEq] at h
  subst h
  have hp : primFirst d c.tau (unflatten c.picks) = .ok (t0, ts0) := hb
  exact ⟨t0, ts0, rest, rfl, prim_is_max_spanning_tree (by omega) hsym hp⟩

/-! ## no pair of variables is conditioned twice -/

/-- **`pairs_once`, every vine structure.**  In every structure satisfying `TreesSpec` — by
    `C16.vine_structure` the result of every accepted run of every type, by `isRegularVine_sound`
    every checked real vine; full or truncated — no pair of variables is conditioned twice. -/
theorem pairs_once {d : Nat} {trees : List Tree} (hspec : TreesSpec d 0 none trees) :
    PairsOnce trees :=
  hspec.pairsOnce

/-- the same, edge-wise and for UNORDERED pairs: two edges (of any trees) with the same conditioned
    set `{L, R}` are the same edge of the same tree. -/
theorem cond_pair_unique {d : Nat} {trees : List Tree} (hspec : TreesSpec d 0 none trees)
    {k k' : Nat} (hk : k < trees.length) (hk' : k' < trees.length) {e f : Edge}
    (he : e ∈ trees[k]) (hf : f ∈ trees[k'])
    (h : (e.L = f.L ∧ e.R = f.R) ∨ (e.L = f.R ∧ e.R = f.L)) : k = k' ∧ e = f := by
  have h1 := hspec.cond_lt hk he
  have h2 := hspec.cond_lt hk' hf
  have h' : e.L = f.L ∧ e.R = f.R := by
    rcases h with h | h
    · exact h
    · omega
  obtain ⟨rfl, hv⟩ := hspec.cond_pair_injective hk hk' he hf h'.1 h'.2
  refine ⟨rfl, ?_⟩
  obtain ⟨i, hi, rfl⟩ := List.getElem_of_mem he
  obtain ⟨j, hj, rfl⟩ := List.getElem_of_mem hf
  by_contra hne
  have hij : i ≠ j := fun hij => hne (by subst hij; rfl)
  have := C16.vars_injective hspec k hk hi hj hij
  rw [getD_eq_getElem' _ hi, getD_eq_getElem' _ hj] at this
  exact this hv

section
variable {α : Type} [Preorder α] [DecidableLT α] [Neg α] [NumFns α]

/-- **`pairs_once`, regular vines**: every accepted run of `train_vine("regular")`, whatever the
    tau matrices. -/
theorem pairs_once_regular {d t : Nat} {cs : List (Choice α)} {r : List (Tree × List α)}
    (hd : 2 ≤ d) (h : trainVine .regular d t cs = .ok r) : PairsOnce (treesOf r) :=
  pairs_once (regular_vine_structure_partial hd h).2

/-- **C16, structural part, regular vines — complete**: every accepted run on `d ≥ 2` columns
    yields a regular vine of depth `max 1 (min (d-1) t)`: spanning trees, well-formed edges,
    proximity, conditioned/conditioning sets, and no pair conditioned twice. -/
theorem regular_vine_is_regular_vine {d t : Nat} {cs : List (Choice α)} {r : List (Tree × List α)}
    (hd : 2 ≤ d) (h : trainVine .regular d t cs = .ok r) :
    IsRegularVine d t (treesOf r) ∧ TypeSpec .regular (treesOf r) :=
  ⟨⟨hd, (regular_vine_structure_partial hd h).1, (regular_vine_structure_partial hd h).2,
    pairs_once_regular hd h⟩, trivial⟩

/-- all three types at once (center/direct under the data hypotheses `ChoicesOK` of C16). -/
theorem fitted_vine_is_regular_vine {vt : VType} {d t : Nat} {cs : List (Choice α)}
    {r : List (Tree × List α)} (hd : 2 ≤ d) (hcs : ChoicesOK vt d 0 cs)
    (h : trainVine vt d t cs = .ok r) : IsRegularVine d t (treesOf r) :=
  ⟨hd, by simpa using tree_count h, vine_structure hd hcs h, pairs_once (vine_structure hd hcs h)⟩

end

/-! ## non-vacuity -/

section Examples

/-- a symmetric real "tau" matrix with a tie in row 0. -/
private noncomputable def tauR : Mat ℝ := [[1, 1/2, 1/2], [1/2, 1, -3/4], [1/2, -3/4, 1]]

private theorem tauR_get (i j : Nat) : tauR.get i j =
    (([[1, 1/2, 1/2], [1/2, 1, -3/4], [1/2, -3/4, 1]] : List (List ℝ)).getD i []).getD j 0 := by
  simp [tauR, Mat.get]

/-- the symmetry hypothesis holds for it … -/
example : AbsSymm 3 tauR := by
  intro i j hi hj
  interval_cases i <;> interval_cases j <;> simp [tauR_get]

/-- … and Prim's loop accepts a run on it (the tie `(0,1)` / `(0,2)` broken towards `(0,2)`). -/
example : primFirst 3 tauR [(0, 2), (2, 1)] = .ok ([mkEdge 0 2, mkEdge 1 2], [1/2, -3/4]) := by
  have c1 : candsFirst 3 [0] = [(0, 1), (0, 2)] := by decide
  have c2 : candsFirst 3 [0, 2] = [(0, 1), (2, 1)] := by decide
  simp [primFirst, primFirstGo, primStepOk, stepMinOk, c1, c2, primKey, tauR_get, mkSorted,
    bind, Except.bind, pure, Except.pure]
  norm_num

/-- competitors exist: a spanning tree by growth order (hence, by `SpanningTree.isTree`, a Mathlib
    tree on `Fin 3`). -/
example : SpanningTree 3 [(0, 1), (1, 2)] :=
  ⟨rfl, 0, by omega, .fwd (by simp) (by simp) (by omega) (.fwd (by simp) (by simp) (by omega) (.nil _))⟩

/-- a computable numeric signature for evaluating the model on integer "taus". -/
local instance instNumFnsInt : NumFns Int where
  exp := id
  log := id
  pow := fun a _ => a
  sqrt := id
  abs := fun a => (Int.natAbs a : Int)
  ofNat := Int.ofNat
  ofSci := fun m _ => Int.ofNat m
  beq := fun a b => a == b
  isPosInf := fun _ => false
  isNaN := fun _ => false

private def tau5 : Mat Int :=
  [[10, 9, 1, 1, 1], [9, 10, 8, 7, 1], [1, 8, 10, 1, 1], [1, 7, 1, 10, 6], [1, 1, 1, 6, 10]]
private def zeros (n : Nat) : Mat Int := List.replicate n (List.replicate n 0)
private def cs5 : List (Choice Int) :=
  [⟨tau5, [0, 1, 1, 2, 1, 3, 3, 4]⟩, ⟨zeros 4, [0, 1, 1, 2, 2, 3]⟩, ⟨zeros 3, [0, 1, 1, 2]⟩,
    ⟨zeros 2, [0, 1]⟩]

/-- an accepted regular-vine run on 5 columns whose trees are neither stars nor paths (so neither
    `pairs_once_center` nor `pairs_once_direct` of C16 applies), to which `pairs_once_regular`
    applies. -/
example : ∃ r, trainVine .regular 5 4 cs5 = .ok r ∧ typeOk .center (treesOf r) = false ∧
    typeOk .direct (treesOf r) = false := ⟨_, rfl, by decide, by decide⟩

end Examples

end CopVerif.Props.C16b
