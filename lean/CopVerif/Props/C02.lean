import CopVerif.Real.Pearson
/-!
# C02 — Fitted Gaussian-copula correlation is a valid, correctly computed matrix

Property theorems only.  Every statement is about the executable model
`CopVerif.Model.{pearson, preRidge, corrModel, fitModel}` (`CopVerif/Model/Pearson.lean`, the code
that the driver runs at `Float` against the real `GaussianMultivariate.fit`) and the constants
GENERATED from `gaussian.py` / `utils.py` (`CopVerif.Gen.GaussCorr`).  NaN is `none`: no statement
relies on `x / 0 = 0`.  A score table is a list of columns; `Rect cols n` says every column has `n`
rows; `colVec cols n i` is column `i` as a vector; `rho` is the textbook Pearson correlation
(`mean`, centred sums `S`, `none` when the denominator vanishes); `IsConst x := ∀ r s, x r = x s`.
Any number of rows and columns (`n ≥ 2` is only needed for a non-constant column to exist).

Not provable here (tie / search only): "finite" (a statement about binary64), and "sampling and
density evaluation still work after regularisation" (scipy / numpy `multivariate_normal`).
-/
namespace CopVerif.Props.C02
open CopVerif Model Pearson NumFns

/-! ## statements that hold for every numeric carrier (in particular at `Float`) -/
section anyCarrier
variable {α : Type} [Add α] [Sub α] [Mul α] [Div α] [Neg α] [LT α] [LE α]
  [DecidableLT α] [DecidableLE α] [NumFns α]

/-- `DataFrame.corr()` is symmetric (pandas mirrors the lower triangle), entrywise incl. NaN. -/
theorem pearson_symm (cols : List (List α)) (i j : ℕ) :
    entryD none (pearson cols) i j = entryD none (pearson cols) j i := by
  simp only [pearson]
  by_cases hi : i < cols.length
  · by_cases hj : j < cols.length
    · rw [entryD_table _ _ hi hj, entryD_table _ _ hj hi, pearsonEntry_symm]
    · rw [entryD_table_col_ge _ _ _ (not_lt.1 hj), entryD_table_row_ge _ _ _ (not_lt.1 hj)]
  · rw [entryD_table_row_ge _ _ _ (not_lt.1 hi), entryD_table_col_ge _ _ _ (not_lt.1 hi)]

/-- the fitted matrix (after `nan_to_num` and the ridge decision) is symmetric. -/
theorem corr_symm (cols : List (List α)) (c : α) (i j : ℕ) :
    entryD (ofNat 0) (corrModel cols c) i j = entryD (ofNat 0) (corrModel cols c) j i := by
  rw [corrModel_eq_table]
  by_cases hi : i < cols.length
  · by_cases hj : j < cols.length
    · rw [entryD_table _ _ hi hj, entryD_table _ _ hj hi, pearsonEntry_symm cols i j]
      by_cases hij : i = j
      · subst hij; rfl
      · rw [if_neg hij, if_neg (Ne.symm hij)]
    · rw [entryD_table_col_ge _ _ _ (not_lt.1 hj), entryD_table_row_ge _ _ _ (not_lt.1 hj)]
  · rw [entryD_table_row_ge _ _ _ (not_lt.1 hi), entryD_table_col_ge _ _ _ (not_lt.1 hi)]

/-- the fitted correlation is labelled by the training columns in order, on both axes; it is
    `k × k`; `to_dict()["correlation"]` is its data. -/
theorem labels {L : Type} (lab : List L) (ppf : α → α) (cdfs : List (α → α)) (X : List (List α))
    (c : α) (hF : cdfs.length = X.length) (hL : lab.length = X.length) :
    (fitModel lab ppf cdfs X c).index = lab ∧ (fitModel lab ppf cdfs X c).columns = lab
      ∧ (fitModel lab ppf cdfs X c).data.length = lab.length
      ∧ (∀ row ∈ (fitModel lab ppf cdfs X c).data, row.length = lab.length)
      ∧ (fitModel lab ppf cdfs X c).toDictCorrelation = (fitModel lab ppf cdfs X c).data := by
  have hk : (transformToNormal ppf cdfs X).length = lab.length := by
    simp [transformToNormal, hF, hL]
  refine ⟨rfl, rfl, ?_, ?_, rfl⟩
  · simp only [fitModel, fitCorrelation, corrModel_eq_table, table_length, hk]
  · intro row hrow
    simp only [fitModel, fitCorrelation, corrModel_eq_table] at hrow
    rw [table_row_length _ _ row hrow, hk]

end anyCarrier

/-! ## real-number reading -/

/-- Pearson's `r(x, y) = r(y, x)` mathematically (not only by mirroring). -/
theorem pearson_pair_symm {n : ℕ} {xs ys : List ℝ} (hx : xs.length = n) (hy : ys.length = n) :
    pearsonPair xs ys = pearsonPair ys xs := by
  rw [pearsonPair_eq_rho hx hy, pearsonPair_eq_rho hy hx, rho_comm]

/-- pandas' one-pass (Welford) computation, read over ℝ, IS the textbook Pearson correlation of the
    two columns (mean, centred sums); its final clipping to `[-1,1]` is a no-op; `none` (NaN) exactly
    when the denominator `sqrt(Sxx·Syy)` vanishes. -/
theorem pair_is_textbook_pearson {n : ℕ} {xs ys : List ℝ} (hx : xs.length = n) (hy : ys.length = n) :
    pearsonPair xs ys
      = if Real.sqrt (S (vec n xs) (vec n xs) * S (vec n ys) (vec n ys)) = 0 then none
        else some (S (vec n xs) (vec n ys)
          / Real.sqrt (S (vec n xs) (vec n xs) * S (vec n ys) (vec n ys))) :=
  pearsonPair_eq_rho hx hy

/-- unit diagonal for every non-constant column. -/
theorem pearson_diag_one {cols : List (List ℝ)} {n : ℕ} (h : Rect cols n) {i : ℕ}
    (hi : i < cols.length) (hnc : ¬ IsConst (colVec cols n i)) :
    entryD none (pearson cols) i i = some 1 := by
  rw [pearson, entryD_table _ _ hi hi, pearsonEntry_eq_rho h hi hi, rho_self hnc]

/-- every defined entry is the (unclipped) Cauchy–Schwarz quotient and lies in `[-1, 1]`. -/
theorem pearson_range {cols : List (List ℝ)} {n : ℕ} (h : Rect cols n) {i j : ℕ} {v : ℝ}
    (hv : entryD none (pearson cols) i j = some v) :
    v = S (colVec cols n i) (colVec cols n j)
          / Real.sqrt (S (colVec cols n i) (colVec cols n i) * S (colVec cols n j) (colVec cols n j))
      ∧ -1 ≤ v ∧ v ≤ 1 := by
  rw [pearson] at hv
  by_cases hi : i < cols.length
  · by_cases hj : j < cols.length
    · rw [entryD_table _ _ hi hj, pearsonEntry_eq_rho h hi hj] at hv
      refine ⟨?_, rho_range hv⟩
      unfold rho at hv
      split_ifs at hv
      simpa using hv.symm
    · rw [entryD_table_col_ge _ _ _ (not_lt.1 hj)] at hv; cases hv
  · rw [entryD_table_row_ge _ _ _ (not_lt.1 hi)] at hv; cases hv

/-- the matrix the code keeps when it is well conditioned (`nan_to_num(corr(scores))`) is positive
    semi-definite — it is the Gram matrix of the standardised columns — whatever the columns are
    (duplicated, affine-dependent, constant …). -/
theorem pearson_psd {cols : List (List ℝ)} {n : ℕ} (h : Rect cols n) :
    (toMat cols.length (preRidge cols)).PosSemidef := by
  rw [toMat_preRidge h]; exact corrMat_posSemidef _

/-- a constant column has undefined (`0/0`) correlation with every column including itself; all
    these entries become `0`, and the matrix stays PSD. -/
theorem constant_zero {cols : List (List ℝ)} {n : ℕ} (h : Rect cols n) {i : ℕ}
    (hi : i < cols.length) (hc : IsConst (colVec cols n i)) :
    (∀ j, entryD none (pearson cols) i j = none ∧ entryD none (pearson cols) j i = none)
      ∧ (∀ j, entryD 0 (preRidge cols) i j = 0 ∧ entryD 0 (preRidge cols) j i = 0)
      ∧ (toMat cols.length (preRidge cols)).PosSemidef := by
  have key : ∀ j, entryD none (pearson cols) i j = none := by
    intro j
    by_cases hj : j < cols.length
    · rw [pearson, entryD_table _ _ hi hj, pearsonEntry_eq_rho h hi hj, rho_eq_none_iff]
      exact Or.inl hc
    · rw [pearson, entryD_table_col_ge _ _ _ (not_lt.1 hj)]
  have key0 : ∀ j, entryD 0 (preRidge cols) i j = 0 := by
    intro j
    by_cases hj : j < cols.length
    · have := key j
      rw [pearson, entryD_table _ _ hi hj] at this
      rw [preRidge_eq_table, entryD_table _ _ hi hj, this, nanToZero1_real]; rfl
    · rw [preRidge_eq_table, entryD_table_col_ge _ _ _ (not_lt.1 hj)]
  have symm0 : ∀ a b, entryD (0 : ℝ) (preRidge cols) a b = entryD 0 (preRidge cols) b a := by
    intro a b
    have := corr_symm cols (Gen.GaussCorr.condThreshold : ℝ) a b
    rwa [corrModel_noridge cols (lt_irrefl _), ofNat_real, Nat.cast_zero] at this
  refine ⟨fun j => ⟨key j, ?_⟩, fun j => ⟨key0 j, ?_⟩, pearson_psd h⟩
  · rw [← pearson_symm]; exact key j
  · rw [← symm0]; exact key0 j

/-- generic ridge fact: for symmetric PSD `R` and `ε > 0`, `R + εI` is symmetric, positive
    definite, with diagonal `R i i + ε`. -/
theorem ridge_generic {k : ℕ} {R : Matrix (Fin k) (Fin k) ℝ} (hR : R.PosSemidef) {ε : ℝ} (hε : 0 < ε) :
    (R + ε • (1 : Matrix (Fin k) (Fin k) ℝ)).IsSymm
      ∧ (R + ε • (1 : Matrix (Fin k) (Fin k) ℝ)).PosDef
      ∧ ∀ i, (R + ε • (1 : Matrix (Fin k) (Fin k) ℝ)) i i = R i i + ε := by
  have hpd := ridge_posDef hR hε
  refine ⟨?_, hpd, fun i => by simp⟩
  have := hpd.isHermitian
  rwa [Matrix.IsHermitian, Matrix.conjTranspose_eq_transpose_of_trivial] at this

/-- when the supplied condition number exceeds the generated threshold the model returns
    `R + εI` (ε the generated ridge constant, `> 0`): symmetric, positive definite, diagonal `1 + ε`
    for a non-constant column and `ε` for a constant one. -/
theorem ridge_preserves {cols : List (List ℝ)} {n : ℕ} (h : Rect cols n) {c : ℝ}
    (hc : Gen.GaussCorr.condThreshold < c) :
    toMat cols.length (corrModel cols c)
        = toMat cols.length (preRidge cols)
          + (Gen.GaussCorr.ridgeConst : ℝ) • (1 : Matrix (Fin cols.length) (Fin cols.length) ℝ)
      ∧ (0 : ℝ) < Gen.GaussCorr.ridgeConst
      ∧ (toMat cols.length (corrModel cols c)).IsSymm
      ∧ (toMat cols.length (corrModel cols c)).PosDef
      ∧ (∀ i : Fin cols.length, ¬ IsConst (colVec cols n i) →
          toMat cols.length (corrModel cols c) i i = 1 + Gen.GaussCorr.ridgeConst)
      ∧ (∀ i : Fin cols.length, IsConst (colVec cols n i) →
          toMat cols.length (corrModel cols c) i i = Gen.GaussCorr.ridgeConst) := by
  have e := toMat_corrModel_ridge h hc
  obtain ⟨hs, hp, hd⟩ := ridge_generic (corrMat_posSemidef (scoreFn cols n)) epsilon_pos
  rw [← e] at hs hp hd
  refine ⟨by rw [e, toMat_preRidge h], epsilon_pos, hs, hp, fun i hnc => ?_, fun i hc' => ?_⟩
  · rw [hd i, corrMat, scoreFn, rho_self hnc]; rfl
  · rw [hd i, corrMat, scoreFn, (rho_eq_none_iff _ _).2 (Or.inl hc')]; simp

/-- otherwise the matrix is returned unchanged. -/
theorem ridge_not_applied (cols : List (List ℝ)) {c : ℝ} (hc : ¬ Gen.GaussCorr.condThreshold < c) :
    corrModel cols c = preRidge cols :=
  corrModel_noridge cols hc

/-- in both branches of the ridge decision the fitted matrix is positive semi-definite. -/
theorem corr_psd {cols : List (List ℝ)} {n : ℕ} (h : Rect cols n) (c : ℝ) :
    (toMat cols.length (corrModel cols c)).PosSemidef := by
  by_cases hc : Gen.GaussCorr.condThreshold < c
  · exact (ridge_preserves h hc).2.2.2.1.posSemidef
  · rw [ridge_not_applied cols hc]; exact pearson_psd h

/-- in both branches every off-diagonal entry of the fitted matrix lies in `[-1, 1]`. -/
theorem corr_offdiag_range {cols : List (List ℝ)} {n : ℕ} (h : Rect cols n) (c : ℝ) {i j : ℕ}
    (hi : i < cols.length) (hj : j < cols.length) (hij : i ≠ j) :
    -1 ≤ entryD 0 (corrModel cols c) i j ∧ entryD 0 (corrModel cols c) i j ≤ 1 := by
  have hv : entryD 0 (corrModel cols c) i j = (rho (colVec cols n i) (colVec cols n j)).getD 0 := by
    rw [corrModel_eq_table, entryD_table _ _ hi hj, if_neg hij, pearsonEntry_eq_rho h hi hj,
      nanToZero1_real]
    simp
  rw [hv]
  cases hr : rho (colVec cols n i) (colVec cols n j) with
  | none => simp
  | some v => simpa using rho_range hr

/-- the marginal CDF values are clipped away from 0 and 1 by the generated bounds. -/
theorem clip_away (u : ℝ) :
    (0 : ℝ) < clip Gen.GaussCorr.clipLo Gen.GaussCorr.clipHi u
      ∧ clip Gen.GaussCorr.clipLo Gen.GaussCorr.clipHi u < 1 := by
  obtain ⟨h1, h2⟩ := clip_mem clipLo_le_clipHi u
  exact ⟨lt_of_lt_of_le clipLo_pos h1, lt_of_le_of_lt h2 clipHi_lt_one⟩

/-- entry `(i, j)` of the fitted matrix is the Pearson correlation (`0` when undefined) of columns
    `i` and `j` after `x ↦ ppf(clip(cdf_i(x)))`, plus the ridge on the diagonal when applied.
    `ppf` (= `scipy.stats.norm.ppf`) and the fitted `cdfs` are arbitrary external functions. -/
theorem entry_is_pearson_of_scores {L : Type} (lab : List L) (ppf : ℝ → ℝ) (cdfs : List (ℝ → ℝ))
    {X : List (List ℝ)} {n : ℕ} (hX : Rect X n) (hF : cdfs.length = X.length) (c : ℝ) {i j : ℕ}
    (hi : i < X.length) (hj : j < X.length) :
    entryD 0 (fitModel lab ppf cdfs X c).data i j
      = (rho (vec n (scoreCol ppf cdfs X i)) (vec n (scoreCol ppf cdfs X j))).getD 0
        + if Gen.GaussCorr.condThreshold < c ∧ i = j then Gen.GaussCorr.ridgeConst else 0 := by
  have hlen := transformToNormal_length ppf cdfs X hF
  have hi' : i < (transformToNormal ppf cdfs X).length := hlen ▸ hi
  have hj' : j < (transformToNormal ppf cdfs X).length := hlen ▸ hj
  have hR := transformToNormal_rect ppf cdfs hX
  simp only [fitModel, fitCorrelation]
  rw [corrModel_eq_table, entryD_table _ _ hi' hj', pearsonEntry_eq_rho hR hi' hj', nanToZero1_real,
    colVec, colVec, transformToNormal_getD ppf cdfs X hF hi, transformToNormal_getD ppf cdfs X hF hj]
  by_cases hc : Gen.GaussCorr.condThreshold < c
  · by_cases hij : i = j <;> simp [hc, hij]
  · simp [hc]

/-- "unit diagonal for every non-constant (raw) column" holds when the score map
    `x ↦ ppf(clip(cdf_i(x)))` separates the values of that column (e.g. a strictly increasing fitted
    CDF that is not saturated by the clip, and a strictly increasing `ppf`).  PARTIAL: this
    separation is a property of the fitted marginal, an external object; it fails for degenerate
    marginal fits (see `diag_one_raw_counterexample` and the recorded finding).
    Superseded by `CopVerif.Props.C02b.diag_one_raw_iff` (exact: the diagonal is `1` iff two values
    of the column get different scores), `C02b.diag_one_raw` (one separated pair and a `ppf`
    strictly increasing on the clip range suffice) and `C02b.diag_one_raw_of_straddle`; this theorem
    is the special case `C02b.diag_one_raw_of_separating`. -/
theorem diag_one_raw_partial {L : Type} (lab : List L) (ppf : ℝ → ℝ) (cdfs : List (ℝ → ℝ))
    {X : List (List ℝ)} {n : ℕ} (hX : Rect X n) (hF : cdfs.length = X.length) (c : ℝ) {i : ℕ}
    (hi : i < X.length)
    (hnc : ∃ a ∈ X.getD i [], ∃ b ∈ X.getD i [], a ≠ b)
    (hinj : ∀ a ∈ X.getD i [], ∀ b ∈ X.getD i [],
      ppf (clip Gen.GaussCorr.clipLo Gen.GaussCorr.clipHi (cdfs.getD i id a))
        = ppf (clip Gen.GaussCorr.clipLo Gen.GaussCorr.clipHi (cdfs.getD i id b)) → a = b) :
    entryD 0 (fitModel lab ppf cdfs X c).data i i
      = 1 + if Gen.GaussCorr.condThreshold < c then Gen.GaussCorr.ridgeConst else 0 := by
  rw [entry_is_pearson_of_scores lab ppf cdfs hX hF c hi hi]
  have hlen : (scoreCol ppf cdfs X i).length = n := by
    rw [scoreCol, List.length_map]; exact hX.getD_length hi
  have hnc' : ¬ IsConst (vec n (scoreCol ppf cdfs X i)) := by
    rw [isConst_vec_iff hlen]
    intro hconst
    obtain ⟨a, ha, b, hb, hab⟩ := hnc
    apply hab
    apply hinj a ha b hb
    apply hconst
    · exact List.mem_map.2 ⟨a, ha, rfl⟩
    · exact List.mem_map.2 ⟨b, hb, rfl⟩
  rw [rho_self hnc']
  simp

/-- the raw-column reading of "unit diagonal for every non-constant column" is FALSE of the code
    for an arbitrary fitted marginal: a marginal whose CDF is saturated on the data (here `≡ 1`)
    turns the non-constant column `[1, 2]` into a constant score column, and the diagonal entry is
    `0` (not `1`). -/
theorem diag_one_raw_counterexample :
    ∃ (ppf : ℝ → ℝ) (cdfs : List (ℝ → ℝ)) (X : List (List ℝ)),
      Rect X 2 ∧ cdfs.length = X.length ∧ (∃ a ∈ X.getD 0 [], ∃ b ∈ X.getD 0 [], a ≠ b)
        ∧ entryD 0 (fitModel [()] ppf cdfs X 0).data 0 0 = 0 := by
  refine ⟨id, [fun _ => 1], [[1, 2]], ?_, rfl, ⟨1, by simp, 2, by simp, by norm_num⟩, ?_⟩
  · intro c hc; simp at hc; subst hc; rfl
  · have hX : Rect [[(1 : ℝ), 2]] 2 := by intro c hc; simp at hc; subst hc; rfl
    rw [entry_is_pearson_of_scores [()] id [fun _ => 1] hX rfl 0 (by simp) (by simp)]
    have hconst : IsConst (vec 2 (scoreCol id [fun _ => (1 : ℝ)] [[1, 2]] 0)) := by
      rw [isConst_vec_iff (by simp [scoreCol])]
      intro a ha b hb
      simp [scoreCol] at ha hb
      rw [ha, hb]
    rw [(rho_eq_none_iff _ _).2 (Or.inl hconst)]
    have : ¬ ((Gen.GaussCorr.condThreshold : ℝ) < 0) := by
      simp [Gen.GaussCorr.condThreshold]
    simp [this]

/-! ## non-vacuity -/

/-- a rectangular table with a non-constant and a constant column. -/
example : Rect [[1, 2, 4], [5, 5, 5]] 3 ∧ ¬ IsConst (colVec [[1, 2, 4], [5, 5, 5]] 3 0)
    ∧ IsConst (colVec [[1, 2, 4], [5, 5, 5]] 3 1) := by
  refine ⟨?_, ?_, ?_⟩
  · intro c hc; simp at hc; rcases hc with rfl | rfl <;> rfl
  · intro h
    have := h ⟨0, by norm_num⟩ ⟨1, by norm_num⟩
    simp [colVec, vec] at this
  · intro r s
    fin_cases r <;> fin_cases s <;> simp [colVec, vec]

/-- the ridge branch is reachable: `+∞`-like condition numbers exceed the threshold. -/
example : (Gen.GaussCorr.condThreshold : ℝ) < 2 ^ 53 := by
  simp [Gen.GaussCorr.condThreshold]; norm_num

end CopVerif.Props.C02
