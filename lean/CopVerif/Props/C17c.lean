import CopVerif.Real.Inst
import CopVerif.Gen.VineFlowGen
import CopVerif.Props.C17
import CopVerif.Props.C17b
/-!
# C17c — the C17 theorems re-checked against what the code says NOW (translator tie)

`tools/gen_vineflow.py` regenerates `Gen/VineFlowGen.lean` from the AST of `copulas/multivariate/tree.py`
(`Edge._identify_eds_ing`, `Edge.get_conditional_uni`, `Edge.get_child_edge`, `Edge.get_likelihood`,
`Tree.get_likelihood`, `Tree.prepare_next_tree`, `Tree.get_adjacent_matrix`) and `vine.py` (`get_likelihood`,
`_sample_row`) on every run.  This file proves,
for ALL inputs, that the generated definitions equal the hand model `Model/VineFlow.lean` (`gen_*_eq`), so
every theorem of `Props/C17.lean` / `C17b.lean` transfers; the main ones are restated over the generated definitions,
with the two recorded findings reproduced BY the generated code (`…_counterexample`, by evaluation).
A change of an index (`U[0]`/`U[1]`, `L`/`R`, `parents[0]`/`[1]`, row/column of a cell), of a set operation, of the
operand order of a pair-copula call or of the 0/1 correction breaks a `gen_*_eq` bridge.
-/
namespace CopVerif.Props.C17c
open CopVerif CopVerif.Model.VineFlow CopVerif.Gen.VineFlowGen

theorem nat_beq_comm (a b : Nat) : (a == b) = (b == a) := by
  rw [Bool.eq_iff_iff]; simp only [beq_iff_eq]; exact eq_comm

theorem pyInsertSorted_length (x : Nat) (l : List Nat) : (pyInsertSorted x l).length = l.length + 1 := by
  induction l with
  | nil => rfl
  | cons y ys ih => unfold pyInsertSorted; split <;> simp [ih]

theorem pySorted_length (l : List Nat) : (pySorted l).length = l.length := by
  induction l with
  | nil => rfl
  | cons x xs ih => simp [pySorted, pyInsertSorted_length, ih]

theorem unpack2_pySorted (l : List Nat) :
    unpack2 (pySorted l) = match l with
      | [a, b] => .ok (min a b, max a b)
      | _ => .error .valueError := by
  match l with
  | [] => rfl
  | [a] => rfl
  | [a, b] =>
    simp only [pySorted, pyInsertSorted]
    by_cases h : a ≤ b
    · simp [h, unpack2]
    · have h' : b ≤ a := by omega
      simp only [h, if_false, unpack2]
      by_cases h2 : a = b
      · omega
      · simp [Nat.min_def, Nat.max_def, h]
  | a :: b :: c :: r =>
    have hl : (pySorted (a :: b :: c :: r)).length = r.length + 3 := by simp [pySorted_length]
    generalize pySorted (a :: b :: c :: r) = s at hl
    match s, hl with
    | [], h => simp at h
    | [_], h => simp at h
    | [_, _], h => simp at h
    | _ :: _ :: _ :: _, _ => rfl

/-- `Edge._identify_eds_ing` as translated = the hand model's `identify`. -/
theorem gen_identify_eq (p q : Edge) : identifyEdsIng p q = identify p q := by
  unfold identifyEdsIng identify
  simp only [pySet, pyUnion, bind, Except.bind, pure, Except.pure, unpack2_pySorted]
  have hp : [p.L, p.R] ++ p.D = p.vars := rfl
  have hq : [q.L, q.R] ++ q.D = q.vars := rfl
  rw [hp, hq]
  generalize symDiff p.vars q.vars = s
  match s with
  | [] => rfl
  | [_] => rfl
  | [_, _] => rfl
  | _ :: _ :: _ :: _ => rfl

/-- `Edge.get_conditional_uni` as translated = `condUni`. -/
theorem gen_condUni_eq (p0 p1 : Edge) (i0 i1 : Nat) : getConditionalUni p0 p1 i0 i1 = condUni p0 p1 i0 i1 := by
  unfold getConditionalUni condUni sideOf
  rw [gen_identify_eq]
  cases identify p0 p1 with
  | error e => rfl
  | ok v =>
    obtain ⟨l, r, D⟩ := v
    simp only [bind, Except.bind, pure, Except.pure]
    try rw [nat_beq_comm l p0.L]
    try rw [nat_beq_comm r p1.L]
    congr 2 <;> split <;> rfl

/-- `Tree.prepare_next_tree` (input selection) as translated = `edgePlan`. -/
theorem gen_edgePlan_eq (first : Bool) (prev : Tree) (e : Edge) :
    prepareEdgePlan first prev e = edgePlan first prev e := by
  unfold prepareEdgePlan prepareInputs edgePlan unpackParents
  cases first with
  | true => rfl
  | false =>
    simp only [gen_condUni_eq, bind, Except.bind, pure, Except.pure, Bool.false_eq_true, if_false]
    cases e.parents with
    | none => rfl
    | some pp =>
      obtain ⟨i0, i1⟩ := pp
      simp only
      cases getE prev i0 with
      | error x => cases getE prev i1 <;> rfl
      | ok p0 =>
        cases getE prev i1 with
        | error x => rfl
        | ok p1 =>
          simp only
          cases condUni p0 p1 i0 i1 with
          | error x => rfl
          | ok v => rfl

theorem gen_fitPlanLoop_eq (first : Bool) (prev : Tree) (ts : List Tree) :
    fitPlanLoop first prev ts = fitPlanFrom first prev ts := by
  induction ts generalizing first prev with
  | nil => rfl
  | cons t ts ih =>
    unfold fitPlanLoop fitPlanFrom
    rw [ih, show prepareEdgePlan first prev = edgePlan first prev from funext (gen_edgePlan_eq first prev)]
    rfl

/-- the whole fit plan as generated = `fitPlan`. -/
theorem gen_fitPlan_eq (trees : List Tree) : fitPlanGen trees = fitPlan trees :=
  gen_fitPlanLoop_eq true [] trees

/-- the model's view of what `Edge.get_likelihood` returned -/
def toLikEdge (r : EdgeLik) : LikEdge := ⟨r.pdfArgs.1.1, r.pdfArgs.2.1, r.pdfArgs.1.2, r.pdfArgs.2.2⟩

/-- `Edge.get_likelihood` as translated = `likEdge` (reads), and the two returned conditionals are
`h(l, r)`, `h(r, l)` of this edge's pair copula. -/
theorem gen_likEdge_eq (k i : Nat) (prev : Tree) (M : Mat) (e : Edge) :
    (edgeGetLikelihood k i prev M e).map toLikEdge = likEdge k prev M e ∧
    ∀ r, edgeGetLikelihood k i prev M e = .ok r →
      r.ret1 = .h k i r.pdfArgs.1.2 r.pdfArgs.2.2 ∧ r.ret2 = .h k i r.pdfArgs.2.2 r.pdfArgs.1.2 := by
  unfold edgeGetLikelihood likEdge unpackParents readCol
  cases hp : e.parents with
  | none =>
    by_cases hk : k = 0
    · simp [hk, bind, Except.bind, pure, Except.pure, Except.map, toLikEdge]
    · simp [hk, bind, Except.bind, Except.map]
  | some pp =>
    obtain ⟨i0, i1⟩ := pp
    simp only [Option.isNone_some, Bool.false_eq_true, if_false, bind, Except.bind, pure, Except.pure]
    cases getE prev i0 with
    | error x => cases getE prev i1 <;> simp [Except.map]
    | ok p0 =>
      cases getE prev i1 with
      | error x => simp [Except.map]
      | ok p1 =>
        simp only
        generalize headE (Model.VineFlow.sdiff e.D p0.D) = a
        generalize headE (Model.VineFlow.sdiff e.D p1.D) = b
        cases a <;> cases b <;> simp [Except.map, toLikEdge]

theorem gen_treeLoop_eq (k : Nat) (prev : Tree) (M : Mat) (t : List Edge) (i : Nat) :
    (treeLoop k prev M i t).map (fun p => p.1.map toLikEdge) = mapE (likEdge k prev M) t ∧
    ∀ rs newM, treeLoop k prev M i t = .ok (rs, newM) → newM = writeAll k i t (rs.map toLikEdge) := by
  induction t generalizing i with
  | nil =>
    refine ⟨rfl, ?_⟩
    intro rs newM h
    simp [treeLoop] at h
    simp [← h.2, writeAll]
  | cons e es ih =>
    obtain ⟨h1, h2⟩ := gen_likEdge_eq k i prev M e
    obtain ⟨ih1, ih2⟩ := ih (i + 1)
    unfold treeLoop mapE
    rw [← h1, ← ih1]
    cases he : edgeGetLikelihood k i prev M e with
    | error x => cases treeLoop k prev M (i + 1) es <;> simp [Except.map]
    | ok r =>
      cases hl : treeLoop k prev M (i + 1) es with
      | error x => simp [Except.map]
      | ok v =>
        obtain ⟨rs, newM⟩ := v
        refine ⟨by simp [Except.map], ?_⟩
        intro rs' newM' h
        simp only [Except.ok.injEq, Prod.mk.injEq] at h
        obtain ⟨rfl, rfl⟩ := h
        obtain ⟨a, b⟩ := h2 r he
        simp [writeAll, ih2 rs newM hl, cellsOf, treeWrites, a, b, toLikEdge]

/-- `Tree.get_likelihood` as generated = `likTree`: same reads, same new matrix. -/
theorem gen_likTree_eq (k : Nat) (prev : Tree) (M : Mat) (t : Tree) :
    (treeGetLikelihood k prev M t).map (fun p => (p.1.map toLikEdge, p.2)) = likTree k prev M t := by
  obtain ⟨h1, h2⟩ := gen_treeLoop_eq k prev M t 0
  unfold treeGetLikelihood likTree
  rw [← h1]
  cases h : treeLoop k prev M 0 t with
  | error x => rfl
  | ok v =>
    obtain ⟨rs, newM⟩ := v
    simp [Except.map, h2 rs newM h]

theorem gen_vineLoop_eq (ts : List Tree) (k : Nat) (prev : Tree) (M : Mat) :
    (vineLoop k prev M ts).map (fun p => p.map (·.map toLikEdge)) = likFrom k prev M ts := by
  induction ts generalizing k prev M with
  | nil => rfl
  | cons t ts ih =>
    unfold vineLoop likFrom
    rw [← gen_likTree_eq]
    cases treeGetLikelihood k prev M t with
    | error x => rfl
    | ok v =>
      obtain ⟨rs, newM⟩ := v
      simp only [Except.map]
      rw [← ih]
      cases vineLoop (k + 1) t newM ts <;> rfl

/-- `VineCopula.get_likelihood` as generated = `likPlan`. -/
theorem gen_likPlan_eq (trees : List Tree) :
    (vineGetLikelihood trees).map (fun p => p.map (·.map toLikEdge)) = likPlan trees :=
  gen_vineLoop_eq trees 0 [] []

/-- the generated value = the model's `likValue` of the corresponding plan. -/
theorem gen_likValue_eq {α : Type} [Add α] [NumFns α] (I : Interp α) (u : Nat → α)
    (junk : Nat → Nat → Nat → α) (plan : List (List EdgeLik)) :
    likValueGen I u junk plan =
      likValue I u junk ((plan.map (·.map toLikEdge)).map (·.map LikEdge.args)) := by
  unfold likValueGen likValue treeEdgeValue
  congr 1
  simp [List.map_map, Function.comp_def, toLikEdge, LikEdge.args]

/-- `prepare_next_tree`'s per-row arithmetic (two calls of `partial_derivative`, the 0/1 correction, the order of
the rows of `edge.U`) as translated = `edgeU` / `fix01`. -/
theorem gen_edgeU_eq {α : Type} [Sub α] [LE α] [DecidableLE α] [NumFns α] (ε : α) (H : α → α → α) (l r : α) :
    prepareU ε H l r = edgeU ε H l r := rfl

/-- `Edge.get_child_edge` as translated builds exactly the edge `childOK` describes: conditioned pair and
conditioning set from `identify`, parents in the order given, and its `select_copula` inputs are `condUni`. -/
theorem gen_childEdge_eq (idx : Nat) (p0 p1 : Edge) (i0 i1 : Nat) :
    getChildEdge idx p0 p1 i0 i1 =
      match identify p0 p1, condUni p0 p1 i0 i1 with
      | .ok (l, r, D), .ok inp => .ok ⟨⟨idx, l, r, D, some (i0, i1)⟩, inp⟩
      | .error x, _ => .error x
      | _, .error x => .error x := by
  unfold getChildEdge
  rw [gen_identify_eq, gen_condUni_eq]
  cases identify p0 p1 with
  | error x => rfl
  | ok v =>
    obtain ⟨l, r, D⟩ := v
    cases condUni p0 p1 i0 i1 with
    | error x => rfl
    | ok inp => rfl

/-- `Tree.get_adjacent_matrix` as translated = `adjB`. -/
theorem gen_adj_eq (t : Tree) (a b : Nat) : adjGen t a b = adjB t a b := by
  simp [adjGen, adjB, adjWrites]

theorem gen_adjRow_eq (t : Tree) (d c : Nat) : adjRowGen t d c = adjRow t d c := by
  unfold adjRowGen adjRow srNeighbor
  congr 1
  funext s
  exact gen_adj_eq t c s

/-- the `while explore` traversal as generated = `traverse`. -/
theorem gen_traverse_eq (t : Tree) (d : Nat) (fuel : Nat) (ex vis : List Nat) :
    traverseGen t d fuel ex vis = traverse t d fuel ex vis := by
  induction fuel generalizing ex vis with
  | zero => cases ex <;> rfl
  | succ n ih =>
    cases ex with
    | nil => rfl
    | cons c rest =>
      unfold traverseGen Model.VineFlow.traverse
      simp only [gen_adjRow_eq, ih, srNewNeighbor]
      try rfl

theorem gen_upperCond_eq (e : Edge) (current : Nat) (visited : List Nat) :
    srUpperCond e current visited = e.vars.all (fun x => x == current || visited.contains x) := by
  rw [Bool.eq_iff_iff]
  simp only [srUpperCond, pySubset, pyAdd, pySet, Edge.vars, List.all_eq_true,
    List.mem_append, List.mem_cons, List.not_mem_nil, or_false, Bool.or_eq_true, beq_iff_eq,
    List.contains_eq_mem, decide_eq_true_eq]
  constructor
  · intro h x hx
    rcases hx with rfl | rfl | hx
    · exact (h _ (Or.inl (Or.inr rfl))).symm
    · exact (h _ (Or.inr rfl)).symm
    · exact (h _ (Or.inl (Or.inl hx))).symm
  · intro h x hx
    rcases hx with (hx | rfl) | rfl
    · exact (h _ (Or.inr (Or.inr hx))).symm
    · exact (h _ (Or.inl rfl)).symm
    · exact (h _ (Or.inr (Or.inl rfl))).symm

theorem gen_firstLevel_eq (e : Edge) (c v0 : Nat) :
    srFirstLevel e c v0 = ((e.L == c && e.R == v0) || (e.R == c && e.L == v0)) := by
  unfold srFirstLevel
  try rw [nat_beq_comm c e.L]
  try rw [nat_beq_comm c e.R]
  try rw [nat_beq_comm v0 e.L]
  try rw [nat_beq_comm v0 e.R]
  cases (e.L == c) <;> cases (e.R == v0) <;> cases (e.R == c) <;> cases (e.L == v0) <;> rfl

theorem gen_upperTouch_eq (e : Edge) (c : Nat) : srUpperTouch e c = (e.L == c || e.R == c) := by
  unfold srUpperTouch
  try rw [nat_beq_comm c e.L]
  try rw [nat_beq_comm c e.R]
  cases (e.L == c) <;> cases (e.R == c) <;> rfl

/-- the level search as generated = `findEdge`. -/
theorem gen_findEdge_eq (i : Nat) (tree : Tree) (current v0 : Nat) (visited : List Nat) :
    findEdgeGen i tree current v0 visited = findEdge i tree current v0 visited := by
  have h1 : (fun e => srFirstLevel e current v0) =
      fun e : Edge => (e.L == current && e.R == v0) || (e.R == current && e.L == v0) :=
    funext fun e => gen_firstLevel_eq e current v0
  have h2 : (fun e => srUpperTouch e current) = fun e : Edge => (e.L == current || e.R == current) :=
    funext fun e => gen_upperTouch_eq e current
  unfold findEdgeGen findEdge srIsFirst srFound
  rw [h1, h2]
  by_cases hi : i = 0
  · subst hi
    simp only [beq_self_eq_true, if_true]
    try rfl
  · have : (i == 0) = false := by simp [hi]
    simp only [this, hi, if_false, Bool.false_eq_true, gen_upperCond_eq]
    try rfl

theorem gen_visitSteps_eq (trees : List Tree) (trunc itr current v0 : Nat) (visited : List Nat) (n : Nat)
    (hn : n ≤ itr) :
    visitStepsGen trees trunc itr current v0 visited n = visitSteps trees trunc itr current v0 visited n := by
  induction n with
  | zero => rfl
  | succ i ih =>
    have ih := ih (by omega)
    have hf : srFresh i itr = (i + 1 == itr) := by
      unfold srFresh
      rw [Bool.eq_iff_iff]; simp; omega
    unfold visitStepsGen visitSteps
    simp only [ih, gen_findEdge_eq, hf, srSkipLevel, decide_eq_true_eq]
    try rfl

theorem gen_annotate_eq (trees : List Tree) (trunc : Nat) (order : List (Nat × List Nat)) (itr : Nat) (td : Bool) :
    annotateGen trees trunc itr td order = annotate trees trunc itr td order := by
  induction order generalizing itr td with
  | nil => rfl
  | cons p rest ih =>
    obtain ⟨c, visited⟩ := p
    cases visited with
    | nil => simp only [annotateGen, annotate, ih] <;> try rfl
    | cons v0 vs => simp only [annotateGen, annotate, ih, gen_visitSteps_eq _ _ _ _ _ _ _ (Nat.le_refl _)] <;> try rfl

/-- **`_sample_row` as generated = `sampleRow`** (traversal order, level search, which pair copulas are inverted in
which order, fresh / stale `tmp`). -/
theorem gen_sampleRow_eq (trees : List Tree) (d trunc first : Nat) :
    sampleRowGen trees d trunc first = sampleRow trees d trunc first := by
  unfold sampleRowGen sampleRow
  cases trees with
  | nil => rfl
  | cons t ts => simp only [gen_traverse_eq, gen_annotate_eq] <;> try rfl

/-! ## the C17 theorems, restated over the GENERATED definitions -/

/-- if the model's plan exists, the generated `get_likelihood` returns a result whose reads are that plan. -/
theorem gen_plan_of_likPlan {trees : List Tree} {plan : List (List LikEdge)} (h : likPlan trees = .ok plan) :
    ∃ g, vineGetLikelihood trees = .ok g ∧ g.map (·.map toLikEdge) = plan := by
  have := gen_likPlan_eq trees
  rw [h] at this
  cases hg : vineGetLikelihood trees with
  | error x => rw [hg] at this; simp [Except.map] at this
  | ok g => rw [hg] at this; simp only [Except.map, Except.ok.injEq] at this; exact ⟨g, rfl, this⟩

/-- **`fix01_range` for the code as it is now**: whatever `partial_derivative` returns, both rows
`prepare_next_tree` stores in `edge.U` are strictly inside `(0,1)`; values already inside are stored unchanged. -/
theorem gen_edgeU_range {ε : ℝ} (H : ℝ → ℝ → ℝ) (hε : 0 < ε) (hε2 : ε < 1 / 2) (l r : ℝ) :
    0 < (prepareU ε H l r).1 ∧ (prepareU ε H l r).1 < 1 ∧ 0 < (prepareU ε H l r).2 ∧ (prepareU ε H l r).2 < 1 ∧
      (0 < H l r → H l r < 1 → (prepareU ε H l r).1 = H l r) ∧
      (0 < H r l → H r l < 1 → (prepareU ε H l r).2 = H r l) ∧
      (H l r ≤ 0 → (prepareU ε H l r).1 = ε) ∧ (1 ≤ H l r → (prepareU ε H l r).1 = 1 - ε) := by
  rw [gen_edgeU_eq]
  obtain ⟨a1, a2, a3, a4, a5, _⟩ := C17.fix01_range hε hε2 (H l r)
  obtain ⟨b1, b2, _, _, b5, _⟩ := C17.fix01_range hε hε2 (H r l)
  exact ⟨a1, a2, b1, b2, a5, b5, a3, a4⟩

example : (0 : ℝ) < 2⁻¹ ^ 23 ∧ (2⁻¹ ^ 23 : ℝ) < 1 / 2 := by norm_num

/-- **`edge_inputs_spec` (partial: hypothesis `flowOK` inside `childOK`) for the generated
`prepare_next_tree` / `get_conditional_uni`**: the inputs selected are, from `parents[0]`, the
pseudo-observation of `e.L` given exactly `e.D` and from `parents[1]` the one of `e.R` given `e.D`.  Missing for
full strength: `flowOK` is not guaranteed by `sort_edge` (`gen_edge_inputs_counterexample`). -/
theorem gen_edge_inputs_spec_partial {prev : Tree} {e : Edge}
    (hwf : treeWF prev = true) (hc : childOK prev e = true) :
    ∃ i0 i1 p0 p1 s0 s1, e.parents = some (i0, i1) ∧ prev[i0]? = some p0 ∧ prev[i1]? = some p1 ∧
      prepareEdgePlan false prev e = .ok ⟨.uof i0 s0, .uof i1 s1⟩ ∧
      slotVar p0 s0 = e.L ∧ slotVar p1 s1 = e.R ∧
      (∀ x, x ∈ slotGiven p0 s0 ↔ x ∈ e.D) ∧ (∀ x, x ∈ slotGiven p1 s1 ↔ x ∈ e.D) ∧
      needSlot p0 p1 i0 i1 e.L = some (.uof i0 s0) ∧ needSlot p0 p1 i0 i1 e.R = some (.uof i1 s1) := by
  rw [gen_edgePlan_eq]
  exact C17.edge_inputs_spec_partial hwf hc

example : treeWF [⟨0, 0, 1, [], none⟩, ⟨1, 0, 3, [], none⟩] = true ∧
    childOK [⟨0, 0, 1, [], none⟩, ⟨1, 0, 3, [], none⟩] ⟨0, 1, 3, [0], some (0, 1)⟩ = true := by decide

/-- **The recorded finding `Edge.get_conditional_uni:wrong-parent-pseudo-observation`, reproduced by the
code as translated**: on `dvine4` the generated `get_child_edge` builds the level-3 edge `(1,3 | 0,2)` from the
parents `[(0,3 | 2), (1,2 | 0)]` and hands `select_copula` the columns `parents[0].U[1] = F(3 | 0,2)` and
`parents[1].U[1] = F(2 | 0,1)`; `prepare_next_tree` selects the same; the edge needs `parents[1].U[0]` and
`parents[0].U[1]`. -/
theorem gen_edge_inputs_counterexample :
    ∃ (t1 prev : Tree) (p0 p1 e : Edge), C17.dvine4 = [t1, prev, [e]] ∧ prev = [p0, p1] ∧
      treeWF prev = true ∧ flowOK e p0 p1 = false ∧
      getChildEdge 0 p0 p1 0 1 = .ok ⟨e, (.uof 0 1, .uof 1 1)⟩ ∧
      prepareEdgePlan false prev e = .ok ⟨.uof 0 1, .uof 1 1⟩ ∧
      slotVar p0 1 = 3 ∧ e.L = 1 ∧ slotVar p1 1 = 2 ∧ e.R = 3 ∧
      needSlot p0 p1 0 1 e.L = some (.uof 1 0) ∧ needSlot p0 p1 0 1 e.R = some (.uof 0 1) := by
  refine ⟨_, _, ⟨0, 0, 3, [2], some (1, 0)⟩, ⟨1, 1, 2, [0], some (2, 1)⟩,
    ⟨0, 1, 3, [0, 2], some (0, 1)⟩, rfl, rfl, ?_⟩
  refine ⟨by decide, by decide, by decide, by decide, rfl, rfl, rfl, rfl, rfl, rfl⟩

/-- the edge the generated `get_child_edge` returns satisfies the constructional part of `childOK` (conditioned
pair, conditioning set, parents as handed over); what remains of `childOK` is exactly the silent hypothesis
(`flowOK`), the `sort_edge` order of the arguments and distinctness of the conditioning variables. -/
theorem gen_childEdge_childOK {prev : Tree} {idx i0 i1 : Nat} {p0 p1 : Edge} {c : ChildEdge}
    (h0 : prev[i0]? = some p0) (h1 : prev[i1]? = some p1)
    (h : getChildEdge idx p0 p1 i0 i1 = .ok c) :
    c.edge.index = idx ∧ c.edge.parents = some (i0, i1) ∧ condUni p0 p1 i0 i1 = .ok c.selectInputs ∧
      identify p0 p1 = .ok (c.edge.L, c.edge.R, c.edge.D) ∧
      childOK prev c.edge = (nodupB c.edge.D && flowOK c.edge p0 p1 && sortedOK p0 p1) := by
  rw [gen_childEdge_eq] at h
  cases hi : identify p0 p1 with
  | error x => rw [hi] at h; cases condUni p0 p1 i0 i1 <;> simp at h
  | ok v =>
    obtain ⟨l, r, D⟩ := v
    cases hc : condUni p0 p1 i0 i1 with
    | error x => rw [hi, hc] at h; simp at h
    | ok inp =>
      rw [hi, hc] at h
      simp only [Except.ok.injEq] at h
      subst h
      refine ⟨rfl, rfl, rfl, rfl, ?_⟩
      have hs : sameSet D D = true := by simp [sameSet]
      simp [childOK, h0, h1, hi, hs]

example : getChildEdge 0 ⟨0, 0, 1, [], none⟩ ⟨1, 0, 3, [], none⟩ 0 1 =
    .ok ⟨⟨0, 1, 3, [0], some (0, 1)⟩, (.uof 0 1, .uof 1 1)⟩ := by decide

/-- **`fit_plan_total` (partial: `goodFrom`)**: in a good vine no step of the generated fitting data flow raises. -/
theorem gen_fit_plan_total_partial (ts : List Tree) (prev : Tree) (hwf : treeWF prev = true)
    (hg : goodFrom prev ts = true) : ∃ plan, fitPlanLoop false prev ts = .ok plan := by
  rw [gen_fitPlanLoop_eq]
  exact C17.fit_plan_total_partial ts prev hwf hg

/-- **`likelihood_reads_written` (partial: hypothesis `goodVine`) for the generated `get_likelihood`**: it raises
nothing and every cell an edge reads at level k was written at level k − 1.  Missing: `goodVine` fails on vines
the code builds (`gen_likelihood_reads_written_counterexample`). -/
theorem gen_likelihood_reads_written_partial {trees : List Tree} (hg : goodVine trees = true) :
    ∃ g, vineGetLikelihood trees = .ok g ∧ ∀ lv ∈ g, ∀ r ∈ lv, (toLikEdge r).readsWritten = true := by
  obtain ⟨plan, h1, h2⟩ := C17.likelihood_reads_written_partial hg
  obtain ⟨g, hg1, rfl⟩ := gen_plan_of_likPlan h1
  refine ⟨g, hg1, fun lv hlv r hr => ?_⟩
  exact h2 _ (List.mem_map_of_mem hlv) _ (List.mem_map_of_mem hr)

example : goodVine C17.dvineGood = true := by decide

/-- **The recorded finding `VineCopula.get_likelihood:reads-unwritten-cells`, reproduced by the code as
translated**: on `dvine4` the generated `get_likelihood` makes the level-3 edge read `uni_matrix[1, 0]` and
`uni_matrix[3, 2]`, which level 2 never wrote (it wrote `[0,3] [3,0] [1,2] [2,1]`): both arguments of its density are
the content of `np.empty`. -/
theorem gen_likelihood_reads_written_counterexample :
    (vineGetLikelihood C17.dvine4).map (fun p => p.map (·.map toLikEdge)) = .ok C17.dvine4Plan ∧
    ((vineGetLikelihood C17.dvine4).map fun p => (p.map (·.map fun r => (toLikEdge r).readsWritten))[2]?) =
      .ok (some [false]) ∧
    ((vineGetLikelihood C17.dvine4).map fun p => (p.map (·.map fun r => (r.pdfArgs.1.2, r.pdfArgs.2.2)))[2]?) =
      .ok (some [(.junk 1 1 0, .junk 1 3 2)]) := by
  refine ⟨by decide, by decide, by decide⟩

/-- **`likelihood_is_sum_of_log_pdfs` (partial: `goodVine`)**: the value the generated `get_likelihood`
computes is `Σ_trees Σ_edges log pdf_e(a_e, b_e)` with `(a_e, b_e)` the h-propagated arguments of the
specification (chosen by VARIABLE), whatever the content of the uninitialised buffers. -/
theorem gen_likelihood_is_sum_of_log_pdfs_partial {trees : List Tree} (hg : goodVine trees = true)
    (I : Interp ℝ) (u : ℕ → ℝ) (junk : ℕ → ℕ → ℕ → ℝ) :
    ∃ g args, vineGetLikelihood trees = .ok g ∧ specArgs trees = some args ∧ argsClean args ∧
      likValueGen I u junk g =
        sumTrees (fun k i a => Real.log (I.pdf k i (evalTerm I u (fun _ _ _ => 0) a.1)
          (evalTerm I u (fun _ _ _ => 0) a.2))) 0 args := by
  obtain ⟨plan, args, h1, h2, _, h4, h5⟩ := C17.likelihood_is_sum_of_log_pdfs_partial hg I u junk
  obtain ⟨g, hg1, rfl⟩ := gen_plan_of_likPlan h1
  exact ⟨g, args, hg1, h2, h4, by rw [gen_likValue_eq]; exact h5⟩

/-- **`likelihood_deterministic` (partial: `goodVine`)**: the generated value does not depend on the content of
the `np.empty` buffers. -/
theorem gen_likelihood_deterministic_partial {trees : List Tree} (hg : goodVine trees = true)
    (I : Interp ℝ) (u : ℕ → ℝ) (j1 j2 : ℕ → ℕ → ℕ → ℝ) :
    ∃ g, vineGetLikelihood trees = .ok g ∧ likValueGen I u j1 g = likValueGen I u j2 g := by
  obtain ⟨plan, h1, h2⟩ := C17.likelihood_deterministic_partial hg I u j1 j2
  obtain ⟨g, hg1, rfl⟩ := gen_plan_of_likPlan h1
  exact ⟨g, hg1, by rw [gen_likValue_eq, gen_likValue_eq]; exact h2⟩

/-- on `dvine4` the generated value DOES depend on the previous content of the buffer. -/
theorem gen_likelihood_deterministic_counterexample :
    ∃ (I : Interp ℝ) (u : ℕ → ℝ) (j1 j2 : ℕ → ℕ → ℕ → ℝ) (g : List (List EdgeLik)),
      vineGetLikelihood C17.dvine4 = .ok g ∧ likValueGen I u j1 g ≠ likValueGen I u j2 g := by
  obtain ⟨I, u, j1, j2, h1, h2⟩ := C17.likelihood_deterministic_counterexample
  obtain ⟨g, hg1, hg2⟩ := gen_plan_of_likPlan h1
  refine ⟨I, u, j1, j2, g, hg1, ?_⟩
  rw [gen_likValue_eq, gen_likValue_eq, hg2]
  exact h2


/-! ## sampling, over the generated traversal -/

/-- **`sample_shape` for the generated `_sample_row`**: on a first tree that is a spanning tree (certificate
`rootedOK`, re-checked by the driver on every real first tree and start node) the generated `while explore` loop
terminates and assigns every column exactly once: the visit order is a permutation of the variables. -/
theorem gen_sample_shape {t : Tree} {d first : ℕ} {par depth : List ℕ}
    (h : rootedOK t d first par depth = true) :
    ∃ tr, traverseGen t d (d * d + d + 1) [first] [] = .ok tr ∧ (tr.map (·.1)).Perm (List.range d) ∧
      rowCells d (tr.map (·.1)) = List.replicate d 1 := by
  obtain ⟨order, h1, h2⟩ := visitOrder_perm h
  rw [gen_traverse_eq]
  unfold visitOrder at h1
  cases htr : Model.VineFlow.traverse t d (d * d + d + 1) [first] [] with
  | error e => simp [htr] at h1
  | ok tr =>
    simp only [htr, Except.ok.injEq] at h1
    subst h1
    exact ⟨tr, rfl, h2, rowCells_of_perm h2⟩

example : ∀ first < 4, rootedOK C17.dvine4.head! 4 first (bfsRoot C17.dvine4.head! 4 first).1
    (bfsRoot C17.dvine4.head! 4 first).2 = true := by decide

/-- the visits the generated `_sample_row` reports are the traversal order of the first tree. -/
theorem gen_sampleRow_visits {t : Tree} {rest : List Tree} {d trunc first : ℕ} {vs : List Visit}
    (h : sampleRowGen (t :: rest) d trunc first = .ok vs) :
    visitOrder t d first = .ok (vs.map (·.current)) := by
  rw [gen_sampleRow_eq] at h
  exact C17.sampleRow_visits rfl h

example : sampleRowGen C17.dvine4 4 3 0 = sampleRow C17.dvine4 4 3 0 ∧
    (sampleRowGen C17.dvine4 4 3 0).toOption.isSome = true := ⟨gen_sampleRow_eq _ _ _ _, by decide⟩

/-- **Partial** (as `C17.two_column_sampling_partial`): for two columns the generated sampler is
`x_first = PPF_first(u_first)`, `x_other = PPF_other(clamp(C⁻¹(u_other | u_first)))` for either start node; the
statistical agreement of the output is C09/C03 plus the deep search, not a theorem. -/
theorem gen_two_column_sampling_partial (n : ℕ) :
    sampleRowGen [[⟨0, 0, 1, [], none⟩]] 2 (n + 1) 0 = .ok [⟨0, none, []⟩, ⟨1, some 0, [⟨0, 0, true⟩]⟩] ∧
    sampleRowGen [[⟨0, 0, 1, [], none⟩]] 2 (n + 1) 1 = .ok [⟨1, none, []⟩, ⟨0, some 1, [⟨0, 0, true⟩]⟩] := by
  rw [gen_sampleRow_eq, gen_sampleRow_eq]
  exact C17.two_column_sampling_partial n

/-! ### unconditional on the vines covered by C17b -/

section
open CopVerif.Model CopVerif.Model.VineGood
variable {α : Type} [Preorder α] [DecidableLT α] [Neg α] [NumFns α]

/-- **`likelihood_reads_written`, full strength on the covered vines** (center vines of any size; any vine with
`d ≤ 3` columns or truncation `≤ 2`, every accepted run of the C16 construction model): the generated
`get_likelihood` raises nothing and reads only written cells. -/
theorem gen_likelihood_reads_written {vt : Vine.VType} {d t : Nat} {cs : List (Vine.Choice α)}
    {r : List (Vine.Tree × List α)} (hd : 2 ≤ d) (hcs : Vine.ChoicesOK vt d 0 cs)
    (h : Vine.trainVine vt d t cs = .ok r) (hcov : vt = .center ∨ d ≤ 3 ∨ t ≤ 2) :
    ∃ g, vineGetLikelihood (toFlow (C16.treesOf r)) = .ok g ∧
      ∀ lv ∈ g, ∀ e ∈ lv, (toLikEdge e).readsWritten = true :=
  gen_likelihood_reads_written_partial (C17b.covered_vine_good hd hcs h hcov)

/-- **`likelihood_is_sum_of_log_pdfs` and determinism, full strength on the covered vines.** -/
theorem gen_likelihood_is_sum_of_log_pdfs {vt : Vine.VType} {d t : Nat} {cs : List (Vine.Choice α)}
    {r : List (Vine.Tree × List α)} (hd : 2 ≤ d) (hcs : Vine.ChoicesOK vt d 0 cs)
    (h : Vine.trainVine vt d t cs = .ok r) (hcov : vt = .center ∨ d ≤ 3 ∨ t ≤ 2)
    (I : VineFlow.Interp ℝ) (u : ℕ → ℝ) (j1 j2 : ℕ → ℕ → ℕ → ℝ) :
    ∃ g args, vineGetLikelihood (toFlow (C16.treesOf r)) = .ok g ∧
      VineFlow.specArgs (toFlow (C16.treesOf r)) = some args ∧ VineFlow.argsClean args ∧
      likValueGen I u j1 g = likValueGen I u j2 g ∧
      likValueGen I u j1 g =
        VineFlow.sumTrees (fun k i a => Real.log (I.pdf k i (VineFlow.evalTerm I u (fun _ _ _ => 0) a.1)
          (VineFlow.evalTerm I u (fun _ _ _ => 0) a.2))) 0 args := by
  have hg := C17b.covered_vine_good hd hcs h hcov
  obtain ⟨g, args, h1, h2, h3, h4⟩ := gen_likelihood_is_sum_of_log_pdfs_partial hg I u j1
  obtain ⟨g', h1', h5⟩ := gen_likelihood_deterministic_partial hg I u j1 j2
  rw [h1] at h1'
  cases h1'
  exact ⟨g, args, h1, h2, h3, h5, h4⟩

/-- **`edge_inputs_spec`, full strength on the covered vines**, for the generated input selection. -/
theorem gen_edge_inputs_spec {vt : Vine.VType} {d t : Nat} {cs : List (Vine.Choice α)}
    {r : List (Vine.Tree × List α)} (hd : 2 ≤ d) (hcs : Vine.ChoicesOK vt d 0 cs)
    (h : Vine.trainVine vt d t cs = .ok r) (hcov : vt = .center ∨ d ≤ 3 ∨ t ≤ 2)
    (k : Nat) (hk : k + 1 < (toFlow (C16.treesOf r)).length)
    (e : VineFlow.Edge) (he : e ∈ (toFlow (C16.treesOf r))[k + 1]) :
    ∃ i0 i1 p0 p1 s0 s1, e.parents = some (i0, i1) ∧
      ((toFlow (C16.treesOf r))[k]'(by omega))[i0]? = some p0 ∧
      ((toFlow (C16.treesOf r))[k]'(by omega))[i1]? = some p1 ∧
      prepareEdgePlan false ((toFlow (C16.treesOf r))[k]'(by omega)) e = .ok ⟨.uof i0 s0, .uof i1 s1⟩ ∧
      VineFlow.slotVar p0 s0 = e.L ∧ VineFlow.slotVar p1 s1 = e.R ∧
      (∀ x, x ∈ VineFlow.slotGiven p0 s0 ↔ x ∈ e.D) ∧ (∀ x, x ∈ VineFlow.slotGiven p1 s1 ↔ x ∈ e.D) ∧
      VineFlow.needSlot p0 p1 i0 i1 e.L = some (.uof i0 s0) ∧
      VineFlow.needSlot p0 p1 i0 i1 e.R = some (.uof i1 s1) := by
  rw [gen_edgePlan_eq]
  exact C17b.edge_inputs_spec hd hcs h hcov k hk e he
end

section Examples
open CopVerif.Model CopVerif.Model.VineGood
local instance : NumFns Int := intFns

/-- non-vacuity of the covered-vine theorems: an accepted C-vine run on 5 columns, full depth; the GENERATED
`get_likelihood` on its conversion returns a plan all of whose reads are written (here by evaluation). -/
example : ∃ r g, Vine.trainVine .center 5 4 cvine5Choices = .ok r ∧
    vineGetLikelihood (toFlow (C16.treesOf r)) = .ok g ∧
    (g.all fun lv => lv.all fun e => (toLikEdge e).readsWritten) = true := ⟨_, _, rfl, rfl, by decide⟩

example : ∃ r plan, Vine.trainVine .direct 3 2 [⟨zeroTau 3, [2, 1]⟩, ⟨zeroTau 2, []⟩] = .ok r ∧
    fitPlanGen (toFlow (C16.treesOf r)) = .ok plan := ⟨_, _, rfl, rfl⟩
end Examples

end CopVerif.Props.C17c
