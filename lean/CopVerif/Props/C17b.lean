import CopVerif.Real.Inst
import CopVerif.Lemmas.VineFlowGood
import CopVerif.Props.C16
import CopVerif.Props.C17
/-!
# C17b — for which fitted vines the C17 data-flow theorems hold unconditionally

`Props/C17.lean` proves the data-flow clauses of C17 under `goodVine` (every edge's `parents[0]`
carries its smaller conditioned variable, `parents[1]` the larger one) and shows that `goodVine`
FAILS on a vine the code builds (`dvine4`).  This file determines where it HOLDS, by joining the
construction model of C16 (`Model/Vine.lean`, `trainVine`) with the data-flow model
(`Model/VineFlow.lean`) through the explicit conversion `VineGood.toFlow` (the encoding
`tools/props/c17.py: extract` sends for a real vine: `index` = position, `D` ascending, `parents` =
positions of `[left_parent, right_parent]` in the previous tree).

* every accepted run records its parents in `Edge.sort_edge` order (`parents_sorted`);
* an edge whose two parents have the SAME conditioning set always satisfies the silent hypothesis
  (`same_conditioning_flowOK`: the parents are `{z,x | D}`, `{z,y | D}` and
  `x ↦ (min z x, max z x)` is strictly monotone for the lexicographic key of `sort_edge`);
* hence `goodVine` holds for **every C-vine of any dimension** (`center_vine_good`: all edges of tree
  `k` are conditioned on the same `k` centres) and for **every vine with at most two trees**, in
  particular every vine on `d ≤ 3` columns (`small_vine_good`), of any type, for every accepted run;
* the defect of C17 therefore needs an edge whose parents are conditioned on different sets: tree
  index `≥ 2`, i.e. `d ≥ 4` columns, truncation `≥ 3`, and a direct or regular vine — and there it
  does occur: `direct_vine_not_good_counterexample` is an accepted run of the construction model whose
  conversion is literally `C17.dvine4`.

`hcs : ChoicesOK …` are the data hypotheses of C16 (none for regular vines; none for center vines
over `ℝ`: `…_real`).
-/
namespace CopVerif.Props.C17b
open CopVerif CopVerif.Model CopVerif.Model.VineGood

section
variable {α : Type} [Preorder α] [DecidableLT α] [Neg α] [NumFns α]

/-! ## the ingredients -/

/-- **Every accepted run of `train_vine` — any type, any data, any truncation — records the parents
of every edge in `Edge.sort_edge` order** (`parents[1]` does not sort strictly before `parents[0]`
by `(L, R)`): the three `_build_kth_tree` all sort before `get_child_edge`. -/
theorem parents_sorted {vt : Vine.VType} {d t : Nat} {cs : List (Vine.Choice α)}
    {r : List (Vine.Tree × List α)} (h : Vine.trainVine vt d t cs = .ok r) :
    ParentsSorted (C16.treesOf r) :=
  trainVine_sorted h

/-- **Key lemma.**  Parents `p`, `q` in `sort_edge` order with the same conditioning set, child
conditioned pair `L < R` = the symmetric difference of the parents' variable sets: then `L` is a
conditioned variable of `p` (`parents[0]`) and `R` one of `q` (`parents[1]`) — the hypothesis
`flowOK` that `Edge.get_conditional_uni` and `Edge.get_likelihood` silently make. -/
theorem same_conditioning_flowOK {p q e : Vine.Edge} (hp : EdgeWF p) (hq : EdgeWF q)
    (hD : p.D = q.D) (hLR : e.L < e.R)
    (hcond : ∀ x, x = e.L ∨ x = e.R ↔ (x ∈ p.vars ∧ x ∉ q.vars) ∨ (x ∈ q.vars ∧ x ∉ p.vars))
    (hs : Vine.keyLt q p = false) :
    (e.L = p.L ∨ e.L = p.R) ∧ (e.R = q.L ∨ e.R = q.R) :=
  flowOK_of_sameD hp hq hD hLR hcond hs

/-- non-vacuity: the parents `(0,1)`, `(0,3)` of the C-vine edge `(1,3 | 0)`. -/
example : EdgeWF ⟨0, 1, [], none⟩ ∧ EdgeWF ⟨0, 3, [], none⟩ ∧
    Vine.keyLt ⟨0, 3, [], none⟩ ⟨0, 1, [], none⟩ = false := by
  refine ⟨⟨by decide, by simp, by simp, by simp⟩, ⟨by decide, by simp, by simp, by simp⟩, by decide⟩

/-- **Structure form** (also applies to a checked real vine: `C16.isRegularVine_sound`): a vine
structure — spanning trees, proximity, conditioned/conditioning sets (`TreesSpec`) — with sorted
parents in which every tree but the last conditions all its edges on ONE set of variables is a
`goodVine` in the encoding of the data-flow model. -/
theorem same_conditioning_good {d : Nat} {trees : List Vine.Tree}
    (hspec : Vine.TreesSpec d 0 none trees) (hsort : ParentsSorted trees)
    (hD : ∀ k (hk : k + 1 < trees.length), UniformD (trees[k]'(by omega))) :
    VineFlow.goodVine (toFlow trees) = true :=
  goodVine_of_uniformD hspec hsort hD

/-! ## center vines, small vines -/

/-- **Every C-vine the code builds is a `goodVine`**: every accepted run of `train_vine("center")`
on `d ≥ 2` columns, any truncation.  (All edges of tree `k` are conditioned on the `k` centres of
the trees below, so `same_conditioning_good` applies.) -/
theorem center_vine_good {d t : Nat} {cs : List (Vine.Choice α)} {r : List (Vine.Tree × List α)}
    (hd : 2 ≤ d) (hcs : Vine.ChoicesOK .center d 0 cs) (h : Vine.trainVine .center d t cs = .ok r) :
    VineFlow.goodVine (toFlow (C16.treesOf r)) = true := by
  obtain ⟨_, hspec, t0, rest, hr, h0, hrest⟩ := Vine.trainVine_spec hd hcs h
  have hsort := parents_sorted h
  rw [show C16.treesOf r = t0 :: rest from hr] at hsort ⊢
  rw [hr] at hspec
  exact goodVine_of_stars hspec hsort h0 hrest

/-- **Every vine with at most two trees is a `goodVine`** — in particular every vine on `d ≤ 3`
columns, and every vine fitted with `truncated ≤ 2` — for all three types and every accepted run:
the only tree that has children is the first, which conditions on nothing. -/
theorem small_vine_good {vt : Vine.VType} {d t : Nat} {cs : List (Vine.Choice α)}
    {r : List (Vine.Tree × List α)} (hd : 2 ≤ d) (hcs : Vine.ChoicesOK vt d 0 cs)
    (h : Vine.trainVine vt d t cs = .ok r) (hsmall : d ≤ 3 ∨ t ≤ 2) :
    VineFlow.goodVine (toFlow (C16.treesOf r)) = true := by
  refine goodVine_of_two_trees (C16.vine_structure hd hcs h) (parents_sorted h) ?_
  have := C16.tree_count h
  simp only [C16.treesOf, List.length_map]
  omega

/-- regular vines need no hypothesis on the tau data. -/
theorem small_regular_vine_good {d t : Nat} {cs : List (Vine.Choice α)}
    {r : List (Vine.Tree × List α)} (hd : 2 ≤ d) (h : Vine.trainVine .regular d t cs = .ok r)
    (hsmall : d ≤ 3 ∨ t ≤ 2) : VineFlow.goodVine (toFlow (C16.treesOf r)) = true := by
  refine goodVine_of_two_trees (C16.regular_vine_structure_partial hd h).2 (parents_sorted h) ?_
  have := C16.tree_count h
  simp only [C16.treesOf, List.length_map]
  omega

/-- the vines covered: center vines of any size; any vine with `d ≤ 3` columns or truncation `≤ 2`. -/
theorem covered_vine_good {vt : Vine.VType} {d t : Nat} {cs : List (Vine.Choice α)}
    {r : List (Vine.Tree × List α)} (hd : 2 ≤ d) (hcs : Vine.ChoicesOK vt d 0 cs)
    (h : Vine.trainVine vt d t cs = .ok r) (hcov : vt = .center ∨ d ≤ 3 ∨ t ≤ 2) :
    VineFlow.goodVine (toFlow (C16.treesOf r)) = true := by
  rcases hcov with rfl | hsmall
  · exact center_vine_good hd hcs h
  · exact small_vine_good hd hcs h hsmall

/-- **In EVERY fitted vine — any type, any dimension — the second tree is fed correctly**: every
edge of tree 1 (level 2) passes `childOK` over the first tree, so `get_conditional_uni` selects
`F(L | D)` from `parents[0]` and `F(R | D)` from `parents[1]` for it (`second_tree_inputs`). -/
theorem second_tree_good {vt : Vine.VType} {d t : Nat} {cs : List (Vine.Choice α)}
    {r : List (Vine.Tree × List α)} (hd : 2 ≤ d) (hcs : Vine.ChoicesOK vt d 0 cs)
    (h : Vine.trainVine vt d t cs = .ok r) (hk : 1 < (C16.treesOf r).length) :
    VineFlow.treeWF (toFlowTree ((C16.treesOf r)[0]'(by omega))) = true ∧
      ∀ fe ∈ toFlowTree (C16.treesOf r)[1],
        VineFlow.childOK (toFlowTree ((C16.treesOf r)[0]'(by omega))) fe = true :=
  childOK_second_tree (C16.vine_structure hd hcs h) (parents_sorted h) hk

/-! ## the C17 clauses, unconditional on these vines -/

/-- **`edge_inputs_spec`** on the covered vines (instantiates `C17.edge_inputs_spec_partial`): for
every edge `e` of tree `k + 1` the inputs `Edge.get_conditional_uni` selects are, from `parents[0]`,
the pseudo-observation of `e.L` given exactly `e.D`, and from `parents[1]` the one of `e.R` given
`e.D` — what a regular vine needs. -/
theorem edge_inputs_spec {vt : Vine.VType} {d t : Nat} {cs : List (Vine.Choice α)}
    {r : List (Vine.Tree × List α)} (hd : 2 ≤ d) (hcs : Vine.ChoicesOK vt d 0 cs)
    (h : Vine.trainVine vt d t cs = .ok r) (hcov : vt = .center ∨ d ≤ 3 ∨ t ≤ 2)
    (k : Nat) (hk : k + 1 < (toFlow (C16.treesOf r)).length)
    (e : VineFlow.Edge) (he : e ∈ (toFlow (C16.treesOf r))[k + 1]) :
    ∃ i0 i1 p0 p1 s0 s1, e.parents = some (i0, i1) ∧
      ((toFlow (C16.treesOf r))[k]'(by omega))[i0]? = some p0 ∧
      ((toFlow (C16.treesOf r))[k]'(by omega))[i1]? = some p1 ∧
      VineFlow.edgePlan false ((toFlow (C16.treesOf r))[k]'(by omega)) e =
        .ok ⟨.uof i0 s0, .uof i1 s1⟩ ∧
      VineFlow.slotVar p0 s0 = e.L ∧ VineFlow.slotVar p1 s1 = e.R ∧
      (∀ x, x ∈ VineFlow.slotGiven p0 s0 ↔ x ∈ e.D) ∧
      (∀ x, x ∈ VineFlow.slotGiven p1 s1 ↔ x ∈ e.D) ∧
      VineFlow.needSlot p0 p1 i0 i1 e.L = some (.uof i0 s0) ∧
      VineFlow.needSlot p0 p1 i0 i1 e.R = some (.uof i1 s1) := by
  obtain ⟨hwf, hch⟩ := goodVine_children (covered_vine_good hd hcs h hcov) k hk
  exact C17.edge_inputs_spec_partial hwf (hch e he)

/-- the same for the second tree of EVERY fitted vine (no restriction on type or size). -/
theorem second_tree_inputs {vt : Vine.VType} {d t : Nat} {cs : List (Vine.Choice α)}
    {r : List (Vine.Tree × List α)} (hd : 2 ≤ d) (hcs : Vine.ChoicesOK vt d 0 cs)
    (h : Vine.trainVine vt d t cs = .ok r) (hk : 1 < (C16.treesOf r).length)
    (e : VineFlow.Edge) (he : e ∈ toFlowTree (C16.treesOf r)[1]) :
    ∃ i0 i1 p0 p1 s0 s1, e.parents = some (i0, i1) ∧
      (toFlowTree ((C16.treesOf r)[0]'(by omega)))[i0]? = some p0 ∧
      (toFlowTree ((C16.treesOf r)[0]'(by omega)))[i1]? = some p1 ∧
      VineFlow.edgePlan false (toFlowTree ((C16.treesOf r)[0]'(by omega))) e =
        .ok ⟨.uof i0 s0, .uof i1 s1⟩ ∧
      VineFlow.slotVar p0 s0 = e.L ∧ VineFlow.slotVar p1 s1 = e.R ∧
      (∀ x, x ∈ VineFlow.slotGiven p0 s0 ↔ x ∈ e.D) ∧
      (∀ x, x ∈ VineFlow.slotGiven p1 s1 ↔ x ∈ e.D) ∧
      VineFlow.needSlot p0 p1 i0 i1 e.L = some (.uof i0 s0) ∧
      VineFlow.needSlot p0 p1 i0 i1 e.R = some (.uof i1 s1) := by
  obtain ⟨hwf, hch⟩ := second_tree_good hd hcs h hk
  exact C17.edge_inputs_spec_partial hwf (hch e he)

/-- **`fit_plan_total`** on the covered vines: no step of the fitting data flow raises. -/
theorem fit_plan_total {vt : Vine.VType} {d t : Nat} {cs : List (Vine.Choice α)}
    {r : List (Vine.Tree × List α)} (hd : 2 ≤ d) (hcs : Vine.ChoicesOK vt d 0 cs)
    (h : Vine.trainVine vt d t cs = .ok r) (hcov : vt = .center ∨ d ≤ 3 ∨ t ≤ 2) :
    ∃ plan, VineFlow.fitPlan (toFlow (C16.treesOf r)) = .ok plan := by
  have hg := covered_vine_good hd hcs h hcov
  cases htr : toFlow (C16.treesOf r) with
  | nil => exact ⟨[], rfl⟩
  | cons t0 ts =>
    rw [htr] at hg
    simp only [VineFlow.goodVine, Bool.and_eq_true] at hg
    obtain ⟨plan, hp⟩ := C17.fit_plan_total_partial ts t0 hg.1.1 hg.2
    exact ⟨(t0.map fun e => ⟨.col e.L, .col e.R⟩) :: plan,
      by simp [VineFlow.fitPlan, VineFlow.fitPlanFrom, mapE_first, hp]⟩

/-- **`likelihood_reads_written`** on the covered vines (instantiates the `_partial` theorem of
C17): `get_likelihood` raises nothing and every cell it reads at level `k` was written at level
`k − 1`. -/
theorem likelihood_reads_written {vt : Vine.VType} {d t : Nat} {cs : List (Vine.Choice α)}
    {r : List (Vine.Tree × List α)} (hd : 2 ≤ d) (hcs : Vine.ChoicesOK vt d 0 cs)
    (h : Vine.trainVine vt d t cs = .ok r) (hcov : vt = .center ∨ d ≤ 3 ∨ t ≤ 2) :
    ∃ plan, VineFlow.likPlan (toFlow (C16.treesOf r)) = .ok plan ∧
      ∀ lv ∈ plan, ∀ le ∈ lv, le.readsWritten = true :=
  C17.likelihood_reads_written_partial (covered_vine_good hd hcs h hcov)

/-- **`likelihood_is_sum_of_log_pdfs`** on the covered vines: the value of `get_likelihood(u)` is
`Σ_trees Σ_edges log pdf_e(a_e, b_e)` with `(a_e, b_e)` the h-propagated arguments of the
specification (`F(L | D)`, `F(R | D)`, chosen by VARIABLE), whatever the content of the
uninitialised buffers. -/
theorem likelihood_is_sum_of_log_pdfs {vt : Vine.VType} {d t : Nat} {cs : List (Vine.Choice α)}
    {r : List (Vine.Tree × List α)} (hd : 2 ≤ d) (hcs : Vine.ChoicesOK vt d 0 cs)
    (h : Vine.trainVine vt d t cs = .ok r) (hcov : vt = .center ∨ d ≤ 3 ∨ t ≤ 2)
    (I : VineFlow.Interp ℝ) (u : ℕ → ℝ) (junk : ℕ → ℕ → ℕ → ℝ) :
    ∃ plan args, VineFlow.likPlan (toFlow (C16.treesOf r)) = .ok plan ∧
      VineFlow.specArgs (toFlow (C16.treesOf r)) = some args ∧
      plan.map (·.map VineFlow.LikEdge.args) = args ∧ VineFlow.argsClean args ∧
      VineFlow.likValue I u junk (plan.map (·.map VineFlow.LikEdge.args)) =
        VineFlow.sumTrees (fun k i a => Real.log (I.pdf k i
          (VineFlow.evalTerm I u (fun _ _ _ => 0) a.1)
          (VineFlow.evalTerm I u (fun _ _ _ => 0) a.2))) 0 args :=
  C17.likelihood_is_sum_of_log_pdfs_partial (covered_vine_good hd hcs h hcov) I u junk

/-- **`likelihood_deterministic`** on the covered vines: `get_likelihood` is a function of
(model, u) only — it does not depend on the content of the `np.empty` buffers. -/
theorem likelihood_deterministic {vt : Vine.VType} {d t : Nat} {cs : List (Vine.Choice α)}
    {r : List (Vine.Tree × List α)} (hd : 2 ≤ d) (hcs : Vine.ChoicesOK vt d 0 cs)
    (h : Vine.trainVine vt d t cs = .ok r) (hcov : vt = .center ∨ d ≤ 3 ∨ t ≤ 2)
    (I : VineFlow.Interp ℝ) (u : ℕ → ℝ) (j1 j2 : ℕ → ℕ → ℕ → ℝ) :
    ∃ plan, VineFlow.likPlan (toFlow (C16.treesOf r)) = .ok plan ∧
      VineFlow.likValue I u j1 (plan.map (·.map VineFlow.LikEdge.args)) =
        VineFlow.likValue I u j2 (plan.map (·.map VineFlow.LikEdge.args)) :=
  C17.likelihood_deterministic_partial (covered_vine_good hd hcs h hcov) I u j1 j2

end

/-! ## center vines over `ℝ`: no hypothesis at all -/

/-- **Every C-vine fitted on real tau matrices is a `goodVine`** — no hypothesis on the data
(`C16.choicesOK_center_real`), any dimension `d ≥ 2`, any truncation, every accepted run. -/
theorem center_vine_good_real {d t : Nat} {cs : List (Vine.Choice ℝ)}
    {r : List (Vine.Tree × List ℝ)} (hd : 2 ≤ d) (h : Vine.trainVine .center d t cs = .ok r) :
    VineFlow.goodVine (toFlow (C16.treesOf r)) = true :=
  center_vine_good hd (C16.choicesOK_center_real d cs 0) h

/-- `get_likelihood` of every fitted C-vine reads only written cells and equals the specification's
sum of log pair-copula densities at the h-propagated arguments, independently of the buffers. -/
theorem center_likelihood_real {d t : Nat} {cs : List (Vine.Choice ℝ)}
    {r : List (Vine.Tree × List ℝ)} (hd : 2 ≤ d) (h : Vine.trainVine .center d t cs = .ok r)
    (I : VineFlow.Interp ℝ) (u : ℕ → ℝ) (junk : ℕ → ℕ → ℕ → ℝ) :
    ∃ plan args, VineFlow.likPlan (toFlow (C16.treesOf r)) = .ok plan ∧
      (∀ lv ∈ plan, ∀ le ∈ lv, le.readsWritten = true) ∧
      VineFlow.specArgs (toFlow (C16.treesOf r)) = some args ∧
      plan.map (·.map VineFlow.LikEdge.args) = args ∧ VineFlow.argsClean args ∧
      VineFlow.likValue I u junk (plan.map (·.map VineFlow.LikEdge.args)) =
        VineFlow.sumTrees (fun k i a => Real.log (I.pdf k i
          (VineFlow.evalTerm I u (fun _ _ _ => 0) a.1)
          (VineFlow.evalTerm I u (fun _ _ _ => 0) a.2))) 0 args := by
  have hg := center_vine_good_real hd h
  obtain ⟨plan, args, h1, h2, h3, h4, h5⟩ := C17.likelihood_is_sum_of_log_pdfs_partial hg I u junk
  obtain ⟨plan', h1', hw⟩ := C17.likelihood_reads_written_partial hg
  have : plan' = plan := by rw [h1] at h1'; exact (Except.ok.inj h1').symm
  subst this
  exact ⟨plan', args, h1, hw, h2, h3, h4, h5⟩

/-! ## non-vacuity, and the coverage cannot be extended -/

section Examples

local instance : NumFns Int := intFns

/-- an accepted C-vine run on 5 columns, full depth, with "unhelpful" orders in every tree; its
conversion is a `goodVine` (here by evaluation, in general by `center_vine_good`). -/
example : ∃ r, Vine.trainVine .center 5 4 cvine5Choices = .ok r ∧
    VineFlow.goodVine (toFlow (C16.treesOf r)) = true := ⟨_, rfl, by decide⟩

/-- the data hypothesis of `center_vine_good` holds for it. -/
example : Vine.ChoicesOK .center 5 0 cvine5Choices := by
  refine ⟨?_, ?_, ?_, ?_, trivial⟩ <;> intro j h1 h2 <;> simp at h2 <;> interval_cases j <;> decide

/-- accepted small runs exist for the direct and regular types (3 columns). -/
example : ∃ r, Vine.trainVine .direct 3 2 [⟨zeroTau 3, [2, 1]⟩, ⟨zeroTau 2, []⟩] = .ok r ∧
    VineFlow.goodVine (toFlow (C16.treesOf r)) = true := ⟨_, rfl, by decide⟩
example : ∃ r, Vine.trainVine .regular 3 2 [⟨zeroTau 3, [0, 2, 2, 1]⟩, ⟨zeroTau 2, [0, 1]⟩] = .ok r ∧
    VineFlow.goodVine (toFlow (C16.treesOf r)) = true := ⟨_, rfl, by decide⟩

end Examples

/-- **The coverage cannot be extended to direct vines on 4 columns**: `dvine4Choices` is an
accepted run of `train_vine("direct")` (path `3 – 2 – 0 – 1`; integer taus, signature `intFns`), its
conversion into the data-flow encoding is literally `C17.dvine4`, which is not a `goodVine`: the
level-3 edge `(1,3 | 0,2)` has parents `(0,3 | 2)`, `(1,2 | 0)` with DIFFERENT conditioning sets
(tree 1 is not `UniformD`). -/
theorem direct_vine_not_good_counterexample :
    ∃ r, @Vine.trainVine Int _ _ _ intFns .direct 4 3 dvine4Choices = .ok r ∧
      toFlow (C16.treesOf r) = C17.dvine4 ∧
      VineFlow.goodVine (toFlow (C16.treesOf r)) = false ∧
      ¬ UniformD ((C16.treesOf r).getD 1 []) := by
  refine ⟨_, rfl, by decide, by decide, ?_⟩
  rintro ⟨C, hC⟩
  have h1 := hC ⟨0, 3, [2], some (1, 0)⟩ (by decide)
  have h2 := hC ⟨1, 2, [0], some (2, 1)⟩ (by decide)
  simp only at h1 h2
  rw [← h1] at h2
  exact absurd h2 (by decide)

end CopVerif.Props.C17b
