import CopVerif.Real.Schur
/-!
# C12 — Conditional sampling fixes the given columns and follows the conditional law

Property theorems only.  Every statement is about the executable model
`CopVerif.Model.GaussCond` (`CopVerif/Model/GaussCond.lean`) — the code the driver runs at `Float`
against the real `GaussianMultivariate.sample(n, conditions)` on every check.  Labels are any type
with decidable equality, any number `d` of training columns, any `n`, any condition set.

The model has two independent switches (`Variant.labelling`, `Variant.truth`), each with an
as-found and a repaired setting; `Variant.asFound` / `Variant.repaired` set both.  The tie decides
on every run which setting of each switch the real code refines.

* the statements that are FALSE of the code as found are proved as `…_counterexample` next to the
  `…_partial` that does hold, and in full for the repaired setting;
* `np.linalg.inv`, `Φ`, `Φ⁻¹∘clip∘F_c`, the marginals' quantile functions, the order used by
  `Index.difference` and `np.random.multivariate_normal` are parameters; `inv` carries the
  hypothesis that it returns the inverse (`hinv`), `le` that it is a total pre-order;
* binary64 effects are not covered (tie: `|Δ| ≤ 1e-10·scale` at `Float`).
-/
namespace CopVerif.Props.C12
open CopVerif CopVerif.Model.GaussCond CopVerif.GaussCond Matrix

section anyCarrier
variable {ι α : Type} [DecidableEq ι] [Add α] [Sub α] [Mul α] [NumFns α]

/-! ## the conditioned columns are fixed; schema of the output -/

/-- Whenever `sample(n, conditions)` returns (either variant, any container, any `d`, `n`, condition
    set with distinct keys): the output has all training columns in training order, every column has
    `n` rows, and every conditioned training column is `replicate n value` — the caller's ORIGINAL
    value, not its normal score.  (`hrng`: `multivariate_normal(·, ·, size=n)` returns `n` rows.) -/
theorem cond_columns_fixed (v : Variant) (inv : List (List α) → List (List α)) (le : ι → ι → Bool)
    (score ppf : ι → α → α) (phi : α → α) (rng : List α → List (List α) → ℕ → List (List α))
    (S : Corr ι α) (n : ℕ) (c : Conditions ι α) (hrng : ∀ mean cov, (rng mean cov n).length = n)
    (hk : c.keys.Nodup) {out : List (ι × List α)}
    (h : sample v inv le score ppf phi rng S n c = .ok out) :
    out.map Prod.fst = S.labels ∧ (∀ q ∈ out, q.2.length = n) ∧
      ∀ k x, (k, x) ∈ c.items → k ∈ S.labels → (k, List.replicate n x) ∈ out := by
  simp only [sample, sampleEff] at h
  cases hp : samplePlan v inv le score S c with
  | error e => simp [hp] at h
  | ok p =>
    simp only [hp, Except.ok.injEq] at h
    subst h
    -- the plan's column list comes from the loop
    have hcols : ∃ ps, planCols v c S.labels = .ok ps ∧ p.cols = ps := by
      simp only [samplePlan] at hp
      cases h1 : normalConditions v S.labels score c with
      | error e => simp [h1] at hp
      | ok nc =>
        cases h2 : condDist inv le S nc with
        | error e => simp [h1, h2] at hp
        | ok d =>
          cases h3 : planCols v c S.labels with
          | error e => simp [h1, h2, h3] at hp
          | ok ps =>
            simp only [h1, h2, h3, Except.ok.injEq] at hp
            exact ⟨ps, rfl, by rw [← hp]⟩
    obtain ⟨ps, hps, hpc⟩ := hcols
    obtain ⟨hfst, hplan⟩ := planCols_spec hps
    refine ⟨?_, ?_, ?_⟩
    · simp only [evalPlan, List.map_map, hpc]
      rw [← hfst]; rfl
    · intro q hq
      simp only [evalPlan, List.mem_map] at hq
      obtain ⟨r, _, rfl⟩ := hq
      cases r.2 with
      | fixed x => simp [evalCol]
      | draw l => simp [evalCol, drawCol, hrng]
    · intro k x hkx hkl
      have hkk : k ∈ c.keys := List.mem_map_of_mem (f := Prod.fst) hkx
      have : k ∈ ps.map Prod.fst := by rw [hfst]; exact hkl
      obtain ⟨q, hq, hqk⟩ := List.mem_map.1 this
      have hcp := hplan q hq
      rcases (colPlan_of_truthy hcp).1 (by rw [hqk]; exact hkk) with ⟨x', hl, hfx⟩ | ⟨hf, _⟩
      · have hl2 := lookup_eq_some_of_mem hk hkx
        rw [hqk, hl2] at hl
        cases hl
        simp only [evalPlan, List.mem_map, hpc]
        exact ⟨q, hq, by rw [hfx, hqk]; rfl⟩
      · rw [truthy_false hf] at hkx
        simp at hkx

/-- Non-vacuity of `cond_columns_fixed` (and the positive container clause for a `dict`): inside the
    property's quantifier — distinct training columns, distinct keys forming a non-empty proper subset
    — `sample` returns, for a `dict` in either variant and for any container once the truth test is
    repaired. -/
theorem sample_returns (v : Variant) (inv : List (List α) → List (List α)) (le : ι → ι → Bool)
    (score ppf : ι → α → α) (phi : α → α) (rng : List α → List (List α) → ℕ → List (List α))
    (S : Corr ι α) (n : ℕ) (c : Conditions ι α) (hw : WellFormed S.labels c)
    (hv : v.truth = .isNotNone ∨ c.kind = .dict) :
    ∃ out, sample v inv le score ppf phi rng S n c = .ok out := by
  -- normal_conditions
  have hnc : ∃ nc, normalConditions v S.labels score c = .ok nc := by
    unfold normalConditions
    simp only [walkedScores_ne_nil (score := score) hw, Bool.false_eq_true, if_false]
    cases v.labelling with
    | callerOrder => simp [walkedScores_length (score := score) hw]
    | walked => exact ⟨_, rfl⟩
  obtain ⟨nc, hnc⟩ := hnc
  -- columns1 is not empty: the call is a proper subset
  have hcd : ∃ d, condDist inv le S nc = .ok d := by
    obtain ⟨col, hcol, hnot⟩ := hw.proper
    have hmem : col ∈ columns1 le S.labels (nc.map Prod.fst) :=
      mem_columns1.2 ⟨hcol, fun hh => hnot (normalConditions_labels_sub hnc col hh)⟩
    have hne : (columns1 le S.labels (nc.map Prod.fst)).isEmpty = false := by
      cases hc1 : columns1 le S.labels (nc.map Prod.fst) with
      | nil => rw [hc1] at hmem; simp at hmem
      | cons _ _ => rfl
    simp only [condDist, hne, Bool.false_eq_true, if_false]
    exact ⟨_, rfl⟩
  obtain ⟨d, hcd⟩ := hcd
  -- the loop
  have hpl : ∃ ps, planCols v c S.labels = .ok ps := by
    apply planCols_ok_of
    intro col _
    have ht : truthy v c = .ok true := by
      unfold truthy
      rcases hv with hv | hv
      · rw [hv]
      · rw [hv]
        cases v.truth with
        | isNotNone => rfl
        | truthValue =>
          have := hw.nonempty
          cases hi : c.items with
          | nil => exact absurd hi this
          | cons _ _ => simp
    simp only [colPlan, ht, Bool.true_and]
    by_cases hk : col ∈ c.keys
    · obtain ⟨x, hx⟩ := (lookup_isSome_iff_mem_keys c.items col).2 hk
      simp [hk, hx]
    · simp [hk]
  obtain ⟨ps, hpl⟩ := hpl
  refine ⟨evalPlan n ppf phi ⟨d, ps⟩ (rng d.mean d.cov n), ?_⟩
  simp [sample, sampleEff, samplePlan, hnc, hcd, hpl]

/-- `samples[column_name]` in the loop looks a draw column up BY LABEL in a frame whose columns are
    `columns1` (sorted): every drawn column of the plan is one of the draws' labels, so the lookup
    never misses and the alignment does not depend on the sort. -/
theorem draws_found_by_label (v : Variant) (inv : List (List α) → List (List α)) (le : ι → ι → Bool)
    (score : ι → α → α) (S : Corr ι α) (c : Conditions ι α) {p : Plan ι α}
    (h : samplePlan v inv le score S c = .ok p) :
    ∀ q ∈ p.cols, ∀ l, q.2 = .draw l → l = q.1 ∧ l ∈ p.dist.columns := by
  simp only [samplePlan] at h
  cases h1 : normalConditions v S.labels score c with
  | error e => simp [h1] at h
  | ok nc =>
    cases h2 : condDist inv le S nc with
    | error e => simp [h1, h2] at h
    | ok d =>
      cases h3 : planCols v c S.labels with
      | error e => simp [h1, h2, h3] at h
      | ok ps =>
        simp only [h1, h2, h3, Except.ok.injEq] at h
        subst h
        obtain ⟨hfst, hplan⟩ := planCols_spec h3
        intro q hq l hl
        have hq1 : q.1 ∈ S.labels := by rw [← hfst]; exact List.mem_map_of_mem (f := Prod.fst) hq
        have hcp := hplan q hq
        -- a drawn column is not a key (an empty dict never gets this far)
        have hnk : q.1 ∉ c.keys := by
          intro hk
          rcases (colPlan_of_truthy hcp).1 hk with ⟨x, _, hfx⟩ | ⟨hf, _⟩
          · rw [hfx] at hl; cases hl
          · have hi := truthy_false hf
            unfold normalConditions at h1
            simp [walkedScores, hi] at h1
        have hd : q.2 = .draw q.1 := (colPlan_of_truthy hcp).2 hnk
        rw [hd] at hl
        cases hl
        refine ⟨rfl, ?_⟩
        have hdc : d.columns = columns1 le S.labels (nc.map Prod.fst) := by
          simp only [condDist] at h2
          split at h2
          · simp at h2
          · simp only [Except.ok.injEq] at h2; rw [← h2]
        rw [hdc]
        exact mem_columns1.2 ⟨hq1, fun hh => hnk (normalConditions_labels_sub h1 _ hh)⟩

/-! ## the partition -/

omit [Add α] [Sub α] [Mul α] in
/-- For every condition-label list `c2` (in particular every proper non-empty subset of the training
    columns): `columns1` is exactly the complement of `c2` in the training columns, duplicate-free and
    SORTED (pandas `Index.difference`), non-empty when the subset is proper; together with `c2` it is
    a rearrangement of the training columns; and each of the four blocks `.loc[rows, cols]` holds,
    at position `(i, j)`, exactly the entry of Σ for the labels `rows[i]`, `cols[j]`. -/
theorem partition_exact (le : ι → ι → Bool) (htrans : ∀ a b c, le a b = true → le b c = true → le a c = true)
    (htotal : ∀ a b, (le a b || le b a) = true) (S : Corr ι α) (c2 : List ι)
    (hS : S.labels.Nodup) (h2 : c2.Nodup) (hsub : ∀ k ∈ c2, k ∈ S.labels) :
    let c1 := columns1 le S.labels c2
    (∀ a, a ∈ c1 ↔ a ∈ S.labels ∧ a ∉ c2) ∧ c1.Nodup ∧ c1.Pairwise (fun a b => le a b = true)
      ∧ ((∃ a ∈ S.labels, a ∉ c2) → c1 ≠ []) ∧ (c1 ++ c2).Perm S.labels
      ∧ ∀ (rows cs : List ι) (i j : ℕ) (hi : i < rows.length) (hj : j < cs.length),
          ((S.loc rows cs).getD i []).getD j (NumFns.ofNat 0) = S.loc1 rows[i] cs[j] := by
  intro c1
  refine ⟨fun a => mem_columns1, columns1_nodup hS, List.pairwise_mergeSort htrans htotal _, ?_, ?_, ?_⟩
  · rintro ⟨a, ha, hna⟩ hnil
    have : a ∈ c1 := mem_columns1.2 ⟨ha, hna⟩
    rw [hnil] at this
    simp at this
  · have hnd : (c1 ++ c2).Nodup := by
      rw [List.nodup_append]
      refine ⟨columns1_nodup hS, h2, ?_⟩
      intro a ha b hb hab
      subst hab
      exact (mem_columns1.1 ha).2 hb
    rw [List.perm_ext_iff_of_nodup hnd hS]
    intro a
    rw [List.mem_append]
    constructor
    · rintro (h | h)
      · exact (mem_columns1.1 h).1
      · exact hsub a h
    · intro h
      by_cases hc : a ∈ c2
      · exact Or.inr hc
      · exact Or.inl (mem_columns1.2 ⟨h, hc⟩)
  · intro rows cs i j hi hj
    simp [Corr.loc, List.getD_eq_getElem?_getD, hi, hj]

/-- `_get_conditional_distribution` partitions exactly so: `columns2` are the labels of the scores it
    was given (in that order), `columns1` the sorted complement. -/
theorem condDist_partition (inv : List (List α) → List (List α)) (le : ι → ι → Bool) (S : Corr ι α)
    (nc : List (ι × α)) {d : CondDist ι α} (h : condDist inv le S nc = .ok d) :
    d.columns = columns1 le S.labels (nc.map Prod.fst)
      ∧ d.mean = condMean inv S d.columns (nc.map Prod.fst) (nc.map Prod.snd)
      ∧ d.cov = condCov inv S d.columns (nc.map Prod.fst) := by
  simp only [condDist] at h
  split at h
  · simp at h
  · simp only [Except.ok.injEq] at h
    subst h
    exact ⟨rfl, rfl, rfl⟩

/-! ## which score is attached to which label -/

omit [Add α] [Sub α] [Mul α] [NumFns α] in
/-- REPAIRED labelling (scores labelled by the columns actually walked), full statement: for every
    well-formed call, in ANY key order, every condition key gets the score of its own value under
    its own marginal. -/
theorem labels_aligned (t : TruthTest) (cols : List ι) (score : ι → α → α) (c : Conditions ι α)
    (hw : WellFormed cols c) :
    ∃ nc, normalConditions ⟨.walked, t⟩ cols score c = .ok nc ∧ Aligned score c.items nc := by
  refine ⟨walkedScores cols score c.items, ?_, walkedScores_aligned hw⟩
  unfold normalConditions
  simp [walkedScores_ne_nil (score := score) hw]

omit [Add α] [Sub α] [Mul α] [NumFns α] in
/-- AS FOUND (scores re-labelled with `conditions.index`), positive direction only: IF the conditions
    are listed in the same relative order as the training columns, every key gets its own score — the
    result then coincides with the repaired labelling.  The hypothesis cannot be dropped:
    `labels_misaligned_counterexample`, `labels_aligned_asFound_iff`. -/
theorem labels_aligned_asFound_partial (t : TruthTest) (cols : List ι) (score : ι → α → α)
    (c : Conditions ι α) (hw : WellFormed cols c) (hord : InTrainingOrder cols c.keys) :
    ∃ nc, normalConditions ⟨.callerOrder, t⟩ cols score c = .ok nc ∧ Aligned score c.items nc
      ∧ normalConditions ⟨.walked, t⟩ cols score c = .ok nc := by
  have hz : c.keys.zip ((walkedScores cols score c.items).map Prod.snd) = walkedScores cols score c.items := by
    have h1 : c.keys = (walkedScores cols score c.items).map Prod.fst := by
      rw [walkedScores_fst]; exact hord.symm
    conv_lhs => rw [h1]
    exact zip_fst_snd _
  refine ⟨walkedScores cols score c.items, ?_, walkedScores_aligned hw, ?_⟩
  · unfold normalConditions
    simp [walkedScores_ne_nil (score := score) hw, walkedScores_length (score := score) hw, hz]
  · unfold normalConditions
    simp [walkedScores_ne_nil (score := score) hw]

omit [Add α] [Sub α] [Mul α] [NumFns α] in
/-- AS FOUND, the exact characterisation: the re-labelling is right for every marginal score function
    IF AND ONLY IF the conditions are listed in training order.  (`a ≠ b`: the carrier has two
    different numbers.) -/
theorem labels_aligned_asFound_iff (t : TruthTest) (cols : List ι) (c : Conditions ι α)
    (hw : WellFormed cols c) {a b : α} (hab : a ≠ b) :
    (∀ score : ι → α → α, ∃ nc, normalConditions ⟨.callerOrder, t⟩ cols score c = .ok nc
        ∧ Aligned score c.items nc)
      ↔ InTrainingOrder cols c.keys := by
  constructor
  · intro h
    unfold InTrainingOrder
    have hlen : c.keys.length = (walked cols c.keys).length :=
      (walked_perm hw.cols_nodup hw.keys_nodup hw.keys_sub).length_eq.symm
    apply eq_of_zip_aligned hab c.keys (walked cols c.keys) hlen
    intro g p hp
    obtain ⟨nc, hnc, -, hal⟩ := h (fun k _ => g k)
    unfold normalConditions at hnc
    simp only [walkedScores_ne_nil (score := fun k _ => g k) hw, Bool.false_eq_true, if_false,
      walkedScores_length (score := fun k _ => g k) hw, if_true, Except.ok.injEq] at hnc
    rw [walkedScores_const] at hnc
    simp only [List.map_map] at hnc
    have hp' : (p.1, p.2) ∈ nc := by
      rw [← hnc]
      have : (Prod.snd ∘ fun c => (c, g c)) = g := rfl
      rw [this]
      exact hp
    obtain ⟨x, _, hx⟩ := hal p.1 p.2 hp'
    exact hx
  · intro hord score
    obtain ⟨nc, h1, h2, _⟩ := labels_aligned_asFound_partial t cols score c hw hord
    exact ⟨nc, h1, h2⟩

end anyCarrier

/-- three training columns for the counter-examples. -/
inductive Col | a | b | c
  deriving DecidableEq

/-- AS FOUND, the full statement is FALSE: training columns `a, b, c`, conditions listed as
    `{c: x, a: y}` ⇒ label `c` is given the score of `a` (and `a` the score of `c`), for every marginal
    score function, container and value. -/
theorem labels_misaligned_counterexample {α : Type} (score : Col → α → α) (kind : Container) (x y : α)
    (t : TruthTest) :
    normalConditions ⟨.callerOrder, t⟩ [Col.a, Col.b, Col.c] score ⟨kind, [(Col.c, x), (Col.a, y)]⟩
      = .ok [(Col.c, score Col.a y), (Col.a, score Col.c x)]
    ∧ normalConditions ⟨.walked, t⟩ [Col.a, Col.b, Col.c] score ⟨kind, [(Col.c, x), (Col.a, y)]⟩
      = .ok [(Col.a, score Col.a y), (Col.c, score Col.c x)] := by
  constructor <;> rfl

/-- … and the mislabelling changes the law that is sampled: with Σ = [[1, ½, 0], [½, 1, 0], [0, 0, 1]]
    (labels `a, b, c`), identity scores and conditions `{c: 1, a: 0}`, the conditional mean of `b`
    handed to the sampler is `½` as found, and `0 = ½·0 + 0·1` (the Schur value) once repaired.
    (`S22` is the identity here, so `inv` is the identity.) -/
theorem labels_misaligned_mean_counterexample :
    let S : Corr Col ℝ := ⟨[Col.a, Col.b, Col.c], [[1, 1/2, 0], [1/2, 1, 0], [0, 0, 1]]⟩
    let c : Conditions Col ℝ := ⟨.dict, [(Col.c, 1), (Col.a, 0)]⟩
    let le : Col → Col → Bool := fun p q => decide (p.ctorIdx ≤ q.ctorIdx)
    (∃ nc d, normalConditions Variant.asFound S.labels (fun _ x => x) c = .ok nc
        ∧ condDist id le S nc = .ok d ∧ d.columns = [Col.b] ∧ d.mean = [1/2])
    ∧ (∃ nc d, normalConditions Variant.repaired S.labels (fun _ x => x) c = .ok nc
        ∧ condDist id le S nc = .ok d ∧ d.columns = [Col.b] ∧ d.mean = [0]) := by
  intro S c le
  have hc1 : columns1 le S.labels [Col.c, Col.a] = [Col.b] := by simp [columns1, S]
  have hc2 : columns1 le S.labels [Col.a, Col.c] = [Col.b] := by simp [columns1, S]
  have e1 : (Col.a == Col.b) = false := by decide
  have e2 : (Col.a == Col.c) = false := by decide
  have e3 : (Col.b == Col.c) = false := by decide
  constructor
  · refine ⟨[(Col.c, 0), (Col.a, 1)], ⟨condMean id S [Col.b] [Col.c, Col.a] [0, 1], condCov id S [Col.b] [Col.c, Col.a], [Col.b]⟩,
      rfl, ?_, rfl, ?_⟩
    · simp only [condDist, List.map_cons, List.map_nil, hc1]; rfl
    · simp [condMean, gain, affineMean, matMul, table, sumRange, entry, Corr.loc, Corr.loc1, S,
        List.range_succ, List.idxOf, List.findIdx, List.findIdx.go, e1, e2, e3]
  · refine ⟨[(Col.a, 0), (Col.c, 1)], ⟨condMean id S [Col.b] [Col.a, Col.c] [0, 1], condCov id S [Col.b] [Col.a, Col.c], [Col.b]⟩,
      rfl, ?_, rfl, ?_⟩
    · simp only [condDist, List.map_cons, List.map_nil, hc2]; rfl
    · simp [condMean, gain, affineMean, matMul, table, sumRange, entry, Corr.loc, Corr.loc1, S,
        List.range_succ, List.idxOf, List.findIdx, List.findIdx.go, e1, e2, e3]

/-! ## the container clause -/
section container
variable {ι α : Type} [DecidableEq ι] [Add α] [Sub α] [Mul α] [NumFns α]

/-- AS FOUND the container clause is FALSE: with `if conditions and …`, a `pandas.Series` makes EVERY
    call on a fitted model (at least one training column) fail with `ValueError` — whatever the
    labelling, values, keys or `n`. -/
theorem series_container_counterexample (l : Labelling) (inv : List (List α) → List (List α))
    (le : ι → ι → Bool) (score ppf : ι → α → α) (phi : α → α)
    (rng : List α → List (List α) → ℕ → List (List α)) (S : Corr ι α) (n : ℕ) (items : List (ι × α))
    (hd : S.labels ≠ []) :
    sample ⟨l, .truthValue⟩ inv le score ppf phi rng S n ⟨.series, items⟩ = .error .valueError := by
  simp only [sample, sampleEff, samplePlan]
  cases h1 : normalConditions ⟨l, .truthValue⟩ S.labels score ⟨.series, items⟩ with
  | error e =>
    have : e = .valueError := by
      unfold normalConditions at h1
      simp only at h1
      split at h1
      · simp at h1; exact h1.symm
      · cases l <;> simp only at h1
        · split at h1
          · simp at h1
          · simp at h1; exact h1.symm
        · simp at h1
    simp [this]
  | ok nc =>
    cases h2 : condDist inv le S nc with
    | error e =>
      have : e = .valueError := by
        simp only [condDist] at h2
        split at h2
        · simp at h2; exact h2.symm
        · simp at h2
      simp [h2, this]
    | ok d =>
      cases hl : S.labels with
      | nil => exact absurd hl hd
      | cons col rest => simp [h2, planCols, colPlan, truthy]

/-- REPAIRED (`conditions is not None`): dict and Series are interchangeable — same result for the same
    items (and by `sample_returns` that result is a table for every well-formed call). -/
theorem series_container_repaired (l : Labelling) (inv : List (List α) → List (List α))
    (le : ι → ι → Bool) (score ppf : ι → α → α) (phi : α → α)
    (rng : List α → List (List α) → ℕ → List (List α)) (S : Corr ι α) (n : ℕ) (items : List (ι × α)) :
    sample ⟨l, .isNotNone⟩ inv le score ppf phi rng S n ⟨.series, items⟩
      = sample ⟨l, .isNotNone⟩ inv le score ppf phi rng S n ⟨.dict, items⟩ := by
  have hpc : ∀ cols : List ι, planCols ⟨l, .isNotNone⟩ (⟨.series, items⟩ : Conditions ι α) cols
      = planCols ⟨l, .isNotNone⟩ ⟨.dict, items⟩ cols := by
    intro cols
    induction cols with
    | nil => rfl
    | cons col rest ih => simp only [planCols, ih]; rfl
  simp only [sample, sampleEff, samplePlan, hpc]
  rfl

/-- The caller's `conditions` object after the call is the object before the call: the model is a
    pure function of its arguments and never writes to them (it rebinds a local name to
    `pd.Series(conditions)`).  The dynamic check on the real object is property C20's. -/
theorem conditions_not_modified (v : Variant) (inv : List (List α) → List (List α)) (le : ι → ι → Bool)
    (score ppf : ι → α → α) (phi : α → α) (rng : List α → List (List α) → ℕ → List (List α))
    (S : Corr ι α) (n : ℕ) (c : Conditions ι α) :
    (sampleEff v inv le score ppf phi rng S n c).2 = c := rfl

end container

/-! ## the conditional law: Schur complement -/
section schur
variable {ι : Type} [DecidableEq ι]

/-- The covariance handed to the sampler is symmetric whenever Σ is (and `inv` inverts `S22`). -/
theorem schur_symm (inv : List (List ℝ) → List (List ℝ)) (le : ι → ι → Bool) (S : Corr ι ℝ)
    (nc : List (ι × ℝ)) {d : CondDist ι ℝ} (h : condDist inv le S nc = .ok d)
    (hS : ∀ r c, S.loc1 r c = S.loc1 c r)
    (_hdet : IsUnit ((corrM S).submatrix (nc.map Prod.fst).get (nc.map Prod.fst).get).det)
    (hinv : toM _ _ (inv (S.loc (nc.map Prod.fst) (nc.map Prod.fst)))
      = ((corrM S).submatrix (nc.map Prod.fst).get (nc.map Prod.fst).get)⁻¹) :
    (toM d.columns.length d.columns.length d.cov).IsSymm
      ∧ ∀ i j, i < d.columns.length → j < d.columns.length → entry d.cov i j = entry d.cov j i := by
  obtain ⟨-, -, hcov⟩ := condDist_partition inv le S nc h
  have hsym : (toM d.columns.length d.columns.length d.cov).IsSymm := by
    rw [hcov, toM_condCov, hinv]
    have hsub : ∀ (e1 : Fin d.columns.length → ι) (e2 : Fin (nc.map Prod.fst).length → ι),
        ((corrM S).submatrix e1 e2)ᵀ = (corrM S).submatrix e2 e1 := by
      intro e1 e2; ext i j; simp [hS]
    exact schur_isSymm _ _ _ _ (by ext i j; simp [hS]) (hsub _ _) (by ext i j; simp [hS])
  refine ⟨hsym, fun i j hi hj => ?_⟩
  have := hsym.apply ⟨i, hi⟩ ⟨j, hj⟩
  simpa using this.symm
  -- `hdet` is not used by the algebra (Mathlib's `⁻¹` is total); it is there so that `hinv` speaks of
  -- a genuine inverse and the statement is not true for the wrong reason

/-- Σ positive semi-definite and the conditioned block `S22` positive definite ⇒ the covariance
    handed to the sampler (the Schur complement `S11 − S12 S22⁻¹ S21`) is positive semi-definite.
    Every partition, every `d`. -/
theorem schur_psd (inv : List (List ℝ) → List (List ℝ)) (le : ι → ι → Bool) (S : Corr ι ℝ)
    (nc : List (ι × ℝ)) {d : CondDist ι ℝ} (h : condDist inv le S nc = .ok d)
    (hPSD : (corrM S).PosSemidef)
    (h22 : ((corrM S).submatrix (nc.map Prod.fst).get (nc.map Prod.fst).get).PosDef)
    (hinv : toM _ _ (inv (S.loc (nc.map Prod.fst) (nc.map Prod.fst)))
      = ((corrM S).submatrix (nc.map Prod.fst).get (nc.map Prod.fst).get)⁻¹) :
    (toM d.columns.length d.columns.length d.cov).PosSemidef := by
  obtain ⟨-, -, hcov⟩ := condDist_partition inv le S nc h
  rw [hcov, toM_condCov, hinv]
  exact schur_posSemidef (corrM S) hPSD _ _ h22

/-- What is handed to `np.random.multivariate_normal` IS the pair
    `μ̄ = (S12 S22⁻¹) z`, `Σ̄ = S11 − S12 S22⁻¹ S21` on the sub-matrices of Σ for the sorted
    complement `columns1` and the condition labels, `z` the scores attached to those labels; and this
    pair has the two algebraic properties that characterise the conditional law of a partitioned
    normal `(X1, X2) ~ N(0, Σ)` given `X2 = z`: with `G = S12 S22⁻¹`, the residual `X1 − G X2` is
    uncorrelated with `X2` (`S12 − G S22 = 0`) and has covariance `Σ̄`.

    PARTIAL — not proved HERE: (i) the classical theorem itself (for jointly normal vectors
    "uncorrelated" gives "independent", hence `X1 | X2 = z ~ N(G z, Σ̄)`): it is proved in
    `Props/C12b.lean` on Mathlib's `multivariateGaussian` (`C12b.resid_indep`, `C12b.resid_law`,
    `C12b.conditional_law_kernel/_integral/_condDistrib/_sampling_scheme`) and tied to this
    statement by `C12b.sampler_params` / `C12b.sampler_is_conditional_law`; (ii) that numpy's
    generator draws from `N(mean, cov)` (trusted base).  With the as-found labelling `z` is only
    correctly attached when the conditions are in training order (`labels_aligned_asFound_iff`). -/
theorem conditional_law_partial (inv : List (List ℝ) → List (List ℝ)) (le : ι → ι → Bool) (S : Corr ι ℝ)
    (nc : List (ι × ℝ)) {d : CondDist ι ℝ} (h : condDist inv le S nc = .ok d)
    (hdet : IsUnit ((corrM S).submatrix (nc.map Prod.fst).get (nc.map Prod.fst).get).det)
    (hinv : toM _ _ (inv (S.loc (nc.map Prod.fst) (nc.map Prod.fst)))
      = ((corrM S).submatrix (nc.map Prod.fst).get (nc.map Prod.fst).get)⁻¹) :
    let c2 := nc.map Prod.fst
    let S11 := (corrM S).submatrix d.columns.get d.columns.get
    let S12 := (corrM S).submatrix d.columns.get c2.get
    let S21 := (corrM S).submatrix c2.get d.columns.get
    let S22 := (corrM S).submatrix c2.get c2.get
    d.columns = columns1 le S.labels c2
      ∧ toV d.columns.length d.mean = (S12 * S22⁻¹).mulVec (toV c2.length (nc.map Prod.snd))
      ∧ toM d.columns.length d.columns.length d.cov = S11 - S12 * S22⁻¹ * S21
      ∧ S12 - S12 * S22⁻¹ * S22 = 0
      ∧ S11 - S12 * S22⁻¹ * S12ᵀ - S12 * (S12 * S22⁻¹)ᵀ + S12 * S22⁻¹ * S22 * (S12 * S22⁻¹)ᵀ
          = S11 - S12 * S22⁻¹ * S12ᵀ := by
  intro c2 S11 S12 S21 S22
  obtain ⟨hcol, hmean, hcov⟩ := condDist_partition inv le S nc h
  refine ⟨hcol, ?_, ?_, residual_uncorrelated S12 S22 hdet, residual_cov S11 S12 S22 hdet⟩
  · rw [hmean, toV_condMean, hinv]
  · rw [hcov, toM_condCov, hinv]

/-- non-vacuity of the hypotheses of `schur_psd` / `schur_symm` / `conditional_law_partial`: labels
    `a, b` with Σ = [[2, 1], [1, 1]] (= AᵀA for A = [[1, 1], [1, 0]]), condition on `b`:
    `S22 = [1]` is positive definite, Σ is positive semi-definite, `inv = id` inverts `S22`, and the
    model returns `Σ̄ = [2 − 1·1·1] = [1]`. -/
example :
    let S : Corr (Fin 2) ℝ := ⟨[0, 1], [[2, 1], [1, 1]]⟩
    (corrM S).PosSemidef ∧ ((corrM S).submatrix [(1 : Fin 2)].get [(1 : Fin 2)].get).PosDef
      ∧ toM 1 1 (id (S.loc [1] [1])) = ((corrM S).submatrix [(1 : Fin 2)].get [(1 : Fin 2)].get)⁻¹
      ∧ ∃ d, condDist id (fun a b => decide (a ≤ b)) S [((1 : Fin 2), (0.3 : ℝ))] = .ok d ∧ d.cov = [[1]] := by
  intro S
  have hM : corrM S = (!![1, 1; 1, 0] : Matrix (Fin 2) (Fin 2) ℝ)ᴴ * !![1, 1; 1, 0] := by
    ext i j
    fin_cases i <;> fin_cases j <;>
      simp [S, Corr.loc1, entry, Matrix.mul_apply, Fin.sum_univ_two, List.idxOf, List.findIdx,
        List.findIdx.go] <;> norm_num
  have h1 : (corrM S).submatrix [(1 : Fin 2)].get [(1 : Fin 2)].get = (1 : Matrix (Fin 1) (Fin 1) ℝ) := by
    ext i j
    fin_cases i; fin_cases j
    simp [S, Corr.loc1, entry, List.idxOf, List.findIdx, List.findIdx.go]
  refine ⟨?_, ?_, ?_, ?_⟩
  · rw [hM]; exact Matrix.posSemidef_conjTranspose_mul_self _
  · rw [h1]; exact Matrix.PosDef.one
  · rw [h1, inv_one]
    ext i j
    fin_cases i; fin_cases j
    simp [S, Corr.loc, Corr.loc1, entry, List.idxOf, List.findIdx, List.findIdx.go]
  · have hc1 : columns1 (fun a b : Fin 2 => decide (a ≤ b)) S.labels [1] = [0] := by simp [columns1, S]
    refine ⟨⟨condMean id S [0] [1] [0.3], condCov id S [0] [1], [0]⟩, ?_, ?_⟩
    · simp only [condDist, List.map_cons, List.map_nil, hc1]; rfl
    simp [condCov, gain, matSub, matMul, table, sumRange, entry, Corr.loc, Corr.loc1, S, List.range_succ,
      List.idxOf, List.findIdx, List.findIdx.go]
    norm_num

end schur

/-- non-vacuity of `WellFormed` (hypothesis of `sample_returns`, `labels_aligned*`): columns `a, b, c`,
    conditions `{c: 1, a: 2}` — which is NOT in training order. -/
example : WellFormed [Col.a, Col.b, Col.c] (⟨.dict, [(Col.c, (1 : ℝ)), (Col.a, 2)]⟩ : Conditions Col ℝ)
    ∧ ¬ InTrainingOrder [Col.a, Col.b, Col.c] [Col.c, Col.a]
    ∧ InTrainingOrder [Col.a, Col.b, Col.c] [Col.a, Col.c] := by
  refine ⟨⟨by decide, by decide, by decide, by simp, ⟨Col.b, by decide, by decide⟩⟩,
    by simp [InTrainingOrder, walked], by simp [InTrainingOrder, walked]⟩

end CopVerif.Props.C12
