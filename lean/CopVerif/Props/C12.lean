import CopVerif.Model.GaussCond
namespace CopVerif.Props.C12
end CopVerif.Props.C12
