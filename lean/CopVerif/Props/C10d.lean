import CopVerif.Props.C10
/-!
# C10 (extension d) — the complementary form of the closed-form calibrations

The search side of C10 holds the two closed-form families to `1 − τ(θ) = 1 − τ` *relative* to
`1 − τ` (an absolute tolerance on `τ(θ) − τ` is blind once `1 − τ` is below it: a θ capped at 2²³
for `1 − τ < 1.19e-7` moves τ(θ) by less than 1e-7).  These theorems state, for the GENERATED
`compute_theta`, the exact identities that oracle checks to rounding: `2/(θ+2) = 1 − τ` (Clayton)
and `1/θ = 1 − τ` (Gumbel), for every `τ ≠ 1` — in particular θ is unbounded as τ → 1, no cap is
compatible with them (`gumbel_theta_unbounded`, `clayton_theta_unbounded`).
-/
namespace CopVerif.Props.C10d
open CopVerif

/-- Clayton: `1 − θ/(θ+2) = 2/(θ+2)`, and for the computed θ it equals `1 − τ`. -/
theorem clayton_complement {τ θ : ℝ} (h : τ ≠ 1)
    (hc : Gen.Clayton.computeTheta τ = .ok (.fin θ)) :
    2 / (θ + 2) = 1 - τ := by
  obtain ⟨hθ, -⟩ := C10.clayton_tau_roundtrip h hc
  have h1 : (1 - τ) ≠ 0 := sub_ne_zero.mpr (Ne.symm h)
  have h2 : θ + 2 = 2 / (1 - τ) := by rw [hθ]; field_simp; ring
  rw [h2]; field_simp

/-- Gumbel: for the computed θ, `1/θ = 1 − τ`. -/
theorem gumbel_complement {τ θ : ℝ} (h : τ ≠ 1)
    (hc : Gen.Gumbel.computeTheta τ = .ok (.fin θ)) :
    1 / θ = 1 - τ := by
  obtain ⟨hθ, -⟩ := C10.gumbel_tau_roundtrip h hc
  rw [hθ]; simp

/-- no finite cap on Gumbel's θ is compatible with the calibration: for every bound `B` there is a
`τ < 1` whose computed θ exceeds it. -/
theorem gumbel_theta_unbounded (B : ℝ) (hB : 0 < B) :
    ∃ τ : ℝ, 0 < τ ∧ τ < 1 ∧
      Gen.Gumbel.computeTheta τ = .ok (.fin (1 / (1 - τ))) ∧ B < 1 / (1 - τ) := by
  refine ⟨1 - 1 / (B + 1), ?_, ?_, ?_, ?_⟩
  · have : 1 / (B + 1) < 1 := by rw [div_lt_one (by linarith)]; linarith
    linarith
  · have : 0 < 1 / (B + 1) := by positivity
    linarith
  · exact C10.gumbel_tau_computed (by
      have : 0 < 1 / (B + 1) := by positivity
      linarith)
  · have : (1 : ℝ) - (1 - 1 / (B + 1)) = 1 / (B + 1) := by ring
    rw [this, one_div_one_div]; linarith

/-- the same for Clayton's `2τ/(1−τ)`. -/
theorem clayton_theta_unbounded (B : ℝ) (hB : 0 < B) :
    ∃ τ : ℝ, 0 < τ ∧ τ < 1 ∧
      Gen.Clayton.computeTheta τ = .ok (.fin (2 * τ / (1 - τ))) ∧ B < 2 * τ / (1 - τ) := by
  have hpos : 0 < 1 / (B + 1) := by positivity
  have hlt : 1 / (B + 1) < 1 := by rw [div_lt_one (by linarith)]; linarith
  refine ⟨1 - 1 / (B + 1), by linarith, by linarith, C10.clayton_tau_computed (by linarith), ?_⟩
  have h1 : (1 : ℝ) - (1 - 1 / (B + 1)) = 1 / (B + 1) := by ring
  rw [h1]
  have hB1 : (B + 1) ≠ 0 := by linarith
  have : 2 * (1 - 1 / (B + 1)) / (1 / (B + 1)) = 2 * B := by field_simp; ring
  rw [this]; linarith

/-- non-vacuity: τ = 1/2 gives θ = 2 for both families and the complements are 1/2. -/
example : (2 : ℝ) / (2 + 2) = 1 - 1 / 2 ∧ (1 : ℝ) / 2 = 1 - 1 / 2 := by norm_num

end CopVerif.Props.C10d
