import CopVerif.Real.Inst
import CopVerif.Lemmas.VineFlow
/-!
# C17 — Vine pair-copula data flow, likelihood and sampling are coherent

Model: `Model/VineFlow.lean` (plan terms over the external symbols `COL`, `Uof`, `SELECT`, `H`,
`PDF`, `PPF`; the harness interprets them with the real fitted objects).  Lemmas:
`Lemmas/VineFlow.lean`.

The data-flow clauses of the property hold **under the hypothesis the code silently makes**
(`flowOK`: after `Edge.sort_edge`, `parents[0]` carries the child's smaller conditioned variable and
`parents[1]` the larger one; `goodVine` = a well-formed structure in which every edge satisfies it).
`sort_edge` orders the parents by `(L, R)`, which does not guarantee this: the theorems named
`…_counterexample` exhibit the 4-variable direct vine `3 – 2 – 0 – 1` whose level-3 edge
`(1,3 | 0,2)` has parents `[(0,3 | 2), (1,2 | 0)]`, on which the wrong pseudo-observations are
selected and `get_likelihood` reads two cells nobody wrote.  `goodVine` is decidable and is
evaluated by the driver on every real fitted vine.
-/
namespace CopVerif.Props.C17
open CopVerif CopVerif.Model.VineFlow

/-! ## the 0/1 correction -/

/-- `prepare_next_tree`'s correction (`≤ 0 ↦ ε`, `≥ 1 ↦ 1 − ε`) maps EVERY real number strictly
inside `(0,1)` — no hypothesis on the conditional-CDF routine is needed — and leaves values already
inside unchanged. -/
theorem fix01_range {ε : ℝ} (hε : 0 < ε) (hε2 : ε < 1 / 2) (h : ℝ) :
    0 < fix01 ε h ∧ fix01 ε h < 1 ∧ (h ≤ 0 → fix01 ε h = ε) ∧ (1 ≤ h → fix01 ε h = 1 - ε) ∧
      (0 < h → h < 1 → fix01 ε h = h) ∧ ε ≤ max h ε ∧ min h ε ≤ fix01 ε h ∧
      fix01 ε h ≤ max h (1 - ε) := by
  have hε1 : ¬ (1 ≤ ε) := by linarith
  have v0 : h ≤ 0 → fix01 ε h = ε := by
    intro a; simp [fix01, a, hε1]
  have v1 : 1 ≤ h → fix01 ε h = 1 - ε := by
    intro a
    have : ¬ h ≤ 0 := by linarith
    simp [fix01, a, this]
  have vm : 0 < h → h < 1 → fix01 ε h = h := by
    intro a b
    have h1 : ¬ h ≤ 0 := by linarith
    have h2 : ¬ 1 ≤ h := by linarith
    simp [fix01, h1, h2]
  refine ⟨?_, ?_, v0, v1, vm, le_max_right _ _, ?_, ?_⟩ <;>
  · rcases le_or_gt h 0 with a | a
    · rw [v0 a]
      first | linarith | exact min_le_right _ _ | exact le_trans (by linarith) (le_max_right _ _)
    · rcases le_or_gt 1 h with b | b
      · rw [v1 b]
        first | linarith | exact le_trans (min_le_right _ _) (by linarith) | exact le_max_right _ _
      · rw [vm a b]
        first | linarith | exact min_le_left _ _ | exact le_max_left _ _

/-- both stored rows of `edge.U`, for an arbitrary `partial_derivative`. -/
theorem edgeU_range {ε : ℝ} (H : ℝ → ℝ → ℝ) (hε : 0 < ε) (hε2 : ε < 1 / 2) (l r : ℝ) :
    0 < (edgeU ε H l r).1 ∧ (edgeU ε H l r).1 < 1 ∧ 0 < (edgeU ε H l r).2 ∧ (edgeU ε H l r).2 < 1 := by
  obtain ⟨a1, a2, _⟩ := fix01_range hε hε2 (H l r)
  obtain ⟨b1, b2, _⟩ := fix01_range hε hε2 (H r l)
  exact ⟨a1, a2, b1, b2⟩

/-- regression (repaired in /repo 2e73dc6; the code compared with `== 1`): a conditional-CDF value
rounded slightly above 1 — Clayton θ = 21.8 returns `1.0000000000000044` at
`(0.4593…, 0.0559…)` — is stored as `1 − ε`, and one slightly below 0 as `ε`. -/
theorem fix01_above_one_regression {ε : ℝ} (hε : 0 < ε) (hε2 : ε < 1 / 2) :
    fix01 ε (1 + 44 / 10 ^ 16) = 1 - ε ∧ fix01 ε (-(1 / 10 ^ 16)) = ε := by
  constructor
  · exact (fix01_range hε hε2 _).2.2.2.1 (by norm_num)
  · exact (fix01_range hε hε2 _).2.2.1 (by norm_num)

example : (0 : ℝ) < 2⁻¹ ^ 23 ∧ (2⁻¹ ^ 23 : ℝ) < 1 / 2 := by norm_num

/-! ## the running examples -/

/-- the direct vine on the path `3 – 2 – 0 – 1` (a real fit: DESIGN §6 item F). -/
def dvine4 : List Tree := [
  [⟨0, 2, 3, [], none⟩, ⟨1, 0, 2, [], none⟩, ⟨2, 0, 1, [], none⟩],
  [⟨0, 0, 3, [2], some (1, 0)⟩, ⟨1, 1, 2, [0], some (2, 1)⟩],
  [⟨0, 1, 3, [0, 2], some (0, 1)⟩]]

/-- the direct vine on the path `1 – 3 – 0 – 2`, on which the hypothesis holds. -/
def dvineGood : List Tree := [
  [⟨0, 1, 3, [], none⟩, ⟨1, 0, 3, [], none⟩, ⟨2, 0, 2, [], none⟩],
  [⟨0, 0, 1, [3], some (1, 0)⟩, ⟨1, 2, 3, [0], some (2, 1)⟩],
  [⟨0, 1, 2, [0, 3], some (0, 1)⟩]]

/-- non-vacuity of the hypothesis bundle. -/
example : goodVine dvineGood = true := by decide
example : goodVine dvine4 = false := by decide

/-! ## which pseudo-observations feed which pair copula -/

/-- **Partial** (hypothesis `flowOK`, part of `childOK`): for an edge `e` above the first tree the
inputs `Edge.get_conditional_uni` selects are, from `parents[0]`, the pseudo-observation whose
conditioned variable is `e.L` given exactly `e.D`, and from `parents[1]` the one of `e.R` given
`e.D` — what a regular vine needs (`needSlot`).  Missing for full strength: `flowOK` is not
guaranteed by `sort_edge` (see `edge_inputs_counterexample`). -/
theorem edge_inputs_spec_partial {prev : Tree} {e : Edge}
    (hwf : treeWF prev = true) (hc : childOK prev e = true) :
    ∃ i0 i1 p0 p1 s0 s1, e.parents = some (i0, i1) ∧ prev[i0]? = some p0 ∧ prev[i1]? = some p1 ∧
      edgePlan false prev e = .ok ⟨.uof i0 s0, .uof i1 s1⟩ ∧
      slotVar p0 s0 = e.L ∧ slotVar p1 s1 = e.R ∧
      (∀ x, x ∈ slotGiven p0 s0 ↔ x ∈ e.D) ∧ (∀ x, x ∈ slotGiven p1 s1 ↔ x ∈ e.D) ∧
      needSlot p0 p1 i0 i1 e.L = some (.uof i0 s0) ∧ needSlot p0 p1 i0 i1 e.R = some (.uof i1 s1) :=
  edgePlan_spec (treeWF_parts hwf).1 hc

/-- The hypothesis fails on a regular vine the code builds: in `dvine4` the level-3 edge
`(1,3 | 0,2)` has `parents = [(0,3 | 2), (1,2 | 0)]`; the code feeds its pair copula with
`parents[0].U[1] = F(3 | 0,2)` as LEFT input and `parents[1].U[1] = F(2 | 0,1)` as RIGHT input,
whereas the edge needs `F(1 | 0,2) = parents[1].U[0]` and `F(3 | 0,2) = parents[0].U[1]`. -/
theorem edge_inputs_counterexample :
    ∃ (t1 prev : Tree) (p0 p1 e : Edge), dvine4 = [t1, prev, [e]] ∧ prev = [p0, p1] ∧
      treeWF prev = true ∧ identify p0 p1 = .ok (e.L, e.R, [0, 2]) ∧ e.D = [0, 2] ∧
      flowOK e p0 p1 = false ∧
      edgePlan false prev e = .ok ⟨.uof 0 1, .uof 1 1⟩ ∧
      slotVar p0 1 = 3 ∧ e.L = 1 ∧ slotVar p1 1 = 2 ∧ e.R = 3 ∧
      needSlot p0 p1 0 1 e.L = some (.uof 1 0) ∧ needSlot p0 p1 0 1 e.R = some (.uof 0 1) := by
  refine ⟨_, _, ⟨0, 0, 3, [2], some (1, 0)⟩, ⟨1, 1, 2, [0], some (2, 1)⟩,
    ⟨0, 1, 3, [0, 2], some (0, 1)⟩, rfl, rfl, ?_⟩
  refine ⟨by decide, rfl, rfl, by decide, rfl, rfl, rfl, rfl, rfl, rfl, rfl⟩

/-- Why `childOK` demands the parents in `sort_edge` order (the code's invariant; every tree builder
sorts before `get_child_edge`): handing the SAME two parents over as (anchor, other) —
`[(0,3), (0,1)]` for the C-vine edge `(1,3 | 0)` — makes `get_conditional_uni` return
`(F(3 | 0), F(1 | 0))`, the two inputs swapped, so `edge.U[0]`/`U[1]` hold `F(R|L;D)`/`F(L|R;D)`;
in sorted order `[(0,1), (0,3)]` the inputs are right. -/
theorem parents_order_counterexample :
    ∃ (a b e : Edge), e.L = 1 ∧ e.R = 3 ∧ sortedOK a b = false ∧ sortedOK b a = true ∧
      edgePlan false [a, b] ⟨0, 1, 3, [0], some (0, 1)⟩ = .ok ⟨.uof 0 1, .uof 1 1⟩ ∧
      slotVar a 1 = 3 ∧ slotVar b 1 = 1 ∧ childOK [a, b] e = false ∧
      edgePlan false [b, a] e = .ok ⟨.uof 0 1, .uof 1 1⟩ ∧ slotVar b 1 = e.L ∧ slotVar a 1 = e.R ∧
      childOK [b, a] e = true := by
  refine ⟨⟨0, 0, 3, [], none⟩, ⟨1, 0, 1, [], none⟩, ⟨0, 1, 3, [0], some (0, 1)⟩, ?_⟩
  decide

/-- whole-vine form: in a `goodVine` the fit plan exists (no step raises). -/
theorem fit_plan_total_partial :
    ∀ (ts : List Tree) (prev : Tree), treeWF prev = true → goodFrom prev ts = true →
      ∃ plan, fitPlanFrom false prev ts = .ok plan
  | [], _, _, _ => ⟨[], rfl⟩
  | t :: ts, prev, hwf, hg => by
    simp only [goodFrom, Bool.and_eq_true] at hg
    obtain ⟨⟨hwt, hch⟩, hrest⟩ := hg
    obtain ⟨plan, hp⟩ := fit_plan_total_partial ts t hwt hrest
    have : ∀ e ∈ t, ∃ ep, edgePlan false prev e = .ok ep := by
      intro e he
      obtain ⟨i0, i1, p0, p1, s0, s1, _, _, _, h, _⟩ :=
        edgePlan_spec (treeWF_parts hwf).1 (List.all_eq_true.mp hch e he)
      exact ⟨_, h⟩
    have hm : ∃ eps, mapE (edgePlan false prev) t = .ok eps := by
      clear hch hwt hrest hp
      induction t with
      | nil => exact ⟨[], rfl⟩
      | cons e t ih =>
        obtain ⟨ep, h1⟩ := this e List.mem_cons_self
        obtain ⟨eps, h2⟩ := ih fun x hx => this x (List.mem_cons_of_mem _ hx)
        exact ⟨ep :: eps, by simp [mapE, h1, h2]⟩
    obtain ⟨eps, hm⟩ := hm
    exact ⟨eps :: plan, by simp [fitPlanFrom, hm, hp]⟩

/-! ## likelihood -/

/-- **Partial** (hypothesis `goodVine`): `get_likelihood` raises nothing and every cell it reads
at level k was written at level k−1.  Missing: `goodVine` fails on vines the code builds. -/
theorem likelihood_reads_written_partial {trees : List Tree} (hg : goodVine trees = true) :
    ∃ plan, likPlan trees = .ok plan ∧ ∀ lv ∈ plan, ∀ le ∈ lv, le.readsWritten = true := by
  obtain ⟨plan, h1, _, h3⟩ := likPlan_spec hg
  exact ⟨plan, h1, h3⟩

/-- the complete read plan of `get_likelihood` on `dvine4`. -/
def dvine4Plan : List (List LikEdge) := [
  [⟨.input 2, .input 3, .u 2, .u 3⟩, ⟨.input 0, .input 2, .u 0, .u 2⟩, ⟨.input 0, .input 1, .u 0, .u 1⟩],
  [⟨.cell 0 2 true, .cell 3 2 true, .h 0 1 (.u 0) (.u 2), .h 0 0 (.u 3) (.u 2)⟩,
   ⟨.cell 1 0 true, .cell 2 0 true, .h 0 2 (.u 1) (.u 0), .h 0 1 (.u 2) (.u 0)⟩],
  [⟨.cell 1 0 false, .cell 3 2 false, .junk 1 1 0, .junk 1 3 2⟩]]

/-- On `dvine4` the level-3 edge reads `uni_matrix[1, 0]` and `uni_matrix[3, 2]`; level 2 wrote
only `[0,3] [3,0] [1,2] [2,1]`: both reads hit `⊥` (the content of `np.empty`), whereas the
specification needs `F(1 | 0,2)` (cell `[1,2]`) and `F(3 | 0,2)` (cell `[3,0]`). -/
theorem likelihood_reads_written_counterexample :
    likPlan dvine4 = .ok dvine4Plan ∧
    dvine4Plan[2]? = some [⟨.cell 1 0 false, .cell 3 2 false, .junk 1 1 0, .junk 1 3 2⟩] ∧
    (specArgs dvine4).map (·[2]?) = some (some
      [(.h 1 1 (.h 0 2 (.u 1) (.u 0)) (.h 0 1 (.u 2) (.u 0)),
        .h 1 0 (.h 0 0 (.u 3) (.u 2)) (.h 0 1 (.u 0) (.u 2)))]) :=
  ⟨rfl, rfl, rfl⟩

/-- **Partial** (hypothesis `goodVine`): the value of `get_likelihood(u)` is
`Σ_trees Σ_edges log pdf_e(a_e, b_e)` where `(a_e, b_e)` are the h-propagated arguments of the
specification `specArgs` (chosen by VARIABLE: `F(L | D)`, `F(R | D)`), whatever the content of the
uninitialised buffers. -/
theorem likelihood_is_sum_of_log_pdfs_partial {trees : List Tree} (hg : goodVine trees = true)
    (I : Interp ℝ) (u : ℕ → ℝ) (junk : ℕ → ℕ → ℕ → ℝ) :
    ∃ plan args, likPlan trees = .ok plan ∧ specArgs trees = some args ∧
      plan.map (·.map LikEdge.args) = args ∧ argsClean args ∧
      likValue I u junk (plan.map (·.map LikEdge.args)) =
        sumTrees (fun k i a => Real.log (I.pdf k i (evalTerm I u (fun _ _ _ => 0) a.1)
          (evalTerm I u (fun _ _ _ => 0) a.2))) 0 args := by
  obtain ⟨plan, h1, h2, _⟩ := likPlan_spec hg
  refine ⟨plan, _, h1, h2, rfl, specArgs_clean h2, ?_⟩
  rw [likValue_junk_irrelevant I u junk (fun _ _ _ => 0) (specArgs_clean h2)]
  rfl

/-- **Partial** (hypothesis `goodVine`): `get_likelihood` is a function of (model, u) only. -/
theorem likelihood_deterministic_partial {trees : List Tree} (hg : goodVine trees = true)
    (I : Interp ℝ) (u : ℕ → ℝ) (j1 j2 : ℕ → ℕ → ℕ → ℝ) :
    ∃ plan, likPlan trees = .ok plan ∧
      likValue I u j1 (plan.map (·.map LikEdge.args)) = likValue I u j2 (plan.map (·.map LikEdge.args)) := by
  obtain ⟨plan, h1, h2, _⟩ := likPlan_spec hg
  exact ⟨plan, h1, likValue_junk_irrelevant I u j1 j2 (specArgs_clean h2)⟩

/-- On `dvine4` the value depends on the previous content of the `np.empty` buffer. -/
theorem likelihood_deterministic_counterexample :
    ∃ (I : Interp ℝ) (u : ℕ → ℝ) (j1 j2 : ℕ → ℕ → ℕ → ℝ),
      likPlan dvine4 = .ok dvine4Plan ∧
      likValue I u j1 (dvine4Plan.map (·.map LikEdge.args)) ≠
        likValue I u j2 (dvine4Plan.map (·.map LikEdge.args)) := by
  refine ⟨⟨fun _ _ a _ => a, fun k _ a _ => if k = 2 then Real.exp a else 1⟩, fun _ => 0,
    fun _ _ _ => 0, fun _ _ _ => 1, rfl, ?_⟩
  simp [likValue, sumTrees, sumFrom, evalTerm, dvine4Plan, LikEdge.args]

/-! ## sampling -/

/-- `sample(n)`: `n` rows of `d` columns, and on a first tree that is a spanning tree (certificate
`rootedOK`, re-checked by the driver on every real first tree and every start node) every column is
assigned exactly once: the visit order is a permutation of the variables. -/
theorem sample_shape {t : Tree} {d first n : ℕ} {par depth : List ℕ}
    (h : rootedOK t d first par depth = true) :
    ∃ order rows, visitOrder t d first = .ok order ∧ order.Perm (List.range d) ∧
      sampleShape t d first n = .ok rows ∧ rows.length = n ∧
      ∀ row ∈ rows, row = List.replicate d 1 := by
  obtain ⟨order, h1, h2⟩ := visitOrder_perm h
  refine ⟨order, List.replicate n (rowCells d order), h1, h2, by simp [sampleShape, h1], by simp, ?_⟩
  intro row hrow
  rw [(List.mem_replicate.mp hrow).2]
  exact rowCells_of_perm h2

/-- the visits reported by `sampleRow` are the traversal order. -/
theorem sampleRow_visits {trees : List Tree} {t : Tree} {rest : List Tree} {d trunc first : ℕ}
    {vs : List Visit} (ht : trees = t :: rest) (h : sampleRow trees d trunc first = .ok vs) :
    visitOrder t d first = .ok (vs.map (·.current)) := by
  subst ht
  unfold sampleRow at h
  unfold visitOrder
  cases htr : traverse t d (d * d + d + 1) [first] [] with
  | error e => simp [htr] at h
  | ok order =>
    simp only [htr] at h
    simp [annotate_currents order 0 false vs h]

/-- non-vacuity: the first tree of `dvine4` rooted at each of its variables. -/
example : ∀ first < 4, rootedOK dvine4.head! 4 first (bfsRoot dvine4.head! 4 first).1
    (bfsRoot dvine4.head! 4 first).2 = true := by decide

/-- **Partial**: for two columns (any truncation `≥ 1`) the sampler is
`x_first = PPF_first(u_first)`, `x_other = PPF_other(clamp(C⁻¹(u_other | u_first)))` — C09's
transform followed by the marginal quantiles, for either start node.  The statistical agreement of
the output (marginals, Kendall tau) is not a theorem: it is C09/C03 plus the deep search. -/
theorem two_column_sampling_partial (n : ℕ) :
    sampleRow [[⟨0, 0, 1, [], none⟩]] 2 (n + 1) 0 =
        .ok [⟨0, none, []⟩, ⟨1, some 0, [⟨0, 0, true⟩]⟩] ∧
    sampleRow [[⟨0, 0, 1, [], none⟩]] 2 (n + 1) 1 =
        .ok [⟨1, none, []⟩, ⟨0, some 1, [⟨0, 0, true⟩]⟩] :=
  ⟨rfl, rfl⟩

end CopVerif.Props.C17
