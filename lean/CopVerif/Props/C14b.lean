import CopVerif.Props.C14
import CopVerif.Lemmas.SerialObs
/-!
# C14 (extension) — `to_dict` after a round trip, and vine re-linking at full strength

`Props/C14.lean` proves that a round trip preserves the observable state (`roundtrip`,
`roundtrip_iter`) and, for vines, `vine_relink_partial`.  This file adds what those leave open:

* `todict_observable` — for EVERY public class `to_dict()` reads only the observable state;
* `roundtrip_todict`, `roundtrip_iter_todict` — hence the clause "`from_dict(to_dict(m)).to_dict()`
  equals the original's", for every reachable model of every class and after any number of round trips;
* `vine_relink` — the full-strength TRUE statement about re-linking a deserialised vine: same observable
  state, the same dict again, again a reachable state, `previous_tree` links rebuilt, and the structural
  invariant "every parent of an edge of tree `k+1` is an edge of tree `k`" is preserved when edges are
  compared BY VALUE (`ParentsInPrev`: object identities erased) — which is all `to_dict`,
  `get_likelihood` and `_sample_row` can read;
* `vine_relink_identity_counterexample` — the remaining reading, re-linking BY OBJECT IDENTITY
  (`edge.parents[i] is` an edge object of the previous tree), is FALSE of `from_dict` for every fitted
  vine that has an edge with parents (every vine with at least two trees): some rebuilt parent is
  identical to no edge object of any rebuilt tree.  Identity is not an observable of the property
  (`to_dict`, `pdf`, `cdf`, `sample` do not read or mutate it), so this does not contradict C14.
-/
namespace CopVerif.Props.C14b
open CopVerif.Model.Serial
open CopVerif.Gen.Serial

/-- **`to_dict` reads only the observable state**, for every public class: two models (of any kinds)
    with the same observable state return the same dict — or both raise. -/
theorem todict_observable (T : Tables) (m m' : Model) (h : m'.obs = m.obs) :
    m'.toDict T = m.toDict T := by
  rw [Model.toDict_obs, Model.toDict_obs, h]

/-- **Round trip, `to_dict` clause.**  For every reachable state `m` of every class, `to_dict`
    succeeds with some `d`, the entry point of `m`'s kind rebuilds a model `m'`, and `m'.to_dict()`
    is `d` again; `m'` has the same observable state and is again a reachable state. -/
theorem roundtrip_todict (T : Tables) (m : Model) (h : ModelWF T m) :
    ∃ d m', m.toDict T = some d ∧ fromDict T m.entry d = some m' ∧ m'.toDict T = some d ∧
      m'.obs = m.obs ∧ ModelWF T m' ∧ m'.entry = m.entry := by
  obtain ⟨d, m', hd, hf, ho, hw, he⟩ := C14.roundtrip T m h
  exact ⟨d, m', hd, hf, by rw [todict_observable T m m' ho, hd], ho, hw, he⟩

/-- **Any number of round trips** leaves `to_dict()` (and the observable state) unchanged. -/
theorem roundtrip_iter_todict (T : Tables) (n : Nat) (m : Model) (h : ModelWF T m) :
    ∃ m', tripN T n m = some m' ∧ m'.toDict T = m.toDict T ∧ (m'.toDict T).isSome = true ∧
      m'.obs = m.obs ∧ ModelWF T m' := by
  obtain ⟨m', ht, ho, hw⟩ := C14.roundtrip_iter T n m h
  obtain ⟨d, _, hd, _⟩ := C14.roundtrip T m h
  have e := todict_observable T m m' ho
  exact ⟨m', ht, e, by rw [e, hd]; rfl, ho, hw⟩

/-- **Re-linking of a deserialised vine — full statement.**  For every reachable fitted vine `s`:
    `to_dict` succeeds with `d`; `VineCopula.from_dict(d)` succeeds with `s'`; `s'` has the same
    observable state, returns the same dict `d`, is fitted and again a reachable state (so the
    statement iterates); its trees equal the original's with identities erased; `previous_tree` of
    tree `k > 0` is the rebuilt tree `k − 1` and tree `0` holds the matrix (`TreesWF`); if in `s`
    every parent of an edge of tree `k+1` is (by value) an edge of tree `k`, the same holds in
    `s'` (`ParentsInPrev`); and `get_likelihood` / `_sample_row` read only identity-erased data. -/
theorem vine_relink (T : Tables) (s : Vine) (h : VineWF T.fams s) (hf : s.fitted = true) :
    ∃ d s', s.toDict = some d ∧ vineFromDict T.fams d = some s' ∧ s'.obs = s.obs ∧
      s'.toDict = some d ∧ s'.fitted = true ∧ VineWF T.fams s' ∧
      s'.trees.map Tree.strip = s.trees.map Tree.strip ∧ TreesWF 0 s'.trees ∧
      (ParentsInPrev s.trees → ParentsInPrev s'.trees) ∧
      (∀ e e' : Edge, e'.strip = e.strip →
        e'.likelihoodView = e.likelihoodView ∧ e'.sampleView = e.sampleView) := by
  obtain ⟨d, s', hd, hfd, ho, hstrip, htw, _, hviews⟩ := C14.vine_relink_partial T.fams s h hf
  obtain ⟨d2, m', hd2, hf2, _, hw2, _⟩ := C14.roundtrip T (.vine s) h
  have hdd : d = d2 := Option.some.inj (hd.symm.trans hd2)
  subst hdd
  have hm' : m' = .vine s' := by
    simp only [fromDict, Model.entry, hfd, Option.map_some, Option.some.injEq] at hf2
    exact hf2.symm
  subst hm'
  have hf' : s'.fitted = true := by
    have : s'.obs.fitted = s.obs.fitted := by rw [ho]
    simp only [Vine.obs, hf, if_true] at this
    by_cases hs' : s'.fitted = true
    · exact hs'
    · simp [hs'] at this
  have htd : s'.toDict = some d := by
    have := todict_observable T (.vine s) (.vine s') (by simp [Model.obs, ho])
    simpa [Model.toDict, hd] using this
  exact ⟨d, s', hd, hfd, ho, htd, hf', hw2, hstrip, htw, ParentsInPrev.of_strip_eq hstrip, hviews⟩

/-- **Re-linking by object identity is false.**  For every reachable fitted vine in which some edge
    has parents (every fitted vine with at least two trees), the vine rebuilt by `from_dict` contains
    an edge with a parent object that is identical to NO edge object of ANY of its trees: the
    in-memory sharing `edge.parents[i] is previous_tree.edges[j]` created by `fit` is not restored. -/
theorem vine_relink_identity_counterexample (fams : List Family) (s : Vine) (h : VineWF fams s)
    (hf : s.fitted = true) (hpar : ∃ t ∈ s.trees, ∃ e ∈ t.edges, e.parents ≠ []) :
    ∃ d s', s.toDict = some d ∧ vineFromDict fams d = some s' ∧
      ∃ t ∈ s'.trees, ∃ e ∈ t.edges, ∃ p ∈ e.parents,
        ∀ t2 ∈ s'.trees, ∀ e2 ∈ t2.edges, p.oid ≠ e2.oid := by
  obtain ⟨d, s', hd, hfd, _, hstrip, _, hfresh, _⟩ := C14.vine_relink_partial fams s h hf
  obtain ⟨t, ht, e, he, hne⟩ := hpar
  have ht' : t.strip ∈ s'.trees.map Tree.strip := hstrip ▸ List.mem_map.2 ⟨t, ht, rfl⟩
  obtain ⟨t', ht'm, hts⟩ := List.mem_map.1 ht'
  have hedges : t.edges.map Edge.strip = t'.edges.map Edge.strip := by
    rw [← Tree.strip_edges, ← Tree.strip_edges, hts]
  obtain ⟨e', he', hes⟩ := mem_of_map_strip_eq hedges he
  have hpars : e'.parents.map Edge.strip = e.parents.map Edge.strip := by
    rw [← Edge.strip_parents, ← Edge.strip_parents, hes]
  have hne' : e'.parents ≠ [] := by
    intro hnil
    rw [hnil] at hpars
    exact hne (List.map_eq_nil_iff.1 hpars.symm)
  obtain ⟨p, hp⟩ := List.exists_mem_of_ne_nil _ hne'
  exact ⟨d, s', hd, hfd, t', ht'm, e', he', p, hp, fun t2 ht2 e2 he2 => hfresh t' ht'm e' he' p hp t2 ht2 e2 he2⟩

/-! ## non-vacuity: a concrete reachable two-tree vine whose second tree's edge has a parent -/

/-- the edge of the first tree (no parents). -/
def exEdge0 : Edge :=
  .mk [0, 0] (.num (.i 0)) (.num (.i 0)) (.num (.i 1)) (.str "CLAYTON") (.num (.f 0x4000000000000000))
    (.arr (.list [])) [] .none (.num (.f 0x3FE0000000000000)) .none (.list [])

/-- the edge of the second tree; its parent is the edge of the first tree. -/
def exEdge1 : Edge :=
  .mk [1, 0] (.num (.i 0)) (.num (.i 0)) (.num (.i 2)) (.str "FRANK") (.num (.f 0x3FF0000000000000))
    (.arr (.list [])) [exEdge0] (.list [.num (.i 1)]) (.num (.f 0x3FD0000000000000)) .none (.list [])

def exVine : Vine :=
  { vineType := .str "center", fitted := true, nSample := .num (.i 10), nVar := .num (.i 3),
    depth := .num (.i 2), truncated := .num (.i 3),
    trees := [{ treeType := "CENTER", fitted := true, level := .num (.i 1), nNodes := .num (.i 3),
                tauMatrix := .arr (.list []), previous := .matrix (.arr (.list [])), edges := [exEdge0] },
              { treeType := "CENTER", fitted := true, level := .num (.i 2), nNodes := .num (.i 2),
                tauMatrix := .arr (.list []), previous := .link 0, edges := [exEdge1] }],
    tauMat := .arr (.list []), uMatrix := .arr (.list []), unis := [], columns := .list [] }

example (fams : List Family) : VineWF fams exVine ∧ exVine.fitted = true ∧
    (∃ t ∈ exVine.trees, ∃ e ∈ t.edges, e.parents ≠ []) ∧ ParentsInPrev exVine.trees := by
  refine ⟨⟨fun _ => ⟨by simp [exVine], ?_⟩, fun _ u hu => by simp [exVine] at hu⟩, rfl, ?_, ?_⟩
  · refine ⟨rfl, fun _ => ⟨by decide, _, rfl⟩, fun h => absurd rfl h, rfl, fun h => absurd h (by decide),
      fun _ => ⟨by decide, rfl⟩, trivial⟩
  · exact ⟨_, List.mem_cons_of_mem _ (List.mem_singleton.2 rfl), exEdge1, List.mem_singleton.2 rfl,
      by simp [exEdge1, Edge.parents]⟩
  · intro k t tp ht htp e he p hp
    match k with
    | 0 =>
      simp only [exVine, List.getElem?_cons_succ, List.getElem?_cons_zero, Option.some.injEq] at ht htp
      subst ht htp
      simp only [List.mem_singleton] at he
      subst he
      simp only [exEdge1, Edge.parents, List.mem_singleton] at hp
      subst hp
      exact ⟨exEdge0, List.mem_singleton.2 rfl, rfl⟩
    | k + 1 => simp [exVine] at ht

end CopVerif.Props.C14b
