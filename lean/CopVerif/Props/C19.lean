import CopVerif.Lemmas.Lifecycle
import CopVerif.Gen.Lifecycle
/-!
# C19 — Model lifecycle: fit is a pure function of its inputs; misuse fails loudly

Property theorems only (core Lean, no Mathlib).  They are about the definitions of
`CopVerif.Model.Lifecycle` themselves — `fit`/`fitAll` (`ScipyModel.fit` and histories of it) in the
variants `asFound` (the code as it is) and `repaired`, `fitWrapper` (`Univariate.fit`), `mfit`
(`GaussianMultivariate.fit`/`VineCopula.fit` behind `check_valid_values`), `query`/`toDict`,
`bivCheckFit`, `construct`/`getInstance` — and about the tables generated from the AST of /repo
(`Gen.Lifecycle.classes`, `Gen.Lifecycle.validationChecks`).  The scipy fitters, the data and the
evaluators are universally quantified parameters.

`refit_pure` is **false of the code as found** (`refit_pure_asFound_counterexample`, and the three
situations one by one); it is proved for all histories of the repaired model, and for the as-found
model on the histories that avoid the three situations (`refit_pure_partial`).
-/
namespace CopVerif.Props.C19
open CopVerif CopVerif.Model.Lifecycle

variable {C V O P D : Type}

/-! ## fresh models -/

/-- Two fresh models of the same class built with the same options and fitted on the same history
of datasets are observably equal — and equal in their hidden option attributes — in both variants,
for every interpretation of the external fitters as functions of (class, options read, data); the
same for the selecting wrapper and for a multivariate model (state and raised exception). -/
theorem fit_pure_fresh (v : Variant) (ops : DataOps D V) (F : Fitters C V O P D)
    (s₁ s₂ : UState C V O P) (c : C) (k : Kind) (o : Opts V O)
    (h₁ : s₁ = UState.fresh c k o) (h₂ : s₂ = UState.fresh c k o) (xs : List D) :
    obs (fitAll v ops F s₁ xs) = obs (fitAll v ops F s₂ xs) ∧
    hidden (fitAll v ops F s₁ xs) = hidden (fitAll v ops F s₂ xs) ∧
    (∀ {W : Type} (sel : W → D → C × Kind × Opts V O) (w₁ w₂ : WState C V O P W) (ctor : W),
      w₁ = WState.fresh ctor → w₂ = WState.fresh ctor →
      obsWrapper (fitAllWrapper v ops F sel w₁ xs) = obsWrapper (fitAllWrapper v ops F sel w₂ xs)) ∧
    (∀ {A M : Type} (checks : List Check) (facts : D → DataFacts) (body : Body C A M D)
      (m₁ m₂ : MState C A M) (a : A), m₁ = MState.fresh c a → m₂ = MState.fresh c a → ∀ x,
      mfit checks facts body m₁ x = mfit checks facts body m₂ x) := by
  subst h₁ h₂
  refine ⟨rfl, rfl, ?_, ?_⟩
  · intro W sel w₁ w₂ ctor e₁ e₂; subst e₁ e₂; rfl
  · intro A M checks facts body m₁ m₂ a e₁ e₂ x; subst e₁ e₂; rfl

/-! ## re-fitting -/

/-- **Repaired model, all histories**: a model that was fitted on any sequence of datasets
(constant or not, any ranges and sizes) and is then fitted on `x` is observably identical to a
fresh model fitted on `x` (induction over the history, via `fitAll_cls`). -/
theorem refit_pure : RefitPure .repaired := by
  intro C V O P D ops F c k o xs x
  rw [fitAll_snoc]
  obtain ⟨a, b, c'⟩ := fitAll_cls .repaired ops F xs (UState.fresh c k o)
  rw [fit_repaired_congr ops F _ (UState.fresh c k o) x a b c']

/-- … even state-identical (hidden option attributes included), from any state of that class and
constructor, reachable or not. -/
theorem refit_pure_state (ops : DataOps D V) (F : Fitters C V O P D) (s : UState C V O P)
    (xs : List D) (x : D) :
    fitAll .repaired ops F s (xs ++ [x]) =
      fit .repaired ops F (UState.fresh s.cls s.kind s.ctor) x := by
  rw [fitAll_snoc]
  obtain ⟨a, b, c⟩ := fitAll_cls .repaired ops F xs s
  exact fit_repaired_congr ops F _ _ x a b c

/-- **The code as found is not re-fit pure** (closed statement; witness: a constant dataset followed
by a non-constant one, any class). -/
theorem refit_pure_asFound_counterexample : ¬ RefitPure .asFound := by
  intro h
  have := h Unit Nat Unit Unit Bool ⟨fun b => if b then some 7 else none, fun _ => 0, fun _ => 0, fun _ => 2⟩
    ⟨fun _ _ _ => (), fun _ _ _ => ()⟩ () .scipy ⟨none, none, none, ()⟩ [true] false
  have := congrArg Obs.override this
  simp [fitAll, fit, obs, UState.fresh] at this

/-- Situation 1 (every `ScipyModel` class): after *constant then non-constant* the instance still
carries the constant methods — `cdf/ppf/pdf/sample` answer with the old constant `cv` — while
`to_dict()` shows exactly the parameters a fresh fit on `x` gives; a fresh model fitted on `x` has
no override, so the two are observably different. -/
theorem refit_pure_constant_then_nonconstant_counterexample (ops : DataOps D V)
    (F : Fitters C V O P D) (c : C) (o : Opts V O) (xc x : D) (cv : V)
    (hc : ops.const? xc = some cv) (hx : ops.const? x = none) :
    let s := fitAll .asFound ops F (UState.fresh c .scipy o) [xc, x]
    let f := fit .asFound ops F (UState.fresh c .scipy o) x
    (obs s).override = some cv ∧ (obs f).override = none ∧ obs s ≠ obs f ∧
    (obs s).toDict = (obs f).toDict ∧
    (∀ {R : Type} (E : Evals C V O P R) (q : Q), q.overridable = true → query E s q = .ok (E.const cv q)) := by
  have e1 : (fitAll .asFound ops F (UState.fresh c .scipy o) [xc, x]).override = some cv := by
    simp [fitAll, fit, hc, hx, UState.fresh]
  have e2 : (fit .asFound ops F (UState.fresh c .scipy o) x).override = none := by
    simp [fit, hx, UState.fresh]
  refine ⟨e1, e2, ?_, ?_, ?_⟩
  · intro h
    have := congrArg Obs.override h
    simp only [obs] at this
    rw [e1, e2] at this
    cases this
  · simp [fitAll, fit, hc, hx, UState.fresh, obs, toDict, checkFit, effOpts, stepBound]
  · intro R E q hq
    unfold query
    rw [e1, hq]

/-- Situation 2 (`TruncatedGaussian` built without bounds): the second fit uses — and the instance
keeps — the **first** dataset's bounds; whenever the external fitter distinguishes the two bound
pairs on `B`, the re-fitted model differs observably from a fresh one. -/
theorem refit_pure_truncated_ranges_counterexample (ops : DataOps D V) (F : Fitters C V O P D)
    (c : C) (o : Opts V O) (A B : D) (hmin : o.min = none) (hmax : o.max = none)
    (hA : ops.const? A = none) (hB : ops.const? B = none) :
    let s := fitAll .asFound ops F (UState.fresh c .truncated o) [A, B]
    let f := fit .asFound ops F (UState.fresh c .truncated o) B
    hidden s = (some (ops.lo A), some (ops.hi A), o.sampleSize) ∧
    s.params = some (F.fitFn c ⟨some (ops.lo A), some (ops.hi A), none, o.other⟩ B) ∧
    f.params = some (F.fitFn c ⟨some (ops.lo B), some (ops.hi B), none, o.other⟩ B) ∧
    (F.fitFn c ⟨some (ops.lo A), some (ops.hi A), none, o.other⟩ B ≠
      F.fitFn c ⟨some (ops.lo B), some (ops.hi B), none, o.other⟩ B → obs s ≠ obs f) := by
  have e1 : (fitAll .asFound ops F (UState.fresh c .truncated o) [A, B]).params =
      some (F.fitFn c ⟨some (ops.lo A), some (ops.hi A), none, o.other⟩ B) := by
    simp [fitAll, fit, hA, hB, UState.fresh, hmin, hmax, stepBound, orElse, effOpts]
  have e2 : (fit .asFound ops F (UState.fresh c .truncated o) B).params =
      some (F.fitFn c ⟨some (ops.lo B), some (ops.hi B), none, o.other⟩ B) := by
    simp [fit, hB, UState.fresh, hmin, hmax, stepBound, orElse, effOpts]
  refine ⟨?_, e1, e2, ?_⟩
  · simp [fitAll, fit, hA, hB, UState.fresh, hmin, hmax, stepBound, orElse, hidden, stepSize]
  · intro hne h
    have := congrArg Obs.params h
    simp only [obs] at this
    rw [e1, e2] at this
    exact hne (Option.some.inj this)

/-- Situation 3 (`GaussianKDE` built without `sample_size`): the first non-constant fit caches
`_sample_size = len(A)`, so the second fit **resamples** `len(A)` points (random, nested dataset)
instead of storing `B`; whenever the external fitter distinguishes "resample n" from "store the
data", the re-fitted model differs observably from a fresh one. -/
theorem refit_pure_kde_sizes_counterexample (ops : DataOps D V) (F : Fitters C V O P D)
    (c : C) (o : Opts V O) (A B : D) (hs : o.sampleSize = none) (hl : ops.len A ≠ 0)
    (hA : ops.const? A = none) (hB : ops.const? B = none) :
    let s := fitAll .asFound ops F (UState.fresh c .kde o) [A, B]
    let f := fit .asFound ops F (UState.fresh c .kde o) B
    s.sampleSize = some (ops.len A) ∧
    s.params = some (F.fitFn c ⟨none, none, some (ops.len A), o.other⟩ B) ∧
    f.params = some (F.fitFn c ⟨none, none, none, o.other⟩ B) ∧
    (F.fitFn c ⟨none, none, some (ops.len A), o.other⟩ B ≠ F.fitFn c ⟨none, none, none, o.other⟩ B →
      obs s ≠ obs f) := by
  obtain ⟨n, hn⟩ : ∃ n, ops.len A = n + 1 := ⟨ops.len A - 1, by omega⟩
  have e0 : (fitAll .asFound ops F (UState.fresh c .kde o) [A, B]).sampleSize = some (ops.len A) := by
    simp [fitAll, fit, hA, hB, UState.fresh, hs, stepSize, orLen, truthy, hn]
  have e1 : (fitAll .asFound ops F (UState.fresh c .kde o) [A, B]).params =
      some (F.fitFn c ⟨none, none, some (ops.len A), o.other⟩ B) := by
    simp [fitAll, fit, hA, hB, UState.fresh, hs, stepSize, stepBound, orLen, truthy, effOpts, hn]
  have e2 : (fit .asFound ops F (UState.fresh c .kde o) B).params =
      some (F.fitFn c ⟨none, none, none, o.other⟩ B) := by
    simp [fit, hB, UState.fresh, hs, stepBound, truthy, effOpts]
  refine ⟨e0, e1, e2, ?_⟩
  intro hne h
  have := congrArg Obs.params h
  simp only [obs] at this
  rw [e1, e2] at this
  exact hne (Option.some.inj this)

/-- non-vacuity of situations 2 and 3 with the free fitters and concrete datasets: the external
calls are different terms. -/
example :
    let A : Dat Nat := ⟨1, none, 0, 10, 50⟩
    let B : Dat Nat := ⟨2, none, 20, 30, 40⟩
    (freeFitters (C := String) (O := Unit)).fitFn "TruncatedGaussian" ⟨some (datOps.lo A), some (datOps.hi A), none, ()⟩ B ≠
      freeFitters.fitFn "TruncatedGaussian" ⟨some (datOps.lo B), some (datOps.hi B), none, ()⟩ B ∧
    (freeFitters (C := String) (V := Nat) (O := Unit)).fitFn "GaussianKDE" ⟨none, none, some (datOps.len A), ()⟩ B ≠
      freeFitters.fitFn "GaussianKDE" ⟨none, none, none, ()⟩ B := by
  decide

/-- **As-found model, partial**: re-fit purity holds on every history that avoids the three
situations (`Safe`): (1) no constant dataset before a non-constant final one; (2) for the
truncated kind, bounds given in the constructor or all earlier non-constant datasets have the final
one's range; (3) for the KDE kind, `sample_size` given in the constructor, or nothing non-constant
seen before, or the final dataset is constant and the earlier non-constant ones have its length.
Missing for the full statement: exactly the histories of the three counter-examples. -/
theorem refit_pure_partial (ops : DataOps D V) (F : Fitters C V O P D) (c : C) (k : Kind)
    (o : Opts V O) (xs : List D) (x : D) (hs : Safe ops k o xs x) :
    obs (fitAll .asFound ops F (UState.fresh c k o) (xs ++ [x])) =
      obs (fit .asFound ops F (UState.fresh c k o) x) := by
  rw [fitAll_snoc]
  have hi := inv_fitAll ops F o xs [] (UState.fresh c k o) (inv_fresh ops c k o)
  obtain ⟨a, b, _⟩ := fitAll_cls .asFound ops F xs (UState.fresh (P := P) c k o)
  exact obs_fit_of_safe ops F c k o xs _ x (by simpa using hi) a b hs

example : Safe (datOps (V := Nat)) .truncated (⟨none, none, none, ()⟩ : Opts Nat Unit)
    [⟨1, none, 0, 10, 50⟩, ⟨2, none, 0, 10, 40⟩] ⟨3, none, 0, 10, 30⟩ := by
  refine ⟨?_, ?_, ?_⟩
  · intro _ y hy; simp at hy; rcases hy with rfl | rfl <;> rfl
  · intro _ _; refine ⟨.inr ?_, .inr ?_⟩ <;> (intro y hy _; simp at hy; rcases hy with rfl | rfl <;> rfl)
  · intro h; cases h

/-- The selecting wrapper `Univariate` is re-fit pure in **both** variants: every `fit` builds a new
inner instance (`get_instance(best_model)`), so nothing of an earlier fit can survive. -/
theorem refit_pure_wrapper {W : Type} (v : Variant) (ops : DataOps D V) (F : Fitters C V O P D)
    (sel : W → D → C × Kind × Opts V O) (w : WState C V O P W) (xs : List D) (x : D) :
    fitAllWrapper v ops F sel w (xs ++ [x]) = fitWrapper v ops F sel (WState.fresh w.ctor) x := by
  have snoc : ∀ (xs : List D) (w : WState C V O P W),
      fitAllWrapper v ops F sel w (xs ++ [x]) = fitWrapper v ops F sel (fitAllWrapper v ops F sel w xs) x ∧
      (fitAllWrapper v ops F sel w xs).ctor = w.ctor := by
    intro xs
    induction xs with
    | nil => intro w; exact ⟨rfl, rfl⟩
    | cons y ys ih => intro w; obtain ⟨a, b⟩ := ih (fitWrapper v ops F sel w y); exact ⟨a, b⟩
  obtain ⟨a, b⟩ := snoc xs w
  rw [a]
  unfold fitWrapper
  rw [b]
  rfl

/-! ## unfitted models -/

/-- Every query, `sample` and `to_dict` of an unfitted univariate model (any class, any options),
of the unfitted selecting wrapper, every query of an unfitted `check_fit`-guarded multivariate
model, and every `check_fit`-guarded bivariate query with `theta = None` — or `theta = 0`, which
`if not self.theta` cannot tell from "unfitted" — is `NotFittedError`. -/
theorem unfitted_raises {R W A M T : Type} (E : Evals C V O P R) (c : C) (k : Kind) (o : Opts V O)
    (q : Q) (w : W) (a : A) (evalM : M → R) (isZero valid : T → Bool) (evalB : T → R) :
    query E (UState.fresh c k o) q = .error .notFitted ∧
    toDict (UState.fresh (P := P) c k o) = .error .notFitted ∧
    queryWrapper E (WState.fresh w) q = .error .notFitted ∧
    toDictWrapper (WState.fresh (C := C) (V := V) (O := O) (P := P) w) = .error .notFitted ∧
    mquery evalM (MState.fresh c a) = .error .notFitted ∧
    bivQuery isZero valid evalB none = .error .notFitted ∧
    (∀ t, isZero t = true → bivQuery isZero valid evalB (some t) = .error .notFitted) := by
  refine ⟨?_, rfl, rfl, rfl, rfl, rfl, ?_⟩
  · cases q <;> rfl
  · intro t ht; simp [bivQuery, bivCheckFit, ht]

/-- … and for the classes of the library (table generated from the AST): in every class of
`copulas.univariate` and in `GaussianMultivariate`, every query / `sample` / `to_dict` method the
class has starts with `self.check_fit()` or delegates to one that does; the same for the
density, distribution, conditional and quantile methods of the three Archimedean families.
Not covered (their first statement is something else; what they raise is established by the tie):
`VineCopula.sample/get_likelihood/to_dict`, `Bivariate.sample/to_dict`, `Frank.generator`,
`Gumbel.generator`, and `Independence` (which has no `theta` at all). -/
theorem unfitted_raises_partial :
    (∀ ci ∈ Gen.Lifecycle.classes,
      (ci.package = "univariate" ∨ ci.name = "GaussianMultivariate") →
      ∀ g ∈ ci.guards, guarded ci g.1 = true) ∧
    (∀ ci ∈ Gen.Lifecycle.classes, ci.name ∈ ["Clayton", "Frank", "Gumbel"] →
      ∀ m ∈ ["probability_density", "log_probability_density", "pdf", "cumulative_distribution", "cdf",
             "percent_point", "ppf", "partial_derivative", "partial_derivative_scalar"],
      guarded ci m = true) := by
  decide

/-! ## invalid training data -/

/-- With the tests the decorator actually contains (generated list), training data that are empty,
non-numeric or contain NaN make a multivariate `fit` raise `ValueError` **before its body runs**:
the state is unchanged — in particular an unfitted model stays unfitted and a fitted one keeps its
previous fit — whatever the body would have done. -/
theorem invalid_training_rejected {A M : Type} (facts : D → DataFacts) (body : Body C A M D)
    (s : MState C A M) (x : D) (hx : (facts x).invalid = true) :
    mfit Gen.Lifecycle.validationChecks facts body s x = (s, some .valueError) ∧
    (∀ c a, (mfit Gen.Lifecycle.validationChecks facts body (MState.fresh c a) x).1.fitted = false) := by
  have key : ∀ s : MState C A M,
      mfit Gen.Lifecycle.validationChecks facts body s x = (s, some .valueError) := by
    intro s
    unfold mfit checkValidValues
    have : (Gen.Lifecycle.validationChecks.any (Check.fires (facts x))) = true := by
      simp only [DataFacts.invalid, Bool.or_eq_true] at hx
      simp only [Gen.Lifecycle.validationChecks, List.any, Check.fires, Bool.or_false, Bool.or_eq_true]
      rcases hx with (h | h) | h
      · exact .inl h
      · exact .inr (.inl h)
      · exact .inr (.inr h)
    rw [this]
    rfl
  exact ⟨key s, fun c a => by rw [key]; rfl⟩

example : (⟨0, true, false⟩ : DataFacts).invalid = true ∧ (⟨5, false, false⟩ : DataFacts).invalid = true ∧
    (⟨5, true, true⟩ : DataFacts).invalid = true ∧ (⟨5, true, false⟩ : DataFacts).invalid = false := by
  decide

/-- A `fit` whose body raises for any other reason leaves `fitted` as it was (`self.fitted = True`
is the last statement), and valid data with a body that completes make the model fitted. -/
theorem failed_fit_stays_unfitted {A M : Type} (checks : List Check) (facts : D → DataFacts)
    (body : Body C A M D) (s : MState C A M) (x : D) :
    (∀ m e, body s.cls s.ctor x = (m, some e) → (mfit checks facts body s x).1.fitted = s.fitted ∧
      (mfit checks facts body s x).2 ≠ none) ∧
    (∀ m, checkValidValues checks (facts x) = .ok () → body s.cls s.ctor x = (m, none) →
      mfit checks facts body s x = (⟨s.cls, s.ctor, true, m⟩, none)) := by
  constructor
  · intro m e hb
    unfold mfit
    cases hv : checkValidValues checks (facts x) with
    | error e' => simp
    | ok u => simp [hb]
  · intro m hv hb
    unfold mfit
    rw [hv]
    simp [hb]

/-- every model `fit` of the library assigns `self.fitted = True` once, as its last statement, and
the two multivariate ones are decorated with `@check_valid_values` (generated table). -/
theorem fit_sets_fitted_last :
    (∀ ci ∈ Gen.Lifecycle.classes,
      ci.name ∈ ["Univariate", "ScipyModel", "GaussianKDE", "TruncatedGaussian", "GaussianMultivariate",
                 "VineCopula"] → ci.fittedLast = true) ∧
    (∀ ci ∈ Gen.Lifecycle.classes, ci.name ∈ ["GaussianMultivariate", "VineCopula"] →
      ci.fitDecorators.contains "check_valid_values" = true) := by
  decide

/-! ## `get_instance` -/

/-- `get_instance` returns a **new unfitted** object of the prototype's class:
* by name or by class: the class constructed with the given keyword options (no fit state);
* from an instance — fitted or not, whatever the fit wrote (`afterFit st`) — of a class whose
  constructor is decorated with `@store_args`: exactly the object the prototype's own constructor
  call `cls(*args, **kwargs)` produced: same class, same recorded arguments, same bound options,
  `fitted = False` and **none** of the prototype's fit state;
* from an instance of a class whose constructor takes no options: likewise. -/
theorem get_instance_fresh {Val St : Type} (table : String → Option ClassInfo) (ci : ClassInfo)
    (ht : table ci.name = some ci) :
    (∀ (kw : List (String × Val)) (o : Obj Val St),
      getInstance table (.cls ci.name) kw = .ok o → o.fitted = false ∧ o.fitState = none ∧ o.cls = ci.name ∧
        getInstance (St := St) table (.cls ci.name) kw = construct ci ⟨[], kw⟩) ∧
    (∀ (fqn : String) (kw : List (String × Val)), table fqn = some ci →
      getInstance (St := St) table (.name fqn) kw = construct ci ⟨[], kw⟩) ∧
    (ci.storeArgs = true → ∀ (a : Args Val) (o : Obj Val St), construct ci a = .ok o →
      getInstance table (.inst o) [] = .ok o ∧ ∀ st, getInstance table (.inst (o.afterFit st)) [] = .ok o) ∧
    (ci.params = [] → ∀ (o : Obj Val St), construct ci Args.none = .ok o →
      ∀ st, getInstance table (.inst (o.afterFit st)) [] = .ok o) := by
  refine ⟨?_, ?_, ?_, ?_⟩
  · intro kw o h
    have h' : construct ci ⟨[], kw⟩ = .ok o := by simpa [getInstance, ht] using h
    obtain ⟨a, _, c, d, _⟩ := construct_ok ci _ o h'
    exact ⟨c, d, a, by simp [getInstance, ht]⟩
  · intro fqn kw hf
    simp [getInstance, hf]
  · intro hs a o hc
    obtain ⟨c1, c2, _, _, _⟩ := construct_ok ci a o hc
    have hst : o.stored = some a := by rw [c2, hs]; rfl
    constructor
    · simp [getInstance, c1, ht, hst, hc]
    · intro st
      simp [getInstance, Obj.afterFit, c1, ht, hst, hc]
  · intro hp o hc st
    obtain ⟨c1, c2, _, _, _⟩ := construct_ok ci Args.none o hc
    have hst : o.stored.getD Args.none = Args.none := by
      rw [c2]; cases ci.storeArgs <;> rfl
    simp [getInstance, Obj.afterFit, c1, ht, hst, hc]

/-- the source of `utils.get_instance` / `utils.store_args` has the shape `getInstance` / `construct`
model (read off the AST): the four constructor calls — by name, by class, instance with kwargs,
instance with the recorded `__args__/__kwargs__` (defaults `()`/`{}`) — and nothing else; and
`store_args` records `deepcopy`s taken before `__init__` runs. -/
theorem get_instance_shape :
    Gen.Lifecycle.getInstanceForms = ["byName", "byClass", "byInstanceKwargs", "byInstanceStored"] ∧
    Gen.Lifecycle.getInstanceReadsStored = true ∧ Gen.Lifecycle.storeArgsDeepCopies = true := by
  decide

/-- instance at the generated table: every class row resolves to itself by its bare name, so
`get_instance_fresh` applies to each class of the library. -/
theorem get_instance_fresh_gen :
    ∀ ci ∈ Gen.Lifecycle.classes, tableOf Gen.Lifecycle.classes ci.name = some ci := by
  decide

/-- A class whose constructor takes options but is **not** decorated with `@store_args`
(`losesOptions`; in the generated table: `ScipyModel` and the six families inheriting its
`__init__(random_state)`, `Multivariate`/`Tree`, `Bivariate` and its families) is cloned from an
instance with the *default* options: whatever the prototype was given is dropped. -/
theorem get_instance_undecorated_counterexample {Val St : Type} (table : String → Option ClassInfo)
    (ci : ClassInfo) (ht : table ci.name = some ci) (hl : ci.storeArgs = false)
    (a : Args Val) (o : Obj Val St) (hc : construct ci a = .ok o) (hb : o.bound ≠ []) :
    ∀ o', getInstance table (.inst o) [] = .ok o' → o'.bound = [] ∧ o'.bound ≠ o.bound := by
  intro o' h
  obtain ⟨c1, c2, _, _, _⟩ := construct_ok ci a o hc
  have hst : o.stored = none := by rw [c2, hl]; rfl
  have h' : construct ci Args.none = .ok o' := by simpa [getInstance, c1, ht, hst] using h
  obtain ⟨_, _, _, _, hb'⟩ := construct_ok ci Args.none o' h'
  have : o'.bound = [] := bindArgs_none_ok _ _ _ hb'
  exact ⟨this, by rw [this]; exact fun e => hb e.symm⟩

/-- non-vacuity on the generated table: `GaussianUnivariate(random_state=3)` is an undecorated
class whose constructor binds an option. -/
example : (tableOf Gen.Lifecycle.classes "GaussianUnivariate").any (fun ci =>
    !ci.storeArgs && (match construct (Val := Nat) (St := Unit) ci ⟨[], [("random_state", 3)]⟩ with
      | .ok o => !o.bound.isEmpty
      | .error _ => false)) = true := by decide

end CopVerif.Props.C19
