import CopVerif.Real.RootFind
/-!
# C18 — Vectorised root finders return a bracketed root for every lane

Property theorems only.  Each is stated about the hand-written executable models
`CopVerif.Model.bisect` / `CopVerif.Model.chandrupatla` / `CopVerif.Model.chandrupatlaScalar`
(the very terms the driver runs at `Float` against `copulas.optimize`), instantiated at ℝ, for ANY
number of lanes and ANY `maxiter`.  The user function is element-wise: `evalLanes fs`, lane `i`
being `fs i`.  "Lane `i`" of a list is read with `l[i]?`.

What is NOT a theorem (see `chandrupatla_converges_partial`): that every lane of `chandrupatla`
is flagged within the iteration cap.  What is FALSE of the code and proved as such
(`chandrupatla_reversed_bracket_counterexample`): that every invalid bracket is rejected.
-/
namespace CopVerif.Props.C18
open CopVerif CopVerif.Model CopVerif.RootFind

/-! ## bisect -/

/-- `bisect_invariant`: after ANY number `k` of loop bodies on a batch, lane `i` still brackets:
`lo₀ ≤ lo ≤ hi ≤ hi₀`, `f lo ≤ 0 ≤ f hi`, and its width is at most `(hi₀ - lo₀)/2^k`. -/
theorem bisect_invariant {fs : ℕ → ℝ → ℝ} {xmin xmax : List ℝ} (hv : ValidBrackets fs xmin xmax)
    (k i : ℕ) {lo hi : ℝ} {p : ℝ × ℝ} (hlo : xmin[i]? = some lo) (hhi : xmax[i]? = some hi)
    (hp : ((bisectStep (evalLanes fs))^[k] (xmin.zip xmax))[i]? = some p) :
    lo ≤ p.1 ∧ p.1 ≤ p.2 ∧ p.2 ≤ hi ∧ fs i p.1 ≤ 0 ∧ 0 ≤ fs i p.2 ∧
      p.2 - p.1 ≤ (hi - lo) / 2 ^ k := by
  rw [iterate_lane_getElem? fs k hlo hhi] at hp
  obtain ⟨hle, hflo, hfhi⟩ := hv.lane i lo hi hlo hhi
  have h := (BisInv.init hle hflo hfhi).iterate (f := fs i) k
  rw [Option.some.inj hp] at h
  exact ⟨h.lo_le, h.le, h.le_hi, h.flo, h.fhi, h.width⟩

/-- `bisect_result`: on valid element-wise brackets (at least one lane) `bisect` succeeds after
some `K ≤ maxiter` bodies; for every lane the returned point is the midpoint of the final
`[xmin', xmax']` (which is what the caller's arrays hold afterwards), lies in the initial bracket,
the final bracket is nested in the initial one and at most `(hi-lo)/2^K` wide, below `tol` whenever
the loop stopped before the cap; and for a lane that is continuous on its bracket there is a root
`r` in the final bracket with `|x - r| ≤ (hi-lo)/2^(K+1)`, and `|x - r| < tol/2` whenever the loop
stopped before the cap (IVT). -/
theorem bisect_result {fs : ℕ → ℝ → ℝ} {xmin xmax : List ℝ} (hv : ValidBrackets fs xmin xmax)
    (hne : xmin ≠ []) (tol : ℝ) (maxiter : ℕ) :
    ∃ out K, bisect (evalLanes fs) xmin xmax tol maxiter = .ok out ∧ K ≤ maxiter ∧ out.iters = K ∧
      ∀ i lo hi, xmin[i]? = some lo → xmax[i]? = some hi →
        ∃ lo' hi' x, out.xmin[i]? = some lo' ∧ out.xmax[i]? = some hi' ∧ out.result[i]? = some x ∧
          x = (lo' + hi') / 2 ∧ lo ≤ x ∧ x ≤ hi ∧
          lo ≤ lo' ∧ lo' ≤ hi' ∧ hi' ≤ hi ∧ fs i lo' ≤ 0 ∧ 0 ≤ fs i hi' ∧
          hi' - lo' ≤ (hi - lo) / 2 ^ K ∧ (K < maxiter → hi' - lo' < tol) ∧
          (ContinuousOn (fs i) (Set.Icc lo hi) →
            ∃ r, lo' ≤ r ∧ r ≤ hi' ∧ fs i r = 0 ∧ |x - r| ≤ (hi - lo) / 2 ^ (K + 1) ∧
              (K < maxiter → |x - r| < tol / 2)) := by
  obtain ⟨out, K, hout, hK, hit, hl⟩ := bisect_lanes_ok hv hne tol maxiter
  refine ⟨out, K, hout, hK, hit, ?_⟩
  intro i lo hi hlo hhi
  obtain ⟨lo', hi', x, h1, h2, h3, hok⟩ := hl i lo hi hlo hhi
  refine ⟨lo', hi', x, h1, h2, h3, hok.mid, hok.inside.1, hok.inside.2, hok.inv.lo_le, hok.inv.le,
    hok.inv.le_hi, hok.inv.flo, hok.inv.fhi, hok.inv.width, hok.exit, ?_⟩
  intro hc
  obtain ⟨r, hr1, hr2, hfr, hd⟩ := hok.inv.root hc
  simp only [mid_real] at hd
  rw [← hok.mid] at hd
  have hw := hok.inv.width
  simp only at hw hr1 hr2
  refine ⟨r, hr1, hr2, hfr, ?_, ?_⟩
  · rw [pow_succ, ← div_div]; linarith
  · intro hlt; have := hok.exit hlt; linarith

/-- `bisect_lanes`: iterate `k` of lane `i` inside a batch equals iterate `k` of lane `i` run as a
one-lane batch — lanes do not interact; only the stopping index `K` of `bisect_result` is shared. -/
theorem bisect_lanes (fs : ℕ → ℝ → ℝ) (k i : ℕ) (s : List (ℝ × ℝ)) :
    ((bisectStep (evalLanes fs))^[k] s)[i]?
      = (s[i]?).bind fun p => ((bisectStep (evalLanes fun _ => fs i))^[k] [p])[0]? := by
  rw [bisectStep_iterate_getElem?]
  cases s[i]? with
  | none => rfl
  | some p => simp [bisectStep_singleton]

/-- `bisect_rejects`: one lane with `f(xmin) > 0` or `f(xmax) < 0` makes the whole call fail with
the assertion error (nothing is returned, nothing has been written). -/
theorem bisect_rejects {fs : ℕ → ℝ → ℝ} {xmin xmax : List ℝ}
    (hbad : (∃ i lo, xmin[i]? = some lo ∧ 0 < fs i lo) ∨ (∃ i hi, xmax[i]? = some hi ∧ fs i hi < 0))
    (tol : ℝ) (maxiter : ℕ) :
    bisect (evalLanes fs) xmin xmax tol maxiter = .error .assertion := by
  rcases hbad with ⟨i, lo, h1, h2⟩ | ⟨i, hi, h1, h2⟩
  · exact bisect_rejects_lo h1 h2 xmax tol maxiter
  · exact bisect_rejects_hi h1 h2 xmin tol maxiter

/-! ## chandrupatla -/

/-- `chandrupatla_bracket`: after ANY number `k` of loop bodies lane `i` keeps the sign bracket
`sign fa · sign fb ≤ 0` with `fa = f a`, `fb = f b`, its points `a, b, c` stay inside
`[xmin, xmax]`, and the next evaluation point (the clipped interpolation) is inside `[xmin, xmax]`. -/
theorem chandrupatla_bracket {fs : ℕ → ℝ → ℝ} {xmin xmax : List ℝ} (hv : ValidBrackets fs xmin xmax)
    {epsM epsA : ℝ} (hM : 0 ≤ epsM) (hA : 0 ≤ epsA) (k i : ℕ) {lo hi : ℝ} {l : ChPre ℝ}
    (hlo : xmin[i]? = some lo) (hhi : xmax[i]? = some hi)
    (hl : ((chStep (evalLanes fs) (fun x => x * x) epsM epsA)^[k] (chInitBatch fs xmin xmax))[i]?
      = some l) :
    signNP l.fa * signNP l.fb ≤ 0 ∧ l.fa = fs i l.a ∧ l.fb = fs i l.b ∧ l.fc = fs i l.c ∧
      (lo ≤ l.a ∧ l.a ≤ hi) ∧ (lo ≤ l.b ∧ l.b ≤ hi) ∧ (lo ≤ l.c ∧ l.c ≤ hi) ∧
      (lo ≤ chXt l ∧ chXt l ≤ hi) := by
  rw [chStep_iterate, List.getElem?_mapIdx, chInitBatch_getElem? fs hlo hhi] at hl
  obtain ⟨hle, hflo, hfhi⟩ := hv.lane i lo hi hlo hhi
  have h := (ChInv.init (f := fs i) hle (sign_of_valid hflo hfhi)).iterate hM hA (fun x => x * x) k
  obtain ⟨e1, e2⟩ := chLaneStep_lo_hi (fs i) (fun x => x * x) epsM epsA k
    (chInit lo hi (fs i hi) (fs i lo))
  simp only [Option.map_some, Option.some.injEq] at hl
  rw [hl] at h e1 e2
  have hx := chXt_mem h.lohi
  have e1' : l.lo = lo := e1
  have e2' : l.hi = hi := e2
  have ha := h.a_mem; have hb := h.b_mem; have hc := h.c_mem
  rw [e1', e2'] at ha hb hc hx
  exact ⟨h.sign, h.hfa, h.hfb, h.hfc, ha, hb, hc, hx⟩

/-- `chandrupatla_converges_partial`: PARTIAL.  On valid element-wise brackets and `maxiter > 0`
the call succeeds after `1 ≤ K ≤ maxiter` bodies and every lane's returned point `x` is inside
its bracket, is the end with the smaller `|f|` of a sign bracket `{a, b} ⊆ [lo, hi]`, is an exact
zero whenever the lane's `fm` is `0`, and (continuous lane) has a root within `|a - b|`.
MISSING: a bound on `|a - b|` at exit.  Termination of every lane within the iteration cap is not a
theorem — the inverse-quadratic step has no proved rate, and the tie/search exhibit inputs
(piecewise-linear `kink` lanes) on which 50 iterations do not reach `1e-9` of the bracket width.
For a lane solved alone the flag is explained by `chandrupatla_single_lane`. -/
theorem chandrupatla_converges_partial {fs : ℕ → ℝ → ℝ} {xmin xmax : List ℝ}
    (hv : ValidBrackets fs xmin xmax) {epsM epsA : ℝ} (hM : 0 ≤ epsM) (hA : 0 ≤ epsA)
    {maxiter : ℕ} (hmax : 0 < maxiter) :
    ∃ K xm, chandrupatla (evalLanes fs) xmin xmax epsM epsA maxiter = .ok (K, xm) ∧
      1 ≤ K ∧ K ≤ maxiter ∧
      ∀ i lo hi, xmin[i]? = some lo → xmax[i]? = some hi →
        ∃ x, xm[i]? = some x ∧ lo ≤ x ∧ x ≤ hi ∧
          ∃ m : ChMid ℝ,
            m = chLaneHalf (fs i) epsM epsA ((chLaneStep (fs i) (fun x => x * x) epsM epsA)^[K - 1]
              (chInit lo hi (fs i hi) (fs i lo))) ∧
            x = m.xm ∧ (x = m.a ∨ x = m.b) ∧
            (lo ≤ m.a ∧ m.a ≤ hi) ∧ (lo ≤ m.b ∧ m.b ≤ hi) ∧
            signNP (fs i m.a) * signNP (fs i m.b) ≤ 0 ∧
            |fs i x| ≤ |fs i m.a| ∧ |fs i x| ≤ |fs i m.b| ∧
            (m.fm = 0 → fs i x = 0) ∧
            (ContinuousOn (fs i) (Set.Icc lo hi) →
              ∃ r, lo ≤ r ∧ r ≤ hi ∧ fs i r = 0 ∧ |x - r| ≤ |m.a - m.b|) := by
  obtain ⟨K, xm, heq, h1, h2, hl⟩ := chandrupatla_lanes_ok hv hM hA hmax
  refine ⟨K, xm, heq, h1, h2, ?_⟩
  intro i lo hi hlo hhi
  obtain ⟨x, hx, ⟨m, hm, hxm, hinv, elo, ehi⟩, hin⟩ := hl i lo hi hlo hhi
  refine ⟨x, hx, hin.1, hin.2, m, hm, hxm, ?_, ?_, ?_, ?_, ?_, ?_, ?_, ?_⟩
  · rcases hinv.xm_end with ⟨e, _⟩ | ⟨e, _⟩
    · left; rw [hxm, e]
    · right; rw [hxm, e]
  · have := hinv.a_mem; rwa [elo, ehi] at this
  · have := hinv.b_mem; rwa [elo, ehi] at this
  · have := hinv.sign; rwa [hinv.hfa, hinv.hfb] at this
  · have := hinv.fm_min.1; rwa [hinv.hfm, hinv.hfa, ← hxm] at this
  · have := hinv.fm_min.2; rwa [hinv.hfm, hinv.hfb, ← hxm] at this
  · intro h0; rw [hxm, ← hinv.hfm]; exact h0
  · intro hc
    have hc' : ContinuousOn (fs i) (Set.Icc m.lo m.hi) := by rw [elo, ehi]; exact hc
    obtain ⟨r, hr1, hr2, hfr, hd⟩ := hinv.root hc'
    rw [elo] at hr1; rw [ehi] at hr2
    exact ⟨r, hr1, hr2, hfr, by rw [hxm]; exact hd⟩

/-- `chandrupatla_single_lane`: a lane solved alone (one-element vector; by
`chandrupatla_scalar` equally a scalar input) on a valid bracket of a continuous function returns,
after `1 ≤ K ≤ maxiter` bodies, a point of the bracket such that the cap was reached, or `f(x) = 0`
exactly (the `fm == 0` flag), or a root lies within `2·tol`, `tol = 2·eps_m·|x| + eps_a` (the
`tlim > 0.5` flag). -/
theorem chandrupatla_single_lane {f : ℝ → ℝ} {lo hi : ℝ} (hle : lo ≤ hi) (hflo : f lo ≤ 0)
    (hfhi : 0 ≤ f hi) (hc : ContinuousOn f (Set.Icc lo hi)) {epsM epsA : ℝ} (hM : 0 ≤ epsM)
    (hA : 0 ≤ epsA) {maxiter : ℕ} (hmax : 0 < maxiter) :
    ∃ K x, chandrupatla (evalLanes fun _ => f) [lo] [hi] epsM epsA maxiter = .ok (K, [x]) ∧
      1 ≤ K ∧ K ≤ maxiter ∧ lo ≤ x ∧ x ≤ hi ∧
      (K = maxiter ∨ f x = 0 ∨
        ∃ r, lo ≤ r ∧ r ≤ hi ∧ f r = 0 ∧ |x - r| < 2 * (2 * epsM * |x| + epsA)) :=
  chandrupatla_single hle hflo hfhi hc hM hA hmax

/-- `chandrupatla_tlim_partial`: PARTIAL.  In a batch, a lane that is flagged by `tlim > 0.5` at
the body under consideration and was NOT flagged before has a root within `2·tol` of its `xm`.
MISSING: the same bound for the `xm` that is finally returned when the lane was flagged at an
earlier body — the code keeps iterating flagged lanes while other lanes are unfinished, with `t`
no longer confined to `[0, 1]`; only `chandrupatla_converges_partial` is proved for those. -/
theorem chandrupatla_tlim_partial {fs : ℕ → ℝ → ℝ} {xmin xmax : List ℝ}
    (hv : ValidBrackets fs xmin xmax) {epsM epsA : ℝ} (hM : 0 ≤ epsM) (hA : 0 ≤ epsA) (k i : ℕ)
    {lo hi : ℝ} {l : ChPre ℝ} (hlo : xmin[i]? = some lo) (hhi : xmax[i]? = some hi)
    (hl : ((chStep (evalLanes fs) (fun x => x * x) epsM epsA)^[k] (chInitBatch fs xmin xmax))[i]?
      = some l)
    (hc : ContinuousOn (fs i) (Set.Icc lo hi)) (hterm : l.term = false)
    (hflag : 1 / 2 < (chLaneHalf (fs i) epsM epsA l).tlim) :
    ∃ r, lo ≤ r ∧ r ≤ hi ∧ fs i r = 0 ∧
      |(chLaneHalf (fs i) epsM epsA l).xm - r|
        < 2 * (2 * epsM * |(chLaneHalf (fs i) epsM epsA l).xm| + epsA) := by
  rw [chStep_iterate, List.getElem?_mapIdx, chInitBatch_getElem? fs hlo hhi] at hl
  obtain ⟨hle, hflo, hfhi⟩ := hv.lane i lo hi hlo hhi
  have h := (ChInv.init (f := fs i) hle (sign_of_valid hflo hfhi)).iterate hM hA (fun x => x * x) k
  obtain ⟨e1, e2⟩ := chLaneStep_lo_hi (fs i) (fun x => x * x) epsM epsA k
    (chInit lo hi (fs i hi) (fs i lo))
  simp only [Option.map_some, Option.some.injEq] at hl
  rw [hl] at h e1 e2
  have e1' : l.lo = lo := e1
  have e2' : l.hi = hi := e2
  have hc' : ContinuousOn (fs i) (Set.Icc l.lo l.hi) := by rw [e1', e2']; exact hc
  obtain ⟨r, hr1, hr2, hfr, hd⟩ := chLaneHalf_tlim_root h hterm hc' epsM epsA hflag
  rw [e1'] at hr1; rw [e2'] at hr2
  exact ⟨r, hr1, hr2, hfr, hd⟩

/-- `chandrupatla_lanes`: iterate `k` of lane `i` inside a batch equals iterate `k` of lane `i`
run as a one-lane batch; only the stopping index is shared (`np.all(terminate)`). -/
theorem chandrupatla_lanes (fs : ℕ → ℝ → ℝ) (sq : ℝ → ℝ) (epsM epsA : ℝ) (k i : ℕ)
    (s : List (ChPre ℝ)) :
    ((chStep (evalLanes fs) sq epsM epsA)^[k] s)[i]?
      = (s[i]?).bind fun l => ((chStep (evalLanes fun _ => fs i) sq epsM epsA)^[k] [l])[0]? := by
  rw [chStep_iterate, List.getElem?_mapIdx]
  cases s[i]? with
  | none => rfl
  | some l => simp [chStep_iterate]

/-- `chandrupatla_scalar`: scalar input (the `if not shape:` branch, `phi**2` through `pow`)
returns exactly what a one-element vector returns. -/
theorem chandrupatla_scalar (f : ℝ → ℝ) (lo hi epsM epsA : ℝ) (maxiter : ℕ) :
    chandrupatla (evalLanes fun _ => f) [lo] [hi] epsM epsA maxiter
      = (chandrupatlaScalar f lo hi epsM epsA maxiter).map (fun r => (r.1, [r.2])) :=
  chandrupatla_scalar_eq f lo hi epsM epsA maxiter

/-- `chandrupatla_rejects`: a lane whose end values have the same strict sign makes the whole call
fail with the assertion error.  (For a non-decreasing `f` and `xmin ≤ xmax` this is every invalid
bracket; see the counterexample below for `xmin > xmax`.) -/
theorem chandrupatla_rejects {fs : ℕ → ℝ → ℝ} {xmin xmax : List ℝ} {i : ℕ} {lo hi : ℝ}
    (hlo : xmin[i]? = some lo) (hhi : xmax[i]? = some hi)
    (hbad : (0 < fs i hi ∧ 0 < fs i lo) ∨ (fs i hi < 0 ∧ fs i lo < 0))
    (epsM epsA : ℝ) (maxiter : ℕ) :
    chandrupatla (evalLanes fs) xmin xmax epsM epsA maxiter = .error .assertion :=
  chandrupatla_rejects_lane hlo hhi hbad epsM epsA maxiter

/-- `chandrupatla_reversed_bracket_counterexample`: "an invalid bracket is rejected" is FALSE of
`chandrupatla`.  For the increasing `f(x) = x - 3/10` and the reversed bracket `xmin = 1`,
`xmax = 0` (so `f(xmin) > 0 > f(xmax)`: invalid, and `bisect` rejects it) the call succeeds for
every `maxiter > 0` and returns `0`, which is not a root and is `3/10` away from the only root. -/
theorem chandrupatla_reversed_bracket_counterexample (epsM : ℝ) {epsA : ℝ} (hA : epsA ≤ 1 / 2)
    {maxiter : ℕ} (hmax : 0 < maxiter) :
    (0 < revF 1 ∧ revF 0 < 0) ∧
    bisect (evalLanes fun _ => revF) [1] [0] (1 / 10 ^ 8) maxiter = .error .assertion ∧
    chandrupatla (evalLanes fun _ => revF) [1] [0] epsM epsA maxiter = .ok (maxiter, [0]) ∧
    revF 0 ≠ 0 ∧ (∀ r, revF r = 0 → |0 - r| = 3 / 10) := by
  have h1 : (0:ℝ) < revF 1 := by simp only [revF]; norm_num
  have h0 : revF 0 < 0 := by simp only [revF]; norm_num
  refine ⟨⟨h1, h0⟩, ?_, rev_chandrupatla epsM hA hmax, ne_of_lt h0, ?_⟩
  · exact bisect_rejects_lo (fs := fun _ => revF) (i := 0) (lo := 1) rfl h1 [0] _ maxiter
  · intro r hr
    have : r = 3 / 10 := by simp only [revF] at hr; linarith
    rw [this]; norm_num

/-! ## non-vacuity of the hypothesis bundles -/

/-- `ValidBrackets` is inhabited by a two-lane batch with different slopes, one root strictly
inside and one at the lower end of its bracket. -/
example : ValidBrackets (fun i x => if i = 0 then x else 1000 * (x - 2)) [-1, 2] [1, 5] := by
  refine ⟨rfl, ?_⟩
  intro i lo hi h1 h2
  match i with
  | 0 => simp at h1 h2; subst h1; subst h2; norm_num
  | 1 => simp at h1 h2; subst h1; subst h2; norm_num
  | (n + 2) => simp at h1

/-- the hypotheses of `chandrupatla_single_lane` hold for `f(x) = x - 3/10` on `[0, 1]` with the
default `eps_m = 2⁻⁵²`, `eps_a = 2⁻⁵¹`. -/
example : (0:ℝ) ≤ 1 ∧ revF 0 ≤ 0 ∧ 0 ≤ revF 1 ∧ ContinuousOn revF (Set.Icc 0 1) ∧
    (0:ℝ) ≤ 1 / 2 ^ 52 ∧ (0:ℝ) ≤ 1 / 2 ^ 51 := by
  refine ⟨by norm_num, by simp only [revF]; norm_num, by simp only [revF]; norm_num, ?_,
    by positivity, by positivity⟩
  exact (continuous_id.sub continuous_const).continuousOn

end CopVerif.Props.C18
