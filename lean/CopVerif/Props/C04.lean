import CopVerif.Real.Estimators
/-!
# C04 — Marginal fitting recovers the generating law; KDE is the kernel estimate

Property theorems only.  Every statement is about the definitions GENERATED from the Python source
(`CopVerif.Gen.Estimators`, instantiated at ℝ): the estimator terms of `GaussianUnivariate`,
`UniformUnivariate`, the init values / tuple→dict maps of the scipy-MLE families, the
`TruncatedGaussian` truncation arithmetic and the `GaussianKDE` forwarding.  A change of an estimator in
/repo changes the subject of the statement and the proof must still go through.

Not a theorem (listed in `PARTIAL` of tools/props/c04.py as `consistency_partial`): the
Dvoretzky–Kiefer–Wolfowitz closeness of the fitted CDF to the generating CDF.  It is a statistical
statement about scipy's optimiser / the sample, checked by the `search` experiment only.
-/
namespace CopVerif.Props.C04
open CopVerif CopVerif.Gen.Estimators CopVerif.Estimators CopVerif.Model

/-! ## Gaussian: sample mean and POPULATION standard deviation -/

/-- `GaussianUnivariate._fit` on any non-empty sample: `loc` is the sample mean, `scale` is the
non-negative number whose square is the population variance `Σ (x − loc)² / n` (divisor `n`, not
`n − 1`), and it is positive iff the sample is not constant. -/
theorem gaussian_fit_exact {xs : List ℝ} (h : xs ≠ []) :
    (gaussianFit xs).loc = xs.sum / xs.length ∧
    (gaussianFit xs).scale ^ 2 = (xs.map fun x => (x - (gaussianFit xs).loc) ^ 2).sum / xs.length ∧
    0 ≤ (gaussianFit xs).scale ∧
    (0 < (gaussianFit xs).scale ↔ ∃ x ∈ xs, ∃ y ∈ xs, x ≠ y) := by
  rw [bridge_gaussianFit]
  refine ⟨rfl, ?_, Real.sqrt_nonneg _, sqrt_popVar_pos_iff h⟩
  simp only
  rw [Real.sq_sqrt (popVar_nonneg xs)]
  rfl

/-- On a constant sample the constant branch stores what `_fit` would have stored:
`loc` = the constant, `scale = 0`. -/
theorem gaussian_fit_constant {xs : List ℝ} {c : ℝ} (h : xs ≠ []) (hc : ∀ x ∈ xs, x = c) :
    gaussianFitConstant xs = { loc := c, scale := 0 } ∧ gaussianFit xs = gaussianFitConstant xs := by
  have hmin : npMin xs = c := hc _ (npMin_mem h)
  have hall : ∀ x ∈ xs, ∀ y ∈ xs, x = y := fun x hx y hy => by rw [hc x hx, hc y hy]
  have hmean : mean xs = c := by
    have := (all_eq_mean_iff h).2 hall _ (npMin_mem h)
    rw [← this, hmin]
  have hvar : popVar xs = 0 := (popVar_eq_zero_iff h).2 ((all_eq_mean_iff h).2 hall)
  have h1 : gaussianFitConstant xs = { loc := c, scale := 0 } := by
    simp [gaussianFitConstant, hmin]
  refine ⟨h1, ?_⟩
  rw [h1, bridge_gaussianFit, hmean, hvar]; simp

/-! ## Uniform: minimum and range -/

/-- `UniformUnivariate._fit`: `loc` is the sample minimum and `loc + scale` the sample maximum
(both attained). -/
theorem uniform_fit_exact {xs : List ℝ} (h : xs ≠ []) :
    IsListMin xs (uniformFit xs).loc ∧ IsListMax xs ((uniformFit xs).loc + (uniformFit xs).scale) ∧
    uniformFitConstant xs = uniformFit xs := by
  rw [bridge_uniformFit]
  refine ⟨isListMin_npMin h, ?_, ?_⟩
  · have : npMin xs + (npMax xs - npMin xs) = npMax xs := by ring
    simp only [this]; exact isListMax_npMax h
  · simp [uniformFitConstant]

/-- every training point lies in the fitted support `[loc, loc + scale]`, and `scale ≥ 0`. -/
theorem uniform_support {xs : List ℝ} (h : xs ≠ []) :
    (∀ x ∈ xs, (uniformFit xs).loc ≤ x ∧ x ≤ (uniformFit xs).loc + (uniformFit xs).scale) ∧
    0 ≤ (uniformFit xs).scale := by
  rw [bridge_uniformFit]
  refine ⟨fun x hx => ⟨npMin_le hx, ?_⟩, ?_⟩
  · have : npMin xs + (npMax xs - npMin xs) = npMax xs := by ring
    simp only [this]; exact le_npMax hx
  · have := npMin_le (npMax_mem h); simp only; linarith

/-- Beta's starting point for scipy's MLE is exactly the Uniform fit (minimum and range). -/
theorem beta_init_is_uniform_fit (xs : List ℝ) :
    betaFitInit xs = { loc := some (uniformFit xs).loc, scale := some (uniformFit xs).scale } := by
  rw [bridge_betaFitInit, bridge_uniformFit]

/-- Gamma, StudentT and LogLaplace call `fit(X)` with scipy's own starting point. -/
theorem mle_default_init (xs : List ℝ) :
    gammaFitInit xs = { loc := none, scale := none } ∧ studentTFitInit xs = { loc := none, scale := none } ∧
    logLaplaceFitInit xs = { loc := none, scale := none } := ⟨rfl, rfl, rfl⟩

/-! ## scipy-MLE families: the stored dict is scipy's tuple under the right names -/

/-- the key stored for each position `0 … arity-1` of the tuple returned by `fit`. -/
def namesByPosition (m : List (String × Nat)) (arity : Nat) : List (Option String) :=
  (List.range arity).map fun i => (m.find? fun p => p.2 == i).map (·.1)

/-- `scipy.stats.<dist>.fit` returns `(shape parameters in the order of <dist>.shapes…, loc, scale)`;
the shape names are those of scipy (validated at run time by the harness: `beta.shapes == 'a, b'` …).
For every family: each position of the returned tuple is stored under scipy's own name for it, no
position is dropped or stored twice, and `fit` is called on the distribution the model evaluates
(`MODEL_CLASS`). -/
theorem mle_param_map :
    (namesByPosition betaParamMap betaTupleArity = [some "a", some "b", some "loc", some "scale"]
      ∧ betaParamMap.length = betaTupleArity ∧ betaFitDist = "beta" ∧ betaModelClass = betaFitDist) ∧
    (namesByPosition gammaParamMap gammaTupleArity = [some "a", some "loc", some "scale"]
      ∧ gammaParamMap.length = gammaTupleArity ∧ gammaFitDist = "gamma" ∧ gammaModelClass = gammaFitDist) ∧
    (namesByPosition studentTParamMap studentTTupleArity = [some "df", some "loc", some "scale"]
      ∧ studentTParamMap.length = studentTTupleArity ∧ studentTFitDist = "t"
      ∧ studentTModelClass = studentTFitDist) ∧
    (namesByPosition logLaplaceParamMap logLaplaceTupleArity = [some "c", some "loc", some "scale"]
      ∧ logLaplaceParamMap.length = logLaplaceTupleArity ∧ logLaplaceFitDist = "loglaplace"
      ∧ logLaplaceModelClass = logLaplaceFitDist) := by
  decide

/-- the constant branches of the scipy-MLE families: `loc` = the constant, `scale = 0`
(StudentT: `_fit` - which supplies `df` - followed by `loc :=` the data's unique value, `scale := 0`). -/
theorem mle_fit_constant {xs : List ℝ} {c : ℝ} (h : xs ≠ []) (hc : ∀ x ∈ xs, x = c) :
    betaFitConstant xs = [("a", 1), ("b", 1), ("loc", c), ("scale", 0)] ∧
    gammaFitConstant xs = [("a", 0), ("loc", c), ("scale", 0)] ∧
    logLaplaceFitConstant xs = [("c", 2), ("loc", c), ("scale", 0)] ∧
    (studentTFitConstantCallsFit = true ∧ studentTFitConstantOverrides xs = [("loc", c), ("scale", 0)]) := by
  have hmin : npMin xs = c := hc _ (npMin_mem h)
  simp [betaFitConstant, gammaFitConstant, logLaplaceFitConstant, studentTFitConstantCallsFit,
    studentTFitConstantOverrides, hmin]

/-! ## TruncatedGaussian: the fitted support is exactly the user's (or the default) bounds -/

/-- Whatever `(loc, scale)` the optimiser returns (`scale ≠ 0`), the stored truncation points
`a`, `b` put the support of `truncnorm(a, b, loc, scale)`, i.e. `[loc + a·scale, loc + b·scale]`,
exactly at `[self.min, self.max]`; `loc` and `scale` are stored unchanged. -/
theorem truncated_support {mn mx loc scale : ℝ} (hs : scale ≠ 0) :
    let p := truncParams mn mx (loc, scale)
    p.loc + p.a * p.scale = mn ∧ p.loc + p.b * p.scale = mx ∧ p.loc = loc ∧ p.scale = scale := by
  rw [bridge_truncParams]
  refine ⟨?_, ?_, rfl, rfl⟩ <;> simp only <;> field_simp <;> ring

/-- On a first fit user-supplied bounds are taken as they are (never overwritten by data); a missing
bound defaults to `min xs − ε` / `max xs + ε` with `ε = 2⁻²³ > 0`, so every training point lies
strictly inside the default support. -/
theorem truncated_bounds {xs : List ℝ} (h : xs ≠ []) (m M : ℝ) :
    truncMin (some m) xs = m ∧ truncMax (some M) xs = M ∧
    truncMin none xs = npMin xs - 1 / 8388608 ∧ truncMax none xs = npMax xs + 1 / 8388608 ∧
    IsListMin xs (npMin xs) ∧ IsListMax xs (npMax xs) ∧
    ∀ x ∈ xs, truncMin none xs < x ∧ x < truncMax none xs := by
  refine ⟨bridge_truncMin_some m xs, bridge_truncMax_some M xs, ?_, ?_, isListMin_npMin h,
    isListMax_npMax h, fun x hx => ?_⟩
  · rw [bridge_truncMin_none, epsilon_eq]
  · rw [bridge_truncMax_none, epsilon_eq]
  · rw [bridge_truncMin_none, bridge_truncMax_none]
    have := npMin_le hx; have := le_npMax hx; have := epsilon_pos
    constructor <;> linarith

/-- the likelihood that is maximised uses the same truncation as the stored parameters. -/
theorem truncated_objective_consistent (mn mx : ℝ) (p : ℝ × ℝ) :
    truncObjectiveArgs mn mx p = truncParams mn mx p := by
  obtain ⟨loc, scale⟩ := p
  rw [bridge_truncObjectiveArgs, bridge_truncParams]

/-- the SLSQP set-up: `loc ∈ [min, max]`, `scale ∈ [0, (max − min)²]`, start at (sample mean,
population standard deviation). -/
theorem truncated_slsqp_setup (mn mx : ℝ) (xs : List ℝ) :
    truncBounds mn mx = [(mn, mx), (0, (mx - mn) ^ 2)] ∧
    truncInitialParams xs = ((gaussianFit xs).loc, (gaussianFit xs).scale) := by
  rw [bridge_truncBounds, bridge_truncInitialParams, bridge_gaussianFit]
  exact ⟨rfl, rfl⟩

/-- The feasible set SLSQP searches (the generated `bounds=`): `loc ∈ [min, max]` and
`scale ∈ [0, (max − min)²]` - the scale is capped by the SQUARED width of the support. -/
theorem truncated_scale_cap (mn mx loc scale : ℝ) :
    InBox (truncBounds mn mx) [loc, scale]
      ↔ (mn ≤ loc ∧ loc ≤ mx) ∧ (0 ≤ scale ∧ scale ≤ (mx - mn) ^ 2) :=
  inBox_truncBounds mn mx loc scale

/-- RECORDED DEFECT (class `TruncatedGaussian.fit:dkw:scale-at-squared-range-cap`): the cap excludes members
of the family.  The generating law truncnorm(a = −1, b = 1, loc = 5, scale = 0.05) has support
`[4.95, 5.05]`; with exactly these bounds its own parameters `(5, 0.05)` are infeasible for the
optimiser because `0.05 > (5.05 − 4.95)² = 0.01`: the fit cannot recover the generating law. -/
theorem truncated_scale_cap_counterexample :
    ¬ InBox (truncBounds (4.95 : ℝ) 5.05) [5, 0.05] ∧
    (truncParams (4.95 : ℝ) 5.05 (5, 0.05)).a = -1 ∧ (truncParams (4.95 : ℝ) 5.05 (5, 0.05)).b = 1 := by
  refine ⟨?_, ?_, ?_⟩
  · rw [inBox_truncBounds]; norm_num
  · rw [bridge_truncParams]; norm_num
  · rw [bridge_truncParams]; norm_num

/-- What does hold: when the support is at least one unit wide, every `(loc, σ)` with `loc` in the
support and `0 ≤ σ ≤ max − min` is feasible.  Missing for the full clause: supports narrower than 1
(see `truncated_scale_cap_counterexample`) and `σ > max − min`.
Settled in `CopVerif.Props.C04b`: `truncated_generating_law_feasible` / `truncated_feasible_iff` give the
exact (iff) feasibility criterion for every member and every support, `truncated_partial_hypothesis_sharp`
shows the width hypothesis here is necessary, and `truncated_every_support_excludes_members_counterexample`
that the unrestricted clause is false for every support. -/
theorem truncated_generating_law_feasible_partial {mn mx loc σ : ℝ} (hw : 1 ≤ mx - mn)
    (hl : mn ≤ loc) (hu : loc ≤ mx) (h0 : 0 ≤ σ) (hσ : σ ≤ mx - mn) :
    InBox (truncBounds mn mx) [loc, σ] := by
  rw [inBox_truncBounds]
  refine ⟨⟨hl, hu⟩, h0, ?_⟩
  nlinarith

/-- constant branch: a point mass (`a = b = loc`, `scale = 0`). -/
theorem truncated_fit_constant {xs : List ℝ} {c : ℝ} (h : xs ≠ []) (hc : ∀ x ∈ xs, x = c) :
    truncFitConstant xs = { a := c, b := c, loc := c, scale := 0 } := by
  have hmin : npMin xs = c := hc _ (npMin_mem h)
  simp [truncFitConstant, hmin]

/-! ## GaussianKDE: the density object is `gaussian_kde(stored dataset, bw_method, weights)` -/

section kde
variable {D B W K : Type}

/-- For arbitrary meanings of the external symbols `gaussian_kde` and `resample`:
the model built by `_fit` is `gaussian_kde` of the *stored* dataset with the instance's own
`bw_method` and `weights`; the stored dataset is the training data when `sample_size` is unset
(`None` or `0`), and otherwise a resample of exactly the requested size drawn from the kernel estimate
of the training data (same `bw_method`, `weights`). `_get_model` (also used by `_set_params`) forwards
all three arguments. -/
theorem kde_is_kernel_estimate (gaussianKde : D → Option B → Option W → K) (resample : K → Nat → D)
    (sampleSize : Option Nat) (bw : Option B) (w : Option W) (X : D) :
    (kdeFit gaussianKde resample sampleSize bw w X).2
        = gaussianKde (kdeFit gaussianKde resample sampleSize bw w X).1 bw w ∧
    (∀ d, kdeGetModel gaussianKde d bw w = gaussianKde d bw w) ∧
    ((sampleSize = none ∨ sampleSize = some 0) →
        (kdeFit gaussianKde resample sampleSize bw w X).1 = X) ∧
    (∀ n, 0 < n → sampleSize = some n →
        (kdeFit gaussianKde resample sampleSize bw w X).1 = resample (gaussianKde X bw w) n) := by
  refine ⟨rfl, fun _ => rfl, ?_, ?_⟩
  · rintro (rfl | rfl) <;> rfl
  · intro n hn hs
    subst hs
    obtain ⟨k, rfl⟩ := Nat.exists_eq_succ_of_ne_zero hn.ne'
    rfl

end kde

/-- With the hand-written kernel estimate `Model.gaussianKde` as the meaning of `gaussian_kde`, the
density of the fitted model at `x` is the weighted Gaussian kernel sum over the stored dataset,
`Σ wᵢ φ((x − xᵢ)/h)/h`, with normalised weights, `h = sqrt(weighted sample variance) · factor` and the
factor given by the requested rule: Scott `n_eff^(-1/5)` (also for `None`), Silverman
`(n_eff·3/4)^(-1/5)`, or the scalar itself; `n_eff = 1/Σ wᵢ²`. -/
theorem kde_density_formula (xs : List ℝ) (bw : Option (BwMethod ℝ)) (w : Option (List ℝ)) (x : ℝ) :
    let ws := normWeights xs.length w
    let k := kdeGetModel Model.gaussianKde xs bw w
    k.dataset = xs ∧ k.weights = ws ∧ k.neff = 1 / (ws.map fun a => a * a).sum ∧
    k.h = Real.sqrt (weightedVar xs ws) * k.factor ∧ k.covariance = weightedVar xs ws * (k.factor * k.factor) ∧
    k.pdf x = kdePdf xs ws k.h x ∧
    (bw = none ∨ bw = some .scott → k.factor = k.neff ^ (-(1 : ℝ) / 5)) ∧
    (bw = some .silverman → k.factor = (k.neff * 3 / 4) ^ (-(1 : ℝ) / 5)) ∧
    (∀ c, bw = some (.scalar c) → k.factor = c) := by
  refine ⟨rfl, rfl, ?_, rfl, rfl, rfl, ?_, ?_, ?_⟩
  · simp [kdeGetModel, Model.gaussianKde, nEff, sumSq, sumList_eq_sum]
  · rintro (rfl | rfl) <;> simp [kdeGetModel, Model.gaussianKde, bwFactor, scottFactor]
  · rintro rfl; simp [kdeGetModel, Model.gaussianKde, bwFactor, silvermanFactor]
  · rintro c rfl; simp [kdeGetModel, Model.gaussianKde, bwFactor]

/-- Without weights (`weights=None`) this is the classical estimate: every point has weight `1/n`,
`n_eff = n`, and the kernel width is `factor ·` the usual sample standard deviation (divisor `n − 1`). -/
theorem kde_unweighted_is_classical {xs : List ℝ} (h2 : 2 ≤ xs.length) (bw : Option (BwMethod ℝ)) :
    let k := kdeGetModel Model.gaussianKde xs bw none
    k.weights = List.replicate xs.length (1 / (xs.length : ℝ)) ∧ k.neff = xs.length ∧
    k.h = Real.sqrt ((xs.map fun x => (x - mean xs) ^ 2).sum / ((xs.length : ℝ) - 1)) * k.factor := by
  have hpos : 0 < xs.length := by omega
  refine ⟨by simp [kdeGetModel, Model.gaussianKde, normWeights], ?_, ?_⟩
  · simpa [kdeGetModel, Model.gaussianKde] using nEff_unweighted (n := xs.length) hpos
  · simp only [kdeGetModel, Model.gaussianKde, sqrt_real]
    rw [weightedVar_unweighted h2]

/-- the kernel estimate is non-negative (non-negative weights, positive bandwidth). -/
theorem kde_pdf_nonneg {h : ℝ} (hh : 0 < h) (xs ws : List ℝ) (hw : ∀ w ∈ ws, 0 ≤ w) (x : ℝ) :
    0 ≤ kdePdf xs ws h x :=
  kdePdfWith_nonneg invSqrt2Pi_pos.le hh xs ws hw x

/-- The kernel estimate of the fitted model is a probability density: with the exact normalising
constant `1/√(2π)` it integrates to one (weights of the right length with non-zero sum, positive
kernel width).  The executable `kdePdf` uses the 20-digit decimal `invSqrt2Pi` for that constant. -/
theorem kde_pdf_integrates {xs : List ℝ} (hx : xs ≠ []) (bw : Option (BwMethod ℝ)) (w : Option (List ℝ))
    (hw : ∀ ws, w = some ws → ws.length = xs.length ∧ ws.sum ≠ 0)
    (hh : 0 < (kdeGetModel Model.gaussianKde xs bw w).h) :
    let k := kdeGetModel Model.gaussianKde xs bw w
    ∫ x, kdePdfWith (1 / Real.sqrt (2 * Real.pi)) k.dataset k.weights k.h x = 1 := by
  intro k
  have hlen : k.dataset.length = k.weights.length :=
    (normWeights_length xs.length w fun ws h => (hw ws h).1).symm
  rw [kdePdf_integrates hh k.dataset k.weights hlen]
  exact normWeights_sum (List.length_pos_iff.2 hx) w fun ws h => (hw ws h).2

/-- `_fit_constant`: `sample_size` copies (or as many as training rows) of the constant. -/
theorem kde_fit_constant {xs : List ℝ} {c : ℝ} (h : xs ≠ []) (hc : ∀ x ∈ xs, x = c) (n : Nat) :
    kdeFitConstant none xs = List.replicate xs.length c ∧
    kdeFitConstant (some (n + 1)) xs = List.replicate (n + 1) c := by
  have hmin : npMin xs = c := hc _ (npMin_mem h)
  simp [kdeFitConstant, pyOr, hmin]

/-! ## non-vacuity -/

example : ([1, 3] : List ℝ) ≠ [] ∧ (∃ x ∈ ([1, 3] : List ℝ), ∃ y ∈ ([1, 3] : List ℝ), x ≠ y) :=
  ⟨by simp, 1, by simp, 3, by simp, by norm_num⟩
example : ([2, 2] : List ℝ) ≠ [] ∧ ∀ x ∈ ([2, 2] : List ℝ), x = 2 := by simp
example : (1 : ℝ) ≤ 3 - 1 ∧ (1 : ℝ) ≤ 2 ∧ (2 : ℝ) ≤ 3 ∧ (0 : ℝ) ≤ 3 / 2 ∧ (3 / 2 : ℝ) ≤ 3 - 1 := by norm_num
example : 2 ≤ ([1, 3] : List ℝ).length := by simp
example : (3 : ℝ) ≠ 0 ∧ (0 : ℝ) < 1 / 2 ∧ ∀ w ∈ ([1 / 2, 1 / 2] : List ℝ), (0 : ℝ) ≤ w := by
  refine ⟨by norm_num, by norm_num, ?_⟩
  intro w hw; simp at hw; rw [hw]; norm_num

/-- the hypotheses of `kde_pdf_integrates` / `kde_pdf_nonneg` are satisfiable: positive kernel width. -/
example : 0 < (kdeGetModel Model.gaussianKde ([0, 2] : List ℝ) (some (.scalar 1)) none).h := by
  have h := (kde_unweighted_is_classical (xs := [0, 2]) (by simp) (some (.scalar 1))).2.2
  have hf : (kdeGetModel Model.gaussianKde ([0, 2] : List ℝ) (some (.scalar 1)) none).factor = 1 := rfl
  rw [h, hf, mul_one]
  apply Real.sqrt_pos.2
  norm_num [mean]

end CopVerif.Props.C04
