import CopVerif.Props.C02
import CopVerif.Lemmas.PearsonFinite
import CopVerif.Lemmas.CholeskyDensity
/-!
# C02 (extension) — unit diagonal for raw columns, finiteness, density after the ridge

`Props/C02.lean` leaves three clauses open: `diag_one_raw_partial` (unit diagonal for a non-constant
RAW column, proved only when the score map separates ALL values of the column), "finite", and
"sampling and density evaluation still work after regularisation".  This file proves:

* `diag_raw_exact` / `diag_one_raw_iff` — the exact value of every diagonal entry for arbitrary external
  `ppf` / fitted `cdfs`: `1` (+ ridge) iff two values of the raw column get different scores, `0`
  (+ ridge) otherwise.  The unrestricted raw-column reading is false (`C02.diag_one_raw_counterexample`);
  this iff is the strongest true statement.
* `diag_one_raw` — the criterion in terms of the fitted marginal: a `ppf` strictly increasing on the clip
  range and ONE pair of values whose CDF values are separated and not clipped to the same end.  It has
  strictly weaker hypotheses than `C02.diag_one_raw_partial` (`diag_one_raw_of_separating`).
* `diag_one_raw_of_straddle` — in particular whenever the fitted CDF puts one value of the column below
  `1/2` and one above (as every location family fitted by a mean/median does on a non-constant column).
* `entry_unit_form` / `entry_finite` — "finite", on ANY numeric carrier (in particular `Float`): every
  entry is `nan_to_num(clip(·))` output (+ `δ_ij·ε`), hence `np.isfinite` given the IEEE facts collected
  in `Pearson.UnitFinite` (proved at ℝ; at binary64 they remain an assumption about the hardware
  arithmetic, which the kernel cannot see).
* `ridge_density_defined` — after the ridge the fitted matrix is invertible (`det > 0`), the
  Cholesky factorisation of the C13 model succeeds on it, and the multivariate-normal density and
  log-density are defined for every score vector.  (scipy's own `allow_singular` code path stays an
  external symbol.)
-/
namespace CopVerif.Props.C02b
open CopVerif Model Pearson NumFns Matrix

/-- **Exact diagonal.**  For arbitrary external `ppf` and fitted `cdfs`, the diagonal entry of column
`i` is `1` when two values of the raw column receive different scores and `0` otherwise (the score
column is constant: `0/0 → NaN → 0`), plus the ridge constant when the ridge is applied. -/
theorem diag_raw_exact {L : Type} (lab : List L) (ppf : ℝ → ℝ) (cdfs : List (ℝ → ℝ))
    {X : List (List ℝ)} {n : ℕ} (hX : Rect X n) (hF : cdfs.length = X.length) (c : ℝ) {i : ℕ}
    (hi : i < X.length) :
    entryD 0 (fitModel lab ppf cdfs X c).data i i
      = (open Classical in
          if ∃ a ∈ X.getD i [], ∃ b ∈ X.getD i [],
              ppf (clip Gen.GaussCorr.clipLo Gen.GaussCorr.clipHi (cdfs.getD i id a))
                ≠ ppf (clip Gen.GaussCorr.clipLo Gen.GaussCorr.clipHi (cdfs.getD i id b))
          then (1 : ℝ) else 0)
        + if Gen.GaussCorr.condThreshold < c then Gen.GaussCorr.ridgeConst else 0 := by
  rw [C02.entry_is_pearson_of_scores lab ppf cdfs hX hF c hi hi]
  have hlen : (scoreCol ppf cdfs X i).length = n := by
    rw [scoreCol, List.length_map]; exact hX.getD_length hi
  have hconst : IsConst (vec n (scoreCol ppf cdfs X i)) ↔
      ¬ ∃ a ∈ X.getD i [], ∃ b ∈ X.getD i [],
          ppf (clip Gen.GaussCorr.clipLo Gen.GaussCorr.clipHi (cdfs.getD i id a))
            ≠ ppf (clip Gen.GaussCorr.clipLo Gen.GaussCorr.clipHi (cdfs.getD i id b)) := by
    rw [isConst_vec_iff hlen]
    constructor
    · rintro h ⟨a, ha, b, hb, hab⟩
      exact hab (h _ (List.mem_map.2 ⟨a, ha, rfl⟩) _ (List.mem_map.2 ⟨b, hb, rfl⟩))
    · intro h u hu v hv
      obtain ⟨a, ha, rfl⟩ := List.mem_map.1 hu
      obtain ⟨b, hb, rfl⟩ := List.mem_map.1 hv
      by_contra hne
      exact h ⟨a, ha, b, hb, hne⟩
  by_cases hs : ∃ a ∈ X.getD i [], ∃ b ∈ X.getD i [],
      ppf (clip Gen.GaussCorr.clipLo Gen.GaussCorr.clipHi (cdfs.getD i id a))
        ≠ ppf (clip Gen.GaussCorr.clipLo Gen.GaussCorr.clipHi (cdfs.getD i id b))
  · have hnc : ¬ IsConst (vec n (scoreCol ppf cdfs X i)) := fun h => (hconst.1 h) hs
    rw [rho_self hnc, if_pos hs]
    by_cases hc : Gen.GaussCorr.condThreshold < c <;> simp [hc]
  · have hc' : IsConst (vec n (scoreCol ppf cdfs X i)) := hconst.2 hs
    rw [(rho_eq_none_iff _ _).2 (Or.inl hc'), if_neg hs]
    by_cases hc : Gen.GaussCorr.condThreshold < c <;> simp [hc]

/-- **Unit diagonal, necessary and sufficient.**  The diagonal entry of a raw column is `1` (+ ridge)
**iff** two of its values receive different scores. -/
theorem diag_one_raw_iff {L : Type} (lab : List L) (ppf : ℝ → ℝ) (cdfs : List (ℝ → ℝ))
    {X : List (List ℝ)} {n : ℕ} (hX : Rect X n) (hF : cdfs.length = X.length) (c : ℝ) {i : ℕ}
    (hi : i < X.length) :
    entryD 0 (fitModel lab ppf cdfs X c).data i i
        = 1 + (if Gen.GaussCorr.condThreshold < c then Gen.GaussCorr.ridgeConst else 0)
      ↔ ∃ a ∈ X.getD i [], ∃ b ∈ X.getD i [],
          ppf (clip Gen.GaussCorr.clipLo Gen.GaussCorr.clipHi (cdfs.getD i id a))
            ≠ ppf (clip Gen.GaussCorr.clipLo Gen.GaussCorr.clipHi (cdfs.getD i id b)) := by
  rw [diag_raw_exact lab ppf cdfs hX hF c hi]
  constructor
  · intro h
    by_contra hs
    rw [if_neg hs] at h
    have := add_right_cancel h
    norm_num at this
  · intro hs
    rw [if_pos hs]

/-- **Unit diagonal from the fitted marginal.**  If `ppf` is strictly increasing on the clip range
`[clipLo, clipHi]` (as `norm.ppf` is on `(0, 1)`) and the raw column contains ONE pair `a, b` whose
fitted-CDF values are ordered `cdf a < cdf b` and are not both clipped to the same end
(`cdf a < clipHi`, `clipLo < cdf b`), the diagonal entry is `1` (+ ridge).  No injectivity of the
whole score map is needed. -/
theorem diag_one_raw {L : Type} (lab : List L) (ppf : ℝ → ℝ) (cdfs : List (ℝ → ℝ))
    {X : List (List ℝ)} {n : ℕ} (hX : Rect X n) (hF : cdfs.length = X.length) (c : ℝ) {i : ℕ}
    (hi : i < X.length)
    (hppf : StrictMonoOn ppf (Set.Icc Gen.GaussCorr.clipLo Gen.GaussCorr.clipHi))
    (hsep : ∃ a ∈ X.getD i [], ∃ b ∈ X.getD i [],
      cdfs.getD i id a < cdfs.getD i id b ∧ cdfs.getD i id a < Gen.GaussCorr.clipHi
        ∧ Gen.GaussCorr.clipLo < cdfs.getD i id b) :
    entryD 0 (fitModel lab ppf cdfs X c).data i i
      = 1 + if Gen.GaussCorr.condThreshold < c then Gen.GaussCorr.ridgeConst else 0 := by
  rw [diag_one_raw_iff lab ppf cdfs hX hF c hi]
  obtain ⟨a, ha, b, hb, hab, haH, hbL⟩ := hsep
  refine ⟨a, ha, b, hb, ne_of_lt (hppf ?_ ?_ ?_)⟩
  · exact clip_mem clipLo_le_clipHi _
  · exact clip_mem clipLo_le_clipHi _
  · have hLH : (Gen.GaussCorr.clipLo : ℝ) < Gen.GaussCorr.clipHi := by
      simp [Gen.GaussCorr.clipLo, Gen.GaussCorr.clipHi, Gen.GaussCorr.epsilon]; norm_num
    unfold clip
    split_ifs <;> linarith

/-- `C02.diag_one_raw_partial` is a special case: a non-constant raw column whose score map separates
all its values has, in particular, one pair with different scores. -/
theorem diag_one_raw_of_separating {L : Type} (lab : List L) (ppf : ℝ → ℝ) (cdfs : List (ℝ → ℝ))
    {X : List (List ℝ)} {n : ℕ} (hX : Rect X n) (hF : cdfs.length = X.length) (c : ℝ) {i : ℕ}
    (hi : i < X.length)
    (hnc : ∃ a ∈ X.getD i [], ∃ b ∈ X.getD i [], a ≠ b)
    (hinj : ∀ a ∈ X.getD i [], ∀ b ∈ X.getD i [],
      ppf (clip Gen.GaussCorr.clipLo Gen.GaussCorr.clipHi (cdfs.getD i id a))
        = ppf (clip Gen.GaussCorr.clipLo Gen.GaussCorr.clipHi (cdfs.getD i id b)) → a = b) :
    entryD 0 (fitModel lab ppf cdfs X c).data i i
      = 1 + if Gen.GaussCorr.condThreshold < c then Gen.GaussCorr.ridgeConst else 0 := by
  rw [diag_one_raw_iff lab ppf cdfs hX hF c hi]
  obtain ⟨a, ha, b, hb, hab⟩ := hnc
  exact ⟨a, ha, b, hb, fun h => hab (hinj a ha b hb h)⟩

/-- **Marginals that straddle the median.**  If the fitted CDF of column `i` sends one value of the
column strictly below `1/2` and another strictly above (true of every location–scale fit whose
location is the sample mean or median of a non-constant column), the diagonal entry is `1`
(+ ridge), whatever the clipping does. -/
theorem diag_one_raw_of_straddle {L : Type} (lab : List L) (ppf : ℝ → ℝ) (cdfs : List (ℝ → ℝ))
    {X : List (List ℝ)} {n : ℕ} (hX : Rect X n) (hF : cdfs.length = X.length) (c : ℝ) {i : ℕ}
    (hi : i < X.length)
    (hppf : StrictMonoOn ppf (Set.Icc Gen.GaussCorr.clipLo Gen.GaussCorr.clipHi))
    (hstr : ∃ a ∈ X.getD i [], ∃ b ∈ X.getD i [],
      cdfs.getD i id a < 1 / 2 ∧ 1 / 2 < cdfs.getD i id b) :
    entryD 0 (fitModel lab ppf cdfs X c).data i i
      = 1 + if Gen.GaussCorr.condThreshold < c then Gen.GaussCorr.ridgeConst else 0 := by
  obtain ⟨a, ha, b, hb, h1, h2⟩ := hstr
  have hlo : (Gen.GaussCorr.clipLo : ℝ) < 1 / 2 := by
    simp [Gen.GaussCorr.clipLo, Gen.GaussCorr.epsilon]; norm_num
  have hhi : (1 / 2 : ℝ) < Gen.GaussCorr.clipHi := by
    simp [Gen.GaussCorr.clipHi, Gen.GaussCorr.epsilon]; norm_num
  exact diag_one_raw lab ppf cdfs hX hF c hi hppf
    ⟨a, ha, b, hb, by linarith, by linarith, by linarith⟩

/-! ## "finite" -/

section anyCarrier
variable {α : Type} [Add α] [Sub α] [Mul α] [Div α] [Neg α] [LT α] [LE α]
  [DecidableLT α] [DecidableLE α] [NumFns α]

/-- **Shape of every entry, on any carrier (in particular `Float`).**  Entry `(i, j)` of the fitted
matrix is `e` — or `e + δ_ij·ε` when the ridge is applied — where `e` is the NaN replacement `0`, `1`,
`-1`, or a value that is not NaN and is neither `> 1` nor `< -1`.  In IEEE arithmetic every such `e`
is a finite number of `[-1, 1]`: no NaN and no `±inf` can reach the fitted matrix. -/
theorem entry_unit_form {L : Type} (lab : List L) (ppf : α → α) (cdfs : List (α → α))
    (X : List (List α)) (c d : α) (hF : cdfs.length = X.length) {i j : ℕ} (hi : i < X.length)
    (hj : j < X.length) :
    ∃ e : α, (e = Gen.GaussCorr.nanReplacement ∨ e = ofNat 1 ∨ e = -(ofNat 1) ∨
          (NumFns.isNaN e = false ∧ ¬ ofNat 1 < e ∧ ¬ e < -(ofNat 1))) ∧
      entryD d (fitModel lab ppf cdfs X c).data i j =
        if Gen.GaussCorr.condThreshold < c then
          e + (if i = j then ofNat 1 else ofNat 0) * Gen.GaussCorr.ridgeConst
        else e := by
  have hk : (transformToNormal ppf cdfs X).length = X.length := by simp [transformToNormal, hF]
  exact corrModel_entry_form d (transformToNormal ppf cdfs X) c (hk ▸ hi) (hk ▸ hj)

/-- **Finite.**  On a carrier satisfying the IEEE facts `Pearson.UnitFinite` (`0`, `±1` finite; a
non-NaN value neither `> 1` nor `< -1` is finite; adding `0·ε` / `1·ε` to such a value stays finite),
every entry of the fitted correlation matrix is `np.isfinite`, for every table, marginal
configuration and condition number. -/
theorem entry_finite (H : UnitFinite α) {L : Type} (lab : List L) (ppf : α → α) (cdfs : List (α → α))
    (X : List (List α)) (c d : α) (hF : cdfs.length = X.length) {i j : ℕ} (hi : i < X.length)
    (hj : j < X.length) :
    isFinite (entryD d (fitModel lab ppf cdfs X c).data i j) = true := by
  have hk : (transformToNormal ppf cdfs X).length = X.length := by simp [transformToNormal, hF]
  exact corrModel_entry_finite H d (transformToNormal ppf cdfs X) c (hk ▸ hi) (hk ▸ hj)

end anyCarrier

/-! ## the regularised matrix supports density evaluation -/

/-- **After the ridge, density evaluation works.**  When the ridge is applied the fitted matrix is
symmetric positive definite, so: its determinant is positive (it is invertible), the Cholesky
factorisation of the C13 model (`Model.GaussTransform.cholesky`) succeeds on it with a positive
diagonal, and the multivariate-normal density and log-density are defined (`some …`) at every score
vector `z` — and for `z` of the right length the density is the textbook
`exp(-½ zᵀΣ⁻¹z)/√(τ^k det Σ)` of the regularised matrix `Σ` — for every score table, including
duplicated, affinely dependent and constant columns. -/
theorem ridge_density_defined {cols : List (List ℝ)} {n : ℕ} (h : Rect cols n) {c : ℝ}
    (hc : Gen.GaussCorr.condThreshold < c) (τ : ℝ) :
    0 < (toMat cols.length (corrModel cols c)).det ∧
    ∃ Lc, GaussTransform.cholesky (corrModel cols c) = some Lc ∧ Lc.length = cols.length ∧
      (∀ i, i < cols.length → 0 < GaussTransform.ent Lc i i) ∧
      (∀ z, GaussTransform.mvnPdf τ (corrModel cols c) z = some (GaussTransform.mvnPdfChol τ Lc z) ∧
        GaussTransform.mvnLogPdf τ (corrModel cols c) z = some (GaussTransform.mvnLogPdfChol τ Lc z)) ∧
      (∀ z : List ℝ, z.length = cols.length →
        GaussTransform.mvnPdf τ (corrModel cols c) z
          = some (Real.exp (-(1 / 2) * ((fun i : Fin cols.length => z.getD i 0) ⬝ᵥ
              ((toMat cols.length (corrModel cols c))⁻¹ *ᵥ fun i : Fin cols.length => z.getD i 0))) /
            Real.sqrt (τ ^ cols.length * (toMat cols.length (corrModel cols c)).det))) := by
  have hpd : (toMat cols.length (corrModel cols c)).PosDef := (C02.ridge_preserves h hc).2.2.2.1
  have hrows : (corrModel cols c).length = cols.length := by
    rw [corrModel_eq_table, table_length]
  have hcols : ∀ r ∈ corrModel cols c, r.length = cols.length := by
    intro r hr
    rw [corrModel_eq_table] at hr
    exact table_row_length _ _ r hr
  have e : toMat cols.length (corrModel cols c)
      = Matrix.of fun i j : Fin cols.length => GaussTransform.ent (corrModel cols c) i j := rfl
  rw [e] at hpd ⊢
  obtain ⟨Lc, hL, hlen, _, _, hpos, _⟩ := GaussTransform.cholesky_of_matrix_posDef hrows hcols hpd
  have hch := GaussTransform.isChol_of_posDef hrows hcols
    ((GaussTransform.posDef_of_iff _ _).mp hpd).1 ((GaussTransform.posDef_of_iff _ _).mp hpd).2 hL
  refine ⟨hch.det_a_pos, Lc, hL, hlen, hpos,
    fun z => GaussTransform.mvn_defined_of_cholesky z hL, fun z hz => ?_⟩
  rw [(GaussTransform.mvn_defined_of_cholesky z hL).1, hch.mvnPdfChol_textbook τ z hz]

/-! ## non-vacuity -/

/-- the hypotheses of `diag_one_raw` / `diag_one_raw_of_straddle` are satisfiable: identity `ppf`
and a fitted CDF that straddles the median on the column `[1, 2]`. -/
example : StrictMonoOn (id : ℝ → ℝ) (Set.Icc Gen.GaussCorr.clipLo Gen.GaussCorr.clipHi) ∧
    Rect [[(1 : ℝ), 2]] 2 ∧
    (∃ a ∈ ([[(1 : ℝ), 2]] : List (List ℝ)).getD 0 [], ∃ b ∈ ([[(1 : ℝ), 2]] : List (List ℝ)).getD 0 [],
      ([fun x : ℝ => x / 3] : List (ℝ → ℝ)).getD 0 id a < 1 / 2
        ∧ 1 / 2 < ([fun x : ℝ => x / 3] : List (ℝ → ℝ)).getD 0 id b) := by
  refine ⟨strictMono_id.strictMonoOn _, ?_, 1, by simp, 2, by simp, ?_, ?_⟩
  · intro c hc; simp at hc; subst hc; rfl
  · simp; norm_num
  · simp; norm_num

/-- `UnitFinite` is inhabited (at ℝ). -/
example : UnitFinite ℝ := unitFinite_real

/-- the ridge branch of `ridge_density_defined` is reachable on a singular table (a duplicated
column). -/
example : Rect [[(1 : ℝ), 2], [1, 2]] 2 ∧ (Gen.GaussCorr.condThreshold : ℝ) < 2 ^ 53 := by
  refine ⟨?_, ?_⟩
  · intro c hc; simp at hc; subst hc; rfl
  · simp [Gen.GaussCorr.condThreshold]; norm_num

end CopVerif.Props.C02b
