import CopVerif.Lemmas.GaussSample
import CopVerif.Lemmas.KendallInvariance
import CopVerif.Real.PIT
import CopVerif.Real.PITMeasure
import CopVerif.Real.Inst
/-!
# C01 — Gaussian-copula synthetic data keeps schema, marginals and dependence

Property theorems only, about `Model/GaussSample.lean` (`fitColumns`, `sample`, the Kendall counter), i.e.
about the hand-written model that `tools/props/c01.py` ties to the real `GaussianMultivariate.fit/sample`
on every run (the plan term printed by the model, interpreted with the real fitted univariates and the
recorded `np.random.multivariate_normal` output, must equal the real `sample(n)` bit for bit).

External functions are parameters (`Ext`: `ppf j`, `phi`, `mvn`) with hypothesis bundles:
`MvnShape` (numpy returns an `n × d` array), `PIT.IsQuantileOf Q F` (a fitted `percent_point`/`cdf` pair),
`PIT.IsStdNormalCDF Φ Φinv` (`scipy.stats.norm.cdf`; discharged for Mathlib's standard normal
distribution function in `Real/PITMeasure.lean`).  Labels are assumed distinct where stated
(`Nodup`; pandas returns a sub-frame for a duplicated label — outside the model).

Clauses of the property that are NOT theorems here (listed in `PARTIAL` of the harness; no placeholder
theorems):

* `dependence_value_partial` — that standard normal draws with correlation `ρ` have Kendall tau
  `(2/π)·arcsin ρ` ("the rank dependence implied by the fitted correlation matrix") is Sheppard's
  theorem about the bivariate normal law; not proved.  What IS proved (`kendall_invariant`,
  `sample_rank_dependence`) is that the sampled columns have exactly the concordance counts of the
  normal draws, so whatever rank dependence the draws have, the output has.
* `recovery_partial` — "marginals and correlation are recovered within sampling error when the training
  table comes from a Gaussian copula" is a statistical consistency statement about the estimators;
  not modelled.  (That the stored correlation is the Pearson matrix of the normal scores is C02.)
* `no_missing_values` — NaN-freeness is a statement about binary64 values of scipy's `ppf`/`cdf`;
  checked by the tie and the search, not a theorem.
* for non-decreasing but not strictly increasing `ppf ∘ Φ` (a marginal with atoms / flat quantile pieces)
  only `kendall_nondecreasing_le` holds: concordant and discordant counts can only drop (pairs become
  ties); a constant column is tied everywhere.
-/
namespace CopVerif.Props.C01
open CopVerif CopVerif.Model.GaussSample CopVerif.PIT

section Schema
variable {L β : Type} [BEq L] [LawfulBEq L]

omit [BEq L] [LawfulBEq L] in
/-- `fit` keeps the table's labels in table order, one univariate per column. -/
theorem fit_labels [BEq β] (X : List (L × List β)) :
    (fitColumns X).columns = X.map Prod.fst ∧
      (fitColumns X).univariates.length = (fitColumns X).columns.length :=
  ⟨fitColumns_columns X, (fitColumns_lengths X).symm⟩

/-- **Schema, labels.** After `fit(X)`, `sample(n)` has exactly the training labels in training order —
    for every number of columns, every `n`, whatever the external functions return. -/
theorem sample_labels [BEq β] (E : Ext β) (X : List (L × List β)) (n : Nat) (hnd : (X.map Prod.fst).Nodup) :
    (sample E (fitColumns X) n).map Prod.fst = X.map Prod.fst := by
  have hc := fitColumns_columns X
  have hl := fitColumns_lengths X
  unfold sample
  rw [sampleWith_eq_map E _ _ (by rw [hc]; exact hnd) hl, List.map_map]
  show ((fitColumns X).columns.zip (fitColumns X).univariates).map Prod.fst = _
  rw [List.map_fst_zip (Nat.le_of_eq hl), hc]

/-- the same for any fitted state (e.g. one rebuilt by `from_dict`). -/
theorem sample_labels_state (E : Ext β) (m : Fitted L β) (n : Nat) (hnd : m.columns.Nodup)
    (hlen : m.columns.length = m.univariates.length) :
    (sample E m n).map Prod.fst = m.columns := by
  unfold sample
  rw [sampleWith_eq_map E _ _ hnd hlen, List.map_map]
  show (m.columns.zip m.univariates).map Prod.fst = _
  exact List.map_fst_zip (Nat.le_of_eq hlen)

/-- **Schema, rows.** Every output column has exactly `n` cells (given that numpy returns an `n × d`
    array), for ANY fitted state — no distinctness needed. -/
theorem sample_nrows (E : Ext β) (hshape : MvnShape E.mvn) (m : Fitted L β) (n : Nat) :
    ∀ c ∈ sample E m n, c.2.length = n := by
  intro c hc
  have h := hshape m.columns.length n
  have := sampleWith_col_length E m (E.mvn m.columns.length n) h.2 c hc
  rw [this, h.1]

/-- **Alignment.** Output column `k` carries training label `k` and is the `k`-th univariate's
    `percent_point ∘ Φ` mapped over ARRAY column `k` of the draws (`zip` is not misaligned, the frame of
    draws is labelled with the training columns in training order). -/
theorem sample_aligned [BEq β] (E : Ext β) (X : List (L × List β)) (n : Nat) (hnd : (X.map Prod.fst).Nodup)
    (k : Nat) (name : L) (col : List β) (hk : X[k]? = some (name, col)) :
    (sample E (fitColumns X) n)[k]? = some (name, (colOf k (E.mvn X.length n)).map
      fun z => (fitColumn k col).ppf E.ppf (E.phi z)) := by
  have hc := fitColumns_columns X
  have hg := fitColumnsFrom_getElem? 0 X k name col hk
  have := sample_getElem? E (fitColumns X) n (by rw [hc]; exact hnd) (fitColumns_lengths X) k name
    (fitColumn (0 + k) col) hg.1 hg.2
  rw [hc, List.length_map, Nat.zero_add] at this
  exact this

/-- **A constant training column is reproduced exactly**: if column `k` of the table holds only the
    value `c`, column `k` of `sample(n)` is `n` copies of `c` — whatever the draws are. -/
theorem sample_constant_exact [BEq β] [LawfulBEq β] (E : Ext β) (hshape : MvnShape E.mvn) (X : List (L × List β))
    (n : Nat) (hnd : (X.map Prod.fst).Nodup) (k : Nat) (name : L) (col : List β) (c : β)
    (hk : X[k]? = some (name, col)) (hne : col ≠ []) (hconst : ∀ x ∈ col, x = c) :
    (sample E (fitColumns X) n)[k]? = some (name, List.replicate n c) := by
  rw [sample_aligned E X n hnd k name col hk, fitColumn_const k hne hconst]
  have hklt : k < X.length := by
    rcases List.getElem?_eq_some_iff.1 hk with ⟨h, _⟩; exact h
  have h := hshape X.length n
  have hlen : (colOf k (E.mvn X.length n)).length = n := by
    rw [length_colOf _ h.2 hklt, h.1]
  simp only [Uni.ppf, Option.some.injEq, Prod.mk.injEq, true_and]
  rw [List.eq_replicate_iff]
  exact ⟨by rw [List.length_map, hlen], by intro b hb; simp at hb; exact hb.2.symm ▸ rfl⟩

/-- non-vacuity of the hypotheses of the schema theorems: a concrete 2-column table (one constant
    column), a concrete `n × d` draw function, and the resulting sample. -/
example :
    let E : Ext Nat := { ppf := fun j u => 10 * j + u, phi := fun z => z + 1,
                         mvn := fun d n => List.replicate n (List.range d) }
    let X : List (String × List Nat) := [("a", [7, 7, 7]), ("b", [1, 2, 3])]
    (X.map Prod.fst).Nodup ∧ sample E (fitColumns X) 2 = [("a", [7, 7]), ("b", [12, 12])] := by
  decide

end Schema

/-! ## Marginals -/

/-- **Marginal law, pointwise.**  With `Q` the quantile function of `F` and `Φ` the standard normal
    distribution function, the sampled cell `Q (Φ z)` is `≤ x` exactly when the normal draw `z` is
    `≤ Φ⁻¹ (F x)`: the event `{sampled ≤ x}` is the event `{z ≤ Φ⁻¹ (F x)}`, of standard normal probability
    `F x`. -/
theorem marginal_pointwise {Q F Φ Φinv : ℝ → ℝ} (hQ : IsQuantileOf Q F) (hΦ : IsStdNormalCDF Φ Φinv)
    (z x : ℝ) (h0 : 0 < F x) (h1 : F x < 1) : Q (Φ z) ≤ x ↔ z ≤ Φinv (F x) :=
  quantile_transform_le_iff hQ hΦ z x h0 h1

/-- outside `0 < F x < 1`: never below the support, always below a point of full mass. -/
theorem marginal_pointwise_ends {Q F Φ Φinv : ℝ → ℝ} (hQ : IsQuantileOf Q F) (hΦ : IsStdNormalCDF Φ Φinv)
    (z x : ℝ) : (F x ≤ 0 → ¬ Q (Φ z) ≤ x) ∧ (1 ≤ F x → Q (Φ z) ≤ x) :=
  ⟨quantile_transform_not_le hQ hΦ z x, quantile_transform_le hQ hΦ z x⟩

/-- **Marginal law, measure-theoretic.**  Under the standard Gaussian measure, the sampled cell
    `Q (Φ Z)` (`Φ` = the true standard normal distribution function `stdPhi`) has distribution
    function `F`: `P(Q(Φ Z) ≤ x) = F x`. -/
theorem marginal_law {Q F : ℝ → ℝ} (hQ : IsQuantileOf Q F) (x : ℝ) (h0 : 0 ≤ F x) (h1 : F x ≤ 1) :
    (ProbabilityTheory.gaussianReal 0 1) {z | Q (stdPhi z) ≤ x} = ENNReal.ofReal (F x) :=
  quantile_transform_law hQ x h0 h1

/-- the push-forward form: the law of the sampled cell, `Measure.map (Q ∘ Φ) (gaussianReal 0 1)`,
    gives mass `F x` to `(-∞, x]`, i.e. its distribution function is `F`. -/
theorem marginal_law_map {Q F : ℝ → ℝ} (hQ : IsQuantileOf Q F) (x : ℝ) (h0 : 0 ≤ F x) (h1 : F x ≤ 1) :
    ((ProbabilityTheory.gaussianReal 0 1).map fun z => Q (stdPhi z)) (Set.Iic x) = ENNReal.ofReal (F x) ∧
      ProbabilityTheory.cdf ((ProbabilityTheory.gaussianReal 0 1).map fun z => Q (stdPhi z)) x = F x :=
  ⟨quantile_transform_map_Iic hQ x h0 h1, quantile_transform_cdf hQ x h0 h1⟩

/-- non-vacuity: the fair-coin step functions are a quantile pair (not continuous, not strictly
    increasing), and Mathlib's standard normal distribution function satisfies `IsStdNormalCDF`. -/
example : IsQuantileOf coinQ coinF ∧ IsStdNormalCDF stdPhi stdPhiInv :=
  ⟨coin_isQuantileOf, stdPhi_isStdNormalCDF⟩

/-! ## Dependence -/

section Dependence
variable {α β α' β' : Type} [LinearOrder α] [LinearOrder β] [LinearOrder α'] [LinearOrder β']

/-- **Rank dependence is invariant.**  For samples of any length and strictly increasing `f`, `g`, the
    concordant / discordant / tie counts of `(map f xs, map g ys)` are those of `(xs, ys)`, hence so is
    Kendall's tau-b. -/
theorem kendall_invariant {f : α → α'} {g : β → β'} (hf : StrictMono f) (hg : StrictMono g)
    (xs : List α) (ys : List β) :
    counts ((xs.map f).zip (ys.map g)) = counts (xs.zip ys) ∧
      (kendallTauB ((xs.map f).zip (ys.map g)) : Option ℝ) = kendallTauB (xs.zip ys) := by
  rw [List.zip_map]
  exact ⟨counts_map_strictMono hf hg _, kendallTauB_map_strictMono hf hg _⟩

/-- for merely non-decreasing maps (quantile functions with flat pieces) concordant and discordant
    pairs can only be lost to ties, never created. -/
theorem kendall_nondecreasing_le {f : α → α'} {g : β → β'} (hf : Monotone f) (hg : Monotone g)
    (xs : List α) (ys : List β) :
    (counts ((xs.map f).zip (ys.map g))).conc ≤ (counts (xs.zip ys)).conc ∧
      (counts ((xs.map f).zip (ys.map g))).disc ≤ (counts (xs.zip ys)).disc := by
  rw [List.zip_map]
  exact ⟨pairCount_conc_map_le hf hg _, pairCount_disc_map_le hf hg _⟩

/-- non-vacuity and non-triviality: a concrete sample with concordant, discordant and tied pairs. -/
example : counts [((1 : Nat), (1 : Nat)), (2, 2), (1, 3), (2, 2)]
    = { conc := 2, disc := 2, tieX := 2, tieY := 1, tieXY := 1 } := by decide

end Dependence

/-- **The sampled columns have the rank dependence of the normal draws.**  For two non-constant
    columns `j`, `k` of a fitted model whose `percent_point ∘ Φ` are strictly increasing, the Kendall
    counts (and tau-b) of the two OUTPUT columns of `sample(n)` equal those of ARRAY columns `j`, `k` of
    the normal draws. -/
theorem sample_rank_dependence {L β : Type} [BEq L] [LawfulBEq L] [LinearOrder β] (E : Ext β)
    (m : Fitted L β) (n : Nat) (hnd : m.columns.Nodup) (hlen : m.columns.length = m.univariates.length)
    (j k a b : Nat) (nj nk : L)
    (hcj : m.columns[j]? = some nj) (hck : m.columns[k]? = some nk)
    (huj : m.univariates[j]? = some (.ext a)) (huk : m.univariates[k]? = some (.ext b))
    (hfa : StrictMono fun z => E.ppf a (E.phi z)) (hfb : StrictMono fun z => E.ppf b (E.phi z)) :
    ∃ cj ck, (sample E m n)[j]? = some (nj, cj) ∧ (sample E m n)[k]? = some (nk, ck) ∧
      counts (cj.zip ck) = counts ((colOf j (E.mvn m.columns.length n)).zip (colOf k (E.mvn m.columns.length n))) ∧
      (kendallTauB (cj.zip ck) : Option ℝ)
        = kendallTauB ((colOf j (E.mvn m.columns.length n)).zip (colOf k (E.mvn m.columns.length n))) := by
  refine ⟨_, _, sample_getElem? E m n hnd hlen j nj _ hcj huj, sample_getElem? E m n hnd hlen k nk _ hck huk, ?_⟩
  exact kendall_invariant (f := fun z => E.ppf a (E.phi z)) (g := fun z => E.ppf b (E.phi z)) hfa hfb _ _

end CopVerif.Props.C01
