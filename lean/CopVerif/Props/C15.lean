import CopVerif.Lemmas.Rng
/-!
# C15 — Sampling is reproducible per model seed and never perturbs the global RNG

Property theorems only (core Lean, no Mathlib).  They are about the definitions of
`CopVerif.Model.Rng` themselves: `withModelState` (the context manager `utils.set_random_state`),
`decorate` (the decorator `utils.random_state`), `sample`, `setRandomState`, the dataset generators,
and histories `runW`/`outputs` of arbitrary finite length over any number of models, for an
**arbitrary** generator algebra `A` (nothing is assumed about MT19937 except, where stated,
`Acyclic`).  Which samplers are decorated is data (`Config.decorated`, from the generated table).

Vocabulary: `seeded cfg w m` — `m.sample` is decorated and `m.random_state` is not `None`;
`quiet` — every sampling op of the history is seeded and nobody calls `np.random.seed`;
`WF` — references held by models point to allocated `RandomState` objects (true of `World.init`,
invariant); `plainFor m h` — no caller draws in `h`, `m` only seeded by `int`/`None`.
-/
namespace CopVerif.Props.C15
open CopVerif.Model.Rng

variable {G Draw Out : Type}

/-! ## the global generator -/

/-- For **every** finite history (any number of models, any interleaving of seeded `sample` calls —
returning or raising —, `set_random_state` with `None`/`int`/`RandomState`, creation of and draws
from caller-owned `RandomState` objects, dataset generators) the global generator state at the end
equals the one at the start. -/
theorem global_preserved (A : GenAlg G Draw Out) (cfg : Config) (w : World G) (h : List (Op Draw))
    (hq : quiet A cfg w h = true) : (runW A cfg w h).global = w.global := by
  rw [run_global, globalOps_of_quiet A cfg w h hq]; rfl

/-- General form: in an arbitrary history the global generator only sees the draws of *unseeded*
sampling calls and `np.random.seed`; everything else is invisible to it. -/
theorem global_only_unseeded (A : GenAlg G Draw Out) (cfg : Config) (w : World G)
    (h : List (Op Draw)) :
    (runW A cfg w h).global = applyG A w.global (globalOps A cfg w h) :=
  run_global A cfg w h

example : quiet (freeAlg Nat) (configOf asFoundTable fun _ => "Clayton") (World.init ⟨0, []⟩)
    [.setState 0 (.int 3), .sample 0 ⟨[5], false⟩, .callerNew 4, .setState 1 (.obj 2),
     .sample 1 ⟨[], true⟩, .dataset 42 [7], .sample 0 ⟨[5], true⟩] = true := by decide

/-- The context manager alone: whatever the body does to the global stream, whether it returns or
raises, and whatever the setter does, the global state after the `with` block is the saved one. -/
theorem context_manager_restores {R : Type} (st : G) (setter : G → World G → World G)
    (body : World G → World G × R) (w : World G) :
    (withModelState st setter body w).1.global = w.global := rfl

/-! ## exception safety -/

/-- The `finally` branch: a decorated sampler of a seeded model whose body raises after having
performed `c.draws` (possibly none) reports the exception, leaves the global generator as it was,
stores the **advanced** state (a fresh object) in the model, and does not touch the object the
model held before nor any other existing `RandomState` object. -/
theorem exception_safe (A : GenAlg G Draw Out) (cfg : Config) {m r : Nat} (c : Call Draw)
    {w : World G} (hd : cfg.decorated m = true) (hr : w.rs m = some r) (hc : c.raises = true) :
    (sample A cfg m c w).2 = .raised ∧
    (sample A cfg m c w).1.global = w.global ∧
    (sample A cfg m c w).1.view m = some (advDraws A (w.heap r) c.draws) ∧
    (∀ r', r' < w.next → (sample A cfg m c w).1.heap r' = w.heap r') ∧
    (∀ m', m' ≠ m → (sample A cfg m c w).1.rs m' = w.rs m') := by
  rw [sample_seeded A cfg c hd hr]
  refine ⟨by simp [result, hc], rfl, by simp [World.view], ?_, ?_⟩
  · intro r' hr'; exact upd_other _ _ (by omega)
  · intro m' hm; exact upd_other _ _ hm

/-- … and the same call when the body returns: identical effect on the world (the protocol does
not depend on how the body ends), result computed from the model's own stream. -/
theorem seeded_sample_effect (A : GenAlg G Draw Out) (cfg : Config) {m r : Nat} (c : Call Draw)
    {w : World G} (hd : cfg.decorated m = true) (hr : w.rs m = some r) :
    (sample A cfg m c w).2 = result A (w.heap r) c ∧
    (sample A cfg m c w).1.global = w.global ∧
    (sample A cfg m c w).1.view m = some (advDraws A (w.heap r) c.draws) := by
  rw [sample_seeded A cfg c hd hr]
  exact ⟨rfl, rfl, by simp [World.view]⟩

/-! ## determinism of a seeded model's stream -/

/-- Exact characterisation, for **every** history: the generator state of a model with a decorated
sampler and everything its `sample` calls return while it is seeded are those of the isolated
one-model machine `isoRun`/`isoOutputs` run on the model's own operations `ownOps` (its `sample`
and `set_random_state` calls; a `RandomState` seed is read when installed; draws the caller makes
from the very object the model holds).  Neither the global state, nor the other models, nor the
interleaving enter. -/
theorem stream_deterministic_own (A : GenAlg G Draw Out) (cfg : Config) {w : World G} (hw : WF w)
    {m : Nat} (hd : cfg.decorated m = true) (h : List (Op Draw)) :
    (runW A cfg w h).view m = isoRun A (w.view m) (ownOps A cfg m w h) ∧
    maskedOutputs A cfg m w h = isoOutputs A (w.view m) (ownOps A cfg m w h) :=
  run_own A cfg hw hd h

/-- Two runs — different configurations, different worlds (prior global state, other models),
different histories — in which two models start from the same generator state and receive the same
own call sequence (`proj`, read off the history alone) return the same results, call by call, and
end in the same state: the stream is a function of the seed and the model's own call sequence,
independent of the interleaving and of the global state. (`m₁ ≠ m₂` in the *same* run is the
instance `cfg₁ = cfg₂`, `w₁ = w₂`, `h₁ = h₂`.) -/
theorem stream_deterministic (A : GenAlg G Draw Out) (cfg₁ cfg₂ : Config) {w₁ w₂ : World G}
    (hw₁ : WF w₁) (hw₂ : WF w₂) {m₁ m₂ : Nat} (hd₁ : cfg₁.decorated m₁ = true)
    (hd₂ : cfg₂.decorated m₂ = true) (h₁ h₂ : List (Op Draw))
    (hp₁ : plainFor m₁ h₁ = true) (hp₂ : plainFor m₂ h₂ = true)
    (hv : w₁.view m₁ = w₂.view m₂) (hproj : proj A m₁ h₁ = proj A m₂ h₂) :
    maskedOutputs A cfg₁ m₁ w₁ h₁ = maskedOutputs A cfg₂ m₂ w₂ h₂ ∧
    (runW A cfg₁ w₁ h₁).view m₁ = (runW A cfg₂ w₂ h₂).view m₂ := by
  obtain ⟨a1, a2⟩ := run_own A cfg₁ hw₁ hd₁ h₁
  obtain ⟨b1, b2⟩ := run_own A cfg₂ hw₂ hd₂ h₂
  rw [a1, a2, b1, b2, ownOps_eq_proj A cfg₁ w₁ h₁ hp₁, ownOps_eq_proj A cfg₂ w₂ h₂ hp₂, hv, hproj]
  exact ⟨rfl, rfl⟩

/-- The usual reading: as soon as both models are (re)seeded with the same seed — the first own
operation of each is the same `set_random_state` — even the initial states are irrelevant. -/
theorem stream_deterministic_from_seed (A : GenAlg G Draw Out) (cfg₁ cfg₂ : Config)
    {w₁ w₂ : World G} (hw₁ : WF w₁) (hw₂ : WF w₂) {m₁ m₂ : Nat}
    (hd₁ : cfg₁.decorated m₁ = true) (hd₂ : cfg₂.decorated m₂ = true) (h₁ h₂ : List (Op Draw))
    (hp₁ : plainFor m₁ h₁ = true) (hp₂ : plainFor m₂ h₂ = true)
    (v : Option G) (ops : List (MOp G Draw))
    (hproj₁ : proj A m₁ h₁ = .set v :: ops) (hproj₂ : proj A m₂ h₂ = .set v :: ops) :
    maskedOutputs A cfg₁ m₁ w₁ h₁ = maskedOutputs A cfg₂ m₂ w₂ h₂ ∧
    (runW A cfg₁ w₁ h₁).view m₁ = (runW A cfg₂ w₂ h₂).view m₂ := by
  obtain ⟨a1, a2⟩ := run_own A cfg₁ hw₁ hd₁ h₁
  obtain ⟨b1, b2⟩ := run_own A cfg₂ hw₂ hd₂ h₂
  rw [a1, a2, b1, b2, ownOps_eq_proj A cfg₁ w₁ h₁ hp₁, ownOps_eq_proj A cfg₂ w₂ h₂ hp₂, hproj₁,
    hproj₂]
  exact ⟨by simp [isoOutputs, isoStep], by simp [isoRun, isoStep]⟩

/-- non-vacuity: two interleavings, different prior global state, one extra model in between. -/
example :
    let cfg := configOf asFoundTable fun _ => "GaussianKDE"
    let h₁ : List (Op Nat) := [.setState 0 (.int 3), .sample 0 ⟨[5], false⟩, .sample 0 ⟨[6], false⟩]
    let h₂ : List (Op Nat) := [.seedGlobal 9, .setState 1 (.int 8), .setState 2 (.int 3),
      .sample 1 ⟨[5], false⟩, .sample 2 ⟨[5], false⟩, .sample 1 ⟨[1], true⟩, .sample 2 ⟨[6], false⟩]
    plainFor 0 h₁ = true ∧ plainFor 2 h₂ = true ∧
    proj (freeAlg Nat) 0 h₁ = proj (freeAlg Nat) 2 h₂ ∧ cfg.decorated 0 = true ∧
    maskedOutputs (freeAlg Nat) cfg 0 (World.init ⟨0, []⟩) h₁
      = maskedOutputs (freeAlg Nat) cfg 2 (World.init ⟨0, [77]⟩) h₂ := by decide

/-- non-vacuity of `WF` and `Acyclic`: the harness's initial world; a counter. -/
example : WF (World.init (0 : Nat)) := init_wf 0
example : Acyclic ctr := ctr_acyclic

/-! ## successive calls advance the stream -/

/-- If the own call sequence of a seeded model in a history (whatever else the history contains)
is `sample c₁, …, sample cₙ`, call `k` is served from the state reached after the draws of calls
`1 … k−1` (`segments`), and the state stored at the end is `advance` applied to all requests in
order — for two calls: `advance (advance g c₁) c₂`. -/
theorem stream_advances (A : GenAlg G Draw Out) (cfg : Config) {w : World G} (hw : WF w) {m : Nat}
    (hd : cfg.decorated m = true) (h : List (Op Draw)) (hp : plainFor m h = true) (g : G)
    (hv : w.view m = some g) (cs : List (Call Draw))
    (hproj : proj A m h = cs.map MOp.sample) :
    maskedOutputs A cfg m w h = segments A g cs ∧
    (runW A cfg w h).view m = some (advDraws A g (cs.flatMap Call.draws)) := by
  obtain ⟨a1, a2⟩ := run_own A cfg hw hd h
  rw [a1, a2, ownOps_eq_proj A cfg w h hp, hproj, hv]
  clear a1 a2 hproj hv hp
  induction cs generalizing g with
  | nil => exact ⟨rfl, rfl⟩
  | cons c cs ih =>
    obtain ⟨i1, i2⟩ := ih (advDraws A g c.draws)
    constructor
    · simpa [isoOutputs, isoStep, segments] using i1
    · simpa [isoRun, isoStep, advDraws_append] using i2

/-- The segments are consecutive: when no call raises, the concatenation of what the calls return
is what one call with all the requests would have returned. -/
theorem stream_segments_concat (A : GenAlg G Draw Out) (g : G) (c₁ c₂ : Call Draw)
    (h₁ : c₁.raises = false) (h₂ : c₂.raises = false) :
    segments A g [c₁, c₂] =
      [some (.ok (outDraws A g c₁.draws)), some (.ok (outDraws A (advDraws A g c₁.draws) c₂.draws))] ∧
    outDraws A g c₁.draws ++ outDraws A (advDraws A g c₁.draws) c₂.draws
      = outDraws A g (c₁.draws ++ c₂.draws) := by
  simp [segments, result, h₁, h₂, outDraws_append]

/-- Under the hypothesis that consuming draws never returns the generator to the same state, a
call with at least one draw leaves the model in a *different* state (so the next call does not
replay it) — also when the call raised. -/
theorem stream_advances_distinct (A : GenAlg G Draw Out) (hA : Acyclic A) (cfg : Config) {m r : Nat}
    (c : Call Draw) {w : World G} (hd : cfg.decorated m = true) (hr : w.rs m = some r)
    (hc : c.draws ≠ []) : (sample A cfg m c w).1.view m ≠ w.view m := by
  rw [sample_seeded A cfg c hd hr]
  simp only [World.view, upd_same, hr, Option.map_some]
  intro h
  exact hA _ _ hc (Option.some.inj h)

/-! ## without a seed -/

/-- A sampler that is not decorated, or whose model has `random_state = None`, is exactly its body
run on the global stream: it returns what the global generator yields and advances it. -/
theorem unseeded_uses_global (A : GenAlg G Draw Out) (cfg : Config) {m : Nat} (c : Call Draw)
    {w : World G} (h : seeded cfg w m = false) :
    sample A cfg m c w = drawGlobal A c w ∧
    (sample A cfg m c w).2 = result A w.global c ∧
    (sample A cfg m c w).1.global = advDraws A w.global c.draws := by
  rw [sample_unseeded A cfg c h]; exact ⟨rfl, rfl, rfl⟩

/-- Reproducible through the global seed: after `np.random.seed(k)` an unseeded model returns a
function of `k` and the call alone, whatever happened before. -/
theorem unseeded_reproducible (A : GenAlg G Draw Out) (cfg : Config) {m : Nat} (c : Call Draw)
    (k : Nat) {w : World G} (h : seeded cfg w m = false) :
    outputs A cfg m w [.seedGlobal k, .sample m c] = [result A (A.fromSeed k) c] := by
  have h' : seeded cfg (⟨A.fromSeed k, w.heap, w.next, w.rs⟩ : World G) m = false := h
  simp [outputs, outputOp, stepW, step, sample_unseeded A cfg c h', drawGlobal]

/-! ## `RandomState` objects supplied by the caller -/

/-- The library never mutates an existing `RandomState` object (the context manager only reads
`random_state.get_state()` and stores a *fresh* object): in a history without caller draws every
object that exists at the start holds the same state at the end.  Hence sharing one object between
several models, or re-using it later, is harmless. -/
theorem caller_object_untouched (A : GenAlg G Draw Out) (cfg : Config) (w : World G)
    (h : List (Op Draw)) (hh : h.all noCallerDraw = true) {r : Nat} (hr : r < w.next) :
    (runW A cfg w h).heap r = w.heap r :=
  run_heap_frame A cfg w h hh hr

/-! ## the decorator table -/

/-- Every sampler of the expected table is wrapped by `@random_state` — except `Univariate.sample`. -/
theorem decorated_table :
    (∀ e ∈ asFoundTable, e.decorated = true ∨ e.cls = "Univariate") ∧
    tableDecorated asFoundTable "Univariate" = false ∧
    (∀ c ∈ samplerClasses, tableDecorated asFoundTable c = true) ∧
    (∀ e ∈ repairedTable, e.decorated = true) := by decide

/-- Consequently, for any population of models whose classes are in `samplerClasses`, every model
has a decorated sampler, and all theorems above apply to it with `hd` discharged. -/
theorem decorated_of_table (clsOf : Nat → String) (m : Nat) (hm : clsOf m ∈ samplerClasses) :
    (configOf asFoundTable clsOf).decorated m = true := by
  have := decorated_table.2.2.1 (clsOf m) hm
  simpa [configOf] using this

/-! ## the selecting wrapper `Univariate` -/

/-- **The full-strength determinism theorem is false for the wrapper as found.**  Two equal
wrappers constructed with the same seed (`7`) and asked for the same sample return different
values when the global generator happens to be in different states, and the call perturbs the
global generator — in the counter algebra `ctr`. -/
theorem univariate_wrapper_counterexample :
    let h : List (Op Nat) := [.setState 0 (.int 7), .sample 0 ⟨[1], false⟩]
    outputs ctr wrapperAsFound 0 (World.init 0) h ≠ outputs ctr wrapperAsFound 0 (World.init 1) h ∧
    (runW ctr wrapperAsFound (World.init 0) h).global ≠ (World.init (G := Nat) 0).global ∧
    (runW ctr wrapperAsFound (World.init 0) h).view 0 = some (ctr.fromSeed 7) := by decide

/-- What does hold for the wrapper as found (`_partial`: the clauses "function of the seed",
"global untouched", "successive calls advance the model's own stream" are **false**, see the
counterexample): its seed is ignored — whatever `random_state` it holds, sampling is the body on
the global stream, hence reproducible only through `np.random.seed`. -/
theorem univariate_wrapper_partial (A : GenAlg G Draw Out) (m : Nat) (c : Call Draw) (w : World G) :
    sample A wrapperAsFound m c w = drawGlobal A c w ∧
    (sample A wrapperAsFound m c w).1.view m = w.view m := by
  have hs : seeded wrapperAsFound w m = false := by
    have : wrapperAsFound.decorated m = false := by
      simpa [wrapperAsFound, configOf] using decorated_table.2.1
    simp [seeded, this]
  rw [sample_unseeded A wrapperAsFound c hs]
  exact ⟨rfl, rfl⟩

/-- **Repaired variant**: once `Univariate.sample` is decorated the wrapper is an ordinary seeded
model — the global generator is untouched by its seeded calls and its stream is the isolated
machine's, for every history. -/
theorem univariate_wrapper_repaired (A : GenAlg G Draw Out) {w : World G} (hw : WF w) (m : Nat)
    (h : List (Op Draw)) :
    wrapperRepaired.decorated m = true ∧
    ((runW A wrapperRepaired w h).view m = isoRun A (w.view m) (ownOps A wrapperRepaired m w h) ∧
      maskedOutputs A wrapperRepaired m w h
        = isoOutputs A (w.view m) (ownOps A wrapperRepaired m w h)) ∧
    (quiet A wrapperRepaired w h = true → (runW A wrapperRepaired w h).global = w.global) := by
  have hd : wrapperRepaired.decorated m = true := by
    have : tableDecorated repairedTable "Univariate" = true := by decide
    simpa [wrapperRepaired, configOf] using this
  exact ⟨hd, run_own A wrapperRepaired hw hd h, global_preserved A wrapperRepaired w h⟩

/-- the counterexample history is quiet, deterministic and global-preserving after the repair. -/
example :
    let h : List (Op Nat) := [.setState 0 (.int 7), .sample 0 ⟨[1], false⟩]
    quiet ctr wrapperRepaired (World.init 0) h = true ∧
    outputs ctr wrapperRepaired 0 (World.init 0) h = outputs ctr wrapperRepaired 0 (World.init 1) h :=
  by decide

/-! ## dataset generators -/

/-- Every generator with a single scope returns a function of `(seed, draws)` — i.e. of
`(seed, size)`, the draws being determined by `size` (`datasetDraws`) — and leaves the **whole**
world (global generator, every `RandomState` object, every model) exactly as it was. -/
theorem dataset_deterministic (A : GenAlg G Draw Out) (seed : Nat) (ds : List Draw) (w : World G) :
    datasetSimple A seed ds w = (w, .ok (outDraws A (A.fromSeed seed) ds)) :=
  datasetSimple_eq A seed ds w

/-- `sample_univariate_bimodal` (nested scope): likewise.  Note that the nested bernoulli draws
and the outer normal draws both start from `fromSeed seed` (the inner scope restores the outer
one's *initial* state) — a quirk, not a violation. -/
theorem dataset_bimodal_deterministic (A : GenAlg G Draw Out) (seed : Nat) (dsB dsM : List Draw)
    (w : World G) :
    datasetBimodal A seed dsB dsM w =
      (w, .ok (outDraws A (A.fromSeed seed) dsB ++ outDraws A (A.fromSeed seed) dsM)) :=
  datasetBimodal_eq A seed dsB dsM w

/-- … in particular the global generator is preserved, inside any history (dataset calls are
`quiet` ops of `global_preserved`), and both calls agree from any two worlds. -/
theorem dataset_global_preserved (A : GenAlg G Draw Out) (seed : Nat) (ds dsB dsM : List Draw)
    (w w' : World G) :
    (datasetSimple A seed ds w).1.global = w.global ∧
    (datasetBimodal A seed dsB dsM w).1.global = w.global ∧
    (datasetSimple A seed ds w).2 = (datasetSimple A seed ds w').2 ∧
    (datasetBimodal A seed dsB dsM w).2 = (datasetBimodal A seed dsB dsM w').2 := by
  simp [datasetSimple_eq, datasetBimodal_eq]

/-- Shape (`_partial`): every array a generator draws is requested with `size=size`, except the
single scalar of `sample_univariate_degenerate`, which is broadcast by `np.full(size, ·)`; so every
column has `size` entries.  Missing: numpy's meaning of `size=` and the pandas constructors are not
modelled — "exactly `size` rows" is checked on the real code by the harness. -/
theorem dataset_rows_partial (name : String) (size : Nat) :
    (∀ d ∈ datasetDraws name size,
      d.count = some size ∨ (name = "univariate_degenerate" ∧ d.count = none)) ∧
    (∀ d ∈ (bimodalDraws size).1 ++ (bimodalDraws size).2, d.count = some size) := by
  constructor
  · unfold datasetDraws
    split <;> simp
  · simp [bimodalDraws, datasetDraws]

/-! ## soundness of the driver's predictions -/

/-- The driver runs histories in the free term algebra.  For every generator algebra `A` and every
prior global state `g0`, interpreting the free run's log (worlds and results, op by op) gives
exactly the run in `A` from the interpreted world: whatever coincides in the model's log coincides
in reality — for the real MT19937 as for any other generator. -/
theorem free_run_sound (A : GenAlg G Draw Out) (g0 : G) (cfg : Config) (w : World (Term Draw))
    (h : List (Op Draw)) :
    runLog A cfg (w.map (interp A g0)) h =
      (runLog (freeAlg Draw) cfg w h).map fun e =>
        (e.1.map (interp A g0),
         e.2.map (Result.map fun o => A.out (interp A g0 o.1) o.2)) :=
  (interp_hom A g0).runLog cfg w h

/-- … and the initial world of the driver is the interpretation-preimage of the real one. -/
theorem free_init (A : GenAlg G Draw Out) (g0 : G) :
    (World.init (⟨0, []⟩ : Term Draw)).map (interp A g0) = World.init g0 := rfl

/-- The separations the harness asserts: under `Acyclic`, a term and a proper extension of it
(the same stream, later) denote different generator states. -/
theorem free_prefix_separated (A : GenAlg G Draw Out) (hA : Acyclic A) (g0 : G) (t : Term Draw)
    (ds : List Draw) (hds : ds ≠ []) :
    interp A g0 ⟨t.root, t.draws ++ ds⟩ ≠ interp A g0 t :=
  interp_prefix_ne A hA g0 t ds hds

end CopVerif.Props.C15
