import CopVerif.Gen.Select
import CopVerif.Lemmas.Select
import Mathlib.Order.Fin.Basic
/-!
# C05 — Marginal model choice: best-KS candidate, filters, per-column config, fallback

Property theorems only.  The selection theorems are about `Model.selectWith` *instantiated with the
comparison operator and start value GENERATED from `copulas/univariate/selection.py`*
(`Gen.Select.cmp`, `Gen.Select.init`); the filter theorems about the class table generated from
`copulas/univariate/*.py` (`Gen.Select.tree`, `Gen.Select.table`); `column_config` about the default
generated from `copulas/multivariate/gaussian.py` (`Gen.Select.defaultDistribution`).

KS statistics live in `KS ρ` = NaN or a value of a linear order `ρ` with top (`+inf`) and bottom;
a candidate's outcome is `none` when `get_instance / fit / kstest` raised.  `linOrd ρ` is the order
dictionary the model is run with (at `Float` the driver uses `Model.floatOrd`).
-/
namespace CopVerif.Props.C05
open CopVerif CopVerif.Model CopVerif.Select

variable {ρ : Type} [LinearOrder ρ] [BoundedOrder ρ]

/-! ## Selection -/

/-- **Optimality.**  For ANY list of candidate outcomes:
1. if `select_univariate` settles on candidate `i`, then `i` was fitted, its statistic is a number
   `x` (not NaN), and `x ≤ y` for every candidate `j` that was fitted with a numeric statistic `y`;
2. if some candidate was fitted with a statistic below `+inf`, a candidate is selected and its
   statistic is below `+inf`;
3. if every candidate raised or produced NaN, none is selected (the real code then fails in
   `get_instance(None)`, see `fit_error_iff_none`).
Holds for the generated comparison as long as it is `<` or `<=` (tie-breaking is not demanded). -/
theorem select_argmin (ks : List (Option (KS ρ))) :
    (∀ i, selectWith (linOrd ρ) Gen.Select.cmp Gen.Select.init ks = some i →
        ∃ x, ks[i]? = some (some (.val x)) ∧
          ∀ (j : Nat) (y : ρ), ks[j]? = some (some (KS.val y)) → x ≤ y) ∧
    ((∃ (j : Nat) (y : ρ), ks[j]? = some (some (KS.val y)) ∧ y < (⊤ : ρ)) →
        ∃ i x, selectWith (linOrd ρ) Gen.Select.cmp Gen.Select.init ks = some i ∧
          ks[i]? = some (some (.val x)) ∧ x < (⊤ : ρ)) ∧
    ((∀ e ∈ ks, e = none ∨ e = some .nan) →
        selectWith (linOrd ρ) Gen.Select.cmp Gen.Select.init ks = none) := by
  have hc : Gen.Select.cmp = .lt ∨ Gen.Select.cmp = .le := by decide
  have hi : Gen.Select.init = .posInf := by decide
  rw [hi]
  exact ⟨fun i h => selectWith_some _ hc ks i h, selectWith_of_finite _ hc ks,
    selectWith_none_of_unfittable _ _ _ ks⟩

/-- The acceptor used by the correspondence harness says exactly "a fitted candidate with a numeric
    statistic that no fitted candidate undercuts" — no reference to tie-breaking. -/
theorem isMinimiser_spec (ks : List (Option (KS ρ))) (i : Nat) :
    isMinimiser (linOrd ρ) ks i = true ↔
      ∃ x, ks[i]? = some (some (.val x)) ∧
        ∀ (j : Nat) (y : ρ), ks[j]? = some (some (KS.val y)) → x ≤ y :=
  isMinimiser_iff ks i

/-- The model's choice (with the generated comparison / start value) is always accepted by the
    acceptor, so "real choice accepted" is a necessary condition for "real = model". -/
theorem select_accepted (ks : List (Option (KS ρ))) :
    accepts (linOrd ρ) ks (selectWith (linOrd ρ) Gen.Select.cmp Gen.Select.init ks) = true := by
  have hc : Gen.Select.cmp = .lt ∨ Gen.Select.cmp = .le := by decide
  have hi : Gen.Select.init = .posInf := by decide
  rw [hi]; exact accepts_selectWith _ hc ks

/-- With strict `<` started at `+inf` (`Model.selectUnivariate`, the loop as written today) the
    selected index is the FIRST one attaining the minimum.  Proved of the model, not demanded of
    the code: the harness accepts any minimiser. -/
theorem select_first_min (ks : List (Option (KS ρ))) (i : Nat)
    (h : selectUnivariate (linOrd ρ) ks = some i) :
    ∃ x, ks[i]? = some (some (.val x)) ∧ x < (⊤ : ρ) ∧
      (∀ (j : Nat) (y : ρ), ks[j]? = some (some (KS.val y)) → x ≤ y) ∧
      ∀ j : Nat, j < i → ∀ y : ρ, ks[j]? = some (some (KS.val y)) → x < y :=
  selectUnivariate_first ks i h

omit [LinearOrder ρ] [BoundedOrder ρ] in
/-- `Univariate.fit` fails (in `get_instance(None)`) exactly when no candidate was selected. -/
theorem fit_error_iff_none (o : KSOrd ρ) (c : Cmp) (init : Init) (ks : List (Option (KS ρ))) :
    (∃ e, univariateFit o c init ks = .error e) ↔ selectWith o c init ks = none := by
  unfold univariateFit
  cases selectWith o c init ks <;> simp

/-- non-vacuity / sanity on `Fin 5` (4 = `+inf`): failures and NaN are skipped and the minimum is
    found (no ties here, so this holds for `<` and `<=` alike); an all-unfittable list selects
    nothing; with strict `<` the first of two equal minima wins; the acceptor takes either. -/
example : selectWith (linOrd (Fin 5)) Gen.Select.cmp Gen.Select.init
    [none, some (.val 3), some .nan, some (.val 1), some (.val 2), some (.val 4)] = some 3 := by decide
example : selectWith (linOrd (Fin 5)) Gen.Select.cmp Gen.Select.init [none, some .nan] = none := by decide
example : selectUnivariate (linOrd (Fin 5)) [none, some (.val 3), some (.val 1), some (.val 1)] = some 2 := by
  decide
example : isMinimiser (linOrd (Fin 5)) [none, some (.val 3), some (.val 1), some (.val 1)] 3 = true ∧
    isMinimiser (linOrd (Fin 5)) [none, some (.val 3), some (.val 1), some (.val 1)] 2 = true ∧
    isMinimiser (linOrd (Fin 5)) [none, some (.val 3), some (.val 1), some (.val 1)] 1 = false := by decide

/-! ## Candidate enumeration -/

/-- **Filters, general.**  For every class tree and every filter pair, the recursion
    `_select_candidates` performs over `__subclasses__()` returns exactly the table filter of the
    traversal; membership in a filtered table means: in the table, `ABC` not among the direct
    bases, and each given filter equals the class's tag; order is the traversal order. -/
theorem filter_spec (p : Option ParametricType) (b : Option BoundedType) :
    (∀ t : ClassTree, selectCandidatesTree p b t = selectCandidates (traverse t) p b) ∧
    (∀ (table : List ClassRow) (r : ClassRow), r ∈ selectCandidates table p b ↔
        r ∈ table ∧ r.isABC = false ∧ (∀ p', p = some p' → r.parametric = p') ∧
          (∀ b', b = some b' → r.bounded = b')) ∧
    (∀ table : List ClassRow, (selectCandidates table p b).Sublist table) := by
  refine ⟨fun t => tree_filter p b t, fun table r => ?_, fun table => List.filter_sublist⟩
  simp [selectCandidates, List.mem_filter, passes_iff]

/-- **Filters, generated table.**  The table emitted by the translator is the traversal of the
    emitted tree, and for all 12 filter pairs the tree recursion equals the table filter (kernel
    evaluation on the generated data). -/
theorem filter_generated :
    Gen.Select.table = traverse Gen.Select.tree ∧
    ∀ (p : Option ParametricType) (b : Option BoundedType),
      selectCandidatesTree p b Gen.Select.tree = selectCandidates Gen.Select.table p b := by
  have h : Gen.Select.table = traverse Gen.Select.tree := by decide
  exact ⟨h, fun p b => by rw [h]; exact tree_filter p b _⟩

/-- names of the candidates for a filter pair, over the generated table. -/
def candidateNames (p : Option ParametricType) (b : Option BoundedType) : List String :=
  (selectCandidates Gen.Select.table p b).map (·.name)

/-- **Filters, concrete lists** for all 12 `(parametric, bounded)` pairs (pins the documented tags
    of the 8 shipped families, as `tests/…/test_selection` does). -/
theorem filter_concrete :
    candidateNames none none = ["BetaUnivariate", "GammaUnivariate", "GaussianUnivariate", "GaussianKDE",
      "LogLaplace", "StudentTUnivariate", "TruncatedGaussian", "UniformUnivariate"] ∧
    candidateNames none (some .unbounded) = ["GaussianUnivariate", "GaussianKDE", "StudentTUnivariate"] ∧
    candidateNames none (some .semiBounded) = ["GammaUnivariate", "LogLaplace"] ∧
    candidateNames none (some .bounded) = ["BetaUnivariate", "TruncatedGaussian", "UniformUnivariate"] ∧
    candidateNames (some .nonParametric) none = ["GaussianKDE"] ∧
    candidateNames (some .nonParametric) (some .unbounded) = ["GaussianKDE"] ∧
    candidateNames (some .nonParametric) (some .semiBounded) = [] ∧
    candidateNames (some .nonParametric) (some .bounded) = [] ∧
    candidateNames (some .parametric) none = ["BetaUnivariate", "GammaUnivariate", "GaussianUnivariate",
      "LogLaplace", "StudentTUnivariate", "TruncatedGaussian", "UniformUnivariate"] ∧
    candidateNames (some .parametric) (some .unbounded) = ["GaussianUnivariate", "StudentTUnivariate"] ∧
    candidateNames (some .parametric) (some .semiBounded) = ["GammaUnivariate", "LogLaplace"] ∧
    candidateNames (some .parametric) (some .bounded) =
      ["BetaUnivariate", "TruncatedGaussian", "UniformUnivariate"] := by
  decide

/-- **Explicit candidates win**: a non-empty `candidates` argument is used as is, whatever the
    filters select; `None` uses the filters.  (Quirk recorded by the model: the *empty* list is
    falsy in `candidates or …`, so it also falls back to the filters.) -/
theorem explicit_candidates_win {γ : Type} (c : γ) (cs filtered : List γ) :
    initCandidates (some (c :: cs)) filtered = c :: cs ∧
    initCandidates none filtered = filtered ∧
    initCandidates (some []) filtered = filtered :=
  ⟨rfl, rfl, rfl⟩

/-! ## Per-column configuration and Gaussian fallback -/

/-- **Column configuration.**  A single distribution reference (class, qualified name or instance
    prototype — the model is parametric in what a reference is) is used for every column; a dict
    gives the mapped reference for a named column and the default for the others; the default
    generated from the code is `Univariate`. -/
theorem column_config {χ δ : Type} [BEq χ] (dflt d : δ) (m : List (χ × δ)) (col : χ) :
    getDistributionForColumn dflt (.single d) col = d ∧
    (∀ d', m.lookup col = some d' → getDistributionForColumn dflt (.perColumn m) col = d') ∧
    (m.lookup col = none → getDistributionForColumn dflt (.perColumn m) col = dflt) ∧
    Gen.Select.defaultDistribution = "Univariate" := by
  refine ⟨rfl, fun d' h => ?_, fun h => ?_, by decide⟩ <;> simp [getDistributionForColumn, h]

/-- **Fallback.**  Whenever the configured distribution can be instantiated and a Gaussian can be
    fitted to the column (`fitGaussian = .ok g`), `_fit_column` returns a fitted model: the configured
    one if its `fit` succeeds, the Gaussian one whenever its `fit` raises (whatever it raises). -/
theorem fallback_total {δ ι μ : Type} (getInstance : δ → Except Err ι) (fit : ι → Except Err μ)
    (g : μ) (d : δ) (u : ι) (hinst : getInstance d = .ok u) :
    (∃ m, fitColumn getInstance fit (.ok g) d = .ok m) ∧
    (∀ e, fit u = .error e → fitColumn getInstance fit (.ok g) d = .ok g) ∧
    (∀ m, fit u = .ok m → fitColumn getInstance fit (.ok g) d = .ok m) := by
  unfold fitColumn
  rw [hinst]
  refine ⟨?_, fun e h => by simp [h], fun m h => by simp [h]⟩
  cases h : fit u <;> simp [h]

/-- non-vacuity of `fallback_total`'s hypotheses, and both branches are taken. -/
example : fitColumn (fun (d : Nat) => (.ok d : Except Err Nat))
    (fun u => if u = 0 then .error .valueError else .ok "configured") (.ok "gaussian") 0 = .ok "gaussian" ∧
  fitColumn (fun (d : Nat) => (.ok d : Except Err Nat))
    (fun u => if u = 0 then .error .valueError else .ok "configured") (.ok "gaussian") 1 = .ok "configured" := by
  decide

/-- **Whole fit.**  If every column's configured distribution can be instantiated and a Gaussian
    can be fitted to every column, `_fit_columns` succeeds, keeps the column order, and each column
    is modelled by `fitColumn` of the distribution `getDistributionForColumn` gives for it. -/
theorem fit_columns_total {χ δ ι μ : Type} [BEq χ] (dflt : δ) (cfg : DistConfig χ δ)
    (cols : List (χ × (δ → Except Err ι) × (ι → Except Err μ) × Except Err μ))
    (h : ∀ c ∈ cols, (∃ u, c.2.1 (getDistributionForColumn dflt cfg c.1) = .ok u) ∧ ∃ g, c.2.2.2 = .ok g) :
    ∃ ms : List (χ × μ), fitColumns dflt cfg cols = .ok ms ∧ ms.map (·.1) = cols.map (·.1) ∧
      ∀ cm ∈ cols.zip ms, fitColumn cm.1.2.1 cm.1.2.2.1 cm.1.2.2.2
        (getDistributionForColumn dflt cfg cm.1.1) = .ok cm.2.2 := by
  induction cols with
  | nil => exact ⟨[], rfl, rfl, by simp⟩
  | cons c rest ih =>
    obtain ⟨ms, hms, hnames, hall⟩ := ih (fun c' hc' => h c' (List.mem_cons_of_mem _ hc'))
    obtain ⟨⟨u, hu⟩, g, hg⟩ := h c (List.mem_cons_self ..)
    obtain ⟨col, gi, ft, fg⟩ := c
    simp only at hu hg
    subst hg
    obtain ⟨⟨m, hm⟩, _, _⟩ := fallback_total gi ft g (getDistributionForColumn dflt cfg col) u hu
    refine ⟨(col, m) :: ms, ?_, by simp [hnames], ?_⟩
    · unfold fitColumns at hms ⊢
      simp only [List.mapM_cons, hm, hms]
      rfl
    · intro cm hcm
      simp only [List.zip_cons_cons, List.mem_cons] at hcm
      rcases hcm with rfl | hcm
      · exact hm
      · exact hall cm hcm

/-! ## Fit histories -/

/-- **`fit` does not touch the configuration**: a successful fit returns an object with the same
    `distribution`, whose fitted columns are `fitColumns` of that configuration. -/
theorem fit_preserves_config {χ δ ι μ : Type} [BEq χ] (dflt : δ) (s s' : GMState χ δ μ)
    (frame : Frame χ δ ι μ) (h : gmFit dflt s frame = .ok s') :
    s'.distribution = s.distribution ∧
      ∃ ms, s'.fitted = some ms ∧ fitColumns dflt s.distribution frame = .ok ms := by
  unfold gmFit at h
  cases hf : fitColumns dflt s.distribution frame with
  | error e => rw [hf] at h; cases h
  | ok ms => rw [hf] at h; cases h; exact ⟨rfl, ms, rfl, rfl⟩

/-- **The distribution used is a function of (configuration, column data) only.**  Over any
    history of fits of one object (failed fits included), the configuration at the end is the one
    the user gave, and the outcome of the k-th fit is `fitColumns` of the ORIGINAL configuration on
    the k-th frame — independent of every earlier fit (in particular of earlier fallbacks). -/
theorem history_config_independent {χ δ ι μ : Type} [BEq χ] (dflt : δ) (s : GMState χ δ μ)
    (frames : List (Frame χ δ ι μ)) :
    (gmFitHistory dflt s frames).2.distribution = s.distribution ∧
    (gmFitHistory dflt s frames).1 = frames.map (fitColumns dflt s.distribution) := by
  induction frames generalizing s with
  | nil => exact ⟨rfl, rfl⟩
  | cons f fs ih =>
    unfold gmFitHistory
    cases hg : gmFit dflt s f with
    | error e =>
      obtain ⟨h1, h2⟩ := ih s
      have hf : fitColumns dflt s.distribution f = .error e := by
        unfold gmFit at hg
        cases hf : fitColumns dflt s.distribution f with
        | error e' => rw [hf] at hg; cases hg; rfl
        | ok ms => rw [hf] at hg; cases hg
      simp only [List.map_cons, hf]
      exact ⟨h1, by rw [h2]⟩
    | ok s' =>
      obtain ⟨hd, ms, hms, hf⟩ := fit_preserves_config dflt s s' f hg
      obtain ⟨h1, h2⟩ := ih s'
      simp only [List.map_cons, hf, hms]
      exact ⟨by rw [h1, hd], by rw [h2, hd]⟩

/-- sanity: second fit after a fallback uses the configured distribution again. -/
example :
    let frameBad : Frame String String String String :=
      [("a", fun d => .ok d, fun u => if u = "Picky" then .error .valueError else .ok u, .ok "Gaussian")]
    let frameGood : Frame String String String String :=
      [("a", fun d => .ok d, fun u => .ok u, .ok "Gaussian")]
    (gmFitHistory "Univariate" ⟨.perColumn [("a", "Picky")], none⟩ [frameBad, frameGood]).1
      = [.ok [("a", "Gaussian")], .ok [("a", "Picky")]] := by
  decide

end CopVerif.Props.C05
