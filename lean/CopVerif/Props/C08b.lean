import CopVerif.Real.Bracket
import CopVerif.Props.C08
/-!
# C08b — the lower bracket end `EPSILON` of the generic `percent_point`

Property theorems only.  `Bivariate.percent_point` (Frank, Gumbel) calls
`brentq(lambda u: partial_derivative(u, v) − y, EPSILON, 1)` with `EPSILON = 2⁻²³ = 1/8388608`;
`brentq` needs a sign change on the bracket, i.e. `h(ε,v) ≤ y ≤ h(1,v) = 1`.
`C08.frank_root_exists_unique_partial` proves a unique root in `[0,1]` and leaves `h(ε,v) ≤ y` open.
Here:

* Frank — `h(ε,v) ≤ y` is characterised exactly (`frank_bracket_iff`), it is equivalent to the root
  lying in the bracket (`frank_root_in_bracket_iff`), and it HOLDS on the whole property domain
  (`|θ| ≤ 20 ⊇ |τ| ≤ 0.8`, `y ≥ 10⁻⁴`, `v ∈ [0,1]`): `frank_root_in_code_bracket`.  It fails for
  every `y` below `h(ε,v) > 0` (`frank_bracket_fails_below`), which is outside the domain.
* Gumbel — the root is in the bracket iff `h(ε,v) ≤ y` (`gumbel_root_in_bracket_iff`, with the
  explicit inequality); this holds whenever `ε ≤ y·v` (`gumbel_bracket_valid_of_le`) and FAILS inside
  the property's domain at `θ = 4 (τ = 0.75), y = v = 10⁻⁴` (`gumbel_root_below_bracket_witness`,
  kernel-checked): the recorded known finding `gumbel.percent_point:root-below-bracket`.

`brentq` itself (that it returns a root of a bracketed continuous function) stays an external
hypothesis, as in `C08.frank_generic_ppf_correct`.
-/
namespace CopVerif.Props.C08b
open CopVerif Set

/-! ## Frank -/

/-- EXACT criterion for the lower bracket end (any `ε ∈ [0,1]`, either sign of θ, all real `y, v`):
`h(ε,v) ≤ y ⇔ ((e^{−θε}−1)/(e^{−θ}−1))·(y + (1−y)e^{−θv}) ≤ y`. -/
theorem frank_bracket_iff {θ ε : ℝ} (hθ : θ ≠ 0) (hε : 0 ≤ ε) (hε1 : ε ≤ 1) (y v : ℝ) :
    Gen.Frank.hRow θ ε v ≤ y ↔
      (Real.exp (-θ * ε) - 1) / (Real.exp (-θ) - 1) * (y + (1 - y) * Real.exp (-θ * v)) ≤ y := by
  rw [Frank.bridge_hRow, Bracket.frank_h_le_iff hθ hε hε1]
  simp [Frank.r, Frank.g]

/-- The root of `h(·,v) = y` (`y ≤ 1`) lies in the bracket `[ε,1]` iff `h(ε,v) ≤ y`; it is then the
only root in the bracket. -/
theorem frank_root_in_bracket_iff {θ ε y : ℝ} (hθ : θ ≠ 0) (hε : 0 ≤ ε) (hε1 : ε ≤ 1) (hy1 : y ≤ 1)
    (v : ℝ) :
    ((∃ u, u ∈ Icc ε 1 ∧ Gen.Frank.hRow θ u v = y) ↔ Gen.Frank.hRow θ ε v ≤ y) ∧
    (Gen.Frank.hRow θ ε v ≤ y → ∃! u, u ∈ Icc ε 1 ∧ Gen.Frank.hRow θ u v = y) := by
  simp only [Frank.bridge_hRow]
  refine ⟨⟨?_, fun h => (Bracket.frank_root_in_bracket hθ hε hε1 v h hy1).exists⟩,
    fun h => Bracket.frank_root_in_bracket hθ hε hε1 v h hy1⟩
  rintro ⟨u, hu, rfl⟩
  exact Frank.h_mono_left hθ hε hu.1 hu.2 v

/-- Sufficient condition, either sign of θ: `|θ|ε ≤ 1/2` and `2ε(1+|θ|) ≤ y ≤ 1`, `v ∈ [0,1]`. -/
theorem frank_bracket_valid {θ ε y v : ℝ} (hθ : θ ≠ 0) (hε : 0 ≤ ε) (hε1 : ε ≤ 1)
    (hs : |θ| * ε ≤ 1 / 2) (hy : 2 * ε * (1 + |θ|) ≤ y) (hy1 : y ≤ 1) (hv : 0 ≤ v) (hv1 : v ≤ 1) :
    Gen.Frank.hRow θ ε v ≤ y := by
  rw [Frank.bridge_hRow]; exact Bracket.frank_h_le_of_small hθ hε hε1 hs hy hy1 hv hv1

/-- COMPLETION of `C08.frank_root_exists_unique_partial` on the property's domain.  For Frank with
`0 < |θ| ≤ 20` (this contains `|τ| ≤ 0.8`, i.e. `|θ| ≤ 18.2`), `y ∈ [10⁻⁴, 1]`, `v ∈ [0,1]` and the
code's `EPSILON = 1/8388608`: `h(EPSILON, v) ≤ y`, so the bracket `[EPSILON, 1]` has a sign change
and contains exactly one root of `h(·,v) = y`.  (No Frank analogue of the Gumbel finding.) -/
theorem frank_root_in_code_bracket {θ y v : ℝ} (hθ : θ ≠ 0) (hθb : |θ| ≤ 20)
    (hy : 1 / 10000 ≤ y) (hy1 : y ≤ 1) (hv : 0 ≤ v) (hv1 : v ≤ 1) :
    Gen.Frank.hRow θ (1 / 8388608) v ≤ y ∧
    ∃! u, u ∈ Icc (1 / 8388608 : ℝ) 1 ∧ Gen.Frank.hRow θ u v = y := by
  have h0 : Gen.Frank.hRow θ (1 / 8388608) v ≤ y := by
    have habs := abs_nonneg θ
    refine frank_bracket_valid hθ (by norm_num) (by norm_num) ?_ ?_ hy1 hv hv1
    · linarith
    · linarith
  exact ⟨h0, (frank_root_in_bracket_iff hθ (by norm_num) (by norm_num) hy1 v).2 h0⟩

/-- Outside the domain the bracket does fail: `h(ε,v) > 0` for `ε ∈ (0,1]`, and for every
`y < h(ε,v)` the function `h(·,v) − y` is positive on the whole bracket (no sign change). -/
theorem frank_bracket_fails_below {θ ε : ℝ} (hθ : θ ≠ 0) (hε : 0 < ε) (hε1 : ε ≤ 1) (v : ℝ) :
    0 < Gen.Frank.hRow θ ε v ∧
    ∀ y, y < Gen.Frank.hRow θ ε v → ∀ u ∈ Icc ε 1, y < Gen.Frank.hRow θ u v := by
  simp only [Frank.bridge_hRow]
  refine ⟨?_, fun y hy u hu => Bracket.frank_no_root_in_bracket hθ hε.le v hy hu.1 hu.2⟩
  have := Frank.h_strictMono_left hθ le_rfl hε hε1 v
  rwa [Frank.h_zero_left] at this

/-! ## Gumbel (θ > 1; at θ = 1 `percent_point` takes the independence shortcut) -/

/-- The root of `h(·,v) = y` (`y ≤ 1`, `v ∈ (0,1)`) lies in the bracket `[ε,1]` iff `h(ε,v) ≤ y`, and
this is the explicit inequality
`e^{−S^{1/θ}}·S^{1/θ−1}·(−log v)^{θ−1}/v ≤ y`, `S = (−log ε)^θ + (−log v)^θ`. -/
theorem gumbel_root_in_bracket_iff {θ ε y v : ℝ} (hθ : 1 < θ) (hε : 0 < ε) (hε1 : ε < 1)
    (hv : 0 < v) (hv1 : v < 1) (hy1 : y ≤ 1) :
    ((∃ u, u ∈ Icc ε 1 ∧ Gen.Gumbel.hRow θ u v = y) ↔ Gen.Gumbel.hRow θ ε v ≤ y) ∧
    (Gen.Gumbel.hRow θ ε v ≤ y ↔
      Real.exp (-((-Real.log ε) ^ θ + (-Real.log v) ^ θ) ^ (1 / θ))
        * ((-Real.log ε) ^ θ + (-Real.log v) ^ θ) ^ (-1 + 1 / θ)
        * (-Real.log v) ^ (θ - 1) / v ≤ y) := by
  simp only [Gumbel.bridge_hRow hθ.ne']
  exact ⟨Bracket.gumbel_root_in_bracket_iff hθ.le hε hε1 hv hv1 hy1, Iff.rfl⟩

/-- If `y < h(ε,v)` then `h(·,v) − y > 0` on the whole bracket `[ε,1]` — both ends included, so
`brentq` raises "f(a) and f(b) must have different signs" — and every root in `(0,1)` is `< ε`. -/
theorem gumbel_root_below_bracket {θ ε y v : ℝ} (hθ : 1 < θ) (hε : 0 < ε) (hε1 : ε < 1)
    (hv : 0 < v) (hv1 : v < 1) (hlo : y < Gen.Gumbel.hRow θ ε v) :
    (∀ u ∈ Icc ε 1, y < Gen.Gumbel.hRow θ u v) ∧
    (∀ u₀ ∈ Ioo (0 : ℝ) 1, Gen.Gumbel.hRow θ u₀ v = y → u₀ < ε) := by
  simp only [Gumbel.bridge_hRow hθ.ne'] at hlo ⊢
  refine ⟨fun u hu => Bracket.gumbel_no_root_in_bracket hθ.le hε hε1 hv hv1 hlo hu.1 hu.2, ?_⟩
  intro u₀ hu₀ hroot
  by_contra hge
  have := Bracket.gumbel_no_root_in_bracket hθ.le hε hε1 hv hv1 hlo (not_lt.1 hge) hu₀.2.le
  rw [hroot] at this
  exact lt_irrefl _ this

/-- The bracket is valid whenever `ε ≤ y·v` (because `h(u,v) ≤ C(u,v)/v ≤ u/v`): the region where
the root is below the bracket is contained in `{y·v < ε}`.  On the property's domain
`[10⁻⁴, 1−10⁻⁴]²` with `ε = 2⁻²³ ≈ 1.19·10⁻⁷` that leaves only the corner `y·v < 1.19·10⁻⁷`. -/
theorem gumbel_bracket_valid_of_le {θ ε y v : ℝ} (hθ : 1 < θ) (hε : 0 < ε) (hε1 : ε < 1)
    (hv : 0 < v) (hv1 : v < 1) (hyv : ε ≤ y * v) : Gen.Gumbel.hRow θ ε v ≤ y := by
  rw [Gumbel.bridge_hRow hθ.ne']
  refine (Bracket.gumbel_h_le_div hθ.le hε hε1 hv hv1).trans ?_
  rw [div_le_iff₀ hv]; exact hyv

/-- WITNESS of the known finding `gumbel.percent_point:root-below-bracket`, inside the property's
domain: `θ = 4` (Kendall `τ = 1 − 1/θ = 0.75 ≤ 0.8`), `y = v = 10⁻⁴`, `EPSILON = 1/8388608`.
`h(EPSILON, v) > y` (numerically `1.39·10⁻⁴`), hence `h(·,v) − y > 0` on all of `[EPSILON, 1]`, there
is no root in the bracket and any root lies below `EPSILON`.  Kernel-checked from
`log 2 ∈ (0.6931471803, 0.6931471808)`, `e < 2.7182818286`. -/
theorem gumbel_root_below_bracket_witness :
    (1 / 10000 : ℝ) < Gen.Gumbel.hRow (4 : ℝ) (1 / 8388608) (1 / 10000) ∧
    (∀ u ∈ Icc (1 / 8388608 : ℝ) 1, (1 / 10000 : ℝ) < Gen.Gumbel.hRow (4 : ℝ) u (1 / 10000)) ∧
    ¬ ∃ u, u ∈ Icc (1 / 8388608 : ℝ) 1 ∧ Gen.Gumbel.hRow (4 : ℝ) u (1 / 10000) = 1 / 10000 := by
  have hw : (1 / 10000 : ℝ) < Gen.Gumbel.hRow (4 : ℝ) (1 / 8388608) (1 / 10000) := by
    rw [Gumbel.bridge_hRow (by norm_num)]; exact Bracket.gumbel_witness
  have hall := (gumbel_root_below_bracket (θ := 4) (ε := 1 / 8388608) (v := 1 / 10000)
    (by norm_num) (by norm_num) (by norm_num) (by norm_num) (by norm_num) hw).1
  refine ⟨hw, hall, ?_⟩
  rintro ⟨u, hu, he⟩
  have := hall u hu
  rw [he] at this
  exact lt_irrefl _ this

/-! ## non-vacuity -/

example : Gen.Frank.hRow (18.2 : ℝ) (1 / 8388608) (1 / 10000) ≤ 1 / 10000 :=
  (frank_root_in_code_bracket (by norm_num) (by rw [abs_of_pos] <;> norm_num) le_rfl (by norm_num)
    (by norm_num) (by norm_num)).1

example : Gen.Frank.hRow (-18.2 : ℝ) (1 / 8388608) (9999 / 10000) ≤ 1 / 10000 :=
  (frank_root_in_code_bracket (by norm_num) (by rw [abs_of_neg] <;> norm_num) le_rfl (by norm_num)
    (by norm_num) (by norm_num)).1

/-- Gumbel away from the corner: `y·v = 10⁻⁴·10⁻² ≥ 2⁻²³` -/
example : Gen.Gumbel.hRow (4 : ℝ) (1 / 8388608) (1 / 100) ≤ 1 / 10000 :=
  gumbel_bracket_valid_of_le (by norm_num) (by norm_num) (by norm_num) (by norm_num) (by norm_num)
    (by norm_num)

end CopVerif.Props.C08b
