import CopVerif.Props.C03
import CopVerif.Real.Families
/-!
# C03 (continued) — the scipy-backed families with closed forms, with NO coherence hypothesis

`CopVerif.Props.C03.scipy_model_laws` derives the C03 laws of a fitted `ScipyModel` from the hypothesis
`Uni.FamilyCoherent` ("the four scipy functions at one parameter value are coherent"), which the
harness only validates numerically.  Here that hypothesis is PROVED for the explicit closed forms of
`scipy.stats.uniform`, `norm`, `loglaplace` and `truncnorm` at EVERY admissible parameter value
(`CopVerif/Real/Families.lean`), and fed to the generated forwarding table
(`Gen.UniConst.scipyEval`, `scipyLogPdf`).

Residual assumption of every `*_model_laws` theorem (validated numerically by the harness, family by
family): scipy's `pdf / cdf / ppf / logpdf` at the stored parameters ARE the stated closed forms —
`pdf`, `cdf` at every real `x`, `ppf` on `(0,1)`, `logpdf` where the density is positive (outside
these sets scipy returns `nan` / `−∞`, which have no real value and which no C03 law looks at).
-/
namespace CopVerif.Props.C03c
open CopVerif NumFns Gen.UniConst Uni PIT KDENormal Families Filter Topology MeasureTheory
open ProbabilityTheory

/-- The generic step: if the scipy family evaluated at the stored parameter value `p` IS a closed form
`(pdf, cdf, ppf, logpdf)` that is coherent, the fitted `ScipyModel`'s four queries satisfy the C03
laws and `sample` draws from `rvs` at the same `p` (`C03.scipy_model_laws` with its coherence
hypothesis discharged by a proof about the closed form). -/
theorem closed_form_model_laws {P : Type} (fam : ScipyFn → P → ℝ → ℝ) (attrs : String → P) (p : P)
    {pdf cdf ppf logpdf : ℝ → ℝ} {S : Set ℝ} (hcoh : FamilyCoherent pdf cdf ppf logpdf S)
    (hp : attrs "_params" = p) (hpdf : ∀ x, fam .pdf p x = pdf x) (hcdf : ∀ x, fam .cdf p x = cdf x)
    (hppf : ∀ q, 0 < q → q < 1 → fam .ppf p q = ppf q)
    (hlog : ∀ x, 0 < pdf x → fam .logpdf p x = logpdf x) :
    C03Laws (scipyEval fam attrs .pdf) (scipyEval fam attrs .cdf) (scipyEval fam attrs .ppf)
        (scipyLogPdf fam attrs true) ∧
      attrs (forward .sample).paramAttr = p ∧ (forward .sample).fn = .rvs :=
  C03.scipy_model_laws fam attrs p S hp (hcoh.congr hpdf hcdf hppf hlog rfl)

/-! ## `UniformUnivariate` = `scipy.stats.uniform(loc, scale)` -/

/-- **`scipy.stats.uniform(loc, scale)` is coherent for every `loc` and every `scale > 0`.**
Closed forms (scipy's conventions: CLOSED support, `uniform._pdf = 1` on `[0,1]`, `_cdf(x) = x`,
`_ppf(q) = q`, then the `loc`/`scale` mechanism): `pdf = 1/scale` on `[loc, loc + scale]` else `0`,
`cdf = clamp((x − loc)/scale, 0, 1)`, `ppf q = loc + q·scale`, `logpdf = −log scale` on the support;
the CDF has its two kinks at the end points of the support.
`copulas/univariate/uniform.py` passes exactly `loc = np.min(X)`, `scale = np.max(X) − np.min(X)`
(`_fit`; `_is_constant` is `scale == 0`, `_extract_constant` returns `loc`), so on non-constant data
`scale > 0` (`uniform_fit_admissible`). -/
theorem uniform_family_coherent (loc : ℝ) {scale : ℝ} (hs : 0 < scale) :
    FamilyCoherent (uniformPdf loc scale) (uniformCdf loc scale) (uniformPpf loc scale)
      (uniformLogpdf loc scale) {loc, loc + scale} :=
  uniform_coherent loc hs

/-- the closed forms are what the docstring says they are -/
theorem uniform_closed_forms (loc scale : ℝ) (hs : 0 < scale) (x q : ℝ) :
    (loc ≤ x → x ≤ loc + scale → uniformPdf loc scale x = 1 / scale ∧
        uniformCdf loc scale x = (x - loc) / scale ∧ uniformLogpdf loc scale x = -Real.log scale) ∧
      (x < loc → uniformPdf loc scale x = 0 ∧ uniformCdf loc scale x = 0) ∧
      (loc + scale < x → uniformPdf loc scale x = 0 ∧ uniformCdf loc scale x = 1) ∧
      uniformPpf loc scale q = loc + q * scale := by
  refine ⟨fun h0 h1 => ⟨?_, uniformCdf_of_mem hs h0 h1, ?_⟩, fun h => ⟨?_, uniformCdf_of_le hs h.le⟩,
    fun h => ⟨?_, uniformCdf_of_ge hs h.le⟩, rfl⟩
  · simp [uniformPdf, h0, h1]
  · simp [uniformLogpdf, h0, h1]
  · simp [uniformPdf, not_le.mpr h]
  · simp [uniformPdf, not_le.mpr h]

/-- `UniformUnivariate._fit` (`loc = np.min(X)`, `scale = np.max(X) − np.min(X)`, read from
`uniform.py`; `np.min/np.max` are the generated `listMin/listMax`) yields an admissible parameter
value, `scale > 0`, on every sample with two distinct values, and `loc ≤ x ≤ loc + scale` for every
data point (the data lie in the fitted support). -/
theorem uniform_fit_admissible {xs : List ℝ} {a b : ℝ} (ha : a ∈ xs) (hb : b ∈ xs) (hab : a ≠ b) :
    0 < listMax xs - listMin xs ∧
      ∀ x ∈ xs, listMin xs ≤ x ∧ x ≤ listMin xs + (listMax xs - listMin xs) := by
  have h1 := KDE.listMin_le ha
  have h2 := KDE.listMin_le hb
  have h3 := KDE.le_listMax ha
  have h4 := KDE.le_listMax hb
  refine ⟨?_, fun x hx => ⟨KDE.listMin_le hx, by linarith [KDE.le_listMax hx]⟩⟩
  rcases lt_or_gt_of_ne hab with h | h <;> linarith

/-- **C03 for a fitted `UniformUnivariate`, no coherence hypothesis.**  If `self._params` holds
`(loc, scale)` with `scale > 0` and scipy's `uniform` functions at that value are the closed forms,
then `probability_density / cumulative_distribution / percent_point / log_probability_density`
satisfy ALL C03 laws (monotone CDF in `[0,1]` with limits `0, 1`; `pdf ≥ 0`;
`∫_a^b pdf = cdf b − cdf a`; `ppf` monotone, `cdf(ppf q) = q` on `(0,1)`, `ppf(cdf x) = x` where the CDF
increases strictly from the left; `logpdf = log pdf` where `pdf > 0`), and `sample` uses the same
parameters.  Residual assumption: the four `h…` hypotheses (scipy IS the closed form). -/
theorem uniform_model_laws {P : Type} (fam : ScipyFn → P → ℝ → ℝ) (attrs : String → P) (p : P)
    (loc : ℝ) {scale : ℝ} (hs : 0 < scale) (hp : attrs "_params" = p)
    (hpdf : ∀ x, fam .pdf p x = uniformPdf loc scale x)
    (hcdf : ∀ x, fam .cdf p x = uniformCdf loc scale x)
    (hppf : ∀ q, 0 < q → q < 1 → fam .ppf p q = uniformPpf loc scale q)
    (hlog : ∀ x, 0 < uniformPdf loc scale x → fam .logpdf p x = uniformLogpdf loc scale x) :
    C03Laws (scipyEval fam attrs .pdf) (scipyEval fam attrs .cdf) (scipyEval fam attrs .ppf)
        (scipyLogPdf fam attrs true) ∧
      attrs (forward .sample).paramAttr = p ∧ (forward .sample).fn = .rvs :=
  closed_form_model_laws fam attrs p (uniform_coherent loc hs) hp hpdf hcdf hppf hlog

/-- the two headline laws for the uniform closed forms themselves, spelled out:
`∫_a^b pdf = cdf b − cdf a` on every interval and the exact round trip `cdf(ppf q) = q` on `(0,1)`. -/
theorem uniform_integral_and_round_trip (loc : ℝ) {scale : ℝ} (hs : 0 < scale) :
    (∀ a b, a ≤ b → ∫ x in a..b, uniformPdf loc scale x = uniformCdf loc scale b - uniformCdf loc scale a) ∧
      (∀ q, 0 < q → q < 1 → uniformCdf loc scale (uniformPpf loc scale q) = q) ∧
      (∀ x, loc < x → x < loc + scale → uniformPpf loc scale (uniformCdf loc scale x) = x) := by
  have L := (uniform_coherent loc hs).laws
  refine ⟨L.pdf_integral, L.cdf_ppf, fun x h0 h1 => ?_⟩
  rw [uniformCdf_of_mem hs h0.le h1.le, uniformPpf]
  field_simp
  ring

/-- non-vacuity at `loc = 2`, `scale = 3`: the family is coherent, the model-law hypotheses are
satisfied by the closed forms themselves, and concrete values are what scipy returns
(`uniform.cdf(3.5, 2, 3) = 0.5`, `uniform.ppf(0.5, 2, 3) = 3.5`, `uniform.pdf(3.5, 2, 3) = 1/3`). -/
example :
    FamilyCoherent (uniformPdf 2 3) (uniformCdf 2 3) (uniformPpf 2 3) (uniformLogpdf 2 3) {2, 2 + 3} ∧
      uniformCdf 2 3 3.5 = 0.5 ∧ uniformPpf 2 3 0.5 = 3.5 ∧ uniformPdf 2 3 3.5 = 1 / 3 := by
  refine ⟨uniform_family_coherent 2 (by norm_num), ?_, ?_, ?_⟩
  · rw [uniformCdf_of_mem (by norm_num) (by norm_num) (by norm_num)]; norm_num
  · norm_num [uniformPpf]
  · have : (2 : ℝ) ≤ 3.5 ∧ (3.5 : ℝ) ≤ 2 + 3 := by constructor <;> norm_num
    simp [uniformPdf, this]

/-- non-vacuity of `uniform_model_laws`: the family `fam fn (loc, scale)` built from the closed forms
with the parameters `(2, 3)` stored under `"_params"`. -/
example :
    C03Laws
      (scipyEval (fun fn (p : ℝ × ℝ) => match fn with
        | .pdf => uniformPdf p.1 p.2 | .cdf => uniformCdf p.1 p.2 | .ppf => uniformPpf p.1 p.2
        | .logpdf => uniformLogpdf p.1 p.2 | .rvs => fun _ => 0) (fun _ => (2, 3)) .pdf)
      (scipyEval (fun fn (p : ℝ × ℝ) => match fn with
        | .pdf => uniformPdf p.1 p.2 | .cdf => uniformCdf p.1 p.2 | .ppf => uniformPpf p.1 p.2
        | .logpdf => uniformLogpdf p.1 p.2 | .rvs => fun _ => 0) (fun _ => (2, 3)) .cdf)
      (scipyEval (fun fn (p : ℝ × ℝ) => match fn with
        | .pdf => uniformPdf p.1 p.2 | .cdf => uniformCdf p.1 p.2 | .ppf => uniformPpf p.1 p.2
        | .logpdf => uniformLogpdf p.1 p.2 | .rvs => fun _ => 0) (fun _ => (2, 3)) .ppf)
      (scipyLogPdf (fun fn (p : ℝ × ℝ) => match fn with
        | .pdf => uniformPdf p.1 p.2 | .cdf => uniformCdf p.1 p.2 | .ppf => uniformPpf p.1 p.2
        | .logpdf => uniformLogpdf p.1 p.2 | .rvs => fun _ => 0) (fun _ => (2, 3)) true) :=
  (uniform_model_laws _ (fun _ => ((2 : ℝ), (3 : ℝ))) (2, 3) 2 (scale := 3) (by norm_num) rfl
    (fun _ => rfl) (fun _ => rfl) (fun _ _ _ => rfl) (fun _ _ => rfl)).1

/-- non-vacuity of `uniform_fit_admissible`. -/
example : 0 < listMax [(1 : ℝ), 4, 2] - listMin [(1 : ℝ), 4, 2] :=
  (uniform_fit_admissible (xs := [1, 4, 2]) (a := 1) (b := 4) (by simp) (by simp) (by norm_num)).1

/-! ## `GaussianUnivariate` = `scipy.stats.norm(loc, scale)` -/

/-- **`scipy.stats.norm(loc, scale)` is coherent for every `loc` and every `scale > 0`.**
Closed forms: `pdf = exp(−y²/2)/√(2π)/scale`, `y = (x − loc)/scale` (= Mathlib's
`gaussianPDFReal loc scale²`, `norm_closed_forms`); `cdf = Φ(y)` with `Φ = cdf (gaussianReal 0 1)`,
the TRUE standard normal distribution function of `Props/C03b` (= `cdf (gaussianReal loc scale²)`);
`ppf q = loc + scale·Φ⁻¹(q)` with `Φ⁻¹` the inverse of the strictly increasing continuous bijection
`Φ : ℝ → (0,1)`; `logpdf = −y²/2 − log √(2π) − log scale`.  The CDF is differentiable everywhere (no
kinks).  `copulas/univariate/gaussian.py` passes `loc = np.mean(X)`, `scale = np.std(X)`
(`norm_fit_admissible`). -/
theorem norm_family_coherent (loc : ℝ) {scale : ℝ} (hs : 0 < scale) :
    FamilyCoherent (normPdf loc scale) (normCdf loc scale) (normPpf loc scale)
      (normLogpdf loc scale) ∅ :=
  norm_coherent loc hs

/-- The closed forms are Mathlib's Gaussian law with mean `loc` and variance `scale²`: the density is
`gaussianPDFReal`, the CDF is the distribution function of the measure `gaussianReal`, `logpdf` is the
logarithm of the density at EVERY `x`, and `ppf` is the two-sided inverse of the CDF between `ℝ` and
`(0,1)` (so it is uniquely determined). -/
theorem norm_closed_forms (loc : ℝ) {scale : ℝ} (hs : 0 < scale) :
    (∀ x, normPdf loc scale x = gaussianPDFReal loc (NNReal.mk (scale ^ 2) (sq_nonneg scale)) x) ∧
      (∀ x, normCdf loc scale x = cdf (gaussianReal loc (NNReal.mk (scale ^ 2) (sq_nonneg scale))) x) ∧
      (∀ x, 0 < normPdf loc scale x ∧ normLogpdf loc scale x = Real.log (normPdf loc scale x)) ∧
      (∀ x, 0 < normCdf loc scale x ∧ normCdf loc scale x < 1 ∧
        normPpf loc scale (normCdf loc scale x) = x) ∧
      (∀ q, 0 < q → q < 1 → normCdf loc scale (normPpf loc scale q) = q) ∧
      StrictMono (normCdf loc scale) := by
  refine ⟨normPdf_eq_gaussianPDFReal loc hs, normCdf_eq_cdf_gaussianReal loc hs, fun x => ?_,
    fun x => ⟨stdPhi_pos _, stdPhi_lt_one _, normPpf_normCdf loc hs x⟩,
    fun q h0 h1 => normCdf_normPpf loc hs h0 h1, fun x y hxy => ?_⟩
  · have hpos : 0 < normPdf loc scale x := by
      rw [normPdf_eq_gaussianPDFReal loc hs]
      apply gaussianPDFReal_pos
      intro h
      have := congrArg NNReal.toReal h
      simp only [NNReal.coe_mk, NNReal.coe_zero] at this
      exact hs.ne' ((pow_eq_zero_iff two_ne_zero).mp this)
    exact ⟨hpos, (norm_coherent loc hs).logpdf_eq x hpos⟩
  · exact stdPhi_strictMono (div_lt_div_of_pos_right (by linarith) hs)

/-- `GaussianUnivariate._fit` (`loc = np.mean(X)`, `scale = np.std(X)`, read from `gaussian.py`;
`np.std` is the generated `popStd`) yields an admissible parameter value, `scale > 0`, on every sample
with two distinct values. -/
theorem norm_fit_admissible {xs : List ℝ} {a b : ℝ} (ha : a ∈ xs) (hb : b ∈ xs) (hab : a ≠ b) :
    0 < popStd xs :=
  popStd_pos_of_ne ha hb hab

/-- **C03 for a fitted `GaussianUnivariate`, no coherence hypothesis.**  If `self._params` holds
`(loc, scale)` with `scale > 0` and scipy's `norm` functions at that value are the closed forms, all
C03 laws hold for the four queries and `sample` uses the same parameters.  Residual assumption: the
four `h…` hypotheses (scipy's `norm` IS the Gaussian law `gaussianReal loc scale²`). -/
theorem norm_model_laws {P : Type} (fam : ScipyFn → P → ℝ → ℝ) (attrs : String → P) (p : P)
    (loc : ℝ) {scale : ℝ} (hs : 0 < scale) (hp : attrs "_params" = p)
    (hpdf : ∀ x, fam .pdf p x = normPdf loc scale x)
    (hcdf : ∀ x, fam .cdf p x = normCdf loc scale x)
    (hppf : ∀ q, 0 < q → q < 1 → fam .ppf p q = normPpf loc scale q)
    (hlog : ∀ x, 0 < normPdf loc scale x → fam .logpdf p x = normLogpdf loc scale x) :
    C03Laws (scipyEval fam attrs .pdf) (scipyEval fam attrs .cdf) (scipyEval fam attrs .ppf)
        (scipyLogPdf fam attrs true) ∧
      attrs (forward .sample).paramAttr = p ∧ (forward .sample).fn = .rvs :=
  closed_form_model_laws fam attrs p (norm_coherent loc hs) hp hpdf hcdf hppf hlog

/-- the headline laws for the Gaussian closed forms, spelled out: the integral of the density is the
CDF increment on every interval; both round trips hold EVERYWHERE (the density is positive on ℝ). -/
theorem norm_integral_and_round_trip (loc : ℝ) {scale : ℝ} (hs : 0 < scale) :
    (∀ a b, a ≤ b → ∫ x in a..b, normPdf loc scale x = normCdf loc scale b - normCdf loc scale a) ∧
      (∀ q, 0 < q → q < 1 → normCdf loc scale (normPpf loc scale q) = q) ∧
      (∀ x, normPpf loc scale (normCdf loc scale x) = x) :=
  ⟨(norm_coherent loc hs).laws.pdf_integral, (norm_coherent loc hs).laws.cdf_ppf,
    normPpf_normCdf loc hs⟩

/-- non-vacuity at `loc = 2`, `scale = 3`: coherent, and the median is the mean
(`norm.cdf(2, 2, 3) = 0.5`, `norm.ppf(0.5, 2, 3) = 2`). -/
example :
    FamilyCoherent (normPdf 2 3) (normCdf 2 3) (normPpf 2 3) (normLogpdf 2 3) ∅ ∧
      normCdf 2 3 2 = 1 / 2 ∧ normPpf 2 3 (1 / 2) = 2 := by
  refine ⟨norm_family_coherent 2 (by norm_num), ?_, ?_⟩
  · simp [normCdf, stdPhi_zero]
  · rw [normPpf, stdPhiInv_half]; norm_num

/-- non-vacuity of `norm_fit_admissible`. -/
example : 0 < popStd [(1 : ℝ), 4, 2] :=
  norm_fit_admissible (xs := [1, 4, 2]) (a := 1) (b := 4) (by simp) (by simp) (by norm_num)

/-! ## `LogLaplace` = `scipy.stats.loglaplace(c, loc, scale)` -/

/-- **`scipy.stats.loglaplace(c, loc, scale)` is coherent for every `c > 0`, `loc`, `scale > 0`.**
Closed forms with `y = (x − loc)/scale` (scipy's `_pdf/_cdf/_ppf`, generic `_logpdf = log ∘ _pdf`):
`pdf = c/2·y^(c−1)/scale` for `0 ≤ y < 1`, `c/2·y^(−c−1)/scale` for `y ≥ 1`, `0` for `y < 0`;
`cdf = y^c/2` for `0 < y < 1`, `1 − y^(−c)/2` for `y ≥ 1`, `0` for `y ≤ 0`;
`ppf q = loc + scale·(2q)^(1/c)` for `q < 1/2`, `loc + scale·(2(1−q))^(−1/c)` otherwise;
`logpdf = log(_pdf y) − log scale`.  `S = {loc, loc + scale}` (the CDF need not be differentiable at
`y = 0` when `c ≤ 1`).  `copulas/univariate/log_laplace.py` passes `c, loc, scale = loglaplace.fit(X)`
(scipy's own MLE, which returns `c > 0`, `scale > 0`; NOT modelled here).  At the single point `x = loc`
scipy's density is `+∞` when `c < 1`; the closed form has Lean's `0^(c−1) = 0` there. -/
theorem loglaplace_family_coherent {c : ℝ} (hc : 0 < c) (loc : ℝ) {scale : ℝ} (hs : 0 < scale) :
    FamilyCoherent (loglaplacePdf c loc scale) (loglaplaceCdf c loc scale)
      (loglaplacePpf c loc scale) (loglaplaceLogpdf c loc scale) {loc, loc + scale} :=
  loglaplace_coherent hc loc hs

/-- the closed forms are what the docstring says they are (`y = (x − loc)/scale`) -/
theorem loglaplace_closed_forms (c loc : ℝ) {scale : ℝ} (hs : 0 < scale) (x q : ℝ) :
    (0 < (x - loc) / scale → (x - loc) / scale < 1 →
        loglaplacePdf c loc scale x = c / 2 * ((x - loc) / scale) ^ (c - 1) / scale ∧
        loglaplaceCdf c loc scale x = ((x - loc) / scale) ^ c / 2) ∧
      (1 ≤ (x - loc) / scale →
        loglaplacePdf c loc scale x = c / 2 * ((x - loc) / scale) ^ (-c - 1) / scale ∧
        loglaplaceCdf c loc scale x = 1 - ((x - loc) / scale) ^ (-c) / 2) ∧
      ((x - loc) / scale < 0 → loglaplacePdf c loc scale x = 0 ∧ loglaplaceCdf c loc scale x = 0) ∧
      (q < 1 / 2 → loglaplacePpf c loc scale q = loc + scale * (2 * q) ^ (1 / c)) ∧
      (1 / 2 ≤ q → loglaplacePpf c loc scale q = loc + scale * (2 * (1 - q)) ^ (-1 / c)) ∧
      loglaplaceLogpdf c loc scale x =
        Real.log (loglaplacePdf c loc scale x * scale) - Real.log scale := by
  refine ⟨fun h0 h1 => ⟨?_, llCdf_of_lt_one c h0 h1⟩, fun h1 => ⟨?_, llCdf_of_one_le c h1⟩,
    fun h0 => ⟨?_, llCdf_of_nonpos c h0.le⟩, fun hq => ?_, fun hq => ?_, ?_⟩
  · simp [loglaplacePdf, llPdf, not_lt.mpr h0.le, h1]
  · simp [loglaplacePdf, llPdf, not_lt.mpr (le_trans zero_le_one h1), not_lt.mpr h1]
  · simp [loglaplacePdf, llPdf, h0]
  · rw [loglaplacePpf, llPpf, if_pos hq]
  · rw [loglaplacePpf, llPpf, if_neg (not_lt.mpr hq)]
  · rw [loglaplaceLogpdf, loglaplacePdf, div_mul_cancel₀ _ hs.ne']

/-- **C03 for a fitted `LogLaplace`, no coherence hypothesis.**  If `self._params` holds
`(c, loc, scale)` with `c > 0`, `scale > 0` and scipy's `loglaplace` functions at that value are the
closed forms, all C03 laws hold for the four queries and `sample` uses the same parameters.
Residual assumption: the four `h…` hypotheses (for `c < 1` the density hypothesis at the one point
`x = loc`, where scipy returns `+∞`, is about the real value the model assigns there). -/
theorem loglaplace_model_laws {P : Type} (fam : ScipyFn → P → ℝ → ℝ) (attrs : String → P) (p : P)
    {c : ℝ} (hc : 0 < c) (loc : ℝ) {scale : ℝ} (hs : 0 < scale) (hp : attrs "_params" = p)
    (hpdf : ∀ x, fam .pdf p x = loglaplacePdf c loc scale x)
    (hcdf : ∀ x, fam .cdf p x = loglaplaceCdf c loc scale x)
    (hppf : ∀ q, 0 < q → q < 1 → fam .ppf p q = loglaplacePpf c loc scale q)
    (hlog : ∀ x, 0 < loglaplacePdf c loc scale x →
      fam .logpdf p x = loglaplaceLogpdf c loc scale x) :
    C03Laws (scipyEval fam attrs .pdf) (scipyEval fam attrs .cdf) (scipyEval fam attrs .ppf)
        (scipyLogPdf fam attrs true) ∧
      attrs (forward .sample).paramAttr = p ∧ (forward .sample).fn = .rvs :=
  closed_form_model_laws fam attrs p (loglaplace_coherent hc loc hs) hp hpdf hcdf hppf hlog

/-- the headline laws for the log-Laplace closed forms, spelled out (the density is unbounded near
`loc` when `c < 1`; it is still integrable and integrates to the CDF increment). -/
theorem loglaplace_integral_and_round_trip {c : ℝ} (hc : 0 < c) (loc : ℝ) {scale : ℝ}
    (hs : 0 < scale) :
    (∀ a b, a ≤ b → ∫ x in a..b, loglaplacePdf c loc scale x =
        loglaplaceCdf c loc scale b - loglaplaceCdf c loc scale a) ∧
      (∀ q, 0 < q → q < 1 → loglaplaceCdf c loc scale (loglaplacePpf c loc scale q) = q) ∧
      (∀ q₁ q₂, 0 < q₁ → q₁ ≤ q₂ → q₂ < 1 →
        loglaplacePpf c loc scale q₁ ≤ loglaplacePpf c loc scale q₂) :=
  ⟨(loglaplace_coherent hc loc hs).laws.pdf_integral, (loglaplace_coherent hc loc hs).laws.cdf_ppf,
    (loglaplace_coherent hc loc hs).laws.ppf_mono⟩

/-- non-vacuity at `c = 1/2` (unbounded density), `loc = 2`, `scale = 3`: coherent, and the median is
`loc + scale` (`loglaplace.cdf(5, 0.5, 2, 3) = 0.5`, `loglaplace.ppf(0.5, 0.5, 2, 3) = 5`). -/
example :
    FamilyCoherent (loglaplacePdf (1 / 2) 2 3) (loglaplaceCdf (1 / 2) 2 3) (loglaplacePpf (1 / 2) 2 3)
        (loglaplaceLogpdf (1 / 2) 2 3) {2, 2 + 3} ∧
      loglaplaceCdf (1 / 2) 2 3 5 = 1 / 2 ∧ loglaplacePpf (1 / 2) 2 3 (1 / 2) = 5 := by
  refine ⟨loglaplace_family_coherent (by norm_num) 2 (by norm_num), ?_, ?_⟩
  · have e : ((5 : ℝ) - 2) / 3 = 1 := by norm_num
    rw [loglaplaceCdf, e, llCdf_of_one_le _ le_rfl, Real.one_rpow]; norm_num
  · have e : (2 : ℝ) * (1 - 1 / 2) = 1 := by norm_num
    rw [loglaplacePpf, llPpf, if_neg (lt_irrefl _), e, Real.one_rpow]; norm_num

/-! ## `TruncatedGaussian` = `scipy.stats.truncnorm(a, b, loc, scale)` -/

/-- **`scipy.stats.truncnorm(a, b, loc, scale)` is coherent for every `a < b`, `loc`, `scale > 0`.**
Closed forms with `y = (x − loc)/scale`, `Φ = cdf (gaussianReal 0 1)`, `φ = gaussianPDFReal 0 1`,
`D = Φ(b) − Φ(a)` (`_log_gauss_mass`): `pdf = φ(y)/D/scale` on `a ≤ y ≤ b`, else `0`;
`cdf = (Φ(y) − Φ(a))/D` on `[a, b]`, `0` below, `1` above; `ppf q = loc + scale·Φ⁻¹(Φ(a) + q·D)`
(scipy's right-hand branch `−Φ⁻¹(Φ(−b) + (1 − q)·D)` is the same number: `truncnorm_ppf_right_branch`);
`logpdf = −y²/2 − log √(2π) − log D − log scale`.  Kinks of the CDF at the two end points.
`copulas/univariate/truncated_gaussian.py` passes `a = (min − loc)/scale`, `b = (max − loc)/scale`
with `(loc, scale)` from `fmin_slsqp` (NOT modelled): `truncnorm_fit_admissible`. -/
theorem truncnorm_family_coherent {a b : ℝ} (hab : a < b) (loc : ℝ) {scale : ℝ} (hs : 0 < scale) :
    FamilyCoherent (truncnormPdf a b loc scale) (truncnormCdf a b loc scale)
      (truncnormPpf a b loc scale) (truncnormLogpdf a b loc scale)
      {loc + scale * a, loc + scale * b} :=
  truncnorm_coherent hab loc hs

/-- the closed forms are what the docstring says they are (`y = (x − loc)/scale`) -/
theorem truncnorm_closed_forms {a b : ℝ} (hab : a < b) (loc scale x q : ℝ) :
    (a ≤ (x - loc) / scale → (x - loc) / scale ≤ b →
        truncnormPdf a b loc scale x =
          gaussianPDFReal 0 1 ((x - loc) / scale) / (stdPhi b - stdPhi a) / scale ∧
        truncnormCdf a b loc scale x =
          (stdPhi ((x - loc) / scale) - stdPhi a) / (stdPhi b - stdPhi a)) ∧
      ((x - loc) / scale < a → truncnormPdf a b loc scale x = 0 ∧ truncnormCdf a b loc scale x = 0) ∧
      (b < (x - loc) / scale → truncnormPdf a b loc scale x = 0 ∧ truncnormCdf a b loc scale x = 1) ∧
      truncnormPpf a b loc scale q = loc + scale * stdPhiInv (stdPhi a + q * (stdPhi b - stdPhi a)) ∧
      truncnormLogpdf a b loc scale x =
        -((x - loc) / scale) ^ 2 / 2 - Real.log (Real.sqrt (2 * Real.pi)) -
          Real.log (stdPhi b - stdPhi a) - Real.log scale := by
  have hD : 0 < stdPhi b - stdPhi a := sub_pos.mpr (stdPhi_strictMono hab)
  have hm : Monotone stdPhi := stdPhi_strictMono.monotone
  refine ⟨fun h0 h1 => ⟨?_, truncCdf_of_mem hm hD h0 h1⟩, fun h0 => ⟨?_, truncCdf_of_le hm hD h0.le⟩,
    fun h1 => ⟨?_, truncCdf_of_ge hm hD h1.le⟩, rfl, rfl⟩
  · simp [truncnormPdf, tnPdf, h0, h1]
  · simp [truncnormPdf, tnPdf, not_le.mpr h0]
  · simp [truncnormPdf, tnPdf, not_le.mpr h1]

/-- scipy evaluates the quantile for `a ≥ 0` through the upper tail,
`−Φ⁻¹(Φ(−b) + (1 − q)·D)`; by the symmetry `Φ(−z) = 1 − Φ(z)` this is the same real number as the
left-hand formula `Φ⁻¹(Φ(a) + q·D)` used in the closed form. -/
theorem truncnorm_ppf_right_branch {a b : ℝ} (hab : a < b) {q : ℝ} (h0 : 0 < q) (h1 : q < 1) :
    -stdPhiInv (stdPhi (-b) + (1 - q) * (stdPhi b - stdPhi a)) = tnPpf a b q := by
  have hD : 0 < stdPhi b - stdPhi a := sub_pos.mpr (stdPhi_strictMono hab)
  have hsym := stdPhi_add_stdPhi_neg b
  have ha := stdPhi_nonneg a
  have hb := stdPhi_le_one b
  have hqD : 0 < q * (stdPhi b - stdPhi a) := mul_pos h0 hD
  have hqD' : q * (stdPhi b - stdPhi a) < 1 * (stdPhi b - stdPhi a) := mul_lt_mul_of_pos_right h1 hD
  set t := stdPhi a + q * (stdPhi b - stdPhi a) with ht
  have ht0 : 0 < t := by linarith
  have ht1 : t < 1 := by linarith
  have e : stdPhi (-b) + (1 - q) * (stdPhi b - stdPhi a) = 1 - t := by rw [ht]; linarith
  rw [e, tnPpf, ← ht]
  apply stdPhi_strictMono.injective
  have h2 := stdPhi_add_stdPhi_neg (stdPhiInv (1 - t))
  rw [stdPhi_stdPhiInv (by linarith) (by linarith)] at h2
  rw [stdPhi_stdPhiInv ht0 ht1]
  linarith

/-- `TruncatedGaussian._fit` passes `a = (min − loc)/scale`, `b = (max − loc)/scale` (read from
`truncated_gaussian.py`): for `min < max` and `scale > 0` this is admissible (`a < b`) and the two
kinks — the end points of the fitted support — are exactly `min` and `max`. -/
theorem truncnorm_fit_admissible {mn mx loc scale : ℝ} (hs : 0 < scale) (h : mn < mx) :
    (mn - loc) / scale < (mx - loc) / scale ∧
      loc + scale * ((mn - loc) / scale) = mn ∧ loc + scale * ((mx - loc) / scale) = mx := by
  refine ⟨div_lt_div_of_pos_right (by linarith) hs, ?_, ?_⟩ <;> field_simp <;> ring

/-- **C03 for a fitted `TruncatedGaussian`, no coherence hypothesis.**  If `self._params` holds
`(a, b, loc, scale)` with `a < b`, `scale > 0` and scipy's `truncnorm` functions at that value are the
closed forms, all C03 laws hold for the four queries and `sample` uses the same parameters.
Residual assumption: the four `h…` hypotheses. -/
theorem truncnorm_model_laws {P : Type} (fam : ScipyFn → P → ℝ → ℝ) (attrs : String → P) (p : P)
    {a b : ℝ} (hab : a < b) (loc : ℝ) {scale : ℝ} (hs : 0 < scale) (hp : attrs "_params" = p)
    (hpdf : ∀ x, fam .pdf p x = truncnormPdf a b loc scale x)
    (hcdf : ∀ x, fam .cdf p x = truncnormCdf a b loc scale x)
    (hppf : ∀ q, 0 < q → q < 1 → fam .ppf p q = truncnormPpf a b loc scale q)
    (hlog : ∀ x, 0 < truncnormPdf a b loc scale x →
      fam .logpdf p x = truncnormLogpdf a b loc scale x) :
    C03Laws (scipyEval fam attrs .pdf) (scipyEval fam attrs .cdf) (scipyEval fam attrs .ppf)
        (scipyLogPdf fam attrs true) ∧
      attrs (forward .sample).paramAttr = p ∧ (forward .sample).fn = .rvs :=
  closed_form_model_laws fam attrs p (truncnorm_coherent hab loc hs) hp hpdf hcdf hppf hlog

/-- the headline laws for the truncated-normal closed forms, spelled out -/
theorem truncnorm_integral_and_round_trip {a b : ℝ} (hab : a < b) (loc : ℝ) {scale : ℝ}
    (hs : 0 < scale) :
    (∀ u v, u ≤ v → ∫ x in u..v, truncnormPdf a b loc scale x =
        truncnormCdf a b loc scale v - truncnormCdf a b loc scale u) ∧
      (∀ q, 0 < q → q < 1 → truncnormCdf a b loc scale (truncnormPpf a b loc scale q) = q) ∧
      (∀ q₁ q₂, 0 < q₁ → q₁ ≤ q₂ → q₂ < 1 →
        truncnormPpf a b loc scale q₁ ≤ truncnormPpf a b loc scale q₂) :=
  ⟨(truncnorm_coherent hab loc hs).laws.pdf_integral, (truncnorm_coherent hab loc hs).laws.cdf_ppf,
    (truncnorm_coherent hab loc hs).laws.ppf_mono⟩

/-- non-vacuity at `a = −1`, `b = 1`, `loc = 2`, `scale = 3` (support `[−1, 5]`): coherent, and the
median is `loc` (`truncnorm.cdf(2, -1, 1, 2, 3) = 0.5`). -/
example :
    FamilyCoherent (truncnormPdf (-1) 1 2 3) (truncnormCdf (-1) 1 2 3) (truncnormPpf (-1) 1 2 3)
        (truncnormLogpdf (-1) 1 2 3) {2 + 3 * (-1), 2 + 3 * 1} ∧
      truncnormCdf (-1) 1 2 3 2 = 1 / 2 := by
  refine ⟨truncnorm_family_coherent (by norm_num) 2 (by norm_num), ?_⟩
  have hD : 0 < stdPhi 1 - stdPhi (-1) := sub_pos.mpr (stdPhi_strictMono (by norm_num))
  have e : ((2 : ℝ) - 2) / 3 = 0 := by norm_num
  have hsym := stdPhi_add_stdPhi_neg 1
  rw [truncnormCdf, tnCdf, e,
    truncCdf_of_mem stdPhi_strictMono.monotone hD (by norm_num) (by norm_num), stdPhi_zero,
    div_eq_iff hD.ne']
  linarith

/-- non-vacuity of `truncnorm_fit_admissible`. -/
example : ((-1 : ℝ) - 2) / 3 < (5 - 2) / 3 :=
  (truncnorm_fit_admissible (mn := -1) (mx := 5) (loc := 2) (scale := 3) (by norm_num)
    (by norm_num)).1

end CopVerif.Props.C03c
