import CopVerif.Real.FrankTau
import CopVerif.Props.C10b
/-!
# C10c — the Frank calibration map `τ(θ)`: symmetry, monotonicity, range, existence and uniqueness

Property theorems only.  They complete `C10.frank_tau_monotone_partial` /
`C10.frank_theta_unique_partial` for the IDEAL calibration

  `τ(θ) = 1 + 4 (D₁(θ) − 1)/θ`,  `D₁(θ) = (1/θ) ∫₀^θ s/(eˢ−1) ds`,

written below with the GENERATED Debye integrand `Gen.Frank.debyeIntegrand` and the exact interval
integral, lower limit `0`.  By `C10b.frank_generator_tau` this `τ(θ)` is the Kendall-tau functional
`1 + 4 ∫₀¹ φ/φ'` of the generated Frank generator; by `frank_ideal_residual` it is what the GENERATED
residual `Gen.Frank.tauResidual` computes when `integrate.quad` is exact and its lower limit is `0`.

DIFFERENCE TO THE CODE.  `Frank._tau_to_theta` passes `EPSILON = 2⁻²³` as lower limit, not `0`.  The
code's map is therefore `τ_ε(θ) = τ(θ) − 4 (∫₀^ε s/(eˢ−1) ds)/θ²` (`frank_code_tau_shift`): it lies
strictly below `τ(θ)`, by at most `4ε/θ²` — negligible for `|θ| ≫ √ε`, dominant for `|θ| ≲ √ε`.  This
is the recorded known finding `frank.fit:calibration-inaccurate-near-zero-tau`;
`frank_code_positive_root_exists_unique` / `frank_code_spurious_root` prove its mechanism: on the
positive branch the code's residual has a zero for EVERY target `τ₀ < 1`, including `τ₀ ≤ 0`, where
the true calibration has no positive solution (for `τ₀ = 0` none at all: `fit` should refuse).
Still external: the accuracy of `integrate.quad` and of `least_squares` (and its bound `|θ| ≤ 709.78`,
known finding `frank.fit:theta-clamped-at-solver-bound`).  On the negative branch the code's residual
is not monotone near `0⁻` (`frank_code_residual_not_monotone_neg`); existence/uniqueness of ITS
negative roots is not treated.
-/
namespace CopVerif.Props.C10c
open CopVerif MeasureTheory Set Filter Topology

/-! ## the ideal map and the generated residual -/

/-- The GENERATED residual with the exact interval integral for `integrate.quad` and lower limit `0`
(the code passes `EPSILON`) is `τ(a) − τ₀` with the ideal `τ`; no hypothesis on `a` (both sides use the
same totalised division). -/
theorem frank_ideal_residual (τ₀ a : ℝ) :
    Gen.Frank.tauResidual (fun f lo hi => ∫ t in lo..hi, f t) 0 τ₀ a
      = (1 + 4 * ((∫ s in (0 : ℝ)..a, Gen.Frank.debyeIntegrand s) / a - 1) / a) - τ₀ := by
  rw [FrankTau.bridge_residual, FrankTau.tauEps_zero, FrankTau.bridge_idealTau]

/-! ## (a) reflection symmetry -/

/-- `D₁(−θ) = D₁(θ) + θ/2` and hence `τ(−θ) = −τ(θ)`, for every `θ ≠ 0`
(from `s/(e⁻ˢ−1)·(−1) = s/(eˢ−1) + s`). -/
theorem frank_tau_odd {θ : ℝ} (hθ : θ ≠ 0) :
    (∫ s in (0 : ℝ)..(-θ), Gen.Frank.debyeIntegrand s) / (-θ)
      = (∫ s in (0 : ℝ)..θ, Gen.Frank.debyeIntegrand s) / θ + θ / 2 ∧
    1 + 4 * ((∫ s in (0 : ℝ)..(-θ), Gen.Frank.debyeIntegrand s) / (-θ) - 1) / (-θ)
      = -(1 + 4 * ((∫ s in (0 : ℝ)..θ, Gen.Frank.debyeIntegrand s) / θ - 1) / θ) := by
  refine ⟨?_, ?_⟩
  · have h := FrankTau.debye1_neg hθ
    rw [KendallGen.debye1_eq, KendallGen.debye1_eq] at h
    rw [FrankTau.bridge_J, FrankTau.bridge_J]; exact h
  · rw [FrankTau.bridge_idealTau, FrankTau.bridge_idealTau]; exact FrankTau.tau_neg hθ

/-! ## (b) strict monotonicity and the value at `0` -/

/-- `τ` is strictly increasing on `(0,∞)`, on `(−∞,0)`, and on `ℝ∖{0}` as a whole (negative on the
negative branch, positive on the positive one). -/
theorem frank_tau_strictMono :
    StrictMonoOn (fun θ : ℝ =>
      1 + 4 * ((∫ s in (0 : ℝ)..θ, Gen.Frank.debyeIntegrand s) / θ - 1) / θ) (Ioi 0) ∧
    StrictMonoOn (fun θ : ℝ =>
      1 + 4 * ((∫ s in (0 : ℝ)..θ, Gen.Frank.debyeIntegrand s) / θ - 1) / θ) (Iio 0) ∧
    StrictMonoOn (fun θ : ℝ =>
      1 + 4 * ((∫ s in (0 : ℝ)..θ, Gen.Frank.debyeIntegrand s) / θ - 1) / θ) {0}ᶜ := by
  have e : (fun θ : ℝ => 1 + 4 * ((∫ s in (0 : ℝ)..θ, Gen.Frank.debyeIntegrand s) / θ - 1) / θ)
      = FrankTau.tau := funext FrankTau.bridge_idealTau
  rw [e]
  refine ⟨FrankTau.tau_strictMonoOn_Ioi, FrankTau.tau_strictMonoOn_Iio, ?_⟩
  intro a ha b hb hab
  have h := FrankTau.tauExt_strictMono hab
  rwa [FrankTau.tauExt_of_ne ha, FrankTau.tauExt_of_ne hb] at h

/-- The sign of `τ(θ)` is the sign of `θ`, and `|τ(θ)| ≤ |θ|/3`: in particular `τ(θ) → 0` as
`θ → 0`, `θ ≠ 0`. -/
theorem frank_tau_sign_and_small {θ : ℝ} (hθ : θ ≠ 0) :
    (0 < 1 + 4 * ((∫ s in (0 : ℝ)..θ, Gen.Frank.debyeIntegrand s) / θ - 1) / θ ↔ 0 < θ) ∧
    (1 + 4 * ((∫ s in (0 : ℝ)..θ, Gen.Frank.debyeIntegrand s) / θ - 1) / θ < 0 ↔ θ < 0) ∧
    |1 + 4 * ((∫ s in (0 : ℝ)..θ, Gen.Frank.debyeIntegrand s) / θ - 1) / θ| ≤ |θ| / 3 := by
  rw [FrankTau.bridge_idealTau]
  exact ⟨(FrankTau.tau_sign hθ).1, (FrankTau.tau_sign hθ).2, FrankTau.abs_tau_le hθ⟩

/-- `lim_{θ→0, θ≠0} τ(θ) = 0`, and the extension of `τ` by the value `0` at `θ = 0` (independence)
is continuous and strictly increasing on all of ℝ.  (The formula itself evaluates to the junk value
`1` at `θ = 0` under Lean's `x/0 = 0`, hence the explicit `if`.) -/
theorem frank_tau_extension :
    Tendsto (fun θ : ℝ => 1 + 4 * ((∫ s in (0 : ℝ)..θ, Gen.Frank.debyeIntegrand s) / θ - 1) / θ)
      (𝓝[≠] 0) (𝓝 0) ∧
    Continuous (fun θ : ℝ => if θ = 0 then 0
      else 1 + 4 * ((∫ s in (0 : ℝ)..θ, Gen.Frank.debyeIntegrand s) / θ - 1) / θ) ∧
    StrictMono (fun θ : ℝ => if θ = 0 then 0
      else 1 + 4 * ((∫ s in (0 : ℝ)..θ, Gen.Frank.debyeIntegrand s) / θ - 1) / θ) := by
  have e : (fun θ : ℝ => 1 + 4 * ((∫ s in (0 : ℝ)..θ, Gen.Frank.debyeIntegrand s) / θ - 1) / θ)
      = FrankTau.tau := funext FrankTau.bridge_idealTau
  have e' : (fun θ : ℝ => if θ = 0 then 0
      else 1 + 4 * ((∫ s in (0 : ℝ)..θ, Gen.Frank.debyeIntegrand s) / θ - 1) / θ)
      = FrankTau.tauExt := by
    funext θ; rw [FrankTau.bridge_idealTau]; rfl
  rw [e, e']
  exact ⟨FrankTau.tau_tendsto_zero, FrankTau.tauExt_continuous, FrankTau.tauExt_strictMono⟩

/-! ## (c) range -/

/-- `−1 < τ(θ) < 1` for every `θ ≠ 0`; quantitatively `1 − 4/θ ≤ τ(θ)` for `θ > 0`
(and `τ(θ) ≤ −1 + 4/|θ|` for `θ < 0`). -/
theorem frank_tau_bounds {θ : ℝ} (hθ : θ ≠ 0) :
    -1 < 1 + 4 * ((∫ s in (0 : ℝ)..θ, Gen.Frank.debyeIntegrand s) / θ - 1) / θ ∧
    1 + 4 * ((∫ s in (0 : ℝ)..θ, Gen.Frank.debyeIntegrand s) / θ - 1) / θ < 1 ∧
    (0 < θ → 1 - 4 / θ ≤ 1 + 4 * ((∫ s in (0 : ℝ)..θ, Gen.Frank.debyeIntegrand s) / θ - 1) / θ) ∧
    (θ < 0 →
      1 + 4 * ((∫ s in (0 : ℝ)..θ, Gen.Frank.debyeIntegrand s) / θ - 1) / θ ≤ -1 + 4 / (-θ)) := by
  rw [FrankTau.bridge_idealTau]
  refine ⟨(FrankTau.tau_mem_Ioo hθ).1, (FrankTau.tau_mem_Ioo hθ).2, fun h => FrankTau.tau_ge h,
    fun h => ?_⟩
  have h1 := FrankTau.tau_ge (neg_pos.2 h)
  rw [FrankTau.tau_neg h.ne] at h1
  linarith

/-- `τ(θ) → 1` as `θ → +∞` and `τ(θ) → −1` as `θ → −∞`. -/
theorem frank_tau_limits :
    Tendsto (fun θ : ℝ => 1 + 4 * ((∫ s in (0 : ℝ)..θ, Gen.Frank.debyeIntegrand s) / θ - 1) / θ)
      atTop (𝓝 1) ∧
    Tendsto (fun θ : ℝ => 1 + 4 * ((∫ s in (0 : ℝ)..θ, Gen.Frank.debyeIntegrand s) / θ - 1) / θ)
      atBot (𝓝 (-1)) := by
  have e : (fun θ : ℝ => 1 + 4 * ((∫ s in (0 : ℝ)..θ, Gen.Frank.debyeIntegrand s) / θ - 1) / θ)
      = FrankTau.tau := funext FrankTau.bridge_idealTau
  rw [e]
  exact ⟨FrankTau.tau_tendsto_atTop, FrankTau.tau_tendsto_atBot⟩

/-! ## (d) existence and uniqueness of the calibrated θ -/

/-- EXISTENCE AND UNIQUENESS.  For every `τ₀ ∈ (−1,1)∖{0}` there is exactly one `θ ≠ 0` with
`τ(θ) = τ₀` (intermediate value theorem between `τ(τ₀) ≤ τ₀/3` and `τ(8/(1−τ₀)) ≥ (1+τ₀)/2`, strict
monotonicity, reflection), and that θ has the sign of `τ₀`. -/
theorem frank_calibration_exists_unique {τ₀ : ℝ} (h0 : -1 < τ₀) (h1 : τ₀ < 1) (hne : τ₀ ≠ 0) :
    ∃! θ : ℝ, θ ≠ 0 ∧
      1 + 4 * ((∫ s in (0 : ℝ)..θ, Gen.Frank.debyeIntegrand s) / θ - 1) / θ = τ₀ := by
  simp only [FrankTau.bridge_idealTau]
  exact FrankTau.tau_exists_unique h0 h1 hne

/-- The same in terms of the GENERATED residual (exact integral, lower limit `0`): it has exactly
one non-zero root, which is the unique θ whose generated generator has Kendall-tau functional `τ₀`;
the root has the sign of `τ₀`. -/
theorem frank_ideal_residual_root_exists_unique {τ₀ : ℝ} (h0 : -1 < τ₀) (h1 : τ₀ < 1)
    (hne : τ₀ ≠ 0) :
    (∃! θ : ℝ, θ ≠ 0 ∧ Gen.Frank.tauResidual (fun f lo hi => ∫ t in lo..hi, f t) 0 τ₀ θ = 0) ∧
    (∃! θ : ℝ, θ ≠ 0 ∧
      (1 + 4 * ∫ t in (0 : ℝ)..1, Gen.Frank.generator θ t / deriv (Gen.Frank.generator θ) t)
        = τ₀) ∧
    ∀ θ : ℝ, θ ≠ 0 → Gen.Frank.tauResidual (fun f lo hi => ∫ t in lo..hi, f t) 0 τ₀ θ = 0 →
      (0 < θ ↔ 0 < τ₀) := by
  obtain ⟨θ, ⟨hθ0, hθ⟩, huniq⟩ := FrankTau.tau_exists_unique h0 h1 hne
  have hres : ∀ a : ℝ, Gen.Frank.tauResidual (fun f lo hi => ∫ t in lo..hi, f t) 0 τ₀ a = 0 ↔
      FrankTau.tau a = τ₀ := by
    intro a
    rw [FrankTau.bridge_residual, FrankTau.tauEps_zero, sub_eq_zero]
  have hgen : ∀ a : ℝ, a ≠ 0 →
      ((1 + 4 * ∫ t in (0 : ℝ)..1, Gen.Frank.generator a t / deriv (Gen.Frank.generator a) t) = τ₀
        ↔ FrankTau.tau a = τ₀) := by
    intro a ha
    rw [(C10b.frank_generator_tau ha).2, FrankTau.bridge_idealTau]
  refine ⟨⟨θ, ⟨hθ0, (hres θ).2 hθ⟩, fun a ha => huniq a ⟨ha.1, (hres a).1 ha.2⟩⟩,
    ⟨θ, ⟨hθ0, (hgen θ hθ0).2 hθ⟩, fun a ha => huniq a ⟨ha.1, (hgen a ha.1).1 ha.2⟩⟩, ?_⟩
  intro a ha hr
  have := (FrankTau.tau_sign ha).1
  rw [(hres a).1 hr] at this
  exact this.symm

/-- At `τ₀ = 0` the ideal calibration has NO admissible solution: `τ(θ) ≠ 0` for every `θ ≠ 0`
(`θ = 0` is in `invalid_thetas`), so an exact solver would make `fit` refuse, and for `|τ₀| ≥ 1`
there is none either. -/
theorem frank_no_calibration_outside {τ₀ θ : ℝ} (hθ : θ ≠ 0) (h : τ₀ = 0 ∨ 1 ≤ |τ₀|) :
    1 + 4 * ((∫ s in (0 : ℝ)..θ, Gen.Frank.debyeIntegrand s) / θ - 1) / θ ≠ τ₀ := by
  rw [FrankTau.bridge_idealTau]
  intro he
  obtain ⟨h1, h2⟩ := FrankTau.tau_mem_Ioo hθ
  rcases h with rfl | h
  · rcases lt_or_gt_of_ne hθ with hn | hp
    · have := FrankTau.tau_neg_of_neg hn; linarith
    · have := FrankTau.tau_pos hp; linarith
  · rw [← he] at h
    have : |FrankTau.tau θ| < 1 := abs_lt.2 ⟨h1, h2⟩
    linarith

/-! ## the code's lower limit `ε = EPSILON` -/

/-- The code's residual (lower limit `ε ≥ 0`) minus the ideal one (lower limit `0`) is
`−4 (∫₀^ε s/(eˢ−1) ds)/θ²`; it is `≤ 0`, `< 0` for `ε > 0`, and at most `4ε/θ²` in absolute value
(since `0 ≤ s/(eˢ−1) ≤ 1`).  With `ε = 2⁻²³` this is the `≈ 4.8e-7/θ²` of the known finding
`frank.fit:calibration-inaccurate-near-zero-tau`. -/
theorem frank_code_tau_shift {ε τ₀ θ : ℝ} (hε : 0 ≤ ε) (hθ : θ ≠ 0) :
    Gen.Frank.tauResidual (fun f lo hi => ∫ t in lo..hi, f t) ε τ₀ θ
      - Gen.Frank.tauResidual (fun f lo hi => ∫ t in lo..hi, f t) 0 τ₀ θ
      = -(4 * (∫ s in (0 : ℝ)..ε, Gen.Frank.debyeIntegrand s) / θ ^ 2) ∧
    |Gen.Frank.tauResidual (fun f lo hi => ∫ t in lo..hi, f t) ε τ₀ θ
      - Gen.Frank.tauResidual (fun f lo hi => ∫ t in lo..hi, f t) 0 τ₀ θ| ≤ 4 * ε / θ ^ 2 ∧
    Gen.Frank.tauResidual (fun f lo hi => ∫ t in lo..hi, f t) ε τ₀ θ
      ≤ Gen.Frank.tauResidual (fun f lo hi => ∫ t in lo..hi, f t) 0 τ₀ θ ∧
    (0 < ε → Gen.Frank.tauResidual (fun f lo hi => ∫ t in lo..hi, f t) ε τ₀ θ
      < Gen.Frank.tauResidual (fun f lo hi => ∫ t in lo..hi, f t) 0 τ₀ θ) := by
  rw [FrankTau.bridge_residual, FrankTau.bridge_residual, FrankTau.tauEps_zero, FrankTau.bridge_J]
  have h1 := FrankTau.tauEps_eq (ε := ε) hθ
  have h2 := FrankTau.abs_tauEps_sub_le hε hθ
  have h3 := (FrankTau.tauEps_bounds hε hθ).2
  refine ⟨by rw [h1]; ring, ?_, by linarith, fun h => by have := FrankTau.tauEps_lt h hθ; linarith⟩
  have e : FrankTau.tauEps ε θ - τ₀ - (FrankTau.tau θ - τ₀) = FrankTau.tauEps ε θ - FrankTau.tau θ := by
    ring
  rw [e]; exact h2

/-- EXISTENCE AND UNIQUENESS for the CODE's residual on the positive branch: with lower limit
`ε > 0` and the exact integral, for every target `τ₀ ∈ [1 − 4/ε, 1)` (for `ε = 2⁻²³`: every
`τ₀ ∈ [−3.3e7, 1)`) there is exactly one `a ≥ ε` with residual `0`.  This completes
`C10.frank_theta_unique_partial` (uniqueness) by existence — and shows that a root exists on the
positive branch also for targets `τ₀ ≤ 0`. -/
theorem frank_code_positive_root_exists_unique {ε τ₀ : ℝ} (hε : 0 < ε) (hlo : 1 - 4 / ε ≤ τ₀)
    (h1 : τ₀ < 1) :
    ∃! a : ℝ, ε ≤ a ∧ Gen.Frank.tauResidual (fun f lo hi => ∫ t in lo..hi, f t) ε τ₀ a = 0 := by
  simp only [BivFit.bridge_tauResidual]
  exact FrankTau.T_exists_unique hε hlo h1

/-- The mechanism of the known finding `frank.fit:calibration-inaccurate-near-zero-tau`: for every
`ε ∈ (0,2]` and every target `τ₀ ∈ (−1, 0]` the code's residual has a POSITIVE zero `a ≥ ε`, although
the true Kendall tau of Frank(`a`) is `> 0 ≥ τ₀`; the miscalibration is exactly
`τ(a) − τ₀ = 4 (∫₀^ε s/(eˢ−1) ds)/a² > 0`.  (For `τ₀ = 0` the ideal map has no solution at all and
`fit` should refuse, cf. `frank_no_calibration_outside`.) -/
theorem frank_code_spurious_root {ε τ₀ : ℝ} (hε : 0 < ε) (hε2 : ε ≤ 2) (h0 : -1 < τ₀) (h1 : τ₀ ≤ 0) :
    ∃ a : ℝ, ε ≤ a ∧ Gen.Frank.tauResidual (fun f lo hi => ∫ t in lo..hi, f t) ε τ₀ a = 0 ∧
      (1 + 4 * ((∫ s in (0 : ℝ)..a, Gen.Frank.debyeIntegrand s) / a - 1) / a) - τ₀
        = 4 * (∫ s in (0 : ℝ)..ε, Gen.Frank.debyeIntegrand s) / a ^ 2 ∧
      τ₀ < 1 + 4 * ((∫ s in (0 : ℝ)..a, Gen.Frank.debyeIntegrand s) / a - 1) / a := by
  have hlo : 1 - 4 / ε ≤ τ₀ := by
    have : 2 ≤ 4 / ε := by rw [le_div_iff₀ hε]; linarith
    linarith
  obtain ⟨a, ⟨ha, hr⟩, _⟩ := frank_code_positive_root_exists_unique hε hlo (by linarith)
  have ha0 : a ≠ 0 := (lt_of_lt_of_le hε ha).ne'
  refine ⟨a, ha, hr, ?_, ?_⟩
  · have h := (frank_code_tau_shift (τ₀ := τ₀) hε.le ha0).1
    rw [hr, frank_ideal_residual] at h
    linarith
  · rw [FrankTau.bridge_idealTau]
    have := FrankTau.tau_pos (lt_of_lt_of_le hε ha)
    linarith

/-- The remark in `C10.frank_tau_monotone_partial` made precise: on the NEGATIVE branch the code's
residual (lower limit `ε ∈ (0,1]`, exact integral) is NOT monotone — it tends to `−∞` as `a → 0⁻`
while the ideal `τ` tends to `0`.  So near `0⁻` the solver's objective is not the calibration map;
monotonicity of the code's residual holds on `[ε,∞)` only (`C10.frank_tau_monotone_partial`). -/
theorem frank_code_residual_not_monotone_neg {ε τ₀ : ℝ} (hε : 0 < ε) (hε1 : ε ≤ 1) :
    ∃ a b : ℝ, a < b ∧ b < 0 ∧
      Gen.Frank.tauResidual (fun f lo hi => ∫ t in lo..hi, f t) ε τ₀ b
        < Gen.Frank.tauResidual (fun f lo hi => ∫ t in lo..hi, f t) ε τ₀ a := by
  obtain ⟨a, b, hab, hb, h⟩ := FrankTau.tauEps_not_monotone_neg hε hε1
  refine ⟨a, b, hab, hb, ?_⟩
  rw [FrankTau.bridge_residual, FrankTau.bridge_residual]
  linarith

/-! ## non-vacuity -/

example : ∃! θ : ℝ, θ ≠ 0 ∧
    1 + 4 * ((∫ s in (0 : ℝ)..θ, Gen.Frank.debyeIntegrand s) / θ - 1) / θ = 1 / 2 :=
  frank_calibration_exists_unique (by norm_num) (by norm_num) (by norm_num)

example : ∃! θ : ℝ, θ ≠ 0 ∧
    1 + 4 * ((∫ s in (0 : ℝ)..θ, Gen.Frank.debyeIntegrand s) / θ - 1) / θ = -4 / 5 :=
  frank_calibration_exists_unique (by norm_num) (by norm_num) (by norm_num)

/-- the library's `EPSILON = 2⁻²³` and the target `τ₀ = 0` of the recorded witness -/
example : ∃ a : ℝ, (2 : ℝ)⁻¹ ^ 23 ≤ a ∧
    Gen.Frank.tauResidual (fun f lo hi => ∫ t in lo..hi, f t) ((2 : ℝ)⁻¹ ^ 23) 0 a = 0 ∧
    (0 : ℝ) < 1 + 4 * ((∫ s in (0 : ℝ)..a, Gen.Frank.debyeIntegrand s) / a - 1) / a := by
  obtain ⟨a, h1, h2, _, h4⟩ := frank_code_spurious_root (ε := (2 : ℝ)⁻¹ ^ 23) (τ₀ := 0)
    (by positivity) (by norm_num) (by norm_num) le_rfl
  exact ⟨a, h1, h2, h4⟩

example : (1 : ℝ) - 4 / (2 : ℝ)⁻¹ ^ 23 ≤ -1 := by norm_num

end CopVerif.Props.C10c
