import CopVerif.Lemmas.RootFindGen
import CopVerif.Gen.RootFind
import CopVerif.Props.C18
/-!
# C18b — the arithmetic REGENERATED from `copulas/optimize/__init__.py` is the hand model's

Property theorems only.  `CopVerif/Gen/RootFind.lean` is rewritten on every run by
`tools/gen_rootfind.py` from the AST of the current source: the per-lane (scalar) reading of every
arithmetic / Boolean expression of the two loop bodies, the assertions, the defaults, and — after
the statement sequence matched the translator's whitelist shape — a fixed batch-level skeleton
assembled from them.  The theorems of `CopVerif.Props.C18` are about the hand-written
`CopVerif.Model.bisect` / `chandrupatla` / `chandrupatlaScalar`.  This file proves, over ℝ and for
all inputs, that every generated definition equals the corresponding definition (or inline
expression) of the hand model, hence `Gen.RootFind.bisect = Model.bisect` etc., and restates the
headline C18 theorems about the generated functions.  A change of an operator, constant, mask or
`np.choose` alternative in the Python source changes the generated term and one of the
`gen_*_eq` bridges no longer checks; a harmless rewrite (renamed local, reordered commutative
operands, `2` for `2.0`, `abs` for `np.abs`) is absorbed by `rf_bridge` (`simp`, then `ring_nf` /
`field_simp`).

Statements are at ℝ because the C18 theorems are; bit-level agreement of the hand model with the
running code is the business of the correspondence harness (`tools/props/c18.py`).
-/
namespace CopVerif.Props.C18b
open CopVerif CopVerif.Model CopVerif.RootFind

/-! ## bisect: translated per-lane definitions -/

/-- the defaults of `bisect(f, xmin, xmax, tol=1e-8, maxiter=50)`. -/
theorem gen_bisect_defaults :
    (Gen.RootFind.bisectDefaultTol : ℝ) = 1 / 10 ^ 8 ∧ Gen.RootFind.bisectDefaultMaxiter = 50 := by
  constructor
  · rf_bridge [Gen.RootFind.bisectDefaultTol]
  · rf_bridge [Gen.RootFind.bisectDefaultMaxiter]

/-- `assert (f(xmin) <= 0.0).all()`, one lane: the predicate `Model.bisect` tests on `f xmin`. -/
theorem gen_bisectAssertLo_eq (y : ℝ) : Gen.RootFind.bisectAssertLo y = decide (y ≤ 0) := by
  rf_bridge [Gen.RootFind.bisectAssertLo]

/-- `assert (f(xmax) >= 0.0).all()`, one lane: the predicate `Model.bisect` tests on `f xmax`. -/
theorem gen_bisectAssertHi_eq (y : ℝ) : Gen.RootFind.bisectAssertHi y = decide (0 ≤ y) := by
  rf_bridge [Gen.RootFind.bisectAssertHi]

/-- `guess = (xmin + xmax) / 2.0` is `Model.mid`. -/
theorem gen_bisectGuess_eq (lo hi : ℝ) : Gen.RootFind.bisectGuess lo hi = mid lo hi := by
  rf_bridge [Gen.RootFind.bisectGuess, mid]

/-- the two masked in-place assignments `xmin[fguess <= 0] = guess[…]`, `xmax[fguess >= 0] = guess[…]`
are `Model.bisectUpd` (both masks on the same `fguess`, `≤`/`≥` non-strict). -/
theorem gen_bisectUpd_eq (fg g : ℝ) (p : ℝ × ℝ) :
    Gen.RootFind.bisectUpd fg g p = bisectUpd fg g p := by
  rf_bridge [Gen.RootFind.bisectUpd, bisectUpd]

/-- the array whose maximum is tested is `xmax - xmin` (one element of `Model.widths`). -/
theorem gen_bisectWidth_eq (p : ℝ × ℝ) : Gen.RootFind.bisectWidth p = p.2 - p.1 := by
  rf_bridge [Gen.RootFind.bisectWidth]

/-- the stop test is the strict `max width < tol` of `Model.bisectLoop`. -/
theorem gen_bisectStop_eq (w tol : ℝ) : Gen.RootFind.bisectStop w tol = decide (w < tol) := by
  rf_bridge [Gen.RootFind.bisectStop]

/-- the returned expression is the midpoint of the final bracket. -/
theorem gen_bisectResult_eq (p : ℝ × ℝ) : Gen.RootFind.bisectResult p = mid p.1 p.2 := by
  rf_bridge [Gen.RootFind.bisectResult, mid]

/-! ## chandrupatla: translated per-lane definitions -/

/-- defaults of `chandrupatla(…, eps_m=None, eps_a=None, maxiter=50)`: `eps_m = eps`,
`eps_a = 2·eps` when not passed, the argument otherwise; `eps = np.finfo(float).eps = 2⁻⁵²`. -/
theorem gen_chandrupatla_defaults (eps v : ℝ) :
    Gen.RootFind.chDefaultMaxiter = 50 ∧
    Gen.RootFind.chEpsM eps none = eps ∧ Gen.RootFind.chEpsM eps (some v) = v ∧
    Gen.RootFind.chEpsA eps none = 2 * eps ∧ Gen.RootFind.chEpsA eps (some v) = v ∧
    (Gen.RootFind.machEps : ℝ) = 1 / 2 ^ 52 := by
  refine ⟨?_, ?_, ?_, ?_, ?_, ?_⟩
  · rf_bridge [Gen.RootFind.chDefaultMaxiter]
  · rf_bridge [Gen.RootFind.chEpsM]
  · rf_bridge [Gen.RootFind.chEpsM]
  · rf_bridge [Gen.RootFind.chEpsA]
  · rf_bridge [Gen.RootFind.chEpsA]
  · simp only [Gen.RootFind.machEps]; norm_num

/-- `assert (np.sign(fa) * np.sign(fb) <= 0).all()`, one lane (`fa = f(xmax)`, `fb = f(xmin)`): the
predicate `Model.chandrupatla` tests. -/
theorem gen_chAssert_eq (fHi fLo : ℝ) :
    Gen.RootFind.chAssert fHi fLo = decide (signNP fHi * signNP fLo ≤ 0) := by
  rf_bridge [Gen.RootFind.chAssert]

/-- the initialisation block `a = xmax; b = xmin; fa = f(a); fb = f(b); fc = fa; c = a; t = 0.5;
terminate = False` is `Model.chInit`. -/
theorem gen_chInit_eq (lo hi fHi fLo : ℝ) :
    Gen.RootFind.chInit lo hi fHi fLo = chInit lo hi fHi fLo := by
  rf_bridge [Gen.RootFind.chInit, chInit]

/-- `xt = np.clip(a + t * (b - a), xmin, xmax)` is `Model.chXt`. -/
theorem gen_chXt_eq (l : ChPre ℝ) : Gen.RootFind.chXt l = chXt l := by
  rf_bridge [Gen.RootFind.chXt, chXt]

/-- the loop body from `samesign = …` to `terminate = …` (history update through `np.choose`,
`xm`/`fm` selection, `tol = 2*eps_m*|xm| + eps_a`, `tlim = tol/|b - c|`, the termination flag
`terminate or (fm == 0 or tlim > 0.5)`) is `Model.chUpd`. -/
theorem gen_chUpd_eq (epsM epsA xt ft : ℝ) (l : ChPre ℝ) :
    Gen.RootFind.chUpd epsM epsA xt ft l = chUpd epsM epsA xt ft l := by
  rf_bridge [Gen.RootFind.chUpd, chUpd]

/-- the rest of the body in the array case (`xi`, `phi`, the test `phi**2 < xi and (1-phi)**2 < 1-xi`,
`t = np.full(shape, 0.5); t[iqi] = <inverse quadratic interpolation>`, the clamp to
`[tlim, 1 - tlim]`) is `Model.chNext`. -/
theorem gen_chNextArray_eq (sq : ℝ → ℝ) (m : ChMid ℝ) :
    Gen.RootFind.chNextArray sq m = chNext sq m := by
  rf_bridge [Gen.RootFind.chNextArray, chNext]

/-- the rest of the body in the scalar case (`if iqi: t = eq1 + eq2 else: t = 0.5`) is the same
`Model.chNext`. -/
theorem gen_chNextScalar_eq (sq : ℝ → ℝ) (m : ChMid ℝ) :
    Gen.RootFind.chNextScalar sq m = chNext sq m := by
  rf_bridge [Gen.RootFind.chNextScalar, chNext]

/-! ## the skeleton assembled from the translated definitions is the hand model -/

/-- one `bisect` loop body on a batch. -/
theorem gen_bisectStep_eq (f : List ℝ → List ℝ) (s : List (ℝ × ℝ)) :
    Gen.RootFind.bisectStep f s = bisectStep f s := by
  simp only [Gen.RootFind.bisectStep, bisectStep, gen_bisectGuess_eq, gen_bisectUpd_eq]

/-- the `bisect` loop (`for _ in range(maxiter)` with the `.max() < tol` break). -/
theorem gen_bisectLoop_eq (f : List ℝ → List ℝ) (tol : ℝ) (fuel k : ℕ) (s : List (ℝ × ℝ)) :
    Gen.RootFind.bisectLoop f tol fuel k s = bisectLoop f tol fuel k s := by
  induction fuel generalizing k s with
  | zero => simp only [Gen.RootFind.bisectLoop, bisectLoop]
  | succ n ih =>
    have hw : Gen.RootFind.bisectWidth = fun p : ℝ × ℝ => p.2 - p.1 := funext gen_bisectWidth_eq
    simp only [Gen.RootFind.bisectLoop, bisectLoop, widths, gen_bisectStep_eq, hw, gen_bisectStop_eq,
      ih, decide_eq_true_eq]
    rfl

/-- `Gen.RootFind.bisect = Model.bisect`: the function regenerated from the source is the function
the C18 theorems are about. -/
theorem gen_bisect_eq (f : List ℝ → List ℝ) (xmin xmax : List ℝ) (tol : ℝ) (maxiter : ℕ) :
    Gen.RootFind.bisect f xmin xmax tol maxiter = bisect f xmin xmax tol maxiter := by
  have h1 : Gen.RootFind.bisectAssertLo = fun y : ℝ => decide (y ≤ NumFns.ofNat 0) := by
    funext y; simp [gen_bisectAssertLo_eq]
  have h2 : Gen.RootFind.bisectAssertHi = fun y : ℝ => decide (NumFns.ofNat 0 ≤ y) := by
    funext y; simp [gen_bisectAssertHi_eq]
  have h3 : Gen.RootFind.bisectResult = fun p : ℝ × ℝ => mid p.1 p.2 := by
    funext p; exact gen_bisectResult_eq p
  simp only [Gen.RootFind.bisect, bisect, h1, h2, h3, gen_bisectLoop_eq]
  rfl

/-- the `chandrupatla` body up to the break test on a batch. -/
theorem gen_chHalf_eq (f : List ℝ → List ℝ) (epsM epsA : ℝ) (s : List (ChPre ℝ)) :
    Gen.RootFind.chHalf f epsM epsA s = chHalf f epsM epsA s := by
  have h : Gen.RootFind.chXt = (chXt : ChPre ℝ → ℝ) := funext gen_chXt_eq
  simp only [Gen.RootFind.chHalf, chHalf, h, gen_chUpd_eq]

/-- the `while maxiter > 0` loop, array case. -/
theorem gen_chLoop_eq (f : List ℝ → List ℝ) (sq : ℝ → ℝ) (epsM epsA : ℝ) (fuel k : ℕ)
    (s : List (ChPre ℝ)) (xm : List ℝ) :
    Gen.RootFind.chLoop f sq epsM epsA fuel k s xm = chLoop f sq epsM epsA fuel k s xm := by
  induction fuel generalizing k s xm with
  | zero => simp only [Gen.RootFind.chLoop, chLoop]
  | succ n ih =>
    have h : Gen.RootFind.chNextArray sq = chNext sq := funext (gen_chNextArray_eq sq)
    simp only [Gen.RootFind.chLoop, chLoop, gen_chHalf_eq, h, ih]

/-- `Gen.RootFind.chandrupatla = Model.chandrupatla` (array input). -/
theorem gen_chandrupatla_eq (f : List ℝ → List ℝ) (xmin xmax : List ℝ) (epsM epsA : ℝ)
    (maxiter : ℕ) :
    Gen.RootFind.chandrupatla f xmin xmax epsM epsA maxiter
      = chandrupatla f xmin xmax epsM epsA maxiter := by
  have h1 : (fun p : ℝ × ℝ => Gen.RootFind.chAssert p.1 p.2)
      = fun p : ℝ × ℝ => decide (signNP p.1 * signNP p.2 ≤ NumFns.ofNat 0) := by
    funext p; simp [gen_chAssert_eq]
  have h2 : (fun (x y : ℝ × ℝ) => Gen.RootFind.chInit x.1 x.2 y.1 y.2)
      = fun (x y : ℝ × ℝ) => chInit x.1 x.2 y.1 y.2 := by
    funext x y; exact gen_chInit_eq _ _ _ _
  simp only [Gen.RootFind.chandrupatla, chandrupatla, h1, h2, gen_chLoop_eq]

/-- the `while maxiter > 0` loop, scalar case. -/
theorem gen_chLoopScalar_eq (f : ℝ → ℝ) (epsM epsA : ℝ) (fuel k : ℕ) (l : ChPre ℝ) (xm : ℝ) :
    Gen.RootFind.chLoopScalar f epsM epsA fuel k l xm = chLoopScalar f epsM epsA fuel k l xm := by
  induction fuel generalizing k l xm with
  | zero => simp only [Gen.RootFind.chLoopScalar, chLoopScalar]
  | succ n ih =>
    simp only [Gen.RootFind.chLoopScalar, chLoopScalar, gen_chXt_eq, gen_chUpd_eq,
      gen_chNextScalar_eq, ih]

/-- `Gen.RootFind.chandrupatlaScalar = Model.chandrupatlaScalar` (scalar input). -/
theorem gen_chandrupatlaScalar_eq (f : ℝ → ℝ) (xmin xmax epsM epsA : ℝ) (maxiter : ℕ) :
    Gen.RootFind.chandrupatlaScalar f xmin xmax epsM epsA maxiter
      = chandrupatlaScalar f xmin xmax epsM epsA maxiter := by
  have h1 : ∀ a b : ℝ, Gen.RootFind.chAssert a b = decide (signNP a * signNP b ≤ NumFns.ofNat 0) := by
    intro a b; simp [gen_chAssert_eq]
  simp only [Gen.RootFind.chandrupatlaScalar, chandrupatlaScalar, h1, gen_chInit_eq,
    gen_chLoopScalar_eq]

/-! ## the headline C18 theorems, about the regenerated functions -/

/-- `C18.bisect_result` for the regenerated `bisect` called with the regenerated defaults
(`bisect(f, xmin, xmax)`): success after `K ≤ 50` bodies, and for every lane the returned point is
the midpoint of a bracket nested in the initial one, with a root of a continuous lane within
`(hi-lo)/2^(K+1)`, and within `tol/2 = 5·10⁻⁹` whenever the loop stopped before the cap. -/
theorem gen_bisect_result {fs : ℕ → ℝ → ℝ} {xmin xmax : List ℝ} (hv : ValidBrackets fs xmin xmax)
    (hne : xmin ≠ []) :
    ∃ out K, Gen.RootFind.bisect (evalLanes fs) xmin xmax Gen.RootFind.bisectDefaultTol
        Gen.RootFind.bisectDefaultMaxiter = .ok out ∧ K ≤ 50 ∧ out.iters = K ∧
      ∀ i lo hi, xmin[i]? = some lo → xmax[i]? = some hi →
        ∃ lo' hi' x, out.xmin[i]? = some lo' ∧ out.xmax[i]? = some hi' ∧ out.result[i]? = some x ∧
          x = (lo' + hi') / 2 ∧ lo ≤ x ∧ x ≤ hi ∧
          lo ≤ lo' ∧ lo' ≤ hi' ∧ hi' ≤ hi ∧ fs i lo' ≤ 0 ∧ 0 ≤ fs i hi' ∧
          hi' - lo' ≤ (hi - lo) / 2 ^ K ∧ (K < 50 → hi' - lo' < 1 / 10 ^ 8) ∧
          (ContinuousOn (fs i) (Set.Icc lo hi) →
            ∃ r, lo' ≤ r ∧ r ≤ hi' ∧ fs i r = 0 ∧ |x - r| ≤ (hi - lo) / 2 ^ (K + 1) ∧
              (K < 50 → |x - r| < 1 / 10 ^ 8 / 2)) := by
  rw [gen_bisect_eq, gen_bisect_defaults.1, gen_bisect_defaults.2]
  exact C18.bisect_result hv hne _ 50

/-- `C18.bisect_rejects` for the regenerated `bisect`. -/
theorem gen_bisect_rejects {fs : ℕ → ℝ → ℝ} {xmin xmax : List ℝ}
    (hbad : (∃ i lo, xmin[i]? = some lo ∧ 0 < fs i lo) ∨ (∃ i hi, xmax[i]? = some hi ∧ fs i hi < 0))
    (tol : ℝ) (maxiter : ℕ) :
    Gen.RootFind.bisect (evalLanes fs) xmin xmax tol maxiter = .error .assertion := by
  rw [gen_bisect_eq]; exact C18.bisect_rejects hbad tol maxiter

/-- `C18.chandrupatla_single_lane` for the regenerated `chandrupatla`. -/
theorem gen_chandrupatla_single_lane {f : ℝ → ℝ} {lo hi : ℝ} (hle : lo ≤ hi) (hflo : f lo ≤ 0)
    (hfhi : 0 ≤ f hi) (hc : ContinuousOn f (Set.Icc lo hi)) {epsM epsA : ℝ} (hM : 0 ≤ epsM)
    (hA : 0 ≤ epsA) {maxiter : ℕ} (hmax : 0 < maxiter) :
    ∃ K x, Gen.RootFind.chandrupatla (evalLanes fun _ => f) [lo] [hi] epsM epsA maxiter
        = .ok (K, [x]) ∧
      1 ≤ K ∧ K ≤ maxiter ∧ lo ≤ x ∧ x ≤ hi ∧
      (K = maxiter ∨ f x = 0 ∨
        ∃ r, lo ≤ r ∧ r ≤ hi ∧ f r = 0 ∧ |x - r| < 2 * (2 * epsM * |x| + epsA)) := by
  rw [gen_chandrupatla_eq]; exact C18.chandrupatla_single_lane hle hflo hfhi hc hM hA hmax

/-- `C18.chandrupatla_scalar` for the regenerated functions: scalar input returns what a
one-element vector returns. -/
theorem gen_chandrupatla_scalar (f : ℝ → ℝ) (lo hi epsM epsA : ℝ) (maxiter : ℕ) :
    Gen.RootFind.chandrupatla (evalLanes fun _ => f) [lo] [hi] epsM epsA maxiter
      = (Gen.RootFind.chandrupatlaScalar f lo hi epsM epsA maxiter).map (fun r => (r.1, [r.2])) := by
  rw [gen_chandrupatla_eq, gen_chandrupatlaScalar_eq]
  exact C18.chandrupatla_scalar f lo hi epsM epsA maxiter

/-- `C18.chandrupatla_rejects` for the regenerated `chandrupatla`. -/
theorem gen_chandrupatla_rejects {fs : ℕ → ℝ → ℝ} {xmin xmax : List ℝ} {i : ℕ} {lo hi : ℝ}
    (hlo : xmin[i]? = some lo) (hhi : xmax[i]? = some hi)
    (hbad : (0 < fs i hi ∧ 0 < fs i lo) ∨ (fs i hi < 0 ∧ fs i lo < 0))
    (epsM epsA : ℝ) (maxiter : ℕ) :
    Gen.RootFind.chandrupatla (evalLanes fs) xmin xmax epsM epsA maxiter = .error .assertion := by
  rw [gen_chandrupatla_eq]; exact C18.chandrupatla_rejects hlo hhi hbad epsM epsA maxiter

/-! ## non-vacuity -/

/-- the hypotheses of `gen_bisect_result` hold for a two-lane batch (same instance as in
`CopVerif.Props.C18`). -/
example : ValidBrackets (fun i x => if i = 0 then x else 1000 * (x - 2)) [-1, 2] [1, 5]
    ∧ ([-1, 2] : List ℝ) ≠ [] := by
  refine ⟨⟨rfl, ?_⟩, by simp⟩
  intro i lo hi h1 h2
  match i with
  | 0 => simp at h1 h2; subst h1; subst h2; norm_num
  | 1 => simp at h1 h2; subst h1; subst h2; norm_num
  | (n + 2) => simp at h1

end CopVerif.Props.C18b
