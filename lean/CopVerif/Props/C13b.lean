import CopVerif.Lemmas.CholeskyPD
import CopVerif.Lemmas.CholeskyDensity
import CopVerif.Props.C13
/-!
# C13b — the executable MVN density is defined for EVERY symmetric positive definite Σ

Property theorems only.  They remove the restriction `d ≤ 2` of `C13.mvn_pdf_defined_partial`:
the list-based Cholesky–Banachiewicz factorisation `CopVerif.Model.GaussTransform.cholesky` (the
one run at `Float` against scipy by the C13 tie) returns `some L` for every square, symmetric,
positive definite list matrix, in every dimension `d`; `L` is lower triangular with positive
diagonal and `L Lᵀ = A` entry by entry.  Hence `mvnPdf` / `mvnLogPdf` are defined.

`ent A i j` is entry `(i, j)` of the list matrix `A` (`ent_eq`).  Positive definiteness is the
standard one, in two equivalent forms (`posDef_forms_iff`): `xᵀ A x > 0` for every non-zero
`x : Fin d → ℝ`, and Mathlib's `Matrix.PosDef` of `Matrix.of fun i j : Fin d => ent A i j`.

Proof (in `CopVerif/Lemmas/CholeskyPD.lean`): induction on the rows still to be processed with the
invariant "the rows so far factor the leading principal block"; the next pivot
`a_kk − Σ_j ℓ_kj²` is the quadratic form of the leading `(k+1)` block at `(−L⁻ᵀ ℓ, 1)`, hence
positive (no determinants).

Second part (`Lemmas/CholeskyDensity.lean`): the executable form IS the textbook `N(0, A)` density.
With `Am = Matrix.of fun i j : Fin d => ent A i j`, `Am⁻¹` Mathlib's matrix inverse and
`z' = fun i : Fin d => z.getD i 0`: the model's `maha L z` (forward substitution, then `yᵀy`) is
`z'ᵀ Am⁻¹ z'`; the model's `(Π L_ii)²` is `det Am`; hence
`mvnPdf τ A z = some (exp(-½ z'ᵀAm⁻¹z') / √(τ^d · det Am))` (`τ` plays the role of `2π`) and
`mvnLogPdf τ A z = some (-(d/2) log τ - ½ log det Am - ½ z'ᵀAm⁻¹z')`.
-/
namespace CopVerif.Props.C13b
open CopVerif CopVerif.Model.GaussTransform Finset Matrix

/-- `ent A i j` is the entry in row `i`, column `j` of the list-of-rows matrix `A`
(`0` outside the stored cells). -/
theorem ent_eq (A : List (List ℝ)) (i j : ℕ) : ent A i j = (A.getD i []).getD j 0 := rfl

/-- The two statements of "symmetric positive definite" used below are equivalent: Mathlib's
`Matrix.PosDef` of the `d × d` matrix read off `A`, and "symmetric with `xᵀ A x > 0` for every
non-zero `x`". -/
theorem posDef_forms_iff (A : List (List ℝ)) (d : ℕ) :
    (Matrix.of fun i j : Fin d => ent A i j).PosDef ↔
      (∀ i j : Fin d, ent A i j = ent A j i) ∧
        ∀ x : Fin d → ℝ, x ≠ 0 → 0 < ∑ i : Fin d, ∑ j : Fin d, x i * ent A i j * x j :=
  posDef_of_iff A d

/-- **The Cholesky factorisation succeeds in every dimension.**  For every `d` and every list
matrix `A` with `d` rows of length `d` that is symmetric and positive definite, `cholesky A`
returns `some L`, and `L` is the Cholesky factor: `d` rows, row `i` of length `i + 1` (so `L` is
lower triangular: `ent L i j = 0` for `i < j`), positive diagonal, and `L Lᵀ = A` entry by entry. -/
theorem cholesky_defined {d : ℕ} (A : List (List ℝ)) (hrows : A.length = d)
    (hcols : ∀ r ∈ A, r.length = d) (hsym : ∀ i j : Fin d, ent A i j = ent A j i)
    (hpd : ∀ x : Fin d → ℝ, x ≠ 0 → 0 < ∑ i : Fin d, ∑ j : Fin d, x i * ent A i j * x j) :
    ∃ L, cholesky A = some L ∧ L.length = d ∧ (∀ i (h : i < L.length), L[i].length = i + 1) ∧
      (∀ i j, i < j → ent L i j = 0) ∧ (∀ i, i < d → 0 < ent L i i) ∧
      (∀ i j, i < d → j < d → ∑ m ∈ range d, ent L i m * ent L j m = ent A i j) :=
  cholesky_of_posDef hrows hcols hsym hpd

/-- The same with the hypothesis stated as Mathlib's `Matrix.PosDef`. -/
theorem cholesky_defined_posDef {d : ℕ} (A : List (List ℝ)) (hrows : A.length = d)
    (hcols : ∀ r ∈ A, r.length = d) (hpd : (Matrix.of fun i j : Fin d => ent A i j).PosDef) :
    ∃ L, cholesky A = some L ∧ L.length = d ∧ (∀ i (h : i < L.length), L[i].length = i + 1) ∧
      (∀ i j, i < j → ent L i j = 0) ∧ (∀ i, i < d → 0 < ent L i i) ∧
      (∀ i j, i < d → j < d → ∑ m ∈ range d, ent L i m * ent L j m = ent A i j) :=
  cholesky_of_matrix_posDef hrows hcols hpd

/-- **The density and the log-density are defined for every symmetric positive definite Σ**, in
every dimension `d` and for every `z` (full strength of `C13.mvn_pdf_defined_partial`). -/
theorem mvn_pdf_defined {τ : ℝ} {d : ℕ} (A : List (List ℝ)) (z : List ℝ) (hrows : A.length = d)
    (hcols : ∀ r ∈ A, r.length = d) (hsym : ∀ i j : Fin d, ent A i j = ent A j i)
    (hpd : ∀ x : Fin d → ℝ, x ≠ 0 → 0 < ∑ i : Fin d, ∑ j : Fin d, x i * ent A i j * x j) :
    (∃ p, mvnPdf τ A z = some p) ∧ (∃ q, mvnLogPdf τ A z = some q) := by
  obtain ⟨L, hL, -⟩ := cholesky_of_posDef hrows hcols hsym hpd
  exact ⟨⟨_, (mvn_defined_of_cholesky z hL).1⟩, ⟨_, (mvn_defined_of_cholesky z hL).2⟩⟩

/-- The same with the hypothesis stated as Mathlib's `Matrix.PosDef`. -/
theorem mvn_pdf_defined_posDef {τ : ℝ} {d : ℕ} (A : List (List ℝ)) (z : List ℝ)
    (hrows : A.length = d) (hcols : ∀ r ∈ A, r.length = d)
    (hpd : (Matrix.of fun i j : Fin d => ent A i j).PosDef) :
    (∃ p, mvnPdf τ A z = some p) ∧ (∃ q, mvnLogPdf τ A z = some q) :=
  mvn_pdf_defined A z hrows hcols ((posDef_of_iff A d).mp hpd).1 ((posDef_of_iff A d).mp hpd).2

/-- With `τ > 0` (the code uses `τ = 2π`) the defined density is positive and the log-density is
its logarithm. -/
theorem mvn_pdf_defined_pos {τ : ℝ} (hτ : 0 < τ) {d : ℕ} (A : List (List ℝ)) (z : List ℝ)
    (hrows : A.length = d) (hcols : ∀ r ∈ A, r.length = d)
    (hsym : ∀ i j : Fin d, ent A i j = ent A j i)
    (hpd : ∀ x : Fin d → ℝ, x ≠ 0 → 0 < ∑ i : Fin d, ∑ j : Fin d, x i * ent A i j * x j) :
    ∃ p, mvnPdf τ A z = some p ∧ 0 < p ∧ mvnLogPdf τ A z = some (Real.log p) := by
  obtain ⟨L, hL, -⟩ := cholesky_of_posDef hrows hcols hsym hpd
  obtain ⟨h1, h2⟩ := mvn_defined_of_cholesky (τ := τ) z hL
  refine ⟨_, h1, C13.mvn_pdf_pos hτ A z h1, ?_⟩
  rw [h2, mvnPdfChol_eq_exp_log hτ (cholesky_diagPos hL) z, Real.log_exp]

/-- non-vacuity: the `3 × 3` correlation matrix with `ρ₀₁ = ρ₁₂ = 1/2`, `ρ₀₂ = 1/4` satisfies every
hypothesis of `cholesky_defined` / `mvn_pdf_defined`
(`xᵀAx = (x₀ + x₁/2 + x₂/4)² + ¾ (x₁ + x₂/2)² + ¾ x₂²`). -/
theorem spd_three_instance :
    ([[1, 1/2, 1/4], [1/2, 1, 1/2], [1/4, 1/2, 1]] : List (List ℝ)).length = 3 ∧
    (∀ r ∈ ([[1, 1/2, 1/4], [1/2, 1, 1/2], [1/4, 1/2, 1]] : List (List ℝ)), r.length = 3) ∧
    (∀ i j : Fin 3, ent [[1, 1/2, 1/4], [1/2, 1, 1/2], [1/4, 1/2, 1]] i j
      = ent [[1, 1/2, 1/4], [1/2, 1, 1/2], [1/4, 1/2, 1]] j i) ∧
    ∀ x : Fin 3 → ℝ, x ≠ 0 → 0 < ∑ i : Fin 3, ∑ j : Fin 3,
      x i * ent [[1, 1/2, 1/4], [1/2, 1, 1/2], [1/4, 1/2, 1]] i j * x j := by
  refine ⟨rfl, by simp, ?_, ?_⟩
  · intro i j
    fin_cases i <;> fin_cases j <;> simp [ent]
  · intro x hx
    have hne : x 0 ≠ 0 ∨ x 1 ≠ 0 ∨ x 2 ≠ 0 := by
      by_contra h
      simp only [not_or, not_not] at h
      exact hx (funext fun i => by fin_cases i <;> simp [h.1, h.2.1, h.2.2])
    simp only [Fin.sum_univ_three, ent]
    simp only [Fin.val_zero, Fin.val_one, Fin.val_two, List.getD_cons_zero, List.getD_cons_succ]
    by_cases h2 : x 2 = 0
    · by_cases h1 : x 1 = 0
      · have h0 : x 0 ≠ 0 := by tauto
        have := mul_self_pos.mpr h0
        rw [h1, h2]; nlinarith
      · have := mul_self_pos.mpr h1
        rw [h2]; nlinarith [sq_nonneg (x 0 + x 1 / 2)]
    · have := mul_self_pos.mpr h2
      nlinarith [sq_nonneg (x 0 + x 1 / 2 + x 2 / 4), sq_nonneg (x 1 + x 2 / 2)]

/-- … hence its density and log-density are defined at every point (`mvn_pdf_defined` at `d = 3`). -/
example (τ : ℝ) (z : List ℝ) :
    (∃ p, mvnPdf τ [[1, 1/2, 1/4], [1/2, 1, 1/2], [1/4, 1/2, 1]] z = some p) ∧
      (∃ q, mvnLogPdf τ [[1, 1/2, 1/4], [1/2, 1, 1/2], [1/4, 1/2, 1]] z = some q) :=
  mvn_pdf_defined (d := 3) _ z spd_three_instance.1 spd_three_instance.2.1
    spd_three_instance.2.2.1 spd_three_instance.2.2.2

/-- the same matrix through the `Matrix.PosDef` form. -/
example : (Matrix.of fun i j : Fin 3 =>
    ent [[1, 1/2, 1/4], [1/2, 1, 1/2], [1/4, 1/2, 1]] i j).PosDef :=
  (posDef_forms_iff _ 3).mpr ⟨spd_three_instance.2.2.1, spd_three_instance.2.2.2⟩

/-! ## the executable Cholesky form is the textbook `N(0, A)` density -/

/-- **(1) The Mahalanobis form.**  For `A` symmetric positive definite and `L` the factor returned by
`cholesky A`, the quantity `maha L z` that the model computes (forward substitution `L y = z`, then
`Σ y_k²`) equals `zᵀ A⁻¹ z`, with `A⁻¹` Mathlib's inverse of the `d × d` matrix read off `A`. -/
theorem maha_eq_inverse_form {d : ℕ} (A L : List (List ℝ)) (z : List ℝ) (hrows : A.length = d)
    (hcols : ∀ r ∈ A, r.length = d) (hsym : ∀ i j : Fin d, ent A i j = ent A j i)
    (hpd : ∀ x : Fin d → ℝ, x ≠ 0 → 0 < ∑ i : Fin d, ∑ j : Fin d, x i * ent A i j * x j)
    (hL : cholesky A = some L) (hz : z.length = d) :
    maha L z = (fun i : Fin d => z.getD i 0) ⬝ᵥ
      ((Matrix.of fun i j : Fin d => ent A i j)⁻¹ *ᵥ fun i : Fin d => z.getD i 0) :=
  (isChol_of_posDef hrows hcols hsym hpd hL).maha_eq z hz

/-- **(2) The determinant.**  The squared product of the diagonal of the returned factor (the
model's `prodL (diag L) * prodL (diag L)`) is `det A`, which is positive; so the normalising constant
under the square root of `mvnPdfChol` is `τ^d · det A`, and `Σ log L_ii` of the log form is
`½ log det A`. -/
theorem chol_diag_sq_eq_det {d : ℕ} (A L : List (List ℝ)) (τ : ℝ) (hrows : A.length = d)
    (hcols : ∀ r ∈ A, r.length = d) (hsym : ∀ i j : Fin d, ent A i j = ent A j i)
    (hpd : ∀ x : Fin d → ℝ, x ≠ 0 → 0 < ∑ i : Fin d, ∑ j : Fin d, x i * ent A i j * x j)
    (hL : cholesky A = some L) :
    prodL (diag L) * prodL (diag L) = (Matrix.of fun i j : Fin d => ent A i j).det ∧
      0 < (Matrix.of fun i j : Fin d => ent A i j).det ∧
      prodL (List.replicate L.length τ) * (prodL (diag L) * prodL (diag L))
        = τ ^ d * (Matrix.of fun i j : Fin d => ent A i j).det ∧
      sumL ((diag L).map Real.log)
        = (1 / 2) * Real.log (Matrix.of fun i j : Fin d => ent A i j).det := by
  have h := isChol_of_posDef hrows hcols hsym hpd hL
  have hP : 0 < prodL (diag L) := by rw [h.prodL_diag]; exact h.prod_pos
  refine ⟨by rw [h.prodL_diag, h.det_a], h.det_a_pos, h.norm_const τ, ?_⟩
  rw [h.det_a, ← h.prodL_diag, Real.log_mul hP.ne' hP.ne', prodL_eq_exp (diag_pos h.diagPos),
    Real.log_exp]
  ring

/-- **(3) The executable density is the textbook `N(0, A)` density**: for every `d`, every symmetric
positive definite `d × d` list matrix `A` and every `z` of length `d`,
`mvnPdf τ A z = exp(-½ zᵀA⁻¹z) / √(τ^d · det A)` (`τ = 2π` in the code; `det A > 0` by
`chol_diag_sq_eq_det`, so for `τ > 0` the square root is of a positive number). -/
theorem mvn_pdf_textbook {τ : ℝ} {d : ℕ} (A : List (List ℝ)) (z : List ℝ) (hrows : A.length = d)
    (hcols : ∀ r ∈ A, r.length = d) (hsym : ∀ i j : Fin d, ent A i j = ent A j i)
    (hpd : ∀ x : Fin d → ℝ, x ≠ 0 → 0 < ∑ i : Fin d, ∑ j : Fin d, x i * ent A i j * x j)
    (hz : z.length = d) :
    mvnPdf τ A z = some (Real.exp (-(1 / 2) * ((fun i : Fin d => z.getD i 0) ⬝ᵥ
        ((Matrix.of fun i j : Fin d => ent A i j)⁻¹ *ᵥ fun i : Fin d => z.getD i 0))) /
      Real.sqrt (τ ^ d * (Matrix.of fun i j : Fin d => ent A i j).det)) := by
  obtain ⟨L, hL, -⟩ := cholesky_of_posDef hrows hcols hsym hpd
  rw [(mvn_defined_of_cholesky z hL).1,
    (isChol_of_posDef hrows hcols hsym hpd hL).mvnPdfChol_textbook τ z hz]

/-- … and the log-density is `-(d/2) log τ - ½ log det A - ½ zᵀA⁻¹z` (`det A > 0`; genuine
logarithms for `τ > 0`). -/
theorem mvn_log_pdf_textbook {τ : ℝ} {d : ℕ} (A : List (List ℝ)) (z : List ℝ)
    (hrows : A.length = d) (hcols : ∀ r ∈ A, r.length = d)
    (hsym : ∀ i j : Fin d, ent A i j = ent A j i)
    (hpd : ∀ x : Fin d → ℝ, x ≠ 0 → 0 < ∑ i : Fin d, ∑ j : Fin d, x i * ent A i j * x j)
    (hz : z.length = d) :
    mvnLogPdf τ A z = some (-((d : ℝ) / 2) * Real.log τ
      - (1 / 2) * Real.log (Matrix.of fun i j : Fin d => ent A i j).det
      - (1 / 2) * ((fun i : Fin d => z.getD i 0) ⬝ᵥ
        ((Matrix.of fun i j : Fin d => ent A i j)⁻¹ *ᵥ fun i : Fin d => z.getD i 0))) := by
  obtain ⟨L, hL, -⟩ := cholesky_of_posDef hrows hcols hsym hpd
  rw [(mvn_defined_of_cholesky z hL).2,
    (isChol_of_posDef hrows hcols hsym hpd hL).mvnLogPdfChol_textbook τ z hz]

/-- non-vacuity of `mvn_pdf_textbook` / `mvn_log_pdf_textbook`: the `3 × 3` correlation matrix of
`spd_three_instance`, any `z` of length 3. -/
example (τ : ℝ) (z : List ℝ) (hz : z.length = 3) :
    mvnPdf τ [[1, 1/2, 1/4], [1/2, 1, 1/2], [1/4, 1/2, 1]] z
      = some (Real.exp (-(1 / 2) * ((fun i : Fin 3 => z.getD i 0) ⬝ᵥ
          ((Matrix.of fun i j : Fin 3 => ent [[1, 1/2, 1/4], [1/2, 1, 1/2], [1/4, 1/2, 1]] i j)⁻¹
            *ᵥ fun i : Fin 3 => z.getD i 0))) /
        Real.sqrt (τ ^ 3 * (Matrix.of fun i j : Fin 3 =>
          ent [[1, 1/2, 1/4], [1/2, 1, 1/2], [1/4, 1/2, 1]] i j).det)) :=
  mvn_pdf_textbook _ z spd_three_instance.1 spd_three_instance.2.1
    spd_three_instance.2.2.1 spd_three_instance.2.2.2 hz

end CopVerif.Props.C13b
