import CopVerif.Real.BoundaryLimit
import CopVerif.Props.C06
/-!
# C06b — the boundary `C(u,0) = C(0,v) = 0` of the Gumbel (and Clayton) CDF as a limit

Property theorems only.  `C06.gumbel_boundary_zero_partial` covers only the `θ = 1` product branch:
for `θ > 1` the code evaluates `exp(−((−log 0)^θ + …)^{1/θ})`, which in IEEE arithmetic goes through
`log 0 = −∞`, `(+∞)^θ = +∞`, `exp(−∞) = 0`.  Over ℝ Lean's `Real.log 0 = 0` turns the same formula
into a junk value (`gumbel_formula_at_zero_is_junk`: it evaluates to `v`, not `0`), so no statement
about the formula AT `0` can speak about the code.  What is proved instead, for every `θ ≥ 1`:

* `C(u,v) → 0` as `u → 0⁺` (`v ∈ (0,1]` fixed) and as `v → 0⁺` (`u ∈ (0,1]` fixed);
* the closed form extended by `0` to the two edges is continuous on the CLOSED unit square, i.e.
  `0` is the only value at the edges compatible with the formula on `(0,1]²` (joint limits
  included, also at the corner `(0,0)`).

That the Float evaluation at `u = 0` or `v = 0` really returns `0.0` remains the Float-level tie of
the C06 correspondence run.  For Clayton the code has an explicit boundary branch, so
`C06.clayton_boundary_zero` is exact; `clayton_boundary_continuous` adds that this branch is the
continuous extension of the closed form.
-/
namespace CopVerif.Props.C06b
open CopVerif Filter Set
open scoped Topology

/-! ## Gumbel (every θ ≥ 1) -/

/-- `C(u,v) → 0` as `u → 0⁺` for fixed `v ∈ (0,1]`, and as `v → 0⁺` for fixed `u ∈ (0,1]`. -/
theorem gumbel_boundary_zero_limit {θ : ℝ} (hθ : 1 ≤ θ) :
    (∀ v : ℝ, 0 < v → v ≤ 1 → Tendsto (fun u => Gen.Gumbel.cdfPt θ u v) (𝓝[>] 0) (𝓝 0)) ∧
    (∀ u : ℝ, 0 < u → u ≤ 1 → Tendsto (fun v => Gen.Gumbel.cdfPt θ u v) (𝓝[>] 0) (𝓝 0)) :=
  ⟨fun _ hv hv1 => BoundaryLimit.gumbel_tendsto_left hθ hv hv1,
    fun _ hu hu1 => BoundaryLimit.gumbel_tendsto_right hθ hu hu1⟩

/-- The same for the general closed form `cdfRow` alone (no `θ = 1` shortcut). -/
theorem gumbel_closed_form_boundary_limit {θ : ℝ} (hθ : 1 ≤ θ) :
    (∀ v : ℝ, 0 < v → v ≤ 1 → Tendsto (fun u => Gen.Gumbel.cdfRow θ u v) (𝓝[>] 0) (𝓝 0)) ∧
    (∀ u : ℝ, 0 < u → u ≤ 1 → Tendsto (fun v => Gen.Gumbel.cdfRow θ u v) (𝓝[>] 0) (𝓝 0)) := by
  simp only [Gumbel.bridge_cdfRow]
  refine ⟨fun v hv hv1 => ?_, fun u hu hu1 => Gumbel.tendsto_C_right_zero hθ hu hu1⟩
  simp only [Gumbel.C_symm θ _ v]
  exact Gumbel.tendsto_C_right_zero hθ hv hv1

/-- The CDF extended by the value `0` on the edges `u = 0` and `v = 0` is continuous on the closed
unit square `[0,1]²` (so all joint limits at the edges, the corner `(0,0)` included, are `0`), it is
squeezed by `0 ≤ C ≤ min u v` there, and it agrees with the code's value on `(0,1]²`. -/
theorem gumbel_boundary_zero_extension {θ : ℝ} (hθ : 1 ≤ θ) :
    ContinuousOn
      (fun p : ℝ × ℝ => if 0 < p.1 ∧ 0 < p.2 then Gen.Gumbel.cdfPt θ p.1 p.2 else 0)
      (Icc (0 : ℝ) 1 ×ˢ Icc (0 : ℝ) 1) ∧
    ∀ u v : ℝ, 0 < u → u ≤ 1 → 0 < v → v ≤ 1 →
      0 < Gen.Gumbel.cdfPt θ u v ∧ Gen.Gumbel.cdfPt θ u v ≤ min u v := by
  refine ⟨BoundaryLimit.gumbelExt_continuousOn hθ, fun u v hu hu1 hv hv1 => ?_⟩
  rw [BoundaryLimit.gumbel_cdfPt_of_pos hu hv]
  exact ⟨Gumbel.C_pos hθ hu hu1 hv hv1, Gumbel.C_le_min hθ hu hu1 hv hv1⟩

/-- Why the limit formulation: over ℝ (`Real.log 0 = 0`) the closed form AT the edge evaluates to
`C(0,v) = v` and `C(u,0) = u`, an artefact of totalisation and not the code's IEEE value `0`. -/
theorem gumbel_formula_at_zero_is_junk {θ t : ℝ} (hθ : 1 ≤ θ) (ht : 0 < t) (ht1 : t ≤ 1) :
    Gen.Gumbel.cdfRow θ 0 t = t ∧ Gen.Gumbel.cdfRow θ t 0 = t := by
  simp only [Gumbel.bridge_cdfRow]
  refine ⟨BoundaryLimit.gumbel_formula_junk hθ ht ht1, ?_⟩
  rw [Gumbel.C_symm]; exact BoundaryLimit.gumbel_formula_junk hθ ht ht1

/-! ## Clayton (θ > 0) -/

/-- Clayton: the explicit boundary branch (`C06.clayton_boundary_zero`) is the continuous extension
of the closed form: `C → 0` at each edge and `C` is continuous on the closed unit square. -/
theorem clayton_boundary_continuous {θ : ℝ} (hθ : 0 < θ) :
    (∀ v : ℝ, 0 < v → v ≤ 1 → Tendsto (fun u => Gen.Clayton.cdfRow θ u v) (𝓝[>] 0) (𝓝 0)) ∧
    (∀ u : ℝ, 0 < u → u ≤ 1 → Tendsto (fun v => Gen.Clayton.cdfRow θ u v) (𝓝[>] 0) (𝓝 0)) ∧
    ContinuousOn (fun p : ℝ × ℝ => Gen.Clayton.cdfRow θ p.1 p.2)
      (Icc (0 : ℝ) 1 ×ˢ Icc (0 : ℝ) 1) :=
  ⟨fun _ hv hv1 => BoundaryLimit.clayton_tendsto_left hθ hv hv1,
    fun _ hu hu1 => BoundaryLimit.clayton_tendsto_right hθ hu hu1,
    BoundaryLimit.clayton_C_continuousOn hθ⟩

/-! ## non-vacuity -/

example : Tendsto (fun u => Gen.Gumbel.cdfPt (2 : ℝ) u (1 / 2)) (𝓝[>] 0) (𝓝 0) :=
  (gumbel_boundary_zero_limit (by norm_num)).1 _ (by norm_num) (by norm_num)

example : Tendsto (fun v => Gen.Gumbel.cdfRow (5 : ℝ) 1 v) (𝓝[>] 0) (𝓝 0) :=
  (gumbel_closed_form_boundary_limit (by norm_num)).2 _ (by norm_num) le_rfl

example : Gen.Gumbel.cdfRow (2 : ℝ) 0 (1 / 2) = 1 / 2 :=
  (gumbel_formula_at_zero_is_junk (by norm_num) (by norm_num) (by norm_num)).1

example : Tendsto (fun u => Gen.Clayton.cdfRow (2 : ℝ) u (1 / 2)) (𝓝[>] 0) (𝓝 0) :=
  (clayton_boundary_continuous (by norm_num)).1 _ (by norm_num) (by norm_num)

end CopVerif.Props.C06b
