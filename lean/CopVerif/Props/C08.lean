import CopVerif.Real.ClaytonDeriv
import CopVerif.Real.GumbelDeriv
import CopVerif.Real.Frank
/-!
# C08 — percent_point inverts the conditional CDF of every bivariate copula

Clayton has a closed form (generated, `Gen.Clayton.ppf`); Frank and Gumbel use the generic loop
`[brentq(lambda u: h(u, v_i) - y_i, EPSILON, 1) for i]`, generated as `xs.map fun p => brent p.1 p.2`
with the root finder an external symbol.
-/
namespace CopVerif.Props.C08
open CopVerif

/-! ## Clayton closed form -/

theorem clayton_ppf_inverts {θ y v : ℝ} (hθ : 0 < θ) (hy : 0 < y) (hy1 : y ≤ 1) (hv : 0 < v) :
    Gen.Clayton.hRow θ (Gen.Clayton.ppfRow θ y v) v = y := by
  simp only [Clayton.bridge_hRow, Clayton.bridge_ppfRow]; exact Clayton.h_ppf hθ hy hy1 hv

theorem clayton_ppf_range {θ y v : ℝ} (hθ : 0 < θ) (hy : 0 < y) (hy1 : y ≤ 1) (hv : 0 < v) :
    0 < Gen.Clayton.ppfRow θ y v ∧ Gen.Clayton.ppfRow θ y v ≤ 1 := by
  rw [Clayton.bridge_ppfRow]; exact Clayton.ppf_mem_Ioc hθ hy hy1 hv

theorem clayton_ppf_strictMono_y {θ v : ℝ} (hθ : 0 < θ) (hv : 0 < v) :
    StrictMonoOn (fun y => Gen.Clayton.ppfRow θ y v) (Set.Ioc 0 1) := by
  have : (fun y => Gen.Clayton.ppfRow θ y v) = fun y => Clayton.ppf θ y v := by
    funext y; exact Clayton.bridge_ppfRow θ y v
  rw [this]; exact Clayton.ppf_strictMonoOn hθ hv

/-- Element-wise: output i depends only on `(y_i, v_i)` — for every batch with all `v > 0`
(the `(b == 0).all()` shortcut and the `θ < 0` branch are unreachable). -/
theorem clayton_ppf_elementwise {θ : ℝ} (hθ : 0 < θ) (xs : List (ℝ × ℝ)) (hpos : ∀ p ∈ xs, 0 < p.2) :
    Gen.Clayton.ppf θ xs = .ok (xs.map fun p => Gen.Clayton.ppfRow θ p.1 p.2) := by
  rw [Clayton.ppf_rowwise hθ xs hpos]; simp only [Clayton.bridge_ppfRow]

/-- The shortcut is not harmless outside the domain: on the single row `(y, 0)` the method returns 1
(recorded; the property's domain has `v ≥ 1e-4`). -/
theorem clayton_ppf_shortcut_outside_domain {θ : ℝ} (hθ : 0 < θ) (y : ℝ) :
    Gen.Clayton.ppf θ [(y, 0)] = .ok [1] := (Clayton.ppf_shortcut_fires hθ y).1

/-! ## Uniqueness of the inverse (all three families): `h(·, v)` is strictly increasing -/

theorem clayton_h_strictMono_u {θ v : ℝ} (hθ : 0 < θ) (hv : 0 < v) :
    StrictMonoOn (fun u => Gen.Clayton.hRow θ u v) (Set.Ioc 0 1) := by
  have : (fun u => Gen.Clayton.hRow θ u v) = fun u => Clayton.h θ u v := by
    funext u; exact Clayton.bridge_hRow θ u v
  rw [this]; exact Clayton.h_strictMonoOn hθ hv

theorem frank_h_strictMono_u {θ u u' : ℝ} (hθ : θ ≠ 0) (hu : 0 ≤ u) (huu : u < u') (hu1 : u' ≤ 1)
    (v : ℝ) : Gen.Frank.hRow θ u v < Gen.Frank.hRow θ u' v := by
  simp only [Frank.bridge_hRow]; exact Frank.h_strictMono_left hθ hu huu hu1 v

/-! ## Generic loop (Frank, Gumbel): correctness given a root finder that returns a root -/

/-- If the external root finder returns, for every row, a point `u ∈ [ε, 1]` with `h(u, v) = y`, then
every output of the generated `percent_point` satisfies the inversion equation and lies in `[ε,1]`,
and output `i` is `brent y_i v_i` (element-wise). -/
theorem frank_generic_ppf_correct {θ ε : ℝ} (hθ : θ ≠ 0) (brent : ℝ → ℝ → ℝ) (xs : List (ℝ × ℝ))
    (hroot : ∀ p ∈ xs, ε ≤ brent p.1 p.2 ∧ brent p.1 p.2 ≤ 1 ∧
      Gen.Frank.hRow θ (brent p.1 p.2) p.2 = p.1) :
    ∃ us, Gen.Frank.ppf θ brent xs = .ok us ∧ us = xs.map (fun p => brent p.1 p.2) ∧
      ∀ i (hi : i < xs.length), ∃ u, us[i]? = some u ∧ ε ≤ u ∧ u ≤ 1 ∧
        Gen.Frank.hRow θ u (xs[i]).2 = (xs[i]).1 := by
  refine ⟨xs.map (fun p => brent p.1 p.2), ?_, rfl, ?_⟩
  · unfold Gen.Frank.ppf
    rw [Frank.checkFit_ok hθ]
    simp [hθ]
  · intro i hi
    refine ⟨brent (xs[i]).1 (xs[i]).2, by simp [hi], ?_⟩
    exact hroot (xs[i]) (List.getElem_mem hi)

theorem gumbel_generic_ppf_correct {θ ε : ℝ} (hθ : 1 < θ) (brent : ℝ → ℝ → ℝ) (xs : List (ℝ × ℝ))
    (hroot : ∀ p ∈ xs, ε ≤ brent p.1 p.2 ∧ brent p.1 p.2 ≤ 1 ∧
      Gen.Gumbel.hRow θ (brent p.1 p.2) p.2 = p.1) :
    ∃ us, Gen.Gumbel.ppf θ brent xs = .ok us ∧ us = xs.map (fun p => brent p.1 p.2) ∧
      ∀ i (hi : i < xs.length), ∃ u, us[i]? = some u ∧ ε ≤ u ∧ u ≤ 1 ∧
        Gen.Gumbel.hRow θ u (xs[i]).2 = (xs[i]).1 := by
  refine ⟨xs.map (fun p => brent p.1 p.2), ?_, rfl, ?_⟩
  · unfold Gen.Gumbel.ppf
    rw [Gumbel.checkFit_ok hθ.le]
    simp [hθ.ne']
  · intro i hi
    refine ⟨brent (xs[i]).1 (xs[i]).2, by simp [hi], ?_⟩
    exact hroot (xs[i]) (List.getElem_mem hi)

/-- Gumbel θ = 1 (independence shortcut): `percent_point(y, v) = y`, and that is the inverse of the
(repaired) conditional CDF `h(u, v) = u` — element-wise, for every batch, without the root finder. -/
theorem gumbel_ppf_theta_one (brent : ℝ → ℝ → ℝ) (xs : List (ℝ × ℝ)) :
    Gen.Gumbel.ppf (1 : ℝ) brent xs = .ok (xs.map fun p => p.1) ∧
      ∀ y v : ℝ, Gen.Gumbel.h (1 : ℝ) [(y, v)] = .ok [y] := by
  constructor
  · unfold Gen.Gumbel.ppf
    rw [Gumbel.checkFit_ok le_rfl]
    simp [Gen.Gumbel.ppf_leaf0]
  · intro y v
    rw [Gumbel.h_theta_one_rowwise]; simp

/-- Bracket validity for Frank: `h(0,v) = 0 < y < 1 = h(1,v)` and `h(·,v)` is continuous and strictly
increasing on `[0,1]`, so a root exists in `(0,1)` and is unique; that the root lies above the
code's lower bracket end `ε = 2⁻²³` (i.e. `h(ε,v) ≤ y`) is the numeric clause left `_partial`
(`bracket_valid`), validated by the tie on the property's domain. -/
theorem frank_root_exists_unique_partial {θ y : ℝ} (hθ : θ ≠ 0) (hy : 0 < y) (hy1 : y < 1) (v : ℝ) :
    ∃! u, u ∈ Set.Icc (0:ℝ) 1 ∧ Gen.Frank.hRow θ u v = y := by
  have hcont : ContinuousOn (fun u => Frank.h θ u v) (Set.Icc 0 1) := by
    intro u hu
    exact (Frank.hasDerivAt_h_left hθ hu.1 hu.2 v).continuousAt.continuousWithinAt
  have h0 : Frank.h θ 0 v = 0 := Frank.h_zero_left θ v
  have h1 : Frank.h θ 1 v = 1 := Frank.h_one_left hθ v
  have hmem : y ∈ Set.Icc (Frank.h θ 0 v) (Frank.h θ 1 v) := by
    rw [h0, h1]; exact ⟨hy.le, hy1.le⟩
  obtain ⟨u, hu, hyu⟩ := intermediate_value_Icc (by norm_num : (0:ℝ) ≤ 1) hcont hmem
  refine ⟨u, ⟨hu, by simpa only [Frank.bridge_hRow] using hyu⟩, ?_⟩
  rintro u' ⟨hu', hy'⟩
  rw [Frank.bridge_hRow] at hy'
  by_contra hne
  rcases lt_or_gt_of_ne hne with hlt | hgt
  · have := Frank.h_strictMono_left hθ hu'.1 hlt hu.2 v
    simp only at hyu; rw [hy', hyu] at this; exact lt_irrefl _ this
  · have := Frank.h_strictMono_left hθ hu.1 hgt hu'.2 v
    simp only at hyu; rw [hy', hyu] at this; exact lt_irrefl _ this

example : (0:ℝ) < 2 ∧ (0:ℝ) < 1/2 ∧ (1/2:ℝ) ≤ 1 ∧ (0:ℝ) < 1/3 := by norm_num

end CopVerif.Props.C08
